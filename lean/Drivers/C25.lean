import BoxoModel.C25.Model
import BoxoModel.C26.Time
/-! Line-protocol driver for C25. One op kind:
  val k=v …   (see harness/cmd/c25/main.go for the fields; unknown fields are ignored)
The crypto / codec parameters of the model are instantiated with the verdicts observed by the
generator for exactly the arguments the model can query. -/
open C25

def hexVal (c : Char) : Option Nat :=
  if '0' ≤ c ∧ c ≤ '9' then some (c.toNat - '0'.toNat)
  else if 'a' ≤ c ∧ c ≤ 'f' then some (c.toNat - 'a'.toNat + 10)
  else none

def parseHexAux : List Char → List Nat → Option (List Nat)
  | [], acc => some acc.reverse
  | [_], _ => none
  | a :: b :: r, acc => do
    let x ← hexVal a
    let y ← hexVal b
    parseHexAux r ((x * 16 + y) :: acc)

def parseHex (s : String) : Option (List Nat) :=
  if s == "-" then some [] else parseHexAux s.toList []

def hexStr (s : String) : Option String := do
  let bs ← parseHex s
  -- a mutated key may be invalid UTF-8 (go-ipld-prime accepts it): map its bytes to characters then;
  -- keys are only ever compared with the ASCII names of the reserved fields
  match String.fromUTF8? (ByteArray.mk (bs.map (·.toUInt8)).toArray) with
  | some s => pure s
  | none => pure (String.ofList (bs.map fun n => Char.ofNat n))

def kv (toks : List String) (k : String) : String :=
  match toks.find? (·.startsWith (k ++ "=")) with
  | some t => (t.drop (k.length + 1)).toString
  | none => ""

def parseCVal (kind v : String) : Option CVal :=
  match kind with
  | "b" => (parseHex v).map .bytes
  | "i" => v.toInt?.map .int
  | "s" => some (.str v)
  | "t" => some (.bool (v == "1"))
  | _ => some .other

def parseNode (s : String) : Option Node :=
  if s == "-" then some [] else
  (s.splitOn ";").mapM fun e =>
    match e.splitOn ":" with
    | [k, kind, v] => do pure ((← hexStr k), (← parseCVal kind v))
    | _ => none

def showErr : Err → String
  | .size => "size"
  | .signature => "sig"
  | .invalidRecord => "invalid"
  | .mismatch => "mismatch"
  | .cbor => "other"
  | .unrecognizedValidity => "unrecvalidity"
  | .invalidValidity => "invalidvalidity"
  | .expired => "expired"
  | .keyMismatch => "keymismatch"
  | .invalidKey => "badkey"
  | .keyNotFound => "nokey"
  | .invalidName => "badname"
  | .invalidPath => "badpath"

def showU (r : Except Err Unit) : String :=
  match r with
  | .ok () => "ok"
  | .error e => showErr e

def showX {α} [ToString α] (r : Except Err α) : String :=
  match r with
  | .ok a => toString a
  | .error e => showErr e

def stepLine (line : String) : String :=
  let toks := (line.trimAscii.toString.splitOn " ").filter (· ≠ "")
  match toks with
  | ["case", n] => s!"case {n}"
  | ["end"] => "end"
  | "obj" :: f =>
    -- ValidateWithName on an in-memory record made by NewRecord (well-formed in every respect): only
    -- the size of the protobuf message varies
    let g := kv f
    match (g "size").toNat?, (g "eol").toInt?, (g "now").toInt? with
    | some size, some eol, some now =>
      let nd : Node := [("TTL", .int 60000000000), ("Value", .bytes [47]), ("Sequence", .int 0),
        ("Validity", .bytes [50]), ("ValidityType", .int 0)]
      let pb : Pb := { sigV2 := [1], data := [1], size := size }
      let C : Crypto := { verify := fun _ _ _ => true, parseKey := fun _ => none, nameOf := fun _ => 1,
                          inlineKey := fun _ => some 1 }
      s!"size={size} vwn={showU (validateWithName C (fun _ => some nd) (fun _ => some eol) now ⟨pb, nd⟩ 1)}"
    | _, _, _ => "bad-op"
  | "val" :: f =>
    let g := kv f
    let r : Option String := do
      let rawLen ← (g "rawlen").toNat?
      let now ← (g "now").toInt?
      let name : Option Nat := if g "name" == "-" then none else some 1
      let node : Option Node := if g "cbor" == "bad" then none else parseNode (g "cbor")
      let pb : Option Pb ←
        if g "pb" == "bad" then pure none
        else do
          pure (some { value := ← parseHex (g "v"), sigV1 := ← parseHex (g "s1"), validityType := ← (g "vt").toInt?,
                       validity := ← parseHex (g "vy"), sequence := ← (g "seq").toNat?, ttl := ← (g "ttl").toNat?,
                       pubKey := ← parseHex (g "pk"), sigV2 := ← parseHex (g "s2"), data := ← parseHex (g "data"),
                       size := ← (g "size").toNat? })
      let decode : Bytes → Option Node := fun _ => node
      -- RFC3339 parsing is the model's (BoxoModel/C26/Time.lean), applied to the signed Validity bytes;
      -- the generator's `eol=` verdict is no longer used
      let parseTime : Bytes → Option Int := C26.Time.parseTime
      let pathS := g "path"
      let parsePath : Bytes → Option String := fun _ => if pathS == "bad" || pathS == "-" then none else some pathS
      let C : Crypto := {
        -- key 1 = the key extracted from record / name, key 3 = the key the key book holds for the name
        verify := fun pk _ _ => if pk == 3 then g "bookver" == "1" else g "ver" == "1"
        parseKey := fun _ => if g "pkparse" == "ok" then some 1 else none
        nameOf := fun _ => if g "nameof" == "same" then 1 else 2
        inlineKey := fun _ => if g "inline" == "ok" then some 1 else none }
      let vv := validatorValidate C decode parseTime now name rawLen pb
      -- Validator with an empty key book, and with a key book that holds the key of the name
      let vve := validatorValidateKB C decode parseTime now (some fun _ => none) name rawLen pb
      let vvk := validatorValidateKB C decode parseTime now
        (some fun _ => if g "bookver" == "-" then none else some 3) name rawLen pb
      match unmarshal decode rawLen pb with
      | .error e => pure s!"unm={showErr e} vv={showU vv} vve={showU vve} vvk={showU vvk}"
      | .ok rec =>
        let vwn := match name with
          | some n => showU (validateWithName C decode parseTime now rec n)
          | none => "-"
        pure s!"unm=ok vwn={vwn} vv={showU vv} vve={showU vve} vvk={showU vvk} seq={showX (sequence rec)} ttl={showX (ttl rec)} vt={showX (validityType rec)} eol={showX (validity parseTime rec)} val={showX (value parsePath rec)}"
    r.getD "bad-op"
  | _ => "bad-op"

partial def loop (h : IO.FS.Stream) (out : IO.FS.Stream) : IO Unit := do
  let line ← h.getLine
  if line.isEmpty then return ()
  out.putStrLn (stepLine line)
  loop h out

def main : IO Unit := do
  let out ← IO.getStdout
  loop (← IO.getStdin) out
