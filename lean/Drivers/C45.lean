import BoxoModel.C45.Model
/-! Line-protocol driver for C45 (protocol: see harness/cmd/c45/main.go).  The model runs the repaired
code (`atomic`, `fallbackOlder`); `C45_UNFIXED=1` runs the model of the code before the first fix, `C45_UNFIXED2=1` before the second and third
(cleanup by name only, `.last-refresh` required). -/
open FS C45

def hexVal (c : Char) : Nat :=
  if c.isDigit then c.toNat - 48 else if 'a' ≤ c ∧ c ≤ 'f' then c.toNat - 87 else 0

def unhex (s : String) : List UInt8 :=
  if s == "-" then [] else
  let rec go : List Char → List UInt8
    | a :: b :: r => UInt8.ofNat (hexVal a * 16 + hexVal b) :: go r
    | _ => []
  go s.toList

def hexDigit (n : Nat) : Char := if n < 10 then Char.ofNat (48 + n) else Char.ofNat (87 + n)
def hex (b : List UInt8) : String :=
  if b.isEmpty then "-" else String.ofList (b.flatMap fun x => [hexDigit (x.toNat / 16), hexDigit (x.toNat % 16)])

def base : Nat := 1000000000
def cdir : Path := ["cache"]

structure DSt where
  w : World := AMap.insert FS.empty cdir (dirNode 0o755)
  docs : List (Nat × List UInt8) := []
  cacheSize : Nat := 3
  tmpCtr : Nat := 0
  unfixed : Bool := false
  unfixed2 : Bool := false

def DSt.params (s : DSt) : Params :=
  { parse := fun b => (s.docs.find? (·.2 == b)).map (·.1), timeParses := fun b => b.length == 20,
    atomic := !s.unfixed, fallbackOlder := !s.unfixed, validCleanup := !s.unfixed2, tolerantRefresh := !s.unfixed2 }

def verdict (s : DSt) (w : World) : String :=
  match getCachedConfig s.params w cdir with
  | some id => s!"v{id}"
  | none => "fallback"

def docId (s : DSt) (b : List UInt8) : String :=
  match s.docs.find? (·.2 == b) with
  | some d => toString d.1
  | none => "junk"

/-- logical time of a cache-file name `autoconf-<base+t>.json` -/
def logicalOf (nm : String) : Option Nat :=
  let s := (nm.drop 9).toString
  let s := (s.take (s.length - 5)).toString
  s.toNat?.map (· - base)

def children (w : World) : List (String × Node) :=
  let names := (childNames w cdir).mergeSort (fun a b => decide (a ≤ b))
  names.filterMap fun nm => (find w (cdir ++ [nm])).map fun n => (nm, n)

def view (w : World) : List (String × Kind × List UInt8) := (children w).map fun (nm, n) => (nm, n.kind, n.data)

def listing (s : DSt) (w : World) : String :=
  let cs := children w
  let cfgs := (cs.filter (isCacheName ·.1)).filterMap fun (nm, n) => (logicalOf nm).map fun t => (t, docId s n.data)
  let cfgs := (cfgs.mergeSort fun a b => a.1 ≤ b.1).map fun (t, d) => s!"cfg@{t}={d}"
  let metas := cs.filterMap fun (nm, n) =>
    if nm == ".etag" || nm == ".last-modified" then some s!"{nm}={hex n.data}"
    else if nm == ".last-refresh" then some nm else none
  let tmps := (cs.filter fun (nm, _) => !isCacheName nm && nm != ".etag" && nm != ".last-modified" && nm != ".last-refresh").map (·.2.data.length)
  let tmps := (tmps.mergeSort (· ≤ ·)).map fun l => s!"tmp:{l}"
  let parts := cfgs ++ metas ++ tmps
  if parts.isEmpty then "empty" else ",".intercalate parts

def canon (nm : String) : String :=
  if isCacheName nm then (match logicalOf nm with | some t => s!"cfg@{t}" | none => "cfg?" ++ nm)
  else if nm == ".etag" || nm == ".last-modified" || nm == ".last-refresh" then nm
  else "tmp"

def showLog (lg : List (String × String × String)) : String :=
  if lg.isEmpty then "none" else
  ";".intercalate (lg.map fun (k, a, b) => if k == "rename" then s!"{k}:{canon a}>{canon b}" else s!"{k}:{canon a}")

/-- distinct consecutive directory views, starting from the view of `w0` -/
def distinctStates (w0 : World) (ws : List World) : List World :=
  let rec go (prev : List (String × Kind × List UInt8)) : List World → List World
    | [] => []
    | w :: r => let v := view w; if v == prev then go prev r else w :: go v r
  go (view w0) ws

def rle (vs : List String) : String :=
  let rec go (cur : String) (n : Nat) : List String → List String
    | [] => [s!"{cur}*{n}"]
    | v :: r => if v == cur then go cur (n + 1) r else s!"{cur}*{n}" :: go v 1 r
  match vs with
  | [] => "none"
  | v :: r => ";".intercalate (go v 1 r)

def refreshPlaceholder : List UInt8 := List.replicate 20 48

def runUpdate (s : DSt) (t id : Nat) (etag lm : List UInt8) : DSt × Tr :=
  let doc := ((s.docs.find? (·.1 == id)).map (·.2)).getD []
  let c := s.tmpCtr
  let T : Tmps := { cfg := s!".tmp-{c}", etag := s!".tmp-{c+1}", lm := s!".tmp-{c+2}", refresh := s!".tmp-{c+3}" }
  let tr := update s.params s.w cdir T s.cacheSize (base + t) doc etag lm refreshPlaceholder
  ({ s with tmpCtr := c + 4 }, tr)

def step (s : DSt) (line : String) : DSt × String :=
  match (line.trimAscii.toString.splitOn " ").filter (· ≠ "") with
  | ["case", n] => ({ unfixed := s.unfixed, unfixed2 := s.unfixed2 }, s!"case {n}")
  | ["end"] => (s, "end")
  | ["cfg", k] => ({ s with cacheSize := k.toNat?.getD 3 }, "ok")
  | ["doc", id, h] => ({ s with docs := s.docs ++ [(id.toNat?.getD 0, unhex h)] }, "ok")
  | ["garbage", t, h] =>
    let p := cdir ++ [cfgName (base + t.toNat?.getD 0)]
    let r := openTrunc s.w p filePerm
    let r2 := FS.append r.1 p (unhex h)
    ({ s with w := if (unhex h).isEmpty then r.1 else r2.1 }, "ok")
  | ["get"] => (s, verdict s s.w)
  | ["update", t, id, e, l] =>
    let (s', tr) := runUpdate s (t.toNat?.getD 0) (id.toNat?.getD 0) (unhex e) (unhex l)
    let s' := { s' with w := tr.last }
    (s', s!"{listing s' s'.w} get={verdict s' s'.w}")
  | ["crash", t, id, e, l, k] =>
    let (s', tr) := runUpdate s (t.toNat?.getD 0) (id.toNat?.getD 0) (unhex e) (unhex l)
    let sts := distinctStates s.w tr.visited
    let vs := sts.map (verdict s')
    let sampled := (sts.zipIdx.filter fun (_, i) => i % 3 == 0).map (·.1)
    let offDiff := (sampled.filter fun w => getCachedOrRefreshOffline s'.params w cdir != getCachedConfig s'.params w cdir).length
    let wEnd := match k.toInt? with
      | some k => if k ≥ 0 && !sts.isEmpty then sts.getD (k.toNat % sts.length) tr.last else tr.last
      | none => tr.last
    let s' := { s' with w := wEnd }
    (s', s!"ops={showLog tr.log} states={rle vs} offline-differs={offDiff} | {listing s' s'.w} get={verdict s' s'.w}")
  | _ => (s, "bad-op")

partial def loop (h : IO.FS.Stream) (out : IO.FS.Stream) (s : DSt) : IO Unit := do
  let line ← h.getLine
  if line.isEmpty then return ()
  let (s', o) := step s line
  out.putStrLn o
  loop h out s'

def main : IO Unit := do
  let out ← IO.getStdout
  let unfixed := (← IO.getEnv "C45_UNFIXED").isSome
  let unfixed2 := (← IO.getEnv "C45_UNFIXED2").isSome
  loop (← IO.getStdin) out { unfixed := unfixed, unfixed2 := unfixed2 }
