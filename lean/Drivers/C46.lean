import BoxoModel.C46.Model
/-! Line-protocol driver for C46 (ops documented in /verif/harness/cmd/c46/main.go).
The composite service operations of the protocol are sequences of model events:
`remove P PARK`  = removeBegin [; removeEnd unless parked]
`stop J`         = stopBegin; (stopCancel i; stopClear) for every other live handler; stopCancel J (parked) | stopEnd
`resume`         = removeEnd | stopClear; stopEnd
The random draws of nextBackoff are not observable through the protocol: the driver uses 0, 0. -/
open C46

def showTimer : Timer → String
  | .none => "none" | .armed => "armed" | .idle => "idle"
def showState : SvcState → String
  | .init => "init" | .running => "running" | .stopped => "stopped"

def summary (s : St) : String :=
  let busy := s.busy != .idle
  let parkedAt : Option Nat := match s.busy with | .stopping (some j) => some j | _ => none
  let hs := (List.range s.n).map fun j =>
    let h := s.hs j
    if parkedAt.isSome && parkedAt != some j then s!" | h{j} ~" else
    let inmap := if busy then "-" else if h.inMap then "1" else "0"
    s!" | h{j} p{h.peer} map={inmap} c={if h.cancelled then 1 else 0} t={showTimer h.timer} d={if h.delay == initialDelay then "init" else "grown"} ps={h.pendStart} pt={h.pendStop} rA={h.rA} rB={h.rB}"
  s!"st={showState s.state} busy={if busy then 1 else 0}{String.join hs} | dials={s.dials.length}"

def stepD (s : St) (e : Ev) : St := (step s e).getD s

def stopOp (s : St) (j : Nat) : Option St := do
  let s1 ← step s .stopBegin
  if s1.busy != .stopping none then return s1
  let s2 := (List.range s1.n).foldl (fun s i =>
    if i != j && (s.hs i).inMap && !(s.hs i).cancelled then stepD (stepD s (.stopCancel i)) .stopClear else s) s1
  match step s2 (.stopCancel j) with
  | some s3 => return s3
  | none => step s2 .stopEnd

def resumeOp (s : St) : Option St :=
  match s.busy with
  | .removing _ => step s .removeEnd
  | .stopping (some _) => do let s1 ← step s .stopClear; step s1 .stopEnd
  | _ => none

def removeOp (s : St) (p : Nat) (park : Bool) : Option St := do
  let s1 ← step s (.removeBegin p)
  if s1.busy != .idle && !park then step s1 .removeEnd else return s1

/-- `run J stop flap`: the stopIfConnected goroutine's Connectedness query (under ph.mu) answers "connected" and the
connection drops right after it: the goroutine acts on the answer; the Disconnected notification is delivered and its
startIfDisconnected goroutine runs as soon as the handler's lock is free. Only when the query is actually made (timer
non-nil), the peer is connected and no service call is in progress; otherwise a plain `run J stop`. -/
def flapOp (s : St) (j : Nat) : Option St := do
  let h := s.hs j
  let p := h.peer
  let s1 ← step s (.runStop j)
  if j < s.n && h.timer != .none && s.conn p && s.busy == .idle then
    let s2 := stepD s1 (.setConn p false)
    let s3 := stepD s2 (.notify p false)
    match s3.peers p with
    | some k => return stepD s3 (.runStart k 0 0)
    | none => return s3
  else return s1

def doOp (s : St) (ts : List String) : Option (Option St) :=
  -- outer none = bad op; inner none = disabled
  match ts with
  | ["add", p] => p.toNat?.map fun p => step s (.add p)
  | ["remove", p, k] => p.toNat?.map fun p => removeOp s p (k == "1")
  | ["start"] => some (step s .start)
  | ["stop", j] => j.toInt?.map fun j => stopOp s (if j < 0 then s.n + 1000 else j.toNat)
  | ["resume"] => some (resumeOp s)
  | ["conn", p, b] => p.toNat?.map fun p => step s (.setConn p (b == "1"))
  | ["notify", p, k] => p.toNat?.map fun p => step s (.notify p (k == "conn"))
  | ["run", j, "start"] => j.toNat?.map fun j => step s (.runStart j 0 0)
  | ["run", j, "stop"] => j.toNat?.map fun j => step s (.runStop j)
  | ["run", j, "stop", "flap"] => j.toNat?.map fun j => flapOp s j
  | ["fire", j] => j.toNat?.map fun j => step s (.fire j)
  | ["dial", j] => j.toNat?.map fun j => step s (.dial j)
  | ["ret", j, _] => j.toNat?.map fun j => step s (.dialEnd j 0 0)
  | _ => none

def stepLine (s : St) (line : String) : St × String :=
  match (line.trimAscii.toString.splitOn " ").filter (· ≠ "") with
  | ["case", n] => ({}, s!"case {n}")
  | ["end"] => ({}, "end")
  | ["backoff", _] => (s, "ok")
  | ["consts"] => (s, s!"initial={initialDelay.toNat} max={maxBackoff.toNat}")
  | ["list"] =>
    if s.busy != .idle then (s, s!"disabled {summary s}") else
    -- ListPeers: the keys of ps.peers, sorted (peers are p0..p3 in the protocol)
    let ps := (List.range 4).filter fun p => (s.peers p).isSome
    (s, s!"ok [{",".intercalate (ps.map fun p => s!"p{p}")}] {summary s}")
  | ts =>
    match doOp s ts with
    | none => (s, "bad-op")
    | some none => (s, s!"disabled {summary s}")
    | some (some s') => (s', s!"ok {summary s'}")

partial def loop (h : IO.FS.Stream) (out : IO.FS.Stream) (s : St) : IO Unit := do
  let line ← h.getLine
  if line.isEmpty then return ()
  let (s', o) := stepLine s line
  out.putStrLn o
  loop h out s'

def main : IO Unit := do
  let out ← IO.getStdout
  loop (← IO.getStdin) out {}
