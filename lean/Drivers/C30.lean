import BoxoModel.C30.Model
/-! Line-protocol driver for C30 (see /verif/docs/HOWTO.md).
ops:
  file <seed> <size> <layout> <chunk> <links> <raw> <cidv> <asked-mtime sec.nanos> <cid> <assethash> <stored-mtime sec> <stored-mtime nanos>
  req <GET|HEAD> <fn:0|1> <range> <if-range> <if-none-match> <if-match> <iusT> <imsT> <irT> <ius> <ims>
      (header values in hex, `-` = absent; *T = http.ParseTime result in Unix seconds or `x`)
Run: `lake env lean --run Drivers/C30.lean < ops.txt > model.out` -/
open C30

def hexVal (c : Char) : Option Nat :=
  if '0' ≤ c ∧ c ≤ '9' then some (c.toNat - 48)
  else if 'a' ≤ c ∧ c ≤ 'f' then some (c.toNat - 87)
  else none

def unhexAux : List Char → Option Bytes
  | [] => some []
  | a :: b :: r => do
    let x ← hexVal a
    let y ← hexVal b
    let t ← unhexAux r
    pure ((x * 16 + y) :: t)
  | _ => none

def unhex (s : String) : Option Bytes := if s == "-" then some [] else unhexAux s.toList

def ascii (s : String) : Bytes := s.toList.map Char.toNat

def optInt (s : String) : Option (Option Int) := if s == "x" then some none else s.toInt?.map some

def hexDigit (n : Nat) : Char := if n < 10 then Char.ofNat (48 + n) else Char.ofNat (87 + n)
def hex (bs : Bytes) : String :=
  if bs.isEmpty then "-" else String.ofList (bs.flatMap fun b => [hexDigit (b / 16), hexDigit (b % 16)])

def showCR : CRange → String
  | .none => "-"
  | .range a b s => s!"bytes_{a}-{b}/{s}"
  | .unsat s => s!"bytes_*/{s}"

def showResp (f : File) (r : Resp) : String :=
  let et := if r.etag.isEmpty then "-" else if r.etag == f.etag then "E" else if r.etag == f.dirEtag then "D"
    else if r.etag == f.dagEtag then "G" else hex r.etag
  let cl := match r.contentLength with | some n => toString n | none => "-"
  let body := if r.status == 200 || r.status == 206 then s!"{r.body.length}:{(fnv r.body).toNat}" else "-"
  s!"{r.status} cr={showCR r.contentRange} cl={cl} lm={if r.lastModified then 1 else 0} et={et} body={body}"

def step (cur : Option File) (line : String) : Option File × String :=
  match (line.trimAscii.toString.splitOn " ").filter (· ≠ "") with
  | ["case", n] => (none, s!"case {n}")
  | ["end"] => (none, "end")
  | ["file", seed, size, _lay, _chunk, _links, _raw, _cidv, _askedMtime, cid, ah, mtime, nanos] =>
    match seed.toNat?, size.toNat?, mtime.toInt?, nanos.toNat? with
    | some seed, some size, some mt, some ns =>
      let q : Bytes := [34]
      let f : File := {
        content := genContent seed size
        etag := q ++ ascii cid ++ q
        dirEtag := q ++ ascii "DirIndex-" ++ ascii ah ++ ascii "_CID-" ++ ascii cid ++ q
        dagEtag := q ++ ascii "DagIndex-" ++ ascii ah ++ ascii "_CID-" ++ ascii cid ++ q
        modSec := mt
        modNanos := ns }
      (some f, s!"ok {size}")
    | _, _, _, _ => (cur, "bad-op")
  | ["req", m, fn, rg, ir, inm, im, iusT, imsT, irT, _ius, _ims] =>
    match cur, unhex rg, unhex ir, unhex inm, unhex im, optInt iusT, optInt imsT, optInt irT with
    | some f, some rg, some ir, some inm, some im, some iusT, some imsT, some irT =>
      if m != "GET" && m != "HEAD" then (cur, "bad-op") else
      let r : Req := { head := m == "HEAD", ctypeKnown := fn == "1", range := rg, ifRange := ir,
                       ifNoneMatch := inm, ifMatch := im, iusT := iusT, imsT := imsT, irT := irT }
      (cur, showResp f (serve f r))
    | _, _, _, _, _, _, _, _ => (cur, "bad-op")
  | _ => (cur, "bad-op")

partial def loop (h : IO.FS.Stream) (out : IO.FS.Stream) (c : Option File) : IO Unit := do
  let line ← h.getLine
  if line.isEmpty then return ()
  let (c', o) := step c line
  out.putStrLn o
  loop h out c'

def main : IO Unit := do
  let out ← IO.getStdout
  loop (← IO.getStdin) out none
