import BoxoModel.C26.Model
import BoxoModel.C26.Time
/-! Line-protocol driver for C26. One op kind:
  new k=v …   (fields: see harness/cmd/c26/main.go; unknown fields are ignored)
The codec / crypto parameters are instantiated with law-abiding stand-ins (decode returns the node that
was encoded, signatures verify, the time parser returns the EOL that was formatted); the formatted
validity bytes and `needToEmbedPublicKey` are taken from the op line (observed by the generator). -/
open C25 C26

def hexVal (c : Char) : Option Nat :=
  if '0' ≤ c ∧ c ≤ '9' then some (c.toNat - '0'.toNat)
  else if 'a' ≤ c ∧ c ≤ 'f' then some (c.toNat - 'a'.toNat + 10)
  else none

def parseHexAux : List Char → List Nat → Option (List Nat)
  | [], acc => some acc.reverse
  | [_], _ => none
  | a :: b :: r, acc => do
    let x ← hexVal a
    let y ← hexVal b
    parseHexAux r ((x * 16 + y) :: acc)

def parseHex (s : String) : Option (List Nat) :=
  if s == "-" then some [] else parseHexAux s.toList []

def hexDigit (n : Nat) : Char := if n < 10 then Char.ofNat (48 + n) else Char.ofNat (87 + n)
def toHex (b : List Nat) : String :=
  if b.isEmpty then "-" else String.ofList (b.flatMap fun n => [hexDigit (n / 16), hexDigit (n % 16)])

def hexStr (s : String) : Option String := do
  let bs ← parseHex s
  String.fromUTF8? (ByteArray.mk (bs.map (·.toUInt8)).toArray)
def strHex (s : String) : String := toHex (s.toUTF8.toList.map (·.toNat))

def kv (toks : List String) (k : String) : String :=
  match toks.find? (·.startsWith (k ++ "=")) with
  | some t => (t.drop (k.length + 1)).toString
  | none => ""

def parseMVal (kind v : String) : Option MVal :=
  match kind with
  | "s" => (hexStr v).map .str
  | "b" => (parseHex v).map .bytes
  | "i" => v.toInt?.map .int64
  | "n" => v.toInt?.map .int
  | "t" => some (.bool (v == "1"))
  | "z" => some .nil
  | _ => some .unsupported

def parseMeta (s : String) : Option (List (String × MVal)) :=
  if s == "-" then some [] else
  (s.splitOn ";").mapM fun e =>
    match e.splitOn ":" with
    | [k, kind, v] => do pure ((← hexStr k), (← parseMVal kind v))
    | _ => none

def showCVal : CVal → String
  | .bytes b => s!"b:{toHex b}"
  | .int i => s!"i:{i}"
  | .str s => s!"s:{strHex s}"
  | .bool b => if b then "t:1" else "t:0"
  | .other => "o:"

def showNode (nd : Node) : String :=
  if nd.isEmpty then "-" else ";".intercalate (nd.map fun e => s!"{strHex e.1}:{showCVal e.2}")

def showCreateErr : CreateErr → String
  | .emptyKey => "emptykey"
  | .conflict => "conflict"
  | .nilValue => "invalid"
  | .unsupportedType => "unsupported"

def showErr : Err → String
  | .size => "size"
  | .signature => "sig"
  | .invalidRecord => "invalid"
  | .mismatch => "mismatch"
  | .cbor => "other"
  | .unrecognizedValidity => "unrecvalidity"
  | .invalidValidity => "invalidvalidity"
  | .expired => "expired"
  | .keyMismatch => "keymismatch"
  | .invalidKey => "badkey"
  | .keyNotFound => "nokey"
  | .invalidName => "badname"
  | .invalidPath => "badpath"

def showX {α} [ToString α] (r : Except Err α) : String :=
  match r with
  | .ok a => toString a
  | .error e => showErr e

def stepLine (line : String) : String :=
  let toks := (line.trimAscii.toString.splitOn " ").filter (· ≠ "")
  match toks with
  | ["case", n] => s!"case {n}"
  | ["end"] => "end"
  | ["ptime", h] =>
    match parseHex h with
    | some bs =>
      match C26.Time.parseTime bs with
      | some t => s!"ok {t}"
      | none => "err"
    | none => "bad-op"
  | "new" :: f =>
    let g := kv f
    let r : Option String := do
      let value ← parseHex (g "value")
      let seq ← (g "seq").toNat?
      let eol ← (g "eol").toInt?
      let now ← (g "now").toInt?
      let ttl ← (g "ttl").toInt?
      -- the validity string is computed by the model (C26.Time.formatTime), not taken from the op line
      let fmt := C26.Time.formatTime eol
      let md ← parseMeta (g "meta")
      let embed : Option Bool := if g "embed" == "-" then none else some (g "embed" == "1")
      let o : Opts := { v1 := g "v1" == "1", embed := embed, metadata := md }
      let K : Keys := { sign := fun _ _ => [1], pubOf := fun _ => 1, marshalKey := fun _ => [1],
                        needEmbed := fun _ => g "needembed" == "1" }
      let big := g "big" == "1"
      match newRecord K (fun _ => [1]) 1 value seq fmt ttl o (fun _ => if big then 20000 else 100) with
      | .error e => pure s!"reject:{showCreateErr e}"
      | .ok rec =>
        let C : Crypto := { verify := fun _ _ _ => true, parseKey := fun _ => some 1, nameOf := fun _ => 1,
                            inlineKey := fun _ => if g "needembed" == "1" then none else some 1 }
        let decode : Bytes → Option Node := fun _ => some rec.node
        let parseTime : Bytes → Option Int := C26.Time.parseTime
        let created := s!"node={showNode rec.node} v={toHex rec.pb.value} vy={toHex rec.pb.validity} seq={rec.pb.sequence} ttl={rec.pb.ttl} s1={if rec.pb.sigV1.isEmpty then 0 else 1} pk={if rec.pb.pubKey.isEmpty then 0 else 1}"
        match unmarshal decode (if big then 20000 else 100) (some rec.pb) with
        | .error e => pure s!"{created} rt={showErr e}"
        | .ok r' =>
          let vwn := match validateWithName C decode parseTime now r' 1 with
            | .ok () => "ok"
            | .error e => showErr e
          let mds := md.map (·.1) |>.toArray.qsort (· < ·) |>.toList
          let ms := ",".intercalate (mds.map fun k =>
            match metadata r' k with
            | some v => s!"{strHex k}={showCVal v}"
            | none => s!"{strHex k}=none")
          let ents := ";".intercalate ((metadataEntries r').map fun e => s!"{strHex e.1}:{showCVal e.2}")
          let probes := mds ++ ["Value", "TTL", "_absent"]
          let mex := String.ofList (probes.map fun k => if metadataExists r' k then '1' else '0')
          pure s!"{created} rt=ok vwn={vwn} aseq={showX (sequence r')} attl={showX (C25.ttl r')} aeol={showX (validity parseTime r')} aval={showX ((getBytes r' "Value").map toHex)} meta={if ms.isEmpty then "-" else ms} ents={if ents.isEmpty then "-" else ents} mex={mex}"
    r.getD "bad-op"
  | _ => "bad-op"

partial def loop (h : IO.FS.Stream) (out : IO.FS.Stream) : IO Unit := do
  let line ← h.getLine
  if line.isEmpty then return ()
  out.putStrLn (stepLine line)
  loop h out

def main : IO Unit := do
  let out ← IO.getStdout
  loop (← IO.getStdin) out
