import BoxoModel.C21.Model
/-! Line-protocol driver for C21: runs the event model on `ev` lines and prints the state after every
event (compared with the Go port that the harness uses for its admission check); lines of `run` cases
(real Republisher, real timers) are answered with `ok`. -/
open C21

def b01 (b : Bool) : String := if b then "1" else "0"
def optVal : Option Val → String
  | none => "-"
  | some v => s!"{v.stamp}:{v.cid}"
def optNat : Option Nat → String
  | none => "-"
  | some n => toString n

def upcNum : UPc → Nat
  | .start => 0 | .drained _ => 1 | .done => 2
def wpcNum : WPc → Nat
  | .sending => 0 | .waiting => 1 | .released => 2 | .abandoned => 3

def showUpd (u : Upd) : String :=
  let d := match u.pc with
    | .drained v => optVal (some v)
    | _ => "-"
  s!"{u.cid}/{upcNum u.pc}/{d}/{u.startT}/{u.startClock}/{optNat u.doneT}/{optNat u.sent}"

def showWait (w : Wait) : String :=
  s!"{wpcNum w.pc}/{b01 w.close}/{w.callClock}/{w.acc}/{w.inflight}/{b01 w.cancelled}/{b01 w.returned}"

def showLog (l : List (Val × Bool)) : String :=
  ",".intercalate (l.map fun (v, ok) => s!"{v.stamp}:{v.cid}:{if ok then "ok" else "fail"}")

def showSt (s : St) : String :=
  s!"slot={optVal s.slot} toPub={optVal s.toPub} last={optNat s.lastCid} pub={s.pubStamp} skip={s.skipStamp} " ++
  s!"waiter={optNat s.waiter} q={b01 s.quick} l={b01 s.longer} imm={b01 s.imm} inPub={b01 s.inPub} " ++
  s!"canc={b01 s.cancelled} stop={b01 s.stopped} clock={s.clock} time={s.time} log=[{showLog s.log}] " ++
  s!"upds=[{",".intercalate (s.upds.map showUpd)}] waits=[{",".intercalate (s.waits.map showWait)}]"

def parseEv (name : String) (a : Nat) : Option Ev :=
  match name with
  | "update" => some (.update a)
  | "updStep" => some (.updStep a)
  | "waitPub" => some .waitPub
  | "closeCall" => some .closeCall
  | "abandon" => some (.abandon a)
  | "recvUpdate" => some .recvUpdate
  | "recvWaiter" => some (.recvWaiter a)
  | "timerQuick" => some .timerQuick
  | "timerLonger" => some .timerLonger
  | "pubDone" => some (.pubDone (a == 1))
  | "closeCancel" => some (.closeCancel a)
  | "ctxDone" => some .ctxDone
  | "closeRet" => some (.closeRet a)
  | _ => none

def stepLine (s : Option St) (line : String) : Option St × String :=
  match (line.trimAscii.toString.splitOn " ").filter (· ≠ "") with
  | ["case", n] => (none, s!"case {n}")
  | ["end"] => (none, "end")
  | ["model", l] =>
    let last := if l == "-1" then none else some l.toNat!
    let st : St := { lastCid := last }
    (some st, showSt st)
  | "ev" :: name :: rest =>
    match s with
    | none => (s, "bad-op")
    | some st =>
      let a := match rest with
        | [x] => x.toNat!
        | _ => 0
      match parseEv name a with
      | none => (s, "disabled")
      | some ev =>
        match step st ev with
        | none => (s, "disabled")
        | some st' => (some st', showSt st')
  | [] => (s, "bad-op")
  | _ => (s, if s.isSome then "bad-op" else "ok")   -- lines of a `run` case

partial def loop (h : IO.FS.Stream) (out : IO.FS.Stream) (s : Option St) : IO Unit := do
  let line ← h.getLine
  if line.isEmpty then return ()
  let (s', o) := stepLine s line
  out.putStrLn o
  loop h out s'

def main : IO Unit := do
  let out ← IO.getStdout
  loop (← IO.getStdin) out none
