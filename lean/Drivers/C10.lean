import BoxoModel.C07.Dump
import BoxoModel.C10.Model
/-! Line-protocol driver for C10 (see /verif/docs/HOWTO.md).
ops: init <bal|tri> <w> <raw 0|1> <cidver> <hash> <k> <wbs> <hex chunk>...   import, then NewDagModifier
     write <hex> | writeat <off> <hex> | seek <off> <whence> | read <k> | readfull <k> | trunc <size>
     size | sync | haschanges | getnode
out: one line per op (see harness/cmd/c10/main.go); DAG dumps with dag-pb leaves printed as type `L`
Run: `lake env lean --run Drivers/C10.lean < ops.txt > model.out` -/
open C07 C08 C10 FileTree C07D

mutual
/-- `a` = "mode;mtime" of this node ("0;-" below the root) -/
partial def dump10 (raw : Bool) (a : String) : FNode → String
  | .leaf d => if raw then s!"R({hex d})" else s!"P(L;{d.length};{hex d};;{a})"
  | .node fs cs =>
    if cs.isEmpty then s!"P(L;{fs};-;;{a})"
    else
      let bss := ",".intercalate (cs.map fun c => toString c.2)
      s!"P(F;{fs};-;{bss};{a})[" ++ dumpL10 raw cs ++ "]"
partial def dumpL10 (raw : Bool) : List (FNode × Nat) → String
  | [] => ""
  | c :: r => dump10 raw "0;-" c.1 ++ dumpL10 raw r
end

structure St where
  cfg : C10.Cfg := { w := 2, raw := false, k := 1, wbs := 1 }
  dm : Option DM := none
  attrs : C07.Attrs := {}

/-- "mode;mtime" of the root: the mode is kept by every operation, the mtime is the imported one until the
modifier refreshes it ("R") -/
def rootAttrs (st : St) (touched : Bool) (t : FNode) : String :=
  -- a RawNode (also one returned by the collapse in GetNode) has no UnixFS data
  match t, st.cfg.raw with
  | .leaf _, true => "0;-"
  | _, _ =>
    let mt := match st.attrs.mtime with
      | none => "-"
      | some m => if touched then "R" else showMtime (some m)
    s!"{st.attrs.mode};{mt}"

def ok (b : Bool) : String := if b then "nil" else "err"

def initWith (mode : Nat) (mtime : Option (Int × Nat)) : List String → St × String
  | lay :: w :: raw :: _cidv :: _hash :: k :: wbs :: toks =>
    match w.toNat?, k.toNat?, wbs.toNat?, toks.mapM unhex with
    | some w, some k, some wbs, some cs =>
      let icfg : C07.Cfg := { w := w, rawLeaves := raw == "1", mode := mode, mtime := mtime }
      match (if lay == "bal" then balancedLayout icfg cs else trickleLayout icfg cs) with
      | none => ({}, "diverges")
      | some o =>
        let cfg : C10.Cfg := { w := w, raw := raw == "1", k := k, wbs := wbs,
                               hasMeta := o.attrs.mode != 0 || o.attrs.mtime.isSome }
        let st : St := { cfg := cfg, dm := some { cur := o.root }, attrs := o.attrs }
        (st, dump10 cfg.raw (rootAttrs st false o.root) o.root)
    | _, _, _, _ => ({}, "bad-op")
  | _ => ({}, "bad-op")

def step (st : St) (line : String) : St × String :=
  match (line.trimAscii.toString.splitOn " ").filter (· ≠ "") with
  | ["case", n] => ({}, s!"case {n}")
  | ["end"] => ({}, "end")
  | "initm" :: mode :: mtime :: rest =>
    match mode.toNat?, parseMtime mtime with
    | some mode, some mtime => initWith mode mtime rest
    | _, _ => (st, "bad-op")
  | "init" :: rest => initWith 0 none rest
  | op :: args =>
    match st.dm with
    | none => (st, "bad-op")
    | some dm =>
      let c := st.cfg
      match op, args with
      | "write", [h] =>
        match unhex h with
        | some b => let r := write c dm b; ({ st with dm := some r.1 }, s!"n={r.2.1} err={ok r.2.2}")
        | none => (st, "bad-op")
      | "writeat", [off, h] =>
        match off.toInt?, unhex h with
        | some off, some b => let r := writeAtI c dm b off; ({ st with dm := some r.1 }, s!"n={r.2.1} err={ok r.2.2}")
        | _, _ => (st, "bad-op")
      | "seek", [off, wh] =>
        match off.toInt?, wh.toNat? with
        | some off, some wh => let r := seek c dm off wh; ({ st with dm := some r.1 }, s!"pos={r.2.1} err={ok r.2.2}")
        | _, _ => (st, "bad-op")
      | rd, [k] =>
        if rd == "read" || rd == "readfull" then
          match k.toNat? with
          | some k =>
            let r := read c dm k
            let e := if !r.2.2 then "err" else if r.2.1.length < k then "eof" else "nil"
            ({ st with dm := some r.1 }, s!"n={r.2.1.length} data={hex r.2.1} err={e}")
          | none => (st, "bad-op")
        else if rd == "trunc" then
          match k.toInt? with
          | some sz => let r := truncateI c dm sz; ({ st with dm := some r.1 }, s!"err={ok r.2}")
          | none => (st, "bad-op")
        else (st, "bad-op")
      | "size", [] => (st, s!"size={dm.size} err=nil")
      | "sync", [] =>
        match sync c dm with
        | some d => ({ st with dm := some d }, "err=nil")
        | none => (st, "err=err")
      | "haschanges", [] => (st, toString (hasChanges dm))
      | "getnode", [] =>
        let r := getNode c dm
        match r.2 with
        | some t => ({ st with dm := some r.1 }, dump10 c.raw (rootAttrs st r.1.touched t) t)
        | none => (st, "error")
      | _, _ => (st, "bad-op")
  | _ => (st, "bad-op")

partial def loop (h : IO.FS.Stream) (out : IO.FS.Stream) (st : St) : IO Unit := do
  let line ← h.getLine
  if line.isEmpty then return ()
  let (st', o) := step st line
  out.putStrLn o
  loop h out st'

def main : IO Unit := do
  let out ← IO.getStdout
  loop (← IO.getStdin) out {}
