import BoxoModel.C15.Exec
/-! Line-protocol driver for C15 (protocol: /verif/harness/dirx/dirx.go).
Run: `lake env lean --run Drivers/C15.lean < ops.txt > model.out` -/
def main : IO Unit := C15.Exec.main
