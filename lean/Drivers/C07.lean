import BoxoModel.C07.Dump
/-! Line-protocol driver for C07 (see /verif/docs/HOWTO.md).
op:  imp <bal|tri> <w> <raw 0|1> <cidver> <hash> <mode> <mtime: sec.ns | -> <s | z<k>> <hex>...
     (`s`: scripted splitter, one hex token per chunk; `z<k>`: size-<k> splitter over one hex token)
out: dump of the DAG, root first:  R(hex) | P(type;filesize;datahex;blocksizes;mode;mtime)[children…]
Run: `lake env lean --run Drivers/C07.lean < ops.txt > model.out` -/
open C07 FileTree

namespace C07D

def runImp (lay w raw mode mtime spec : String) (toks : List String) : String :=
  match w.toNat?, mode.toNat?, parseMtime mtime, parseChunks spec toks with
  | some w, some mode, some mtime, some cs =>
    let cfg : Cfg := { w := w, rawLeaves := raw == "1", mode := mode, mtime := mtime }
    let res := if lay == "bal" then balancedLayout cfg cs else trickleLayout cfg cs
    match res with
    | none => "diverges"
    | some o => dump cfg.rawLeaves (if lay == "bal" then "F" else "W") o.attrs o.root
  | _, _, _, _ => "bad-op"

def step (line : String) : String :=
  match (line.trimAscii.toString.splitOn " ").filter (· ≠ "") with
  | ["case", n] => s!"case {n}"
  | ["end"] => "end"
  | "imp" :: lay :: w :: raw :: _cidv :: _hash :: mode :: mtime :: spec :: toks =>
    runImp lay w raw mode mtime spec toks
  | _ => "bad-op"

end C07D

partial def loop (h : IO.FS.Stream) (out : IO.FS.Stream) : IO Unit := do
  let line ← h.getLine
  if line.isEmpty then return ()
  out.putStrLn (C07D.step line)
  loop h out

def main : IO Unit := do
  let out ← IO.getStdout
  loop (← IO.getStdin) out
