import BoxoModel.C07.Dump
import BoxoModel.C07.Blocks
/-! Line-protocol driver for C07 (see /verif/docs/HOWTO.md).
op:  imp <bal|tri> <w> <raw 0|1> <cidver> <hash> <mode> <mtime: sec.ns | -> <s | z<k>> <hex>...
     (`s`: scripted splitter, one hex token per chunk; `z<k>`: size-<k> splitter over one hex token)
     blocks <hex cid>...      the CIDs (cid.Bytes()) of all nodes of the DAG imported last, in pre-order
out: dump of the DAG, root first:  R(hex) | P(type;filesize;datahex;blocksizes;mode;mtime)[children…]
     for `blocks`: the bytes of every block in pre-order (hex, comma separated), from the C11 / C18 encoders
Run: `lake env lean --run Drivers/C07.lean < ops.txt > model.out` -/
open C07 FileTree

namespace C07D

structure St where
  bcfg : BlockCfg := { raw := false, leafType := 2 }
  out : Option Out := none

def runImp (lay w raw mode mtime spec : String) (toks : List String) : St × String :=
  match w.toNat?, mode.toNat?, parseMtime mtime, parseChunks spec toks with
  | some w, some mode, some mtime, some cs =>
    let cfg : Cfg := { w := w, rawLeaves := raw == "1", mode := mode, mtime := mtime }
    let res := if lay == "bal" then balancedLayout cfg cs else trickleLayout cfg cs
    let bc : BlockCfg := { raw := cfg.rawLeaves, leafType := if lay == "bal" then 2 else 0 }
    match res with
    | none => ({ bcfg := bc }, "diverges")
    | some o => ({ bcfg := bc, out := some o }, dump cfg.rawLeaves (if lay == "bal" then "F" else "W") o.attrs o.root)
  | _, _, _, _ => ({}, "bad-op")

def step (st : St) (line : String) : St × String :=
  match (line.trimAscii.toString.splitOn " ").filter (· ≠ "") with
  | ["case", n] => ({}, s!"case {n}")
  | ["end"] => ({}, "end")
  | "imp" :: lay :: w :: raw :: _cidv :: _hash :: mode :: mtime :: spec :: toks =>
    runImp lay w raw mode mtime spec toks
  | "blocks" :: cids =>
    match st.out, cids.mapM unhex with
    | some o, some cs =>
      let r := blocksOf st.bcfg o.attrs o.root cs
      (st, ",".intercalate (r.blocks.map hex))
    | _, _ => (st, "bad-op")
  | _ => (st, "bad-op")

end C07D

partial def loop (h : IO.FS.Stream) (out : IO.FS.Stream) (st : C07D.St) : IO Unit := do
  let line ← h.getLine
  if line.isEmpty then return ()
  let (st', o) := C07D.step st line
  out.putStrLn o
  loop h out st'

def main : IO Unit := do
  let out ← IO.getStdout
  loop (← IO.getStdin) out {}
