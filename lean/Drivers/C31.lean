import BoxoModel.C31.Model
/-! Line-protocol driver for C31 (see harness/cmd/c31/main.go for the op lines).

  build …                                   → ok
  file <k> <segs> <tree>                    → ok size=<n> ws=<bool>
      <tree> ::= L <label> <size> | R <label> <size> | N <label> <filesize> <k> (<linksize> <tree>)^k
  range <hex>                               → ok <from> <to|*> | err
  raw <segs>                                → ok
  car f<k> <scope> <rangehex|-> <dups>      → ok <labels> | stream-error <labels> | http-400
  card <segs> <scope> <rangehex|-> <dups>   → ok | http-400
-/
open C31 FileTree

def hexVal (c : Char) : Option Nat :=
  if '0' ≤ c ∧ c ≤ '9' then some (c.toNat - '0'.toNat)
  else if 'a' ≤ c ∧ c ≤ 'f' then some (c.toNat - 'a'.toNat + 10)
  else none

def unhexAux : List Char → Option Bytes
  | [] => some []
  | a :: b :: r => do
    let x ← hexVal a
    let y ← hexVal b
    let t ← unhexAux r
    pure (UInt8.ofNat (x * 16 + y) :: t)
  | _ => none

def unhex (s : String) : Option Bytes := if s == "-" then some [] else unhexAux s.toList

structure FileRec where
  tree : FNode
  labels : List Nat      -- preorder
  rootRaw : Bool

mutual
/-- (tree, preorder labels, rest) -/
partial def parseTree : List String → Option (FNode × List Nat × List String)
  | "L" :: l :: sz :: r => do
    let l ← l.toNat?
    let sz ← sz.toNat?
    pure (.leaf (List.replicate sz 0), [l], r)
  | "R" :: l :: sz :: r => do
    let l ← l.toNat?
    let sz ← sz.toNat?
    pure (.leaf (List.replicate sz 0), [l], r)
  | "N" :: l :: fs :: k :: r => do
    let l ← l.toNat?
    let fs ← fs.toNat?
    let k ← k.toNat?
    let (cs, ls, r') ← parseKids k r
    pure (.node fs cs, l :: ls, r')
  | _ => none
partial def parseKids : Nat → List String → Option (List (FNode × Nat) × List Nat × List String)
  | 0, r => some ([], [], r)
  | k + 1, bs :: r => do
    let bs ← bs.toNat?
    let (t, ls, r') ← parseTree r
    let (cs, ls', r'') ← parseKids k r'
    pure ((t, bs) :: cs, ls ++ ls', r'')
  | _, _ => none
end

def insertSorted (x : Nat) : List Nat → List Nat
  | [] => [x]
  | y :: r => if x < y then x :: y :: r else if x = y then y :: r else y :: insertSorted x r

def showLabels (f : FileRec) (idxs : List Nat) : String :=
  let ls := idxs.foldl (fun acc i => insertSorted (f.labels.getD i 0) acc) []
  ",".intercalate (ls.map toString)

structure St where
  files : List (Nat × FileRec) := []

def showInt (i : Int) : String := toString i

def step (st : St) (line : String) : St × String :=
  match (line.trimAscii.toString.splitOn " ").filter (· ≠ "") with
  | ["case", n] => ({}, s!"case {n}")
  | ["end"] => ({}, "end")
  | "build" :: _ => (st, "ok")
  | "file" :: k :: _ :: ts =>
    match k.toNat?, parseTree ts with
    | some k, some (t, ls, []) =>
      let raw := match ts with | "R" :: _ => true | _ => false
      ({ files := (k, { tree := t, labels := ls, rootRaw := raw }) :: st.files },
        s!"ok size={size t} ws={wellSized t && posSized t}")
    | _, _ => (st, "bad-op")
  | ["range", h] =>
    match unhex h with
    | some s =>
      match newDagByteRange s with
      | some r => (st, s!"ok {showInt r.from_} " ++ (match r.to with | some t => showInt t | none => "*"))
      | none => (st, "err")
    | none => (st, "bad-op")
  | ["raw", _] => (st, "ok")
  | ["car", fk, scope, rng, _] =>
    match (fk.drop 1).toString.toNat? with
    | none => (st, "bad-op")
    | some k =>
      match st.files.find? (·.1 == k) with
      | none => (st, "bad-op")
      | some (_, f) =>
        let r : Option (Option Rng) :=
          if rng == "-" then some none
          else match unhex rng with
            | some s => (newDagByteRange s).map some
            | none => none
        match r with
        | none => (st, "http-400")
        | some r =>
          if scope == "block" then (st, "ok " ++ showLabels f [0])
          else if scope == "all" || scope == "-" then (st, "ok " ++ showLabels f (List.range (nodes f.tree)))
          else if f.rootRaw then (st, "ok " ++ showLabels f [0])
          else
            let (e, bl) := entityBlocks f.tree (r.getD ⟨0, none⟩)
            (st, (if e then "stream-error " else "ok ") ++ showLabels f bl)
  | ["card", _, _, rng, _] =>
    if rng == "-" then (st, "ok")
    else match unhex rng with
      | some s => (st, if (newDagByteRange s).isSome then "ok" else "http-400")
      | none => (st, "bad-op")
  | _ => (st, "bad-op")

partial def loop (h : IO.FS.Stream) (out : IO.FS.Stream) (st : St) : IO Unit := do
  let line ← h.getLine
  if line.isEmpty then return ()
  let (st', o) := step st line
  out.putStrLn o
  loop h out st'

def main : IO Unit := do
  let out ← IO.getStdout
  loop (← IO.getStdin) out {}
