import BoxoModel.C31.Tree
/-! Line-protocol driver for C31 (see harness/cmd/c31/main.go for the op lines).

  build …                                   → ok
  file <k> <segs> <tree>                    → ok size=<n> ws=<bool>
      <tree> ::= L <label> <size> | R <label> <size> | N <label> <filesize> <k> (<linksize> <tree>)^k
  range <hex>                               → ok <from> <to|*> | err
  raw <segs>                                → ok
  tree <dump>                               → ok blocks=<number of distinct labels>
  car f<k> <scope> <rangehex|-> <dups>      → ok <labels> | stream-error <labels> | http-400
  card <segs> <scope> <rangehex|-> <dups>   → ok <labels> | absent <labels> | http-400
  (labels = the expected block SET of the CAR over the whole tree: `C31.carBlocks`)
-/
open C31 FileTree

def hexVal (c : Char) : Option Nat :=
  if '0' ≤ c ∧ c ≤ '9' then some (c.toNat - '0'.toNat)
  else if 'a' ≤ c ∧ c ≤ 'f' then some (c.toNat - 'a'.toNat + 10)
  else none

def unhexAux : List Char → Option Bytes
  | [] => some []
  | a :: b :: r => do
    let x ← hexVal a
    let y ← hexVal b
    let t ← unhexAux r
    pure (UInt8.ofNat (x * 16 + y) :: t)
  | _ => none

def unhex (s : String) : Option Bytes := if s == "-" then some [] else unhexAux s.toList

structure FileRec where
  tree : FNode
  labels : List Nat      -- preorder
  rootRaw : Bool

mutual
/-- (tree, preorder labels, rest) -/
partial def parseTree : List String → Option (FNode × List Nat × List String)
  | "L" :: l :: sz :: r => do
    let l ← l.toNat?
    let sz ← sz.toNat?
    pure (.leaf (List.replicate sz 0), [l], r)
  | "R" :: l :: sz :: r => do
    let l ← l.toNat?
    let sz ← sz.toNat?
    pure (.leaf (List.replicate sz 0), [l], r)
  | "N" :: l :: fs :: k :: r => do
    let l ← l.toNat?
    let fs ← fs.toNat?
    let k ← k.toNat?
    let (cs, ls, r') ← parseKids k r
    pure (.node fs cs, l :: ls, r')
  | _ => none
partial def parseKids : Nat → List String → Option (List (FNode × Nat) × List Nat × List String)
  | 0, r => some ([], [], r)
  | k + 1, bs :: r => do
    let bs ← bs.toNat?
    let (t, ls, r') ← parseTree r
    let (cs, ls', r'') ← parseKids k r'
    pure ((t, bs) :: cs, ls ++ ls', r'')
  | _, _ => none
end

abbrev Table := List (Bytes × Bytes)

def tableH (t : Table) (k : Bytes) : Bytes :=
  match t.find? (fun e => e.1 == k) with
  | some e => e.2
  | none => []

def hexNat (s : String) : Option Nat :=
  s.toList.foldlM (fun acc c => (hexVal c).map (acc * 16 + ·)) 0

mutual
partial def parseTr : List String → Option (Tr × List String × Table)
  | "F" :: l :: raw :: r => do
    let l ← l.toNat?
    let (t, ls, r') ← parseTree r
    pure (.file l (raw == "1") t ls, r', [])
  | "S" :: l :: r => do
    let l ← l.toNat?
    pure (.sym l, r, [])
  | "D" :: l :: n :: r => do
    let l ← l.toNat?
    let n ← n.toNat?
    let (es, r', t) ← parseTrEnts n r
    pure (.dir l es, r', t)
  | "H" :: l :: fo :: bf :: r => do
    let l ← l.toNat?
    let fo ← fo.toNat?
    let bf ← hexNat bf
    let (sl, r', t) ← parseTrShard fo r
    pure (.hdir l fo bf sl, r', t)
  | _ => none
partial def parseTrEnts : Nat → List String → Option (List (Bytes × Tr) × List String × Table)
  | 0, r => some ([], r, [])
  | n + 1, name :: r => do
    let name ← unhex name
    let (nd, r', t1) ← parseTr r
    let (es, r'', t2) ← parseTrEnts n r'
    pure ((name, nd) :: es, r'', t1 ++ t2)
  | _, _ => none
partial def parseTrShard (fanout : Nat) : List String → Option (HSlots Tr × List String × Table)
  | n :: r => do
    let n ← n.toNat?
    parseTrSlots fanout n r
  | _ => none
partial def parseTrSlots (fanout : Nat) : Nat → List String → Option (HSlots Tr × List String × Table)
  | 0, r => some (.nil, r, [])
  | n + 1, "v" :: name :: hash :: r => do
    let name ← unhex name
    let hash ← unhex hash
    let (nd, r', t1) ← parseTr r
    let (sl, r'', t2) ← parseTrSlots fanout n r'
    pure (.val name nd sl, r'', (name.drop (C33.padLen fanout), hash) :: t1 ++ t2)
  | n + 1, "t" :: name :: l :: fo :: bf :: r => do
    let name ← unhex name
    let l ← l.toNat?
    let fo ← fo.toNat?
    let bf ← hexNat bf
    let (sub, r', t1) ← parseTrShard fo r
    let (sl, r'', t2) ← parseTrSlots fanout n r'
    pure (.sub name l fo bf sub sl, r'', t1 ++ t2)
  | _, _ => none
end

/-- `<hex>:<hashhex>,…` or `-` -/
def parseSegs (t : String) : Option (List Bytes × Table) :=
  if t == "-" then some ([], [])
  else (t.splitOn ",").foldrM (fun t (acc : List Bytes × Table) =>
    match t.splitOn ":" with
    | [s, h] => do
      let s ← unhex s
      let h ← unhex h
      pure (s :: acc.1, (s, h) :: acc.2)
    | _ => none) ([], [])

def insertSorted (x : Nat) : List Nat → List Nat
  | [] => [x]
  | y :: r => if x < y then x :: y :: r else if x = y then y :: r else y :: insertSorted x r

def showSet (ls : List Nat) : String :=
  ",".intercalate ((ls.foldl (fun acc l => insertSorted l acc) []).map toString)

structure St where
  files : List (Nat × String) := []     -- file k ↦ its path token
  root : Option Tr := none
  table : Table := []

def parseScope (s : String) : Scope :=
  if s == "block" then .block else if s == "entity" then .entity else .all

/-- the CAR request: `none` = bad op -/
def carLine (st : St) (segsTok scope rng : String) : Option String := do
  let root ← st.root
  let (segs, t) ← parseSegs segsTok
  let r : Option (Option Rng) :=
    if rng == "-" then some none
    else match unhex rng with
      | some s => (newDagByteRange s).map some
      | none => none
  match r with
  | none => pure "http-400"
  | some r =>
    let H := tableH (t ++ st.table)
    match carBlocks H root segs (parseScope scope) (r.getD ⟨0, none⟩) with
    | some (e, bl) => pure ((if e then "stream-error " else "ok ") ++ showSet bl)
    | none => pure ("absent " ++ showSet (pathBlocks H root segs))

def showInt (i : Int) : String := toString i

def step (st : St) (line : String) : St × String :=
  match (line.trimAscii.toString.splitOn " ").filter (· ≠ "") with
  | ["case", n] => ({}, s!"case {n}")
  | ["end"] => ({}, "end")
  | "build" :: _ => (st, "ok")
  | "tree" :: ts =>
    match parseTr ts with
    | some (t, [], tb) => ({ st with root := some t, table := tb },
        s!"ok blocks={((allBlocks t).foldl (fun acc l => insertSorted l acc) []).length}")
    | _ => (st, "bad-op")
  | "file" :: k :: segs :: ts =>
    match k.toNat?, parseTree ts with
    | some k, some (t, _, []) =>
      ({ st with files := (k, segs) :: st.files }, s!"ok size={size t} ws={wellSized t && posSized t}")
    | _, _ => (st, "bad-op")
  | ["range", h] =>
    match unhex h with
    | some s =>
      match newDagByteRange s with
      | some r => (st, s!"ok {showInt r.from_} " ++ (match r.to with | some t => showInt t | none => "*"))
      | none => (st, "err")
    | none => (st, "bad-op")
  | ["raw", _] => (st, "ok")
  | ["probe"] => (st, "ok")
  | ["car", fk, scope, rng, _] =>
    match (fk.drop 1).toString.toNat? with
    | none => (st, "bad-op")
    | some k =>
      match st.files.find? (·.1 == k) with
      | none => (st, "bad-op")
      | some (_, segs) => (st, (carLine st segs scope rng).getD "bad-op")
  | ["card", segs, scope, rng, _] => (st, (carLine st segs scope rng).getD "bad-op")
  | _ => (st, "bad-op")

partial def loop (h : IO.FS.Stream) (out : IO.FS.Stream) (st : St) : IO Unit := do
  let line ← h.getLine
  if line.isEmpty then return ()
  let (st', o) := step st line
  out.putStrLn o
  loop h out st'

def main : IO Unit := do
  let out ← IO.getStdout
  loop (← IO.getStdin) out {}
