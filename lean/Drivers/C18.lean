import BoxoModel.C18.Model
import BoxoModel.Lib.Hex
/-! Line-protocol driver for C18 (op lines documented in /verif/harness/cmd/c18/main.go). -/
open C18 Hex
abbrev Bytes := Varint.Bytes

def parseData (t : String) : Option (Option Bytes) :=
  if t == "nil" then some none else (unhex t).map some

def showData : Option Bytes → String
  | none => "nil"
  | some b => hex b

def parseTime (a b : String) : Option Time :=
  if a == "zero" then some Time.zero
  else do
    let s ← a.toInt?
    let n ← b.toNat?
    pure ⟨s, n⟩

def showTime (sep : String) (t : Time) : String :=
  if t.isZero then "zero" else s!"{t.sec}{sep}{t.nsec}"

def bv (t : String) : Option (BitVec 32) := t.toNat?.map (BitVec.ofNat 32)

/-- int32 view of the stored enum number -/
def showType (t : Nat) : String := if t < 2 ^ 31 then toString t else toString ((t : Int) - 2 ^ 32)

/-- `GetData()` of proto2 bytes: nil when absent -/
def showNode (n : FSNode) : String :=
  s!"type={showType n.type} dir={decide (n.type = 1 ∨ n.type = 5)} data={showData n.data} bs=[{",".intercalate (n.blocksizes.map toString)}] " ++
  s!"ht={n.hashType.getD 0} fo={n.fanout.getD 0} mode={(modeOf n).toNat} ext={(extendedMode n).toNat} " ++
  s!"mtime={showTime "." (modTime n)} fsize={fileSize n}"

def loadBytes (n : FSNode) (b : Bytes) : FSNode × String :=
  match decode b with
  | some m => (m, hex b)
  | none => (n, "err")

def step (n : FSNode) (line : String) : FSNode × String :=
  match (line.trimAscii.toString.splitOn " ").filter (· ≠ "") with
  | ["case", id] => (newFSNode 2, s!"case {id}")
  | ["end"] => (n, "end")
  | ["new", t] => match t.toNat? with
    | some t => (newFSNode t, "ok")
    | none => (n, "bad-op")
  | ["setdata", d] => match parseData d with
    | some d => (setData n d, "ok")
    | none => (n, "bad-op")
  | ["addbs", v] => match v.toNat? with
    | some v => (addBlockSize n v, "ok")
    | none => (n, "bad-op")
  | ["rmbs", i] => match i.toNat? with
    | some i => if i ≥ n.blocksizes.length then (n, "skip") else (removeBlockSize n i, "ok")
    | none => (n, "bad-op")
  | ["rmallbs"] => (removeAllBlockSizes n, "ok")
  | ["updfs", d] => match d.toInt? with
    | some d => (updateFilesize n d, "ok")
    | none => (n, "bad-op")
  | ["setmode", m] => match bv m with
    | some m => (setMode n m, "ok")
    | none => (n, "bad-op")
  | ["setunix", m] => match bv m with
    | some m => (setModeFromUnix n m, "ok")
    | none => (n, "bad-op")
  | ["setext", m] => match bv m with
    | some m => (setExtendedMode n m, "ok")
    | none => (n, "bad-op")
  | ["setmtime", a, b] => match parseTime a b with
    | some t => (setModTime n t, "ok")
    | none => (n, "bad-op")
  | ["reload"] => match decode (encode n) with
    | some m => (m, "ok")
    | none => (n, "err")
  | ["filepb", d, total, m, a, b] =>
    match parseData d, total.toNat?, bv m, parseTime a b with
    | some d, some total, some m, some t => loadBytes n (filePBDataWithStat d total m t)
    | _, _, _, _ => (n, "bad-op")
  | ["folderpb", m, a, b] =>
    match bv m, parseTime a b with
    | some m, some t => loadBytes n (folderPBDataWithStat m t)
    | _, _ => (n, "bad-op")
  | ["wrap", d] => match parseData d with
    | some d => loadBytes n (wrapData d)
    | none => (n, "bad-op")
  | ["symlink", d] => match parseData d with
    | some d => loadBytes n (symlinkData (d.getD []))
    | none => (n, "bad-op")
  | ["hamt", d, fo, ht, m, a, b] =>
    match parseData d, fo.toNat?, ht.toNat?, bv m, parseTime a b with
    | some d, some fo, some ht, some m, some t => loadBytes n (hamtShardDataWithStat d fo ht m t)
    | _, _, _, _, _ => (n, "bad-op")
  | ["filepb0", d, total] =>
    match parseData d, total.toNat? with
    | some d, some total => loadBytes n (filePBDataWithStat d total 0 Time.zero)
    | _, _ => (n, "bad-op")
  | ["folderpb0"] => loadBytes n (folderPBDataWithStat 0 Time.zero)
  | ["hamt0", d, fo, ht] =>
    match parseData d, fo.toNat?, ht.toNat? with
    | some d, some fo, some ht => loadBytes n (hamtShardDataWithStat d fo ht 0 Time.zero)
    | _, _, _ => (n, "bad-op")
  | ["load", h] => match unhex h with
    | none => (n, "bad-op")
    | some b => match decode b with
      | none => (n, "err")
      | some m => (m, showNode m)
  | ["meta", d, sz] =>
    match parseData d, sz.toNat? with
    | some d, some sz =>
      let b := bytesForMetadata (d.getD []) sz
      match metadataFromBytes b with
      | some mime => (n, s!"{hex b} mime={hex mime}")
      | none => (n, "err")
    | _, _ => (n, "bad-op")
  | ["metadec", h] => match unhex h with
    | none => (n, "bad-op")
    | some b => match metadataFromBytes b with
      | none => (n, "err")
      | some mime => (n, s!"mime={hex mime}")
  | ["unwrap"] => (n, showData n.data)
  | ["mode"] => (n, toString (modeOf n).toNat)
  | ["ext"] => (n, toString (extendedMode n).toNat)
  | ["mtime"] => (n, showTime " " (modTime n))
  | ["fsize"] => (n, toString (fileSize n))
  | ["bytes"] => (n, hex (encode n))
  | ["show"] => (n, showNode n)
  | ["dec", h] => match unhex h with
    | none => (n, "bad-op")
    | some b => match decode b with
      | none => (n, "err")
      | some m => (n, showNode m)
  | _ => (n, "bad-op")

partial def loop (h : IO.FS.Stream) (out : IO.FS.Stream) (n : FSNode) : IO Unit := do
  let line ← h.getLine
  if line.isEmpty then return ()
  let (n', o) := step n line
  out.putStrLn o
  loop h out n'

def main : IO Unit := do
  let out ← IO.getStdout
  loop (← IO.getStdin) out (newFSNode 2)
