import BoxoModel.C40.Model
/-! Line-protocol driver for C40 (see /verif/docs/HOWTO.md).
ops:  cfg <limit>      (new FS keystore in directory "/ks" with NAME_MAX = limit, new Mem keystore)
      has <name> | put <name> <key> | get <name> | del <name> | list | dump     (hex, "-" = empty)
output: `fs=<result> mem=<result>`; dump: files of the keystore directory and every file outside it -/
open C40 BaseN

def hexVal (c : Char) : Option Nat :=
  if '0' ≤ c ∧ c ≤ '9' then some (c.toNat - '0'.toNat)
  else if 'a' ≤ c ∧ c ≤ 'f' then some (c.toNat - 'a'.toNat + 10)
  else none

def unhexL : List Char → Option Bytes
  | [] => some []
  | a :: b :: r => do
    let x ← hexVal a
    let y ← hexVal b
    let t ← unhexL r
    pure (UInt8.ofNat (x * 16 + y) :: t)
  | _ => none

def unhex (s : String) : Option Bytes := if s == "-" then some [] else unhexL s.toList

def hexDigit (n : Nat) : Char := if n < 10 then Char.ofNat (48 + n) else Char.ofNat (87 + n)
def hex (b : Bytes) : String :=
  if b.isEmpty then "-" else String.ofList (b.flatMap fun x => [hexDigit (x.toNat / 16), hexDigit (x.toNat % 16)])

def sortStrings (l : List String) : List String := (l.toArray.qsort (· < ·)).toList

def showOut : Out → String
  | .ok => "ok"
  | .bool b => toString b
  | .key k => s!"key:{hex k}"
  | .names l => "names:" ++ ",".intercalate (sortStrings (l.map hex))
  | .invalid => "invalid"
  | .exists => "exists"
  | .noSuchKey => "nosuchkey"
  | .error => "error"

structure St where
  cfg : Cfg := { dir := "/ks".toList, limit := 255 }
  fs : FS := {}
  mem : Mem := []

def doOp (st : St) (op : Option Op) : St × String :=
  match op with
  | none => (st, "bad-op")
  | some op =>
    let r := fsStep st.cfg st.fs op
    let m := memStep st.mem op
    ({ st with fs := r.1, mem := m.1 }, s!"fs={showOut r.2} mem={showOut m.2}")

def showDump (st : St) : String :=
  let inside := st.fs.files.filterMap fun (p, d) => (FS.childName st.cfg.dir p).map fun n => String.ofList n ++ "=" ++ hex d
  let outside := st.fs.files.filterMap fun (p, _) =>
    match FS.childName st.cfg.dir p with
    | some _ => none
    | none => some (String.ofList p)
  "dump " ++ ";".intercalate (sortStrings inside) ++ " outside=" ++ ";".intercalate (sortStrings outside)

def stepLine (st : St) (line : String) : St × String :=
  match (line.trimAscii.toString.splitOn " ").filter (· ≠ "") with
  | ["case", n] => ({}, s!"case {n}")
  | ["end"] => ({}, "end")
  | ["cfg", l] => ({ cfg := { dir := "/ks".toList, limit := l.toNat?.getD 255 } }, "ok")
  | ["has", n] => doOp st (do pure (.has (← unhex n)))
  | ["put", n, k] => doOp st (do pure (.put (← unhex n) (← unhex k)))
  | ["get", n] => doOp st (do pure (.get (← unhex n)))
  | ["del", n] => doOp st (do pure (.delete (← unhex n)))
  | ["list"] => doOp st (some .list)
  | ["dump"] => (st, showDump st)
  | _ => (st, "bad-op")

partial def loop (h : IO.FS.Stream) (out : IO.FS.Stream) (st : St) : IO Unit := do
  let line ← h.getLine
  if line.isEmpty then return ()
  let (st', o) := stepLine st line
  out.putStrLn o
  loop h out st'

def main : IO Unit := do
  let out ← IO.getStdout
  loop (← IO.getStdin) out {}
