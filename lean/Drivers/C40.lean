import BoxoModel.C40.Model
/-! Line-protocol driver for C40 (see /verif/docs/HOWTO.md).
ops:  cfg <limit>      (new FS keystore in directory "/ks" with NAME_MAX = limit, new Mem keystore)
      has <name> | put <name> <key> | get <name> | del <name> | list | dump     (hex, "-" = empty)
      plantsym <fname> <target> | plantdir <fname> | plantfile <fname> <hex> <keyok> |
      plantout <target> <hex> <keyok>      foreign objects: <fname> inside the keystore directory,
                                           <target> = path relative to the directory's parent
output: `fs=<result> mem=<result>`; dump: files of the keystore directory and every file outside it -/
open C40 BaseN

def hexVal (c : Char) : Option Nat :=
  if '0' ≤ c ∧ c ≤ '9' then some (c.toNat - '0'.toNat)
  else if 'a' ≤ c ∧ c ≤ 'f' then some (c.toNat - 'a'.toNat + 10)
  else none

def unhexL : List Char → Option Bytes
  | [] => some []
  | a :: b :: r => do
    let x ← hexVal a
    let y ← hexVal b
    let t ← unhexL r
    pure (UInt8.ofNat (x * 16 + y) :: t)
  | _ => none

def unhex (s : String) : Option Bytes := if s == "-" then some [] else unhexL s.toList

def hexDigit (n : Nat) : Char := if n < 10 then Char.ofNat (48 + n) else Char.ofNat (87 + n)
def hex (b : Bytes) : String :=
  if b.isEmpty then "-" else String.ofList (b.flatMap fun x => [hexDigit (x.toNat / 16), hexDigit (x.toNat % 16)])

def sortStrings (l : List String) : List String := (l.toArray.qsort (· < ·)).toList

def showOut : Out → String
  | .ok => "ok"
  | .bool b => toString b
  | .key k => s!"key:{hex k}"
  | .names l => "names:" ++ ",".intercalate (sortStrings (l.map hex))
  | .invalid => "invalid"
  | .exists => "exists"
  | .noSuchKey => "nosuchkey"
  | .error => "error"

structure St where
  cfg : Cfg := { dir := "/ks".toList, limit := 255 }
  fs : FS := {}
  mem : Mem := []

def doOp (st : St) (op : Option Op) : St × String :=
  match op with
  | none => (st, "bad-op")
  | some op =>
    let r := fsStep st.cfg st.fs op
    let m := memStep st.mem op
    ({ st with fs := r.1, mem := m.1 }, s!"fs={showOut r.2} mem={showOut m.2}")

def rel (_st : St) (p : Path) : String := String.ofList (p.drop 1)   -- "/outside/x" ↦ "outside/x"

def showForeign (st : St) : Foreign → String
  | .symlink t => "->" ++ rel st t
  | .dir => "dir"
  | .file d _ => hex d

def showDump (st : St) : String :=
  let all : List (Path × String) :=
    (st.fs.files.map fun (p, d) => (p, hex d)) ++ (st.fs.foreign.map fun (p, f) => (p, showForeign st f))
  let inside := all.filterMap fun (p, v) => (FS.childName st.cfg.dir p).map fun n => String.ofList n ++ "=" ++ v
  let outside := all.filterMap fun (p, v) =>
    match FS.childName st.cfg.dir p with
    | some _ => none
    | none => some (rel st p ++ "=" ++ v)
  "dump " ++ ";".intercalate (sortStrings inside) ++ " outside=" ++ ";".intercalate (sortStrings outside)

def doPlant (st : St) (p : Path) (f : Option Foreign) : St × String :=
  match f with
  | none => (st, "bad-op")
  | some f => let r := st.fs.plant p f; ({ st with fs := r.1 }, if r.2 then "ok" else "exists")

def inDir (st : St) (fname : String) : Path := join st.cfg.dir fname.toList
def outPath (t : String) : Path := '/' :: t.toList

def stepLine (st : St) (line : String) : St × String :=
  match (line.trimAscii.toString.splitOn " ").filter (· ≠ "") with
  | ["case", n] => ({}, s!"case {n}")
  | ["end"] => ({}, "end")
  | ["cfg", l] => ({ cfg := { dir := "/ks".toList, limit := l.toNat?.getD 255 } }, "ok")
  | ["has", n] => doOp st (do pure (.has (← unhex n)))
  | ["put", n, k] => doOp st (do pure (.put (← unhex n) (← unhex k)))
  | ["get", n] => doOp st (do pure (.get (← unhex n)))
  | ["del", n] => doOp st (do pure (.delete (← unhex n)))
  | ["list"] => doOp st (some .list)
  | ["putbad", n] =>
    match unhex n with
    | some n => let r := fsPutUnmarshalable st.fs n; ({ st with fs := r.1 }, s!"fs={showOut r.2}")
    | none => (st, "bad-op")
  | ["race", n, k1, k2] =>
    -- two concurrent Puts of one name into the FS keystore: the exclusive create is atomic, so the
    -- outcome (as a set) is that of the two Puts in sequence; the harness then removes the new key
    match unhex n, unhex k1, unhex k2 with
    | some n, some k1, some k2 =>
      let r1 := fsStep st.cfg st.fs (.put n k1)
      let r2 := fsStep st.cfg r1.1 (.put n k2)
      let fs' := if r1.2 == .ok ∨ r2.2 == .ok then (fsStep st.cfg r2.1 (.delete n)).1 else r2.1
      ({ st with fs := fs' }, "race " ++ ",".intercalate (sortStrings [showOut r1.2, showOut r2.2]))
    | _, _, _ => (st, "bad-op")
  | ["plantsym", fname, target] => doPlant st (inDir st fname) (some (.symlink (outPath target)))
  | ["plantdir", fname] => doPlant st (inDir st fname) (some .dir)
  | ["plantfile", fname, d, ok] => doPlant st (inDir st fname) (do pure (.file (← unhex d) (ok == "1")))
  | ["plantout", target, d, ok] => doPlant st (outPath target) (do pure (.file (← unhex d) (ok == "1")))
  | ["dump"] => (st, showDump st)
  | _ => (st, "bad-op")

partial def loop (h : IO.FS.Stream) (out : IO.FS.Stream) (st : St) : IO Unit := do
  let line ← h.getLine
  if line.isEmpty then return ()
  let (st', o) := stepLine st line
  out.putStrLn o
  loop h out st'

def main : IO Unit := do
  let out ← IO.getStdout
  loop (← IO.getStdin) out {}
