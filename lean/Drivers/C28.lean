import BoxoModel.C28.Model
import BoxoModel.C28.Codec
/-! Line-protocol driver for C28. -/
open PathClean C28

def unhexList (s : String) : Option (List Str) :=
  if s == "=" then some [] else (s.splitOn ",").mapM unhex

def hexList (xs : List Str) : String :=
  if xs.isEmpty then "=" else ",".intercalate (xs.map hex)

/-- the observed CID decoder: a string decodes iff it is in the table; the CID value is the string -/
def decOf (table : List Str) (s : Str) : Option Str := if table.contains s then some s else none

def showPath (r : Except Err (Path Str)) : String :=
  match r with
  | .error .insufficient => "err insufficient"
  | .error .badCid => "err cid"
  | .error .unknownNs => "err ns"
  | .ok p =>
    let root := match p.root with
      | some c => hex c
      | none => "none"
    s!"ok {hex p.ns} {if p.mutable then 1 else 0} {hex p.str} {hexList p.segments} {root}"

def bit (b : Bool) : String := if b then "1" else "0"

def step (line : String) : String :=
  match (line.trimAscii.toString.splitOn " ").filter (· ≠ "") with
  | ["case", n] => s!"case {n}"
  | ["end"] => "end"
  | ["segs", a] =>
    match unhex a with
    | some a => hexList (stringToSegments a)
    | none => "bad-op"
  | ["s2s", a] =>
    match unhexList a with
    | some a => hex (segmentsToString a)
    | none => "bad-op"
  | ["path", a, t] =>
    match unhex a, unhexList t with
    | some a, some t => showPath (newPath (decOf t) a)
    | _, _ => "bad-op"
  | ["uri", a, t] =>
    match unhex a, unhexList t with
    | some a, some t => showPath (newPathFromURI (decOf t) a)
    | _, _ => "bad-op"
  | ["norm", a] =>
    match unhex a with
    | some a => hex (normalizeURIScheme a)
    | none => "bad-op"
  | ["pjoin", a, t, e] =>
    match unhex a, unhexList t, unhexList e with
    | some a, some t, some e =>
      match newPath (decOf t) a with
      | .ok p => showPath (join (decOf t) p e)
      | r => "base-" ++ showPath r
    | _, _, _ => "bad-op"
  | ["name", s, m, b] =>
    match unhex s, unhex b with
    | some s, some b36 =>
      let obs : Option Str := if m == "err" then none else unhex m
      let k : NameCodec := {
        peerDecode := fun x => if x = trimNsPrefix s then obs else if some x = obs.map (fun _ => b36) then obs else none
        validMh := fun x => some x = obs
        cidB36 := fun _ => b36 }
      match nameFromString k s with
      | none => "err"
      | some n =>
        match n.toStr k, n.cid k with
        | some str, some c =>
          let r1 := nameFromString k str == some n
          let r2 := nameFromString k (nsPrefix ++ str) == some n
          let r3 := nameFromCid c == some n
          let r4 := nameFromRoutingKey k n.routingKey == some n
          let r5 := nameFromPeer n.peer == n
          s!"ok {hex n} {hex str} {hex n.routingKey} rt={bit r1}{bit r2}{bit r3}{bit r4}{bit r5}"
        | _, _ => "invalid-name"
    | _, _ => "bad-op"
  | ["pdec", s, ex] =>
    -- peer.Decode with the concrete codecs; `ex` = what go-multibase returned for a prefix the model does not cover
    match unhex s with
    | some s =>
      let extra : Str → Option Bytes := fun _ => if ex == "err" || ex == "none" then none else (unhex ex).bind s2b?
      match peerDecodeB extra s with
      | some m => hex (b2s m)
      | none => "err"
    | none => "bad-op"
  | ["b36", m] =>
    match (unhex m).bind s2b? with
    | some m => hex (cidB36B m)
    | none => "bad-op"
  | ["cname", s, ex] =>
    match unhex s with
    | some s =>
      let extra : Str → Option Bytes := fun _ => if ex == "err" || ex == "none" then none else (unhex ex).bind s2b?
      let k := concreteCodec extra
      match nameFromString k s with
      | none => "err"
      | some n =>
        match n.toStr k, n.cid k with
        | some str, some c =>
          let r1 := nameFromString k str == some n
          let r2 := nameFromString k (nsPrefix ++ str) == some n
          let r3 := nameFromCid c == some n
          let r4 := nameFromRoutingKey k n.routingKey == some n
          let r5 := nameFromPeer n.peer == n
          s!"ok {hex n} {hex str} {hex n.routingKey} rt={bit r1}{bit r2}{bit r3}{bit r4}{bit r5}"
        | _, _ => "invalid-name"
    | none => "bad-op"
  | ["rkeyc", d] =>
    -- NameFromRoutingKey with the concrete multihash check
    match unhex d with
    | some d =>
      match nameFromRoutingKey (concreteCodec (fun _ => none)) d with
      | some n => s!"ok {hex n}"
      | none => "err"
    | none => "bad-op"
  | ["rkey", d, v] =>
    match unhex d with
    | some d =>
      let k : NameCodec := { peerDecode := fun _ => none, validMh := fun _ => v == "1", cidB36 := fun _ => [] }
      match nameFromRoutingKey k d with
      | some n => s!"ok {hex n}"
      | none => "err"
    | none => "bad-op"
  | _ => "bad-op"

partial def loop (h : IO.FS.Stream) (out : IO.FS.Stream) : IO Unit := do
  let line ← h.getLine
  if line.isEmpty then return ()
  out.putStrLn (step line)
  loop h out

def main : IO Unit := do
  loop (← IO.getStdin) (← IO.getStdout)
