import BoxoModel.C13.Model
/-! Line-protocol driver for C13 (dag/walker). Ops:

  node <idx> <pb|cbor|raw> <sha|id> <present 0|1|2> <utype -|x|0..5> <link tokens…>
        defines node <idx> (= number of nodes defined so far); a CID token is `<node><view>` with view
        a = CIDv0, b = CIDv1 native codec, r = CIDv1 raw codec over the same multihash; CID number = 3*node+view
  tracker <none|map|cidset>
  walk <dag|entity> <root> <stopAt | c<cancelAt>> <nil|set> <nonlocal tokens,|-> <locality-error tokens,|->
  has <token>
  bnew <cap> <fpRate> <seed> | bvisit <key> <ans 0|1> | bhas <key> <ans 0|1> | brange <first> <count> <negatives,|->
-/
open C13

structure NodeInfo where
  codec : Codec
  ident : Bool
  present : Nat
  utype : Option (Option Nat)
  links : List Nat

structure DS where
  nodes : Array NodeInfo := #[]
  trk : String := "none"
  tr : MapT := {}
  rb : Option RB := none

def parseTok (s : String) : Option Nat :=
  let n := s.length
  if n < 2 then none else
  let v := match s.back with
    | 'a' => some 0 | 'b' => some 1 | 'r' => some 2 | _ => none
  match v, (s.dropEnd 1).toString.toNat? with
  | some v, some k => some (3 * k + v)
  | _, _ => none

def showTok (c : Nat) : String :=
  toString (c / 3) ++ (match c % 3 with | 0 => "a" | 1 => "b" | _ => "r")

def parseToks (s : String) : Option (List Nat) :=
  if s == "-" then some [] else (s.splitOn ",").mapM parseTok

def parseNats (s : String) : Option (List Nat) :=
  if s == "-" then some [] else (s.splitOn ",").mapM String.toNat?

def mkGraph (d : DS) (keyById : Bool) (nonloc : List Nat) : Graph where
  n := 3 * d.nodes.size
  key := fun c => if keyById then c else c / 3
  links := fun c =>
    match d.nodes[c / 3]? with
    | none => none
    | some nd =>
      if !nd.ident && nd.present == 0 then none
      else if c % 3 == 2 then some []
      else if nd.present == 2 then none
      else some nd.links
  loc := fun c => !nonloc.contains c
  ident := fun c => match d.nodes[c / 3]? with | some nd => nd.ident | none => false

def entOf (d : DS) (c : Nat) : Entity :=
  if c % 3 == 2 then .file
  else match d.nodes[c / 3]? with
    | some nd => detect nd.codec nd.utype
    | none => .unknown

def showOut (o : List Nat) : String := if o.isEmpty then "-" else ",".intercalate (o.map showTok)

def showRB (r : RB) : String :=
  s!"count={r.totalInserts} dedup={r.dedup} chain={r.chainLen} cap={r.lastCap} cur={r.curInserts}"

def step (d : DS) (line : String) : DS × String :=
  match (line.trimAscii.toString.splitOn " ").filter (· ≠ "") with
  | ["case", n] => ({}, s!"case {n}")
  | ["end"] => ({}, "end")
  | "node" :: idx :: codec :: mh :: present :: utype :: links =>
    let r : Option NodeInfo := do
      let i ← idx.toNat?
      if i != d.nodes.size then none
      let codec ← (match codec with | "pb" => some Codec.dagpb | "cbor" => some Codec.other | "raw" => some Codec.raw | _ => none)
      let ident ← (match mh with | "sha" => some false | "id" => some true | _ => none)
      let p ← present.toNat?
      let ut ← (match utype with
        | "-" => some none
        | "x" => some (some none)
        | t => (t.toNat?).map (fun t => some (some t)))
      let ls ← links.mapM parseTok
      pure { codec := codec, ident := ident, present := p, utype := ut, links := ls }
    match r with
    | some nd => ({ d with nodes := d.nodes.push nd }, "ok")
    | none => (d, "bad-op")
  | ["tracker", k] =>
    if k == "none" || k == "map" || k == "cidset" then ({ d with trk := k, tr := {} }, "ok") else (d, "bad-op")
  | ["walk", mode, root, stopAt, _, nl, le] =>
    -- stopAt = k: emit returns false on its k-th call; stopAt = ck: the context is cancelled during the k-th call
    let cancel := stopAt.startsWith "c"
    let stopAt := if cancel then (stopAt.drop 1).toString else stopAt
    match parseTok root, stopAt.toNat?, parseToks nl, parseToks le with
    | some root, some stopAt, some nl, some le =>
      let errOf (s : St) : String := if cancel && stopAt != 0 && s.out.length == stopAt && cancelledErr s then "canceled" else "nil"
      let g0 := mkGraph d (d.trk == "cidset") (nl ++ le)
      let g := if mode == "entity" then cut g0 (entOf d) else g0
      if d.trk == "none" then
        match walkNoTracker g stopAt 300000 root with
        | some s => (d, s!"out={showOut s.out} err={errOf s}")
        | none => (d, "fuel-out")
      else
        match walk g stopAt d.tr root with
        | some s =>
          let dd := if d.trk == "map" then s!" dedup={s.tr.dedup}" else ""
          ({ d with tr := s.tr }, s!"out={showOut s.out} err={errOf s}{dd}")
        | none => (d, "fuel-out")
    | _, _, _, _ => (d, "bad-op")
  | ["has", tok] =>
    match parseTok tok with
    | some c =>
      if d.trk == "none" then (d, "none")
      else (d, toString (d.tr.has (if d.trk == "cidset" then c else c / 3)))
    | none => (d, "bad-op")
  | ["bnew", cap, fp, _] =>
    match cap.toNat?, fp.toNat? with
    | some cap, some fp =>
      if cap < 10000 || fp == 0 then ({ d with rb := none }, "err")
      else ({ d with rb := some { lastCap := cap } }, "ok " ++ showRB { lastCap := cap })
    | _, _ => (d, "bad-op")
  | ["bvisit", k, ans] =>
    match d.rb, k.toNat?, ans.toNat? with
    | some rb, some k, some a =>
      let r := rb.visit k (a != 0)
      ({ d with rb := some r.1 }, (if r.2 then s!"v={a} " else "v=INADMISSIBLE ") ++ showRB r.1)
    | _, _, _ => (d, "bad-op")
  | ["bhas", k, ans] =>
    match d.rb, k.toNat?, ans.toNat? with
    | some rb, some k, some a => (d, if rb.has k (a != 0) then s!"h={a}" else "h=INADMISSIBLE")
    | _, _, _ => (d, "bad-op")
  | ["brange", a, n, negs] =>
    match d.rb, a.toNat?, n.toNat?, parseNats negs with
    | some rb, some a, some n, some negs =>
      let r := rb.visitRange (Std.HashSet.ofList negs) a n true
      ({ d with rb := some r.1 }, (if r.2 then s!"neg={negs.length} " else "INADMISSIBLE ") ++ showRB r.1)
    | _, _, _, _ => (d, "bad-op")
  | _ => (d, "bad-op")

partial def loopIO (h : IO.FS.Stream) (out : IO.FS.Stream) (d : DS) : IO Unit := do
  let line ← h.getLine
  if line.isEmpty then return ()
  let (d', o) := step d line
  out.putStrLn o
  loopIO h out d'

def main : IO Unit := do
  let out ← IO.getStdout
  loopIO (← IO.getStdin) out {}
