import BoxoModel.C33.Model
import BoxoModel.C33.NonLink
/-! Line-protocol driver for C33.

  tree <node>                      → `wf=<bool> nodes=<n>`   (the harness prints the literal `wf=true`)
  rtl <seghex>:<hashhex> ...       → `ok <cid> rem=<n>` | `nolink <seghex>` | `err`
  rp  <seghex>:<hashhex> ...       → `ok <cid>` | `err`
  rpc <seghex>:<hashhex> ...       → `n=<matched nodes>`
  build <recipe>                   → `ok` (recipe is for the Go side only)
  mode remote <fill>               → `ok` (block source of the Go side; resolution must not depend on it)

  <node>  ::= f <cid> | s <cid> | d <cid> <n> (<namehex> <node>)^n | h <cid> <fanout> <bfhex> <shard>
  <shard> ::= <n> (<slot>)^n
  <slot>  ::= v <linknamehex> <hashhex-of-key> <node> | t <linknamehex> <fanout> <bfhex> <shard>

The hash function is the finite table of (name, murmur3) pairs observed by the harness. -/
open C33

def hexVal (c : Char) : Option Nat :=
  if '0' ≤ c ∧ c ≤ '9' then some (c.toNat - '0'.toNat)
  else if 'a' ≤ c ∧ c ≤ 'f' then some (c.toNat - 'a'.toNat + 10)
  else if 'A' ≤ c ∧ c ≤ 'F' then some (c.toNat - 'A'.toNat + 10)
  else none

def unhexAux : List Char → Option Bytes
  | [] => some []
  | a :: b :: r => do
    let x ← hexVal a
    let y ← hexVal b
    let t ← unhexAux r
    pure (UInt8.ofNat (x * 16 + y) :: t)
  | _ => none

def unhex (s : String) : Option Bytes := if s == "-" then some [] else unhexAux s.toList

def hexNat (s : String) : Option Nat :=
  if s == "-" then some 0 else s.toList.foldlM (fun acc c => (hexVal c).map (acc * 16 + ·)) 0

def hexDigit (n : Nat) : Char := if n < 10 then Char.ofNat (48 + n) else Char.ofNat (87 + n)
def toHex (b : Bytes) : String :=
  if b.isEmpty then "-" else String.ofList (b.flatMap fun x => [hexDigit (x.toNat / 16), hexDigit (x.toNat % 16)])

abbrev Table := List (Bytes × Bytes)

def tableH (t : Table) (k : Bytes) : Bytes :=
  match t.find? (fun e => e.1 == k) with
  | some e => e.2
  | none => []

mutual
/-- returns (node, remaining tokens, hash table entries seen) -/
partial def parseNode : List String → Option (Node × List String × Table)
  | "f" :: c :: r => some (.file c, r, [])
  | "s" :: c :: r => some (.sym c, r, [])
  | "d" :: c :: n :: r => do
    let n ← n.toNat?
    let (ents, r', t) ← parseEnts n r
    pure (.dir c ents, r', t)
  | "h" :: c :: fo :: bf :: r => do
    let fo ← fo.toNat?
    let bf ← hexNat bf
    let (sl, r', t) ← parseShard fo r
    pure (.hdir c fo bf sl, r', t)
  | _ => none
partial def parseEnts : Nat → List String → Option (List (Bytes × Node) × List String × Table)
  | 0, r => some ([], r, [])
  | n + 1, name :: r => do
    let name ← unhex name
    let (nd, r', t1) ← parseNode r
    let (es, r'', t2) ← parseEnts n r'
    pure ((name, nd) :: es, r'', t1 ++ t2)
  | _, _ => none
partial def parseShard (fanout : Nat) : List String → Option (Slots Node × List String × Table)
  | n :: r => do
    let n ← n.toNat?
    parseSlots fanout n r
  | _ => none
partial def parseSlots (fanout : Nat) : Nat → List String → Option (Slots Node × List String × Table)
  | 0, r => some (.nil, r, [])
  | n + 1, "v" :: name :: hash :: r => do
    let name ← unhex name
    let hash ← unhex hash
    let (nd, r', t1) ← parseNode r
    let (sl, r'', t2) ← parseSlots fanout n r'
    pure (.val name nd sl, r'', (name.drop (padLen fanout), hash) :: t1 ++ t2)
  | n + 1, "t" :: name :: fo :: bf :: r => do
    let name ← unhex name
    let fo ← fo.toNat?
    let bf ← hexNat bf
    let (sub, r', t1) ← parseShard fo r
    let (sl, r'', t2) ← parseSlots fanout n r'
    pure (.sub name fo bf sub sl, r'', t1 ++ t2)
  | _, _ => none
end

def parseSegs (ts : List String) : Option (List Bytes × Table) :=
  ts.foldrM (fun t (acc : List Bytes × Table) =>
    match t.splitOn ":" with
    | [s, h] => do
      let s ← unhex s
      let h ← unhex h
      pure (s :: acc.1, (s, h) :: acc.2)
    | _ => none) ([], [])

/-- `I` | `M <n> (<namehex> v)^n` | `K <cid> v` -/
partial def parseV : List String → Option (V × List String)
  | "I" :: r => some (.scalar, r)
  | "K" :: c :: r => do
    let (t, r') ← parseV r
    pure (.link c t, r')
  | "M" :: n :: r => do
    let n ← n.toNat?
    let rec go : Nat → List String → Option (List (Bytes × V) × List String)
      | 0, r => some ([], r)
      | k + 1, name :: r => do
        let name ← unhex name
        let (v, r') ← parseV r
        let (fs, r'') ← go k r'
        pure ((name, v) :: fs, r'')
      | _, _ => none
    let (fs, r') ← go n r
    pure (.map fs, r')
  | _ => none

structure St where
  root : Option Node := none
  table : Table := []
  croot : Option (Cid × V) := none

def showRes : Res → String
  | .ok c rem => s!"ok {c} rem={rem.length}"
  | .noLink n => s!"nolink {toHex n}"
  | .err _ => "err"

def step (st : St) (line : String) : St × String :=
  match (line.trimAscii.toString.splitOn " ").filter (· ≠ "") with
  | ["case", n] => ({}, s!"case {n}")
  | ["end"] => ({}, "end")
  | "cbuild" :: _ => (st, "ok")
  | "ctree" :: c :: ts =>
    match parseV ts with
    | some (v, []) => ({ st with croot := some (c, v) }, "ok")
    | _ => (st, "bad-op")
  | "crtl" :: ts =>
    match st.croot, parseSegs ts with
    | some (c, v), some (segs, _) =>
      (st, match rtlV v c segs with
        | .ok c' rem => s!"ok {c'} rem=" ++ "/".intercalate (rem.map toHex)
        | .noLink n => s!"nolink {toHex n}"
        | .err => "err")
    | _, _ => (st, "bad-op")
  | "mode" :: _ => (st, "ok")    -- where the blocks come from (local / remote exchange): invisible to the model
  | "build" :: _ => (st, "ok")
  | "tree" :: ts =>
    match parseNode ts with
    | some (nd, [], t) => ({ root := some nd, table := t }, s!"wf={wfTree (tableH t) 8 nd} nodes={countNodes nd}")
    | _ => (st, "bad-op")
  | op :: ts =>
    match st.root, parseSegs ts with
    | some root, some (segs, t) =>
      let H := tableH (t ++ st.table)
      match op with
      | "rtl" => (st, showRes (resolveToLastNode H root segs))
      | "rp" => (st, match resolvePath H root segs with | some c => s!"ok {c}" | none => "err")
      | "rpc" =>
        (st, match resolvePathComponents H root segs with | some ns => s!"n={ns.length}" | none => "err")
      | _ => (st, "bad-op")
    | _, _ => (st, "bad-op")
  | _ => (st, "bad-op")

partial def loop (h : IO.FS.Stream) (out : IO.FS.Stream) (st : St) : IO Unit := do
  let line ← h.getLine
  if line.isEmpty then return ()
  let (st', o) := step st line
  out.putStrLn o
  loop h out st'

def main : IO Unit := do
  let out ← IO.getStdout
  loop (← IO.getStdin) out {}
