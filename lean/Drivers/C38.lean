import BoxoModel.C38.Model
/-! Line-protocol driver for C38 (protocol: see harness/cmd/c38/main.go).  Runs the model of the repaired
extractor; `C38_UNFIXED=1` runs the model of the code before the fix. -/
open FS C38

def hexVal (c : Char) : Nat :=
  if c.isDigit then c.toNat - 48 else if 'a' ≤ c ∧ c ≤ 'f' then c.toNat - 87 else 0

def unhexBytes (s : String) : List UInt8 :=
  if s == "-" then [] else
  let rec go : List Char → List UInt8
    | a :: b :: r => UInt8.ofNat (hexVal a * 16 + hexVal b) :: go r
    | _ => []
  go s.toList

def unhexStr (s : String) : String :=
  match String.fromUTF8? (ByteArray.mk (unhexBytes s).toArray) with
  | some t => t
  | none => "?"

def hexDigit (n : Nat) : Char := if n < 10 then Char.ofNat (48 + n) else Char.ofNat (87 + n)
def hexBytes (b : List UInt8) : String :=
  if b.isEmpty then "-" else String.ofList (b.flatMap fun x => [hexDigit (x.toNat / 16), hexDigit (x.toNat % 16)])
def hexStr (s : String) : String := hexBytes s.toUTF8.toList

def parsePath (s : String) : Path := if s == "." then [] else s.splitOn "/"

def octal (n : Nat) : String := String.ofList (Nat.toDigits 8 n)
def parseOct (s : String) : Nat := s.toList.foldl (fun a c => a * 8 + (c.toNat - 48)) 0

def u32 (s : String) : Nat := ((s.toInt?.getD 0) % 4294967296).toNat

def parseNode (s : String) : Option (Path × Node) :=
  match s.splitOn "," with
  | ["d", p, m, t] => some (parsePath p, { kind := .dir, mode := parseOct m, mtime := t.toInt? })
  | ["f", p, m, t, h] => some (parsePath p, { kind := .file, mode := parseOct m, mtime := t.toInt?, data := unhexBytes h })
  | ["l", p, tg, t] => some (parsePath p, { kind := .link, mode := 0o777, mtime := t.toInt?, target := (unhexStr tg).splitOn "/" })
  | _ => none

def parseEntry (s : String) : Option Entry :=
  match s.splitOn "," with
  | ["D", n, m, t] => some { name := (unhexStr n).splitOn "/", typ := .dir, mode := parseOct m, mtime := t.toInt?.getD 0 }
  | ["F", n, m, t, h] => some { name := (unhexStr n).splitOn "/", typ := .reg, mode := parseOct m, mtime := t.toInt?.getD 0, data := unhexBytes h }
  | ["L", n, l, m, t] => some { name := (unhexStr n).splitOn "/", typ := .symlink, linkname := (unhexStr l).splitOn "/", mode := parseOct m, mtime := t.toInt?.getD 0 }
  | ["X", n] => some { name := (unhexStr n).splitOn "/", typ := .other }
  -- entries of `extractraw`: what archive/tar's Reader returned for a hand-made stream; `header.Mode` is a
  -- signed decimal int64 and reaches the model as `uint32(mode)` like in the Go code
  | ["d", n, m, t] => some { name := (unhexStr n).splitOn "/", typ := .dir, mode := u32 m, mtime := t.toInt?.getD 0 }
  | ["f", n, m, t, h] => some { name := (unhexStr n).splitOn "/", typ := .reg, mode := u32 m, mtime := t.toInt?.getD 0, data := unhexBytes h }
  | ["l", n, l, m, t] => some { name := (unhexStr n).splitOn "/", typ := .symlink, linkname := (unhexStr l).splitOn "/", mode := u32 m, mtime := t.toInt?.getD 0 }
  | ["x", n] => some { name := (unhexStr n).splitOn "/", typ := .other }
  | ["e"] => some { name := [], typ := .bad }
  | _ => none

def showTime (t : Option Int) : String := match t with | some t => toString t | none => "now"

def showNode (p : Path) (n : Node) : String :=
  let ps := if p.isEmpty then "." else "/".intercalate p
  match n.kind with
  | .dir => s!"d,{hexStr ps},{octal n.mode},{showTime n.mtime}"
  | .file => s!"f,{hexStr ps},{octal n.mode},{showTime n.mtime},{hexBytes n.data}"
  | .link => s!"l,{hexStr ps},{hexStr ("/".intercalate n.target)},{showTime n.mtime}"

def showWorld (w : World) : String :=
  let keys := (AMap.keys w).map fun p => (if p.isEmpty then "." else "/".intercalate p, p)
  let keys := keys.mergeSort fun a b => decide (a.1 ≤ b.1)
  " ".intercalate (keys.filterMap fun (_, p) => (find w p).map (showNode p))

structure DSt where
  w : World := FS.empty
  unfixed : Bool := false

def step (s : DSt) (line : String) : DSt × String :=
  match (line.trimAscii.toString.splitOn " ").filter (· ≠ "") with
  | ["case", n] => ({ unfixed := s.unfixed }, s!"case {n}")
  | ["end"] => (s, "end")
  | "world" :: nodes =>
    let w := nodes.foldl (fun (w : World) nd => match parseNode nd with
      | some (p, n) => AMap.insert w p n
      | none => w) ([] : World)
    ({ s with w := w }, "ok")
  | "extractraw" :: target :: _raw :: es =>
    let entries := es.filterMap parseEntry
    let r := extract (!s.unfixed) ".c38-tmp" s.w (parsePath target) entries
    ({ s with w := r.1 }, s!"{if r.2 then "err" else "ok"} {showWorld r.1}")
  | "extract" :: target :: es =>
    let entries := es.filterMap parseEntry
    let r := extract (!s.unfixed) ".c38-tmp" s.w (parsePath target) entries
    ({ s with w := r.1 }, s!"{if r.2 then "err" else "ok"} {showWorld r.1}")
  | _ => (s, "bad-op")

partial def loop (h : IO.FS.Stream) (out : IO.FS.Stream) (s : DSt) : IO Unit := do
  let line ← h.getLine
  if line.isEmpty then return ()
  let (s', o) := step s line
  out.putStrLn o
  loop h out s'

def main : IO Unit := do
  let out ← IO.getStdout
  let unfixed := (← IO.getEnv "C38_UNFIXED").isSome
  loop (← IO.getStdin) out { unfixed := unfixed }
