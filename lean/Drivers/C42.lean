import BoxoModel.C42.Model
/-! Line-protocol driver for C42 (op language: /verif/harness/cmd/c42/main.go). -/
open C42

structure DSt where
  jsonLim : Int := 0
  ndLim : Int := 0
  stream : Bool := true
  addrs : List (Nat × List Nat) := []      -- address pool: index ↦ protocol codes (as observed by the harness)
  names : List (String × Nat) := []        -- multiaddr.ProtocolWithName(name).Code as observed by the harness
  recs : List (Option Rec) := []

def dash (s : String) : String := if s == "-" then "" else s

def parseAddrTab (ts : List String) : Option (List (Nat × List Nat)) :=
  ts.mapM fun t => match t.splitOn "=" with
    | [i, cs] => do
      let i ← i.toNat?
      let cs ← (if cs == "" then some [] else (cs.splitOn "+").mapM String.toNat?)
      pure (i, cs)
    | _ => none

def parseNames (ts : List String) : Option (List (String × Nat)) :=
  ts.mapM fun t => match t.splitOn "=" with
    | [n, c] => do pure (n, ← c.toNat?)
    | _ => none

def parseRec (addrs : List (Nat × List Nat)) (t : String) : Option (Option Rec) :=
  if t == "E" then some none else
  match t.splitOn ":" with
  | [sch, id, ps, as] => do
    let sch ← sch.toNat?
    let id ← id.toNat?
    let ps := if ps == "-" then [] else ps.splitOn ","
    let as ← (if as == "-" then some [] else (as.splitOn ",").mapM String.toNat?)
    pure (some { schema := sch, id := id, protocols := ps,
                 addrs := as.map fun i => { id := i, protos := (addrs.lookup i).getD [] } })
  | _ => none

def showRec (r : Rec) : String :=
  s!"{r.id}:[{",".intercalate r.protocols}]:[{",".intercalate (r.addrs.map (toString ·.id))}]"

def splitRaw (s : String) : List String := if s == "" then [] else s.splitOn ","

def step (s : DSt) (ln : String) : DSt × String :=
  match (ln.trimAscii.toString.splitOn " ").filter (· ≠ "") with
  | ["case", n] => ({}, s!"case {n}")
  | ["end"] => ({}, "end")
  | ["srv", j, n, st] =>
    match j.toInt?, n.toInt? with
    | some j, some n => ({ s with jsonLim := j, ndLim := n, stream := st == "1" }, "ok")
    | _, _ => (s, "bad-op")
  | "addrs" :: ts =>
    match parseAddrTab ts with
    | some t => ({ s with addrs := t }, "ok")
    | none => (s, "bad-op")
  | "names" :: ts =>
    match parseNames ts with
    | some t => ({ s with names := t }, "ok")
    | none => (s, "bad-op")
  | "recs" :: ts =>
    match ts.mapM (parseRec s.addrs) with
    | some rs => ({ s with recs := rs }, "ok")
    | none => (s, "bad-op")
  | ["find", kind, loc, fa, fp] =>
    let codeOf := fun n => (s.names.lookup n).getD 0
    let fa := dash fa
    let fp := dash fp
    let lim := if s.stream then s.ndLim else s.jsonLim
    let sfa := parseFilter fa
    let sfp := parseFilter fp
    let out := if kind == "peers" then servePeers codeOf sfa sfp s.recs lim else serveProviders codeOf sfa sfp s.recs lim
    let out := if loc == "1" then clientFilter codeOf (normalizeFilter (splitRaw fa)) (normalizeFilter (splitRaw fp)) out else out
    (s, s!"n={out.length} {";".intercalate (out.map showRec)}")
  | ["ipns", kind] =>
    (s, if kind == "ok" then "put=ok get=same" else "put=rejected get=notfound")
  | _ => (s, "bad-op")

partial def loop (h : IO.FS.Stream) (out : IO.FS.Stream) (s : DSt) : IO Unit := do
  let ln ← h.getLine
  if ln.isEmpty then return ()
  let (s', o) := step s ln
  out.putStrLn o
  loop h out s'

def main : IO Unit := do
  loop (← IO.getStdin) (← IO.getStdout) {}
