import BoxoModel.C42.Model
/-! Line-protocol driver for C42 (op language: /verif/harness/cmd/c42/main.go). -/
open C42

structure DSt where
  jsonLim : Int := 0
  ndLim : Int := 0
  stream : Bool := true
  addrs : List (Nat × List Nat) := []      -- address pool: index ↦ protocol codes (as observed by the harness)
  names : List (String × Nat) := []        -- multiaddr.ProtocolWithName(name).Code as observed by the harness
  folds : List (String × String) := []     -- pairs (a, b) with strings.EqualFold(a, b), as observed by the harness
  lowers : List (String × String) := []    -- strings.ToLower, as observed by the harness (identity when absent)
  recs : List (Option Rec) := []

def dash (s : String) : String := if s == "-" then "" else s

def parseAddrTab (ts : List String) : Option (List (Nat × List Nat)) :=
  ts.mapM fun t => match t.splitOn "=" with
    | [i, cs] => do
      let i ← i.toNat?
      let cs ← (if cs == "" then some [] else (cs.splitOn "+").mapM String.toNat?)
      pure (i, cs)
    | _ => none

def parseNames (ts : List String) : Option (List (String × Nat)) :=
  ts.mapM fun t => match t.splitOn "=" with
    | [n, c] => do pure (n, ← c.toNat?)
    | _ => none

def parseRec (addrs : List (Nat × List Nat)) (t : String) : Option (Option Rec) :=
  if t == "E" then some none else
  match t.splitOn ":" with
  | [sch, id, ps, as] => do
    let sch ← sch.toNat?
    let id ← id.toNat?
    let ps := if ps == "-" then [] else ps.splitOn ","
    let as ← (if as == "-" then some [] else (as.splitOn ",").mapM String.toNat?)
    pure (some { schema := sch, id := id, protocols := ps,
                 addrs := as.map fun i => { id := i, protos := (addrs.lookup i).getD [] } })
  | _ => none

def showRec (r : Rec) : String :=
  s!"{r.id}:[{",".intercalate r.protocols}]:[{",".intercalate (r.addrs.map (toString ·.id))}]"

def splitRaw (s : String) : List String := if s == "" then [] else s.splitOn ","

def DSt.env (s : DSt) : Env where
  codeOf := fun n => (s.names.lookup n).getD 0
  fold := fun a b => a.toLower == b.toLower || s.folds.contains (a, b)   -- ASCII fallback + observed table
  lower := fun x => (s.lowers.lookup x).getD x.toLower

def parsePairs (sep : String) (ts : List String) : Option (List (String × String)) :=
  ts.mapM fun t => match t.splitOn sep with
    | [a, b] => some (a, b)
    | _ => none

def parseAccept (t : String) : Option (List MT) :=
  if t == "none" then some [] else
  (t.splitOn "+").mapM fun
    | "json" => some MT.json
    | "jsonq" => some MT.json
    | "ndjson" => some MT.ndjson
    | "wild" => some MT.wildcard
    | "html" => some MT.other
    | "bad" => some MT.bad
    | _ => none

/-- scenario tables of the IPNS ops: which step of the handler fails -/
def putScenario : String → Option PutReq
  | "ok" => some ⟨true, true, true, true, true, true⟩
  | "noct" => some ⟨false, true, true, true, true, true⟩
  | "badcid" => some ⟨true, false, true, true, true, true⟩
  | "notname" => some ⟨true, true, false, true, true, true⟩
  | "garbage" => some ⟨true, true, true, false, true, true⟩
  | "toolong" => some ⟨true, true, true, false, true, true⟩
  | "badsig" => some ⟨true, true, true, true, false, true⟩
  | "wrongname" => some ⟨true, true, true, true, false, true⟩
  | "expired" => some ⟨true, true, true, true, false, true⟩
  | "routererr" => some ⟨true, true, true, true, true, false⟩
  | _ => none

def step (s : DSt) (ln : String) : DSt × String :=
  match (ln.trimAscii.toString.splitOn " ").filter (· ≠ "") with
  | ["case", n] => ({}, s!"case {n}")
  | ["end"] => ({}, "end")
  | ["srv", j, n, st] =>
    match j.toInt?, n.toInt? with
    | some j, some n => ({ s with jsonLim := j, ndLim := n, stream := st == "1" }, "ok")
    | _, _ => (s, "bad-op")
  | "addrs" :: ts =>
    match parseAddrTab ts with
    | some t => ({ s with addrs := t }, "ok")
    | none => (s, "bad-op")
  | "names" :: ts =>
    match parseNames ts with
    | some t => ({ s with names := t }, "ok")
    | none => (s, "bad-op")
  | "folds" :: ts =>
    match parsePairs "~" ts with
    | some t => ({ s with folds := t }, "ok")
    | none => (s, "bad-op")
  | "lowers" :: ts =>
    match parsePairs "=" ts with
    | some t => ({ s with lowers := t }, "ok")
    | none => (s, "bad-op")
  | ["raw", kind, acc, fa, fp] =>
    match parseAccept acc with
    | some accepts =>
      let cfg : SrvCfg := { recordsLimit := s.jsonLim, streamingRecordsLimit := s.ndLim, disableNDJSON := !s.stream }
      match findHandler s.env cfg (kind == "peers") accepts (dash fa) (dash fp) s.recs with
      | (code, none) => (s, s!"status={code} ct=- n=0 ")
      | (code, some (m, out)) =>
        (s, s!"status={code} ct={if m == .ndjson then "ndjson" else "json"} n={out.length} {";".intercalate (out.map showRec)}")
    | none => (s, "bad-op")
  | ["put", sc] =>
    match putScenario sc with
    | some r => let (code, reached) := putStatus r; (s, s!"status={code} router={if reached then 1 else 0}")
    | none => (s, "bad-op")
  | ["getipns", acc, cidk, look] =>
    let acceptOk := acc == "none" || acc == "wild" || acc == "ipns" || acc == "json+ipns"
    let l := if look == "found" then Lookup.found else if look == "err" then Lookup.error else Lookup.notFound
    let (code, body) := getStatus acceptOk (cidk != "badcid") (cidk != "notname") l
    (s, s!"status={code} record={if body then 1 else 0}")
  | "recs" :: ts =>
    match ts.mapM (parseRec s.addrs) with
    | some rs => ({ s with recs := rs }, "ok")
    | none => (s, "bad-op")
  | ["find", kind, loc, fa, fp] =>
    let codeOf := s.env
    let fa := dash fa
    let fp := dash fp
    let lim := if s.stream then s.ndLim else s.jsonLim
    let sfa := parseFilter codeOf fa
    let sfp := parseFilter codeOf fp
    let out := if kind == "peers" then servePeers codeOf sfa sfp s.recs lim else serveProviders codeOf sfa sfp s.recs lim
    let out := if loc == "1" then clientFilter codeOf (normalizeFilter codeOf (splitRaw fa)) (normalizeFilter codeOf (splitRaw fp)) out else out
    (s, s!"n={out.length} {";".intercalate (out.map showRec)}")
  | ["ipns", kind] =>
    (s, if kind == "ok" then "put=ok get=same" else "put=rejected get=notfound")
  | _ => (s, "bad-op")

partial def loop (h : IO.FS.Stream) (out : IO.FS.Stream) (s : DSt) : IO Unit := do
  let ln ← h.getLine
  if ln.isEmpty then return ()
  let (s', o) := step s ln
  out.putStrLn o
  loop h out s'

def main : IO Unit := do
  loop (← IO.getStdin) (← IO.getStdout) {}
