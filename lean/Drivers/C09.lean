import BoxoModel.C09.Model
/-! Line-protocol driver for C09.
Ops:
  tree <dump> | import <7 parameters> <dump>
                     dump ::= (L|R|W)<hex> | N<filesize>[<blocksize>:<dump>,...]      → ok size=<Size()> ws=<wellSized>
  read <k>           → n=<n> err=<nil|eof|err> pos=<offset> fnv=<fnv1a32 of the bytes>
  writeto            → same
  seek <off> <wh>    → ret=<returned offset> err=<nil|err> pos=<offset>
-/
open C09 FileTree

def hexVal (c : Char) : Nat :=
  if c.isDigit then c.toNat - '0'.toNat
  else if 'a' ≤ c ∧ c ≤ 'f' then c.toNat - 'a'.toNat + 10 else 0

def isHex (c : Char) : Bool := c.isDigit || ('a' ≤ c && c ≤ 'f')

def takeHex : List Char → List UInt8 → List UInt8 × List Char
  | a :: b :: r, acc => if isHex a && isHex b then takeHex r (UInt8.ofNat (hexVal a * 16 + hexVal b) :: acc) else (acc.reverse, a :: b :: r)
  | r, acc => (acc.reverse, r)

def takeNat : List Char → Nat → Nat × List Char
  | c :: r, acc => if c.isDigit then takeNat r (acc * 10 + (c.toNat - '0'.toNat)) else (acc, c :: r)
  | [], acc => (acc, [])

mutual
partial def parseTree : List Char → Option (FNode × List Char)
  | 'L' :: r => let (d, r') := takeHex r []; some (.leaf d, r')
  | 'R' :: r => let (d, r') := takeHex r []; some (.leaf d, r')      -- RawNode leaf
  | 'W' :: r => let (d, r') := takeHex r []; some (.leaf d, r')      -- dag-pb leaf of type Raw
  | 'N' :: r =>
    let (fs, r0) := takeNat r 0
    -- `{hex}` = Data an internal node carries next to its links: the reader skips it
    let r1 := match r0 with
      | '{' :: r' => ((takeHex r' []).2).drop 1
      | _ => r0
    match r1 with
    | '[' :: ']' :: r2 => some (.node fs [], r2)
    | '[' :: r2 => (parseKids r2 []).map fun (cs, r3) => (.node fs cs, r3)
    | _ => none
  | _ => none
partial def parseKids : List Char → List (FNode × Nat) → Option (List (FNode × Nat) × List Char)
  | cs, acc =>
    let (bs, r1) := takeNat cs 0
    match r1 with
    | ':' :: r2 =>
      match parseTree r2 with
      | some (t, ',' :: r3) => parseKids r3 ((t, bs) :: acc)
      | some (t, ']' :: r3) => some (((t, bs) :: acc).reverse, r3)
      | _ => none
    | _ => none
end

def fnv (bs : List UInt8) : UInt32 := bs.foldl (fun h b => (h ^^^ b.toUInt32) * 16777619) 2166136261

def showErr : Err → String
  | .nil => "nil" | .eof => "eof" | .err => "err"

def step (c : Option Reader) (line : String) : Option Reader × String :=
  match (line.trimAscii.toString.splitOn " ").filter (· ≠ "") with
  | ["case", n] => (none, s!"case {n}")
  | ["end"] => (none, "end")
  | "tree" :: d :: _ =>        -- an optional third token sets mode/mtime on the root (not part of the model)
    match parseTree d.toList with
    | some (t, []) => (some (newReader t), s!"ok size={size t} ws={if wellSized t then 1 else 0}")
    | _ => (c, "bad-tree")
  -- fetch failures / Close / non-file roots: checked by the Go-side monitor against c09_refines_faulty's statement
  | "faults" :: _ => (c, "checked")
  | "fread" :: _ => (c, "checked")
  | "fctxread" :: _ => (c, "checked")
  | "fwriteto" :: _ => (c, "checked")
  | "fseek" :: _ => (c, "checked")
  | "fclose" :: _ => (c, "checked")
  | "openbad" :: _ => (c, "checked")
  | ["import", _, _, _, _, _, _, _, d] =>      -- the DAG the real importer produced, as dumped by the harness
    match parseTree d.toList with
    | some (t, []) => (some (newReader t), s!"ok size={size t} ws={if wellSized t then 1 else 0}")
    | _ => (c, "bad-tree")
  | ["read", k] =>
    match c, k.toNat? with
    | some r, some k =>
      let x := r.read k
      (some x.1, s!"n={x.2.1.length} err={showErr x.2.2} pos={x.1.offset} fnv={fnv x.2.1}")
    | _, _ => (c, "bad-op")
  -- CtxReadFull with a context of its own, cancelled after the call: a per-call context has no effect on later calls,
  -- so this is `read`
  | ["ctxreadfull", k] =>
    match c, k.toNat? with
    | some r, some k =>
      let x := r.read k
      (some x.1, s!"n={x.2.1.length} err={showErr x.2.2} pos={x.1.offset} fnv={fnv x.2.1}")
    | _, _ => (c, "bad-op")
  | ["writeto"] =>
    match c with
    | some r =>
      let x := r.writeTo
      (some x.1, s!"n={x.2.1.length} err={showErr x.2.2} pos={x.1.offset} fnv={fnv x.2.1}")
    | none => (c, "bad-op")
  | ["seek", off, wh] =>
    match c, off.toInt?, wh.toNat? with
    | some r, some off, some wh =>
      let x := r.seek off wh
      (some x.1, s!"ret={x.2.1} err={showErr x.2.2} pos={x.1.offset}")
    | _, _, _ => (c, "bad-op")
  | _ => (c, "bad-op")

partial def loop (h : IO.FS.Stream) (out : IO.FS.Stream) (c : Option Reader) : IO Unit := do
  let line ← h.getLine
  if line.isEmpty then return ()
  let (c', o) := step c line
  out.putStrLn o
  loop h out c'

def main : IO Unit := do
  loop (← IO.getStdin) (← IO.getStdout) none
