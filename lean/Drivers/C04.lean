import BoxoModel.C04.Proto
/-! Line-protocol driver for C04 (op language: /verif/harness/bsx/bsx.go). Models the code with the
`fix:` commits of branch verif/bsvc applied. -/
def main : IO Unit := do
  C04.Proto.loop true (← IO.getStdin) (← IO.getStdout) {}
