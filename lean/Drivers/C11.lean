import BoxoModel.C11.Model
import BoxoModel.Lib.Hex
/-! Line-protocol driver for C11 (op lines documented in /verif/harness/cmd/c11/main.go).
Builders are pool indices; a CID is the symbolic pair (canonical builder index, hashed bytes): the Go
harness recovers the same pair from the real CID by looking it up among all encodings seen × all pool
builders, so the comparison is exact without computing any hash here. -/
open C11 Varint Hex

abbrev Cid := Nat × Bytes

def P : Params Nat Cid where
  v0 := 0
  usable := fun k => k < 7
  sum := fun k e => (if k == 6 then 0 else k, e)

def parseData (t : String) : Option (Option Bytes) :=
  if t == "nil" then some none else (unhex t).map some

def showData : Option Bytes → String
  | none => "nil"
  | some b => hex b

def parseLink (n c s : String) : Option Link := do
  let n ← unhex n
  let c ← unhex c
  let s ← s.toNat?
  pure ⟨n, c, s⟩

def showLink (l : Link) : String := s!"{hex l.name}:{hex l.cid}:{l.size}"
def showLinks (ls : List Link) : String := "[" ++ " ".intercalate (ls.map showLink) ++ "]"

def showOut : Out Cid → String
  | .ok => "ok"
  | .err => "err"
  | .notfound => "notfound"
  | .links ls => showLinks ls
  | .link l => showLink l
  | .data d => showData d
  | .bytes b => hex b
  | .nat n => toString n
  | .names ns => "[" ++ " ".intercalate (ns.map hex) ++ "]"
  | .json _ _ => "ok"
  | .pbnode ls d => s!"links={showLinks ls} data={showData d}"
  | .stat (nl, bs, lsz, ds, cum) c =>
    let id := match c with
      | some (k, e) => s!"k={k} enc={hex e}"
      | none => "undef"
    s!"n={nl} block={bs} links={lsz} data={ds} cum={cum} {id}"
  | .cid none => "undef"
  | .cid (some (k, e)) => s!"k={k} enc={hex e}"

def parseOp : List String → Option (Op Nat)
  | ["addlink", n, c, s] => (parseLink n c s).map .addLink
  | ["rmlink", n] => (unhex n).map .removeLink
  | "setlinks" :: ts =>
    (ts.mapM fun (t : String) => match t.splitOn ":" with
      | [n, c, s] => parseLink n c s
      | _ => none).map .setLinks
  | ["setdata", d] => (parseData d).map .setData
  | ["setbuilder", "nil"] => some (.setBuilder none)
  | ["setbuilder", k] => k.toNat?.map fun k => .setBuilder (some k)
  | ["tree"] => some .tree
  | ["mjson"] => some .marshalJSON
  | ["getpb"] => some .getPBNode
  | ["stat"] => some .stat
  | ["reloadblock"] => some .reloadBlock
  | "ujson" :: d :: ts => do
    let d ← parseData d
    let ls ← ts.mapM fun (t : String) => match t.splitOn ":" with
      | [n, c, s] => parseLink n c s
      | _ => none
    pure (.unmarshalJSON d ls)
  | ["addnode", n, c, s, _] => (parseLink n c s).map .addLink
  | ["updlink", n, c, s, _] => (parseLink n c s).map .updateNodeLink
  | ["copy"] => some .copy
  | ["reload"] => some .reload
  | ["links"] => some .links
  | ["getlink", n] => (unhex n).map .getLink
  | ["data"] => some .data
  | ["marshal"] => some .marshal
  | ["rawdata"] => some .rawData
  | ["size"] => some .size
  | ["cid"] => some .cid
  | _ => none

def stepLine (n : Node Nat Cid) (line : String) : Node Nat Cid × String :=
  match (line.trimAscii.toString.splitOn " ").filter (· ≠ "") with
  | ["case", id] => ({}, s!"case {id}")
  | ["end"] => ({}, "end")
  | ["new", d] =>
    match parseData d with
    | some d => (fresh d, "ok")
    | none => (n, "bad-op")
  | ["dec", h] =>
    match unhex h with
    | none => (n, "bad-op")
    | some b =>
      match decodePB b with
      | none => (n, "err")
      | some (ls, d) => (n, s!"links={showLinks ls} data={showData d}")
  | ts =>
    match parseOp ts with
    | none => (n, "bad-op")
    | some op => let r := step P n op; (r.1, showOut r.2)

partial def loop (h : IO.FS.Stream) (out : IO.FS.Stream) (n : Node Nat Cid) : IO Unit := do
  let line ← h.getLine
  if line.isEmpty then return ()
  let (n', o) := stepLine n line
  out.putStrLn o
  loop h out n'

def main : IO Unit := do
  let out ← IO.getStdout
  loop (← IO.getStdin) out {}
