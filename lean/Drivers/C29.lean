import BoxoModel.C29.Model
/-! Line-protocol driver for C29.
ops:  ns <cache> <maxttl-min|->
      publish <k> <path> <ttl-min|-> <seq|->
      put <k> <path> <ttl-min> <seq>
      dns <d> <path|-> <ttl-min>
      failput
      resolve <path> <depth|->
path tokens: N<k>.<form> | C<i> | D<d> | J<j>, then /seg…, optional trailing / -/
open C29

def parseRoot (t : String) : Option Root :=
  let body := (t.drop 1).toString
  match t.front with
  | 'N' =>
    match body.splitOn "." with
    | [k, f] => do pure (.name (← k.toNat?) (← f.toNat?))
    | _ => none
  | 'C' => body.toNat?.map .cid
  | 'D' => body.toNat?.map .dns
  | 'J' => body.toNat?.map .junk
  | _ => none

def parsePath (t : String) : Option Path :=
  let trailing := t.endsWith "/"
  let t' := if trailing then (t.dropEnd 1).toString else t
  match t'.splitOn "/" with
  | [] => none
  | r :: segs => (parseRoot r).map fun root => { root := root, segs := segs, trailing := trailing }

def showRoot : Root → String
  | .name k f => s!"N{k}.{f}"
  | .cid i => s!"C{i}"
  | .dns d => s!"D{d}"
  | .junk j => s!"J{j}"

def showPath (p : Path) : String :=
  "/".intercalate (showRoot p.root :: p.segs) ++ (if p.trailing then "/" else "")

def mins (s : String) : Option Int := s.toInt?.map (· * minute)
def optMins (s : String) : Option (Option Int) := if s == "-" then some none else (mins s).map some
def optNat (s : String) : Option (Option Nat) := if s == "-" then some none else s.toNat?.map some

/-- minutes, rounded up for positive durations (see the harness: a cache hit reports the remaining lifetime) -/
def ceilMin (d : Int) : Int := if d ≤ 0 then Int.tdiv d minute else Int.tdiv (d + minute - 1) minute

def showSeq (o : Option Rec) : String :=
  match o with
  | none => "-"
  | some r => toString r.seq

def seqs (s : St) (k : Nat) : String := s!"ds={showSeq (afind s.dstore k)} st={showSeq (afind s.store k)}"

def showRes : Res → String
  | .ok p t => s!"ok {showPath p} ttl={ceilMin t}"
  | .recursion p => s!"recursion {showPath p}"
  | .failed => "failed"
  | .err .dnserr => "dnserr"
  | .err .cannot => "cannot"

structure DSt where
  s : St := {}
  validating : Bool := false

def showPub : PubRes → String
  | .ok => "ok"
  | .badseq => "badseq"
  | .puterr => "puterr"

def resOf (c : Conc) (i : Nat) : String :=
  match c.pcs[i]? with
  | some (_, .done r) => showPub r
  | _ => "unfinished"

def stepLineD (d : DSt) (line : String) : DSt × String :=
  match (line.trimAscii.toString.splitOn " ").filter (· ≠ "") with
  | ["ns", c, m, "v"] =>
    match c.toNat?, optMins m with
    | some c, some m => ({ s := { cap := c, maxTTL := m }, validating := true }, "ok")
    | _, _ => (d, "bad-op")
  | ["cpublish", k, pa, ta, qa, pb, tb, qb, mode] =>
    match k.toNat?, parsePath pa, optMins ta, optNat qa, parsePath pb, optMins tb, optNat qb with
    | some k, some pa, some ta, some qa, some pb, some tb, some qb =>
      let c0 := initConc (tick d.s) [{ k := k, value := pa, ttl := ta, seq := qa }, { k := k, value := pb, ttl := tb, seq := qb }]
      -- "seq": A runs to completion, then B. "late": A's routing put and cache update happen after B finished.
      let sched := if mode == "late" then [0, 0, 1, 1, 1, 1, 0, 0] else [0, 0, 0, 0, 1, 1, 1, 1]
      let c := runSched d.validating c0 sched
      ({ d with s := c.st }, s!"{resOf c 0} {resOf c 1} {seqs c.st k}")
    | _, _, _, _, _, _, _ => (d, "bad-op")
  | _ => (d, "")

def stepLine (s0 : St) (line : String) : St × String :=
  let s := tick s0
  match (line.trimAscii.toString.splitOn " ").filter (· ≠ "") with
  | ["case", n] => ({}, s!"case {n}")
  | ["end"] => ({}, "end")
  | ["ns", c, m] =>
    match c.toNat?, optMins m with
    | some c, some m => ({ cap := c, maxTTL := m }, "ok")
    | _, _ => (s0, "bad-op")
  | ["publish", k, p, t, q] =>
    match k.toNat?, parsePath p, optMins t, optNat q with
    | some k, some p, some t, some q =>
      let (s', r) := publish s k p t q
      let rs := match r with
        | .ok => "ok"
        | .badseq => "badseq"
        | .puterr => "puterr"
      (s', s!"{rs} {seqs s' k}")
    | _, _, _, _ => (s0, "bad-op")
  | ["put", k, p, t, q] =>
    match k.toNat?, parsePath p, mins t, q.toNat? with
    | some k, some p, some t, some q =>
      let s' := step s0 (.put k p t q)
      (s', s!"ok {seqs s' k}")
    | _, _, _, _ => (s0, "bad-op")
  | ["dns", d, p, t] =>
    match d.toNat?, mins t with
    | some d, some t =>
      if p == "-" then (step s0 (.setDns d none), "ok")
      else match parsePath p with
        | some p => (step s0 (.setDns d (some (p, t))), "ok")
        | none => (s0, "bad-op")
    | _, _ => (s0, "bad-op")
  | ["failput"] => (step s0 .failPut, "ok")
  | ["resolve", p, d] =>
    match parsePath p, (if d == "-" then some defaultDepthLimit else d.toNat?) with
    | some p, some d =>
      let (s', r) := resolve (if d == 0 then 64 else d) s p d
      (s', showRes r)
    | _, _ => (s0, "bad-op")
  | _ => (s0, "bad-op")

partial def loop (h : IO.FS.Stream) (out : IO.FS.Stream) (d : DSt) : IO Unit := do
  let line ← h.getLine
  if line.isEmpty then return ()
  -- ops that need the driver-level flag first, everything else through `stepLine`
  let (d1, o1) := stepLineD d line
  if o1 != "" then
    out.putStrLn o1
    loop h out d1
  else
    let (st', o) := stepLine d.s line
    out.putStrLn o
    let isCase := (line.trimAscii.toString.splitOn " ").head? == some "case" || (line.trimAscii.toString.splitOn " ").head? == some "ns"
    loop h out { s := st', validating := if isCase then false else d.validating }

def main : IO Unit := do
  let out ← IO.getStdout
  loop (← IO.getStdin) out {}
