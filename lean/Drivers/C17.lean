import BoxoModel.C17.Model
import BoxoModel.Lib.Hex
/-! Line-protocol driver for C17 (op lines documented in /verif/harness/cmd/c17/main.go).
The global HAMTSizeEstimation is Block in the harness. -/
open C17 Hex
abbrev Bytes := Varint.Bytes

def parseTime (a b : String) : Option C18.Time :=
  if a == "zero" then some C18.Time.zero
  else do
    let s ← a.toInt?
    let n ← b.toNat?
    pure ⟨s, n⟩

def bv (t : String) : Option (BitVec 32) := t.toNat?.map (BitVec.ofNat 32)

def answer (res : String) (d : Dir) : String := s!"{res} est={d.est} n={d.total} raw={rawLen d}"

def step (d : Dir) (line : String) : Dir × String :=
  match (line.trimAscii.toString.splitOn " ").filter (· ≠ "") with
  | ["case", id] => ({}, s!"case {id}")
  | ["end"] => (d, "end")
  | ["vlen", v] => match v.toNat? with
    | some v => (d, toString (varintLen v))
    | none => (d, "bad-op")
  | ["lsize", n, c, t] => match unhex n, unhex c, t.toNat? with
    | some n, some c, some t => (d, toString (linkSerializedSize n c t))
    | _, _, _ => (d, "bad-op")
  | ["dsize", m, a, b] => match bv m, parseTime a b with
    | some m, some t => (d, toString (dataFieldSerializedSize m t))
    | _, _ => (d, "bad-op")
  | ["newdir", m, a, b] => match bv m, parseTime a b with
    | some m, some t => let d' := newDir .block m t; (d', answer "ok" d')
    | _, _ => (d, "bad-op")
  | ["newdirm", e, m, a, b] =>
    match (match e with | "L" => some EstMode.links | "B" => some .block | "D" => some .disabled | _ => none),
      bv m, parseTime a b with
    | some e, some m, some t => let d' := newDir e m t; (d', answer "ok" d')
    | _, _, _ => (d, "bad-op")
  | ["setest", e] =>
    match (match e with | "L" => some EstMode.links | "B" => some .block | "D" => some .disabled | _ => none) with
    | some e => let d' := setEstMode d e; (d', answer "ok" d')
    | none => (d, "bad-op")
  | ["setmaxlinks", n] => match n.toInt? with
    | some n => let d' := setMaxLinks d n; (d', answer "ok" d')
    | none => (d, "bad-op")
  | ["add", n, c, t] => match unhex n, unhex c, t.toNat? with
    | some n, some c, some t => let r := addChild d n c t; (r.1, answer (if r.2 then "ok" else "err") r.1)
    | _, _, _ => (d, "bad-op")
  | ["rm", n] => match unhex n with
    | some n => let r := removeChild d n; (r.1, answer (if r.2 then "ok" else "notfound") r.1)
    | none => (d, "bad-op")
  | ["reload"] => let d' := reload .block d; (d', answer "ok" d')
  | ["setstat", m, a, b] => match bv m, parseTime a b with
    | some m, some t => let d' := setStat d m t; (d', answer "ok" d')
    | _, _ => (d, "bad-op")
  | ["remode"] => let d' := setEstMode (setEstMode d .links) .block; (d', answer "ok" d')
  | ["stat"] => (d, answer "ok" d)
  -- DynamicDirectory ops are monitor-only on the Go side (constant answer, no model state)
  | "dynnew" :: _ => (d, "ok")
  | "dynadd" :: _ => (d, "ok")
  | "dynrm" :: _ => (d, "ok")
  | "dynfit" :: _ => (d, "ok")
  | _ => (d, "bad-op")

partial def loop (h : IO.FS.Stream) (out : IO.FS.Stream) (d : Dir) : IO Unit := do
  let line ← h.getLine
  if line.isEmpty then return ()
  let (d', o) := step d line
  out.putStrLn o
  loop h out d'

def main : IO Unit := do
  let out ← IO.getStdout
  loop (← IO.getStdin) out {}
