import BoxoModel.C07.Dump
import BoxoModel.C08.Model
/-! Line-protocol driver for C08 (see /verif/docs/HOWTO.md).
ops: new <w> <raw 0|1> <cidver> <hash> <mode> <mtime|-> <hex chunk>...   trickle.Layout over a scripted splitter
     app <hex chunk>...                                                  trickle.Append with the same parameters
out: the DAG dump (format of BoxoModel/C07/Dump.lean); for `app` followed by ` touched=<0|1>` (root mtime refreshed)
Run: `lake env lean --run Drivers/C08.lean < ops.txt > model.out` -/
open C07 C08 FileTree C07D

structure St where
  cfg : Cfg := { w := 2 }
  attrs : Attrs := {}
  tree : Option FNode := none

def step (st : St) (line : String) : St × String :=
  match (line.trimAscii.toString.splitOn " ").filter (· ≠ "") with
  | ["case", n] => ({}, s!"case {n}")
  | ["end"] => ({}, "end")
  | "new" :: w :: raw :: _cidv :: _hash :: mode :: mtime :: toks =>
    match w.toNat?, mode.toNat?, parseMtime mtime, toks.mapM unhex with
    | some w, some mode, some mtime, some cs =>
      let cfg : Cfg := { w := w, rawLeaves := raw == "1", mode := mode, mtime := mtime }
      match trickleLayout cfg cs with
      | none => ({ cfg := cfg }, "diverges")
      | some o => ({ cfg := cfg, attrs := o.attrs, tree := some o.root }, dump cfg.rawLeaves "W" o.attrs o.root)
    | _, _, _, _ => (st, "bad-op")
  | "app" :: toks =>
    match st.tree, toks.mapM unhex with
    | some t, some cs =>
      match append st.cfg.w t cs with
      | none => (st, "error")
      | some o =>
        let touched := o.mtimeTouched && st.attrs.mtime.isSome
        ({ st with tree := some o.root },
          dump st.cfg.rawLeaves "W" st.attrs o.root ++ s!" touched={if touched then 1 else 0}")
    | _, _ => (st, "bad-op")
  | _ => (st, "bad-op")

partial def loop (h : IO.FS.Stream) (out : IO.FS.Stream) (st : St) : IO Unit := do
  let line ← h.getLine
  if line.isEmpty then return ()
  let (st', o) := step st line
  out.putStrLn o
  loop h out st'

def main : IO Unit := do
  let out ← IO.getStdout
  loop (← IO.getStdin) out {}
