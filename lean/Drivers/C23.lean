import BoxoModel.C22.Render
/-! Line-protocol driver for C23: `crashall <mutation>` dumps the pinner reopened on every prefix of
the op's write log; `crashat <k> <mutation>` continues on the pinner recovered from prefix min(k,len). -/
open C22

structure Cur where
  dag : Dag := { n := 0, links := fun _ => [] }
  st : St := {}

def recoveredLine (dag : Dag) (r : St) : String :=
  s!"rb={rebuildTok r.log} raw={rawTok r.store} {dumpLight dag r}"

def stepLine (c : Cur) (line : String) : Cur × String :=
  match fields line with
  | ["case", n] => ({}, s!"case {n}")
  | ["end"] => ({}, "end")
  | "dag" :: ts =>
    match parseDag ts with
    | some (dag, present) => ({ dag := dag, st := { present := present } }, "ok")
    | none => (c, "bad-op")
  | "crashall" :: ts =>
    match parseOp ts with
    | some op =>
      let r := step c.dag c.st op
      let hd := s!"{resTok r.2} {writesTok r.1.log}"
      let pts := (List.range (r.1.log.length + 1)).map fun n => recoveredLine c.dag (crashReopen c.dag c.st op n)
      ({ c with st := r.1 }, " :: ".intercalate (hd :: pts))
    | none => (c, "bad-op")
  | "crashat" :: k :: ts =>
    match parseOp ts, k.toNat? with
    | some op, some k =>
      let r := step c.dag c.st op
      let n := min k r.1.log.length
      let rec' := crashReopen c.dag c.st op n
      ({ c with st := rec' }, s!"{resTok r.2} {writesTok r.1.log} :: {recoveredLine c.dag rec'}")
    | _, _ => (c, "bad-op")
  | _ => (c, "bad-op")

partial def loop (h : IO.FS.Stream) (out : IO.FS.Stream) (c : Cur) : IO Unit := do
  let line ← h.getLine
  if line.isEmpty then return ()
  let (c', o) := stepLine c line
  out.putStrLn o
  loop h out c'

def main : IO Unit := do
  let out ← IO.getStdout
  loop (← IO.getStdin) out {}
