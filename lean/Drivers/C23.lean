import BoxoModel.C22.Render
/-! Line-protocol driver for C23: `crashall <mutation>` dumps the pinner reopened on every prefix of
the op's write log; `crashat <k> <mutation>` continues on the pinner recovered from prefix min(k,len). -/
open C22

structure Cur where
  dag : Dag := { n := 0, links := fun _ => [] }
  st : St := {}

def recoveredLine (dag : Dag) (r : St) : String :=
  s!"rb={rebuildTok r.log} raw={rawTok r.store} {dumpLight dag r}"

def stepLine (c : Cur) (line : String) : Cur × String :=
  match fields line with
  | ["case", n] => ({}, s!"case {n}")
  | ["end"] => ({}, "end")
  | "dag" :: ts =>
    match parseDag ts with
    | some (dag, present) => ({ dag := dag, st := { present := present } }, "ok")
    | none => (c, "bad-op")
  | "crashall" :: ts =>
    match parseOp ts with
    | some op =>
      let r := step c.dag c.st op
      let hd := s!"{callTok c.st op r.2} {writesTok r.1.log}"
      let pts := (List.range (r.1.log.length + 1)).map fun n => recoveredLine c.dag (crashReopen c.dag c.st op n)
      ({ c with st := r.1 }, " :: ".intercalate (hd :: pts))
    | none => (c, "bad-op")
  | "crashat" :: k :: ts =>
    match parseOp ts, k.toNat? with
    | some op, some k =>
      let r := step c.dag c.st op
      let n := min k r.1.log.length
      let rec' := crashReopen c.dag c.st op n
      ({ c with st := rec' }, s!"{callTok c.st op r.2} {writesTok r.1.log} :: {recoveredLine c.dag rec'}")
    | _, _ => (c, "bad-op")
  | "crash2" :: n :: j :: ts =>
    match parseOp ts, n.toNat?, j.toNat? with
    | some op, some n, some j =>
      let r := step c.dag c.st op
      let n := min n r.1.log.length
      let r1 := crashReopen c.dag c.st op n
      let j := min j r1.log.length
      let r2 := crashReopen2 c.dag c.st op n j
      ({ c with st := r2 },
        s!"{callTok c.st op r.2} {writesTok r.1.log} :: rb1={writesTok r1.log} :: {recoveredLine c.dag r2}")
    | _, _, _ => (c, "bad-op")
  | ["plant", cs, ms] =>
    match cs.toNat?, ms.toNat? with
    | some cid, some m =>
      let r := plant c.st cid (if m == 1 then .direct else .recursive)
      ({ c with st := r.1 }, s!"planted={r.2} {dumpLight c.dag r.1}")
    | _, _ => (c, "bad-op")
  | "io" :: k :: ts =>
    match parseOp ts, k.toNat? with
    | some op, some k =>
      let r := stepIO c.dag c.st op k
      let tok := match r.res with | some x => callTok c.st op x | none => "ioerr"
      let rec' := reopenStore r.st.store r.st.nextId r.st.present
      ({ c with st := rec' },
        s!"{tok} {writesTok r.st.log} :: live {dumpLight c.dag r.st} :: {recoveredLine c.dag rec'}")
    | _, _ => (c, "bad-op")
  | _ => (c, "bad-op")

partial def loop (h : IO.FS.Stream) (out : IO.FS.Stream) (c : Cur) : IO Unit := do
  let line ← h.getLine
  if line.isEmpty then return ()
  let (c', o) := stepLine c line
  out.putStrLn o
  loop h out c'

def main : IO Unit := do
  let out ← IO.getStdout
  loop (← IO.getStdin) out {}
