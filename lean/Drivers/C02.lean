import BoxoModel.C02.Model
import BoxoModel.C02.Conc
/-! Line-protocol driver for C02 (sequential cache stack + scheduled Bloom cache).
Run: `lake env lean --run Drivers/C02.lean < ops.txt > model.out` -/
open C02

structure Cfg where
  tq : Nat := 0
  bloom : Nat := 0
  hashes : Nat := 0
  viewer : Bool := false
  n : Nat := 0
  conc : Bool := false

structure DSt where
  cfg : Cfg := {}
  szs : List Nat := []
  ranks : List Nat := []
  hs : List (Nat × List Nat) := []
  built : Bool := false
  seq : BloomSt × (TwoQ × Base) := ({}, (TwoQ.new 1, ⟨[]⟩))
  conc : Conc.St := {}
  tids : List (Nat × Nat) := []            -- harness thread id ↦ model thread index
  pars : List (Nat × (Nat × Bool)) := []   -- harness thread id ↦ enumeration (cut, err)

def DSt.sz (d : DSt) : Nat → Nat := fun k => d.szs.getD k 0
def DSt.rank (d : DSt) : Nat → Nat := fun k => d.ranks.getD k k
def DSt.hash (d : DSt) : Nat → List Nat := fun k => (d.hs.lookup k).getD []

def parseCfg (ts : List String) : Cfg :=
  ts.foldl (fun c t =>
    match t.splitOn "=" with
    | ["tq", v] => { c with tq := v.toNat! }
    | ["bloom", v] => { c with bloom := v.toNat! }
    | ["hashes", v] => { c with hashes := v.toNat! }
    | ["viewer", v] => { c with viewer := v == "1" }
    | ["n", v] => { c with n := v.toNat! }
    | ["mode", v] => { c with conc := v == "conc" }
    | _ => c) {}

/-- the configured stack as one step function on the full state -/
def seqStep (d : DSt) : StepFn (BloomSt × (TwoQ × Base)) :=
  let base : StepFn Base := Base.step d.sz
  let tq : StepFn (TwoQ × Base) := TQ.step d.sz d.rank TwoQ.ops base d.cfg.viewer
  let liftB : StepFn (TwoQ × Base) := fun (c, b) op => let r := base b op; ((c, r.1), r.2)
  match decide (d.cfg.bloom > 0), decide (d.cfg.tq > 0) with
  | true, true => Bloom.step d.hash tq true
  | true, false => Bloom.step d.hash liftB d.cfg.viewer
  | false, true => fun (bs, x) op => let r := tq x op; ((bs, r.1), r.2)
  | false, false => fun (bs, x) op => let r := liftB x op; ((bs, r.1), r.2)

def showOut : Out → String
  | .bool b => toString b
  | .found n => s!"found:{n}"
  | .size n => s!"size:{n}"
  | .notfound => "notfound"
  | .ok => "ok"
  | .err => "err"
  | .keys ks e => s!"keys:{",".intercalate (ks.map toString)}:{if e then 1 else 0}"

def bitsDump (d : DSt) (active : Bool) (bits : List Nat) : String :=
  s!"b=a{if active then 1 else 0}:" ++
    String.join ((List.range d.cfg.n).map fun k => if Bloom.hasBits d.hash bits k then "1" else "0")

def bloomDump (d : DSt) : String :=
  if d.cfg.bloom > 0 then bitsDump d d.seq.1.active d.seq.1.bits else "b=-"

def showEntry : Entry → String
  | .have true => "h1"
  | .have false => "h0"
  | .size n => s!"s{n}"

def tqDump (d : DSt) : String :=
  if d.cfg.tq > 0 then
    "q=" ++ ",".intercalate (d.seq.2.1.dump.map fun (k, e) => s!"{k}:{showEntry e}")
  else "q=-"

def parseKey (s : String) : Key := if s == "u" then none else some s.toNat!
def parseKeys (s : String) : List Nat := if s == "-" then [] else (s.splitOn ",").map String.toNat!

def parseOp : List String → Option Op
  | ["has", k, f] => some (.has (parseKey k) (f == "1"))
  | ["get", k, f] => some (.get (parseKey k) (f == "1"))
  | ["size", k, f] => some (.size (parseKey k) (f == "1"))
  | ["view", k, f] => some (.view (parseKey k) (f == "1"))
  | ["del", k, f] => some (.del (parseKey k) (f == "1"))
  | ["put", k, f] => some (.put k.toNat! (f == "1"))
  | ["putmany", ks, f] => some (.putMany (parseKeys ks) (f == "1"))
  | ["enum", c, m] => some (.enum c.toNat! (m != "0"))
  | ["rebuild", c, m] => some (.rebuild c.toNat! (m != "0"))
  | _ => none

/-! ### scheduled (concurrent) cases -/
open Conc in
def showRes (d : DSt) (th : Thread) (r : Res) : String :=
  match th.prog, r with
  | .read .has _, .present => "true"
  | .read .has _, .absent => "false"
  | .read .size (some k), .present => s!"size:{d.sz k}"
  | .read _ (some k), .present => s!"found:{d.sz k}"
  | .read _ _, .absent => "notfound"
  | .del _, .absent => "ok"
  | _, .ok => "ok"
  | _, .err => "err"
  | _, _ => "?"

open Conc in
/-- one model event of thread `i` (the snapshot event where the program needs one) -/
def microStep (d : DSt) (s : St) (i : Nat) (par : Nat × Bool) : Option St :=
  match s.threads[i]? with
  | none => none
  | some th =>
    match th.pc with
    | .bPop | .iSnap _ =>
      let all := canon s.store
      Conc.step d.hash s (.snap i (all.take par.1) (par.2 || decide (par.1 < all.length)))
    | _ => Conc.step d.hash s (.step i)

open Conc in
/-- what the harness calls one step: run thread `i` to its next schedule point -/
def harnessStep (d : DSt) (tid : Nat) : DSt × String :=
  match d.tids.lookup tid with
  | none => (d, "idle")
  | some i =>
    let par := (d.pars.lookup tid).getD (1048576, false)
    let rec loop (fuel : Nat) (s : St) (first : Bool) : St × String :=
      match fuel with
      | 0 => (s, "stuck")
      | fuel + 1 =>
        match s.threads[i]? with
        | none => (s, "idle")
        | some th =>
          match th.pc with
          | .done r => if first then (s, "idle") else (s, "done " ++ showRes d th r)
          | _ =>
            if !first && (pointName th).isSome then (s, "parked " ++ (pointName th).getD "")
            else match microStep d s i par with
              | none => (s, if first then "blocked" else "stuck")
              | some s' => loop fuel s' false
    let r := loop 16 d.conc true
    ({ d with conc := r.1 }, r.2)

def runThread (d : DSt) (tid : Nat) : Nat → DSt × String
  | 0 => (d, "idle")
  | fuel + 1 =>
    let r := harnessStep d tid
    if r.2.startsWith "parked" then
      match fuel with
      | 0 => r
      | _ => runThread r.1 tid fuel
    else r

open Conc in
def isLive (d : DSt) (tid : Nat) : Bool :=
  match d.tids.lookup tid with
  | none => false
  | some i => match d.conc.threads[i]? with
    | some th => match th.pc with
      | .done _ => false
      | _ => true
    | none => false

def sortedTids (d : DSt) : List Nat := canon (d.tids.map (·.1))

/-- the harness's drain loop: step the lowest live thread that is not blocked, until nothing moves -/
def drain (d : DSt) : Nat → DSt
  | 0 => d
  | fuel + 1 =>
    let rec tryIds (d : DSt) : List Nat → Option DSt
      | [] => none
      | t :: ts =>
        if isLive d t then
          let r := harnessStep d t
          if r.2 == "blocked" then tryIds d ts else some r.1
        else tryIds d ts
    match tryIds d (sortedTids d) with
    | some d' => drain d' fuel
    | none => d

open Conc in
def results (d : DSt) : String :=
  " ".intercalate ((sortedTids d).map fun t =>
    match d.tids.lookup t with
    | none => s!"{t}=?"
    | some i => match d.conc.threads[i]? with
      | some th => match th.pc with
        | .done r => s!"{t}={showRes d th r}"
        | _ => s!"{t}=live"
      | none => s!"{t}=?")

open Conc in
def parseProg : List String → Option (Prog × (Nat × Bool))
  | ["has", k] => some (.read .has (parseKey k), (1048576, false))
  | ["get", k] => some (.read .get (parseKey k), (1048576, false))
  | ["size", k] => some (.read .size (parseKey k), (1048576, false))
  | ["view", k] => some (.read .view (parseKey k), (1048576, false))
  | ["del", k] => some (.del (parseKey k), (1048576, false))
  | ["put", k] => some (.put [k.toNat!], (1048576, false))
  | ["putmany", ks] => some (.put (parseKeys ks), (1048576, false))
  | ["rebuild", c, m] => some (.rebuild, (c.toNat!, m != "0"))
  | _ => none

open Conc in
def spawn (d : DSt) (tid : Nat) (p : Prog) (par : Nat × Bool) : DSt × String :=
  let i := d.conc.threads.length
  match Conc.step d.hash d.conc (.spawn p) with
  | none => (d, "bad-op")
  | some s =>
    let d := { d with conc := s, tids := d.tids ++ [(tid, i)], pars := d.pars ++ [(tid, par)] }
    match s.threads[i]? with
    | some th => (d, "parked " ++ (pointName th).getD "?")
    | none => (d, "bad-op")

def stepLine (d : DSt) (line : String) : DSt × String :=
  match (line.trimAscii.toString.splitOn " ").filter (· ≠ "") with
  | ["case", n] => ({}, s!"case {n}")
  | ["end"] => ({}, "end")
  | "cfg" :: ts => ({ cfg := parseCfg ts }, "ok")
  | "sz" :: ts => ({ d with szs := ts.map String.toNat! }, "ok")
  | "rank" :: ts => ({ d with ranks := ts.map String.toNat! }, "ok")
  | "hash" :: k :: ps => ({ d with hs := d.hs ++ [(k.toNat!, ps.map String.toNat!)] }, "ok")
  | "init" :: ks =>
    let keys := ks.map String.toNat!
    ({ d with seq := ({}, (TwoQ.new d.cfg.tq, ⟨keys⟩)), conc := { store := keys } }, "ok")
  | ["build", c, m] =>
    if d.cfg.tq == 1 then (d, "ctor-err")
    else
      let d := { d with built := true }
      if d.cfg.bloom > 0 then
        let r := seqStep d d.seq (.build c.toNat! (m != "0"))
        let d := { d with seq := r.1 }
        (d, s!"{showOut r.2} {bloomDump d} {tqDump d}")
      else (d, s!"ok {bloomDump d} {tqDump d}")
  | ["start", c, m] => spawn d 0 .build (c.toNat!, m != "0")
  | "spawn" :: tid :: rest =>
    match parseProg rest with
    | some (p, par) => spawn d tid.toNat! p par
    | none => (d, "bad-op")
  | ["step", tid] => harnessStep d tid.toNat!
  | ["run", tid] => runThread d tid.toNat! 200
  | ["drain"] => let d := drain d 2000; (d, "results " ++ results d)
  | ["state"] =>
    let s := d.conc
    let ks := (List.range d.cfg.n).filter (s.store.contains ·)
    (d, s!"{bitsDump d s.active (Conc.getF s s.cur)} store={",".intercalate (ks.map toString)}")
  | ts =>
    if !d.built then (d, "bad-op")
    else match parseOp ts with
      | some op =>
        let r := seqStep d d.seq op
        let d := { d with seq := r.1 }
        (d, s!"{showOut r.2} {bloomDump d} {tqDump d}")
      | none =>
        match ts with
        | ["viewerr", k, kind] =>
          -- View with a callback that fails: the callback's result never changes the cache
          let r := seqStep d d.seq (.view (parseKey k) false)
          let d := { d with seq := r.1 }
          let o := match r.2 with
            | .found n => if kind == "0" then s!"found:{n}" else s!"cb:{kind}"
            | x => showOut x
          (d, s!"{o} {bloomDump d} {tqDump d}")
        | ["enumplain", c, m] =>
          -- Blockstore.AllKeysChan: same pass-through, the error flag is not observable
          let r := seqStep d d.seq (.enum c.toNat! (m != "0"))
          let d := { d with seq := r.1 }
          let o := match r.2 with
            | .keys ks _ => s!"keys:{",".intercalate (ks.map toString)}:-"
            | x => showOut x
          (d, s!"{o} {bloomDump d} {tqDump d}")
        | _ => (d, "bad-op")

partial def loop (h : IO.FS.Stream) (out : IO.FS.Stream) (d : DSt) : IO Unit := do
  let line ← h.getLine
  if line.isEmpty then return ()
  let (d', o) := stepLine d line
  out.putStrLn o
  loop h out d'

def main : IO Unit := do
  let out ← IO.getStdout
  loop (← IO.getStdin) out {}
