import BoxoModel.C12.Model
/-! Line-protocol driver for C12 (merkledag walks). Ops:

  node <idx> <ok|nf|er> <link idx…>          getLinks answer for CID <idx> (idx = number of nodes so far)
  walk <root> <lim> <conc> <skipRoot 0|1> <provider 0|1|1:failing cids,> <handlers,|->
        handlers: ie IgnoreErrors, im IgnoreMissing, om OnMissing, oe0/oe1/oe2 OnError (pass / swallow / replace)
        conc <= 1: sequential walk, outputs are the exact call sequences;
        conc  > 1: parallel walk, outputs are schedule-independent sets (or `err=yes` when the walk aborts)
  fetch <root> <lim> <conc> <handlers,|->     FetchGraphWithDepthLimit over a DAG service; output = fetched set
-/
open C12

structure DS where
  nodes : Array Res := #[]

def mkGraph (d : DS) : Graph where
  n := d.nodes.size
  links := fun c => match d.nodes[c]? with | some r => r | none => .fail .notfound

def parseH (s : String) : Option HK :=
  match s with
  | "ie" => some .ignoreErrors
  | "im" => some .ignoreMissing
  | "om" => some .onMissing
  | "oe0" => some (.onError 0)
  | "oe1" => some (.onError 1)
  | "oe2" => some (.onError 2)
  | _ => none

def parseHs (s : String) : Option (List HK) := if s == "-" then some [] else (s.splitOn ",").mapM parseH

def showErr : Err → String
  | .notfound => "nf" | .other => "er" | .custom => "cu"
def showOE : Option Err → String
  | none => "nil" | some e => showErr e

def showL (xs : List String) : String := if xs.isEmpty then "-" else ",".intercalate xs

def sortDedup (xs : List String) : List String :=
  let s := xs.toArray.qsort (· < ·)
  s.toList.eraseDups

def natStr (n : Nat) : String :=
  -- fixed-width so that string order = numeric order
  let s := toString n
  "".pushn '0' (4 - s.length) ++ s

def fuelMax : Nat := 200000

def step (d : DS) (line : String) : DS × String :=
  match (line.trimAscii.toString.splitOn " ").filter (· ≠ "") with
  | ["case", n] => ({}, s!"case {n}")
  | ["end"] => ({}, "end")
  | "node" :: idx :: kind :: links =>
    match idx.toNat?, links.mapM String.toNat? with
    | some i, some ls =>
      if i != d.nodes.size then (d, "bad-op") else
      match kind with
      | "ok" => ({ d with nodes := d.nodes.push (.ok ls) }, "ok")
      | "nf" => ({ d with nodes := d.nodes.push (.fail .notfound) }, "ok")
      | "er" => ({ d with nodes := d.nodes.push (.fail .other) }, "ok")
      | _ => (d, "bad-op")
    | _, _ => (d, "bad-op")
  | ["walk", root, lim, conc, skip, prov, hs] =>
    match root.toNat?, lim.toInt?, conc.toInt?, parseHs hs with
    | some root, some lim, some conc, some hs =>
      let g := mkGraph d
      -- prov = 0 | 1 | 1:<cids for which StartProviding fails>
      let pf : List Nat := match prov.splitOn ":" with
        | [_, l] => (l.splitOn ",").filterMap String.toNat?
        | _ => []
      let cfg : Cfg := { skipRoot := skip == "1", provider := prov.startsWith "1", handlers := hs, lim := lim,
                         provFail := fun c => pf.contains c }
      let n : Nat := if conc == 0 then 32 else conc.toNat   -- 0 = the Concurrent() option
      if n ≤ 1 then
        let r := seqWalk g cfg fuelMax root 0 {}
        let l := r.2.logs
        let e := match r.1 with | .ok => "nil" | .abort e => showErr e | .fuel => "FUEL"
        (d, "seq visits=" ++ showL (l.visits.map fun (c, dd, b) => s!"{c}:{dd}:{if b then 1 else 0}")
          ++ " missing=" ++ showL (l.missing.map toString)
          ++ " onerr=" ++ showL (l.onerr.map fun (c, e) => s!"{c}:{showOE e}")
          ++ " prov=" ++ showL (l.prov.map toString) ++ " err=" ++ e)
      else
        let s := prun g cfg (fun t => (List.range n).rotateLeft (t % n)) fuelMax (PSt.init root n)
        match s.result with
        | none => (d, "par FUEL")
        | some (some _) => (d, "par err=yes")
        | some none =>
          let l := s.w.logs
          (d, "par visits=" ++ showL (sortDedup ((l.visits.filter (·.2.2)).map fun (c, _, _) => natStr c))
            ++ " missing=" ++ showL (sortDedup (l.missing.map natStr))
            ++ " onerr=" ++ showL (sortDedup (l.onerr.map fun (c, e) => s!"{natStr c}:{showOE e}"))
            ++ " prov=" ++ showL (sortDedup (l.prov.map natStr)) ++ " err=nil")
    | _, _, _, _ => (d, "bad-op")
  | "fetch" :: root :: lim :: conc :: hs :: _ =>   -- an optional 6th field (slow blocks) does not concern the model
    match root.toNat?, lim.toInt?, conc.toInt?, parseHs hs with
    | some root, some lim, some conc, some hs =>
      let g := mkGraph d
      let cfg : Cfg := { handlers := hs, lim := lim }
      -- FetchGraph prepends Concurrent(); a later Concurrency(k) option overrides it
      let n : Nat := if conc == 0 then 32 else conc.toNat
      let fetched (l : Logs) : String :=
        -- blocks made local = visited CIDs whose block exists (decodable or not)
        showL (sortDedup ((l.visits.filter (fun (c, _, b) => b && (match g.get c with | .fail .notfound => false | _ => true))).map
          fun (c, _, _) => natStr c))
      if n ≤ 1 then
        let r := seqWalk g cfg fuelMax root 0 {}
        match r.1 with
        | .ok => (d, "fetched=" ++ fetched r.2.logs ++ " err=nil")
        | .abort _ => (d, "err=yes")
        | .fuel => (d, "FUEL")
      else
        let s := prun g cfg (fun t => (List.range n).rotateLeft (t % n)) fuelMax (PSt.init root n)
        match s.result with
        | none => (d, "FUEL")
        | some (some _) => (d, "err=yes")
        | some none => (d, "fetched=" ++ fetched s.w.logs ++ " err=nil")
    | _, _, _, _ => (d, "bad-op")
  | _ => (d, "bad-op")

partial def loopIO (h : IO.FS.Stream) (out : IO.FS.Stream) (d : DS) : IO Unit := do
  let line ← h.getLine
  if line.isEmpty then return ()
  let (d', o) := step d line
  out.putStrLn o
  loopIO h out d'

def main : IO Unit := do
  let out ← IO.getStdout
  loopIO (← IO.getStdin) out {}
