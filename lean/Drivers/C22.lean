import BoxoModel.C22.Render
/-! Line-protocol driver for C22 (see /verif/docs/HOWTO.md).
Run: `lake env lean --run Drivers/C22.lean < ops.txt > model.out` -/
open C22

structure Cur where
  dag : Dag := { n := 0, links := fun _ => [] }
  st : St := {}

def stepLine (c : Cur) (line : String) : Cur × String :=
  match fields line with
  | ["case", n] => ({}, s!"case {n}")
  | ["end"] => ({}, "end")
  | "dag" :: ts =>
    match parseDag ts with
    | some (dag, present) => ({ dag := dag, st := { present := present } }, "ok")
    | none => (c, "bad-op")
  | ["q"] => (c, dumpLine c.dag c.st)
  | "nested" :: ts =>
    let (ta, tb) := splitAt2 ts
    match parseOp ta, parseOp tb with
    | some opA, some opB =>
      let r := stepNested c.dag c.st opA opB
      let tb := match r.resB with | some x => callTok c.st opB x | none => "none"
      ({ c with st := r.st }, s!"A={resTok r.resA} B={tb} {writesTok r.logB} {writesTok r.logA}")
    | _, _ => (c, "bad-op")
  | ts =>
    match parseOp ts with
    | some op =>
      let r := step c.dag c.st op
      ({ c with st := r.1 }, s!"{callTok c.st op r.2} {writesTok r.1.log}")
    | none => (c, "bad-op")

partial def loop (h : IO.FS.Stream) (out : IO.FS.Stream) (c : Cur) : IO Unit := do
  let line ← h.getLine
  if line.isEmpty then return ()
  let (c', o) := stepLine c line
  out.putStrLn o
  loop h out c'

def main : IO Unit := do
  let out ← IO.getStdout
  loop (← IO.getStdin) out {}
