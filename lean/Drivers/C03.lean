import BoxoModel.C03.Model
/-! Line-protocol driver for C03 (see /verif/docs/HOWTO.md).
ops:  cfg <allowFiles 0|1> <allowUrls 0|1> <std|mmap>
      h <cid> <datahex> <eq|ne|err>        hash verdict observed by the harness (the hash function is a parameter)
      vput <mhhex> <datahex> | vdel <mhhex>           content of the inner (plain) blockstore
      fwrite <path> <hex> | frm <path> | fdir <path>  file system below the filestore root
      url <path> <range|full|down|status> <n> <contenthex>   HTTP world
      ref <mhhex> <path> <off> <size> | refbad <mhhex> | refdel <mhhex>   reference datastore (raw)
      fput <cid> <path> <off> <datahex>                FileManager.Put of a node at root/path
      vget <cid> | fmget <cid> | fsget <cid>
      fmhas/fmsize/fshas/fssize <cid> | fsdel <cid> | fsput <cid> <hex> | fsputn <cid> <path> <off> <hex> | fskeys
cid:  <ver>:<codec>:<mhhex> -/
open C03

def hexVal (c : Char) : Option Nat :=
  if '0' ≤ c ∧ c ≤ '9' then some (c.toNat - '0'.toNat)
  else if 'a' ≤ c ∧ c ≤ 'f' then some (c.toNat - 'a'.toNat + 10)
  else none

def unhexL : List Char → Option Bytes
  | [] => some []
  | a :: b :: r => do
    let x ← hexVal a
    let y ← hexVal b
    let t ← unhexL r
    pure (UInt8.ofNat (x * 16 + y) :: t)
  | _ => none

def unhex (s : String) : Option Bytes := if s == "-" then some [] else unhexL s.toList

def hexDigit (n : Nat) : Char := if n < 10 then Char.ofNat (48 + n) else Char.ofNat (87 + n)
def hex (b : Bytes) : String :=
  if b.isEmpty then "-" else String.ofList (b.flatMap fun x => [hexDigit (x.toNat / 16), hexDigit (x.toNat % 16)])

def parseCid (s : String) : Option Cid :=
  match s.splitOn ":" with
  | [v, c, m] => do pure { ver := (← v.toNat?), codec := (← c.toNat?), mh := (← unhex m) }
  | _ => none

inductive UrlKind where
  | range | full | down | status (n : Nat)

structure St where
  allowFiles : Bool := true
  allowUrls : Bool := true
  reader : Reader := .std
  htab : List ((Cid × Bytes) × Verdict) := []
  inner : List (Bytes × Bytes) := []
  refs : List (Bytes × RefEntry) := []
  files : List (Path × FileState) := []
  urls : List (Path × (UrlKind × Bytes)) := []

def lookup {α β : Type} [DecidableEq α] (l : List (α × β)) (a : α) : Option β :=
  (l.find? fun p => p.1 = a).map (·.2)

def upsert {α β : Type} [DecidableEq α] (l : List (α × β)) (a : α) (b : β) : List (α × β) :=
  (a, b) :: l.filter fun p => p.1 ≠ a

def fetchOf (st : St) (p : Path) (off size : Nat) : UrlResp :=
  match lookup st.urls p with
  | none => .resp 404 []
  | some (.down, _) => .connError
  | some (.status n, _) => .resp n []
  | some (.full, content) => .resp 200 content
  | some (.range, content) =>
    let a := off
    let b := (off + size + 2 ^ 64 - 1) % 2 ^ 64       -- uint64 arithmetic of the Range header
    if a ≥ content.length ∨ b < a then .resp 416 []
    else .resp 206 ((content.drop a).take (min b (content.length - 1) - a + 1))

def world (st : St) : World :=
  { verdict := fun c d => (lookup st.htab (c, d)).getD .err
    inner := fun m => match lookup st.inner m with | some d => .block d | none => .notFound
    refs := fun m => (lookup st.refs m).getD .absent
    fs := fun p => (lookup st.files p).getD .missing
    fetch := fetchOf st
    allowFiles := st.allowFiles
    allowUrls := st.allowUrls
    reader := st.reader
    root := "/root".toList }

def showOut : Out → String
  | .ok d => s!"ok:{hex d}"
  | .notFound => "notfound"
  | .mismatch => "mismatch"
  | .fileNotFound => "filenotfound"
  | .fileChanged => "filechanged"
  | .fileError => "fileerror"
  | .notEnabled => "notenabled"
  | .error => "error"
  | .bool b => toString b
  | .size n => s!"size {n}"

def sortStrings (l : List String) : List String := (l.toArray.qsort (· < ·)).toList

def orBad (o : Option (St × String)) (st : St) : St × String := o.getD (st, "bad-op")

def fpath (p : String) : Path := "/root/".toList ++ p.toList

partial def stepLine (st : St) (line : String) : St × String :=
  match (line.trimAscii.toString.splitOn " ").filter (· ≠ "") with
  | ["case", n] => ({}, s!"case {n}")
  | ["end"] => ({}, "end")
  | ["cfg", f, u, r] => ({ allowFiles := f == "1", allowUrls := u == "1", reader := if r == "mmap" then .mmap else .std }, "ok")
  | ["h", c, d, v] => orBad (do
      let c ← parseCid c
      let d ← unhex d
      let v ← (match v with | "eq" => some Verdict.eq | "ne" => some .ne | "err" => some .err | _ => none)
      pure ({ st with htab := upsert st.htab (c, d) v }, "ok")) st
  | ["vput", m, d] => orBad (do pure ({ st with inner := upsert st.inner (← unhex m) (← unhex d) }, "ok")) st
  | ["vdel", m] => orBad (do let m ← unhex m; pure ({ st with inner := st.inner.filter (·.1 ≠ m) }, "ok")) st
  | ["fwrite", p, d] => orBad (do pure ({ st with files := upsert st.files (fpath p) (.file (← unhex d)) }, "ok")) st
  | ["frm", p] => ({ st with files := st.files.filter (·.1 ≠ fpath p) }, "ok")
  | ["fdir", p] => ({ st with files := upsert st.files (fpath p) .dir }, "ok")
  | ["url", p, k, n, d] => orBad (do
      let kind ← (match k with
        | "range" => some UrlKind.range | "full" => some .full | "down" => some .down
        | "status" => n.toNat?.map UrlKind.status | _ => none)
      pure ({ st with urls := upsert st.urls p.toList (kind, (← unhex d)) }, "ok")) st
  | ["ref", m, p, off, size] => orBad (do
      let m ← unhex m
      let o ← off.toNat?
      let sz ← size.toNat?
      let d : DataObj := { path := p.toList, offset := o, size := sz }
      pure ({ st with refs := upsert st.refs m (.ref d) }, "ok")) st
  | ["fput", c, p, off, d] => orBad (do
      let c ← parseCid c
      let o ← off.toNat?
      let d ← unhex d
      match fmPutFile st.allowFiles p.toList o d with
      | none => pure (st, "notenabled")
      | some dobj => pure ({ st with refs := upsert st.refs c.mh (.ref dobj) }, "ok")) st
  | ["refbad", m] => orBad (do pure ({ st with refs := upsert st.refs (← unhex m) .garbage }, "ok")) st
  | ["refdel", m] => orBad (do let m ← unhex m; pure ({ st with refs := st.refs.filter (·.1 ≠ m) }, "ok")) st
  | ["vget", c] => orBad (do pure (st, showOut (validatingGet (world st) (← parseCid c)))) st
  | ["fmget", c] => orBad (do pure (st, showOut (fmGet (world st) (← parseCid c)))) st
  | ["fsget", c] => orBad (do pure (st, showOut (filestoreGet (world st) (← parseCid c)))) st
  | ["isurl", t] => orBad (do
      let b ← unhex t
      pure (st, toString (isURL (b.map fun x => Char.ofNat x.toNat)))) st
  | ["fmhas", c] => orBad (do pure (st, showOut (fmHas (world st) (← parseCid c)))) st
  | ["fmsize", c] => orBad (do pure (st, showOut (fmGetSize (world st) (← parseCid c)))) st
  | ["fshas", c] => orBad (do pure (st, showOut (filestoreHas (world st) (← parseCid c)))) st
  | ["fssize", c] => orBad (do pure (st, showOut (filestoreGetSize (world st) (← parseCid c)))) st
  | ["fsdel", c] => orBad (do
      let c ← parseCid c
      pure ({ st with inner := st.inner.filter (·.1 ≠ c.mh), refs := st.refs.filter (·.1 ≠ c.mh) }, "ok")) st
  | ["fsputm", c, d] => stepLine st s!"fsput {c} {d}"          -- Filestore.PutMany of one block = Put
  | ["fsputnm", c, p, off, d] => stepLine st s!"fsputn {c} {p} {off} {d}"
  | ["fsput", c, d] => orBad (do
      let c ← parseCid c
      let d ← unhex d
      match filestorePutTarget (world st) c false with
      | .blockstore => pure ({ st with inner := upsert st.inner c.mh d }, "ok")
      | .failed => pure (st, "error")
      | _ => pure (st, "ok")) st
  | ["fsputn", c, p, off, d] => orBad (do
      let c ← parseCid c
      let o ← off.toNat?
      let d ← unhex d
      match filestorePutTarget (world st) c true with
      | .fileManager =>
        match fmPutFile st.allowFiles p.toList o d with
        | none => pure (st, "notenabled")
        | some dobj => pure ({ st with refs := upsert st.refs c.mh (.ref dobj) }, "ok")
      | .failed => pure (st, "error")
      | _ => pure (st, "ok")) st
  | ["fskeys"] =>
    (st, "keys " ++ ",".intercalate (sortStrings ((st.inner.map (·.1)) ++ (st.refs.map (·.1)) |>.map hex)))
  | _ => (st, "bad-op")

partial def loop (h : IO.FS.Stream) (out : IO.FS.Stream) (st : St) : IO Unit := do
  let line ← h.getLine
  if line.isEmpty then return ()
  let (st', o) := stepLine st line
  out.putStrLn o
  loop h out st'

def main : IO Unit := do
  let out ← IO.getStdout
  loop (← IO.getStdin) out {}
