import BoxoModel.C41.Model
/-! Line-protocol driver for C41 (and for the `Lib.PathClean` correspondence ops `clean|join|rel`). -/
open PathClean C41

def flag (s : String) : Bool := s == "1"

def step (line : String) : String :=
  match (line.trimAscii.toString.splitOn " ").filter (· ≠ "") with
  | ["case", n] => s!"case {n}"
  | ["end"] => "end"
  | ["clean", a] =>
    match unhex a with
    | some a => hex (clean a)
    | none => "bad-op"
  | ["join", a, b] =>
    match unhex a, unhex b with
    | some a, some b => hex (join2 a b)
    | _, _ => "bad-op"
  | ["rel", a, b] =>
    match unhex a, unhex b with
    | some a, some b => match rel a b with
      | some r => hex r
      | none => "err"
    | _, _ => "bad-op"
  | ["put", af, au, r, f] =>
    match unhex r, unhex f with
    | some root, some full =>
      let cfg : Cfg := { allowFiles := flag af, allowUrls := flag au }
      match put cfg root full with
      | .urlDisabled => "urldisabled"
      | .fileDisabled => "filedisabled"
      | .reject => "reject"
      | .url s => s!"url {hex s}"
      | .file s =>
        match get cfg root s with
        | .http => s!"ok {hex s} http"
        | .disabled => s!"ok {hex s} disabled"
        | .openFile a => s!"ok {hex s} {hex a}"
    | _, _ => "bad-op"
  | _ => "bad-op"

partial def loop (h : IO.FS.Stream) (out : IO.FS.Stream) : IO Unit := do
  let line ← h.getLine
  if line.isEmpty then return ()
  out.putStrLn (step line)
  loop h out

def main : IO Unit := do
  loop (← IO.getStdin) (← IO.getStdout)
