import BoxoModel.C41.Model
/-! Line-protocol driver for C41 (and for the `Lib.PathClean` correspondence ops `clean|join|rel`). -/
open PathClean C41

def flag (s : String) : Bool := s == "1"

def unhexList (s : String) : Option (List Str) :=
  if s == "=" then some [] else (s.splitOn ",").mapM unhex
def hexList (xs : List Str) : String :=
  if xs.isEmpty then "=" else ",".intercalate (xs.map hex)

/-- the fixed sandbox of the `fsput` ops: `/S/root/link -> /S/outside`; regular files listed in `sandboxFiles` -/
def sb (xs : List String) : List Str := xs.map String.toList
def sandboxLinks : List (List Str × List Str) := [(sb ["S", "root", "link"], sb ["S", "outside"])]
def sandboxFiles : List (List Str) :=
  [sb ["S", "root", "in", "f"], sb ["S", "root", "f"], sb ["S", "outside", "secret"], sb ["S", "root-sibling", "f"],
   -- single components containing backslashes (an ordinary byte on POSIX)
   sb ["S", "root", "in", "..\\f"], sb ["S", "root", "..\\outside\\secret"], sb ["S", "root", "in\\f"]]

def step (line : String) : String :=
  match (line.trimAscii.toString.splitOn " ").filter (· ≠ "") with
  | ["case", n] => s!"case {n}"
  | ["end"] => "end"
  | ["clean", a] =>
    match unhex a with
    | some a => hex (clean a)
    | none => "bad-op"
  | ["join", a, b] =>
    match unhex a, unhex b with
    | some a, some b => hex (join2 a b)
    | _, _ => "bad-op"
  | ["rel", a, b] =>
    match unhex a, unhex b with
    | some a, some b => match rel a b with
      | some r => hex r
      | none => "err"
    | _, _ => "bad-op"
  | ["put", af, au, r, f] =>
    match unhex r, unhex f with
    | some root, some full =>
      let cfg : Cfg := { allowFiles := flag af, allowUrls := flag au }
      match put cfg root full with
      | .urlDisabled => "urldisabled"
      | .fileDisabled => "filedisabled"
      | .reject => "reject"
      | .url s => s!"url {hex s}"
      | .file s =>
        match get cfg root s with
        | .http => s!"ok {hex s} http"
        | .urlDisabled => s!"ok {hex s} urldisabled"
        | .disabled => s!"ok {hex s} disabled"
        | .openFile a => s!"ok {hex s} {hex a}"
    | _, _ => "bad-op"
  | ["putget", af, au, af2, au2, r, f] =>
    -- Put under one setting of AllowFiles/AllowUrls, Get under another
    match unhex r, unhex f with
    | some root, some full =>
      let cfg : Cfg := { allowFiles := flag af, allowUrls := flag au }
      let cfg2 : Cfg := { allowFiles := flag af2, allowUrls := flag au2 }
      let showGet (s : Str) : String :=
        match get cfg2 root s with
        | .http => s!"ok {hex s} http"
        | .urlDisabled => s!"ok {hex s} urldisabled"
        | .disabled => s!"ok {hex s} disabled"
        | .openFile a => s!"ok {hex s} {hex a}"
      match put cfg root full with
      | .urlDisabled => "urldisabled"
      | .fileDisabled => "filedisabled"
      | .reject => "reject"
      | .url s => showGet s
      | .file s => showGet s
    | _, _ => "bad-op"
  | ["putmany", af, au, r, fs] =>
    match unhex r, unhexList fs with
    | some root, some fulls =>
      match putMany { allowFiles := flag af, allowUrls := flag au } root fulls with
      | .ok ss => s!"ok {hexList ss}"
      | .error i => s!"reject {i}"
    | _, _ => "bad-op"
  | ["fsput", r, f] =>
    match unhex r, unhex f with
    | some rootRel, some fullRel =>
      let cfg : Cfg := { allowFiles := true, allowUrls := false }
      let root := "/S".toList ++ rootRel
      let full := "/S".toList ++ fullRel
      match put cfg root full with
      | .file s =>
        match get cfg root s with
        | .openFile a =>
          let phys := physical sandboxLinks (cleanCP a).comps
          if sandboxFiles.contains phys then s!"ok {hex s} {hex (joinSlash (phys.drop 1))}" else s!"ok {hex s} missing"
        | _ => s!"ok {hex s} missing"
      | _ => "reject"
    | _, _ => "bad-op"
  | _ => "bad-op"

partial def loop (h : IO.FS.Stream) (out : IO.FS.Stream) : IO Unit := do
  let line ← h.getLine
  if line.isEmpty then return ()
  out.putStrLn (step line)
  loop h out

def main : IO Unit := do
  loop (← IO.getStdin) (← IO.getStdout)
