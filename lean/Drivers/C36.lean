import BoxoModel.C36.Model
/-! Line-protocol driver for C36 (protocol: see /verif/harness/cmd/c36/main.go).
The pop order is an ARGUMENT of the model's pop step; here it is instantiated with the total order over
(peer, cid) that the harness installs in the real engine through WithTaskComparator (`cmp` 1..8), so that
both sides make the same choices. `drain` output is independent of the order. -/
open C36 AMap

structure CidInfo where
  ident : Bool
  size : Nat
  byteLen : Nat
  pres : Nat

structure D where
  limit : Nat := 1
  replace : Nat := 0
  sdh : Bool := true
  target : Nat := 1
  maxCid : Nat := 0
  cmp : Nat := 1
  tiemul : Nat := 1
  pool : Map Nat CidInfo := []
  deny : List (Nat × Nat) := []
  st : State := {}

def D.cfg (d : D) : Cfg where
  limit := d.limit
  replace := d.replace
  sdh := d.sdh
  target := d.target
  maxCid := d.maxCid
  byteLen c := ((find d.pool c).map (·.byteLen)).getD 0
  isIdent c := ((find d.pool c).map (·.ident)).getD false
  pres c := ((find d.pool c).map (·.pres)).getD 0
  size c := ((find d.pool c).map (·.size)).getD 0
  denied p c := d.deny.contains (p, c)
  tie c := (c * d.tiemul + 3) % 17

def sortNat (xs : List Nat) : List Nat := xs.mergeSort (fun a b => a ≤ b)

def wtStr : WT → String
  | .block => "B"
  | .have => "H"

def joinWith (sep : String) (xs : List String) : String := sep.intercalate xs

def digest (s : State) : String :=
  let lp := (sortNat (keys s.ledger.peers)).map fun p =>
    let m := (find s.ledger.peers p).getD []
    let es := (sortNat (keys m)).map fun c =>
      match find m c with
      | some e => s!"{c}:{e.prio}:{wtStr e.wt}"
      | none => "?"
    s!"p{p}\{{joinWith "," es}}"
  let lc := (sortNat (keys s.ledger.cids)).map fun c =>
    let m := (find s.ledger.cids c).getD []
    let es := (sortNat (keys m)).map fun p =>
      match find m p with
      | some e => s!"p{p}:{e.prio}:{wtStr e.wt}"
      | none => "?"
    s!"{c}\{{joinWith "," es}}"
  let lq := ([0, 1, 2] : List Nat).filterMap fun p =>
    let q := s.pq p
    if q.pending.isEmpty && q.active.isEmpty then none
    else
      let pend := sortNat (q.pending.map (·.topic))
      let act := (sortNat (q.active.map (·.2.topic))).eraseDups
      some s!"p{p}[{joinWith "," (pend.map toString)};{joinWith "," (act.map toString)}]"
  s!" | L {joinWith " " lp} | C {joinWith " " lc} | Q {joinWith " " lq}"

def showNats (xs : List Nat) : String := "[" ++ joinWith "," ((sortNat xs).map toString) ++ "]"

/-- the harness's comparator key -/
def schedKey (cmp : Nat) (p c : Nat) : Int × Int :=
  let b := cmp - 1
  let p' : Int := if b % 2 = 1 then -(p : Int) else p
  let c' : Int := if (b / 2) % 2 = 1 then -(c : Int) else c
  if (b / 4) % 2 = 1 then (c', p') else (p', c')

def keyLt (a b : Int × Int) : Bool := a.1 < b.1 || (a.1 == b.1 && a.2 < b.2)

/-- scheduler: the peer owning the best pending task, and that peer's pending topics best first -/
def choose (cmp : Nat) (s : State) : Option (Nat × List Nat) :=
  let cmp := if cmp = 0 then 1 else cmp
  let all := ([0, 1, 2] : List Nat).flatMap fun p => (s.pq p).pending.map fun t => (p, t.topic)
  match all with
  | [] => none
  | x :: xs =>
    let best := xs.foldl (fun b y => if keyLt (schedKey cmp y.1 y.2) (schedKey cmp b.1 b.2) then y else b) x
    let p := best.1
    let sel := ((s.pq p).pending.map (·.topic)).mergeSort fun a b => !(keyLt (schedKey cmp p b) (schedKey cmp p a))
    some (p, sel)

/-- nextEnvelope: loop until an envelope is produced or nothing is pending -/
def nextEnvelope (cfg : Cfg) (cmp : Nat) : Nat → State → State × Option Env
  | 0, s => (s, none)
  | fuel + 1, s =>
    match choose cmp s with
    | none => (s, none)
    | some (p, sel) =>
      match popOnce cfg s p sel with
      | (s', some env) => (s', some env)
      | (s', none) => nextEnvelope cfg cmp fuel s'

def totalPending (s : State) : Nat := (([0, 1, 2] : List Nat).map fun p => (s.pq p).pending.length).sum

def parseEntry (t : String) : Option MEntry :=
  match t.splitOn "/" with
  | [c, pr, ty, ca, d] => do
    let c ← c.toNat?
    let pr ← pr.toInt?
    pure { cid := c, prio := pr, wt := if ty == "H" then .have else .block, cancel := ca == "1", sdh := d == "1" }
  | _ => none

/-- drain: pop + ack until nothing is pending; union of what each peer was sent -/
def drain (cfg : Cfg) (cmp : Nat) : Nat → State → Map Nat (List Nat × List Nat × List Nat) →
    State × Map Nat (List Nat × List Nat × List Nat)
  | 0, s, acc => (s, acc)
  | fuel + 1, s, acc =>
    match nextEnvelope cfg cmp (totalPending s + 1) s with
    | (s', none) => (s', acc)
    | (s', some env) =>
      let cur := (find acc env.peer).getD ([], [], [])
      let acc' := insert acc env.peer (cur.1 ++ env.blocks, cur.2.1 ++ env.haves, cur.2.2 ++ env.dontHaves)
      drain cfg cmp fuel (ack s' env.id) acc'

def stepLine (d : D) (line : String) : D × String :=
  let toks := (line.trimAscii.toString.splitOn " ").filter (· ≠ "")
  let cfg := d.cfg
  let fin (d' : D) (res : String) : D × String := (d', res ++ digest d'.st)
  match toks with
  | ["case", n] => ({}, s!"case {n}")
  | ["end"] => ({}, "end")
  | ["cfg", a, b, c, e, f, g, h] =>
    match a.toNat?, b.toNat?, c.toNat?, e.toNat?, f.toNat?, g.toNat?, h.toNat? with
    | some a, some b, some c, some e, some f, some g, some h =>
      ({ d with limit := a, replace := b, sdh := c == 1, target := e, maxCid := f, cmp := g, tiemul := h }, "ok")
    | _, _, _, _, _, _, _ => (d, "bad-op")
  | ["cid", i, kind, size, bl, pr] =>
    match i.toNat?, size.toNat?, bl.toNat?, pr.toNat? with
    | some i, some size, some bl, some pr =>
      ({ d with pool := insert d.pool i { ident := kind == "i", size := size, byteLen := bl, pres := pr } }, "ok")
    | _, _, _, _ => (d, "bad-op")
  | ["deny", p, c] =>
    match p.toNat?, c.toNat? with
    | some p, some c => ({ d with deny := (p, c) :: d.deny }, "ok")
    | _, _ => (d, "bad-op")
  | "msg" :: p :: full :: es =>
    match p.toNat?, es.mapM parseEntry with
    | some p, some es =>
      if es.any fun e => (find d.pool e.cid).isNone then fin d "bad-op"
      else
        let r := msgReceived cfg d.st p (full == "1") es
        fin { d with st := r.state } (if r.panic then "PANIC-index-out-of-range" else "ok")
    | _, _ => fin d "bad-op"
  | ["add", c] =>
    match c.toNat? with
    | some c => if (find d.pool c).isNone then fin d "bad-op" else fin { d with st := step cfg d.st (.add c) } "ok"
    | none => fin d "bad-op"
  | ["rm", c] =>
    match c.toNat? with
    | some c => if (find d.pool c).isNone then fin d "bad-op" else fin { d with st := step cfg d.st (.rm c) } "ok"
    | none => fin d "bad-op"
  | ["pop"] =>
    if d.cmp = 0 then fin d "bad-op"
    else
      match nextEnvelope cfg d.cmp (totalPending d.st + 1) d.st with
      | (s', none) => fin { d with st := s' } "none"
      | (s', some env) =>
        fin { d with st := s' }
          s!"env {env.id} p{env.peer} blocks={showNats env.blocks} haves={showNats env.haves} donthaves={showNats env.dontHaves} pend={env.pendingBytes}"
  | ["ack", k] =>
    match k.toNat? with
    | some k =>
      if d.st.outst.isEmpty then fin d "none"
      else
        match d.st.outst[k % d.st.outst.length]? with
        | some env => fin { d with st := ack d.st env.id } s!"acked {env.id}"
        | none => fin d "none"
    | none => fin d "bad-op"
  | ["disc", p] =>
    match p.toNat? with
    | some p => fin { d with st := disconnect d.st p } "ok"
    | none => fin d "bad-op"
  | ["wdrain"] =>
    -- the real task worker drains through Outbox(): same order-independent result as `drain`
    let (s', acc) := drain cfg d.cmp (totalPending d.st + 1) d.st []
    let parts := ([0, 1, 2] : List Nat).filterMap fun p =>
      (find acc p).map fun g => s!"p{p} blocks={showNats g.1} haves={showNats g.2.1} donthaves={showNats g.2.2}"
    fin { d with st := s' } ("drained " ++ joinWith " ; " parts)
  | ["drain"] =>
    let (s', acc) := drain cfg d.cmp (totalPending d.st + 1) d.st []
    let parts := ([0, 1, 2] : List Nat).filterMap fun p =>
      (find acc p).map fun g => s!"p{p} blocks={showNats g.1} haves={showNats g.2.1} donthaves={showNats g.2.2}"
    fin { d with st := s' } ("drained " ++ joinWith " ; " parts)
  | _ => fin d "bad-op"

partial def loop (h : IO.FS.Stream) (out : IO.FS.Stream) (d : D) : IO Unit := do
  let line ← h.getLine
  if line.isEmpty then return ()
  let (d', o) := stepLine d line
  out.putStrLn o
  loop h out d'

def main : IO Unit := do
  let out ← IO.getStdout
  loop (← IO.getStdin) out {}
