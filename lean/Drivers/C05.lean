import BoxoModel.C04.Proto
import BoxoModel.C05.Model
/-! Line-protocol driver for C05: the same block-service model and op language as C04
(/verif/harness/bsx/bsx.go), with the `fix:` commit of branch verif/bsvc applied. -/
def main : IO Unit := do
  C04.Proto.loop true (← IO.getStdin) (← IO.getStdout) {}
