import BoxoModel.C19.Model
/-! Line-protocol driver for C19 (see /verif/docs/HOWTO.md and harness/cmd/c19/main.go).
Per op line: `<result> | <serialisation of the whole live state>` (+ ` | pub=<published tree>` for flush). -/
open C19

def oct (n : Nat) : String := String.ofList (Nat.toDigits 8 n)

def hexDigit (n : Nat) : Char := if n < 10 then Char.ofNat (48 + n) else Char.ofNat (87 + n)

def hex (b : Bytes) : String :=
  if b.isEmpty then "-"
  else String.ofList (b.flatMap fun x => [hexDigit (x.toNat / 16), hexDigit (x.toNat % 16)])

def unhexDigit (c : Char) : Nat :=
  if c.isDigit then c.toNat - 48 else c.toNat - 87

def unhex (s : String) : Bytes :=
  if s == "-" then []
  else
    let rec go : List Char → Bytes
      | a :: b :: r => UInt8.ofNat (unhexDigit a * 16 + unhexDigit b) :: go r
      | _ => []
    go s.toList

def parseOct (s : String) : Nat := s.toList.foldl (fun acc c => acc * 8 + (c.toNat - 48)) 0

def sortByName (xs : List (Name × String)) : List (Name × String) :=
  xs.mergeSort fun a b => !(b.1 < a.1)

def fileMt (t : Nat) : String := if t = 0 then "0" else "s"

mutual
def serN : N → String
  | .file d m => s!"F({oct m.mode},{fileMt m.mtime},{hex d})"
  | .dir m kids => s!"D({oct m.mode},{m.mtime})[" ++
      ",".intercalate ((sortByName (serNL kids)).map fun p => p.1 ++ "=" ++ p.2) ++ "]"
def serNL : NL → List (Name × String)
  | .nil => []
  | .cons k n r => (k, serN n) :: serNL r
end

mutual
def serL : L → String
  | .file d m => s!"F({oct m.mode},{fileMt m.mtime},{hex d})"
  | .dir m e => s!"D({oct m.mode},{m.mtime})[" ++
      ",".intercalate ((sortByName (serEnts e)).map fun p => p.1 ++ p.2) ++ "]"
def serEnts : Ents → List (Name × String)
  | .nil => []
  | .dead k n r => (k, "=" ++ serN n) :: serEnts r
  | .live k n l r => (k, "*" ++ serN n ++ ":" ++ serL l) :: serEnts r
end

def parsePath (s : String) : Path :=
  ⟨(s.splitOn "/").filter (· ≠ ""), s.endsWith "/"⟩

def pool : Nat → N
  | 0 => .file [] {}
  | 1 => .file [] { mode := 0o640 }
  | 2 => .dir {} .nil
  | 3 => .dir { mode := 0o750, mtime := 2 }
      (.cons "f" (.file [] { mode := 0o600 })
        (.cons "y" (.dir {} (.cons "g" (.file [] {}) .nil)) .nil))
  | 4 => .file "raw".toUTF8.toList {}
  | 5 => .file "hi".toUTF8.toList { mode := 0o644 }
  | 6 => .file "pb".toUTF8.toList {}
  | _ => .dir {} (.cons "f" (.file "R".toUTF8.toList {}) (.cons "g" (.file "pbg".toUTF8.toList {}) .nil))

def errStr : Err → String
  | .notfound => "notfound"
  | .exists_ => "exists"
  | .notdir => "notdir"
  | .invalid => "invalid"
  | .rootexists => "rootexists"
  | .isdir => "isdir"
  | .intoself => "intoself"
  | .busy => "busy"
  | .nofd => "nofd"

def sortStrs (xs : List String) : List String := xs.mergeSort fun a b => !(b < a)

def outStr : Out → String
  | .unit => "ok"
  | .bytes b => "ok " ++ hex b
  | .stat (.dir m) => s!"ok dir {oct m.mode} {m.mtime}"
  | .stat (.file m sz) => s!"ok file {oct m.mode} {fileMt m.mtime} {sz}"
  | .names none => "ok file"
  | .names (some ns) => "ok [" ++ ",".intercalate (sortStrs ns) ++ "]"
  | .listing none => "ok file"
  | .listing (some es) =>
    "ok [" ++ ",".intercalate (sortStrs (es.map fun e =>
      match e.2 with
      | none => e.1 ++ "/"
      | some sz => s!"{e.1}:{sz}")) ++ "]"

def parseOp (ts : List String) : Option OpD :=
  match ts with
  | ["mkdir", p, parents, flush, mode, mt] =>
    some (.base (.mkdir (parsePath p).comps (parents == "1") (flush == "1") ⟨parseOct mode, mt.toNat!⟩))
  | ["put", p, k] => some (.base (.put (parsePath p) (pool k.toNat!)))
  | ["mv", s, d] => some (.base (.mv (parsePath s) (parsePath d)))
  | ["rm", p] => some (.base (.rm (parsePath p)))
  | ["chmod", p, mode] => some (.base (.chmod (parsePath p).comps (parseOct mode)))
  | ["touch", p, mt] => some (.base (.touch (parsePath p).comps mt.toNat!))
  | ["write", p, off, b, mode] => some (.base (.write (parsePath p).comps off.toNat! (unhex b) (mode != "0")))
  | ["trunc", p, size, mode] => some (.base (.trunc (parsePath p).comps size.toNat! (mode != "0")))
  | ["read", p] => some (.base (.read (parsePath p).comps))
  | ["flush", p] => some (.base (.flush (parsePath p).comps))
  | ["stat", p] => some (.base (.stat (parsePath p).comps))
  | ["ls", p] => some (.base (.ls (parsePath p).comps))
  | ["lsl", p] => some (.base (.lsl (parsePath p).comps))
  | ["dmkdir", p, k] => some (.base (.dmkdir (parsePath p).comps k))
  | ["rflush"] => some (.base .rflush)
  | ["memfree"] => some (.base .memfree)
  | ["reopen"] => some (.base .reopen)
  | ["fdopen", p, sync] => some (.fdopen (parsePath p).comps (sync == "1"))
  | ["fdwrite", off, b] => some (.fdwrite off.toNat! (unhex b))
  | ["fdtrunc", size] => some (.fdtrunc size.toNat!)
  | ["fdflush"] => some .fdflush
  | ["fdclose"] => some .fdclose
  | _ => none

def fdStr : Option Fd → String
  | none => "-"
  | some fd => (if fd.att then "a:/" else "d:/") ++ "/".intercalate fd.path ++ s!":{fd.buf.length}"

/-- driver state: the MFS, and whether the root has a publisher (`cfg _ _ 1` = created without PubFunc) -/
structure DSt where
  s : StD
  nopub : Bool

def stepLine (s : Option DSt) (line : String) : Option DSt × String :=
  let ts := (line.trimAscii.toString.splitOn " ").filter (· ≠ "")
  match ts with
  | ["case", n] => (none, s!"case {n}")
  | ["end"] => (none, "end")
  | ["cfg", _, _, np] =>
    match s with
    | none => (some ⟨⟨St.init, none⟩, np == "1"⟩, "ok | " ++ serL St.init.root ++ " | fd=-")
    | some _ => (s, "bad-op")
  | "race" :: k :: rest =>
    -- race <k> <intruder op ...> @ <trigger op ...>
    let intrTs := rest.takeWhile (· ≠ "@")
    let trigTs := (rest.dropWhile (· ≠ "@")).drop 1
    let trig : Option Trig := match trigTs with
      | ["fdflush"] => some .fdflush
      | ["fdclose"] => some .fdclose
      | _ => match parseOp trigTs with
        | some (.base o) => some (.op o)
        | _ => none
    match s, trig, parseOp intrTs with
    | some st, some t, some (.base intr) =>
      let r := stepRace st.s k.toNat! t intr
      let str := fun (x : Except Err Out) => match x with
        | .ok o => outStr o
        | .error e => errStr e
      (some ⟨r.1, st.nopub⟩, str r.2.1 ++ " ; " ++ str r.2.2 ++ " | " ++ serL r.1.st.root ++ " | fd=" ++ fdStr r.1.fd)
    | _, _, _ => (s, "bad-op")
  | _ =>
    match s, parseOp ts with
    | some st, some op =>
      let r := stepD st.s op
      let res := match r.2 with
        | .ok o => outStr o
        | .error e => errStr e
      let extra := match op, r.2 with
        | .base (.flush _), .ok _ => if st.nopub then "" else " | pub=" ++ serN r.1.st.pub
        | _, _ => ""
      (some ⟨r.1, st.nopub⟩, res ++ " | " ++ serL r.1.st.root ++ extra ++ " | fd=" ++ fdStr r.1.fd)
    | _, _ => (s, "bad-op")

partial def loop (h : IO.FS.Stream) (out : IO.FS.Stream) (s : Option DSt) : IO Unit := do
  let line ← h.getLine
  if line.isEmpty then return ()
  let (s', o) := stepLine s line
  out.putStrLn o
  loop h out s'

def main : IO Unit := do
  let out ← IO.getStdout
  loop (← IO.getStdin) out none
