import BoxoModel.C37.Model
import BoxoModel.C37.SessionWants
/-! Line-protocol driver for C37 (protocol: /verif/harness/cmd/c37/main.go). After every external op the
internal events (forwarder receive/send, handleIncoming receive) are run to quiescence, which is what the real
goroutines do while the harness blocks on its next observation; the theorems hold for every schedule. -/
open C37

structure D where
  st : Option St := none
  done : Bool := false
  sw : Option SW.St := none

/-- run the internal events to quiescence -/
def settle : Nat → St → St
  | 0, s => s
  | fuel + 1, s =>
    match step s .fRecv with
    | some s' => settle fuel s'
    | none =>
      match step s .fSend with
      | some s' => settle fuel s'
      | none =>
        match step s .hRecv with
        | some s' => settle fuel s'
        | none => s

def settled (s : St) : St := settle (4 * (s.keys.length + 2)) s

def showNats (xs : List Nat) : String :=
  "[" ++ ",".intercalate ((xs.mergeSort (fun a b => a ≤ b)).map toString) ++ "]"

def inFlight (s : St) : Bool := !(s.vbuf.isEmpty && s.fHeld.isNone && s.bbuf.isEmpty && s.hHeld.isNone)

def showList (xs : List Nat) : String := "[" ++ ",".intercalate (xs.map toString) ++ "]"

def swDigest (s : SW.St) : String :=
  s!" | P {s.set.length} E {showList s.elems} L {showNats s.live} O {showList s.order}"

/-- sessionWants ops (a case that starts with `sw <limit>`) -/
def swLine (s : SW.St) (toks : List String) : Option (SW.St × String) :=
  let nums (ts : List String) : Option (List Nat) := ts.mapM String.toNat?
  match toks with
  | "req" :: ks => (nums ks).map fun ks => ((SW.step s (.req ks)).1, "ok")
  | "sent" :: ks => (nums ks).map fun ks => ((SW.step s (.sent ks)).1, "ok")
  | "cancelp" :: ks => (nums ks).map fun ks => ((SW.step s (.cancel ks)).1, "ok")
  | "recv" :: ks => (nums ks).map fun ks => let r := SW.step s (.recv ks); (r.1, showList r.2)
  | ["next"] => let r := SW.step s .next; some (r.1, showList r.2)
  | ["bcast"] => some (s, showList (SW.step s .bcast).2)
  | ["live"] => some (s, showNats s.live)
  | ["rand"] => some (s, "ok")
  | _ => none

def stepLine (d : D) (line : String) : D × String :=
  let toks := (line.trimAscii.toString.splitOn " ").filter (· ≠ "")
  match d.sw, (d.sw.bind fun s => swLine s toks) with
  | some _, some (s', res) => ({ d with sw := some s' }, res ++ swDigest s')
  | _, _ =>
  match toks with
  | ["case", n] => ({}, s!"case {n}")
  | ["end"] => ({}, "end")
  | ["sw", lim] =>
    match lim.toInt? with
    | some lim => let s : SW.St := { limit := lim }; ({ sw := some s }, "ok" ++ swDigest s)
    | none => (d, "bad-op")
  | "get" :: ks =>
    match ks.mapM String.toNat? with
    | some ks => ({ st := some (settled (start ks)), done := ks.isEmpty }, "ok")
    | none => (d, "bad-op")
  | "zget" :: rest =>
    -- zero-latency peer: Subscribe happens before want(), so what the peer publishes from inside want() is received
    let ks := rest.takeWhile (· ≠ "/")
    let hs := (rest.dropWhile (· ≠ "/")).drop 1
    match ks.mapM String.toNat?, hs.mapM String.toNat? with
    | some ks, some hs =>
      let s := hs.foldl (fun s h => (step s (.publish h)).getD s) (start ks)
      ({ st := some (settled s), done := ks.isEmpty }, "ok")
    | _, _ => (d, "bad-op")
  | "net" :: _ => (d, "ok")
  | ["pub", c] =>
    match d.st, c.toNat? with
    | some s, some c =>
      if d.done then (d, "ok") else ({ d with st := some (settled ((step s (.publish c)).getD s)) }, "ok")
    | _, _ => (d, "bad-op")
  | ["read"] =>
    match d.st with
    | some s =>
      if s.hExited then (d, "closed")
      else match s.hHeld with
        | some c => ({ d with st := some (settled ((step s .read).getD s)) }, s!"blk {c}")
        | none => (d, "none")
    | none => (d, "bad-op")
  | [op] =>
    if op == "cancel" || op == "sesscancel" then
      match d.st with
      | some s =>
        if d.done then (d, "done")
        else
          let racy := inFlight s
          let s1 := (step s (if op == "cancel" then .cancel else .sessCancel)).getD s
          let s2 := (step s1 .hCtx).getD s1
          let s3 := (step (if op == "cancel" then s2 else s2) .fCtx).getD s2
          ({ st := some s3, done := true }, if racy then "cw-racy" else "cw " ++ showNats ((s3.cancelArg).getD []))
      | none => (d, "bad-op")
    else if op == "fin" then
      match d.st with
      | some s =>
        if d.done then (d, "done")
        else if s.hExited then ({ d with done := true }, "cw " ++ showNats ((s.cancelArg).getD []))
        else (d, "notdone")
      | none => (d, "bad-op")
    else (d, "bad-op")
  | _ => (d, "bad-op")

partial def loop (h : IO.FS.Stream) (out : IO.FS.Stream) (d : D) : IO Unit := do
  let line ← h.getLine
  if line.isEmpty then return ()
  let (d', o) := stepLine d line
  out.putStrLn o
  loop h out d'

def main : IO Unit := do
  let out ← IO.getStdout
  loop (← IO.getStdin) out {}
