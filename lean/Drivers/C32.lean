import BoxoModel.C32.Model
import BoxoModel.C32.Base32
/-! Line-protocol driver for C32 (see /verif/docs/HOWTO.md).
ops (strings in hex, `-` = empty):
  gw <hostname> <path,path,..|-> <useSubdomains> <noDNSLink> <inlineDNSLink> <isIP>   add a PublicGateway
                                          (isIP = net.ParseIP(stripPort(hostname)) != nil, a parameter)
  cfgnodns <0|1>                                                                Config.NoDNSLink
  dns <name>                                                                    DNSLink record (backend only)
  inline <name> | uninline <label>                                              InlineDNSLink / UninlineDNSLink
  b32 <codec> <multihash>                 NewCidV1(codec, mh).StringOfBase(Base32), computed by the model (enc32)
  req <host> <x-forwarded-host> <path> <rawquery> <fragment> <https> <uri> <table entries…>
      uri = - (no ?uri=) | x (url.Parse fails) | <scheme>:<gopath.Join result>
      d=<s>:<ver>,<codec>,<mh> | d=<s>:x        cid.Decode(s)
      e=<b36>,<codec>,<mh>:<s>                   NewCidV1(codec, mh).StringOfBase(b36 ? Base36 : Base32)
      p=<s>:<cid string> | p=<s>:x               peer.Decode(s) → peer.ToCid(..).String()
      l=<s>:<0|1>                                hasDNSLinkRecord(s)
      u=<s>:0                                    url.Parse rejects a host that starts with s (default: accepts)
Run: `lake env lean --run Drivers/C32.lean < ops.txt > model.out` -/
open C32

def hexVal (c : Char) : Option Nat :=
  if '0' ≤ c ∧ c ≤ '9' then some (c.toNat - 48)
  else if 'a' ≤ c ∧ c ≤ 'f' then some (c.toNat - 87)
  else none

def unhexAux : List Char → Option Bytes
  | [] => some []
  | a :: b :: r => do
    let x ← hexVal a
    let y ← hexVal b
    let t ← unhexAux r
    pure ((x * 16 + y) :: t)
  | _ => none

def unhex (s : String) : Option Bytes := if s == "-" then some [] else unhexAux s.toList

def hexDigit (n : Nat) : Char := if n < 10 then Char.ofNat (48 + n) else Char.ofNat (87 + n)
def hex (bs : Bytes) : String :=
  if bs.isEmpty then "-" else String.ofList (bs.flatMap fun b => [hexDigit (b / 16), hexDigit (b % 16)])

structure Tables where
  dec : List (Bytes × Option Cid) := []
  enc : List ((Bool × Nat × Bytes) × Bytes) := []
  peer : List (Bytes × Option Bytes) := []
  dns : List (Bytes × Bool) := []
  url : List (Bytes × Bool) := []

def missCid : Cid := { version := 999, codec := 999, mh := [] }

def Tables.env (t : Tables) : Env :=
  { codecs :=
      { decode := fun s => match t.dec.lookup s with
          | some v => v
          | none => some missCid      -- table miss: shows up as a diff
        enc := fun b c mh => match t.enc.lookup (b, c, mh) with
          | some v => v
          | none => str "TABLE-MISS"
        peerCid := fun s => match t.peer.lookup s with
          | some v => v
          | none => some (str "TABLE-MISS") },
    hasDNSLink := fun s => match t.dns.lookup s with
      | some v => v
      | none => false
    urlHostOK := fun s => match t.url.lookup s with
      | some v => v
      | none => true }

def parseEntry (t : Tables) (tok : String) : Option Tables :=
  match tok.splitOn "=" with
  | ["d", rest] =>
    match rest.splitOn ":" with
    | [s, "x"] => do let s ← unhex s; pure { t with dec := (s, none) :: t.dec }
    | [s, v] =>
      match v.splitOn "," with
      | [ver, codec, mh] => do
        let s ← unhex s
        let ver ← ver.toNat?
        let codec ← codec.toNat?
        let mh ← unhex mh
        pure { t with dec := (s, some { version := ver, codec := codec, mh := mh }) :: t.dec }
      | _ => none
    | _ => none
  | ["e", rest] =>
    match rest.splitOn ":" with
    | [k, s] =>
      match k.splitOn "," with
      | [b, codec, mh] => do
        let codec ← codec.toNat?
        let mh ← unhex mh
        let s ← unhex s
        pure { t with enc := ((b == "1", codec, mh), s) :: t.enc }
      | _ => none
    | _ => none
  | ["p", rest] =>
    match rest.splitOn ":" with
    | [s, "x"] => do let s ← unhex s; pure { t with peer := (s, none) :: t.peer }
    | [s, v] => do let s ← unhex s; let v ← unhex v; pure { t with peer := (s, some v) :: t.peer }
    | _ => none
  | ["l", rest] =>
    match rest.splitOn ":" with
    | [s, v] => do let s ← unhex s; pure { t with dns := (s, v == "1") :: t.dns }
    | _ => none
  | ["u", rest] =>
    match rest.splitOn ":" with
    | [s, v] => do let s ← unhex s; pure { t with url := (s, v == "1") :: t.url }
    | _ => none
  | _ => none

def parseTables : List String → Tables → Option Tables
  | [], t => some t
  | tok :: r, t => do
    let t' ← parseEntry t tok
    parseTables r t'

def showURL (u : URL) : String :=
  s!"301 {if u.https then 1 else 0} {hex u.host} {hex u.path} {hex u.rawQuery} {hex u.fragment}"

def showOut : Out → String
  | .redirect u => showURL u
  | .redirectPath p => s!"301p {hex p}"
  | .next p .none => s!"next {hex p} none -"
  | .next p (.gateway h) => s!"next {hex p} gateway {hex h}"
  | .next p (.subdomain h) => s!"next {hex p} subdomain {hex h}"
  | .next p (.dnslink h) => s!"next {hex p} dnslink {hex h}"
  | .notFound => "404"
  | .badRequest => "400"

structure St where
  raw : List RawGW := []
  noDNSLink : Bool := false

def St.cfg (st : St) : Config := prepare st.raw st.noDNSLink

def parseUri (s : String) : Option UriParam :=
  if s == "-" then some .absent
  else if s == "x" then some .unparsable
  else match s.splitOn ":" with
    | [a, b] => do let a ← unhex a; let b ← unhex b; pure (.parsed a b)
    | _ => none

def step (cfg : St) (line : String) : St × String :=
  match (line.trimAscii.toString.splitOn " ").filter (· ≠ "") with
  | ["case", n] => ({}, s!"case {n}")
  | ["end"] => ({}, "end")
  | ["gw", host, paths, us, nd, inl, isIP] =>
    match unhex host, (if paths == "-" then some [] else (paths.splitOn ",").mapM unhex) with
    | some host, some paths =>
      let gw : GW := { paths := paths, useSubdomains := us == "1", noDNSLink := nd == "1", inlineDNSLink := inl == "1" }
      -- a later entry for the same hostname replaces the earlier one (Go map)
      ({ cfg with raw := { hostname := host, gw := gw, isIP := isIP == "1" } :: cfg.raw.filter (·.hostname != host) }, "ok")
    | _, _ => (cfg, "bad-op")
  | ["b32", codec, mh] =>
    match codec.toNat?, unhex mh with
    | some codec, some mh => (cfg, hex (enc32 codec mh))
    | _, _ => (cfg, "bad-op")
  | ["cfgnodns", v] => ({ cfg with noDNSLink := v == "1" }, "ok")
  | ["dns", _] => (cfg, "ok")
  | ["inline", s] =>
    match unhex s with
    | some s => (cfg, match inlineDNSLink s with | some l => hex l | none => "err")
    | none => (cfg, "bad-op")
  | ["uninline", s] =>
    match unhex s with
    | some s => (cfg, hex (uninlineDNSLink s))
    | none => (cfg, "bad-op")
  | "req" :: host :: xfh :: path :: q :: frag :: https :: uri :: tabs =>
    match unhex host, unhex xfh, unhex path, unhex q, unhex frag, parseUri uri, parseTables tabs {} with
    | some host, some xfh, some path, some q, some frag, some uri, some t =>
      let r : Req := { host := host, xfh := xfh, path := path, rawQuery := q, fragment := frag, https := https == "1",
                       uri := uri }
      (cfg, showOut (handle true true t.env cfg.cfg r))
    | _, _, _, _, _, _, _ => (cfg, "bad-op")
  | _ => (cfg, "bad-op")

partial def loop (h : IO.FS.Stream) (out : IO.FS.Stream) (c : St) : IO Unit := do
  let line ← h.getLine
  if line.isEmpty then return ()
  let (c', o) := step c line
  out.putStrLn o
  loop h out c'

def main : IO Unit := do
  let out ← IO.getStdout
  loop (← IO.getStdin) out {}
