import BoxoModel.C27.Model
/-! Line-protocol driver for C27.
ops:  rec <hex> bad | rec <hex> <v2:0|1> <seq|-> <eolns|->     add a value to the pool
      select <i0> <i1> …                                       Validator.Select on pool values in that order
      perms                                                    Select on every permutation of the pool -/
open C27

def hexVal (c : Char) : Option Nat :=
  if '0' ≤ c ∧ c ≤ '9' then some (c.toNat - '0'.toNat)
  else if 'a' ≤ c ∧ c ≤ 'f' then some (c.toNat - 'a'.toNat + 10)
  else none

def parseHexAux : List Char → List Nat → Option (List Nat)
  | [], acc => some acc.reverse
  | [_], _ => none
  | a :: b :: r, acc => do
    let x ← hexVal a
    let y ← hexVal b
    parseHexAux r ((x * 16 + y) :: acc)

def parseHex (s : String) : Option (List Nat) :=
  if s == "-" then some [] else parseHexAux s.toList []

def optNat (s : String) : Option (Option Nat) := if s == "-" then some none else s.toNat?.map some
def optInt (s : String) : Option (Option Int) := if s == "-" then some none else s.toInt?.map some

/-- all permutations of a list (order of enumeration irrelevant: results are aggregated as a set) -/
def insertAll {α} (x : α) : List α → List (List α)
  | [] => [[x]]
  | y :: ys => (x :: y :: ys) :: (insertAll x ys).map (y :: ·)
def perms {α} : List α → List (List α)
  | [] => [[]]
  | x :: xs => (perms xs).flatMap (insertAll x)

/-- canonical id of a pool value: index of the first pool entry with the same bytes -/
def firstSame (raw : Array (List Nat)) (i : Nat) : Nat :=
  match raw.findIdx? (· == raw[i]!) with
  | some k => k
  | none => i

def outcome (pool : Array (Option Rec)) (raw : Array (List Nat)) (idxs : List Nat) : String :=
  match select (idxs.map fun i => pool[i]!) with
  | none => "err"
  | some k => s!"b{firstSame raw (idxs[k]!)}"

def dedupSorted (xs : List String) : List String :=
  let sorted := xs.toArray.qsort (· < ·) |>.toList
  sorted.eraseDups

structure St where
  pool : Array (Option Rec) := #[]
  raw : Array (List Nat) := #[]

def step (st : St) (line : String) : St × String :=
  match (line.trimAscii.toString.splitOn " ").filter (· ≠ "") with
  | ["case", n] => ({}, s!"case {n}")
  | ["end"] => ({}, "end")
  | ["rec", h, "bad"] =>
    match parseHex h with
    | some b => ({ pool := st.pool.push none, raw := st.raw.push b }, "bad")
    | none => (st, "bad-op")
  | ["rec", h, v2, seq, eol] =>
    match parseHex h, optNat seq, optInt eol with
    | some b, some s, some e =>
      let r : Rec := { hasV2 := v2 == "1", seq := s, eol := e, bytes := b }
      ({ pool := st.pool.push (some r), raw := st.raw.push b }, s!"v2={v2} seq={seq} eol={eol}")
    | _, _, _ => (st, "bad-op")
  | "select" :: is =>
    match is.mapM String.toNat? with
    | some idxs =>
      if idxs.all (· < st.pool.size) then
        match select (idxs.map fun i => st.pool[i]!) with
        | none => (st, "err")
        | some k => (st, s!"ok {k}")
      else (st, "bad-op")
    | none => (st, "bad-op")
  | ["perms"] =>
    let all := perms (List.range st.pool.size)
    let outs := dedupSorted (all.map (outcome st.pool st.raw))
    (st, s!"n={all.length} outcomes={",".intercalate outs}")
  | _ => (st, "bad-op")

partial def loop (h : IO.FS.Stream) (out : IO.FS.Stream) (st : St) : IO Unit := do
  let line ← h.getLine
  if line.isEmpty then return ()
  let (st', o) := step st line
  out.putStrLn o
  loop h out st'

def main : IO Unit := do
  let out ← IO.getStdout
  loop (← IO.getStdin) out {}
