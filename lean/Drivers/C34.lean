import BoxoModel.C34.Model
import BoxoModel.Lib.Hex
/-! Line-protocol driver for C34 (see harness/cmd/c34/main.go for the op language). -/
open C34 Varint Proto Hex

structure PoolBlk where
  cidIdx : Nat
  data : Bytes
  sum : Option Bytes
  v0 : Bytes

structure DSt where
  cids : Array (Bytes × Bytes) := #[]     -- cid bytes, prefix bytes
  blks : Array PoolBlk := #[]
  m : Msg := {}

def bytesLt : Bytes → Bytes → Bool
  | [], [] => false
  | [], _ :: _ => true
  | _ :: _, [] => false
  | a :: x, b :: y => if a < b then true else if b < a then false else bytesLt x y

def bytesLe (a b : Bytes) : Bool := !bytesLt b a

def sortBytesBy {α : Type} (key : α → Bytes) (l : List α) : List α := l.mergeSort (fun a b => bytesLe (key a) (key b))

def b2i (b : Bool) : Nat := if b then 1 else 0

def dumpMsg (m : Msg) : String :=
  let ws := (sortBytesBy (·.cid) m.wl).map fun e => s!"{hex e.cid}:{e.prio}:{e.ty}:{b2i e.cancel}:{b2i e.sdh}"
  let bs := (sortBytesBy (·.1) m.blocks).map fun b => s!"{hex b.1}:{hex b.2}"
  let ps := (sortBytesBy (·.1) m.pres).map fun p => s!"{hex p.1}:{p.2}"
  let hv (t : Int) := ",".intercalate ((sortBytesBy id (m.presOf t)).map hex)
  s!"full={b2i m.full} pend={m.pending} wl=[{",".intercalate ws}] blk=[{",".intercalate bs}] pres=[{",".intercalate ps}] " ++
  s!"empty={b2i m.empty} size={m.size} have=[{hv 0}] dont=[{hv 1}]"

/-- the parameters observed for the pool of the case -/
def poolHash (d : DSt) : Hash :=
  { cast := fun b => d.cids.any (fun c => c.1 == b && !b.isEmpty)
    prefixOf := fun c => match d.cids.find? (fun x => x.1 == c) with | some x => x.2 | none => []
    sum := fun pfx data =>
      match d.blks.find? (fun b => (match d.cids[b.cidIdx]? with | some c => c.2 == pfx | none => false) && b.data == data) with
      | some b => b.sum
      | none => none
    sumV0 := fun data => match d.blks.find? (fun b => b.data == data) with | some b => b.v0 | none => [] }

/-- the canonical wire form: repeated fields sorted by their encodings -/
def canonPMsg (p : PMsg) : Bytes :=
  let srt (fs : List Field) : Bytes := (sortBytesBy id (fs.map Field.encode)).flatten
  (match p.wantlist with
   | some (es, f) => (Field.byts 1 (srt (es.map fun e => Field.msg 1 e.fields) ++ encodeMsg (optBool 2 f))).encode
   | none => [])
  ++ srt (p.blocks.map (Field.byts 2))
  ++ srt (p.payload.map fun b => Field.msg 3 b.fields)
  ++ srt (p.presences.map fun x => Field.msg 4 x.fields)
  ++ encodeMsg (optVarint 5 p.pendingBytes)

def netStep (H : Hash) (p : PMsg) (tag : String) : String :=
  -- what goes over the wire is re-read through the model's own wire decoder before `fromProto`
  let res := match decodePMsg (encodePMsg p) with
    | none => "undecodable"
    | some q => match fromProto H q with
      | none => "reject"
      | some m => dumpMsg m
  s!"{tag} {hex (canonPMsg p)} => {res}"

def parseInt (s : String) : Option Int := s.toInt?

/-- structured pb.Message of a `frompb` op, with the observed parameters -/
structure PBAcc where
  p : PMsg := {}
  casts : List Bytes := []
  sums : List (Bytes × Bytes × Option Bytes) := []
  v0s : List (Bytes × Bytes) := []
  bad : Bool := false

def pbTok (a : PBAcc) (t : String) : PBAcc :=
  let bad := { a with bad := true }
  match t.splitOn ":" with
  | ["N"] => a
  | ["W0"] => { a with p := { a.p with wantlist := some ([], false) } }
  | ["W1"] => { a with p := { a.p with wantlist := some ([], true) } }
  | ["E", blk, prio, canc, ty, sdh, ok] =>
    match unhex blk, parseInt prio, parseInt ty, a.p.wantlist with
    | some b, some pr, some ty, some (es, f) =>
      { a with p := { a.p with wantlist := some (es ++ [⟨b, pr, canc == "1", ty, sdh == "1"⟩], f) },
               casts := if ok == "1" then b :: a.casts else a.casts }
    | _, _, _, _ => bad
  | ["B", d, v0] =>
    match unhex d, unhex v0 with
    | some d, some v => { a with p := { a.p with blocks := a.p.blocks ++ [d] }, v0s := (d, v) :: a.v0s }
    | _, _ => bad
  | ["P", pfx, d, sum] =>
    match unhex pfx, unhex d with
    | some pf, some d =>
      let s := if sum == "!" then none else unhex sum
      { a with p := { a.p with payload := a.p.payload ++ [⟨pf, d⟩] }, sums := (pf, d, s) :: a.sums }
    | _, _ => bad
  | ["R", c, ty, ok] =>
    match unhex c, parseInt ty with
    | some c, some ty =>
      { a with p := { a.p with presences := a.p.presences ++ [⟨c, ty⟩] }, casts := if ok == "1" then c :: a.casts else a.casts }
    | _, _ => bad
  | ["pb", n] =>
    match parseInt n with
    | some n => { a with p := { a.p with pendingBytes := n } }
    | none => bad
  | _ => bad

def accHash (a : PBAcc) : Hash :=
  { cast := fun b => a.casts.contains b
    prefixOf := fun _ => []
    sum := fun pfx d => match a.sums.find? (fun x => x.1 == pfx && x.2.1 == d) with | some x => x.2.2 | none => none
    sumV0 := fun d => match a.v0s.find? (fun x => x.1 == d) with | some x => x.2 | none => [] }

def stepLine (d : DSt) (line : String) : DSt × String :=
  match (line.trimAscii.toString.splitOn " ").filter (· ≠ "") with
  | ["case", n] => ({}, s!"case {n}")
  | ["end"] => ({}, "end")
  | ["cid", _, c, p] =>
    match unhex c, unhex p with
    | some c, some p => ({ d with cids := d.cids.push (c, p) }, "ok")
    | _, _ => (d, "bad-op")
  | ["blk", _, ci, data, sum, v0] =>
    match ci.toNat?, unhex data, unhex v0 with
    | some ci, some data, some v0 =>
      ({ d with blks := d.blks.push ⟨ci, data, if sum == "!" then none else unhex sum, v0⟩ }, "ok")
    | _, _, _ => (d, "bad-op")
  | ["new", f] => let m : Msg := Msg.reset (f == "1"); ({ d with m := m }, dumpMsg m)
  | ["reset", f] => let m : Msg := Msg.reset (f == "1"); ({ d with m := m }, dumpMsg m)
  | ["entry", ci, prio, ty, sdh] =>
    match ci.toNat? >>= (d.cids[·]?), parseInt prio, parseInt ty with
    | some c, some pr, some ty =>
      let m := d.m.addEntry c.1 pr false ty (sdh == "1"); ({ d with m := m }, dumpMsg m)
    | _, _, _ => (d, "bad-op")
  | ["cancel", ci] =>
    match ci.toNat? >>= (d.cids[·]?) with
    | some c => let m := d.m.cancel c.1; ({ d with m := m }, dumpMsg m)
    | none => (d, "bad-op")
  | ["remove", ci] =>
    match ci.toNat? >>= (d.cids[·]?) with
    | some c => let m := d.m.remove c.1; ({ d with m := m }, dumpMsg m)
    | none => (d, "bad-op")
  | ["block", bi] =>
    match bi.toNat? >>= (d.blks[·]?) with
    | some b =>
      match d.cids[b.cidIdx]? with
      | some c => let m := d.m.addBlock c.1 b.data; ({ d with m := m }, dumpMsg m)
      | none => (d, "bad-op")
    | none => (d, "bad-op")
  | ["pres", ci, ty] =>
    match ci.toNat? >>= (d.cids[·]?), parseInt ty with
    | some c, some ty => let m := d.m.addPresence c.1 ty; ({ d with m := m }, dumpMsg m)
    | _, _ => (d, "bad-op")
  | ["clone"] => (d, dumpMsg d.m)
  | ["pending", n] =>
    match parseInt n with
    | some n => let m := { d.m with pending := n }; ({ d with m := m }, dumpMsg m)
    | none => (d, "bad-op")
  | ["v1"] => (d, netStep (poolHash d) (toProtoV1 (poolHash d) d.m) "v1")
  | ["v0"] => (d, netStep (poolHash d) (toProtoV0 d.m) "v0")
  | "frompb" :: wire :: toks =>
    -- the model parses the wire bytes itself (general protobuf reader); the tokens only carry what
    -- go-cid / go-multihash answered for the byte strings protobuf-go found in them
    let a : PBAcc := if toks == ["ERR"] then {} else toks.foldl pbTok {}
    if a.bad then (d, "bad-op")
    else match unhex wire with
      | none => (d, "bad-op")
      | some w =>
        match Varint.decode w with
        | none => (d, "reject")
        | some (l, payload) =>
          if l != payload.length then (d, "reject")
          else match fromWire (accHash a) payload with
            | none => (d, "reject")
            | some m => (d, dumpMsg m)
  | _ => (d, "bad-op")

partial def loop (h : IO.FS.Stream) (out : IO.FS.Stream) (d : DSt) : IO Unit := do
  let line ← h.getLine
  if line.isEmpty then return ()
  let (d', o) := stepLine d line
  out.putStrLn o
  loop h out d'

def main : IO Unit := do
  let out ← IO.getStdout
  loop (← IO.getStdin) out {}
