import BoxoModel.C35.Model
/-! Line-protocol driver for C35 (see harness/cmd/c35/main.go for the op language). -/
open C35

def tyS : WT → String
  | .block => "B"
  | .have => "H"

def sortBy (key : α → Nat) (l : List α) : List α := l.mergeSort (fun a b => decide (key a ≤ key b))

def bracket (ss : List String) : String := "[" ++ ",".intercalate ss ++ "]"

def seqOf (p : Int) : Int := 2147483647 - p

def wlS (w : WL) : String :=
  bracket ((sortBy (·.cid) w).map fun e => s!"{e.cid}:{tyS e.ty}:{seqOf e.prio}")

def atS (m : AtMap) : String := bracket ((sortBy (·.1) m).map fun x => s!"{x.1}@{x.2}")

def phNum : Phase → Nat
  | .idle => 0
  | .pre => 1
  | .snap .. => 2
  | .built .. => 3
  | .flight .. => 4

def dump (loop : Bool) (s : St) (caps : Bool := true) : String :=
  s!"pp={wlS s.q.peer.pending} ps={wlS s.q.peer.sent} bp={wlS s.q.bcst.pending} bs={wlS s.q.bcst.sent} " ++
  s!"pat={atS s.q.peer.sentAt} bat={atS s.q.bcst.sentAt} cx={bracket (s.q.cancels.map toString)} n={seqOf s.q.prio} " ++
  s!"sig={if loop || !caps then "-" else if s.sig then "1" else "0"} ph={phNum s.ph}"

/-- loop mode: the run loop takes an outstanding work signal as soon as it listens again -/
def settle (cfg : Cfg) (s : St) : St :=
  if isIdle s.ph then
    let s1 := if s.armed then step cfg s .timer else s
    if s1.sig && s1.loopOn then step cfg s1 .wake else s1
  else s

def peerS (s : St) : String := "P=" ++ bracket ((sortBy (·.cid) s.peerWL).map fun e => s!"{e.cid}:{tyS e.ty}")

def msgS (m : Msg) : String :=
  bracket ((sortBy (·.cid) m).map fun e =>
    if e.cancel then s!"{e.cid}:X" else s!"{e.cid}:{tyS e.ty}:{seqOf e.prio}:{if e.sdh then "d" else "-"}")

def parseList (t : String) : Option (List Nat) :=
  if t == "-" then some [] else (t.splitOn ",").mapM String.toNat?

def hasWork (s : St) : Bool := !s.q.peer.pending.isEmpty || !s.q.bcst.pending.isEmpty || !s.q.cancels.isEmpty

def stepA (cfg : Cfg) (loop : Bool) (s : St) : St × String :=
  if isIdleOrPre s.ph && !(loop && isIdle s.ph) then
    let s' := doSnap cfg s (snapCancels (snapQ cfg s.q))
    match s'.ph with
    | .snap pe be cs => (s', s!"A {cs.length} {pe.length} {be.length}")
    | _ => (s', "A ?")
  else (s, "noop")

def stepB (cfg : Cfg) (s : St) : St × String :=
  if isSnap s.ph then
    let s' := doFill cfg s (fillK cfg s)
    match s'.ph with
    | .built pe be cs _ => (s', s!"B {cs.length} {pe.length} {be.length}")
    | _ => (s', "B ?")
  else (s, "noop")

def stepC (s : St) : St × String :=
  if isBuilt s.ph then
    let s' := doMark s
    match s'.ph with
    | .flight _ _ msg => (s', "C " ++ msgS msg)
    | _ => (s', "C empty")
  else (s, "noop")

def stepD (s : St) : St × String :=
  if isFlight s.ph then
    let s' := doDeliver s
    (s', "D " ++ peerS s')
  else (s, "noop")

def drain (cfg : Cfg) (loop : Bool) : Nat → St → List String → St × List String
  | 0, s, ms => (s, ms)
  | fuel + 1, s0, ms =>
    let s := if loop then settle cfg s0 else s0
    if isIdle s.ph && (loop || !hasWork s) then (s, ms)
    else match s.ph with
      | .idle | .pre => drain cfg loop fuel (stepA cfg loop s).1 ms
      | .snap .. => drain cfg loop fuel (stepB cfg s).1 ms
      | .built .. =>
        let r := stepC s
        drain cfg loop fuel r.1 (if r.2 == "C empty" then ms else ms ++ [(r.2.drop 2).toString])
      | .flight .. => drain cfg loop fuel (stepD s).1 ms

abbrev DSt := Option (Cfg × St × Bool × Bool)

def lensFn (ls : List Nat) : Nat → Nat := fun i => ls.getD i 0

def stepLine (d : DSt) (line : String) : DSt × String :=
  match (line.trimAscii.toString.splitOn " ").filter (· ≠ "") with
  | ["case", n] => (none, s!"case {n}")
  | ["end"] => (none, "end")
  | "new" :: mx :: hv :: lens =>
    match mx.toNat?, lens.mapM String.toNat? with
    | some m, some ls =>
      let cfg : Cfg := { maxSize := m, supportsHave := hv == "1", cidLen := lensFn ls }
      let s : St := {}
      (some (cfg, s, false, false), "ok | " ++ dump false s false)
    | _, _ => (d, "bad-op")
  | toks =>
    match d with
    | none => (d, "bad-op")
    | some (cfg, s, loop, caps) =>
      let fin (r : St × String) : DSt × String :=
        let s' := if loop then settle cfg r.1 else r.1
        (some (cfg, s', loop, caps), r.2 ++ " | " ++ dump loop s' caps)
      match toks with
      | ["want", b, h] =>
        match parseList b, parseList h with
        | some bs, some hs => fin (addWants s bs hs, "ok")
        | _, _ => (d, "bad-op")
      | ["bcast", l] =>
        match parseList l with
        | some cs => fin (addBcast s cs, "ok")
        | none => (d, "bad-op")
      | ["cancel", l] =>
        match parseList l with
        | some cs => fin (addCancels s cs, "ok")
        | none => (d, "bad-op")
      | ["caps", _] => (some (cfg, s, loop, true), "ok | " ++ dump loop s true)
      | ["loop"] => (some (cfg, s, true, caps), "ok | " ++ dump true s caps)
      | ["resp", l] =>
        match parseList l with
        | some cs => if loop && !isIdle s.ph then fin (s, "noop") else fin (response s cs, "ok")
        | none => (d, "bad-op")
      | ["rf", k] =>
        match k.toNat? with
        | some k =>
          if isIdle s.ph then
            let s' := doRefresh s (if loop then s.clock else k)
            fin (s', if isIdle s'.ph then "rf none" else "rf pre")
          else fin (s, "noop")
        | none => (d, "bad-op")
      | ["sA"] => fin (stepA cfg loop s)
      | ["sB"] => fin (stepB cfg s)
      | ["sC"] => fin (stepC s)
      | ["sD"] => fin (stepD s)
      | ["drain"] =>
        let r := drain cfg loop 400 s []
        fin (r.1, "drain " ++ "|".intercalate r.2 ++ " " ++ peerS r.1)
      | _ => (d, "bad-op")

partial def loop (h : IO.FS.Stream) (out : IO.FS.Stream) (d : DSt) : IO Unit := do
  let line ← h.getLine
  if line.isEmpty then return ()
  let (d', o) := stepLine d line
  out.putStrLn o
  loop h out d'

def main : IO Unit := do
  let out ← IO.getStdout
  loop (← IO.getStdin) out none
