import BoxoModel.C44.Model
import BoxoModel.C04.Proto
/-! Line-protocol driver for C44 (op language: /verif/harness/cmd/c44/main.go). Models the code with the
`fix:` commit of branch verif/bsvc applied (zero batch size raised to 1). -/
open C04 C44

def keyLe (a b : Key) : Bool :=
  a.1 < b.1 || (a.1 == b.1 && (a.2.1 < b.2.1 || (a.2.1 == b.2.1 && a.2.2 ≤ b.2.2)))

def insertKey (k : Key) : List Key → List Key
  | [] => [k]
  | x :: r => if keyLe k x then k :: x :: r else x :: insertKey k r

def sortKeys (ks : List Key) : List Key := ks.foldr insertKey []

def showKey (k : Key) : String := s!"{k.1}.{k.2.1}.{k.2.2}"

structure DSt where
  cfg : Option C44.Cfg := none
  st : C44.St := { cbLive := false }
  /-- output of the prioritized key provider installed by `setprio`: a pass depends only on the streams -/
  prioKeys : Option (List C04.Cid) := none

def parseNats (t : String) : Option (List Nat) :=
  if t == "-" then some [] else (t.splitOn ",").mapM String.toNat?

/-- split the token list of `prio` at "/" ; "x" marks a failing stream -/
def splitStreams : List String → List String → Bool → List (Option (List String))
  | [], cur, failing => [if failing then none else some cur.reverse]
  | "/" :: r, cur, failing => (if failing then none else some cur.reverse) :: splitStreams r [] false
  | "x" :: r, cur, _ => splitStreams r cur true
  | t :: r, cur, failing => splitStreams r (t :: cur) failing

def step (s : DSt) (ln : String) : DSt × String :=
  match (ln.trimAscii.toString.splitOn " ").filter (· ≠ "") with
  | ["case", n] => ({}, s!"case {n}")
  | ["end"] => ({}, "end")
  | "new" :: many :: mb :: cb :: al =>
    match Proto.parseAl (al.length + 1) al, (if mb == "-" then some (2 ^ 64 - 1) else mb.toNat?),
        (if cb == "-" then some 0 else cb.toNat?) with
    | some (al, _), some mb, some thr =>
      -- New: a router without ProvideMany forces the batch size to 1
      -- many: 0 single-provide, 1 ProvideMany, 2 single-provide + Ready, 3 ProvideMany + Ready
      let isMany := many == "1" || many == "3"
      let mb := if isMany then mb else 1
      ({ cfg := some { al := al, maxBatch := mb, thr := thr, many := isMany, hasReady := many == "2" || many == "3" },
         st := { cbLive := cb != "-" } }, "ok")
    | _, _, _ => (s, "bad-op")
  | ["reprovk", fail, stop] =>
    match s.cfg, parseNats fail, parseNats stop, s.prioKeys with
    | some cfg, some fail, some stop, some ks =>
      match reprovide cfg s.st ks (fun i => !fail.contains i) (fun i => !stop.contains i) with
      | some (st, evs) =>
        let calls := evs.filterMap fun | .prov ks => some (",".intercalate ((sortKeys ks).map showKey)) | _ => none
        let cbs := evs.filterMap fun | .cb c n => some s!"{c}:{n}" | _ => none
        ({ s with st := st }, s!"ret=nil calls=[{";".intercalate calls}] cbs=[{",".intercalate cbs}]")
      | none => (s, "ret=hang calls=[] cbs=[]")
    | _, _, _, _ => (s, "bad-op")
  | "reprov" :: fail :: stop :: ks =>
    match s.cfg, parseNats fail, parseNats stop, ks.mapM Proto.parseCid with
    | some cfg, some fail, some stop, some ks =>
      match reprovide cfg s.st ks (fun i => !fail.contains i) (fun i => !stop.contains i) with
      | some (st, evs) =>
        let calls := evs.filterMap fun | .prov ks => some (",".intercalate ((sortKeys ks).map showKey)) | _ => none
        let cbs := evs.filterMap fun | .cb c n => some s!"{c}:{n}" | _ => none
        ({ s with st := st }, s!"ret=nil calls=[{";".intercalate calls}] cbs=[{",".intercalate cbs}]")
      | none => (s, "ret=hang calls=[] cbs=[]")
    | _, _, _, _ => (s, "bad-op")
  | ["reprov-kperr"] =>
    match s.cfg with
    | some cfg =>
      match reprovideE cfg s.st (some .kpErr) [] (fun _ => true) (fun _ => true) with
      | some (st, _, _) => ({ s with st := st }, "ret=err calls=[] cbs=[]")
      | none => (s, "ret=hang calls=[] cbs=[]")
    | none => (s, "bad-op")
  | "reprov-cancel" :: _ =>
    match s.cfg with
    | some cfg =>
      match reprovideE cfg s.st (some .cancelled) [] (fun _ => true) (fun _ => true) with
      | some (st, _, _) => ({ s with st := st }, "ret=err calls=[] cbs=[]")
      | none => (s, "ret=hang calls=[] cbs=[]")
    | none => (s, "bad-op")
  | ["stat"] =>
    match s.cfg with
    | some _ => (s, s!"total={s.st.total} last={s.st.lastBatch} ready={s.st.readyCalls}")
    | none => (s, "bad-op")
  | "concat" :: ts =>
    match (splitStreams ts [] false).mapM (fun st => match st with
        | none => some none
        | some toks => (toks.mapM Proto.parseCid).map some) with
    | some streams => (s, s!"out=[{",".intercalate ((concat streams).map Proto.showCid)}]")
    | none => (s, "bad-op")
  | "buffered" :: ts =>
    match ts.mapM Proto.parseCid with
    | some ks => (s, s!"out=[{",".intercalate ((buffered ks).map Proto.showCid)}]")
    | none => (s, "bad-op")
  | "prio" :: ts =>
    match (splitStreams ts [] false).mapM (fun st => match st with
        | none => some none
        | some toks => (toks.mapM Proto.parseCid).map some) with
    | some streams =>
      let o := s!"[{",".intercalate ((prioritized streams).map Proto.showCid)}]"
      (s, s!"out={o} again={o}")   -- every invocation of the KeyChanFunc behaves like the first
    | none => (s, "bad-op")
  | "setprio" :: ts =>
    match s.cfg, (splitStreams ts [] false).mapM (fun st => match st with
        | none => some none
        | some toks => (toks.mapM Proto.parseCid).map some) with
    | some _, some streams =>
      let o := s!"[{",".intercalate ((prioritized streams).map Proto.showCid)}]"
      ({ s with prioKeys := some (prioritized streams) }, s!"out={o} again={o}")
    | _, _ => (s, "bad-op")
  | _ => (s, "bad-op")

partial def loop (h : IO.FS.Stream) (out : IO.FS.Stream) (s : DSt) : IO Unit := do
  let ln ← h.getLine
  if ln.isEmpty then return ()
  let (s', o) := step s ln
  out.putStrLn o
  loop h out s'

def main : IO Unit := do
  loop (← IO.getStdin) (← IO.getStdout) {}
