import BoxoModel.C14.Model
/-! Line-protocol driver for C14 (dagutils.Diff / ApplyChange). Ops:

  pair <treeA> <treeB>     tree ::= data | data[name:tree,name:tree,…]   (names strictly increasing)
     output: self=<#changes of Diff(a,a)> changes=<c;c;…|-> apply=<ok|err> eq=<0|1> good=<0|1>
     change ::= A:<path>=<tree> | R:<path>=<tree> | M:<path>=<before>><after>     path ::= name/name/…
-/
open C14

mutual
partial def showT : T → String
  | .n d .nil => toString d
  | .n d k => toString d ++ "[" ++ ",".intercalate (showF k) ++ "]"
partial def showF : F → List String
  | .nil => []
  | .cons m t r => (toString m ++ ":" ++ showT t) :: showF r
end

def readNat (cs : List Char) : Option (Nat × List Char) :=
  let ds := cs.takeWhile Char.isDigit
  if ds.isEmpty then none else some ((String.ofList ds).toNat!, cs.dropWhile Char.isDigit)

mutual
partial def parseT (cs : List Char) : Option (T × List Char) := do
  let (d, r) ← readNat cs
  match r with
  | '[' :: r' =>
    let (k, r'') ← parseF r'
    pure (.n d k, r'')
  | _ => pure (.n d .nil, r)
partial def parseF (cs : List Char) : Option (F × List Char) := do
  let (m, r) ← readNat cs
  match r with
  | ':' :: r1 =>
    let (t, r2) ← parseT r1
    match r2 with
    | ',' :: r3 =>
      let (rest, r4) ← parseF r3
      pure (.cons m t rest, r4)
    | ']' :: r3 => pure (.cons m t .nil, r3)
    | _ => none
  | _ => none
end

def parseTree (s : String) : Option T :=
  match parseT s.toList with
  | some (t, []) => some t
  | _ => none

def showPath (p : List Nat) : String := "/".intercalate (p.map toString)

def showCh : Ch → String
  | .add p a => s!"A:{showPath p}={showT a}"
  | .rm p b => s!"R:{showPath p}={showT b}"
  | .mod p b a => s!"M:{showPath p}={showT b}>{showT a}"

def step (line : String) : String :=
  match (line.trimAscii.toString.splitOn " ").filter (· ≠ "") with
  | ["case", n] => s!"case {n}"
  | ["end"] => "end"
  | ["pair", a_, b_] =>
    match parseTree a_, parseTree b_ with
    | some a, some b =>
      if (a_.splitOn ":").any (fun x => x.endsWith "9001" || x.endsWith "9002" || x.endsWith "9003")
          || (b_.splitOn ":").any (fun x => x.endsWith "9001" || x.endsWith "9002" || x.endsWith "9003") then "unmodelled" else
      if a.raw then "bad-op" else   -- ApplyChange needs a ProtoNode root
      let cs := diff a b
      let r := applyAll a cs
      let ap := match r with | some _ => "ok" | none => "err"
      let eq := match r with | some t => if t = b then 1 else 0 | none => 0
      let chs := if cs.isEmpty then "-" else ";".intercalate (cs.map showCh)
      s!"self={(diff a a).length} changes={chs} apply={ap} eq={eq} good={if goodB a b then 1 else 0}"
    | _, _ => "bad-op"
  | _ => "bad-op"

partial def loopIO (h : IO.FS.Stream) (out : IO.FS.Stream) : IO Unit := do
  let line ← h.getLine
  if line.isEmpty then return ()
  out.putStrLn (step line)
  loopIO h out

def main : IO Unit := do
  let out ← IO.getStdout
  loopIO (← IO.getStdin) out
