import BoxoModel.C24.Model
/-! Line-protocol driver for C24 (see /verif/docs/HOWTO.md).
ops:  ns <name>            (index name = namespace prefix, e.g. "/" or "/pins/index")
      add <k> <v> | del <k> <v> | delkey <k> | delall | search <k> | hasv <k> <v> | hasany <k> |
      foreach <k> | dump | radd <k> <v> | rdel <k> <v> | rdump | sync   (r*: reference index "/ref";
      sync = SyncIndex(reference, this index))          (k, v: hex, "-" = empty string) -/
open C24 BaseN

def hexVal (c : Char) : Option Nat :=
  if '0' ≤ c ∧ c ≤ '9' then some (c.toNat - '0'.toNat)
  else if 'a' ≤ c ∧ c ≤ 'f' then some (c.toNat - 'a'.toNat + 10)
  else none

def unhexL : List Char → Option Bytes
  | [] => some []
  | a :: b :: r => do
    let x ← hexVal a
    let y ← hexVal b
    let t ← unhexL r
    pure (UInt8.ofNat (x * 16 + y) :: t)
  | _ => none

def unhex (s : String) : Option Bytes := if s == "-" then some [] else unhexL s.toList

def hexDigit (n : Nat) : Char := if n < 10 then Char.ofNat (48 + n) else Char.ofNat (87 + n)
def hex (b : Bytes) : String :=
  if b.isEmpty then "-" else String.ofList (b.flatMap fun x => [hexDigit (x.toNat / 16), hexDigit (x.toNat % 16)])

def sortStrings (l : List String) : List String := (l.toArray.qsort (· < ·)).toList

def showOut : Out → String
  | .ok => "ok"
  | .errEmptyKey => "empty-key"
  | .errEmptyValue => "empty-value"
  | .errDecode => "error"
  | .count n => s!"count {n}"
  | .bool b => toString b
  | .values l => "values " ++ ",".intercalate (sortStrings (l.map hex))
  | .pairs l => "pairs " ++ ",".intercalate (sortStrings (l.map fun (k, v) => hex k ++ ":" ++ hex v))

structure St where
  ns : Key := ['/']
  s : Store := []
  /-- a second, reference index (name "/ref", its own datastore) for SyncIndex -/
  sR : Store := []

def nsR : Key := "/ref".toList

def doOpR (st : St) (op : Option Op) : St × String :=
  match op with
  | none => (st, "bad-op")
  | some op => let r := step nsR st.sR op; ({ st with sR := r.1 }, showOut r.2)

def doOp (st : St) (op : Option Op) : St × String :=
  match op with
  | none => (st, "bad-op")
  | some op => let r := step st.ns st.s op; ({ st with s := r.1 }, showOut r.2)

def stepLine (st : St) (line : String) : St × String :=
  match (line.trimAscii.toString.splitOn " ").filter (· ≠ "") with
  | ["case", n] => ({}, s!"case {n}")
  | ["end"] => ({}, "end")
  | ["ns", name] => ({ ns := name.toList, s := [] }, "ok")
  | ["add", k, v] => doOp st (do pure (.add (← unhex k) (← unhex v)))
  | ["del", k, v] => doOp st (do pure (.delete (← unhex k) (← unhex v)))
  | ["delkey", k] => doOp st (do pure (.deleteKey (← unhex k)))
  | ["delall"] => doOp st (some .deleteAll)
  | ["search", k] => doOp st (do pure (.search (← unhex k)))
  | ["hasv", k, v] => doOp st (do pure (.hasValue (← unhex k) (← unhex v)))
  | ["hasany", k] => doOp st (do pure (.hasAny (← unhex k)))
  | ["foreach", k] => doOp st (do pure (.forEach (← unhex k)))
  | ["radd", k, v] => doOpR st (do pure (.add (← unhex k) (← unhex v)))
  | ["rdel", k, v] => doOpR st (do pure (.delete (← unhex k) (← unhex v)))
  | ["rdump"] => (st, "dump " ++ ";".intercalate (sortStrings (st.sR.map String.ofList)))
  | ["sync"] =>
    let r := syncIndex st.ns st.s (decodeEntries (queryPrefix nsR st.sR []))
    ({ st with s := r.1 }, match r.2 with | .changed b => s!"changed {b}" | .error => "error")
  | ["dump"] => (st, "dump " ++ ";".intercalate (sortStrings (st.s.map String.ofList)))
  | _ => (st, "bad-op")

partial def loop (h : IO.FS.Stream) (out : IO.FS.Stream) (st : St) : IO Unit := do
  let line ← h.getLine
  if line.isEmpty then return ()
  let (st', o) := stepLine st line
  out.putStrLn o
  loop h out st'

def main : IO Unit := do
  let out ← IO.getStdout
  loop (← IO.getStdin) out {}
