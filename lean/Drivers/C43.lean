import BoxoModel.C43.Model
/-! Line-protocol driver for C43 (see /verif/docs/HOWTO.md for the protocol conventions).
Run: `lake env lean --run Drivers/C43.lean < ops.txt > model.out` -/
open C43

def mapFn : String → Option (Int → Int)
  | "add1" => some (· + 1)
  | "dbl" => some (· * 2)
  | "neg" => some (fun x => -x)
  | "sub3" => some (· - 3)
  | "const7" => some (fun _ => 7)
  | "tmod5" => some (fun x => Int.tmod x 5)
  | _ => none

def predFn : String → Option (Int → Bool)
  | "even" => some (fun x => x % 2 == 0)
  | "odd" => some (fun x => x % 2 != 0)
  | "pos" => some (fun x => x > 0)
  | "lt3" => some (fun x => x < 3)
  | "none" => some (fun _ => false)
  | "all" => some (fun _ => true)
  | _ => none

/-- prefix notation: `limit <n> <shape>` | `map <f> <shape>` | `filter <p> <shape>` | `src` -/
def parseShape : Nat → List String → Option (Shape × List String)
  | 0, _ => none
  | _ + 1, "src" :: r => some (.src, r)
  | fuel + 1, "map" :: f :: r => do
    let f ← mapFn f
    let (s, r') ← parseShape fuel r
    pure (.map f s, r')
  | fuel + 1, "filter" :: p :: r => do
    let p ← predFn p
    let (s, r') ← parseShape fuel r
    pure (.filter p s, r')
  | fuel + 1, "limit" :: n :: r => do
    let n ← n.toInt?
    let (s, r') ← parseShape fuel r
    pure (.limit n s, r')
  | _, _ => none

inductive Cur where
  | none
  | it (sh : Shape) (st : State sh)
  | json (j : JIt Int)
  | jsonL (j : JIt (List Int))     -- JSONIter[[]int]

def parseInts (ts : List String) : Option (List Int) := ts.mapM String.toInt?
def parseToks (ts : List String) : Option (List (Option Int)) :=
  ts.mapM fun t => if t == "x" then some none else (t.toInt?).map some
/-- list-valued tokens: `x` malformed, `e` the empty array, otherwise comma-separated ints -/
def parseLToks (ts : List String) : Option (List (Option (List Int))) :=
  ts.mapM fun t =>
    if t == "x" then some none
    else if t == "e" then some (some [])
    else ((t.splitOn ",").mapM String.toInt?).map some

def showList (xs : List Int) : String := "[" ++ ",".intercalate (xs.map toString) ++ "]"

/-- state in which ReadAllResults leaves a JSONIter: Next until it returns false or yields an error -/
def jdrain {α : Type} : Nat → JIt α → JIt α
  | 0, j => j
  | f + 1, j => let r := j.next; if r.2 && !r.1.err then jdrain f r.1 else r.1

def step (c : Cur) (line : String) : Cur × String :=
  match (line.trimAscii.toString.splitOn " ").filter (· ≠ "") with
  | ["case", n] => (.none, s!"case {n}")
  | ["end"] => (.none, "end")
  | "new" :: ts =>
    match parseShape (ts.length + 1) ts with
    | some (sh, r) =>
      match parseInts r with
      | some xs => (.it sh (fresh xs sh), "ok")
      | none => (c, "bad-op")
    | none => (c, "bad-op")
  | "jnew" :: ts =>
    match parseToks ts with
    | some toks => (.json (JIt.fresh 0 toks), "ok")
    | none => (c, "bad-op")
  | "jlnew" :: ts =>
    match parseLToks ts with
    | some toks => (.jsonL (JIt.fresh [] toks), "ok")
    | none => (c, "bad-op")
  | ["next"] =>
    match c with
    | .it sh st => let r := next sh st; (.it sh r.1, toString r.2)
    | .json j => let r := j.next; (.json r.1, toString r.2)
    | .jsonL j => let r := j.next; (.jsonL r.1, toString r.2)
    | .none => (c, "bad-op")
  | ["val"] =>
    match c with
    | .it sh st => (c, toString (val sh st))
    | .json j => (c, if j.err then "err" else toString j.val)
    | .jsonL j => (c, if j.err then "err" else showList j.val)
    | .none => (c, "bad-op")
  | ["close"] =>
    match c with
    | .it sh st => let st' := close sh st; (.it sh st', s!"closes={(source sh st').closes}")
    | .json j => (.json j.close, "closed")
    | .jsonL j => (.jsonL j.close, "closed")
    | .none => (c, "bad-op")
  | ["stat"] =>
    match c with
    | .it sh st => (c, s!"nexts={(source sh st).nexts} closes={(source sh st).closes}")
    | _ => (c, "bad-op")
  | ["rares"] =>   -- ReadAllResults(ToResultIter(it)): the drain loop without Close
    match c with
    | .it sh st =>
      let r := drain sh (remaining sh st + 1) st
      (.it sh r.1, s!"{showList r.2} nexts={(source sh r.1).nexts} closes={(source sh r.1).closes}")
    | .json j =>
      match JIt.readAllResults (j.toks.length + 1) j 0 [] with
      | .inl vs => (.json (jdrain (j.toks.length + 1) j), showList vs)
      | .inr i => (.json (jdrain (j.toks.length + 1) j), s!"err@{i}")
    | .jsonL j =>
      match JIt.readAllResults (j.toks.length + 1) j 0 [] with
      | .inl vs => (.jsonL (jdrain (j.toks.length + 1) j), "[" ++ ",".intercalate (vs.map showList) ++ "]")
      | .inr i => (.jsonL (jdrain (j.toks.length + 1) j), s!"err@{i}")
    | .none => (c, "bad-op")
  | ["readall"] =>
    match c with
    | .it sh st =>
      let r := readAll sh st
      (.it sh r.1, s!"{showList r.2} nexts={(source sh r.1).nexts} closes={(source sh r.1).closes}")
    | _ => (c, "bad-op")
  | _ => (c, "bad-op")

partial def loop (h : IO.FS.Stream) (out : IO.FS.Stream) (c : Cur) : IO Unit := do
  let line ← h.getLine
  if line.isEmpty then return ()
  let (c', o) := step c line
  out.putStrLn o
  loop h out c'

def main : IO Unit := do
  let out ← IO.getStdout
  loop (← IO.getStdin) out .none
