import BoxoModel.C15.Exec
/-! Line-protocol driver for C16: the directory model is shared with C15 (BoxoModel/C15/Model.lean);
the C16 harness (cmd/c16) adds the boundary-seeking generator and the `fresh` comparisons.
Run: `lake env lean --run Drivers/C16.lean < ops.txt > model.out` -/
def main : IO Unit := C15.Exec.main
