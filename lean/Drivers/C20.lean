import BoxoModel.C20.Model
/-! Line-protocol driver for C20 (ops documented in /verif/harness/cmd/c20/main.go).
Files 0,1 live in /d, file 2 in /. Four workers. The refusal rules are those of the harness (an op that would
only wait for a descriptor, or that would touch a file while a goroutine is parked inside File.Mode, is not issued). -/
open C20

structure D where
  s : St := { sub := fun f => f < 2 }
  modePark : Option (Nat × Nat × Bool) := none   -- worker, file, is Mode (not ModTime)
  chmodBlk : Option (Nat × Nat × Nat) := none    -- worker, file, mode
  /-- a SetMode whose upward propagation is paused at `updateChildEntry:localDone`: worker, the directory node it
  carries, and whether the root directory's local update is already done (else only /d's) -/
  chFlight : Option (Nat × View × Bool) := none
  mdir : Bool := false   -- the scratch directory /m of `mvprobe` exists (it shows up in listings of /)
  sym : Bool := false    -- the symlink /s of `symopen` exists

def nW : Nat := 4

def tok (v : Nat) : String :=
  let d := toString (v % 10000)
  String.ofList (List.replicate (4 - d.length) '0') ++ d

def octal (n : Nat) : String := String.ofList (Nat.toDigits 8 n)

def parseOct (t : String) : Option Nat :=
  t.foldl (fun acc c => acc.bind fun a => if c.toNat ≥ 48 && c.toNat < 56 then some (a * 8 + (c.toNat - 48)) else none) (some 0)

def rootListing (d : D) : String :=
  "c:4,d:0" ++ (if d.mdir then ",m:0" else "") ++ (if d.sym then ",s:4" else "")

def busy (d : D) (w : Nat) : Bool :=
  (d.s.ws w).stage.isSome || (d.modePark.map (·.1)) == some w || (d.chmodBlk.map (·.1)) == some w ||
  (d.chFlight.map (·.1)) == some w

/-- continue a paused SetMode of worker `w`: next local update (pausing again if `park`), then publish -/
def resumeChmod (d : D) (w : Nat) (snap : View) (atRoot : Bool) (park : Bool) : D × List (Nat × String) :=
  if atRoot then ({ d with s := { d.s with pub := some snap }, chFlight := none }, [(w, "ok")])
  else
    let (s1, snap') := localRootDir d.s snap
    if park then ({ d with s := s1, chFlight := some (w, snap', true) }, [])
    else ({ d with s := { s1 with pub := some snap' }, chFlight := none }, [(w, "ok")])

/-- start SetMode: node set, first local update; pauses there if `park` -/
def startChmod (d : D) (w f m : Nat) (park : Bool) : D × List (Nat × String) :=
  if !park then ({ d with s := chmod d.s f m }, [(w, "ok")]) else
  let s := { d.s with fmode := upd d.s.fmode f m }
  if s.sub f then
    let (s1, snap) := localSub s f (s.fnode f)
    ({ d with s := s1, chFlight := some (w, snap, false) }, [])
  else
    let (s1, snap) := localRootFile s f (s.fnode f)
    ({ d with s := s1, chFlight := some (w, snap, true) }, [])

def status (d : D) (done : List (Nat × String)) : String :=
  " ".intercalate <| (List.range nW).map fun w =>
    match done.find? (·.1 == w) with
    | some (_, r) => s!"w{w}=done:{r}"
    | none =>
      if (d.s.ws w).stage.isSome || (d.modePark.map (·.1)) == some w || (d.chFlight.map (·.1)) == some w then s!"w{w}=parked"
      else if (d.chmodBlk.map (·.1)) == some w then s!"w{w}=blocked"
      else s!"w{w}=idle"

/-- result: new driver state, the op's own answer, workers that completed in this op -/
def doOp (d : D) (ts : List String) : Option (D × String × List (Nat × String)) :=
  let refused : Option (D × String × List (Nat × String)) := some (d, "refused", [])
  match ts with
  | ["open", w, f, k] => do
    let w := (← w.toNat?) % nW
    let f ← f.toNat?
    if busy d w || (d.s.ws w).fd.isSome || d.modePark.isSome || writerOf d.s nW f || (k != "r" && readersOf d.s nW f) then refused
    else some ({ d with s := openFd d.s w f (k != "r") (k == "s") }, "started", [(w, "ok")])
  | ["write", w, v] => do
    let w := (← w.toNat?) % nW
    let v ← v.toNat?
    match (d.s.ws w).fd with
    | some fd => if busy d w || !fd.write then refused else some ({ d with s := writeFd d.s w (v % 10000) }, "started", [(w, "ok")])
    | none => refused
  | ["touch", w, f] => do
    let w := (← w.toNat?) % nW
    let f ← f.toNat?
    if busy d w || anyFd d.s nW || d.chmodBlk.isSome || d.chFlight.isSome || d.modePark.isSome then refused
    else some ({ d with s := chmod d.s f (d.s.fmode f) }, "started", [(w, "ok")])   -- new node, same content and mode: full propagation
  | ["fflush", w, f] => do
    let w := (← w.toNat?) % nW
    let f ← f.toNat?
    if busy d w || (d.s.ws w).fd.isSome || d.modePark.isSome || writerOf d.s nW f || readersOf d.s nW f then refused else
    -- File.Flush = Open(Write, Sync); Flush; Close
    let s1 := openFd d.s w f true true
    let s2 := runUntil "-" 12 (beginFlush s1 w false) w
    let s3 := runUntil "-" 12 (beginFlush s2 w true) w
    some ({ d with s := s3 }, "started", [(w, "ok")])
  | ["fsync", w, f] => do
    let w := (← w.toNat?) % nW
    let f ← f.toNat?
    if busy d w || (d.s.ws w).fd.isSome || d.modePark.isSome || writerOf d.s nW f || readersOf d.s nW f then refused
    else some (d, "started", [(w, "ok")])
  | ["symopen", w] => do
    let w := (← w.toNat?) % nW
    if busy d w || d.modePark.isSome then refused
    else some ({ d with sym := true }, "started", [(w, "open-refused")])   -- File.Open refuses a symlink and gives the descriptor lock back
  | ["mvprobe", w, _] => do
    let w := (← w.toNat?) % nW
    if busy d w || d.modePark.isSome then refused else
    -- code as it is (known finding write-lost-after-mv): the File object the descriptor writes to hangs below the
    -- unlinked directory object; nothing reaches the tree, neither path shows the write. The probe reads the flushed
    -- root (GetNode of /), which synchronises all link tables.
    some ({ d with s := rootGetNode d.s, mdir := true }, "started", [(w, "missing,0000,missing,0000")])
  | [op, w, p] =>
    if op == "flush" || op == "close" then do
      let w := (← w.toNat?) % nW
      if busy d w || (d.s.ws w).fd.isNone then refused else
      let s := runUntil p 12 (beginFlush d.s w (op == "close")) w
      some ({ d with s := s }, "started", if (s.ws w).stage.isNone then [(w, "ok")] else [])
    else if op == "resume" then do
      let w := (← w.toNat?) % nW
      if let some (cw, snap, atRoot) := d.chFlight then
        if cw == w then
          let (d', done) := resumeChmod d w snap atRoot (p == "l")
          return (d', "started", done)
      match d.modePark with
      | some (mw, mf, isMode) =>
        if mw != w then (if (d.s.ws w).stage.isSome then
            let s := runUntil p 12 d.s w
            some ({ d with s := s }, "started", if (s.ws w).stage.isNone then [(w, "ok")] else [])
          else refused)
        else
          let r := if isMode then octal (d.s.fmode mf % 4096) else "ok"
          match d.chmodBlk with
          | some (cw, cf, cm) => some ({ d with s := chmod d.s cf cm, modePark := none, chmodBlk := none }, "started", [(w, r), (cw, "ok")])
          | none => some ({ d with modePark := none }, "started", [(w, r)])
      | none =>
        if (d.s.ws w).stage.isSome then
          let s := runUntil p 12 d.s w
          some ({ d with s := s }, "started", if (s.ws w).stage.isNone then [(w, "ok")] else [])
        else refused
    else if op == "cat" then do
      let w' := (← w.toNat?) % nW
      let f ← p.toNat?
      if busy d w' || d.modePark.isSome || writerOf d.s nW f then refused
      else some (d, "started", [(w', tok (d.s.fnode f))])
    else if op == "rootcat" then do
      let w' := (← w.toNat?) % nW
      let f ← p.toNat?
      if busy d w' || d.modePark.isSome then refused
      else some ({ d with s := rootGetNode d.s }, "started", [(w', tok (d.s.fnode f))])
    else none
  | ["rootflush", w] => do
    let w := (← w.toNat?) % nW
    if busy d w || d.modePark.isSome then refused
    else some ({ d with s := rootGetNode d.s }, "started", [(w, "ok")])
  | ["lsnames", w] => do
    let w := (← w.toNat?) % nW
    if busy d w || d.modePark.isSome then refused
    else some (d, "started", [(w, "a,b")])
  | ["seek", w] => do
    let w := (← w.toNat?) % nW
    if busy d w || (d.s.ws w).fd.isNone then refused else some (d, "started", [(w, "ok")])
  | ["trunc", w] => do
    let w := (← w.toNat?) % nW
    match (d.s.ws w).fd with
    | some fd =>
      if busy d w || !fd.write then refused
      else some ({ d with s := setWorker d.s w { (d.s.ws w) with fd := some { fd with st := .dirty } } }, "started", [(w, "ok")])   -- Truncate marks the descriptor dirty; same content
    | none => refused
  | ["size", w] => do
    let w := (← w.toNat?) % nW
    if busy d w || (d.s.ws w).fd.isNone then refused else some (d, "started", [(w, "4")])
  | ["fdread", w] => do
    let w := (← w.toNat?) % nW
    match (d.s.ws w).fd with
    | some fd => if busy d w || fd.write then refused else some (d, "started", [(w, tok fd.buf)])
    | none => refused
  | ["ls", w] => do
    let w := (← w.toNat?) % nW
    if busy d w || d.modePark.isSome then refused
    else some ({ d with s := listRoot d.s }, "started", [(w, rootListing d ++ ";a:4,b:4")])
  | ["pubcat", f] => do
    let f ← f.toNat?
    match d.s.pub with
    | none => some (d, "none", [])
    | some v => some (d, tok (v f), [])
  | ["chmod", w, f, m, pk] => do
    let w := (← w.toNat?) % nW
    let f ← f.toNat?
    let m ← parseOct m
    if busy d w || anyFd d.s nW || d.chmodBlk.isSome || d.chFlight.isSome then refused else
    match d.modePark with
    | some (_, mf, _) => if mf == f then some ({ d with chmodBlk := some (w, f, m) }, "started", [])
                         else some ({ d with s := chmod d.s f m }, "started", [(w, "ok")])
    | none =>
      let (d', done) := startChmod d w f m (pk == "l")
      some (d', "started", done)
  | ["lschmod", w, f, m] => do
    let w := (← w.toNat?) % nW
    let f ← f.toNat?
    let m ← parseOct m
    if busy d w || d.modePark.isSome || anyFd d.s nW || d.chmodBlk.isSome || d.chFlight.isSome then refused else
    -- listing the root directory calls /d's GetNode (link sync of /d) before the SetMode can get the directory lock
    let s0 := if f < 2 then d.s else listRoot d.s
    some ({ d with s := chmod s0 f m }, "started", [(w, (if f < 2 then "a:4,b:4" else rootListing d) ++ "/ok")])
  | [op, w, f, p] =>
    if op == "mode" || op == "mtime" then do
      let w := (← w.toNat?) % nW
      let f ← f.toNat?
      if busy d w || d.modePark.isSome || anyFd d.s nW then refused else
      let isMode := op == "mode"
      if (isMode && p == "p") || (!isMode && p == "q") then some ({ d with modePark := some (w, f, isMode) }, "started", [])
      else some (d, "started", [(w, if isMode then octal (d.s.fmode f % 4096) else "ok")])
    else if op == "chmod" then do
      let w := (← w.toNat?) % nW
      let f ← f.toNat?
      let m ← parseOct p
      if busy d w || anyFd d.s nW || d.chmodBlk.isSome || d.chFlight.isSome then refused else
      match d.modePark with
      | some (_, mf, _) => if mf == f then some ({ d with chmodBlk := some (w, f, m) }, "started", [])
                           else some ({ d with s := chmod d.s f m }, "started", [(w, "ok")])
      | none => some ({ d with s := chmod d.s f m }, "started", [(w, "ok")])
    else none
  | _ => none

def stepLine (d : D) (line : String) : D × String :=
  match (line.trimAscii.toString.splitOn " ").filter (· ≠ "") with
  | ["case", n] => ({}, s!"case {n}")
  | ["end"] => ({}, "end")
  | ts =>
    match doOp d ts with
    | none => (d, "bad-op")
    | some (d', res, done) => (d', s!"{res} {status d' done}")

partial def loop (h : IO.FS.Stream) (out : IO.FS.Stream) (d : D) : IO Unit := do
  let line ← h.getLine
  if line.isEmpty then return ()
  let (d', o) := stepLine d line
  out.putStrLn o
  loop h out d'

def main : IO Unit := do
  let out ← IO.getStdout
  loop (← IO.getStdin) out {}
