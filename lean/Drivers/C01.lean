import BoxoModel.C01.Model
/-! Line-protocol driver for C01 (see /verif/docs/HOWTO.md).
ops:  cfg <wt 0|1> <noPrefix 0|1> <idWrap 0|1>
      put <cid> <datahex> | putmany <cid> <datahex> ... | del <cid> | get <cid> | has <cid> |
      size <cid> | view <cid> | keys | dump
cid:  d:<ver>:<codec>:<mhhex>  or  u:1:0:-   (undefined CID) -/
open C01 BaseN

def hexVal (c : Char) : Option Nat :=
  if '0' ≤ c ∧ c ≤ '9' then some (c.toNat - '0'.toNat)
  else if 'a' ≤ c ∧ c ≤ 'f' then some (c.toNat - 'a'.toNat + 10)
  else none

def unhexL : List Char → Option Bytes
  | [] => some []
  | a :: b :: r => do
    let x ← hexVal a
    let y ← hexVal b
    let t ← unhexL r
    pure (UInt8.ofNat (x * 16 + y) :: t)
  | _ => none

def unhex (s : String) : Option Bytes := if s == "-" then some [] else unhexL s.toList

def hexDigit (n : Nat) : Char := if n < 10 then Char.ofNat (48 + n) else Char.ofNat (87 + n)
def hex (b : Bytes) : String :=
  if b.isEmpty then "-" else String.ofList (b.flatMap fun x => [hexDigit (x.toNat / 16), hexDigit (x.toNat % 16)])

def parseCid (s : String) : Option Cid :=
  match s.splitOn ":" with
  | [d, v, c, m] => do
    let mh ← unhex m
    pure { defined := d == "d", ver := (← v.toNat?), codec := (← c.toNat?), mh := mh }
  | _ => none

def parseBlks : List String → Option (List Blk)
  | [] => some []
  | c :: d :: r => do
    let cid ← parseCid c
    let data ← unhex d
    let t ← parseBlks r
    pure ({ cid := cid, data := data } :: t)
  | _ => none

def sortStrings (l : List String) : List String := (l.toArray.qsort (· < ·)).toList

def showOut : Out → String
  | .ok => "ok"
  | .data d => s!"data {hex d}"
  | .notfound => "notfound"
  | .bool b => toString b
  | .size n => s!"size {n}"
  | .keys l => "keys " ++ ",".intercalate (sortStrings (l.map hex))
  | .noview => "noview"

def showDump (s : Store) : String :=
  "dump " ++ ";".intercalate (sortStrings (s.map fun (k, v) => String.ofList k ++ "=" ++ hex v))

structure St where
  cfg : Cfg := { writeThrough := false, noPrefix := false, idWrap := false }
  s : Store := []

def showProvided (calls : List (List Bytes)) : String :=
  " prov=" ++ "|".intercalate (calls.map fun c => ",".intercalate (c.map hex))

def doOp (st : St) (op : Option Op) : St × String :=
  match op with
  | none => (st, "bad-op")
  | some op =>
    let r := step st.cfg st.s op
    let pv := match op with
      | .put _ | .putMany _ => if st.cfg.provider then showProvided (provided st.cfg st.s op) else ""
      | _ => ""
    ({ st with s := r.1 }, showOut r.2 ++ pv)

def stepLine (st : St) (line : String) : St × String :=
  match (line.trimAscii.toString.splitOn " ").filter (· ≠ "") with
  | ["case", n] => ({}, s!"case {n}")
  | ["end"] => ({}, "end")
  | ["cfg", a, b, c] => ({ cfg := { writeThrough := a == "1", noPrefix := b == "1", idWrap := c == "1" }, s := [] }, "ok")
  | ["cfg", a, b, c, p] =>
    ({ cfg := { writeThrough := a == "1", noPrefix := b == "1", idWrap := c == "1", provider := p == "1" }, s := [] }, "ok")
  | ["put", c, d] => doOp st (do pure (.put { cid := (← parseCid c), data := (← unhex d) }))
  | "putmany" :: r => doOp st (do pure (.putMany (← parseBlks r)))
  | ["del", c] => doOp st (do pure (.delete (← parseCid c)))
  | ["get", c] => doOp st (do pure (.get (← parseCid c)))
  | ["has", c] => doOp st (do pure (.has (← parseCid c)))
  | ["size", c] => doOp st (do pure (.getSize (← parseCid c)))
  | ["view", c] => doOp st (do pure (.view (← parseCid c)))
  | ["keys"] => doOp st (some .allKeys)
  | ["keyserr"] => doOp st (some .allKeys)          -- AllKeysChanWithErr drained completely
  | ["keyscancel", _] => (st, "ok")                 -- judged by the monitor (timing-dependent cut)
  | ["gc"] => (st, "ok")                            -- GCLocker exercise, judged by the monitor
  | ["rawput", k, d] =>
    match unhex d with
    | some d => ({ st with s := AMap.insert st.s k.toList d }, "ok")
    | none => (st, "bad-op")
  | ["dump"] => (st, showDump st.s)
  | _ => (st, "bad-op")

partial def loop (h : IO.FS.Stream) (out : IO.FS.Stream) (st : St) : IO Unit := do
  let line ← h.getLine
  if line.isEmpty then return ()
  let (st', o) := stepLine st line
  out.putStrLn o
  loop h out st'

def main : IO Unit := do
  let out ← IO.getStdout
  loop (← IO.getStdin) out {}
