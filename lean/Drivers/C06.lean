import BoxoModel.C06.Go
/-! Line-protocol driver for C06 (see /verif/docs/HOWTO.md).
Ops (all operands are single tokens):
  parse <spec-hex>                               → err | size N | rabin MIN ⌊log2 AVG⌋ MAX | buzhash | custom
  defsize <n>                                    → ok                (sets chunker.DefaultBlockSize for the rest of the case)
  register <name-hex>                            → ok | panic        (chunk.Register with a non-nil function)
  chan <same operands as split>                  → as split (chunks received from chunk.Chan)
  fail <spec-hex> <frags> <input> <pos>          → checked           (reader failing at <pos>: Go-side monitor only)
  split <spec-hex> <ewd 0|1> <frags> <input> <cands>
                                                 → err | n=<chunks> total=<bytes> lens=<rle>
    frags : -            ideal reader
            l:a,b,c      the first Read calls deliver at most a, b, c bytes, later ones are ideal
            y:a,b,c      cyclic pattern (sum > 0)
    input : segments joined by '+':  r:<seed>:<len> (splitmix64 bytes)  c:<byte>:<len>  p:<hex>:<len> (periodic)
            h:<hex> (literal)   or `-` (empty)
    cands : `-` or comma-separated absolute offsets p (1-based end positions) at which the rabin window
            fingerprint observed by the harness is a boundary (only used for rabin specs).
-/
open C06

def hexVal (c : Char) : Nat :=
  if c.isDigit then c.toNat - '0'.toNat
  else if 'a' ≤ c ∧ c ≤ 'f' then c.toNat - 'a'.toNat + 10
  else if 'A' ≤ c ∧ c ≤ 'F' then c.toNat - 'A'.toNat + 10 else 0

def unhexL : List Char → List UInt8
  | a :: b :: r => UInt8.ofNat (hexVal a * 16 + hexVal b) :: unhexL r
  | _ => []

def unhex (s : String) : List UInt8 := if s == "-" then [] else unhexL s.toList

def nats (s : String) : List Nat := if s == "-" ∨ s == "" then [] else (s.splitOn ",").filterMap String.toNat?

/-- splitmix64 byte stream: 8 little-endian bytes per step -/
def randBytes (seed : UInt64) (len : Nat) : List UInt8 := Id.run do
  let mut out : Array UInt8 := Array.mkEmpty len
  let mut s : UInt64 := seed
  let mut z : UInt64 := 0
  for i in [0:len] do
    if i % 8 == 0 then
      s := s + 0x9E3779B97F4A7C15
      z := s
      z := (z ^^^ (z >>> 30)) * 0xBF58476D1CE4E5B9
      z := (z ^^^ (z >>> 27)) * 0x94D049BB133111EB
      z := z ^^^ (z >>> 31)
    out := out.push (z >>> (UInt64.ofNat (8 * (i % 8)))).toUInt8
  return out.toList

def periodic (pat : List UInt8) (len : Nat) : List UInt8 :=
  if pat.isEmpty then [] else
  let a := pat.toArray
  (List.range len).map fun i => a[i % a.size]!

def segment (s : String) : List UInt8 :=
  match s.splitOn ":" with
  | ["r", seed, len] => randBytes (UInt64.ofNat seed.toNat!) len.toNat!
  | ["c", b, len] => List.replicate len.toNat! (UInt8.ofNat b.toNat!)
  | ["p", pat, len] => periodic (unhex pat) len.toNat!
  | ["h", h] => unhex h
  | _ => []

def inputOf (s : String) : List UInt8 :=
  if s == "-" then [] else ((s.splitOn "+").map segment).flatten

/-- expand a cyclic pattern until it contains more non-zero entries than there are bytes -/
def expandCycle (pat : List Nat) (len : Nat) : List Nat :=
  let nz := (pat.filter (· > 0)).length
  if nz == 0 then [] else
  let reps := (len + 1) / nz + 1
  (List.replicate reps pat).flatten

def fragsOf (s : String) (len : Nat) : List Nat :=
  match s.splitOn ":" with
  | ["l", xs] => nats xs
  | ["y", xs] => expandCycle (nats xs) len
  | _ => []

def rle (xs : List Nat) : String :=
  let rec go : List Nat → Nat → Nat → List String → List String
    | [], cur, cnt, acc => (if cnt == 0 then acc else s!"{cur}x{cnt}" :: acc).reverse
    | x :: r, cur, cnt, acc =>
      if cnt == 0 then go r x 1 acc
      else if x == cur then go r cur (cnt + 1) acc
      else go r x 1 (s!"{cur}x{cnt}" :: acc)
  ",".intercalate (go xs 0 0 [])

def specString (hex : String) : String := String.ofList ((unhex hex).map fun b => Char.ofNat b.toNat)

def showSpec : Option Spec → String
  | none => "err"
  | some (.size n) => s!"size {n}"
  | some (.rabin a b c) => s!"rabin {a} {Nat.log2 b} {c}"   -- the library keeps only 2^⌊log2 avg⌋ - 1
  | some .buzhash => "buzhash"

def showParsed : Option Parsed → String
  | none => "err"
  | some (.custom _) => "custom"
  | some (.builtin sp) => showSpec (some sp)

def runSplit (L : Limits) (sp ewd fr inp cands : String) : String :=
  match parseSpec L (specString sp) with
  | none => "err"
  | some spec =>
    let data := inputOf inp
    let rd : Rd := { data := data, frags := fragsOf fr data.length, eofWithData := ewd == "1" }
    let bitmap : ByteArray := Id.run do
      let mut a := ByteArray.mk (Array.replicate (data.length + 2) 0)
      for p in nats cands do
        if p < a.size then a := a.set! p 1
      return a
    let chunks := chunksOf goBuzP (512 * 1024) (fun start => start) (fun p _ => p + 1)
      (fun p => bitmap.get! p == 1) spec rd
    let lens := chunks.map List.length
    s!"n={lens.length} total={lens.foldl (· + ·) 0} lens={rle lens}"

/-- state: the registry (`Register` calls of the current case) and the current value of the exported variable
`chunker.DefaultBlockSize` (`defsize`); both reset at `case` -/
structure St where
  reg : Registry := builtinNames
  defSize : Nat := goLimits.defaultBlockSize

def St.limits (st : St) : Limits := { goLimits with defaultBlockSize := st.defSize }

def step (st : St) (line : String) : St × String :=
  match (line.trimAscii.toString.splitOn " ").filter (· ≠ "") with
  | ["case", n] => ({}, s!"case {n}")
  | ["end"] => ({}, "end")
  | ["parse", sp] => (st, showParsed (parseWith st.limits st.reg (specString sp).toList))
  | ["register", nm] =>
    match register st.reg (specString nm).toList with
    | some reg' => ({ st with reg := reg' }, "ok")
    | none => (st, "panic")
  -- `chunker.DefaultBlockSize = n`: the default spec is size-N with N = the value when the splitter is created
  | ["defsize", n] => ({ st with defSize := n.toNat! }, "ok")
  | ["split", sp, ewd, fr, inp, cands] => (st, runSplit st.limits sp ewd fr inp cands)
  -- `Chan(splitter)`: a goroutine calling NextBytes until the first error = `drain`
  | ["chan", sp, ewd, fr, inp, cands] => (st, runSplit st.limits sp ewd fr inp cands)
  -- reader failing with a non-EOF error: checked by the Go-side monitor only
  | ["fail", _, _, _, _] => (st, "checked")
  | _ => (st, "bad-op")

partial def loop (h : IO.FS.Stream) (out : IO.FS.Stream) (reg : St) : IO Unit := do
  let line ← h.getLine
  if line.isEmpty then return ()
  let (reg', o) := step reg line
  out.putStrLn o
  loop h out reg'

def main : IO Unit := do
  loop (← IO.getStdin) (← IO.getStdout) {}
