import BoxoModel.C39.Model
import BoxoModel.C39.Mime
/-! Line-protocol driver for C39. Tree tokens (prefix notation):
`f <name> <mode> <mtime> <content>` | `l <name> <mtime> <target>` | `d <name> <mode> <mtime> <nkids> kids…`;
a tree is `<nkids> kids…`; mtime is `-` or `<secs>:<nsecs>`; strings are hex. -/
open PathClean C39

def parseMtime (s : String) : Option (Option (Int × Nat)) :=
  if s == "-" then some none else
  match s.splitOn ":" with
  | [a, b] => do
    let x ← a.toInt?
    let y ← b.toNat?
    pure (some (x, y))
  | _ => none

mutual
partial def parseNode (ts : List String) : Option (String × Node × List String) :=
  match ts with
  | "f" :: name :: mode :: mt :: ap :: content :: r => do
    let m ← mode.toNat?
    let t ← parseMtime mt
    let _ ← unhex name
    let a ← unhex ap
    let c ← unhex content
    pure (name, .file ⟨m, t⟩ a c, r)
  | "l" :: name :: mt :: target :: r => do
    let t ← parseMtime mt
    let c ← unhex target
    pure (name, .link t c, r)
  | "d" :: name :: mode :: mt :: n :: r => do
    let m ← mode.toNat?
    let t ← parseMtime mt
    let k ← n.toNat?
    let (kids, r') ← parseKids k r
    pure (name, .dir ⟨m, t⟩ kids, r')
  | _ => none
partial def parseKids (n : Nat) (ts : List String) : Option (Kids × List String) :=
  match n with
  | 0 => some (.nil, ts)
  | n + 1 => do
    let (name, node, r) ← parseNode ts
    let nm ← unhex name
    let (rest, r') ← parseKids n r
    pure (.cons nm node rest, r')
end

def showMtime : Option (Int × Nat) → String
  | none => "-"
  | some (s, n) => s!"{s}:{n}"

mutual
partial def kidsLen : Kids → Nat
  | .nil => 0
  | .cons _ _ r => 1 + kidsLen r
partial def showNode (name : Str) : Node → List String
  | .file m a c => ["f", hex name, toString m.mode, showMtime m.mtime, hex a, hex c]
  | .link t c => ["l", hex name, showMtime t, hex c]
  | .dir m kids => ["d", hex name, toString m.mode, showMtime m.mtime, toString (kidsLen kids)] ++ showKids kids
partial def showKids : Kids → List String
  | .nil => []
  | .cons name n r => showNode name n ++ showKids r
end

def showTree (k : Kids) : String := " ".intercalate (toString (kidsLen k) :: showKids k)

def showCT : CType → String
  | .dir => "d"
  | .symlink => "l"
  | .file => "f"

def showPart (p : Part) : String :=
  s!"{if p.form then 1 else 0}|{hex p.formName}|{hex p.filename}|{showCT p.ctype}|{hex p.body}|{hex p.absEnc}"

def parseParts : List String → Option (List Part)
  | [] => some []
  | f :: fn :: file :: ct :: body :: r => do
    let fn ← unhex fn
    let file ← unhex file
    let body ← unhex body
    let ct ← match ct with
      | "d" => some CType.dir
      | "l" => some CType.symlink
      | "f" => some CType.file
      | _ => none
    let rest ← parseParts r
    pure ({ form := f == "1", formName := fn, filename := file, ctype := ct, body := body } :: rest)
  | _ => none

def step (line : String) : String :=
  match (line.trimAscii.toString.splitOn " ").filter (· ≠ "") with
  | ["case", n] => s!"case {n}"
  | ["end"] => "end"
  | "hdr" :: form :: mode :: mt :: nm :: [] =>
    -- the Content-Disposition value for (form, mode, mtime, escaped file name) and what the modelled
    -- fragment of mime.ParseMediaType reads back from it
    match mode.toNat?, parseMtime mt, unhex nm with
    | some m, some t, some nm =>
      let fe := (mkPart (form == "1") [[]] nm m t .file [] []).filename
      let h := dispositionHeader (form == "1") m t fe
      match partFieldsOf h with
      | some (f, nm, file) => s!"{hex h} {if f then 1 else 0} {hex nm} {hex file}"
      | none => s!"{hex h} unparsed"
    | _, _, _ => "bad-op"
  | "mparse" :: v :: [] =>
    -- the modelled fragment of mime.ParseMediaType on an arbitrary header value
    match unhex v with
    | some v =>
      match parseMediaType v with
      | some (mt, ps) =>
        let items := (ps.map fun kv => hex kv.1 ++ ":" ++ hex kv.2).toArray.qsort (· < ·) |>.toList
        s!"ok {hex mt} " ++ (if items.isEmpty then "=" else ",".intercalate items)
      | none => "none"
    | none => "bad-op"
  | "ser" :: form :: n :: ts =>
    match n.toNat? with
    | some n =>
      match parseKids n ts with
      | some (k, []) =>
        let ps := serialize (form == "1") k
        if ps.isEmpty then "none" else " ".intercalate (ps.map showPart)
      | _ => "bad-op"
    | none => "bad-op"
  | "rt" :: form :: n :: ts =>
    match n.toNat? with
    | some n =>
      match parseKids n ts with
      | some (k, []) => showTree (parse true (serialize (form == "1") k))
      | _ => "bad-op"
    | none => "bad-op"
  | "rtr" :: form :: _salt :: n :: ts =>
    -- same round trip, the harness backs the files with readers of other shapes (data+EOF, one byte at a time)
    match n.toNat? with
    | some n =>
      match parseKids n ts with
      | some (k, []) => showTree (parse true (serialize (form == "1") k))
      | _ => "bad-op"
    | none => "bad-op"
  | "rt2" :: form :: n :: ts =>
    -- serialise, parse, serialise the parsed tree again, parse
    match n.toNat? with
    | some n =>
      match parseKids n ts with
      | some (k, []) =>
        let f := form == "1"
        showTree (parse true (serialize f (parse true (serialize f k))))
      | _ => "bad-op"
    | none => "bad-op"
  | "parts" :: ts =>
    match parseParts ts with
    | some ps => showTree (parse true ps)
    | none => "bad-op"
  | _ => "bad-op"

partial def loop (h : IO.FS.Stream) (out : IO.FS.Stream) : IO Unit := do
  let line ← h.getLine
  if line.isEmpty then return ()
  out.putStrLn (step line)
  loop h out

def main : IO Unit := do
  loop (← IO.getStdin) (← IO.getStdout)
