import BoxoModel.C11.Model
import BoxoModel.C18.Model
import BoxoModel.Gen.C17
/-
C17 — ipld/unixfs/io BasicDirectory: executable model of the block-size estimate
(/repo/ipld/unixfs/io/directory.go: varintLen, linkSerializedSize, dataFieldSerializedSize,
computeEstimatedSizeAndTotalLinks, updateEstimatedSize, AddChild/addLinkChild, RemoveChild,
NewBasicDirectory, NewBasicDirectoryFromNode, SetStat, SetSizeEstimationMode), WITH the fix commit
"unixfs/io: take the Data field size of the block-size estimate from the node's Data".

`varintLen`, `ModePermsToUnixPerms`, `linkSerializedSize` and `dataFieldSerializedSize` are the regenerated
`Gen.C17` definitions (T-gen `extract intsqf`: the non-integer inputs `len(c.Bytes())`, `len(name)`,
`mtime.IsZero()/Unix()/Nanosecond()` are parameters); `nodeDataFieldSize` is transcribed by hand.
The directory's ProtoNode is represented by its non-cache part (links in the order held, Data bytes);
its serialized block is `C11.encodePB links data` (C11 proves that this is what RawData() returns for
every reachable node); the UnixFS Data message written at creation is `C18.folderPBDataWithStat`.
Core-only (no Mathlib): imported by the line-protocol driver.
-/
namespace C17
open Varint

/-- `varintLen(uint64(v))` (regenerated definition, on naturals) -/
def varintLen (v : Nat) : Nat := (Gen.C17.varintLen (BitVec.ofNat 64 v)).toNat

/-- `linkSerializedSize(name, cid, tsize)`: the regenerated Go arithmetic over
(len(c.Bytes()), len(name), tsize), Go `int`/`uint64` = 64-bit -/
def linkSerializedSize (name cid : Bytes) (tsize : Nat) : Nat :=
  (Gen.C17.linkSerializedSize (BitVec.ofNat 64 cid.length) (BitVec.ofNat 64 name.length) (BitVec.ofNat 64 tsize)).toNat

/-- `dataFieldSerializedSize(mode, mtime)`: the regenerated Go arithmetic over
(mtime.IsZero(), mtime.Nanosecond(), mtime.Unix(), mode) -/
def dataFieldSerializedSize (mode : BitVec 32) (t : C18.Time) : Nat :=
  (Gen.C17.dataFieldSerializedSize t.isZero (BitVec.ofNat 64 t.nsec) (BitVec.ofInt 64 t.sec) mode).toNat

/-- `nodeDataFieldSize(node)` (added by the fix) -/
def nodeDataFieldSize : Option Bytes → Nat
  | none => 0
  | some d => 1 + varintLen d.length + d.length

inductive EstMode where
  | links | block | disabled
  deriving DecidableEq, Repr

structure Dir where
  links : List C11.Link := []       -- d.node: links
  data : Option Bytes := none       -- d.node: Data
  est : Int := 0                    -- estimatedSize
  total : Int := 0                  -- totalLinks
  mode : BitVec 32 := 0             -- d.mode
  mtime : C18.Time := C18.Time.zero -- d.mtime
  estMode : EstMode := .block       -- GetSizeEstimationMode()
  maxLinks : Int := 0               -- maxLinks (0 = unlimited)

/-- `linksize.LinkSizeFunction` = productionLinkSize -/
def legacyLinkSize (l : C11.Link) : Nat := l.name.length + l.cid.length

/-- `computeEstimatedSizeAndTotalLinks` -/
def compute (d : Dir) : Dir :=
  match d.estMode with
  | .block =>
    { d with est := nodeDataFieldSize d.data +
               ((d.links.map fun l => linkSerializedSize l.name l.cid l.size).sum : Nat),
             total := d.links.length }
  | .links => { d with est := ((d.links.map legacyLinkSize).sum : Nat), total := d.links.length }
  | .disabled => { d with est := 0, total := d.links.length }

/-- what one link contributes in the mode in force (`name` is passed separately, as in Go) -/
def linkCost (m : EstMode) (name : Bytes) (l : C11.Link) : Int :=
  match m with
  | .block => (linkSerializedSize name l.cid l.size : Nat)
  | .links => (name.length + l.cid.length : Nat)
  | .disabled => 0

/-- tail of `updateEstimatedSize`: store the new value; `if d.estimatedSize < 0 { recompute }` -/
def withEst (d : Dir) (e : Int) : Dir :=
  if e < 0 then compute { d with est := e } else { d with est := e }

/-- `updateEstimatedSize(name, oldLink, newLink)` -/
def updateEst (d : Dir) (name : Bytes) (old new : Option C11.Link) : Dir :=
  let e1 := match old with | some l => d.est - linkCost d.estMode name l | none => d.est
  let e2 := match new with | some l => e1 + linkCost d.estMode name l | none => e1
  withEst d e2

/-- `RemoveChild`: (dir, found) -/
def removeChild (d : Dir) (name : Bytes) : Dir × Bool :=
  match d.links.find? fun l => l.name == name with
  | none => (d, false)
  | some l =>
    let d1 := updateEst d name (some l) none
    ({ d1 with total := d1.total - 1, links := d1.links.filter fun l => l.name != name }, true)

/-- `AddChild` / `addLinkChild`: remove the old entry (a new name is refused when `maxLinks` is reached),
`AddRawLink`, account -/
def addChild (d : Dir) (name cid : Bytes) (tsize : Nat) : Dir × Bool :=
  let r := removeChild d name
  let d1 := r.1
  if !r.2 && decide (d1.maxLinks > 0) && decide (d1.total + 1 > d1.maxLinks) then (d1, false)
  else
    let l : C11.Link := ⟨name, cid, tsize⟩
    if !C11.checkLink l then (d1, false)
    else
      let d2 := { d1 with links := d1.links ++ [l] }
      let d3 := updateEst d2 name none (some l)
      ({ d3 with total := d3.total + 1 }, true)

/-- `SetMaxLinks` -/
def setMaxLinks (d : Dir) (n : Int) : Dir := { d with maxLinks := n }

/-- `NewBasicDirectory(WithSizeEstimationMode(m), WithStat(mode, mtime))` -/
def newDir (m : EstMode) (mode : BitVec 32) (t : C18.Time) : Dir :=
  compute { links := [], data := some (C18.folderPBDataWithStat mode t), mode := mode, mtime := t, estMode := m }

/-- `NewBasicDirectoryFromNode(node.Copy())`; `g` is the global HAMTSizeEstimation -/
def fromNode (g : EstMode) (links : List C11.Link) (data : Option Bytes) : Dir :=
  -- ProtoNode.Copy: sorted links, empty Data dropped
  let links' := if links.length > 0 then C11.sortLinks links else []
  let data' := match data with
    | some b => if b.length > 0 then some b else none
    | none => none
  let fs := match data' with
    | some b => C18.decode b
    | none => none
  let (mode, mtime) := match fs with
    | some n => (C18.modeOf n, C18.modTime n)
    | none => (0, C18.Time.zero)
  compute { links := links', data := data', mode := mode, mtime := mtime, estMode := g }

def reload (g : EstMode) (d : Dir) : Dir := fromNode g d.links d.data

/-- `SetStat` -/
def setStat (d : Dir) (mode : BitVec 32) (t : C18.Time) : Dir :=
  let d1 := if mode != 0 then { d with mode := mode } else d
  if !t.isZero then { d1 with mtime := t } else d1

/-- `SetSizeEstimationMode` -/
def setEstMode (d : Dir) (m : EstMode) : Dir :=
  if m = d.estMode then d
  else
    let c := compute { d with estMode := m }
    { c with total := d.total }

/-- `len(GetNode().RawData())` -/
def rawLen (d : Dir) : Nat := (C11.encodePB d.links d.data).length

end C17
