import BoxoModel.C17.Sizes
/-! C17: exactness of the estimate and its invariance under edits. -/
namespace C17
open Varint Proto

/-- the `innerSize` computed by `dataFieldSerializedSize` -/
def innerSize (mode : BitVec 32) (t : C18.Time) : Nat :=
  (if mode != 0 then 2 + (1 + varintLen (Gen.C17.modePermsToUnixPerms mode).toNat) else 2) +
  (if !t.isZero then
    1 + varintLen ((if t.sec ≥ 0 then 1 + varintLen t.sec.toNat else 1 + 10) + (if t.nsec > 0 then 1 + 4 else 0)) +
      ((if t.sec ≥ 0 then 1 + varintLen t.sec.toNat else 1 + 10) + (if t.nsec > 0 then 1 + 4 else 0))
   else 0)

theorem dataFieldSerializedSize_eq_inner (mode : BitVec 32) (t : C18.Time) :
    dataFieldSerializedSizeSpec mode t = 1 + varintLen (innerSize mode t) + innerSize mode t := by
  unfold dataFieldSerializedSizeSpec innerSize
  simp only []
  cases hz : t.isZero <;> cases hm : (mode != 0) <;> by_cases hn : t.nsec > 0 <;>
    simp [hn] <;> omega

theorem mtimeLen_small (t : C18.Time) :
    (if t.sec ≥ 0 then 1 + varintLen t.sec.toNat else 1 + 10) + (if t.nsec > 0 then 1 + 4 else 0) < 2 ^ 64 →
    True := fun _ => trivial

/-- length of the UnixFS Data message of a directory created with (mode, mtime) -/
theorem folder_length (mode : BitVec 32) (t : C18.Time) (hv : t.valid) :
    (C18.folderPBDataWithStat mode t).length = innerSize mode t := by
  have t1 : Varint.size (1 * 8 + 0) = 1 := Varint.size_small _ (by decide)
  have t7 : Varint.size (7 * 8 + 0) = 1 := Varint.size_small _ (by decide)
  have t8 : Varint.size (8 * 8 + 2) = 1 := Varint.size_small _ (by decide)
  have s1 : Varint.size 1 = 1 := Varint.size_small _ (by decide)
  have hu : (Gen.C17.modePermsToUnixPerms mode).toNat < 2 ^ 64 := by
    have := (Gen.C17.modePermsToUnixPerms mode).isLt; omega
  have hgen : Gen.C18.modePermsToUnixPerms mode = Gen.C17.modePermsToUnixPerms mode := rfl
  have hml := mtime_length t hv
  have hvl : ∀ x, x < 2 ^ 64 → varintLen x = Varint.size x := varintLen_eq_size
  -- the mtime message is at most 16 bytes long
  have hsecle : (if t.sec ≥ 0 then 1 + varintLen t.sec.toNat else 1 + 10) ≤ 11 := by
    split
    · have h2 := hv.2.1
      have := Varint.size_le_ten t.sec.toNat (by omega)
      rw [varintLen_eq_size _ (by omega)]; omega
    · omega
  have hnsle : (if t.nsec > 0 then 1 + 4 else 0) ≤ 5 := by split <;> omega
  have hMle : (if t.sec ≥ 0 then 1 + varintLen t.sec.toNat else 1 + 10) + (if t.nsec > 0 then 1 + 4 else 0) ≤ 16 := by
    omega
  unfold C18.folderPBDataWithStat C18.encode C18.addStat innerSize
  generalize hM : ((if t.sec ≥ 0 then 1 + varintLen t.sec.toNat else 1 + 10) + if t.nsec > 0 then 1 + 4 else 0) = M
    at hml hMle
  generalize hU : (Gen.C17.modePermsToUnixPerms mode).toNat = U at hu
  cases hz : t.isZero <;> cases hm : (mode != 0)
  all_goals
    simp only [Bool.false_eq_true, if_false, if_true, Bool.not_false, Bool.not_true,
      C18.toFields, C18.optField, List.map_nil, List.append_nil, List.nil_append, List.cons_append, encodeMsg,
      List.length_append, List.length_nil, Field.encode_length, Field.vint, Field.msg, Val.wireType, Val.encode,
      Varint.encode_length, lenDelim_length, t1, t7, t8, s1, hgen, hml, hU, Nat.add_zero]
  · rw [hvl M (by omega)]; omega
  · rw [hvl U hu, hvl M (by omega)]; omega
  · rw [hvl U hu]

/-- `dataFieldSerializedSize(mode, mtime)` is the size of the Data field of the PBNode of a directory
created with that mode and mtime -/
theorem dataFieldSerializedSize_eq (mode : BitVec 32) (t : C18.Time) (hv : t.valid) :
    dataFieldSerializedSize mode t =
      (encodeMsg (C11.dataFields (some (C18.folderPBDataWithStat mode t)))).length := by
  have hf := folder_length mode t hv
  have hsmall : innerSize mode t < 2 ^ 64 := by
    have hu : varintLen (Gen.C17.modePermsToUnixPerms mode).toNat ≤ 10 := by
      have := (Gen.C17.modePermsToUnixPerms mode).isLt
      rw [varintLen_eq_size _ (by omega)]
      exact Varint.size_le_ten _ (by omega)
    have hs : (if t.sec ≥ 0 then 1 + varintLen t.sec.toNat else 1 + 10) ≤ 11 := by
      split
      · have h2 := hv.2.1
        have := Varint.size_le_ten t.sec.toNat (by omega)
        rw [varintLen_eq_size _ (by omega)]; omega
      · omega
    have hm : ∀ x, x ≤ 16 → varintLen x ≤ 10 := by
      intro x hx
      rw [varintLen_eq_size _ (by omega)]
      exact Varint.size_le_ten _ (by omega)
    have hnsle : (if t.nsec > 0 then 1 + 4 else 0) ≤ 5 := by split <;> omega
    unfold innerSize
    have h3 := hm ((if t.sec ≥ 0 then 1 + varintLen t.sec.toNat else 1 + 10) + (if t.nsec > 0 then 1 + 4 else 0))
      (by omega)
    have hM16 : (if t.sec ≥ 0 then 1 + varintLen t.sec.toNat else 1 + 10) + (if t.nsec > 0 then 1 + 4 else 0) ≤ 16 := by
      omega
    generalize ((if t.sec ≥ 0 then 1 + varintLen t.sec.toNat else 1 + 10) + if t.nsec > 0 then 1 + 4 else 0) = M
      at h3 hM16 ⊢
    split <;> split <;> omega
  rw [data_bridge mode t hv, dataFieldSerializedSize_eq_inner, ← hf]
  simp only [C11.dataFields, encodeMsg, List.length_append, List.length_nil, Nat.add_zero, dataField_length]
  rw [varintLen_eq_size _ (by rw [hf]; exact hsmall)]

/-! ### the whole block -/

/-- what `computeEstimatedSizeAndTotalLinks` computes in block mode -/
def blockEst (ls : List C11.Link) (d : Option Bytes) : Nat :=
  nodeDataFieldSize d + (ls.map fun l => linkSerializedSize l.name l.cid l.size).sum

theorem encodeMsg_length_sum (fs : List Field) : (encodeMsg fs).length = (fs.map fun f => f.encode.length).sum := by
  induction fs with
  | nil => rfl
  | cons f fs ih => simp [encodeMsg, ih]

theorem map_sum_congr {α : Type} (f g : α → Nat) (l : List α) (h : ∀ x ∈ l, f x = g x) :
    (l.map f).sum = (l.map g).sum := by
  induction l with
  | nil => rfl
  | cons x xs ih =>
    simp only [List.map_cons, List.sum_cons]
    rw [h x (List.mem_cons_self ..), ih (fun y hy => h y (List.mem_cons_of_mem _ hy))]

theorem linkBody_le_node (ls : List C11.Link) (d : Option Bytes) (l : C11.Link)
    (hl : l ∈ C11.sortLinks (ls.filter fun l => C11.cidDefined l.cid)) :
    (encodeMsg (C11.linkFields l)).length ≤ (C11.encodePB ls d).length := by
  have hmem : C11.linkMsg l ∈ C11.nodeFields ls d := by
    rw [C11.nodeFields_eq]; exact List.mem_append_left _ (List.mem_map_of_mem hl)
  have h1 := Field.encode_length_le_of_mem hmem
  have h2 := Field.bytes_length_le 2 (encodeMsg (C11.linkFields l))
  have h3 : (C11.linkMsg l).encode.length = (Field.mk 2 (.bytes (encodeMsg (C11.linkFields l)))).encode.length := rfl
  show _ ≤ (encodeMsg (C11.nodeFields ls d)).length
  omega

/-- **exactness for a state**: links that passed `checkLink`, block shorter than 2^61 bytes (the Go code
computes with 64-bit signed `int`s) -/
theorem blockEst_eq_rawLen (ls : List C11.Link) (d : Option Bytes) (hc : ∀ l ∈ ls, C11.checkLink l = true)
    (hlen61 : (C11.encodePB ls d).length < 2 ^ 61) :
    blockEst ls d = (C11.encodePB ls d).length := by
  have hlen : (C11.encodePB ls d).length < 2 ^ 64 := by omega
  have hfil := C11.filter_defined_of_check hc
  have hd : ∀ b, d = some b → b.length < 2 ^ 64 := by
    intro b hb
    subst hb
    have hmem : Field.byts 1 b ∈ C11.nodeFields ls (some b) := by
      rw [C11.nodeFields_eq]; exact List.mem_append_right _ (by simp [C11.dataFields])
    have h1 := Field.encode_length_le_of_mem hmem
    have h2 := Field.bytes_length_le 1 b
    have : (encodeMsg (C11.nodeFields ls (some b))).length < 2 ^ 64 := hlen
    have h3 : (Field.byts 1 b).encode.length = (Field.mk 1 (.bytes b)).encode.length := rfl
    omega
  unfold blockEst C11.encodePB
  rw [C11.nodeFields_eq, encodeMsg_append, List.length_append, ← nodeDataFieldSize_eq d hd, hfil,
    encodeMsg_length_sum, List.map_map]
  have hperm := (C11.sortLinks_perm ls).map (fun l => (C11.linkMsg l).encode.length)
  have hs : ((C11.sortLinks ls).map ((fun f => f.encode.length) ∘ C11.linkMsg)).sum =
      (ls.map (fun l => (C11.linkMsg l).encode.length)).sum := hperm.sum_nat
  rw [hs]
  have : (ls.map fun l => linkSerializedSize l.name l.cid l.size).sum =
      (ls.map fun l => (C11.linkMsg l).encode.length).sum := by
    apply map_sum_congr
    intro l hl
    have hck := hc l hl
    simp [C11.checkLink] at hck
    apply linkSerializedSize_eq l hck.1
    have := linkBody_le_node ls d l (by rw [hfil]; exact C11.mem_sortLinks.2 hl)
    omega
  omega

end C17
