import BoxoModel.C17.Lemmas
/-! C17: the tracked estimate stays equal to the recomputed one through every edit. -/
namespace C17
open Varint Proto

def lss (l : C11.Link) : Nat := linkSerializedSize l.name l.cid l.size

theorem blockEst_eq (ls : List C11.Link) (d : Option Bytes) :
    blockEst ls d = nodeDataFieldSize d + (ls.map lss).sum := rfl

/-- consistency of the tracked values with the node -/
structure Inv (d : Dir) : Prop where
  est : d.estMode = .block → d.est = (blockEst d.links d.data : Nat)
  total : d.total = d.links.length
  nodup : (d.links.map (·.name)).Nodup
  chk : ∀ l ∈ d.links, C11.checkLink l = true
  nonneg : 0 ≤ d.est

theorem sum_filter_remove (f : C11.Link → Nat) (ls : List C11.Link) (l : C11.Link)
    (hn : (ls.map (·.name)).Nodup) (hl : l ∈ ls) :
    ((ls.filter fun x => x.name != l.name).map f).sum + f l = (ls.map f).sum := by
  induction ls with
  | nil => cases hl
  | cons x xs ih =>
    simp only [List.map_cons, List.nodup_cons, List.mem_map, not_exists, not_and] at hn
    rcases List.mem_cons.1 hl with rfl | hl'
    · have hrest : (xs.filter fun y => y.name != l.name) = xs := by
        rw [List.filter_eq_self]
        intro y hy
        have := hn.1 y hy
        simp only [bne_iff_ne, ne_eq]
        exact this
      have hself : (l.name != l.name) = false := by simp
      simp only [List.filter_cons, hself, Bool.false_eq_true, if_false, hrest, List.map_cons, List.sum_cons]
      omega
    · have hne : x.name ≠ l.name := fun h => hn.1 l hl' h.symm
      have := ih hn.2 hl'
      have hb : (x.name != l.name) = true := by simpa using hne
      simp only [List.filter_cons, hb, if_true, List.map_cons, List.sum_cons]
      omega

theorem sum_map_one (ls : List C11.Link) : (ls.map fun _ => 1).sum = ls.length := by
  induction ls with
  | nil => rfl
  | cons x xs ih => simp only [List.map_cons, List.sum_cons, ih, List.length_cons]; omega

theorem length_filter_remove (ls : List C11.Link) (l : C11.Link) (hn : (ls.map (·.name)).Nodup) (hl : l ∈ ls) :
    (ls.filter fun x => x.name != l.name).length + 1 = ls.length := by
  have := sum_filter_remove (fun _ => 1) ls l hn hl
  rw [sum_map_one, sum_map_one] at this
  exact this

theorem compute_fields (d : Dir) : (compute d).links = d.links ∧ (compute d).data = d.data ∧
    (compute d).estMode = d.estMode ∧ (compute d).mode = d.mode ∧ (compute d).mtime = d.mtime ∧
    (compute d).total = d.links.length := by
  unfold compute; cases d.estMode <;> simp

theorem compute_est_block (d : Dir) (hb : d.estMode = .block) :
    (compute d).est = (blockEst d.links d.data : Nat) := by
  unfold compute; simp only [hb, blockEst]; omega

theorem compute_nonneg (d : Dir) : 0 ≤ (compute d).est := by
  unfold compute; cases d.estMode <;> simp <;> omega

theorem compute_inv (d : Dir) (hn : (d.links.map (·.name)).Nodup) (hc : ∀ l ∈ d.links, C11.checkLink l = true) :
    Inv (compute d) := by
  obtain ⟨c1, c2, c3, _, _, c6⟩ := compute_fields d
  refine ⟨?_, by rw [c6, c1], by rw [c1]; exact hn, by rw [c1]; exact hc, compute_nonneg d⟩
  intro hb
  rw [c3] at hb
  rw [compute_est_block d hb, c1, c2]

theorem withEst_fields (d : Dir) (e : Int) (ht : d.total = d.links.length) :
    (withEst d e).links = d.links ∧ (withEst d e).data = d.data ∧ (withEst d e).estMode = d.estMode ∧
    (withEst d e).mode = d.mode ∧ (withEst d e).mtime = d.mtime ∧ (withEst d e).total = d.total := by
  unfold withEst
  split
  · obtain ⟨c1, c2, c3, c4, c5, c6⟩ := compute_fields { d with est := e }
    exact ⟨c1, c2, c3, c4, c5, by rw [c6]; exact ht.symm⟩
  · exact ⟨rfl, rfl, rfl, rfl, rfl, rfl⟩

theorem withEst_est (d : Dir) (e : Int) (he : 0 ≤ e) : (withEst d e).est = e := by
  unfold withEst; rw [if_neg (by omega)]

theorem linkCost_nonneg (m : EstMode) (name : Bytes) (l : C11.Link) : 0 ≤ linkCost m name l := by
  unfold linkCost; split <;> omega

theorem removeChild_inv (d : Dir) (name : Bytes) (h : Inv d) : Inv (removeChild d name).1 := by
  unfold removeChild
  cases hf : d.links.find? (fun l => l.name == name) with
  | none => exact h
  | some l =>
    have hl : l ∈ d.links := List.mem_of_find?_eq_some hf
    have hname : l.name = name := by simpa using List.find?_some hf
    subst hname
    have hsum := sum_filter_remove lss d.links l h.nodup hl
    have hlen := length_filter_remove d.links l h.nodup hl
    have hu : updateEst d l.name (some l) none = withEst d (d.est - linkCost d.estMode l.name l) := rfl
    obtain ⟨s1, s2, s3, _, _, s6⟩ := withEst_fields d (d.est - linkCost d.estMode l.name l) h.total
    have hwe : d.estMode = .block → (withEst d (d.est - linkCost d.estMode l.name l)).est =
        (blockEst (d.links.filter fun x => x.name != l.name) d.data : Nat) := by
      intro hb
      have he := h.est hb
      have hcost : linkCost d.estMode l.name l = (lss l : Nat) := by rw [hb]; rfl
      rw [withEst_est _ _ (by rw [hcost, he, blockEst_eq]; omega), hcost, he, blockEst_eq, blockEst_eq]
      omega
    have hwn : 0 ≤ (withEst d (d.est - linkCost d.estMode l.name l)).est := by
      unfold withEst; split
      · exact compute_nonneg _
      · show 0 ≤ d.est - linkCost d.estMode l.name l; omega
    simp only [hu]
    generalize withEst d (d.est - linkCost d.estMode l.name l) = w at s1 s2 s3 s6 hwe hwn
    refine ⟨?_, ?_, ?_, ?_, hwn⟩
    · intro hb
      show w.est = (blockEst (List.filter _ w.links) w.data : Nat)
      rw [s1, s2]
      exact hwe (by rw [← s3]; exact hb)
    · show w.total - 1 = ((List.filter _ w.links).length : Int)
      rw [s6, h.total, s1]
      omega
    · show ((List.filter _ w.links).map _).Nodup
      rw [s1]
      exact h.nodup.sublist (List.filter_sublist.map _)
    · intro x hx
      have : x ∈ w.links := (List.mem_filter.1 hx).1
      rw [s1] at this
      exact h.chk x this

theorem removeChild_no_name (d : Dir) (name : Bytes) :
    ∀ x ∈ (removeChild d name).1.links, x.name ≠ name := by
  unfold removeChild
  cases hf : d.links.find? (fun l => l.name == name) with
  | none =>
    intro x hx
    have := List.find?_eq_none.1 hf x hx
    simpa using this
  | some l =>
    intro x hx
    have := (List.mem_filter.1 hx).2
    simpa using this

theorem addChild_inv (d : Dir) (name cid : Bytes) (tsize : Nat) (h : Inv d) :
    Inv (addChild d name cid tsize).1 := by
  have h1 := removeChild_inv d name h
  have hno := removeChild_no_name d name
  unfold addChild
  generalize removeChild d name = r at h1 hno
  obtain ⟨d1, found⟩ := r
  simp only [] at h1 hno ⊢
  split
  · exact h1
  by_cases hc : C11.checkLink ⟨name, cid, tsize⟩ = true
  · rw [if_neg (by simp [hc])]
    generalize hl : (⟨name, cid, tsize⟩ : C11.Link) = l at hc
    have hlname : l.name = name := by rw [← hl]
    have hcostnn := linkCost_nonneg d1.estMode name l
    have h1nn := h1.nonneg
    have hu : updateEst { d1 with links := d1.links ++ [l] } name none (some l) =
        { d1 with links := d1.links ++ [l], est := d1.est + linkCost d1.estMode name l } := by
      show withEst _ _ = _
      unfold withEst
      rw [if_neg (by show ¬ (d1.est + linkCost d1.estMode name l < 0); omega)]
    rw [hu]
    have hnd : ((d1.links ++ [l]).map (·.name)).Nodup := by
      rw [List.map_append, List.nodup_append]
      refine ⟨h1.nodup, by simp, ?_⟩
      intro a ha b hb
      simp at hb
      obtain ⟨x, hx, rfl⟩ := List.mem_map.1 ha
      rw [hb, hlname]
      exact hno x hx
    have hck : ∀ x ∈ d1.links ++ [l], C11.checkLink x = true := by
      intro x hx
      rcases List.mem_append.1 hx with hx | hx
      · exact h1.chk x hx
      · simp at hx; subst hx; exact hc
    refine ⟨?_, ?_, hnd, hck, ?_⟩
    · intro hb
      have hb' : d1.estMode = .block := hb
      have he := h1.est hb'
      have hcost : linkCost d1.estMode name l = (lss l : Nat) := by rw [hb', ← hlname]; rfl
      show d1.est + linkCost d1.estMode name l = (blockEst (d1.links ++ [l]) d1.data : Nat)
      rw [hcost, he, blockEst_eq, blockEst_eq]
      simp only [List.map_append, List.sum_append, List.map_cons, List.map_nil, List.sum_cons, List.sum_nil]
      omega
    · show d1.total + 1 = ((d1.links ++ [l]).length : Int)
      rw [h1.total]; simp
    · show 0 ≤ d1.est + linkCost d1.estMode name l
      omega
  · rw [if_pos (by simp [hc])]; exact h1

theorem newDir_inv (m : EstMode) (mode : BitVec 32) (t : C18.Time) : Inv (newDir m mode t) :=
  compute_inv _ (by simp) (by simp)

theorem fromNode_inv (g : EstMode) (ls : List C11.Link) (data : Option Bytes)
    (hn : (ls.map (·.name)).Nodup) (hc : ∀ l ∈ ls, C11.checkLink l = true) : Inv (fromNode g ls data) := by
  unfold fromNode
  simp only []
  apply compute_inv
  · show ((if ls.length > 0 then C11.sortLinks ls else []).map (·.name)).Nodup
    split
    · exact (((C11.sortLinks_perm ls).map (·.name)).nodup_iff).2 hn
    · simp
  · intro l hl
    have hl' : l ∈ (if ls.length > 0 then C11.sortLinks ls else []) := hl
    split at hl'
    · exact hc l (C11.mem_sortLinks.1 hl')
    · cases hl'

theorem reload_inv (g : EstMode) (d : Dir) (h : Inv d) : Inv (reload g d) :=
  fromNode_inv g d.links d.data h.nodup h.chk

/-- the node a reload works on has the same block: `Copy()` only sorts and drops an empty Data -/
theorem reload_links_perm (g : EstMode) (d : Dir) : (reload g d).links.Perm d.links := by
  unfold reload fromNode
  simp only []
  rw [(compute_fields _).1]
  show (if d.links.length > 0 then C11.sortLinks d.links else []).Perm d.links
  split
  · exact C11.sortLinks_perm _
  · next h =>
    have : d.links = [] := List.eq_nil_of_length_eq_zero (by omega)
    rw [this]

theorem setStat_inv (d : Dir) (mode : BitVec 32) (t : C18.Time) (h : Inv d) : Inv (setStat d mode t) := by
  unfold setStat
  simp only []
  split <;> split <;> exact ⟨h.est, h.total, h.nodup, h.chk, h.nonneg⟩

theorem setMaxLinks_inv (d : Dir) (n : Int) (h : Inv d) : Inv (setMaxLinks d n) :=
  ⟨h.est, h.total, h.nodup, h.chk, h.nonneg⟩

theorem setEstMode_inv (d : Dir) (m : EstMode) (h : Inv d) : Inv (setEstMode d m) := by
  unfold setEstMode
  split
  · exact h
  · have hi := compute_inv { d with estMode := m } h.nodup h.chk
    obtain ⟨c1, _, _, _, _, _⟩ := compute_fields { d with estMode := m }
    exact ⟨hi.est, by show d.total = _; rw [c1]; exact h.total, hi.nodup, hi.chk, hi.nonneg⟩

end C17
