import BoxoModel.C17.Model
import BoxoModel.C11.Lemmas
import BoxoModel.C18.Node
/-! C17: the three Go size functions equal the lengths of the corresponding encodings. -/
namespace C17
open Varint Proto

theorem genLen_eq (v : Nat) (h : v < 2 ^ 64) :
    GoInt.len (BitVec.ofNat 64 v) = BitVec.ofNat 64 (Varint.bitLen v) := by
  have hv : (BitVec.ofNat 64 v).toNat = v := by simp [BitVec.toNat_ofNat]; omega
  unfold GoInt.len Varint.bitLen
  rw [hv]
  split <;> rfl

theorem genFormula : ∀ L : Fin 65,
    (BitVec.sdiv (BitVec.setWidth 64 ((9#32 * (BitVec.setWidth 32 (BitVec.ofNat 64 L.val))) + 64#32)) 64#64)
      = BitVec.ofNat 64 ((9 * L.val + 64) / 64) := by decide

/-- the regenerated Go `varintLen` is `Varint.sizeGo` … -/
theorem varintLen_eq_sizeGo (v : Nat) (h : v < 2 ^ 64) : varintLen v = Varint.sizeGo v := by
  have hb := Varint.bitLen_le_64 v h
  have := genFormula ⟨Varint.bitLen v, by omega⟩
  simp only at this
  unfold varintLen Gen.C17.varintLen
  rw [genLen_eq v h, this, Varint.sizeGo]
  simp [BitVec.toNat_ofNat]
  omega

/-- … hence the number of LEB128 bytes of every 64-bit value -/
theorem varintLen_eq (v : Nat) (h : v < 2 ^ 64) : varintLen v = (Varint.encode v).length := by
  rw [varintLen_eq_sizeGo v h, Varint.sizeGo_eq v h]

theorem varintLen_eq_size (v : Nat) (h : v < 2 ^ 64) : varintLen v = Varint.size v := by
  rw [varintLen_eq v h, Varint.encode_length]

theorem size_ten (n : Nat) (h1 : 2 ^ 63 ≤ n) (h2 : n < 2 ^ 64) : Varint.size n = 10 := by
  rw [Varint.size_eq_log]
  have hn : n ≠ 0 := by omega
  have a : n.log2 < 64 := (Nat.log2_lt hn).2 h2
  have b : ¬ n.log2 < 63 := fun hlt => by have := (Nat.log2_lt hn).1 hlt; omega
  omega

/-! ### the regenerated 64-bit arithmetic equals the arithmetic on naturals (no overflow below 2^61) -/

/-- what `linkSerializedSize` computes, on naturals -/
def linkSerializedSizeSpec (name cid : Bytes) (tsize : Nat) : Nat :=
  let cidLen := cid.length
  let nameLen := name.length
  let linkLen := 1 + varintLen cidLen + cidLen + 1 + varintLen nameLen + nameLen + 1 + varintLen tsize
  1 + varintLen linkLen + linkLen

/-- what `dataFieldSerializedSize` computes, on naturals / integers -/
def dataFieldSerializedSizeSpec (mode : BitVec 32) (t : C18.Time) : Nat :=
  let inner1 := if mode != 0 then 2 + (1 + varintLen (Gen.C17.modePermsToUnixPerms mode).toNat) else 2
  let inner2 :=
    if !t.isZero then
      let m0 := if t.sec ≥ 0 then 1 + varintLen t.sec.toNat else 1 + 10
      let m1 := if t.nsec > 0 then m0 + (1 + 4) else m0
      inner1 + (1 + varintLen m1 + m1)
    else inner1
  1 + varintLen inner2 + inner2

theorem varintLen_le_ten (v : Nat) : varintLen v ≤ 10 := by
  have h : v % 2 ^ 64 < 2 ^ 64 := Nat.mod_lt _ (by decide)
  have : varintLen v = varintLen (v % 2 ^ 64) := by
    unfold varintLen
    congr 2
    apply BitVec.eq_of_toNat_eq
    simp [BitVec.toNat_ofNat]
  rw [this, varintLen_eq_size _ h]
  exact Varint.size_le_ten _ h

theorem gen_varintLen (x : BitVec 64) (n : Nat) (h : x.toNat = n) :
    (Gen.C17.varintLen x).toNat = varintLen n := by
  have hx : x = BitVec.ofNat 64 n := by
    apply BitVec.eq_of_toNat_eq
    rw [h, BitVec.toNat_ofNat]
    have := x.isLt
    omega
  rw [hx, varintLen]

theorem toNat_add_of_lt (x y : BitVec 64) (a b : Nat) (hx : x.toNat = a) (hy : y.toNat = b) (h : a + b < 2 ^ 64) :
    (x + y).toNat = a + b := by
  rw [BitVec.toNat_add, hx, hy]; exact Nat.mod_eq_of_lt h

theorem link_bridge (name cid : Bytes) (tsize : Nat) (hc : cid.length < 2 ^ 61) (hn : name.length < 2 ^ 61)
    (ht : tsize < 2 ^ 64) :
    linkSerializedSize name cid tsize = linkSerializedSizeSpec name cid tsize := by
  unfold linkSerializedSize Gen.C17.linkSerializedSize linkSerializedSizeSpec
  simp only []
  have c0 : (BitVec.ofNat 64 cid.length).toNat = cid.length := by rw [BitVec.toNat_ofNat]; omega
  have n0 : (BitVec.ofNat 64 name.length).toNat = name.length := by rw [BitVec.toNat_ofNat]; omega
  have t0 : (BitVec.ofNat 64 tsize).toNat = tsize := by rw [BitVec.toNat_ofNat]; omega
  have one : (1#64).toNat = 1 := rfl
  have v1 := gen_varintLen _ _ c0
  have v2 := gen_varintLen _ _ n0
  have v3 := gen_varintLen _ _ t0
  have b1 := varintLen_le_ten cid.length
  have b2 := varintLen_le_ten name.length
  have b3 := varintLen_le_ten tsize
  have s1 := toNat_add_of_lt _ _ _ _ one v1 (by omega)
  have s2 := toNat_add_of_lt _ _ _ _ s1 c0 (by omega)
  have s3 := toNat_add_of_lt _ _ _ _ s2 one (by omega)
  have s4 := toNat_add_of_lt _ _ _ _ s3 v2 (by omega)
  have s5 := toNat_add_of_lt _ _ _ _ s4 n0 (by omega)
  have s6 := toNat_add_of_lt _ _ _ _ s5 one (by omega)
  have s7 := toNat_add_of_lt _ _ _ _ s6 v3 (by omega)
  have v4 := gen_varintLen _ _ s7
  have b4 := varintLen_le_ten (1 + varintLen cid.length + cid.length + 1 + varintLen name.length + name.length + 1 +
    varintLen tsize)
  have s8 := toNat_add_of_lt _ _ _ _ one v4 (by omega)
  have s9 := toNat_add_of_lt _ _ _ _ s8 s7 (by omega)
  exact s9

theorem fin_bridge (inner : BitVec 64) (a : Nat) (h : inner.toNat = a) (ha : a < 2 ^ 32) :
    ((1#64 + Gen.C17.varintLen inner) + inner).toNat = 1 + varintLen a + a := by
  have v := gen_varintLen _ _ h
  have b := varintLen_le_ten a
  have s1 := toNat_add_of_lt (1#64) _ 1 _ rfl v (by omega)
  exact toNat_add_of_lt _ _ _ _ s1 h (by omega)

theorem tail_bridge (inner m : BitVec 64) (a b : Nat) (hi : inner.toNat = a) (hm : m.toNat = b)
    (ha : a < 2 ^ 32) (hb : b < 2 ^ 32) :
    (inner + ((1#64 + Gen.C17.varintLen m) + m)).toNat = a + (1 + varintLen b + b) := by
  have h1 := fin_bridge m b hm hb
  have := varintLen_le_ten b
  exact toNat_add_of_lt _ _ _ _ hi h1 (by omega)

theorem sle_zero_ofInt (s : Int) (h1 : -(2 ^ 63 : Int) ≤ s) (h2 : s < 2 ^ 63) :
    BitVec.sle 0#64 (BitVec.ofInt 64 s) = decide (0 ≤ s) := by
  have : (BitVec.ofInt 64 s).toInt = s := by
    rw [BitVec.toInt_eq_toNat_cond, BitVec.toNat_ofInt]
    split <;> omega
  simp [BitVec.sle, this]

theorem slt_zero_ofNat (n : Nat) (h : n < 2 ^ 62) : BitVec.slt 0#64 (BitVec.ofNat 64 n) = decide (0 < n) := by
  have : (BitVec.ofNat 64 n).toInt = n := by
    rw [BitVec.toInt_eq_toNat_cond, BitVec.toNat_ofNat]
    split <;> omega
  simp [BitVec.slt, this]

theorem ofInt_toNat_nonneg (s : Int) (h1 : 0 ≤ s) (h2 : s < 2 ^ 63) : (BitVec.ofInt 64 s).toNat = s.toNat := by
  rw [BitVec.toNat_ofInt]; omega

theorem data_bridge (mode : BitVec 32) (t : C18.Time) (hv : t.valid) :
    dataFieldSerializedSize mode t = dataFieldSerializedSizeSpec mode t := by
  obtain ⟨h1, h2, h3⟩ := hv
  have hsle := sle_zero_ofInt t.sec h1 h2
  have hslt := slt_zero_ofNat t.nsec (by omega)
  have hu : (BitVec.setWidth 64 (Gen.C17.modePermsToUnixPerms mode)).toNat = (Gen.C17.modePermsToUnixPerms mode).toNat := by
    simp [BitVec.toNat_setWidth]
    have := (Gen.C17.modePermsToUnixPerms mode).isLt
    omega
  have vu := gen_varintLen _ _ hu
  have bu := varintLen_le_ten (Gen.C17.modePermsToUnixPerms mode).toNat
  have bs := varintLen_le_ten t.sec.toNat
  -- inner size before the mtime part
  have i0 : ((0#64 : BitVec 64) + 2#64).toNat = 2 := by decide
  have i1 : (((0#64 : BitVec 64) + 2#64) + (1#64 + Gen.C17.varintLen (BitVec.setWidth 64 (Gen.C17.modePermsToUnixPerms mode)))).toNat
      = 2 + (1 + varintLen (Gen.C17.modePermsToUnixPerms mode).toNat) := by
    have a := toNat_add_of_lt (1#64) _ 1 _ rfl vu (by omega)
    exact toNat_add_of_lt _ _ _ _ i0 a (by omega)
  -- the four shapes of mtimeSize
  have m_pos : 0 ≤ t.sec → ((0#64 : BitVec 64) + (1#64 + Gen.C17.varintLen (BitVec.ofInt 64 t.sec))).toNat
      = 1 + varintLen t.sec.toNat := by
    intro hp
    have vs := gen_varintLen _ _ (ofInt_toNat_nonneg t.sec hp h2)
    have a := toNat_add_of_lt (1#64) _ 1 _ rfl vs (by omega)
    have := toNat_add_of_lt (0#64) _ 0 _ rfl a (by omega)
    omega
  have m_pos5 : 0 ≤ t.sec → (((0#64 : BitVec 64) + (1#64 + Gen.C17.varintLen (BitVec.ofInt 64 t.sec))) + 5#64).toNat
      = 1 + varintLen t.sec.toNat + (1 + 4) := by
    intro hp
    exact toNat_add_of_lt _ (5#64) _ 5 (m_pos hp) rfl (by omega)
  have m_neg : ((0#64 : BitVec 64) + 11#64).toNat = 1 + 10 := by decide
  have m_neg5 : (((0#64 : BitVec 64) + 11#64) + 5#64).toNat = 1 + 10 + (1 + 4) := by decide
  unfold dataFieldSerializedSize Gen.C17.dataFieldSerializedSize dataFieldSerializedSizeSpec
  simp only [hsle, hslt]
  cases hm : (mode != 0#32) <;> cases hz : t.isZero <;> by_cases hp : 0 ≤ t.sec <;> by_cases hn : 0 < t.nsec <;>
    simp only [hp, hn, decide_true, decide_false, Bool.not_true, Bool.not_false, if_true, if_false,
      Bool.false_eq_true]
  all_goals first
    | exact fin_bridge _ _ i0 (by omega)
    | exact fin_bridge _ _ i1 (by omega)
    | exact fin_bridge _ _ (tail_bridge _ _ _ _ i0 (m_pos5 hp) (by omega) (by omega)) (by have := varintLen_le_ten (1 + varintLen t.sec.toNat + (1 + 4)); omega)
    | exact fin_bridge _ _ (tail_bridge _ _ _ _ i0 (m_pos hp) (by omega) (by omega)) (by have := varintLen_le_ten (1 + varintLen t.sec.toNat); omega)
    | exact fin_bridge _ _ (tail_bridge _ _ _ _ i0 m_neg5 (by omega) (by omega)) (by have := varintLen_le_ten (1 + 10 + (1 + 4)); omega)
    | exact fin_bridge _ _ (tail_bridge _ _ _ _ i0 m_neg (by omega) (by omega)) (by have := varintLen_le_ten (1 + 10); omega)
    | exact fin_bridge _ _ (tail_bridge _ _ _ _ i1 (m_pos5 hp) (by omega) (by omega)) (by have := varintLen_le_ten (1 + varintLen t.sec.toNat + (1 + 4)); omega)
    | exact fin_bridge _ _ (tail_bridge _ _ _ _ i1 (m_pos hp) (by omega) (by omega)) (by have := varintLen_le_ten (1 + varintLen t.sec.toNat); omega)
    | exact fin_bridge _ _ (tail_bridge _ _ _ _ i1 m_neg5 (by omega) (by omega)) (by have := varintLen_le_ten (1 + 10 + (1 + 4)); omega)
    | exact fin_bridge _ _ (tail_bridge _ _ _ _ i1 m_neg (by omega) (by omega)) (by have := varintLen_le_ten (1 + 10); omega)

/-! ### one link -/

theorem linkBody_length (l : C11.Link) :
    (encodeMsg (C11.linkFields l)).length =
      (1 + Varint.size l.cid.length + l.cid.length) + (1 + Varint.size l.name.length + l.name.length) +
      (1 + Varint.size (if l.size < 2 ^ 63 then l.size else 0)) := by
  simp only [C11.linkFields, encodeMsg, List.length_append, Field.encode_length, Field.byts, Field.vint,
    Val.wireType, Val.encode, lenDelim_length, Varint.encode_length, List.length_nil]
  have t1 : Varint.size (1 * 8 + 2) = 1 := Varint.size_small _ (by decide)
  have t2 : Varint.size (2 * 8 + 2) = 1 := Varint.size_small _ (by decide)
  have t3 : Varint.size (3 * 8 + 0) = 1 := Varint.size_small _ (by decide)
  rw [t1, t2, t3]; omega

theorem linkMsg_length (l : C11.Link) :
    (C11.linkMsg l).encode.length =
      1 + Varint.size (encodeMsg (C11.linkFields l)).length + (encodeMsg (C11.linkFields l)).length := by
  simp only [C11.linkMsg, Field.msg, Field.encode_length, Val.wireType, Val.encode, lenDelim_length]
  have t : Varint.size (2 * 8 + 2) = 1 := Varint.size_small _ (by decide)
  rw [t]; omega

/-- `linkSerializedSize` is the number of bytes the link occupies in the encoded PBNode -/
theorem linkSerializedSize_eq (l : C11.Link) (hs : l.size < 2 ^ 63)
    (hlen : (encodeMsg (C11.linkFields l)).length < 2 ^ 61) :
    linkSerializedSize l.name l.cid l.size = (C11.linkMsg l).encode.length := by
  have hb := linkBody_length l
  simp only [hs, if_true] at hb
  rw [link_bridge l.name l.cid l.size (by omega) (by omega) (by omega), linkMsg_length]
  unfold linkSerializedSizeSpec
  simp only []
  rw [varintLen_eq_size l.cid.length (by omega), varintLen_eq_size l.name.length (by omega),
    varintLen_eq_size l.size (by omega)]
  have hX : 1 + Varint.size l.cid.length + l.cid.length + 1 + Varint.size l.name.length + l.name.length + 1 +
      Varint.size l.size = (encodeMsg (C11.linkFields l)).length := by omega
  rw [hX, varintLen_eq_size _ (by omega)]

/-! ### the Data field of a directory created with (mode, mtime) -/

theorem dataField_length (d : Bytes) : (Field.byts 1 d).encode.length = 1 + Varint.size d.length + d.length := by
  simp only [Field.byts, Field.encode_length, Val.wireType, Val.encode, lenDelim_length]
  have t : Varint.size (1 * 8 + 2) = 1 := Varint.size_small _ (by decide)
  rw [t]; omega

theorem nodeDataFieldSize_eq (d : Option Bytes) (h : ∀ b, d = some b → b.length < 2 ^ 64) :
    nodeDataFieldSize d = (encodeMsg (C11.dataFields d)).length := by
  cases d with
  | none => simp [nodeDataFieldSize, C11.dataFields, encodeMsg]
  | some b =>
    simp only [nodeDataFieldSize, C11.dataFields, encodeMsg, List.length_append, List.length_nil,
      Nat.add_zero, dataField_length, varintLen_eq_size _ (h b rfl)]

theorem mtime_length (t : C18.Time) (hv : t.valid) :
    (encodeMsg (C18.mtimeFields (C18.mtimeOf t))).length =
      (if t.sec ≥ 0 then 1 + varintLen t.sec.toNat else 1 + 10) + (if t.nsec > 0 then 1 + 4 else 0) := by
  obtain ⟨h1, h2, _⟩ := hv
  have t1 : Varint.size (1 * 8 + 0) = 1 := Varint.size_small _ (by decide)
  have t2 : Varint.size (2 * 8 + 5) = 1 := Varint.size_small _ (by decide)
  have hsec : Varint.size (C18.int64ToU64 t.sec) = if t.sec ≥ 0 then varintLen t.sec.toNat else 10 := by
    unfold C18.int64ToU64
    split
    · next hp =>
      have : (t.sec % (2 ^ 64 : Int)).toNat = t.sec.toNat := by omega
      rw [this, varintLen_eq_size _ (by omega)]
    · next hn => exact size_ten _ (by omega) (by omega)
  by_cases hns : t.nsec > 0
  · simp only [C18.mtimeFields, C18.mtimeOf, hns, if_true, C18.optField, encodeMsg, List.length_append,
      List.cons_append, List.nil_append, Field.encode_length, Field.vint, Field.fix32, Val.wireType, Val.encode,
      Varint.encode_length, leBytes_length, List.length_nil, t1, t2, hsec]
    split <;> omega
  · simp only [C18.mtimeFields, C18.mtimeOf, hns, if_false, C18.optField, encodeMsg, List.length_append,
      List.cons_append, List.nil_append, List.append_nil, Field.encode_length, Field.vint, Val.wireType, Val.encode,
      Varint.encode_length, List.length_nil, t1, hsec]
    split <;> omega

end C17
