import BoxoModel.C17.Model
import BoxoModel.C11.Lemmas
import BoxoModel.C18.Node
/-! C17: the three Go size functions equal the lengths of the corresponding encodings. -/
namespace C17
open Varint Proto

theorem genLen_eq (v : Nat) (h : v < 2 ^ 64) :
    GoInt.len (BitVec.ofNat 64 v) = BitVec.ofNat 64 (Varint.bitLen v) := by
  have hv : (BitVec.ofNat 64 v).toNat = v := by simp [BitVec.toNat_ofNat]; omega
  unfold GoInt.len Varint.bitLen
  rw [hv]
  split <;> rfl

theorem genFormula : ∀ L : Fin 65,
    (BitVec.sdiv (BitVec.setWidth 64 ((9#32 * (BitVec.setWidth 32 (BitVec.ofNat 64 L.val))) + 64#32)) 64#64)
      = BitVec.ofNat 64 ((9 * L.val + 64) / 64) := by decide

/-- the regenerated Go `varintLen` is `Varint.sizeGo` … -/
theorem varintLen_eq_sizeGo (v : Nat) (h : v < 2 ^ 64) : varintLen v = Varint.sizeGo v := by
  have hb := Varint.bitLen_le_64 v h
  have := genFormula ⟨Varint.bitLen v, by omega⟩
  simp only at this
  unfold varintLen Gen.C17.varintLen
  rw [genLen_eq v h, this, Varint.sizeGo]
  simp [BitVec.toNat_ofNat]
  omega

/-- … hence the number of LEB128 bytes of every 64-bit value -/
theorem varintLen_eq (v : Nat) (h : v < 2 ^ 64) : varintLen v = (Varint.encode v).length := by
  rw [varintLen_eq_sizeGo v h, Varint.sizeGo_eq v h]

theorem varintLen_eq_size (v : Nat) (h : v < 2 ^ 64) : varintLen v = Varint.size v := by
  rw [varintLen_eq v h, Varint.encode_length]

theorem size_ten (n : Nat) (h1 : 2 ^ 63 ≤ n) (h2 : n < 2 ^ 64) : Varint.size n = 10 := by
  rw [Varint.size_eq_log]
  have hn : n ≠ 0 := by omega
  have a : n.log2 < 64 := (Nat.log2_lt hn).2 h2
  have b : ¬ n.log2 < 63 := fun hlt => by have := (Nat.log2_lt hn).1 hlt; omega
  omega

/-! ### one link -/

theorem linkBody_length (l : C11.Link) :
    (encodeMsg (C11.linkFields l)).length =
      (1 + Varint.size l.cid.length + l.cid.length) + (1 + Varint.size l.name.length + l.name.length) +
      (1 + Varint.size (if l.size < 2 ^ 63 then l.size else 0)) := by
  simp only [C11.linkFields, encodeMsg, List.length_append, Field.encode_length, Field.byts, Field.vint,
    Val.wireType, Val.encode, lenDelim_length, Varint.encode_length, List.length_nil]
  have t1 : Varint.size (1 * 8 + 2) = 1 := Varint.size_small _ (by decide)
  have t2 : Varint.size (2 * 8 + 2) = 1 := Varint.size_small _ (by decide)
  have t3 : Varint.size (3 * 8 + 0) = 1 := Varint.size_small _ (by decide)
  rw [t1, t2, t3]; omega

theorem linkMsg_length (l : C11.Link) :
    (C11.linkMsg l).encode.length =
      1 + Varint.size (encodeMsg (C11.linkFields l)).length + (encodeMsg (C11.linkFields l)).length := by
  simp only [C11.linkMsg, Field.msg, Field.encode_length, Val.wireType, Val.encode, lenDelim_length]
  have t : Varint.size (2 * 8 + 2) = 1 := Varint.size_small _ (by decide)
  rw [t]; omega

/-- `linkSerializedSize` is the number of bytes the link occupies in the encoded PBNode -/
theorem linkSerializedSize_eq (l : C11.Link) (hs : l.size < 2 ^ 63)
    (hlen : (encodeMsg (C11.linkFields l)).length < 2 ^ 64) :
    linkSerializedSize l.name l.cid l.size = (C11.linkMsg l).encode.length := by
  have hb := linkBody_length l
  simp only [hs, if_true] at hb
  rw [linkMsg_length]
  unfold linkSerializedSize
  simp only []
  rw [varintLen_eq_size l.cid.length (by omega), varintLen_eq_size l.name.length (by omega),
    varintLen_eq_size l.size (by omega)]
  have hX : 1 + Varint.size l.cid.length + l.cid.length + 1 + Varint.size l.name.length + l.name.length + 1 +
      Varint.size l.size = (encodeMsg (C11.linkFields l)).length := by omega
  rw [hX, varintLen_eq_size _ hlen]

/-! ### the Data field of a directory created with (mode, mtime) -/

theorem dataField_length (d : Bytes) : (Field.byts 1 d).encode.length = 1 + Varint.size d.length + d.length := by
  simp only [Field.byts, Field.encode_length, Val.wireType, Val.encode, lenDelim_length]
  have t : Varint.size (1 * 8 + 2) = 1 := Varint.size_small _ (by decide)
  rw [t]; omega

theorem nodeDataFieldSize_eq (d : Option Bytes) (h : ∀ b, d = some b → b.length < 2 ^ 64) :
    nodeDataFieldSize d = (encodeMsg (C11.dataFields d)).length := by
  cases d with
  | none => simp [nodeDataFieldSize, C11.dataFields, encodeMsg]
  | some b =>
    simp only [nodeDataFieldSize, C11.dataFields, encodeMsg, List.length_append, List.length_nil,
      Nat.add_zero, dataField_length, varintLen_eq_size _ (h b rfl)]

theorem mtime_length (t : C18.Time) (hv : t.valid) :
    (encodeMsg (C18.mtimeFields (C18.mtimeOf t))).length =
      (if t.sec ≥ 0 then 1 + varintLen t.sec.toNat else 1 + 10) + (if t.nsec > 0 then 1 + 4 else 0) := by
  obtain ⟨h1, h2, _⟩ := hv
  have t1 : Varint.size (1 * 8 + 0) = 1 := Varint.size_small _ (by decide)
  have t2 : Varint.size (2 * 8 + 5) = 1 := Varint.size_small _ (by decide)
  have hsec : Varint.size (C18.int64ToU64 t.sec) = if t.sec ≥ 0 then varintLen t.sec.toNat else 10 := by
    unfold C18.int64ToU64
    split
    · next hp =>
      have : (t.sec % (2 ^ 64 : Int)).toNat = t.sec.toNat := by omega
      rw [this, varintLen_eq_size _ (by omega)]
    · next hn => exact size_ten _ (by omega) (by omega)
  by_cases hns : t.nsec > 0
  · simp only [C18.mtimeFields, C18.mtimeOf, hns, if_true, C18.optField, encodeMsg, List.length_append,
      List.cons_append, List.nil_append, Field.encode_length, Field.vint, Field.fix32, Val.wireType, Val.encode,
      Varint.encode_length, leBytes_length, List.length_nil, t1, t2, hsec]
    split <;> omega
  · simp only [C18.mtimeFields, C18.mtimeOf, hns, if_false, C18.optField, encodeMsg, List.length_append,
      List.cons_append, List.nil_append, List.append_nil, Field.encode_length, Field.vint, Val.wireType, Val.encode,
      Varint.encode_length, List.length_nil, t1, hsec]
    split <;> omega

end C17
