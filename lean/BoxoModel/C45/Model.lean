import BoxoModel.Lib.FS
/-!
# C45 — autoconf cache: model of `saveToCache` / `cleanupOldVersions` / `getCachedConfig` on `Lib.FS`

Transcribed from `/repo/autoconf/fetch.go` and `client.go` (functions named in the doc comments).
Every write is split into its file-system steps (`create`/`openTrunc`, one `append` per byte, `rename`,
`remove`); an update yields the list of all worlds it visits (`updateTrace`); a crash leaves the disk
in any one of them.

Parameters (not modelled): `parse` = `json.Unmarshal` into `autoconf.Config`, the result identified by
a number; the names `os.CreateTemp` picks (`tmps`); the clock (`now`, unix seconds).
The two flags select the code as it was before the `fix:` commit (`atomic = false`: `os.WriteFile`
directly on the final name; `fallbackOlder = false`: only the newest cache file is tried); the driver
and the theorems use the repaired code (`true`, `true`), the counterexample theorem the old one.
-/
namespace C45
open FS

abbrev Bytes := List UInt8

structure Params where
  parse : Bytes → Option Nat
  /-- `time.Parse(time.RFC3339, …)` of the `.last-refresh` content succeeds -/
  timeParses : Bytes → Bool := fun _ => true
  atomic : Bool := true
  fallbackOlder : Bool := true
  /-- second `fix:` commit: `cleanupOldVersions` keeps the newest `cacheSize` files that PARSE (before: the
  newest `cacheSize` names, usable or not) -/
  validCleanup : Bool := true
  /-- third `fix:` commit: `getCached` treats a missing / unparsable `.last-refresh` as "stale" (before: error) -/
  tolerantRefresh : Bool := true

def etagFile : String := ".etag"
def lastModifiedFile : String := ".last-modified"
def lastRefreshFile : String := ".last-refresh"
def filePerm : Nat := 0o600

def hasInfix (p : List Char) : List Char → Bool
  | [] => p.isEmpty
  | c :: cs => p.isPrefixOf (c :: cs) || hasInfix p cs

/-- `strings.HasSuffix(name, ".json") && strings.Contains(name, "autoconf-")` (listCacheFiles) -/
def isCacheName (s : String) : Bool :=
  ".json".toList.isSuffixOf s.toList && hasInfix "autoconf-".toList s.toList

/-- `fmt.Sprintf("autoconf-%d.json", timestamp)` -/
def cfgName (now : Nat) : String := "autoconf-" ++ toString now ++ ".json"

/-- insertion into a list sorted in descending order (structural, so that concrete cases evaluate in the kernel) -/
def insertDesc (a : String) : List String → List String
  | [] => [a]
  | b :: l => if b ≤ a then a :: b :: l else b :: insertDesc a l

/-- sort by name, descending — `slices.SortFunc(files, strings.Compare(b, a))`; names in one directory
are distinct, so every correct sorting algorithm returns the same list -/
def sortDesc : List String → List String
  | [] => []
  | a :: l => insertDesc a (sortDesc l)

/-- `listCacheFiles`: directory entries that are not directories and whose name matches, sorted by
name in descending order (`sortDesc`). -/
def listCacheFiles (w : World) (dir : Path) : Except Errno (List String) :=
  match readDirNames w dir with
  | .error e => .error e
  | .ok names =>
    let fs := names.filter fun nm =>
      (match lstat w (dir ++ [nm]) with | .ok n => n.kind != .dir | .error _ => true) && isCacheName nm
    .ok (sortDesc fs)

/-- `os.ReadFile` + `json.Unmarshal` of one cache file -/
def readParse (P : Params) (w : World) (dir : Path) (nm : String) : Option Nat :=
  match readFile w (dir ++ [nm]) with
  | .ok d => P.parse d
  | .error _ => none

/-- `getCachedConfig` (`none` = error ⇒ `GetCached` returns the fallback) -/
def getCachedConfig (P : Params) (w : World) (dir : Path) : Option Nat :=
  match listCacheFiles w dir with
  | .error _ => none
  | .ok files =>
    if P.fallbackOlder then files.findSome? (readParse P w dir)
    else match files with
      | [] => none
      | f :: _ => readParse P w dir f

/-- `isNewPayload` -/
def isNewPayload (w : World) (dir : Path) (data : Bytes) : Bool :=
  match listCacheFiles w dir with
  | .error _ => true
  | .ok [] => true
  | .ok (f :: _) =>
    match readFile w (dir ++ [f]) with
    | .error _ => true
    | .ok d => d != data

/-- result of a traced operation: the worlds visited (in order), the last world, success -/
structure Tr where
  visited : List World
  last : World
  ok : Bool
  /-- directory-level operations performed, `(kind, name, name2)` with kind ∈ create | write | rename |
  remove — compared with what inotify reports for the real code; plays no role in the theorems -/
  log : List (String × String × String) := []

def Tr.andThen (a : Tr) (f : World → Tr) : Tr :=
  let b := f a.last
  { visited := a.visited ++ b.visited, last := b.last, ok := b.ok, log := a.log ++ b.log }

def lastOr (w : World) (ws : List World) : World := ws.getLast?.getD w

/-- `writeOwnerOnlyFile(filename, data)`.
repaired: `os.CreateTemp(dir, ".tmp-*")`, `Write`, `Close`, `os.Rename(tmp, filename)` (on error `os.Remove(tmp)`);
before: `os.WriteFile(filename, data, 0600)` = `open(O_CREAT|O_TRUNC)` + write. -/
def writeOwnerOnlyFile (P : Params) (w : World) (dir : Path) (tmp name : String) (data : Bytes) : Tr :=
  if P.atomic then
    let r1 := create w (dir ++ [tmp]) filePerm
    match r1.2 with
    | some _ => { visited := [], last := w, ok := false }
    | none =>
      let ws := appendTrace r1.1 (dir ++ [tmp]) data
      let w2 := lastOr r1.1 ws
      let lg := [("create", tmp, "")] ++ (if data.isEmpty then [] else [("write", tmp, "")])
      if ws.length != data.length then
        let r3 := remove w2 (dir ++ [tmp])
        { visited := r1.1 :: ws ++ [r3.1], last := r3.1, ok := false, log := lg ++ [("remove", tmp, "")] }
      else
        let r3 := rename w2 (dir ++ [tmp]) (dir ++ [name])
        match r3.2 with
        | none => { visited := r1.1 :: ws ++ [r3.1], last := r3.1, ok := true, log := lg ++ [("rename", tmp, name)] }
        | some _ =>
          let r4 := remove r3.1 (dir ++ [tmp])
          { visited := r1.1 :: ws ++ [r4.1], last := r4.1, ok := false, log := lg ++ [("remove", tmp, "")] }
  else
    let existed := match lstat w (dir ++ [name]) with | .ok _ => true | .error _ => false
    let r1 := openTrunc w (dir ++ [name]) filePerm
    match r1.2 with
    | some _ => { visited := [], last := w, ok := false }
    | none =>
      let ws := appendTrace r1.1 (dir ++ [name]) data
      { visited := r1.1 :: ws, last := lastOr r1.1 ws, ok := ws.length == data.length,
        log := (if existed then [] else [("create", name, "")]) ++ [("write", name, "")] }

/-- the four temp names one update may use -/
structure Tmps where
  cfg : String
  etag : String
  lm : String
  refresh : String

/-- `saveToCache`: the config file first (an error here returns), then the three metadata files
(errors only logged). -/
def saveToCache (P : Params) (w : World) (dir : Path) (T : Tmps) (now : Nat) (data etag lm refresh : Bytes) : Tr :=
  let t1 := writeOwnerOnlyFile P w dir T.cfg (cfgName now) data
  if !t1.ok then t1
  else
    let t2 := if etag.isEmpty then t1 else t1.andThen fun w => writeOwnerOnlyFile P w dir T.etag etagFile etag
    let t3 := if lm.isEmpty then t2 else t2.andThen fun w => writeOwnerOnlyFile P w dir T.lm lastModifiedFile lm
    let t4 := t3.andThen fun w => writeOwnerOnlyFile P w dir T.refresh lastRefreshFile refresh
    { visited := t4.visited, last := t4.last, ok := true, log := t4.log }

def removeAll (w : World) (dir : Path) : List String → Tr
  | [] => { visited := [], last := w, ok := true }
  | f :: fs =>
    let r := remove w (dir ++ [f])
    match r.2 with
    | some _ => { visited := [], last := w, ok := false }
    | none =>
      let t := removeAll r.1 dir fs
      { visited := r.1 :: t.visited, last := t.last, ok := t.ok, log := ("remove", f, "") :: t.log }

/-- the repaired cleanup loop: walk the names newest first, keep a file while fewer than `cacheSize` usable
ones have been kept and it parses, remove every other one (an error stops the loop) -/
def cleanupLoop (P : Params) (dir : Path) (cacheSize : Nat) : World → Nat → List String → Tr
  | w, _, [] => { visited := [], last := w, ok := true }
  | w, kept, f :: fs =>
    if kept < cacheSize && (readParse P w dir f).isSome then cleanupLoop P dir cacheSize w (kept + 1) fs
    else
      let r := remove w (dir ++ [f])
      match r.2 with
      | some _ => { visited := [], last := w, ok := false }
      | none =>
        let t := cleanupLoop P dir cacheSize r.1 kept fs
        { visited := r.1 :: t.visited, last := t.last, ok := t.ok, log := ("remove", f, "") :: t.log }

/-- `cleanupOldVersions` -/
def cleanupOldVersions (P : Params) (w : World) (dir : Path) (cacheSize : Nat) : Tr :=
  match listCacheFiles w dir with
  | .error _ => { visited := [], last := w, ok := false }
  | .ok files =>
    if files.length ≤ cacheSize then { visited := [], last := w, ok := true }
    else if P.validCleanup then cleanupLoop P dir cacheSize w 0 files
    else removeAll w dir (files.drop cacheSize)

/-- `readLastRefresh` succeeds -/
def lastRefreshOK (P : Params) (w : World) (dir : Path) : Bool :=
  match readFile w (dir ++ [lastRefreshFile]) with
  | .ok d => P.timeParses d
  | .error _ => false

/-- `GetCachedOrRefresh` when the network side of the refresh fails: `getLatest` calls `getCached` (config
plus last-refresh time), the fetch returns an error, the (stale) cached response is used if `getCached`
succeeded, otherwise `getLatest` fails and the fallback is returned (`none`). -/
def getCachedOrRefreshOffline (P : Params) (w : World) (dir : Path) : Option Nat :=
  match getCachedConfig P w dir with
  | none => none
  | some v => if P.tolerantRefresh || lastRefreshOK P w dir then some v else none

/-- the cache-writing part of one successful fetch (`fetchFromRemoteRaw` after validation, then
`getLatest`'s cleanup): `isNewPayload` gate, `saveToCache` (its error is only logged), `cleanupOldVersions`. -/
def update (P : Params) (w : World) (dir : Path) (T : Tmps) (cacheSize now : Nat)
    (data etag lm refresh : Bytes) : Tr :=
  let t1 : Tr := if isNewPayload w dir data then saveToCache P w dir T now data etag lm refresh
                 else { visited := [], last := w, ok := true }
  t1.andThen fun w => cleanupOldVersions P w dir cacheSize

end C45
