import BoxoModel.C45.Model
import BoxoModel.Lib.FSLemmas
/-! Helper lemmas for C45 (the property theorems are in `Props/C45.lean`). -/
namespace C45
open FS

/-- the cache directory is a real directory (no symlink on the way) containing regular files only -/
structure Inv (w : World) (dir : Path) : Prop where
  lex : LexDir w dir
  files : ∀ nm n, find w (dir ++ [nm]) = some n → n.kind = .file

theorem isCacheName_simple {nm : String} (h : isCacheName nm = true) : simple nm = true := by
  rw [simple_iff]
  refine ⟨?_, ?_, ?_⟩ <;> (intro e; subst e; revert h; decide)

theorem Inv.notLink {w : World} {dir : Path} (I : Inv w dir) (nm : String) :
    isLink (find w (dir ++ [nm])) = false := by
  cases hf : find w (dir ++ [nm]) with
  | none => rfl
  | some n => simp [isLink, I.files nm n hf]

theorem insertDesc_perm (a : String) : ∀ l : List String, (insertDesc a l).Perm (a :: l)
  | [] => List.Perm.refl _
  | b :: l => by
    unfold insertDesc
    split
    · exact List.Perm.refl _
    · exact ((insertDesc_perm a l).cons b).trans (List.Perm.swap a b l)

theorem sortDesc_perm : ∀ l : List String, (sortDesc l).Perm l
  | [] => List.Perm.refl _
  | a :: l => (insertDesc_perm a (sortDesc l)).trans ((sortDesc_perm l).cons a)

theorem insertDesc_sorted (a : String) : ∀ l : List String, l.Pairwise (fun x y => y ≤ x) →
    (insertDesc a l).Pairwise (fun x y => y ≤ x)
  | [], _ => by simp [insertDesc]
  | b :: l, h => by
    unfold insertDesc
    have hb := List.pairwise_cons.mp h
    split
    · rename_i hba
      refine List.pairwise_cons.mpr ⟨fun y hy => ?_, h⟩
      rcases List.mem_cons.mp hy with e | e
      · rw [e]; exact hba
      · exact String.le_trans (hb.1 y e) hba
    · rename_i hba
      have hab : a ≤ b := by
        rcases String.le_total a b with x | x
        · exact x
        · exact absurd x hba
      refine List.pairwise_cons.mpr ⟨fun y hy => ?_, insertDesc_sorted a l hb.2⟩
      rcases List.mem_cons.mp ((insertDesc_perm a l).mem_iff.mp hy) with e | e
      · rw [e]; exact hab
      · exact hb.1 y e

theorem sortDesc_sorted : ∀ l : List String, (sortDesc l).Pairwise (fun x y => y ≤ x)
  | [] => by simp [sortDesc]
  | a :: l => insertDesc_sorted a _ (sortDesc_sorted l)

/-- the sorted list of cache-file names -/
def cacheList (w : World) (dir : Path) : List String :=
  sortDesc ((childNames w dir).filter isCacheName)

theorem listCacheFiles_eq {w : World} {dir : Path} (I : Inv w dir) :
    listCacheFiles w dir = .ok (cacheList w dir) := by
  unfold listCacheFiles cacheList
  rw [readDirNames_lexdir I.lex]
  simp only
  congr 2
  apply List.filter_congr
  intro nm hm
  by_cases hc : isCacheName nm = true
  · have hs := isCacheName_simple hc
    rw [lstat_entry I.lex nm hs]
    cases hf : find w (dir ++ [nm]) with
    | none => simp [hc]
    | some n => simp [hc, I.files nm n hf]
  · simp [hc]

theorem mem_cacheList (w : World) (dir : Path) (nm : String) :
    nm ∈ cacheList w dir ↔ isCacheName nm = true ∧ (find w (dir ++ [nm])).isSome = true := by
  unfold cacheList
  rw [(sortDesc_perm _).mem_iff, List.mem_filter, mem_childNames]
  exact And.comm

theorem nodup_cacheList (w : World) (dir : Path) : (cacheList w dir).Nodup := by
  unfold cacheList
  exact (sortDesc_perm _).symm.nodup (List.filter_sublist.nodup (nodup_childNames w dir))

theorem sorted_cacheList (w : World) (dir : Path) : (cacheList w dir).Pairwise fun a b => b ≤ a :=
  sortDesc_sorted _

/-- `readParse` of a present cache file: parse of its bytes -/
theorem readParse_entry (P : Params) {w : World} {dir : Path} (I : Inv w dir) (nm : String)
    (hs : simple nm = true) :
    readParse P w dir nm = match find w (dir ++ [nm]) with | some n => P.parse n.data | none => none := by
  unfold readParse readFile
  rw [stat_entry I.lex nm hs (I.notLink nm)]
  cases hf : find w (dir ++ [nm]) with
  | none => rfl
  | some n => simp [I.files nm n hf]

theorem getCached_eq (P : Params) (hP : P.fallbackOlder = true) {w : World} {dir : Path} (I : Inv w dir) :
    getCachedConfig P w dir = (cacheList w dir).findSome? (readParse P w dir) := by
  simp [getCachedConfig, listCacheFiles_eq I, hP]

/-- two worlds that agree on every cache-named entry have the same cache list -/
theorem cacheList_congr {w w' : World} {dir : Path}
    (h : ∀ nm, isCacheName nm = true → find w' (dir ++ [nm]) = find w (dir ++ [nm])) :
    cacheList w' dir = cacheList w dir := by
  apply List.Perm.eq_of_pairwise (le := fun a b => b ≤ a)
  · intro a b _ _ h1 h2; exact String.le_antisymm h2 h1
  · exact sorted_cacheList w' dir
  · exact sorted_cacheList w dir
  · rw [List.perm_ext_iff_of_nodup (nodup_cacheList w' dir) (nodup_cacheList w dir)]
    intro a
    rw [mem_cacheList, mem_cacheList]
    constructor
    · rintro ⟨h1, h2⟩; exact ⟨h1, by rw [← h a h1]; exact h2⟩
    · rintro ⟨h1, h2⟩; exact ⟨h1, by rw [h a h1]; exact h2⟩

theorem findSome_congr {α β : Type} (f g : α → Option β) : ∀ (l : List α), (∀ a ∈ l, f a = g a) →
    l.findSome? f = l.findSome? g
  | [], _ => rfl
  | a :: l, h => by
    simp only [List.findSome?_cons, h a (by simp)]
    cases g a with
    | some _ => rfl
    | none => exact findSome_congr f g l (fun b hb => h b (by simp [hb]))

theorem getCached_congr (P : Params) (hP : P.fallbackOlder = true) {w w' : World} {dir : Path}
    (I : Inv w dir) (I' : Inv w' dir)
    (h : ∀ nm, isCacheName nm = true → find w' (dir ++ [nm]) = find w (dir ++ [nm])) :
    getCachedConfig P w' dir = getCachedConfig P w dir := by
  rw [getCached_eq P hP I, getCached_eq P hP I', cacheList_congr h]
  apply findSome_congr
  intro nm hm
  have hc := ((mem_cacheList w dir nm).mp hm).1
  rw [readParse_entry P I nm (isCacheName_simple hc), readParse_entry P I' nm (isCacheName_simple hc), h nm hc]

/-- a present, parsing cache file whose name is the greatest is what `getCachedConfig` returns -/
theorem getCached_top (P : Params) (hP : P.fallbackOlder = true) {w : World} {dir : Path} (I : Inv w dir)
    (top : String) (n : Node) (v : Nat) (hc : isCacheName top = true)
    (hf : find w (dir ++ [top]) = some n) (hv : P.parse n.data = some v)
    (hmax : ∀ nm, isCacheName nm = true → (find w (dir ++ [nm])).isSome = true → nm ≤ top) :
    getCachedConfig P w dir = some v := by
  rw [getCached_eq P hP I]
  have hmem : top ∈ cacheList w dir := (mem_cacheList w dir top).mpr ⟨hc, by simp [hf]⟩
  have hsorted := sorted_cacheList w dir
  cases hL : cacheList w dir with
  | nil => rw [hL] at hmem; simp at hmem
  | cons x rest =>
    rw [hL] at hmem hsorted
    have hx : x = top := by
      have hxm : x ∈ cacheList w dir := by rw [hL]; simp
      have h1 : x ≤ top := by
        have := (mem_cacheList w dir x).mp hxm
        exact hmax x this.1 this.2
      rcases List.mem_cons.mp hmem with e | e
      · exact e.symm
      · exact String.le_antisymm h1 ((List.pairwise_cons.mp hsorted).1 top e)
    subst hx
    simp [readParse_entry P I x (isCacheName_simple hc), hf, hv]

theorem head_cacheList_max {w : World} {dir : Path} {x : String} {rest : List String}
    (hL : cacheList w dir = x :: rest) (nm : String) (hc : isCacheName nm = true)
    (hp : (find w (dir ++ [nm])).isSome = true) : nm ≤ x := by
  have hm : nm ∈ cacheList w dir := (mem_cacheList w dir nm).mpr ⟨hc, hp⟩
  rw [hL] at hm
  rcases List.mem_cons.mp hm with e | e
  · subst e; exact String.le_refl _
  · have := sorted_cacheList w dir
    rw [hL] at this
    exact (List.pairwise_cons.mp this).1 nm e

/-! ### effect of the single steps on the entries of the cache directory -/

/-- `w'` is again a good cache directory and differs from `w` only in the entries named in `S`
(and in the mtime of the directories on the way) -/
structure Upd (w w' : World) (dir : Path) (S : List String) : Prop where
  inv : Inv w' dir
  frame : ∀ nm, nm ∉ S → find w' (dir ++ [nm]) = find w (dir ++ [nm])

theorem Upd.refl {w : World} {dir : Path} (I : Inv w dir) (S : List String) : Upd w w dir S := ⟨I, fun _ _ => rfl⟩

theorem Upd.trans {w w' w'' : World} {dir : Path} {S S' : List String} (h1 : Upd w w' dir S) (h2 : Upd w' w'' dir S') :
    Upd w w'' dir (S ++ S') :=
  ⟨h2.inv, fun nm hn => by
    rw [h2.frame nm (fun h => hn (List.mem_append_right _ h)), h1.frame nm (fun h => hn (List.mem_append_left _ h))]⟩

theorem Upd.mono {w w' : World} {dir : Path} {S S' : List String} (h : Upd w w' dir S) (hs : ∀ a ∈ S, a ∈ S') :
    Upd w w' dir S' := ⟨h.inv, fun nm hn => h.frame nm (fun hm => hn (hs nm hm))⟩

theorem prefix_ne_entry {dir pre : Path} (hp : pre <+: dir) (nm : String) : pre ≠ dir ++ [nm] := by
  intro e
  have := hp.length_le
  rw [e] at this; simp at this; omega

/-- inserting a regular file at an entry and touching the directory keeps the invariant -/
theorem inv_insert {w : World} {dir : Path} (I : Inv w dir) (nm : String) (n : Node) (hk : n.kind = .file) :
    Upd w (touch (AMap.insert w (dir ++ [nm]) n) dir) dir [nm] := by
  refine ⟨⟨I.lex.of_eqv fun pre hp => ?_, fun nm' n' hf => ?_⟩, fun nm' hn => ?_⟩
  · rw [find_insert_touch]
    simp only [prefix_ne_entry hp nm, if_false]
    by_cases e : pre = dir
    · subst e; simp only [if_true]; unfold Eqv; cases find w pre <;> simp [clearM]
    · simp [e, Eqv.refl]
  · rw [find_insert_touch] at hf
    by_cases e : nm' = nm
    · subst e; simp at hf; subst hf; exact hk
    · have : dir ++ [nm'] ≠ dir ++ [nm] := by simpa using e
      simp only [this, if_false, (ne_concat dir nm').symm] at hf
      exact I.files nm' n' hf
  · have e : nm' ≠ nm := by simpa using hn
    rw [find_insert_touch]
    have : dir ++ [nm'] ≠ dir ++ [nm] := by simpa using e
    simp [this, (ne_concat dir nm').symm]

theorem find_insert_entry (w : World) (dir : Path) (nm : String) (n : Node) :
    find (touch (AMap.insert w (dir ++ [nm]) n) dir) (dir ++ [nm]) = some n := by
  rw [find_insert_touch]; simp

theorem inv_erase {w : World} {dir : Path} (I : Inv w dir) (nm : String) :
    Upd w (touch (AMap.erase w (dir ++ [nm])) dir) dir [nm] := by
  refine ⟨⟨I.lex.of_eqv fun pre hp => ?_, fun nm' n' hf => ?_⟩, fun nm' hn => ?_⟩
  · rw [find_erase_touch]
    simp only [prefix_ne_entry hp nm, if_false]
    by_cases e : pre = dir
    · subst e; simp only [if_true]; unfold Eqv; cases find w pre <;> simp [clearM]
    · simp [e, Eqv.refl]
  · rw [find_erase_touch] at hf
    by_cases e : nm' = nm
    · subst e; simp at hf
    · have : dir ++ [nm'] ≠ dir ++ [nm] := by simpa using e
      simp only [this, if_false, (ne_concat dir nm').symm] at hf
      exact I.files nm' n' hf
  · have e : nm' ≠ nm := by simpa using hn
    rw [find_erase_touch]
    have : dir ++ [nm'] ≠ dir ++ [nm] := by simpa using e
    simp [this, (ne_concat dir nm').symm]

theorem find_erase_entry (w : World) (dir : Path) (nm : String) :
    find (touch (AMap.erase w (dir ++ [nm])) dir) (dir ++ [nm]) = none := by
  rw [find_erase_touch]; simp

/-- inserting at an entry WITHOUT touching the directory (write to an existing file) -/
theorem inv_insert' {w : World} {dir : Path} (I : Inv w dir) (nm : String) (n : Node) (hk : n.kind = .file) :
    Upd w (AMap.insert w (dir ++ [nm]) n) dir [nm] := by
  refine ⟨⟨I.lex.of_eqv fun pre hp => ?_, fun nm' n' hf => ?_⟩, fun nm' hn => ?_⟩
  · rw [find_insert]; simp [(prefix_ne_entry hp nm).symm, Eqv.refl]
  · rw [find_insert] at hf
    by_cases e : nm' = nm
    · subst e; simp at hf; subst hf; exact hk
    · have : dir ++ [nm] ≠ dir ++ [nm'] := by simpa using fun h => e h.symm
      simp only [this, if_false] at hf
      exact I.files nm' n' hf
  · have e : nm' ≠ nm := by simpa using hn
    rw [find_insert]
    have : dir ++ [nm] ≠ dir ++ [nm'] := by simpa using fun h => e h.symm
    simp [this]

/-- byte-by-byte appends to the regular file `nm`: every visited world differs from the start only at
`nm`; all bytes get written -/
theorem appendTrace_spec {dir : Path} (nm : String) (hs : simple nm = true) :
    ∀ (data : Bytes) (w : World) (n : Node), Inv w dir → find w (dir ++ [nm]) = some n →
      (appendTrace w (dir ++ [nm]) data).length = data.length ∧
      (∀ w' ∈ appendTrace w (dir ++ [nm]) data, Upd w w' dir [nm]) ∧
      Upd w (lastOr w (appendTrace w (dir ++ [nm]) data)) dir [nm] ∧
      ∃ n', find (lastOr w (appendTrace w (dir ++ [nm]) data)) (dir ++ [nm]) = some n' ∧ n'.data = n.data ++ data := by
  intro data
  induction data with
  | nil =>
    intro w n I hf
    simp [appendTrace, lastOr, Upd.refl I, hf]
  | cons b bs ih =>
    intro w n I hf
    have hk := I.files nm n hf
    have hstep : append w (dir ++ [nm]) [b] =
        (AMap.insert w (dir ++ [nm]) { n with data := n.data ++ [b], mtime := none }, none) := by
      rw [append_entry I.lex nm hs (I.notLink nm)]
      simp [pAppend, hf, hk]
    let w1 := AMap.insert w (dir ++ [nm]) { n with data := n.data ++ [b], mtime := none }
    have U1 : Upd w w1 dir [nm] := inv_insert' I nm _ hk
    have hf1 : find w1 (dir ++ [nm]) = some { n with data := n.data ++ [b], mtime := none } := by
      simp [w1, find_insert]
    obtain ⟨hl, hv, hlast, n', hn', hd'⟩ := ih w1 _ U1.inv hf1
    have hT : appendTrace w (dir ++ [nm]) (b :: bs) = w1 :: appendTrace w1 (dir ++ [nm]) bs := by
      simp [appendTrace, hstep, w1]
    have hLast : lastOr w (w1 :: appendTrace w1 (dir ++ [nm]) bs) = lastOr w1 (appendTrace w1 (dir ++ [nm]) bs) := by
      unfold lastOr
      cases appendTrace w1 (dir ++ [nm]) bs with
      | nil => simp
      | cons x xs => simp [List.getLast?_cons_cons, List.getLast?_eq_some_getLast (List.cons_ne_nil x xs)]
    rw [hT, hLast]
    refine ⟨by simp [hl], ?_, ?_, n', hn', by simp [hd']⟩
    · intro w' hw'
      rcases List.mem_cons.mp hw' with e | e
      · subst e; exact U1
      · exact (U1.trans (hv w' e)).mono (by simp)
    · exact (U1.trans hlast).mono (by simp)

/-- `find` after renaming the regular file `tmp` to `name` inside the directory -/
theorem find_rename (w : World) (dir : Path) (tmp name : String) (n : Node) (p : Path) :
    find (touch (touch (AMap.insert (AMap.erase w (dir ++ [tmp])) (dir ++ [name]) n) dir) dir) p =
      if p = dir ++ [name] then some n else if p = dir ++ [tmp] then none
      else if p = dir then (find w dir).map clearM else find w p := by
  rw [find_touch, find_insert_touch, find_insert_touch]
  by_cases h1 : p = dir ++ [name]
  · subst h1; simp [ne_concat]
  · by_cases h3 : p = dir
    · subst h3
      simp only [(ne_concat p name).symm, (ne_concat p tmp).symm, if_false, if_true, find_erase]
      cases find w p <;> simp [clearM]
    · have h3' : ¬ dir = p := fun e => h3 e.symm
      simp only [h1, h3, h3', if_false, find_erase]
      by_cases h2 : p = dir ++ [tmp]
      · subst h2; simp
      · have : ¬ dir ++ [tmp] = p := fun e => h2 e.symm
        simp [h2, this]

theorem pRename_file {w : World} {dir : Path} (I : Inv w dir) (tmp name : String) (hne : tmp ≠ name) (n : Node)
    (hf : find w (dir ++ [tmp]) = some n) :
    pRename w (dir ++ [tmp]) (dir ++ [name]) =
      (touch (touch (AMap.insert (AMap.erase w (dir ++ [tmp])) (dir ++ [name]) n) dir) dir, none) := by
  have hk := I.files tmp n hf
  have h1 : (dir ++ [tmp] == dir ++ [name]) = false := by simpa using hne
  have h2 : (dir ++ [tmp]).isPrefixOf (dir ++ [name]) = false := by
    rw [Bool.eq_false_iff]; intro h
    rw [List.isPrefixOf_iff_prefix] at h
    have := List.IsPrefix.eq_of_length h (by simp)
    exact hne (by simpa using this)
  unfold pRename
  simp only [hf, h1, h2, Bool.false_eq_true, if_false, hk, List.dropLast_concat]
  cases hd : find w (dir ++ [name]) with
  | none => simp
  | some m => simp [I.files name m hd]

theorem upd_rename {w : World} {dir : Path} (I : Inv w dir) (tmp name : String) (n : Node) (hk : n.kind = .file) :
    Upd w (touch (touch (AMap.insert (AMap.erase w (dir ++ [tmp])) (dir ++ [name]) n) dir) dir) dir [tmp, name] := by
  refine ⟨⟨I.lex.of_eqv fun pre hp => ?_, fun nm' n' hf => ?_⟩, fun nm' hn => ?_⟩
  · rw [find_rename]
    simp only [prefix_ne_entry hp name, prefix_ne_entry hp tmp, if_false]
    by_cases e : pre = dir
    · subst e; simp only [if_true]; unfold Eqv; cases find w pre <;> simp [clearM]
    · simp [e, Eqv.refl]
  · rw [find_rename] at hf
    by_cases e1 : nm' = name
    · subst e1; simp at hf; subst hf; exact hk
    · by_cases e2 : nm' = tmp
      · subst e2; simp [e1] at hf
      · simp only [List.append_cancel_left_eq, List.cons.injEq, and_true, e1, e2, if_false,
          (ne_concat dir nm').symm] at hf
        exact I.files nm' n' hf
  · simp only [List.mem_cons, List.not_mem_nil, or_false, not_or] at hn
    rw [find_rename]
    simp [hn.1, hn.2, (ne_concat dir nm').symm]

/-- the repaired `writeOwnerOnlyFile` with a fresh temp name: succeeds; every world before the final rename
differs from the start only in the temp entry; the final world only in `name`, which holds `data`. -/
theorem wof_spec (P : Params) (hA : P.atomic = true) {w : World} {dir : Path} (I : Inv w dir)
    (tmp name : String) (hst : simple tmp = true) (hsn : simple name = true) (hne : tmp ≠ name)
    (hfresh : find w (dir ++ [tmp]) = none) (data : Bytes) :
    (writeOwnerOnlyFile P w dir tmp name data).ok = true ∧
    (∀ w' ∈ (writeOwnerOnlyFile P w dir tmp name data).visited,
        w' = (writeOwnerOnlyFile P w dir tmp name data).last ∨ Upd w w' dir [tmp]) ∧
    Upd w (writeOwnerOnlyFile P w dir tmp name data).last dir [name] ∧
    ∃ n, find (writeOwnerOnlyFile P w dir tmp name data).last (dir ++ [name]) = some n ∧ n.data = data := by
  obtain ⟨w1, hw1⟩ : ∃ w1, w1 = touch (AMap.insert w (dir ++ [tmp]) (fileNode filePerm)) dir := ⟨_, rfl⟩
  have hc : create w (dir ++ [tmp]) filePerm = (w1, none) := by
    rw [create_entry I.lex tmp hst, hw1]; simp [pCreate, hfresh]
  have U1 : Upd w w1 dir [tmp] := by rw [hw1]; exact inv_insert I tmp _ rfl
  have hf1 : find w1 (dir ++ [tmp]) = some (fileNode filePerm) := by rw [hw1]; exact find_insert_entry w dir tmp _
  obtain ⟨hl, hv, hlast, n', hn', hd'⟩ := appendTrace_spec tmp hst data w1 _ U1.inv hf1
  obtain ⟨ws, hws⟩ : ∃ ws, ws = appendTrace w1 (dir ++ [tmp]) data := ⟨_, rfl⟩
  obtain ⟨w2, hw2⟩ : ∃ w2, w2 = lastOr w1 ws := ⟨_, rfl⟩
  rw [← hws] at hl hv hlast hn'
  rw [← hw2] at hlast hn'
  have hk' := hlast.inv.files tmp n' hn'
  obtain ⟨w3, hw3⟩ : ∃ w3, w3 = touch (touch (AMap.insert (AMap.erase w2 (dir ++ [tmp])) (dir ++ [name]) n') dir) dir := ⟨_, rfl⟩
  have hr : rename w2 (dir ++ [tmp]) (dir ++ [name]) = (w3, none) := by
    rw [rename_entry hlast.inv.lex tmp hst name hsn, hw3]
    exact pRename_file hlast.inv tmp name hne n' hn'
  have U3 : Upd w2 w3 dir [tmp, name] := by rw [hw3]; exact upd_rename hlast.inv tmp name n' hk'
  have hT : writeOwnerOnlyFile P w dir tmp name data =
      { visited := w1 :: ws ++ [w3], last := w3, ok := true,
        log := [("create", tmp, "")] ++ (if data.isEmpty then [] else [("write", tmp, "")]) ++ [("rename", tmp, name)] } := by
    unfold writeOwnerOnlyFile
    simp only [hA, if_true, hc, ← hws, ← hw2, hl, bne_self_eq_false, Bool.false_eq_true, if_false, hr]
  rw [hT]
  have hw3name : find w3 (dir ++ [name]) = some n' := by
    rw [hw3, find_rename]; simp
  have hw3tmp : find w3 (dir ++ [tmp]) = none := by
    rw [hw3, find_rename]; simp [hne]
  refine ⟨rfl, ?_, ⟨U3.inv, ?_⟩, n', hw3name, by simpa [fileNode] using hd'⟩
  · intro w' hw'
    simp only [List.cons_append, List.mem_cons, List.mem_append, List.not_mem_nil, or_false] at hw'
    rcases hw' with e | e | e
    · subst e; exact Or.inr U1
    · exact Or.inr ((U1.trans (hv w' e)).mono (by simp))
    · exact Or.inl e
  · intro nm hn
    have hn' : nm ≠ name := by simpa using hn
    by_cases e : nm = tmp
    · subst e; rw [hw3tmp, hfresh]
    · rw [U3.frame nm (by simp [e, hn']), hlast.frame nm (by simp [e]), U1.frame nm (by simp [e])]

/-! ### the states after the new config file is in place -/

theorem isCacheName_cfgName (now : Nat) : isCacheName (cfgName now) = true := by
  unfold isCacheName cfgName
  simp only [String.toList_append, Bool.and_eq_true]
  constructor
  · rw [List.isSuffixOf_iff_suffix]; exact List.suffix_append _ _
  · have : ∀ (r : List Char), hasInfix "autoconf-".toList ("autoconf-".toList ++ r) = true := by
      intro r
      have hp : "autoconf-".toList.isPrefixOf ("autoconf-".toList ++ r) = true := by
        rw [List.isPrefixOf_iff_prefix]; exact List.prefix_append _ _
      cases hr : "autoconf-".toList ++ r with
      | nil => simp at hr
      | cons c cs => rw [hr] at hp; simp only [hasInfix, hp, Bool.true_or]
    rw [List.append_assoc]; exact this _

/-- the greatest cache file is `top`, it is present and parses to `v` -/
structure Good (P : Params) (w : World) (dir : Path) (top : String) (v : Nat) : Prop where
  inv : Inv w dir
  cache : isCacheName top = true
  present : ∃ n, find w (dir ++ [top]) = some n ∧ P.parse n.data = some v
  max : ∀ nm, isCacheName nm = true → (find w (dir ++ [nm])).isSome = true → nm ≤ top

theorem Good.get {P : Params} (hP : P.fallbackOlder = true) {w : World} {dir : Path} {top : String} {v : Nat}
    (G : Good P w dir top v) : getCachedConfig P w dir = some v := by
  obtain ⟨n, hf, hv⟩ := G.present
  exact getCached_top P hP G.inv top n v G.cache hf hv G.max

theorem Good.step {P : Params} {w w' : World} {dir : Path} {top : String} {v : Nat} (G : Good P w dir top v)
    (I' : Inv w' dir) (ht : find w' (dir ++ [top]) = find w (dir ++ [top]))
    (hs : ∀ nm, isCacheName nm = true → (find w' (dir ++ [nm])).isSome = true → (find w (dir ++ [nm])).isSome = true) :
    Good P w' dir top v :=
  ⟨I', G.cache, by rw [ht]; exact G.present, fun nm hc hp => G.max nm hc (hs nm hc hp)⟩

theorem Good.of_upd {P : Params} {w w' : World} {dir : Path} {top : String} {v : Nat} (G : Good P w dir top v)
    {S : List String} (U : Upd w w' dir S) (hS : ∀ a ∈ S, isCacheName a = false) : Good P w' dir top v := by
  have hfr : ∀ nm, isCacheName nm = true → find w' (dir ++ [nm]) = find w (dir ++ [nm]) := fun nm hc =>
    U.frame nm (fun hm => by rw [hS nm hm] at hc; exact Bool.noConfusion hc)
  exact G.step U.inv (hfr top G.cache) (fun nm hc hp => by rw [← hfr nm hc]; exact hp)

theorem Good.head {P : Params} {w : World} {dir : Path} {top : String} {v : Nat} (G : Good P w dir top v) :
    ∃ rest, cacheList w dir = top :: rest := by
  obtain ⟨n, hf, _⟩ := G.present
  have hmem : top ∈ cacheList w dir := (mem_cacheList w dir top).mpr ⟨G.cache, by simp [hf]⟩
  have hsorted := sorted_cacheList w dir
  cases hL : cacheList w dir with
  | nil => rw [hL] at hmem; simp at hmem
  | cons x rest =>
    rw [hL] at hmem hsorted
    have hxm : x ∈ cacheList w dir := by rw [hL]; simp
    have h1 : x ≤ top := by
      have := (mem_cacheList w dir x).mp hxm
      exact G.max x this.1 this.2
    rcases List.mem_cons.mp hmem with e | e
    · exact ⟨rest, by rw [e]⟩
    · have := String.le_antisymm h1 ((List.pairwise_cons.mp hsorted).1 top e)
      exact ⟨rest, by rw [this]⟩

/-- conditions on a temp name: ordinary, not a cache-file name, none of the metadata names, unused -/
structure TmpOK (w : World) (dir : Path) (tmp : String) : Prop where
  simple : simple tmp = true
  notCache : isCacheName tmp = false
  ne1 : tmp ≠ etagFile
  ne2 : tmp ≠ lastModifiedFile
  ne3 : tmp ≠ lastRefreshFile
  fresh : find w (dir ++ [tmp]) = none

theorem TmpOK.of_upd {w w' : World} {dir : Path} {tmp : String} (h : TmpOK w dir tmp) {S : List String}
    (U : Upd w w' dir S) (hS : tmp ∉ S) : TmpOK w' dir tmp :=
  { h with fresh := by rw [U.frame tmp hS]; exact h.fresh }

/-- writing a metadata file (non-cache name) from a good state: all visited states are good -/
theorem good_wof (P : Params) (hA : P.atomic = true) {w : World} {dir : Path} {top : String} {v : Nat}
    (G : Good P w dir top v) (tmp name : String) (hT : TmpOK w dir tmp) (hsn : simple name = true)
    (hnc : isCacheName name = false) (hne : tmp ≠ name) (data : Bytes) :
    (∀ w' ∈ (writeOwnerOnlyFile P w dir tmp name data).visited, Good P w' dir top v) ∧
    Good P (writeOwnerOnlyFile P w dir tmp name data).last dir top v ∧
    Upd w (writeOwnerOnlyFile P w dir tmp name data).last dir [name] := by
  obtain ⟨_, hv, hl, _⟩ := wof_spec P hA G.inv tmp name hT.simple hsn hne hT.fresh data
  have hlast : Good P (writeOwnerOnlyFile P w dir tmp name data).last dir top v :=
    G.of_upd hl (by simp [hnc])
  refine ⟨fun w' hw' => ?_, hlast, hl⟩
  rcases hv w' hw' with e | U
  · rw [e]; exact hlast
  · exact G.of_upd U (by simp [hT.notCache])

theorem removeAll_good (P : Params) {dir : Path} {top : String} {v : Nat} :
    ∀ (fs : List String) (w : World), Good P w dir top v → (∀ f ∈ fs, f ≠ top ∧ isCacheName f = true) →
      (∀ w' ∈ (removeAll w dir fs).visited, Good P w' dir top v) ∧ Good P (removeAll w dir fs).last dir top v := by
  intro fs
  induction fs with
  | nil => intro w G _; simp [removeAll, G]
  | cons f fs ih =>
    intro w G hfs
    obtain ⟨hft, hfc⟩ := hfs f (by simp)
    unfold removeAll
    rw [remove_entry G.inv.lex f (isCacheName_simple hfc)]
    unfold pRemove
    cases hf : find w (dir ++ [f]) with
    | none => simp [G]
    | some n =>
      have hk := G.inv.files f n hf
      have hne : (dir ++ [f] == []) = false := by simp
      simp only [hne, hk, Bool.false_eq_true, if_false, List.dropLast_concat]
      have hb : ((Kind.file == Kind.dir) && hasChild w (dir ++ [f])) = false := by simp
      simp only [hb, Bool.false_eq_true, if_false]
      have U := inv_erase G.inv f
      have G1 : Good P (touch (AMap.erase w (dir ++ [f])) dir) dir top v := by
        refine G.step U.inv (U.frame top (by simpa using fun e => hft e.symm)) (fun nm hc hp => ?_)
        by_cases e : nm = f
        · subst e; rw [find_erase_entry] at hp; simp at hp
        · rw [← U.frame nm (by simpa using e)]; exact hp
      obtain ⟨h1, h2⟩ := ih _ G1 (fun g hg => hfs g (by simp [hg]))
      refine ⟨fun w' hw' => ?_, h2⟩
      rcases List.mem_cons.mp hw' with e | e
      · rw [e]; exact G1
      · exact h1 w' e

theorem cleanupLoop_good (P : Params) {dir : Path} {top : String} {v : Nat} (cacheSize : Nat) :
    ∀ (fs : List String) (w : World) (kept : Nat), Good P w dir top v → (∀ f ∈ fs, f ≠ top ∧ isCacheName f = true) →
      (∀ w' ∈ (cleanupLoop P dir cacheSize w kept fs).visited, Good P w' dir top v) ∧
      Good P (cleanupLoop P dir cacheSize w kept fs).last dir top v := by
  intro fs
  induction fs with
  | nil => intro w kept G _; simp [cleanupLoop, G]
  | cons f fs ih =>
    intro w kept G hfs
    obtain ⟨hft, hfc⟩ := hfs f (by simp)
    unfold cleanupLoop
    split
    · exact ih w (kept + 1) G (fun g hg => hfs g (by simp [hg]))
    · rw [remove_entry G.inv.lex f (isCacheName_simple hfc)]
      unfold pRemove
      cases hf : find w (dir ++ [f]) with
      | none => simp [G]
      | some n =>
        have hk := G.inv.files f n hf
        have hne : (dir ++ [f] == []) = false := by simp
        simp only [hne, hk, Bool.false_eq_true, if_false, List.dropLast_concat]
        have hb : ((Kind.file == Kind.dir) && hasChild w (dir ++ [f])) = false := by simp
        simp only [hb, Bool.false_eq_true, if_false]
        have U := inv_erase G.inv f
        have G1 : Good P (touch (AMap.erase w (dir ++ [f])) dir) dir top v := by
          refine G.step U.inv (U.frame top (by simpa using fun e => hft e.symm)) (fun nm hc hp => ?_)
          by_cases e : nm = f
          · subst e; rw [find_erase_entry] at hp; simp at hp
          · rw [← U.frame nm (by simpa using e)]; exact hp
        obtain ⟨h1, h2⟩ := ih _ kept G1 (fun g hg => hfs g (by simp [hg]))
        refine ⟨fun w' hw' => ?_, h2⟩
        rcases List.mem_cons.mp hw' with e | e
        · rw [e]; exact G1
        · exact h1 w' e

theorem cleanup_good (P : Params) {w : World} {dir : Path} {top : String} {v : Nat} (G : Good P w dir top v)
    (cacheSize : Nat) (hcs : 1 ≤ cacheSize) :
    (∀ w' ∈ (cleanupOldVersions P w dir cacheSize).visited, Good P w' dir top v) ∧
    Good P (cleanupOldVersions P w dir cacheSize).last dir top v := by
  unfold cleanupOldVersions
  rw [listCacheFiles_eq G.inv]
  simp only
  split
  · simp [G]
  · obtain ⟨rest, hL⟩ := G.head
    have hnd := nodup_cacheList w dir
    have hrest : ∀ f ∈ rest, f ≠ top ∧ isCacheName f = true := by
      intro f hfr
      rw [hL] at hnd
      refine ⟨fun e => ?_, ?_⟩
      · subst e; exact (List.nodup_cons.mp hnd).1 hfr
      · have : f ∈ cacheList w dir := by rw [hL]; simp [hfr]
        exact ((mem_cacheList w dir f).mp this).1
    split
    · -- repaired loop: the newest file is `top`, it parses, it is kept
      rw [hL]
      obtain ⟨n, hf, hv⟩ := G.present
      have hrp : (readParse P w dir top).isSome = true := by
        rw [readParse_entry P G.inv top (isCacheName_simple G.cache), hf]; simp [hv]
      unfold cleanupLoop
      have hk : (decide (0 < cacheSize) && (readParse P w dir top).isSome) = true := by
        simp [hrp]; omega
      simp only [hk, if_true]
      exact cleanupLoop_good P cacheSize rest w 1 G hrest
    · apply removeAll_good P _ w G
      intro f hf
      rw [hL] at hf
      have hfr : f ∈ rest := by
        obtain ⟨k, hk⟩ := Nat.exists_eq_add_of_le hcs
        rw [hk, Nat.add_comm, List.drop_succ_cons] at hf
        exact List.mem_of_mem_drop hf
      exact hrest f hfr

/-! ### saveToCache, update -/

def metaNames (now : Nat) : List String := [cfgName now, etagFile, lastModifiedFile, lastRefreshFile]

theorem TmpOK.not_meta {w : World} {dir : Path} {tmp : String} (h : TmpOK w dir tmp) (now : Nat) :
    tmp ∉ metaNames now := by
  simp only [metaNames, List.mem_cons, List.not_mem_nil, or_false, not_or]
  refine ⟨fun e => ?_, h.ne1, h.ne2, h.ne3⟩
  have := h.notCache; rw [e, isCacheName_cfgName] at this; exact Bool.noConfusion this

/-- invariant of the partial traces of `saveToCache` once the config file has been renamed into place -/
structure TG (P : Params) (w : World) (dir : Path) (tmpc : String) (now v : Nat) (a : Tr) : Prop where
  vis : ∀ w' ∈ a.visited, Upd w w' dir [tmpc] ∨ Good P w' dir (cfgName now) v
  last : Good P a.last dir (cfgName now) v
  upd : Upd w a.last dir (metaNames now)

theorem tg_step (P : Params) (hA : P.atomic = true) {w : World} {dir : Path} {tmpc : String} {now v : Nat} {a : Tr}
    (h : TG P w dir tmpc now v a) (tmp name : String) (hT : TmpOK w dir tmp) (hsn : simple name = true)
    (hnc : isCacheName name = false) (hne : tmp ≠ name) (hmem : name ∈ metaNames now) (data : Bytes) :
    TG P w dir tmpc now v (a.andThen fun w => writeOwnerOnlyFile P w dir tmp name data) := by
  have hT' : TmpOK a.last dir tmp := hT.of_upd h.upd (hT.not_meta now)
  obtain ⟨g1, g2, g3⟩ := good_wof P hA h.last tmp name hT' hsn hnc hne data
  refine ⟨fun w' hw' => ?_, g2, (h.upd.trans g3).mono (fun x hx => ?_)⟩
  · simp only [Tr.andThen, List.mem_append] at hw'
    rcases hw' with e | e
    · exact h.vis w' e
    · exact Or.inr (g1 w' e)
  · rcases List.mem_append.mp hx with e | e
    · exact e
    · simp at e; rw [e]; exact hmem

theorem save_spec (P : Params) (hA : P.atomic = true) {w : World} {dir : Path} (I : Inv w dir) (T : Tmps)
    (h1 : TmpOK w dir T.cfg) (h2 : TmpOK w dir T.etag) (h3 : TmpOK w dir T.lm) (h4 : TmpOK w dir T.refresh)
    (now : Nat) (data etag lm refresh : Bytes) (v : Nat) (hv : P.parse data = some v)
    (hmax : ∀ nm, isCacheName nm = true → (find w (dir ++ [nm])).isSome = true → nm ≤ cfgName now) :
    (∀ w' ∈ (saveToCache P w dir T now data etag lm refresh).visited,
        Upd w w' dir [T.cfg] ∨ Good P w' dir (cfgName now) v) ∧
    Good P (saveToCache P w dir T now data etag lm refresh).last dir (cfgName now) v := by
  have hcn := isCacheName_cfgName now
  have hne : T.cfg ≠ cfgName now := fun e => by
    have := h1.notCache; rw [e, hcn] at this; exact Bool.noConfusion this
  obtain ⟨hok, hvis, hl, n, hn, hd⟩ :=
    wof_spec P hA I T.cfg (cfgName now) h1.simple (isCacheName_simple hcn) hne h1.fresh data
  have G1 : Good P (writeOwnerOnlyFile P w dir T.cfg (cfgName now) data).last dir (cfgName now) v := by
    refine ⟨hl.inv, hcn, ⟨n, hn, by rw [hd]; exact hv⟩, fun nm hc hp => ?_⟩
    by_cases e : nm = cfgName now
    · rw [e]; exact String.le_refl _
    · rw [hl.frame nm (by simpa using e)] at hp; exact hmax nm hc hp
  have t1 : TG P w dir T.cfg now v (writeOwnerOnlyFile P w dir T.cfg (cfgName now) data) :=
    ⟨fun w' hw' => by
        rcases hvis w' hw' with e | e
        · rw [e]; exact Or.inr G1
        · exact Or.inl e,
      G1, hl.mono (by simp [metaNames])⟩
  have t2 : TG P w dir T.cfg now v
      (if etag.isEmpty then writeOwnerOnlyFile P w dir T.cfg (cfgName now) data
       else (writeOwnerOnlyFile P w dir T.cfg (cfgName now) data).andThen fun w => writeOwnerOnlyFile P w dir T.etag etagFile etag) := by
    split
    · exact t1
    · exact tg_step P hA t1 T.etag etagFile h2 (by decide) (by decide) h2.ne1 (by simp [metaNames]) etag
  have t3 := fun (a : Tr) (ha : TG P w dir T.cfg now v a) =>
    show TG P w dir T.cfg now v
      (if lm.isEmpty then a else a.andThen fun w => writeOwnerOnlyFile P w dir T.lm lastModifiedFile lm) from by
    split
    · exact ha
    · exact tg_step P hA ha T.lm lastModifiedFile h3 (by decide) (by decide) h3.ne2 (by simp [metaNames]) lm
  have t4 := fun (a : Tr) (ha : TG P w dir T.cfg now v a) =>
    tg_step P hA ha T.refresh lastRefreshFile h4 (by decide) (by decide) h4.ne3 (by simp [metaNames]) refresh
  have tfin := t4 _ (t3 _ t2)
  unfold saveToCache
  simp only [hok, Bool.not_true, Bool.false_eq_true, if_false]
  exact ⟨tfin.vis, tfin.last⟩

theorem update_spec (P : Params) (hA : P.atomic = true) (hB : P.fallbackOlder = true)
    {w : World} {dir : Path} (I : Inv w dir) (T : Tmps)
    (h1 : TmpOK w dir T.cfg) (h2 : TmpOK w dir T.etag) (h3 : TmpOK w dir T.lm) (h4 : TmpOK w dir T.refresh)
    (cacheSize : Nat) (hcs : 1 ≤ cacheSize)
    (now : Nat) (data etag lm refresh : Bytes) (v : Nat) (hv : P.parse data = some v)
    (hmax : ∀ nm, isCacheName nm = true → (find w (dir ++ [nm])).isSome = true → nm ≤ cfgName now) :
    (∀ w' ∈ (update P w dir T cacheSize now data etag lm refresh).visited, Inv w' dir ∧
        (getCachedConfig P w' dir = getCachedConfig P w dir ∨ getCachedConfig P w' dir = some v)) ∧
    Inv (update P w dir T cacheSize now data etag lm refresh).last dir ∧
    getCachedConfig P (update P w dir T cacheSize now data etag lm refresh).last dir = some v := by
  unfold update
  by_cases hnew : isNewPayload w dir data = true
  · simp only [hnew, if_true]
    obtain ⟨s1, s2⟩ := save_spec P hA I T h1 h2 h3 h4 now data etag lm refresh v hv hmax
    obtain ⟨c1, c2⟩ := cleanup_good P s2 cacheSize hcs
    refine ⟨fun w' hw' => ?_, c2.inv, c2.get hB⟩
    simp only [Tr.andThen, List.mem_append] at hw'
    rcases hw' with e | e
    · rcases s1 w' e with U | G
      · refine ⟨U.inv, Or.inl ?_⟩
        exact getCached_congr P hB I U.inv (fun nm hc => U.frame nm (by
          intro hm; simp at hm; rw [hm, h1.notCache] at hc; exact Bool.noConfusion hc))
      · exact ⟨G.inv, Or.inr (G.get hB)⟩
    · exact ⟨(c1 w' e).inv, Or.inr ((c1 w' e).get hB)⟩
  · -- identical payload: the newest cache file already holds `data`
    have hG : ∃ top, Good P w dir top v := by
      unfold isNewPayload at hnew
      rw [listCacheFiles_eq I] at hnew
      cases hL : cacheList w dir with
      | nil => simp [hL] at hnew
      | cons f rest =>
        simp only [hL] at hnew
        have hm : f ∈ cacheList w dir := by rw [hL]; simp
        obtain ⟨hc, hp⟩ := (mem_cacheList w dir f).mp hm
        obtain ⟨n, hn⟩ := Option.isSome_iff_exists.mp hp
        have hrf : readFile w (dir ++ [f]) = .ok n.data := by
          unfold readFile
          rw [stat_entry I.lex f (isCacheName_simple hc) (I.notLink f), hn]
          simp [I.files f n hn]
        rw [hrf] at hnew
        have hd : n.data = data := by simpa using hnew
        exact ⟨f, I, hc, ⟨n, hn, by rw [hd]; exact hv⟩, fun nm hc' hp' => head_cacheList_max hL nm hc' hp'⟩
    obtain ⟨top, G⟩ := hG
    simp only [hnew, Bool.false_eq_true, if_false]
    obtain ⟨c1, c2⟩ := cleanup_good P G cacheSize hcs
    refine ⟨fun w' hw' => ?_, c2.inv, c2.get hB⟩
    simp only [Tr.andThen, List.nil_append] at hw'
    exact ⟨(c1 w' hw').inv, Or.inr ((c1 w' hw').get hB)⟩

/-! ### without any assumption on the clock: some usable cached version always remains -/

/-- `g` is a cache file that `getCachedConfig` can use -/
def validC (P : Params) (w : World) (dir : Path) (g : String) : Prop :=
  isCacheName g = true ∧ (readParse P w dir g).isSome = true

def HasValid (P : Params) (w : World) (dir : Path) : Prop := ∃ g, validC P w dir g

theorem validC_mem {P : Params} {w : World} {dir : Path} (I : Inv w dir) {g : String} (h : validC P w dir g) :
    g ∈ cacheList w dir := by
  refine (mem_cacheList w dir g).mpr ⟨h.1, ?_⟩
  have := h.2
  rw [readParse_entry P I g (isCacheName_simple h.1)] at this
  cases hf : find w (dir ++ [g]) with
  | none => simp [hf] at this
  | some _ => rfl

theorem getCached_isSome_iff (P : Params) (hB : P.fallbackOlder = true) {w : World} {dir : Path} (I : Inv w dir) :
    (getCachedConfig P w dir).isSome = true ↔ HasValid P w dir := by
  rw [getCached_eq P hB I, List.findSome?_isSome_iff]
  constructor
  · rintro ⟨g, hg, hv⟩
    exact ⟨g, ((mem_cacheList w dir g).mp hg).1, hv⟩
  · rintro ⟨g, hg⟩
    exact ⟨g, validC_mem I hg, hg.2⟩

theorem validC_congr {P : Params} {w w' : World} {dir : Path} (I : Inv w dir) (I' : Inv w' dir) {g : String}
    (hf : find w' (dir ++ [g]) = find w (dir ++ [g])) (h : validC P w dir g) : validC P w' dir g := by
  refine ⟨h.1, ?_⟩
  rw [readParse_entry P I' g (isCacheName_simple h.1), hf, ← readParse_entry P I g (isCacheName_simple h.1)]
  exact h.2

structure Valid (P : Params) (w : World) (dir : Path) : Prop where
  inv : Inv w dir
  has : HasValid P w dir

theorem Valid.of_upd {P : Params} {w w' : World} {dir : Path} (V : Valid P w dir) {S : List String}
    (U : Upd w w' dir S) (hS : ∀ a ∈ S, isCacheName a = false) : Valid P w' dir := by
  obtain ⟨g, hg⟩ := V.has
  refine ⟨U.inv, g, validC_congr V.inv U.inv (U.frame g (fun hm => ?_)) hg⟩
  have := hg.1; rw [hS g hm] at this; exact Bool.noConfusion this

theorem Valid.isSome {P : Params} (hB : P.fallbackOlder = true) {w : World} {dir : Path} (V : Valid P w dir) :
    (getCachedConfig P w dir).isSome = true := (getCached_isSome_iff P hB V.inv).mpr V.has

/-- the repaired cleanup never removes the newest usable file -/
theorem cleanupLoop_valid (P : Params) {dir : Path} (cacheSize : Nat) (hcs : 1 ≤ cacheSize) :
    ∀ (fs : List String) (w : World) (kept : Nat), Inv w dir → (∀ f ∈ fs, isCacheName f = true) → fs.Nodup →
      ((∃ g, g ∉ fs ∧ validC P w dir g) ∨ (kept = 0 ∧ ∃ f ∈ fs, validC P w dir f)) →
      (∀ w' ∈ (cleanupLoop P dir cacheSize w kept fs).visited, Valid P w' dir) ∧
      Valid P (cleanupLoop P dir cacheSize w kept fs).last dir := by
  intro fs
  induction fs with
  | nil =>
    intro w kept I _ _ hq
    rcases hq with ⟨g, _, hg⟩ | ⟨_, f, hf, _⟩
    · simp [cleanupLoop]; exact ⟨I, g, hg⟩
    · simp at hf
  | cons f fs ih =>
    intro w kept I hc hnd hq
    have hfc := hc f (by simp)
    have hnd' := (List.nodup_cons.mp hnd)
    unfold cleanupLoop
    by_cases hkeep : (decide (kept < cacheSize) && (readParse P w dir f).isSome) = true
    · simp only [hkeep, if_true]
      refine ih w (kept + 1) I (fun g hg => hc g (by simp [hg])) hnd'.2 (Or.inl ⟨f, hnd'.1, hfc, ?_⟩)
      simp only [Bool.and_eq_true] at hkeep; exact hkeep.2
    · simp only [hkeep, Bool.false_eq_true, if_false]
      have hV : Valid P w dir := by
        rcases hq with ⟨g, _, hg⟩ | ⟨_, g, _, hg⟩ <;> exact ⟨I, g, hg⟩
      rw [remove_entry I.lex f (isCacheName_simple hfc)]
      unfold pRemove
      cases hf : find w (dir ++ [f]) with
      | none => simp [hV]
      | some n =>
        have hk := I.files f n hf
        have hne : (dir ++ [f] == []) = false := by simp
        simp only [hne, hk, Bool.false_eq_true, if_false, List.dropLast_concat]
        have hb : ((Kind.file == Kind.dir) && hasChild w (dir ++ [f])) = false := by simp
        simp only [hb, Bool.false_eq_true, if_false]
        have U := inv_erase I f
        have hq1 : (∃ g, g ∉ fs ∧ validC P (touch (AMap.erase w (dir ++ [f])) dir) dir g) ∨
            (kept = 0 ∧ ∃ g ∈ fs, validC P (touch (AMap.erase w (dir ++ [f])) dir) dir g) := by
          rcases hq with ⟨g, hgn, hg⟩ | ⟨hk0, g, hgm, hg⟩
          · have hgf : g ≠ f := fun e => hgn (by simp [e])
            exact Or.inl ⟨g, fun h => hgn (by simp [h]), validC_congr I U.inv (U.frame g (by simpa using hgf)) hg⟩
          · have hgf : g ≠ f := by
              intro e; subst e
              apply hkeep
              simp only [Bool.and_eq_true, decide_eq_true_eq]
              exact ⟨by omega, hg.2⟩
            have hgfs : g ∈ fs := by
              rcases List.mem_cons.mp hgm with e | e
              · exact absurd e hgf
              · exact e
            exact Or.inr ⟨hk0, g, hgfs, validC_congr I U.inv (U.frame g (by simpa using hgf)) hg⟩
        obtain ⟨h1, h2⟩ := ih _ kept U.inv (fun g hg => hc g (by simp [hg])) hnd'.2 hq1
        have hV1 : Valid P (touch (AMap.erase w (dir ++ [f])) dir) dir := by
          rcases hq1 with ⟨g, _, hg⟩ | ⟨_, g, _, hg⟩ <;> exact ⟨U.inv, g, hg⟩
        refine ⟨fun w' hw' => ?_, h2⟩
        rcases List.mem_cons.mp hw' with e | e
        · rw [e]; exact hV1
        · exact h1 w' e

theorem cleanup_valid (P : Params) (hC : P.validCleanup = true) {w : World} {dir : Path} (V : Valid P w dir)
    (cacheSize : Nat) (hcs : 1 ≤ cacheSize) :
    (∀ w' ∈ (cleanupOldVersions P w dir cacheSize).visited, Valid P w' dir) ∧
    Valid P (cleanupOldVersions P w dir cacheSize).last dir := by
  unfold cleanupOldVersions
  rw [listCacheFiles_eq V.inv]
  simp only [hC, if_true]
  split
  · simp [V]
  · obtain ⟨g, hg⟩ := V.has
    exact cleanupLoop_valid P cacheSize hcs _ w 0 V.inv
      (fun f hf => ((mem_cacheList w dir f).mp hf).1) (nodup_cacheList w dir)
      (Or.inr ⟨rfl, g, validC_mem V.inv hg, hg⟩)

theorem valid_wof (P : Params) (hA : P.atomic = true) {w : World} {dir : Path}
    (V : Valid P w dir) (tmp name : String) (hT : TmpOK w dir tmp) (hsn : simple name = true)
    (hnc : isCacheName name = false) (hne : tmp ≠ name) (data : Bytes) :
    (∀ w' ∈ (writeOwnerOnlyFile P w dir tmp name data).visited, Valid P w' dir) ∧
    Valid P (writeOwnerOnlyFile P w dir tmp name data).last dir ∧
    Upd w (writeOwnerOnlyFile P w dir tmp name data).last dir [name] := by
  obtain ⟨_, hv, hl, _⟩ := wof_spec P hA V.inv tmp name hT.simple hsn hne hT.fresh data
  have hlast := V.of_upd hl (by simp [hnc])
  refine ⟨fun w' hw' => ?_, hlast, hl⟩
  rcases hv w' hw' with e | U
  · rw [e]; exact hlast
  · exact V.of_upd U (by simp [hT.notCache])

structure TV (P : Params) (w : World) (dir : Path) (tmpc : String) (now : Nat) (a : Tr) : Prop where
  vis : ∀ w' ∈ a.visited, Upd w w' dir [tmpc] ∨ Valid P w' dir
  last : Valid P a.last dir
  upd : Upd w a.last dir (metaNames now)

theorem tv_step (P : Params) (hA : P.atomic = true) {w : World} {dir : Path} {tmpc : String} {now : Nat} {a : Tr}
    (h : TV P w dir tmpc now a) (tmp name : String) (hT : TmpOK w dir tmp) (hsn : simple name = true)
    (hnc : isCacheName name = false) (hne : tmp ≠ name) (hmem : name ∈ metaNames now) (data : Bytes) :
    TV P w dir tmpc now (a.andThen fun w => writeOwnerOnlyFile P w dir tmp name data) := by
  have hT' : TmpOK a.last dir tmp := hT.of_upd h.upd (hT.not_meta now)
  obtain ⟨g1, g2, g3⟩ := valid_wof P hA h.last tmp name hT' hsn hnc hne data
  refine ⟨fun w' hw' => ?_, g2, (h.upd.trans g3).mono (fun x hx => ?_)⟩
  · simp only [Tr.andThen, List.mem_append] at hw'
    rcases hw' with e | e
    · exact h.vis w' e
    · exact Or.inr (g1 w' e)
  · rcases List.mem_append.mp hx with e | e
    · exact e
    · simp at e; rw [e]; exact hmem

theorem save_valid (P : Params) (hA : P.atomic = true) {w : World} {dir : Path} (I : Inv w dir) (T : Tmps)
    (h1 : TmpOK w dir T.cfg) (h2 : TmpOK w dir T.etag) (h3 : TmpOK w dir T.lm) (h4 : TmpOK w dir T.refresh)
    (now : Nat) (data etag lm refresh : Bytes) (v : Nat) (hv : P.parse data = some v) :
    (∀ w' ∈ (saveToCache P w dir T now data etag lm refresh).visited, Upd w w' dir [T.cfg] ∨ Valid P w' dir) ∧
    Valid P (saveToCache P w dir T now data etag lm refresh).last dir := by
  have hcn := isCacheName_cfgName now
  have hne : T.cfg ≠ cfgName now := fun e => by
    have := h1.notCache; rw [e, hcn] at this; exact Bool.noConfusion this
  obtain ⟨hok, hvis, hl, n, hn, hd⟩ :=
    wof_spec P hA I T.cfg (cfgName now) h1.simple (isCacheName_simple hcn) hne h1.fresh data
  have V1 : Valid P (writeOwnerOnlyFile P w dir T.cfg (cfgName now) data).last dir := by
    refine ⟨hl.inv, cfgName now, hcn, ?_⟩
    rw [readParse_entry P hl.inv _ (isCacheName_simple hcn), hn]; simp [hd, hv]
  have t1 : TV P w dir T.cfg now (writeOwnerOnlyFile P w dir T.cfg (cfgName now) data) :=
    ⟨fun w' hw' => by
        rcases hvis w' hw' with e | e
        · rw [e]; exact Or.inr V1
        · exact Or.inl e,
      V1, hl.mono (by simp [metaNames])⟩
  have t2 : TV P w dir T.cfg now
      (if etag.isEmpty then writeOwnerOnlyFile P w dir T.cfg (cfgName now) data
       else (writeOwnerOnlyFile P w dir T.cfg (cfgName now) data).andThen fun w => writeOwnerOnlyFile P w dir T.etag etagFile etag) := by
    split
    · exact t1
    · exact tv_step P hA t1 T.etag etagFile h2 (by decide) (by decide) h2.ne1 (by simp [metaNames]) etag
  have t3 := fun (a : Tr) (ha : TV P w dir T.cfg now a) =>
    show TV P w dir T.cfg now
      (if lm.isEmpty then a else a.andThen fun w => writeOwnerOnlyFile P w dir T.lm lastModifiedFile lm) from by
    split
    · exact ha
    · exact tv_step P hA ha T.lm lastModifiedFile h3 (by decide) (by decide) h3.ne2 (by simp [metaNames]) lm
  have t4 := fun (a : Tr) (ha : TV P w dir T.cfg now a) =>
    tv_step P hA ha T.refresh lastRefreshFile h4 (by decide) (by decide) h4.ne3 (by simp [metaNames]) refresh
  have tfin := t4 _ (t3 _ t2)
  unfold saveToCache
  simp only [hok, Bool.not_true, Bool.false_eq_true, if_false]
  exact ⟨tfin.vis, tfin.last⟩

/-- no clock assumption: every visited world either reads like before or has a usable cached version -/
theorem update_valid (P : Params) (hA : P.atomic = true) (hB : P.fallbackOlder = true) (hC : P.validCleanup = true)
    {w : World} {dir : Path} (I : Inv w dir) (T : Tmps)
    (h1 : TmpOK w dir T.cfg) (h2 : TmpOK w dir T.etag) (h3 : TmpOK w dir T.lm) (h4 : TmpOK w dir T.refresh)
    (cacheSize : Nat) (hcs : 1 ≤ cacheSize)
    (now : Nat) (data etag lm refresh : Bytes) (v : Nat) (hv : P.parse data = some v) :
    (∀ w' ∈ (update P w dir T cacheSize now data etag lm refresh).visited, Inv w' dir ∧
        (getCachedConfig P w' dir = getCachedConfig P w dir ∨ (getCachedConfig P w' dir).isSome = true)) ∧
    Valid P (update P w dir T cacheSize now data etag lm refresh).last dir := by
  unfold update
  by_cases hnew : isNewPayload w dir data = true
  · simp only [hnew, if_true]
    obtain ⟨s1, s2⟩ := save_valid P hA I T h1 h2 h3 h4 now data etag lm refresh v hv
    obtain ⟨c1, c2⟩ := cleanup_valid P hC s2 cacheSize hcs
    refine ⟨fun w' hw' => ?_, c2⟩
    simp only [Tr.andThen, List.mem_append] at hw'
    rcases hw' with e | e
    · rcases s1 w' e with U | V
      · refine ⟨U.inv, Or.inl ?_⟩
        exact getCached_congr P hB I U.inv (fun nm hc => U.frame nm (by
          intro hm; simp at hm; rw [hm, h1.notCache] at hc; exact Bool.noConfusion hc))
      · exact ⟨V.inv, Or.inr (V.isSome hB)⟩
    · exact ⟨(c1 w' e).inv, Or.inr ((c1 w' e).isSome hB)⟩
  · have hV : Valid P w dir := by
      unfold isNewPayload at hnew
      rw [listCacheFiles_eq I] at hnew
      cases hL : cacheList w dir with
      | nil => simp [hL] at hnew
      | cons f rest =>
        simp only [hL] at hnew
        have hm : f ∈ cacheList w dir := by rw [hL]; simp
        obtain ⟨hc, hp⟩ := (mem_cacheList w dir f).mp hm
        obtain ⟨n, hn⟩ := Option.isSome_iff_exists.mp hp
        have hrf : readFile w (dir ++ [f]) = .ok n.data := by
          unfold readFile
          rw [stat_entry I.lex f (isCacheName_simple hc) (I.notLink f), hn]
          simp [I.files f n hn]
        rw [hrf] at hnew
        have hd : n.data = data := by simpa using hnew
        refine ⟨I, f, hc, ?_⟩
        rw [readParse_entry P I f (isCacheName_simple hc), hn]; simp [hd, hv]
    simp only [hnew, Bool.false_eq_true, if_false]
    obtain ⟨c1, c2⟩ := cleanup_valid P hC hV cacheSize hcs
    refine ⟨fun w' hw' => ?_, c2⟩
    simp only [Tr.andThen, List.nil_append] at hw'
    exact ⟨(c1 w' hw').inv, Or.inr ((c1 w' hw').isSome hB)⟩

/-! ### an unusable cache file is invisible (power loss after the rename: data not durable) -/

theorem findSome_insertDesc {β : Type} (f : String → Option β) (a : String) (ha : f a = none) :
    ∀ l : List String, (insertDesc a l).findSome? f = l.findSome? f
  | [] => by simp [insertDesc, ha]
  | b :: l => by
    unfold insertDesc
    split
    · simp [List.findSome?_cons, ha]
    · simp only [List.findSome?_cons]
      cases f b with
      | some _ => rfl
      | none => exact findSome_insertDesc f a ha l

theorem insertDesc_sorted' (a : String) (l : List String) (h : l.Pairwise (fun x y => y ≤ x)) :
    (insertDesc a l).Pairwise (fun x y => y ≤ x) := insertDesc_sorted a l h

/-- A world that differs from `w` in the cache-named entries only by one additional file `nm` whose
content does not parse reads exactly like `w`. -/
theorem getCached_extra_unusable (P : Params) (hB : P.fallbackOlder = true) {w w' : World} {dir : Path}
    (I : Inv w dir) (I' : Inv w' dir) (nm : String) (hc : isCacheName nm = true)
    (hfresh : find w (dir ++ [nm]) = none) (n : Node) (hn : find w' (dir ++ [nm]) = some n)
    (hbad : P.parse n.data = none)
    (hsame : ∀ x, isCacheName x = true → x ≠ nm → find w' (dir ++ [x]) = find w (dir ++ [x])) :
    getCachedConfig P w' dir = getCachedConfig P w dir := by
  have hL : cacheList w' dir = insertDesc nm (cacheList w dir) := by
    apply List.Perm.eq_of_pairwise (le := fun a b => b ≤ a)
    · intro a b _ _ h1 h2; exact String.le_antisymm h2 h1
    · exact sorted_cacheList w' dir
    · exact insertDesc_sorted nm _ (sorted_cacheList w dir)
    · have hnd2 : (insertDesc nm (cacheList w dir)).Nodup := by
        refine (insertDesc_perm nm _).symm.nodup (List.nodup_cons.mpr ⟨fun hm => ?_, nodup_cacheList w dir⟩)
        have := ((mem_cacheList w dir nm).mp hm).2
        rw [hfresh] at this; simp at this
      rw [List.perm_ext_iff_of_nodup (nodup_cacheList w' dir) hnd2]
      intro a
      rw [(insertDesc_perm nm _).mem_iff, List.mem_cons, mem_cacheList, mem_cacheList]
      by_cases e : a = nm
      · subst e; simp [hc, hn]
      · constructor
        · rintro ⟨h1, h2⟩; exact Or.inr ⟨h1, by rw [← hsame a h1 e]; exact h2⟩
        · rintro (h | ⟨h1, h2⟩)
          · exact absurd h e
          · exact ⟨h1, by rw [hsame a h1 e]; exact h2⟩
  rw [getCached_eq P hB I, getCached_eq P hB I', hL]
  have hnm : readParse P w' dir nm = none := by
    rw [readParse_entry P I' nm (isCacheName_simple hc), hn]; exact hbad
  rw [findSome_insertDesc _ nm hnm]
  apply findSome_congr
  intro x hx
  have hxc := ((mem_cacheList w dir x).mp hx).1
  have hxn : x ≠ nm := by
    intro e; subst e
    have := ((mem_cacheList w dir x).mp hx).2
    rw [hfresh] at this; simp at this
  rw [readParse_entry P I' x (isCacheName_simple hxc), readParse_entry P I x (isCacheName_simple hxc), hsame x hxc hxn]

end C45
