import BoxoModel.C07.Model
/-! Helper lemmas for C07 (and reused by C08 / C10): the builder helper consumes the chunk stream
front to back, every builder function conserves bytes and keeps recorded sizes consistent. -/
set_option linter.unusedSimpArgs false
namespace C07
open FileTree

/-! ### DagBuilderHelper -/

theorem DB.pending_prepareNext (db : DB) : db.prepareNext.pending = db.pending := by
  unfold DB.prepareNext DB.pending
  cases h : db.nextData with
  | some c => simp [h]
  | none =>
    cases h2 : db.spl with
    | nil => simp [h, h2]
    | cons c r => simp [h2]

theorem DB.prepareNext_isNone (db : DB) : db.prepareNext.nextData.isNone = db.pending.isEmpty := by
  unfold DB.prepareNext DB.pending
  cases h : db.nextData with
  | some c => simp [h]
  | none =>
    cases h2 : db.spl with
    | nil => simp [h, h2]
    | cons c r => simp [h2]

@[simp] theorem DB.done_pending (db : DB) : db.done.1.pending = db.pending := by
  simp [DB.done, DB.pending_prepareNext]

theorem DB.done_eq (db : DB) : db.done.2 = db.pending.isEmpty := by
  simp [DB.done, DB.prepareNext_isNone]

theorem DB.done_true (db : DB) : db.done.2 = true ↔ db.pending = [] := by
  simp [DB.done_eq]

theorem DB.done_false (db : DB) : db.done.2 = false ↔ db.pending ≠ [] := by
  simp [DB.done_eq]

theorem DB.next_spec (db : DB) : db.next.2 = db.pending.head? ∧ db.next.1.pending = db.pending.tail := by
  unfold DB.next DB.prepareNext DB.pending
  cases h : db.nextData with
  | some c => simp [h]
  | none =>
    cases h2 : db.spl with
    | nil => simp [h, h2]
    | cons c r => simp [h2]

/-- all bytes still to come -/
def DB.flat (db : DB) : List UInt8 := db.pending.flatten

/-- going from `db` to `db'` the builder consumed a prefix of the stream whose bytes are `bytes` -/
def Took (db db' : DB) (bytes : List UInt8) : Prop :=
  ∃ used : List Chunk, db.pending = used ++ db'.pending ∧ bytes = used.flatten

theorem Took.refl (db : DB) : Took db db [] := ⟨[], by simp, by simp⟩

theorem Took.of_pending_eq {db db' : DB} (h : db'.pending = db.pending) : Took db db' [] :=
  ⟨[], by simp [h], by simp⟩

theorem Took.trans {a b c : DB} {x y : List UInt8} (h1 : Took a b x) (h2 : Took b c y) :
    Took a c (x ++ y) := by
  obtain ⟨u1, e1, f1⟩ := h1
  obtain ⟨u2, e2, f2⟩ := h2
  exact ⟨u1 ++ u2, by rw [e1, e2, List.append_assoc], by simp [f1, f2]⟩

theorem Took.done {a b : DB} {x : List UInt8} (h : Took a b x) : Took a b.done.1 x := by
  obtain ⟨u, e, f⟩ := h
  exact ⟨u, by simp [e], f⟩

theorem Took.of_done {a b : DB} {x : List UInt8} (h : Took a.done.1 b x) : Took a b x := by
  obtain ⟨u, e, f⟩ := h
  exact ⟨u, by simpa using e, f⟩

theorem Took.length_le {a b : DB} {x : List UInt8} (h : Took a b x) :
    b.pending.length ≤ a.pending.length := by
  obtain ⟨u, e, _⟩ := h
  rw [e, List.length_append]; omega

theorem Took.flat {a b : DB} {x : List UInt8} (h : Took a b x) : a.flat = x ++ b.flat := by
  obtain ⟨u, e, f⟩ := h
  simp [DB.flat, e, f]

theorem Took.all {a b : DB} {x : List UInt8} (h : Took a b x) (hb : b.pending = []) : x = a.flat := by
  have := h.flat
  simp [DB.flat, hb] at this
  simp [DB.flat, this]

/-! ### Builder -/

/-- the recorded sizes held by a builder are consistent -/
def Builder.ok (b : Builder) : Prop := b.filesize = recSum b.links ∧ wellSizedL b.links = true

theorem Builder.ok_empty : ({} : Builder).ok := by simp [Builder.ok]

theorem Builder.ok_addChild {b : Builder} {c : FNode} {sz : Nat} (hb : b.ok)
    (hc : wellSized c = true) (hs : sz = size c) : (b.addChild c sz).ok := by
  obtain ⟨h1, h2⟩ := hb
  simp [Builder.ok, Builder.addChild, recSum_append, wellSizedL_append, h1, h2, hc, hs]

theorem Builder.wellSized_commit {b : Builder} (hb : b.ok) : wellSized b.commit = true := by
  obtain ⟨h1, h2⟩ := hb
  simp [Builder.commit, h1, h2]

@[simp] theorem Builder.content_commit (b : Builder) : content b.commit = contentL b.links := by
  simp [Builder.commit]

@[simp] theorem Builder.size_commit (b : Builder) : size b.commit = b.filesize := by
  simp [Builder.commit]

@[simp] theorem Builder.links_addChild (b : Builder) (c : FNode) (sz : Nat) :
    (b.addChild c sz).links = b.links ++ [(c, sz)] := rfl

@[simp] theorem Builder.numChildren_addChild (b : Builder) (c : FNode) (sz : Nat) :
    (b.addChild c sz).numChildren = b.numChildren + 1 := by
  simp [Builder.numChildren]

/-- what a child constructor must guarantee: a well-sized node, its recorded size, exactly the bytes consumed -/
def ChildSpec (db : DB) (r : DB × FNode × Nat) : Prop :=
  wellSized r.2.1 = true ∧ r.2.2 = size r.2.1 ∧ Took db r.1 (content r.2.1)

theorem newLeafDataNode_spec (db : DB) : ChildSpec db (newLeafDataNode db) := by
  have h := DB.next_spec db
  refine ⟨by simp [newLeafDataNode], by simp [newLeafDataNode], ?_⟩
  cases hp : db.pending with
  | nil =>
    refine ⟨[], ?_, ?_⟩
    · simp [newLeafDataNode, h.2, hp]
    · simp [newLeafDataNode, h.1, hp]
  | cons c r =>
    refine ⟨[c], ?_, ?_⟩
    · simp [newLeafDataNode, h.2, hp]
    · simp [newLeafDataNode, h.1, hp]

/-- builder-level statement: consistent sizes are kept and the new links hold exactly the consumed bytes -/
def LoopSpec (b : Builder) (db : DB) (r : Builder × DB) : Prop :=
  r.1.ok ∧ ∃ x, Took db r.2 x ∧ contentL r.1.links = contentL b.links ++ x

theorem LoopSpec.refl {b : Builder} (hb : b.ok) (db : DB) : LoopSpec b db (b, db) :=
  ⟨hb, [], Took.refl db, by simp⟩

theorem LoopSpec.step {b : Builder} {db : DB} {c : DB × FNode × Nat} {r : Builder × DB}
    {db0 : DB} (hb : b.ok) (h0 : db0.pending = db.pending) (hc : ChildSpec db c)
    (hr : (b.addChild c.2.1 c.2.2).ok → LoopSpec (b.addChild c.2.1 c.2.2) c.1 r) :
    LoopSpec b db0 r := by
  obtain ⟨w1, w2, w3⟩ := hc
  obtain ⟨ok', x, t, e⟩ := hr (Builder.ok_addChild hb w1 w2)
  refine ⟨ok', content c.2.1 ++ x, ?_, ?_⟩
  · have := Took.trans w3 t
    obtain ⟨u, e1, e2⟩ := this
    exact ⟨u, by rw [h0, e1], e2⟩
  · simp [e, contentL_append]

theorem fillLoop_spec (w : Nat) (child : DB → DB × FNode × Nat) (hchild : ∀ db, ChildSpec db (child db)) :
    ∀ (fuel : Nat) (b : Builder) (db : DB), b.ok → LoopSpec b db (fillLoop w child fuel b db) := by
  intro fuel
  induction fuel with
  | zero => intro b db hb; simpa [fillLoop] using LoopSpec.refl hb db
  | succ fuel ih =>
    intro b db hb
    unfold fillLoop
    by_cases hw : b.numChildren < w
    · simp only [hw, if_true]
      cases hd : db.done.2 with
      | true =>
        simp only [if_true]
        exact ⟨hb, [], Took.of_pending_eq (by simp), by simp⟩
      | false =>
        simp only [Bool.false_eq_true, if_false]
        exact LoopSpec.step hb (by simp) (hchild db.done.1) (fun h => ih _ _ h)
    · simp only [hw, if_false]
      exact LoopSpec.refl hb db

/-- statement for functions that commit a builder: `(db', node, nodeFileSize)` -/
def NodeSpec (b : Builder) (db : DB) (r : DB × FNode × Nat) : Prop :=
  wellSized r.2.1 = true ∧ r.2.2 = size r.2.1 ∧ ∃ x, Took db r.1 x ∧ content r.2.1 = contentL b.links ++ x

theorem NodeSpec.of_loop {b : Builder} {db : DB} {r : Builder × DB} (h : LoopSpec b db r) :
    NodeSpec b db (r.2, r.1.commit, r.1.filesize) := by
  obtain ⟨ok', x, t, e⟩ := h
  exact ⟨Builder.wellSized_commit ok', by simp, x, t, by simpa using e⟩

theorem NodeSpec.child {db : DB} {r : DB × FNode × Nat} (h : NodeSpec {} db r) : ChildSpec db r := by
  obtain ⟨h1, h2, x, t, e⟩ := h
  refine ⟨h1, h2, ?_⟩
  simp at e
  rw [e]; exact t

theorem fillNodeRec_spec (w : Nat) : ∀ (dm1 : Nat) (b : Builder) (db : DB), b.ok →
    NodeSpec b db (fillNodeRec w dm1 b db) := by
  intro dm1
  induction dm1 with
  | zero =>
    intro b db hb
    unfold fillNodeRec
    exact NodeSpec.of_loop (fillLoop_spec w _ newLeafDataNode_spec _ b db hb)
  | succ d ih =>
    intro b db hb
    unfold fillNodeRec
    exact NodeSpec.of_loop (fillLoop_spec w _ (fun db => (ih {} db Builder.ok_empty).child) _ b db hb)

/-- layoutData's loop: the returned root is well-sized and holds the old root's bytes followed by everything
that was still pending; nothing is left in the stream. -/
theorem layoutLoop_spec (w : Nat) : ∀ (fuel dm1 : Nat) (root : FNode) (fs : Nat) (db : DB) (r : FNode × DB),
    wellSized root = true → fs = size root → layoutLoop w fuel dm1 root fs db = some r →
    wellSized r.1 = true ∧ content r.1 = content root ++ db.flat ∧ r.2.pending = [] := by
  intro fuel
  induction fuel with
  | zero => intro dm1 root fs db r _ _ h; simp [layoutLoop] at h
  | succ fuel ih =>
    intro dm1 root fs db r hw hs h
    unfold layoutLoop at h
    cases hd : db.done.2 with
    | true =>
      simp only [hd, if_true, Option.some.injEq] at h
      subst h
      have := (DB.done_true db).1 hd
      simp [hw, DB.flat, this]
    | false =>
      simp only [hd, Bool.false_eq_true, if_false] at h
      have hb : (({} : Builder).addChild root fs).ok := Builder.ok_addChild Builder.ok_empty hw hs
      obtain ⟨n1, n2, x, t, e⟩ := fillNodeRec_spec w dm1 _ db.done.1 hb
      obtain ⟨i1, i2, i3⟩ := ih _ _ _ _ _ n1 n2 h
      refine ⟨i1, ?_, i3⟩
      rw [i2, e]
      have := (Took.of_done t).flat
      simp [this]

/-! ### Balanced layout: termination for `w ≥ 2` -/

theorem newLeafDataNode_progress (db : DB) (h : db.pending ≠ []) :
    (newLeafDataNode db).1.pending.length < db.pending.length := by
  have := (DB.next_spec db).2
  cases hp : db.pending with
  | nil => exact absurd hp h
  | cons c r => simp [newLeafDataNode, this, hp]

theorem fillLoop_progress (w : Nat) (child : DB → DB × FNode × Nat) (hchild : ∀ db, ChildSpec db (child db))
    (hprog : ∀ db, db.pending ≠ [] → (child db).1.pending.length < db.pending.length)
    (fuel : Nat) (b : Builder) (db : DB) (hb : b.ok) (hf : 0 < fuel) (hw : b.numChildren < w)
    (hp : db.pending ≠ []) : (fillLoop w child fuel b db).2.pending.length < db.pending.length := by
  cases fuel with
  | zero => omega
  | succ fuel =>
    unfold fillLoop
    have hd : db.done.2 = false := (DB.done_false db).2 hp
    simp only [hw, if_true, hd, Bool.false_eq_true, if_false]
    obtain ⟨w1, w2, w3⟩ := hchild db.done.1
    obtain ⟨_, x, t, _⟩ := fillLoop_spec w child hchild fuel _ (child db.done.1).1
      (Builder.ok_addChild hb w1 w2)
    have h1 := hprog db.done.1 (by simpa using hp)
    have h2 := t.length_le
    simp at h1
    omega

theorem fillNodeRec_progress (w : Nat) : ∀ (dm1 : Nat) (b : Builder) (db : DB), b.ok →
    b.numChildren < w → db.pending ≠ [] → (fillNodeRec w dm1 b db).1.pending.length < db.pending.length := by
  intro dm1
  induction dm1 with
  | zero =>
    intro b db hb hw hp
    unfold fillNodeRec
    exact fillLoop_progress w _ newLeafDataNode_spec newLeafDataNode_progress _ b db hb (by omega) hw hp
  | succ d ih =>
    intro b db hb hw hp
    unfold fillNodeRec
    refine fillLoop_progress w _ (fun db => (fillNodeRec_spec w d {} db Builder.ok_empty).child) ?_ _ b db hb
      (by omega) hw hp
    intro db' hp'
    exact ih {} db' Builder.ok_empty (by simp [Builder.numChildren]; omega) hp'

theorem layoutLoop_terminates (w : Nat) (hw : 2 ≤ w) : ∀ (fuel dm1 : Nat) (root : FNode) (fs : Nat) (db : DB),
    wellSized root = true → fs = size root → db.pending.length + 1 ≤ fuel →
    ∃ r, layoutLoop w fuel dm1 root fs db = some r := by
  intro fuel
  induction fuel with
  | zero => intro dm1 root fs db _ _ h; omega
  | succ fuel ih =>
    intro dm1 root fs db hr hs hf
    unfold layoutLoop
    cases hd : db.done.2 with
    | true => simp [hd]
    | false =>
      simp only [hd, Bool.false_eq_true, if_false]
      have hb : (({} : Builder).addChild root fs).ok := Builder.ok_addChild Builder.ok_empty hr hs
      obtain ⟨n1, n2, _⟩ := fillNodeRec_spec w dm1 _ db.done.1 hb
      have hne : db.done.1.pending ≠ [] := by simpa using (DB.done_false db).1 hd
      have hp := fillNodeRec_progress w dm1 _ db.done.1 hb (by simp [Builder.numChildren]; omega) hne
      simp only [DB.done_pending] at hp
      refine ih _ _ _ _ n1 n2 ?_
      omega

/-! ### Trickle layout: conservation -/

theorem LoopSpec.trans {b : Builder} {db : DB} {r1 r2 : Builder × DB}
    (h1 : LoopSpec b db r1) (h2 : LoopSpec r1.1 r1.2 r2) : LoopSpec b db r2 := by
  obtain ⟨_, x, t, e⟩ := h1
  obtain ⟨ok2, y, t2, e2⟩ := h2
  exact ⟨ok2, x ++ y, Took.trans t t2, by rw [e2, e, List.append_assoc]⟩

theorem LoopSpec.of_done {b : Builder} {db : DB} {r : Builder × DB}
    (h : LoopSpec b db.done.1 r) : LoopSpec b db r := by
  obtain ⟨ok', x, t, e⟩ := h
  exact ⟨ok', x, Took.of_done t, e⟩

theorem fillNodeLayer_spec (w : Nat) (b : Builder) (db : DB) (hb : b.ok) :
    LoopSpec b db (fillNodeLayer w b db) :=
  fillLoop_spec w _ newLeafDataNode_spec _ b db hb

theorem repeatLoop_spec (child : DB → Option (DB × FNode × Nat))
    (hchild : ∀ db r, child db = some r → ChildSpec db r) :
    ∀ (k : Nat) (b : Builder) (db : DB) (r : Builder × DB), b.ok →
      repeatLoop child k b db = some r → LoopSpec b db r := by
  intro k
  induction k with
  | zero =>
    intro b db r hb h
    simp only [repeatLoop, Option.some.injEq] at h
    subst h; exact LoopSpec.refl hb db
  | succ k ih =>
    intro b db r hb h
    unfold repeatLoop at h
    cases hd : db.done.2 with
    | true =>
      simp only [hd, if_true, Option.some.injEq] at h
      subst h
      exact ⟨hb, [], Took.of_pending_eq (by simp), by simp⟩
    | false =>
      simp only [hd, Bool.false_eq_true, if_false] at h
      cases hc : child db.done.1 with
      | none => simp [hc] at h
      | some c =>
        simp only [hc] at h
        exact LoopSpec.step hb (by simp) (hchild _ _ hc) (fun hok => ih _ _ _ hok h)

theorem depthLoopC_spec (cond : Nat → Bool) (sub : Nat → DB → Option (DB × FNode × Nat))
    (hsub : ∀ d db r, sub d db = some r → ChildSpec db r) :
    ∀ (fuel depth : Nat) (b : Builder) (db : DB) (r : Builder × DB), b.ok →
      depthLoopC cond sub fuel depth b db = some r → LoopSpec b db r := by
  intro fuel
  induction fuel with
  | zero => intro depth b db r _ h; simp [depthLoopC] at h
  | succ fuel ih =>
    intro depth b db r hb h
    unfold depthLoopC at h
    cases hc : cond depth with
    | true =>
      simp only [hc, if_true] at h
      cases hd : db.done.2 with
      | true =>
        simp only [hd, if_true, Option.some.injEq] at h
        subst h
        exact ⟨hb, [], Took.of_pending_eq (by simp), by simp⟩
      | false =>
        simp only [hd, Bool.false_eq_true, if_false] at h
        cases hr : repeatLoop (sub depth) depthRepeat b db.done.1 with
        | none => simp [hr] at h
        | some r1 =>
          simp only [hr] at h
          have h1 := repeatLoop_spec (sub depth) (hsub depth) _ _ _ _ hb hr
          exact LoopSpec.of_done (LoopSpec.trans h1 (ih _ _ _ _ h1.1 h))
    | false =>
      simp only [hc, Bool.false_eq_true, if_false, Option.some.injEq] at h
      subst h; exact LoopSpec.refl hb db

theorem depthLoop_spec (sub : Nat → DB → Option (DB × FNode × Nat)) (maxDepth : Int)
    (hsub : ∀ d db r, sub d db = some r → ChildSpec db r) :
    ∀ (fuel depth : Nat) (b : Builder) (db : DB) (r : Builder × DB), b.ok →
      depthLoop sub maxDepth fuel depth b db = some r → LoopSpec b db r :=
  depthLoopC_spec _ sub hsub

/-- a depth loop whose condition never fails only ends when the stream is exhausted -/
theorem depthLoopC_done (cond : Nat → Bool) (hcond : ∀ d, cond d = true)
    (sub : Nat → DB → Option (DB × FNode × Nat)) :
    ∀ (fuel depth : Nat) (b : Builder) (db : DB) (r : Builder × DB),
      depthLoopC cond sub fuel depth b db = some r → r.2.pending = [] := by
  intro fuel
  induction fuel with
  | zero => intro depth b db r h; simp [depthLoopC] at h
  | succ fuel ih =>
    intro depth b db r h
    unfold depthLoopC at h
    simp only [hcond, if_true] at h
    cases hd : db.done.2 with
    | true =>
      simp only [hd, if_true, Option.some.injEq] at h
      subst h
      simpa using (DB.done_true db).1 hd
    | false =>
      simp only [hd, Bool.false_eq_true, if_false] at h
      cases hr : repeatLoop (sub depth) depthRepeat b db.done.1 with
      | none => simp [hr] at h
      | some r1 =>
        simp only [hr] at h
        exact ih _ _ _ _ h

theorem depthLoop_root_done (sub : Nat → DB → Option (DB × FNode × Nat)) :
    ∀ (fuel depth : Nat) (b : Builder) (db : DB) (r : Builder × DB),
      depthLoop sub (-1) fuel depth b db = some r → r.2.pending = [] :=
  depthLoopC_done _ (by simp) sub

theorem fillTrickleRec_spec (w : Nat) : ∀ (fuel : Nat) (maxDepth : Int) (b : Builder) (db : DB)
    (r : DB × FNode × Nat), b.ok → fillTrickleRec w fuel maxDepth b db = some r → NodeSpec b db r := by
  intro fuel
  induction fuel with
  | zero => intro m b db r _ h; simp [fillTrickleRec] at h
  | succ fuel ih =>
    intro m b db r hb h
    unfold fillTrickleRec at h
    have hl := fillNodeLayer_spec w b db hb
    cases hd : depthLoop (fun d => fillTrickleRec w fuel (d : Int) {}) m fuel 1
        (fillNodeLayer w b db).1 (fillNodeLayer w b db).2 with
    | none => simp [hd] at h
    | some r1 =>
      simp only [hd, Option.some.injEq] at h
      subst h
      have h2 := depthLoop_spec _ m (fun d db r hr => (ih (d : Int) {} db r Builder.ok_empty hr).child)
        _ _ _ _ _ hl.1 hd
      exact NodeSpec.of_loop (LoopSpec.trans hl h2)

theorem fillTrickleRec_root_done (w : Nat) (fuel : Nat) (b : Builder) (db : DB) (r : DB × FNode × Nat)
    (h : fillTrickleRec w fuel (-1) b db = some r) : r.1.pending = [] := by
  cases fuel with
  | zero => simp [fillTrickleRec] at h
  | succ fuel =>
    unfold fillTrickleRec at h
    cases hd : depthLoop (fun d => fillTrickleRec w fuel (d : Int) {}) (-1) fuel 1
        (fillNodeLayer w b db).1 (fillNodeLayer w b db).2 with
    | none => simp [hd] at h
    | some r1 =>
      simp only [hd, Option.some.injEq] at h
      subst h
      exact depthLoop_root_done _ _ _ _ _ _ hd

/-! ### Trickle layout: the fuel suffices for `w ≥ 1` -/

theorem fillNodeLayer_progress (w : Nat) (hw : 1 ≤ w) (db : DB) (hp : db.pending ≠ []) :
    (fillNodeLayer w {} db).2.pending.length < db.pending.length :=
  fillLoop_progress w _ newLeafDataNode_spec newLeafDataNode_progress _ {} db Builder.ok_empty
    (by simp [Builder.numChildren]; omega) (by simp [Builder.numChildren]; omega) hp

/-- a child constructor that succeeds on every non-empty stream of at most `n` chunks, and consumes something
(children are only ever built after `!db.Done()`) -/
def SubTotal (child : DB → Option (DB × FNode × Nat)) (n : Nat) : Prop :=
  ∀ db, db.pending ≠ [] → db.pending.length ≤ n → ∃ r, child db = some r ∧ ChildSpec db r ∧
    r.1.pending.length < db.pending.length

theorem repeatLoop_total (child : DB → Option (DB × FNode × Nat)) :
    ∀ (k : Nat) (b : Builder) (db : DB), b.ok → SubTotal child db.pending.length →
      ∃ r, repeatLoop child k b db = some r ∧ LoopSpec b db r ∧
        (0 < k → db.pending ≠ [] → r.2.pending.length < db.pending.length) := by
  intro k
  induction k with
  | zero => intro b db hb _; exact ⟨(b, db), by simp [repeatLoop], LoopSpec.refl hb db, by omega⟩
  | succ k ih =>
    intro b db hb hs
    unfold repeatLoop
    cases hd : db.done.2 with
    | true =>
      simp only [hd, if_true]
      refine ⟨(b, db.done.1), rfl, ⟨hb, [], Took.of_pending_eq (by simp), by simp⟩, ?_⟩
      intro _ hp
      exact absurd ((DB.done_true db).1 hd) hp
    | false =>
      simp only [hd, Bool.false_eq_true, if_false]
      have hne : db.done.1.pending ≠ [] := by simpa using (DB.done_false db).1 hd
      obtain ⟨c, hc, cs, cp⟩ := hs db.done.1 hne (by simp)
      simp only [DB.done_pending] at cp
      simp only [hc]
      have hok := Builder.ok_addChild hb cs.1 cs.2.1
      obtain ⟨r, hr, ls, _⟩ := ih (b.addChild c.2.1 c.2.2) c.1 hok
        (fun db' hn hl => hs db' hn (by omega))
      refine ⟨r, hr, LoopSpec.step hb (by simp) cs (fun _ => ls), ?_⟩
      intro _ _
      have := ls.2.choose_spec.1.length_le
      omega

theorem depthLoopC_total (cond : Nat → Bool) (sub : Nat → DB → Option (DB × FNode × Nat)) :
    ∀ (fuel depth : Nat) (b : Builder) (db : DB), b.ok → db.pending.length + 1 ≤ fuel →
      (∀ d, SubTotal (sub d) db.pending.length) →
      ∃ r, depthLoopC cond sub fuel depth b db = some r := by
  intro fuel
  induction fuel with
  | zero => intro depth b db _ h; omega
  | succ fuel ih =>
    intro depth b db hb hf hs
    unfold depthLoopC
    cases hc : cond depth with
    | true =>
      simp only [if_true]
      cases hd : db.done.2 with
      | true => simp [hd]
      | false =>
        simp only [hd, Bool.false_eq_true, if_false]
        have hne : db.done.1.pending ≠ [] := by simpa using (DB.done_false db).1 hd
        obtain ⟨r1, hr1, ls, pr⟩ := repeatLoop_total (sub depth) depthRepeat b db.done.1 hb
          (by simpa using hs depth)
        have pr' := pr (by simp [depthRepeat]) hne
        simp only [DB.done_pending] at pr'
        simp only [hr1]
        exact ih _ _ _ ls.1 (by omega) (fun d db' hn hl => hs d db' hn (by omega))
    | false => simp

theorem depthLoop_total (sub : Nat → DB → Option (DB × FNode × Nat)) (maxDepth : Int) :
    ∀ (fuel depth : Nat) (b : Builder) (db : DB), b.ok → db.pending.length + 1 ≤ fuel →
      (∀ d, SubTotal (sub d) db.pending.length) →
      ∃ r, depthLoop sub maxDepth fuel depth b db = some r :=
  depthLoopC_total _ sub

theorem fillTrickleRec_total (w : Nat) (hw : 1 ≤ w) : ∀ (n : Nat) (maxDepth : Int),
    SubTotal (fillTrickleRec w (n + 2) maxDepth {}) n := by
  intro n
  induction n using Nat.strongRecOn with
  | _ n ih =>
    intro m db hp hl
    have hls := fillNodeLayer_spec w {} db Builder.ok_empty
    have hlt := fillNodeLayer_progress w hw db hp
    have hpos : 0 < db.pending.length := List.length_pos_iff.mpr hp
    have e : n + 1 = (n - 1) + 2 := by omega
    have sub : ∀ d : Nat, SubTotal (fun db => fillTrickleRec w (n + 1) (d : Int) {} db)
        (fillNodeLayer w {} db).2.pending.length := by
      intro d db' hn' hl'
      have := ih (n - 1) (by omega) (d : Int) db' hn' (by omega)
      rw [← e] at this
      exact this
    obtain ⟨r1, hr1⟩ := depthLoop_total _ m (n + 1) 1 _ _ hls.1 (by omega) sub
    have h2 := depthLoop_spec _ m
      (fun d db r hr => (fillTrickleRec_spec w _ (d : Int) {} db r Builder.ok_empty hr).child)
      _ _ _ _ _ hls.1 hr1
    refine ⟨(r1.2, r1.1.commit, r1.1.filesize), ?_, ?_, ?_⟩
    · unfold fillTrickleRec
      simp only [hr1]
    · exact (NodeSpec.of_loop (LoopSpec.trans hls h2)).child
    · have := h2.2.choose_spec.1.length_le
      simp only
      omega

theorem fillTrickleRec_total_empty (w : Nat) (fuel : Nat) (maxDepth : Int) (db : DB) (hp : db.pending = []) :
    ∃ r, fillTrickleRec w (fuel + 2) maxDepth {} db = some r := by
  have hls := fillNodeLayer_spec w {} db Builder.ok_empty
  have hle := hls.2.choose_spec.1.length_le
  have h0 : (fillNodeLayer w {} db).2.pending.length = 0 := by
    simp [hp] at hle; simp [hle]
  obtain ⟨r1, hr1⟩ := depthLoop_total (fun d => fillTrickleRec w (fuel + 1) (d : Int) {}) maxDepth (fuel + 1) 1
    (fillNodeLayer w {} db).1 (fillNodeLayer w {} db).2 hls.1 (by omega) (fun d db' hn hl => by
      have : db'.pending.length = 0 := by omega
      exact absurd (List.length_eq_zero_iff.mp this) hn)
  exact ⟨(r1.2, r1.1.commit, r1.1.filesize), by unfold fillTrickleRec; simp only [hr1]⟩

/-! ### The two layouts as a whole -/

def isNode : FNode → Bool
  | .leaf _ => false
  | .node _ _ => true

theorem balancedLayout_spec (c : Cfg) (cs : List Chunk) (o : Out) (h : balancedLayout c cs = some o) :
    wellSized o.root = true ∧ content o.root = cs.flatten := by
  unfold balancedLayout at h
  simp only at h
  have hp : ({ spl := cs } : DB).pending = cs := by simp [DB.pending]
  cases hd : ({ spl := cs } : DB).done.2 with
  | true =>
    simp only [hd, if_true, Option.some.injEq] at h
    subst h
    have := (DB.done_true _).1 hd
    rw [hp] at this
    simp [this]
  | false =>
    simp only [hd, Bool.false_eq_true, if_false] at h
    obtain ⟨l1, l2, l3⟩ := newLeafDataNode_spec ({ spl := cs } : DB).done.1
    cases hl : layoutLoop c.w (cs.length + 1) 0 (newLeafDataNode ({ spl := cs } : DB).done.1).2.1
        (newLeafDataNode ({ spl := cs } : DB).done.1).2.2 (newLeafDataNode ({ spl := cs } : DB).done.1).1 with
    | none => simp [hl] at h
    | some r =>
      simp only [hl, Option.some.injEq] at h
      subst h
      obtain ⟨i1, i2, _⟩ := layoutLoop_spec c.w _ _ _ _ _ _ l1 l2 hl
      refine ⟨i1, ?_⟩
      have := (Took.of_done l3).flat
      simp only [DB.flat, hp] at this
      simp only [i2, DB.flat, this]

theorem balancedLayout_total (c : Cfg) (cs : List Chunk) (hw : 2 ≤ c.w) : ∃ o, balancedLayout c cs = some o := by
  unfold balancedLayout
  simp only
  have hp : ({ spl := cs } : DB).pending = cs := by simp [DB.pending]
  cases hd : ({ spl := cs } : DB).done.2 with
  | true => simp
  | false =>
    simp only [Bool.false_eq_true, if_false]
    obtain ⟨l1, l2, l3⟩ := newLeafDataNode_spec ({ spl := cs } : DB).done.1
    have hle := (Took.of_done l3).length_le
    rw [hp] at hle
    obtain ⟨r, hr⟩ := layoutLoop_terminates c.w hw (cs.length + 1) 0 _ _
      (newLeafDataNode ({ spl := cs } : DB).done.1).1 l1 l2 (by omega)
    simp [hr]

/-- with more than one chunk the balanced root is an internal node -/
theorem layoutLoop_isNode (w : Nat) : ∀ (fuel dm1 : Nat) (root : FNode) (fs : Nat) (db : DB) (r : FNode × DB),
    layoutLoop w fuel dm1 root fs db = some r → (db.pending ≠ [] ∨ isNode root = true) → isNode r.1 = true := by
  intro fuel
  induction fuel with
  | zero => intro dm1 root fs db r h; simp [layoutLoop] at h
  | succ fuel ih =>
    intro dm1 root fs db r h hn
    unfold layoutLoop at h
    cases hd : db.done.2 with
    | true =>
      simp only [hd, if_true, Option.some.injEq] at h
      subst h
      rcases hn with hn | hn
      · exact absurd ((DB.done_true db).1 hd) hn
      · exact hn
    | false =>
      simp only [hd, Bool.false_eq_true, if_false] at h
      refine ih _ _ _ _ _ h (Or.inr ?_)
      cases dm1 <;> simp [fillNodeRec, Builder.commit, isNode]

theorem balancedLayout_isNode (c : Cfg) (cs : List Chunk) (o : Out) (h : balancedLayout c cs = some o)
    (h2 : 2 ≤ cs.length) : isNode o.root = true := by
  unfold balancedLayout at h
  simp only at h
  have hp : ({ spl := cs } : DB).pending = cs := by simp [DB.pending]
  cases hd : ({ spl := cs } : DB).done.2 with
  | true =>
    have := (DB.done_true _).1 hd
    rw [hp] at this
    simp [this] at h2
  | false =>
    simp only [hd, Bool.false_eq_true, if_false] at h
    cases hl : layoutLoop c.w (cs.length + 1) 0 (newLeafDataNode ({ spl := cs } : DB).done.1).2.1
        (newLeafDataNode ({ spl := cs } : DB).done.1).2.2 (newLeafDataNode ({ spl := cs } : DB).done.1).1 with
    | none => simp [hl] at h
    | some r =>
      simp only [hl, Option.some.injEq] at h
      subst h
      refine layoutLoop_isNode _ _ _ _ _ _ _ hl (Or.inl ?_)
      have := (DB.next_spec ({ spl := cs } : DB).done.1).2
      simp only [DB.done_pending, hp] at this
      simp only [newLeafDataNode, this]
      cases cs with
      | nil => simp at h2
      | cons a t => cases t with
        | nil => simp at h2
        | cons b t => simp

/-- `Maxlinks ≤ 1`: the new root is already "full" with the old root as its only child, nothing is consumed,
the loop of layoutData never ends (any fuel runs out). -/
theorem layoutLoop_w1_diverges (w : Nat) (hw : w ≤ 1) : ∀ (fuel dm1 : Nat) (root : FNode) (fs : Nat) (db : DB),
    db.pending ≠ [] → layoutLoop w fuel dm1 root fs db = none := by
  intro fuel
  induction fuel with
  | zero => intro dm1 root fs db _; simp [layoutLoop]
  | succ fuel ih =>
    intro dm1 root fs db hp
    unfold layoutLoop
    have hd := (DB.done_false db).2 hp
    simp only [hd, Bool.false_eq_true, if_false]
    have e : w - (({} : Builder).addChild root fs).numChildren = 0 := by
      simp [Builder.numChildren]; omega
    have : (fillNodeRec w dm1 (({} : Builder).addChild root fs) db.done.1).1 = db.done.1 := by
      cases dm1 <;> simp only [fillNodeRec, e, fillLoop]
    rw [this]
    exact ih _ _ _ _ (by simpa using hp)

theorem fillTrickleRec_isNode (w : Nat) (fuel : Nat) (m : Int) (b : Builder) (db : DB) (r : DB × FNode × Nat)
    (h : fillTrickleRec w fuel m b db = some r) : isNode r.2.1 = true := by
  cases fuel with
  | zero => simp [fillTrickleRec] at h
  | succ fuel =>
    unfold fillTrickleRec at h
    cases hd : depthLoop (fun d => fillTrickleRec w fuel (d : Int) {}) m fuel 1
        (fillNodeLayer w b db).1 (fillNodeLayer w b db).2 with
    | none => simp [hd] at h
    | some r1 =>
      simp only [hd, Option.some.injEq] at h
      subst h
      simp [Builder.commit, isNode]

theorem trickleLayout_spec (c : Cfg) (cs : List Chunk) (o : Out) (h : trickleLayout c cs = some o) :
    wellSized o.root = true ∧ content o.root = cs.flatten ∧ isNode o.root = true := by
  unfold trickleLayout at h
  have hp : ({ spl := cs } : DB).pending = cs := by simp [DB.pending]
  cases hf : fillTrickleRec c.w (cs.length + 2) (-1) {} { spl := cs } with
  | none => simp [hf] at h
  | some r =>
    simp only [hf, Option.some.injEq] at h
    subst h
    obtain ⟨n1, _, x, t, e⟩ := fillTrickleRec_spec c.w _ _ _ _ _ Builder.ok_empty hf
    have hdone := fillTrickleRec_root_done c.w _ _ _ _ hf
    have := t.all hdone
    simp only [DB.flat, hp] at this
    exact ⟨n1, by simp [e, this], fillTrickleRec_isNode _ _ _ _ _ _ hf⟩

theorem trickleLayout_total (c : Cfg) (cs : List Chunk) (hw : 1 ≤ c.w) : ∃ o, trickleLayout c cs = some o := by
  unfold trickleLayout
  have hp : ({ spl := cs } : DB).pending = cs := by simp [DB.pending]
  by_cases he : cs = []
  · obtain ⟨r, hr⟩ := fillTrickleRec_total_empty c.w cs.length (-1) { spl := cs } (by subst he; simp [DB.pending])
    simp [hr]
  · obtain ⟨r, hr, _⟩ := fillTrickleRec_total c.w hw cs.length (-1) { spl := cs } (by simpa [hp] using he)
      (by simp [hp])
    simp [hr]

/-! ### Induction over file trees -/

theorem FNode.induct {P : FNode → Prop} {Q : List (FNode × Nat) → Prop}
    (leaf : ∀ d, P (.leaf d)) (node : ∀ fs cs, Q cs → P (.node fs cs))
    (nil : Q []) (cons : ∀ c r, P c.1 → Q r → Q (c :: r)) : ∀ t, P t := by
  intro t
  exact FNode.rec (motive_1 := P) (motive_2 := Q) (motive_3 := fun p => P p.1)
    leaf node nil (fun c r hc hr => cons c r hc hr) (fun a b h => h) t

theorem FNode.inductL {P : FNode → Prop} {Q : List (FNode × Nat) → Prop}
    (leaf : ∀ d, P (.leaf d)) (node : ∀ fs cs, Q cs → P (.node fs cs))
    (nil : Q []) (cons : ∀ c r, P c.1 → Q r → Q (c :: r)) : ∀ cs, Q cs := by
  intro cs
  induction cs with
  | nil => exact nil
  | cons c r ih => exact cons c r (FNode.induct leaf node nil cons c.1) ih

/-! ### Balanced shape -/

@[simp] theorem full_leaf (w d : Nat) (x : List UInt8) : full w d (.leaf x) = (d == 0) := by
  cases d <;> simp [full]
@[simp] theorem full_node_zero (w fs : Nat) (cs : List (FNode × Nat)) : full w 0 (.node fs cs) = false := by
  simp [full]
@[simp] theorem full_node_succ (w d fs : Nat) (cs : List (FNode × Nat)) :
    full w (d + 1) (.node fs cs) = (cs.length == w && fullL w d cs) := by simp [full]
@[simp] theorem fullL_nil (w d : Nat) : fullL w d [] = true := by simp [fullL]
@[simp] theorem fullL_cons (w d : Nat) (c : FNode × Nat) (r : List (FNode × Nat)) :
    fullL w d (c :: r) = (full w d c.1 && fullL w d r) := by simp [fullL]
@[simp] theorem bshape_leaf (w d : Nat) (x : List UInt8) : bshape w d (.leaf x) = (d == 0) := by
  cases d <;> simp [bshape]
@[simp] theorem bshape_node_zero (w fs : Nat) (cs : List (FNode × Nat)) : bshape w 0 (.node fs cs) = false := by
  simp [bshape]
@[simp] theorem bshape_node_succ (w d fs : Nat) (cs : List (FNode × Nat)) :
    bshape w (d + 1) (.node fs cs) = (decide (cs.length ≤ w) && bshapeL w d cs) := by simp [bshape]
@[simp] theorem bshapeL_nil (w d : Nat) : bshapeL w d [] = false := by simp [bshapeL]
@[simp] theorem bshapeL_one (w d : Nat) (c : FNode × Nat) : bshapeL w d [c] = bshape w d c.1 := by
  simp [bshapeL]
@[simp] theorem bshapeL_cons2 (w d : Nat) (c c' : FNode × Nat) (r : List (FNode × Nat)) :
    bshapeL w d (c :: c' :: r) = (full w d c.1 && bshapeL w d (c' :: r)) := by simp [bshapeL]
@[simp] theorem leavesAt_leaf (d : Nat) (x : List UInt8) : leavesAt d (.leaf x) = (d == 0) := by
  cases d <;> simp [leavesAt]
@[simp] theorem leavesAt_node_zero (fs : Nat) (cs : List (FNode × Nat)) : leavesAt 0 (.node fs cs) = false := by
  simp [leavesAt]
@[simp] theorem leavesAt_node_succ (d fs : Nat) (cs : List (FNode × Nat)) :
    leavesAt (d + 1) (.node fs cs) = leavesAtL d cs := by simp [leavesAt]
@[simp] theorem leavesAtL_nil (d : Nat) : leavesAtL d [] = true := by simp [leavesAtL]
@[simp] theorem leavesAtL_cons (d : Nat) (c : FNode × Nat) (r : List (FNode × Nat)) :
    leavesAtL d (c :: r) = (leavesAt d c.1 && leavesAtL d r) := by simp [leavesAtL]
@[simp] theorem maxWidth_leaf (w : Nat) (x : List UInt8) : maxWidth w (.leaf x) = true := by simp [maxWidth]
@[simp] theorem maxWidth_node (w fs : Nat) (cs : List (FNode × Nat)) :
    maxWidth w (.node fs cs) = (decide (cs.length ≤ w) && maxWidthL w cs) := by simp [maxWidth]
@[simp] theorem maxWidthL_nil (w : Nat) : maxWidthL w [] = true := by simp [maxWidthL]
@[simp] theorem maxWidthL_cons (w : Nat) (c : FNode × Nat) (r : List (FNode × Nat)) :
    maxWidthL w (c :: r) = (maxWidth w c.1 && maxWidthL w r) := by simp [maxWidthL]

theorem fullL_append (w d : Nat) (a b : List (FNode × Nat)) :
    fullL w d (a ++ b) = (fullL w d a && fullL w d b) := by
  induction a with
  | nil => simp
  | cons c r ih => simp [ih, Bool.and_assoc]

theorem bshapeL_snoc (w d : Nat) (a : List (FNode × Nat)) (c : FNode × Nat) :
    bshapeL w d (a ++ [c]) = (fullL w d a && bshape w d c.1) := by
  induction a with
  | nil => simp
  | cons x r ih =>
    cases r with
    | nil => simp
    | cons y r' =>
      simp only [List.cons_append, bshapeL_cons2, fullL_cons] at ih ⊢
      rw [ih]; simp [Bool.and_assoc]

/-- P/Q for the tree inductions below -/
theorem full_shapes (w : Nat) (hw : 1 ≤ w) (t : FNode) :
    ∀ d, full w d t = true → bshape w d t = true ∧ leavesAt d t = true ∧ maxWidth w t = true := by
  refine FNode.induct (P := fun t => ∀ d, full w d t = true →
      bshape w d t = true ∧ leavesAt d t = true ∧ maxWidth w t = true)
    (Q := fun cs => ∀ d, fullL w d cs = true →
      (cs ≠ [] → bshapeL w d cs = true) ∧ leavesAtL d cs = true ∧ maxWidthL w cs = true)
    ?_ ?_ ?_ ?_ t
  · intro x d h; simpa using h
  · intro fs cs ih d h
    cases d with
    | zero => simp at h
    | succ d =>
      simp only [full_node_succ, Bool.and_eq_true, beq_iff_eq] at h
      obtain ⟨i1, i2, i3⟩ := ih d h.2
      have hne : cs ≠ [] := by intro e; subst e; simp at h; omega
      simp [i1 hne, i2, i3, h.1]
  · intro d _; simp
  · intro c r ihc ihr d h
    simp only [fullL_cons, Bool.and_eq_true] at h
    obtain ⟨c1, c2, c3⟩ := ihc d h.1
    obtain ⟨r1, r2, r3⟩ := ihr d h.2
    refine ⟨fun _ => ?_, by simp [c2, r2], by simp [c3, r3]⟩
    cases r with
    | nil => simpa using c1
    | cons y r' => simp [h.1, r1 (by simp)]

theorem bshape_shapes (w : Nat) (hw : 1 ≤ w) (t : FNode) :
    ∀ d, bshape w d t = true → leavesAt d t = true ∧ maxWidth w t = true := by
  refine FNode.induct (P := fun t => ∀ d, bshape w d t = true → leavesAt d t = true ∧ maxWidth w t = true)
    (Q := fun cs => ∀ d, bshapeL w d cs = true → leavesAtL d cs = true ∧ maxWidthL w cs = true)
    ?_ ?_ ?_ ?_ t
  · intro x d h; simpa using h
  · intro fs cs ih d h
    cases d with
    | zero => simp at h
    | succ d =>
      simp only [bshape_node_succ, Bool.and_eq_true, decide_eq_true_eq] at h
      obtain ⟨i2, i3⟩ := ih d h.2
      simp [i2, i3, h.1]
  · intro d h; simp at h
  · intro c r ihc ihr d h
    cases r with
    | nil =>
      simp only [bshapeL_one] at h
      obtain ⟨c2, c3⟩ := ihc d h
      simp [c2, c3]
    | cons y r' =>
      simp only [bshapeL_cons2, Bool.and_eq_true] at h
      obtain ⟨_, c2, c3⟩ := full_shapes w hw c.1 d h.1
      obtain ⟨r2, r3⟩ := ihr d h.2
      simp only [leavesAtL_cons, maxWidthL_cons] at r2 r3 ⊢
      simp [c2, c3, r2, r3]

theorem leavesAt_of_bshape (w d : Nat) (t : FNode) (hw : 1 ≤ w) (h : bshape w d t = true) : leavesAt d t = true :=
  (bshape_shapes w hw t d h).1

theorem maxWidth_of_bshape (w d : Nat) (t : FNode) (hw : 1 ≤ w) (h : bshape w d t = true) : maxWidth w t = true :=
  (bshape_shapes w hw t d h).2

theorem fullL_bshapeL (w : Nat) (hw : 1 ≤ w) (d : Nat) (cs : List (FNode × Nat)) (h : fullL w d cs = true)
    (hne : cs ≠ []) : bshapeL w d cs = true := by
  induction cs with
  | nil => exact absurd rfl hne
  | cons c r ih =>
    simp only [fullL_cons, Bool.and_eq_true] at h
    cases r with
    | nil => simpa using (full_shapes w hw c.1 d h.1).1
    | cons y r' => simp [h.1, ih h.2 (by simp)]

theorem fillLoop_done (w : Nat) (child : DB → DB × FNode × Nat) (fuel : Nat) (b : Builder) (db : DB)
    (hp : db.pending = []) :
    (fillLoop w child fuel b db).1 = b ∧ (fillLoop w child fuel b db).2.pending = [] := by
  cases fuel with
  | zero => simp [fillLoop, hp]
  | succ fuel =>
    unfold fillLoop
    have hd := (DB.done_true db).2 hp
    by_cases hw : b.numChildren < w <;> simp [hw, hd, hp]

/-- what the child constructor of a fill loop at level `d` guarantees -/
def ChildShape (w d : Nat) (child : DB → DB × FNode × Nat) : Prop :=
  ∀ db, db.pending ≠ [] → bshape w d (child db).2.1 = true ∧
    ((child db).1.pending ≠ [] → full w d (child db).2.1 = true)

theorem fillLoop_shape (w d : Nat) (hw : 1 ≤ w) (child : DB → DB × FNode × Nat) (hchild : ChildShape w d child) :
    ∀ (fuel : Nat) (b : Builder) (db : DB), w - b.numChildren ≤ fuel → b.numChildren ≤ w →
      fullL w d b.links = true →
      (fillLoop w child fuel b db).1.numChildren ≤ w ∧
      b.numChildren ≤ (fillLoop w child fuel b db).1.numChildren ∧
      (db.pending ≠ [] → b.numChildren < w → b.numChildren < (fillLoop w child fuel b db).1.numChildren) ∧
      ((fillLoop w child fuel b db).1.links ≠ [] → bshapeL w d (fillLoop w child fuel b db).1.links = true) ∧
      ((fillLoop w child fuel b db).2.pending ≠ [] →
        fullL w d (fillLoop w child fuel b db).1.links = true ∧ (fillLoop w child fuel b db).1.numChildren = w) := by
  intro fuel
  induction fuel with
  | zero =>
    intro b db hf hn hfull
    simp only [fillLoop]
    exact ⟨hn, Nat.le_refl _, fun _ h => by omega, fullL_bshapeL w hw d _ hfull, fun _ => ⟨hfull, by omega⟩⟩
  | succ fuel ih =>
    intro b db hf hn hfull
    unfold fillLoop
    by_cases hlt : b.numChildren < w
    · simp only [hlt, if_true]
      cases hd : db.done.2 with
      | true =>
        simp only [if_true]
        have hp := (DB.done_true db).1 hd
        exact ⟨hn, Nat.le_refl _, fun h => absurd hp h, fullL_bshapeL w hw d _ hfull,
          fun h => absurd (by simpa using hp) h⟩
      | false =>
        simp only [Bool.false_eq_true, if_false]
        have hne : db.done.1.pending ≠ [] := by simpa using (DB.done_false db).1 hd
        obtain ⟨cb, cf⟩ := hchild db.done.1 hne
        by_cases hp' : (child db.done.1).1.pending = []
        · obtain ⟨e1, e2⟩ := fillLoop_done w child fuel (b.addChild (child db.done.1).2.1 (child db.done.1).2.2)
            (child db.done.1).1 hp'
          rw [e1]
          refine ⟨by simp; omega, by simp, fun _ _ => by simp, fun _ => ?_, fun h => absurd e2 h⟩
          simp [bshapeL_snoc, hfull, cb]
        · have hfull' : fullL w d (b.addChild (child db.done.1).2.1 (child db.done.1).2.2).links = true := by
            simp [fullL_append, hfull, cf hp']
          obtain ⟨i1, i2, _, i4, i5⟩ := ih (b.addChild (child db.done.1).2.1 (child db.done.1).2.2)
            (child db.done.1).1 (by simp; omega) (by simp; omega) hfull'
          simp only [Builder.numChildren_addChild] at i2
          exact ⟨i1, by omega, fun _ _ => by omega, i4, i5⟩
    · simp only [hlt, if_false]
      exact ⟨hn, Nat.le_refl _, fun _ h => False.elim h, fullL_bshapeL w hw d _ hfull, fun _ => ⟨hfull, by omega⟩⟩

theorem newLeaf_childShape (w : Nat) : ChildShape w 0 newLeafDataNode := by
  intro db _
  simp [newLeafDataNode]

theorem fillNodeRec_shape (w : Nat) (hw : 1 ≤ w) : ∀ (dm1 : Nat) (b : Builder) (db : DB),
    b.numChildren ≤ w → fullL w dm1 b.links = true →
    (b.links ≠ [] ∨ (db.pending ≠ [] ∧ b.numChildren < w)) →
    bshape w (dm1 + 1) (fillNodeRec w dm1 b db).2.1 = true ∧
    ((fillNodeRec w dm1 b db).1.pending ≠ [] → full w (dm1 + 1) (fillNodeRec w dm1 b db).2.1 = true) := by
  intro dm1
  induction dm1 with
  | zero =>
    intro b db hn hfull hne
    obtain ⟨i1, i2, i3, i4, i5⟩ := fillLoop_shape w 0 hw _ (newLeaf_childShape w) (w - b.numChildren) b db
      (Nat.le_refl _) hn hfull
    have hnz : (fillLoop w newLeafDataNode (w - b.numChildren) b db).1.links ≠ [] := by
      intro e
      have e' : (fillLoop w newLeafDataNode (w - b.numChildren) b db).1.numChildren = 0 := by
        rw [Builder.numChildren, e]; rfl
      rcases hne with h | ⟨h1, h2⟩
      · have : b.numChildren ≠ 0 := by simpa [Builder.numChildren] using h
        omega
      · have := i3 h1 h2; omega
    simp only [fillNodeRec, Builder.commit, bshape_node_succ, full_node_succ, Bool.and_eq_true,
      decide_eq_true_eq, beq_iff_eq]
    exact ⟨⟨i1, i4 hnz⟩, fun h => ⟨(i5 h).2, (i5 h).1⟩⟩
  | succ d ih =>
    intro b db hn hfull hne
    have hchild : ChildShape w (d + 1) (fillNodeRec w d {}) := by
      intro db' hp'
      exact ih {} db' (by simp [Builder.numChildren]) (by simp)
        (Or.inr ⟨hp', by simp [Builder.numChildren]; omega⟩)
    obtain ⟨i1, i2, i3, i4, i5⟩ := fillLoop_shape w (d + 1) hw _ hchild (w - b.numChildren) b db
      (Nat.le_refl _) hn hfull
    have hnz : (fillLoop w (fillNodeRec w d {}) (w - b.numChildren) b db).1.links ≠ [] := by
      intro e
      have e' : (fillLoop w (fillNodeRec w d {}) (w - b.numChildren) b db).1.numChildren = 0 := by
        rw [Builder.numChildren, e]; rfl
      rcases hne with h | ⟨h1, h2⟩
      · have : b.numChildren ≠ 0 := by simpa [Builder.numChildren] using h
        omega
      · have := i3 h1 h2; omega
    simp only [fillNodeRec, Builder.commit, bshape_node_succ, full_node_succ, Bool.and_eq_true,
      decide_eq_true_eq, beq_iff_eq]
    exact ⟨⟨i1, i4 hnz⟩, fun h => ⟨(i5 h).2, (i5 h).1⟩⟩

theorem layoutLoop_shape (w : Nat) (hw : 1 ≤ w) : ∀ (fuel dm1 : Nat) (root : FNode) (fs : Nat) (db : DB)
    (r : FNode × DB), layoutLoop w fuel dm1 root fs db = some r → bshape w dm1 root = true →
    (db.pending ≠ [] → full w dm1 root = true) → ∃ d, bshape w d r.1 = true := by
  intro fuel
  induction fuel with
  | zero => intro dm1 root fs db r h; simp [layoutLoop] at h
  | succ fuel ih =>
    intro dm1 root fs db r h hb hf
    unfold layoutLoop at h
    cases hd : db.done.2 with
    | true =>
      simp only [hd, if_true, Option.some.injEq] at h
      subst h
      exact ⟨dm1, hb⟩
    | false =>
      simp only [hd, Bool.false_eq_true, if_false] at h
      have hp := (DB.done_false db).1 hd
      obtain ⟨s1, s2⟩ := fillNodeRec_shape w hw dm1 (({} : Builder).addChild root fs) db.done.1
        (by simp [Builder.numChildren]; omega) (by simp [hf hp]) (Or.inl (by simp))
      exact ih _ _ _ _ _ h s1 s2

theorem balancedLayout_shape (c : Cfg) (cs : List Chunk) (o : Out) (h : balancedLayout c cs = some o)
    (hw : 2 ≤ c.w) : ∃ d, bshape c.w d o.root = true := by
  unfold balancedLayout at h
  simp only at h
  cases hd : ({ spl := cs } : DB).done.2 with
  | true =>
    simp only [hd, if_true, Option.some.injEq] at h
    subst h
    exact ⟨0, by simp⟩
  | false =>
    simp only [hd, Bool.false_eq_true, if_false] at h
    cases hl : layoutLoop c.w (cs.length + 1) 0 (newLeafDataNode ({ spl := cs } : DB).done.1).2.1
        (newLeafDataNode ({ spl := cs } : DB).done.1).2.2 (newLeafDataNode ({ spl := cs } : DB).done.1).1 with
    | none => simp [hl] at h
    | some r =>
      simp only [hl, Option.some.injEq] at h
      subst h
      exact layoutLoop_shape c.w (by omega) _ _ _ _ _ _ hl (by simp [newLeafDataNode])
        (fun _ => by simp [newLeafDataNode])

/-! ### Trickle shape (the predicate VerifyTrickleDagStructure computes) -/

@[simp] theorem tshape_leaf (w : Nat) (m : Int) (x : List UInt8) : tshape w m (.leaf x) = (m == 0) := by
  simp [tshape]
@[simp] theorem tshape_node (w : Nat) (m : Int) (fs : Nat) (cs : List (FNode × Nat)) :
    tshape w m (.node fs cs) = (m != 0 && tshapeL true w m 0 cs) := by simp [tshape]
@[simp] theorem tshapeL_nil (st : Bool) (w : Nat) (m : Int) (i : Nat) : tshapeL st w m i [] = true := by simp [tshapeL]
theorem tshapeL_cons (st : Bool) (w : Nat) (m : Int) (i : Nat) (c : FNode × Nat) (r : List (FNode × Nat)) :
    tshapeL st w m i (c :: r) =
      ((if i < w then (!st || tshape w 0 c.1)
        else !(decide (((((i - w) / depthRepeat + 1 : Nat) : Int)) ≥ m) && decide (m > 0)) &&
          tshape w (((i - w) / depthRepeat + 1 : Nat) : Int) c.1) && tshapeL st w m (i + 1) r) := by
  simp [tshapeL]

theorem tshapeL_append (st : Bool) (w : Nat) (m : Int) (a b : List (FNode × Nat)) : ∀ i,
    tshapeL st w m i (a ++ b) = (tshapeL st w m i a && tshapeL st w m (i + a.length) b) := by
  induction a with
  | nil => intro i; simp
  | cons c r ih =>
    intro i
    simp only [List.cons_append, tshapeL_cons, ih, List.length_cons, Bool.and_assoc]
    have : i + 1 + r.length = i + (r.length + 1) := by omega
    rw [this]

theorem full_zero_iff (w : Nat) (t : FNode) : full w 0 t = true ↔ ∃ x, t = .leaf x := by
  cases t with
  | leaf x => simp
  | node fs cs => simp

theorem bshape_zero (w : Nat) (t : FNode) : bshape w 0 t = full w 0 t := by
  cases t <;> simp

theorem bshapeL_zero (w : Nat) (l : List (FNode × Nat)) (h : bshapeL w 0 l = true) : fullL w 0 l = true := by
  induction l with
  | nil => simp
  | cons c r ih =>
    cases r with
    | nil => simpa [bshape_zero] using h
    | cons y r' =>
      simp only [bshapeL_cons2, Bool.and_eq_true] at h
      simp only [fullL_cons, Bool.and_eq_true] at ih ⊢
      exact ⟨h.1, ih h.2⟩

theorem tshapeL_leaves (st : Bool) (w : Nat) (m : Int) (l : List (FNode × Nat)) (h : fullL w 0 l = true) :
    ∀ i, i + l.length ≤ w → tshapeL st w m i l = true := by
  induction l with
  | nil => intro i _; simp
  | cons c r ih =>
    intro i hi
    simp only [fullL_cons, Bool.and_eq_true] at h
    obtain ⟨x, hx⟩ := (full_zero_iff w c.1).1 h.1
    simp only [List.length_cons] at hi
    have : i < w := by omega
    simp [tshapeL_cons, this, hx, ih h.2 (i + 1) (by omega)]

theorem fillNodeLayer_leaves (w : Nat) (hw : 1 ≤ w) (db : DB) :
    fullL w 0 (fillNodeLayer w {} db).1.links = true ∧ (fillNodeLayer w {} db).1.numChildren ≤ w ∧
    ((fillNodeLayer w {} db).2.pending ≠ [] → (fillNodeLayer w {} db).1.numChildren = w) := by
  obtain ⟨i1, _, _, i4, i5⟩ := fillLoop_shape w 0 hw _ (newLeaf_childShape w) (w - ({} : Builder).numChildren) {} db
    (Nat.le_refl _) (by simp [Builder.numChildren]) (by simp)
  refine ⟨?_, i1, fun h => (i5 h).2⟩
  by_cases e : (fillNodeLayer w {} db).1.links = []
  · rw [e]; simp
  · exact bshapeL_zero w _ (i4 e)

/-- every sub-tree constructor used at depth `d ≥ 1` yields a tree that verifies at depth `d` -/
def SubShape (w : Nat) (sub : Nat → DB → Option (DB × FNode × Nat)) : Prop :=
  ∀ d db r, 1 ≤ d → sub d db = some r → tshape w (d : Int) r.2.1 = true

theorem repeatLoop_shape (st : Bool) (w : Nat) (m : Int) (d : Nat) (hd1 : 1 ≤ d) (hm : m = -1 ∨ (d : Int) < m)
    (child : DB → Option (DB × FNode × Nat))
    (hchild : ∀ db r, child db = some r → tshape w (d : Int) r.2.1 = true) :
    ∀ (k j : Nat) (b : Builder) (db : DB) (r : Builder × DB), k + j = 4 →
      b.numChildren = w + 4 * (d - 1) + j → tshapeL st w m 0 b.links = true →
      repeatLoop child k b db = some r →
      tshapeL st w m 0 r.1.links = true ∧ (r.2.pending ≠ [] → r.1.numChildren = w + 4 * d) := by
  intro k
  induction k with
  | zero =>
    intro j b db r hk hn hs h
    simp only [repeatLoop, Option.some.injEq] at h
    subst h
    exact ⟨hs, fun _ => by simp only; omega⟩
  | succ k ih =>
    intro j b db r hk hn hs h
    unfold repeatLoop at h
    cases hd : db.done.2 with
    | true =>
      simp only [hd, if_true, Option.some.injEq] at h
      subst h
      exact ⟨hs, fun hp => absurd (by simpa using (DB.done_true db).1 hd) hp⟩
    | false =>
      simp only [hd, Bool.false_eq_true, if_false] at h
      cases hc : child db.done.1 with
      | none => simp [hc] at h
      | some c =>
        simp only [hc] at h
        refine ih (j + 1) _ _ _ (by omega) (by simp; omega) ?_ h
        have hlen : b.links.length = w + 4 * (d - 1) + j := hn
        have hnlt : ¬ (w + 4 * (d - 1) + j < w) := by omega
        have hdiv : (w + 4 * (d - 1) + j - w) / 4 + 1 = d := by omega
        simp only [Builder.links_addChild, tshapeL_append, hs, Bool.true_and, Nat.zero_add, hlen,
          tshapeL_cons, hnlt, if_false, depthRepeat, hdiv, tshapeL_nil, Bool.and_true, hchild _ _ hc]
        rcases hm with hm | hm
        · simp [hm]
        · have : ¬ ((d : Int) ≥ m) := by omega
          simp [this]

theorem depthLoopC_shape (st : Bool) (w : Nat) (m : Int) (cond : Nat → Bool)
    (hcond : ∀ d, cond d = true → m = -1 ∨ (d : Int) < m)
    (sub : Nat → DB → Option (DB × FNode × Nat)) (hsub : SubShape w sub) :
    ∀ (fuel d : Nat) (b : Builder) (db : DB) (r : Builder × DB), 1 ≤ d →
      tshapeL st w m 0 b.links = true → (db.pending ≠ [] → b.numChildren = w + 4 * (d - 1)) →
      depthLoopC cond sub fuel d b db = some r → tshapeL st w m 0 r.1.links = true := by
  intro fuel
  induction fuel with
  | zero => intro d b db r _ _ _ h; simp [depthLoopC] at h
  | succ fuel ih =>
    intro d b db r hd1 hs hn h
    unfold depthLoopC at h
    cases hc : cond d with
    | true =>
      simp only [hc, if_true] at h
      cases hd : db.done.2 with
      | true =>
        simp only [hd, if_true, Option.some.injEq] at h
        subst h; exact hs
      | false =>
        simp only [hd, Bool.false_eq_true, if_false] at h
        have hp := (DB.done_false db).1 hd
        cases hr : repeatLoop (sub d) depthRepeat b db.done.1 with
        | none => simp [hr] at h
        | some r1 =>
          simp only [hr] at h
          obtain ⟨s1, s2⟩ := repeatLoop_shape st w m d hd1 (hcond d hc) (sub d) (fun db r => hsub d db r hd1)
            4 0 b db.done.1 r1 (by omega) (by simpa using hn hp) hs hr
          exact ih (d + 1) _ _ _ (by omega) s1 (fun hp' => by simpa using s2 hp') h
    | false =>
      simp only [hc, Bool.false_eq_true, if_false, Option.some.injEq] at h
      subst h; exact hs

theorem depthLoop_shape (st : Bool) (w : Nat) (m : Int) (sub : Nat → DB → Option (DB × FNode × Nat)) (hsub : SubShape w sub) :
    ∀ (fuel d : Nat) (b : Builder) (db : DB) (r : Builder × DB), 1 ≤ d →
      tshapeL st w m 0 b.links = true → (db.pending ≠ [] → b.numChildren = w + 4 * (d - 1)) →
      depthLoop sub m fuel d b db = some r → tshapeL st w m 0 r.1.links = true :=
  depthLoopC_shape st w m _ (fun d h => by simpa using h) sub hsub

theorem fillTrickleRec_shape (w : Nat) (hw : 1 ≤ w) : ∀ (fuel : Nat) (m : Int) (db : DB) (r : DB × FNode × Nat),
    (m = -1 ∨ 1 ≤ m) → fillTrickleRec w fuel m {} db = some r → tshape w m r.2.1 = true := by
  intro fuel
  induction fuel with
  | zero => intro m db r _ h; simp [fillTrickleRec] at h
  | succ fuel ih =>
    intro m db r hm h
    unfold fillTrickleRec at h
    cases hd : depthLoop (fun d => fillTrickleRec w fuel (d : Int) {}) m fuel 1
        (fillNodeLayer w {} db).1 (fillNodeLayer w {} db).2 with
    | none => simp [hd] at h
    | some r1 =>
      simp only [hd, Option.some.injEq] at h
      subst h
      obtain ⟨l1, l2, l3⟩ := fillNodeLayer_leaves w hw db
      have hsub : SubShape w (fun d => fillTrickleRec w fuel (d : Int) {}) := by
        intro d db' r' hd1 hr'
        exact ih (d : Int) db' r' (Or.inr (by omega)) hr'
      have := depthLoop_shape true w m _ hsub fuel 1 _ _ _ (Nat.le_refl _)
        (tshapeL_leaves true w m _ l1 0 (by simpa [Builder.numChildren] using l2))
        (fun hp => by simpa using l3 hp) hd
      have hm0 : m ≠ 0 := by omega
      simp [Builder.commit, this, hm0]

theorem trickleLayout_shape (c : Cfg) (cs : List Chunk) (o : Out) (h : trickleLayout c cs = some o)
    (hw : 1 ≤ c.w) : tshape c.w (-1) o.root = true := by
  unfold trickleLayout at h
  cases hf : fillTrickleRec c.w (cs.length + 2) (-1) {} { spl := cs } with
  | none => simp [hf] at h
  | some r =>
    simp only [hf, Option.some.injEq] at h
    subst h
    exact fillTrickleRec_shape c.w hw _ _ _ _ (Or.inl rfl) hf

end C07
