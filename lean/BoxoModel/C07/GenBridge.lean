import BoxoModel.Gen.C07
/-! Go `int` arithmetic on values below 2^63 is arithmetic on naturals: the lemmas that connect the regenerated
(T-gen `extract intsq`) BitVec definitions with the Nat-level definitions the models use. -/
namespace GoSmall

theorem toInt_ofNat (n : Nat) (h : n < 2 ^ 63) : (BitVec.ofNat 64 n).toInt = (n : Int) := by
  rw [BitVec.toInt_eq_toNat_of_lt (by simp; omega)]
  simp; omega

theorem toNat_ofNat (n : Nat) (h : n < 2 ^ 63) : (BitVec.ofNat 64 n).toNat = n := by
  simp; omega

theorem msb_ofNat (n : Nat) (h : n < 2 ^ 63) : (BitVec.ofNat 64 n).msb = false := by
  rw [BitVec.msb_eq_false_iff_two_mul_lt, toNat_ofNat n h]; omega

theorem slt (a b : Nat) (ha : a < 2 ^ 63) (hb : b < 2 ^ 63) :
    BitVec.slt (BitVec.ofNat 64 a) (BitVec.ofNat 64 b) = decide (a < b) := by
  simp only [BitVec.slt, toInt_ofNat a ha, toInt_ofNat b hb]
  by_cases h : a < b <;> simp [h] <;> omega

theorem sle (a b : Nat) (ha : a < 2 ^ 63) (hb : b < 2 ^ 63) :
    BitVec.sle (BitVec.ofNat 64 a) (BitVec.ofNat 64 b) = decide (a ≤ b) := by
  simp only [BitVec.sle, toInt_ofNat a ha, toInt_ofNat b hb]
  by_cases h : a ≤ b <;> simp [h] <;> omega

theorem slt_int (a : Nat) (m : Int) (ha : a < 2 ^ 63) (hm : -(2 ^ 63 : Int) ≤ m) (hm' : m < 2 ^ 63) :
    BitVec.slt (BitVec.ofNat 64 a) (BitVec.ofInt 64 m) = decide ((a : Int) < m) := by
  simp only [BitVec.slt, toInt_ofNat a ha, BitVec.toInt_ofInt]
  have : m.bmod (2 ^ 64) = m := by
    apply Int.bmod_eq_of_le <;> omega
  rw [this]

theorem sub (a b : Nat) (ha : a < 2 ^ 63) (hb : b ≤ a) :
    BitVec.ofNat 64 a - BitVec.ofNat 64 b = BitVec.ofNat 64 (a - b) := by
  apply BitVec.eq_of_toNat_eq
  simp [BitVec.toNat_sub]
  omega

theorem sdiv4 (a : Nat) (ha : a < 2 ^ 63) : BitVec.sdiv (BitVec.ofNat 64 a) 4#64 = BitVec.ofNat 64 (a / 4) := by
  rw [BitVec.sdiv_eq, msb_ofNat a ha]
  have : (4#64).msb = false := by decide
  simp only [this]
  apply BitVec.eq_of_toNat_eq
  simp [BitVec.toNat_udiv]
  omega

theorem srem4 (a : Nat) (ha : a < 2 ^ 63) : BitVec.srem (BitVec.ofNat 64 a) 4#64 = BitVec.ofNat 64 (a % 4) := by
  rw [BitVec.srem_eq, msb_ofNat a ha]
  have : (4#64).msb = false := by decide
  simp only [this]
  apply BitVec.eq_of_toNat_eq
  simp [BitVec.toNat_umod]
  omega

end GoSmall
