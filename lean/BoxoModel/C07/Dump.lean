import BoxoModel.C07.Model
/-! Shared by the line-protocol drivers of C07, C08 and C10: hex, chunk parsing, the canonical DAG dump
`R(hex) | P(type;filesize;datahex;blocksizes;mode;mtime)[children…]` (root first).  Core-only, no theorems. -/
open C07 FileTree

namespace C07D

def hexVal (c : Char) : Option Nat :=
  if '0' ≤ c ∧ c ≤ '9' then some (c.toNat - '0'.toNat)
  else if 'a' ≤ c ∧ c ≤ 'f' then some (c.toNat - 'a'.toNat + 10)
  else none

def unhexAux : List Char → List UInt8 → Option (List UInt8)
  | [], acc => some acc.reverse
  | [_], _ => none
  | a :: b :: r, acc => do
    let x ← hexVal a
    let y ← hexVal b
    unhexAux r (UInt8.ofNat (x * 16 + y) :: acc)

def unhex (s : String) : Option (List UInt8) :=
  if s == "-" then some [] else unhexAux s.toList []

def hexDigit (n : Nat) : Char := if n < 10 then Char.ofNat (48 + n) else Char.ofNat (87 + n)

def hex (bs : List UInt8) : String :=
  if bs.isEmpty then "-"
  else String.ofList (bs.foldr (fun b acc => hexDigit (b.toNat / 16) :: hexDigit (b.toNat % 16) :: acc) [])

def showMtime : Option (Int × Nat) → String
  | none => "-"
  | some (s, n) => s!"{s}.{n}"

def parseMtime (s : String) : Option (Option (Int × Nat)) :=
  if s == "-" then some none
  else match s.splitOn "." with
    | [a, b] => do
      let a ← a.toInt?
      let b ← b.toNat?
      pure (some (a, b))
    | _ => none

/-- split into `k`-byte chunks (chunker.NewSizeSplitter over a reader that returns everything) -/
def sizeSplit (k : Nat) : Nat → List UInt8 → List (List UInt8)
  | 0, _ => []
  | fuel + 1, bs => if bs.isEmpty then [] else bs.take k :: sizeSplit k fuel (bs.drop k)

mutual
partial def dump (raw : Bool) (leafTy : String) (a : Attrs) : FNode → String
  | .leaf d =>
    if raw then s!"R({hex d})"
    else s!"P({leafTy};{d.length};{hex d};;{a.mode};{showMtime a.mtime})"
  | .node fs cs =>
    let bss := ",".intercalate (cs.map fun c => toString c.2)
    s!"P(F;{fs};-;{bss};{a.mode};{showMtime a.mtime})" ++
      (if cs.isEmpty then "" else "[" ++ dumpL raw leafTy cs ++ "]")
partial def dumpL (raw : Bool) (leafTy : String) : List (FNode × Nat) → String
  | [] => ""
  | c :: r => dump raw leafTy {} c.1 ++ dumpL raw leafTy r
end

def parseChunks (spec : String) (toks : List String) : Option (List Chunk) :=
  if spec == "s" then toks.mapM unhex
  else if spec.startsWith "z" then
    match (spec.drop 1).toNat?, toks with
    | some k, [t] => do
      let bs ← unhex t
      if k == 0 then none else pure (sizeSplit k (bs.length + 1) bs)
    | some _, [] => some []
    | _, _ => none
  else none

end C07D
