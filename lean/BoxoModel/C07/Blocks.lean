import BoxoModel.C07.Model
import BoxoModel.C11.Model
import BoxoModel.C18.Model
/-!
C07 — the BLOCKS of an imported file: composition of the layout model with the dag-pb encoder of C11
(`C11.encodePB`) and the UnixFS `Data` encoder of C18 (`C18.encode`).  Core-only.

For every node of the tree, in pre-order, the bytes of its block exactly as the importer hands them to the DAG
service: a RawNode is its data; a dag-pb leaf is a PBNode whose Data is the UnixFS message {Type (File for the
balanced layout, Raw for the trickle layout), Data (absent for nil), filesize}; an internal node is a PBNode with
one link per child (Name "", Hash = the child's CID, Tsize = the child's cumulative size `len(block) + Σ Tsize`)
and the UnixFS message {Type File, filesize, blocksizes, and on the root mode / mtime}.
The hash is a parameter: the CID of every node is supplied (`cids`, pre-order, as `cid.Bytes()`); the harness takes
them from the real DAG and checks them, so equal bytes give equal CIDs, bottom-up, up to the root CID.
-/
namespace C07
open FileTree

structure BlockCfg where
  raw : Bool
  /-- UnixFS type of dag-pb leaves: 2 = File (balanced), 0 = Raw (trickle) -/
  leafType : Nat

/-- the UnixFS node of an internal node / dag-pb leaf with the root's attributes applied (SetFileAttributes:
SetModTime, then SetMode; the model's `mode` is already in unix permission bits) -/
def withAttrs (n : C18.FSNode) (a : Attrs) : C18.FSNode :=
  let n1 := match a.mtime with
    | none => n
    | some (s, ns) => C18.setModTime n ⟨s, ns⟩
  if a.mode = 0 then n1 else C18.setModeFromUnix n1 (BitVec.ofNat 32 a.mode)

structure BlockOut where
  blocks : List (List UInt8)      -- pre-order
  cid : List UInt8                -- of this node
  tsize : Nat                     -- Node.Size(): len(block) + Σ link Tsize
  rest : List (List UInt8)        -- unused CIDs

mutual
def blocksOf (c : BlockCfg) (a : Attrs) : FNode → List (List UInt8) → BlockOut
  | .leaf d, cids =>
    let cid := cids.headD []
    if c.raw then { blocks := [d], cid := cid, tsize := d.length, rest := cids.tail }
    else
      let fsn : C18.FSNode := { type := c.leafType, data := if d.isEmpty then none else some d, filesize := some d.length }
      let blk := C11.encodePB [] (some (C18.encode (withAttrs fsn a)))
      { blocks := [blk], cid := cid, tsize := blk.length, rest := cids.tail }
  | .node fs cs, cids =>
    let cid := cids.headD []
    let r := blocksOfL c cs cids.tail
    let fsn : C18.FSNode := { type := 2, filesize := some fs, blocksizes := cs.map (·.2) }
    let blk := C11.encodePB r.2.1 (some (C18.encode (withAttrs fsn a)))
    { blocks := blk :: r.1, cid := cid, tsize := blk.length + (r.2.1.map (·.size)).sum, rest := r.2.2 }
/-- children left to right: (their blocks, the links to them, the unused CIDs) -/
def blocksOfL (c : BlockCfg) : List (FNode × Nat) → List (List UInt8) →
    List (List UInt8) × List C11.Link × List (List UInt8)
  | [], cids => ([], [], cids)
  | ch :: r, cids =>
    let o := blocksOf c {} ch.1 cids
    let t := blocksOfL c r o.rest
    (o.blocks ++ t.1, { name := [], cid := o.cid, size := o.tsize } :: t.2.1, t.2.2)
end

end C07
