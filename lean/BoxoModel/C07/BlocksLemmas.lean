import BoxoModel.C07.Blocks
import BoxoModel.Props.C11
import BoxoModel.Props.C18
/-! Composition of the C07 block encoder with the round-trip theorems of C11 (dag-pb) and C18 (UnixFS Data). -/
namespace C07
open FileTree

theorem blocksOf_node (c : BlockCfg) (a : Attrs) (fs : Nat) (cs : List (FNode × Nat)) (cids : List (List UInt8)) :
    (blocksOf c a (.node fs cs) cids).blocks =
      C11.encodePB (blocksOfL c cs cids.tail).2.1
        (some (C18.encode (withAttrs { type := 2, filesize := some fs, blocksizes := cs.map (·.2) } a))) ::
      (blocksOfL c cs cids.tail).1 := by
  rw [blocksOf]

/-- links whose names are all empty are already in encoded order -/
theorem sortLinks_unnamed (ls : List C11.Link) (h : ∀ l ∈ ls, l.name = []) : C11.sortLinks ls = ls := by
  unfold C11.sortLinks
  apply List.mergeSort_of_pairwise
  induction ls with
  | nil => exact List.Pairwise.nil
  | cons x r ih =>
    refine List.Pairwise.cons ?_ (ih (fun l hl => h l (List.mem_cons_of_mem _ hl)))
    intro y hy
    simp [C11.nameLe, h x (List.mem_cons_self), h y (List.mem_cons_of_mem _ hy), C11.bytesLe]

theorem blocksOfL_unnamed (c : BlockCfg) : ∀ (cs : List (FNode × Nat)) (cids : List (List UInt8)),
    ∀ l ∈ (blocksOfL c cs cids).2.1, l.name = [] := by
  intro cs
  induction cs with
  | nil => intro cids l hl; simp [blocksOfL] at hl
  | cons ch r ih =>
    intro cids l hl
    rw [blocksOfL] at hl
    simp only [List.mem_cons] at hl
    rcases hl with rfl | hl
    · rfl
    · exact ih _ l hl

end C07
