import BoxoModel.Lib.FileTree
/-!
C07 — UnixFS file import: executable model of the balanced and the trickle layout builders.

Transcribed from /repo/ipld/unixfs/importer/{helpers/dagbuilder.go, balanced/builder.go,
trickle/trickledag.go} (and `FSNode.AddBlockSize` of ipld/unixfs/unixfs.go):

  DagBuilderHelper{spl, nextData, maxlinks, rawLeaves, fileMode, fileModTime}
                                       ~ `DB {spl, nextData}` + `Cfg`; `prepareNext/Done/Next` as in Go
  FSNodeOverDag{dag.links, file.{Blocksizes, Filesize}}
                                       ~ `Builder {links, filesize}`; `AddChild` appends the link with the
                                         recorded size and ADDS it to `filesize` (stored separately, as in Go);
                                         `Commit` ~ `FNode.node filesize links`
  NewLeafDataNode                      ~ `newLeafDataNode` (the leaf kind raw / dag-pb is a function of
                                         `Cfg.rawLeaves` and the layout, it is not stored in the tree)
  balanced.Layout/layoutData/fillNodeRec ~ `balancedLayout/layoutLoop/fillNodeRec`
  DagBuilderHelper.FillNodeLayer       ~ `fillNodeLayer`
  trickle.Layout/fillTrickleRec        ~ `trickleLayout/fillTrickleRec` (+ its two `for` loops `depthLoop`, `repeatLoop`)
  SetFileAttributes                    ~ `setFileAttributes` (only when the root is a ProtoNode)
  VerifyTrickleDagStructure            ~ `tshape`

The splitter and the hash are parameters: the splitter is the list of chunks it will return (any sizes),
CIDs do not occur (children are held structurally).  Not modelled: the error returns (`depth < 1` in
fillNodeRec — unreachable, Layout starts at depth 1 and recursion happens only for depth > 1, hence
`fillNodeRec`'s `Nat` argument is `depth - 1`; chunks above BlockSizeLimit = 1 MiB; splitter / DAGService
errors) and the Filestore (`NoCopy`) path.

Loops whose trip count is not syntactically bounded carry fuel; `none` = out of fuel.  For the balanced
layout with `w ≤ 1` and more than one chunk the Go loop really does not terminate (C07.balanced_w1_diverges).
Core-only (no Mathlib): this file is also imported by the line-protocol drivers of C07, C08 and C10.
-/
namespace C07
open FileTree

abbrev Chunk := List UInt8

/-- `DagBuilderHelper`: the splitter (as the list of chunks `NextBytes` will still return, then io.EOF)
and the one-chunk look-ahead `nextData`. -/
structure DB where
  spl : List Chunk
  nextData : Option Chunk := none

namespace DB
/-- prepareNext(): idempotent; pulls one chunk from the splitter if none is waiting -/
def prepareNext (db : DB) : DB :=
  match db.nextData with
  | some _ => db
  | none =>
    match db.spl with
    | [] => db
    | c :: r => { spl := r, nextData := some c }

/-- Done() -/
def done (db : DB) : DB × Bool := (db.prepareNext, db.prepareNext.nextData.isNone)

/-- Next(): the waiting chunk (nil at the end of the stream) -/
def next (db : DB) : DB × Option Chunk :=
  ({ db.prepareNext with nextData := none }, db.prepareNext.nextData)

/-- everything the builder will still see -/
def pending (db : DB) : List Chunk := db.nextData.toList ++ db.spl
end DB

/-- `FSNodeOverDag` while it is being filled -/
structure Builder where
  links : List (FNode × Nat) := []
  filesize : Nat := 0

namespace Builder
def numChildren (b : Builder) : Nat := b.links.length
/-- AddChild: `dag.AddNodeLink` + `file.AddBlockSize(fileSize)` (which also adds to Filesize) -/
def addChild (b : Builder) (c : FNode) (sz : Nat) : Builder :=
  { links := b.links ++ [(c, sz)], filesize := b.filesize + sz }
/-- Commit -/
def commit (b : Builder) : FNode := .node b.filesize b.links
end Builder

/-- NewLeafDataNode: `(db', node, dataSize)` -/
def newLeafDataNode (db : DB) : DB × FNode × Nat :=
  let r := db.next
  (r.1, .leaf (r.2.getD []), (r.2.getD []).length)

/-- `for node.NumChildren() < Maxlinks && !db.Done() { child := …; node.AddChild(child) }`
(the loop of fillNodeRec and of FillNodeLayer).  At most `w - numChildren` iterations. -/
def fillLoop (w : Nat) (child : DB → DB × FNode × Nat) : Nat → Builder → DB → Builder × DB
  | 0, b, db => (b, db)
  | fuel + 1, b, db =>
    if b.numChildren < w then
      let d := db.done
      if d.2 then (b, d.1)
      else
        let c := child d.1
        fillLoop w child fuel (b.addChild c.2.1 c.2.2) c.1
    else (b, db)

/-- fillNodeRec(db, node, depth) with `dm1 = depth - 1`; returns `(db', filledNode, nodeFileSize)` -/
def fillNodeRec (w : Nat) : Nat → Builder → DB → DB × FNode × Nat
  | 0, b, db =>
    let r := fillLoop w newLeafDataNode (w - b.numChildren) b db
    (r.2, r.1.commit, r.1.filesize)
  | dm1 + 1, b, db =>
    let r := fillLoop w (fillNodeRec w dm1 {}) (w - b.numChildren) b db
    (r.2, r.1.commit, r.1.filesize)

/-- the `for depth := 1; !db.Done(); depth++` loop of layoutData (`dm1 = depth - 1`) -/
def layoutLoop (w : Nat) : Nat → Nat → FNode → Nat → DB → Option (FNode × DB)
  | 0, _, _, _, _ => none
  | fuel + 1, dm1, root, fileSize, db =>
    let d := db.done
    if d.2 then some (root, d.1)
    else
      let newRoot := ({} : Builder).addChild root fileSize
      let r := fillNodeRec w dm1 newRoot d.1
      layoutLoop w fuel (dm1 + 1) r.2.1 r.2.2 r.1

/-- requested attributes: `mode` = unix permission bits (0 = not requested), `mtime` = (seconds, nanos) -/
structure Cfg where
  w : Nat
  rawLeaves : Bool := false
  mode : Nat := 0
  mtime : Option (Int × Nat) := none

/-- attributes stored in the root's UnixFS data -/
structure Attrs where
  mode : Nat := 0
  mtime : Option (Int × Nat) := none
  deriving DecidableEq, Repr

def Cfg.hasFileAttributes (c : Cfg) : Bool := c.mode != 0 || c.mtime.isSome

/-- is the committed root a `*dag.ProtoNode`?  Internal nodes always are; a leaf is one unless raw leaves are on -/
def isProtoNode (rawLeaves : Bool) : FNode → Bool
  | .leaf _ => !rawLeaves
  | .node _ _ => true

/-- `if db.HasFileAttributes() { db.SetFileAttributes(root) }`: silently nothing for a RawNode root -/
def setFileAttributes (c : Cfg) (root : FNode) : Attrs :=
  if c.hasFileAttributes then
    if isProtoNode c.rawLeaves root then { mode := c.mode, mtime := c.mtime } else {}
  else {}

structure Out where
  root : FNode
  attrs : Attrs

/-- balanced.Layout over a splitter that returns `cs` -/
def balancedLayout (c : Cfg) (cs : List Chunk) : Option Out :=
  let db : DB := { spl := cs }
  let d := db.done
  if d.2 then
    let root := FNode.leaf []
    some { root := root, attrs := setFileAttributes c root }
  else
    let l := newLeafDataNode d.1
    match layoutLoop c.w (cs.length + 1) 0 l.2.1 l.2.2 l.1 with
    | none => none
    | some r => some { root := r.1, attrs := setFileAttributes c r.1 }

/-- DagBuilderHelper.FillNodeLayer -/
def fillNodeLayer (w : Nat) (b : Builder) (db : DB) : Builder × DB :=
  fillLoop w newLeafDataNode (w - b.numChildren) b db

def depthRepeat : Nat := 4

/-- `for repeatIndex := i; repeatIndex < depthRepeat && !db.Done(); repeatIndex++ { child := …; AddChild }`
with `k = depthRepeat - i` -/
def repeatLoop (child : DB → Option (DB × FNode × Nat)) : Nat → Builder → DB → Option (Builder × DB)
  | 0, b, db => some (b, db)
  | k + 1, b, db =>
    let d := db.done
    if d.2 then some (b, d.1)
    else
      match child d.1 with
      | none => none
      | some c => repeatLoop child k (b.addChild c.2.1 c.2.2) c.1

/-- `for depth := d0; cond(depth); depth++ { if db.Done() break; repeat-loop }` — the depth loop shared by
fillTrickleRec (`cond = maxDepth == -1 || depth < maxDepth`), appendRec (`cond = depth < maxDepth`, written
there as `i < maxDepth && !db.Done()`) and Append (`cond = true`) -/
def depthLoopC (cond : Nat → Bool) (sub : Nat → DB → Option (DB × FNode × Nat)) :
    Nat → Nat → Builder → DB → Option (Builder × DB)
  | 0, _, _, _ => none
  | fuel + 1, depth, b, db =>
    if cond depth then
      let d := db.done
      if d.2 then some (b, d.1)
      else
        match repeatLoop (sub depth) depthRepeat b d.1 with
        | none => none
        | some r => depthLoopC cond sub fuel (depth + 1) r.1 r.2
    else some (b, db)

/-- the depth loop of fillTrickleRec -/
def depthLoop (sub : Nat → DB → Option (DB × FNode × Nat)) (maxDepth : Int) :
    Nat → Nat → Builder → DB → Option (Builder × DB) :=
  depthLoopC (fun depth => decide (maxDepth = -1 ∨ (depth : Int) < maxDepth)) sub

/-- fillTrickleRec(db, node, maxDepth): `(db', filledNode, nodeFileSize)` -/
def fillTrickleRec (w : Nat) : Nat → Int → Builder → DB → Option (DB × FNode × Nat)
  | 0, _, _, _ => none
  | fuel + 1, maxDepth, b, db =>
    let l := fillNodeLayer w b db
    match depthLoop (fun d => fillTrickleRec w fuel (d : Int) {}) maxDepth fuel 1 l.1 l.2 with
    | none => none
    | some r => some (r.2, r.1.commit, r.1.filesize)

/-- trickle.Layout over a splitter that returns `cs` -/
def trickleLayout (c : Cfg) (cs : List Chunk) : Option Out :=
  match fillTrickleRec c.w (cs.length + 2) (-1) {} { spl := cs } with
  | none => none
  | some r => some { root := r.2.1, attrs := setFileAttributes c r.2.1 }

/-! ### Shape predicates -/

mutual
/-- complete `w`-ary tree of height `d` (all leaves at depth `d`, every internal node has `w` children) -/
def full (w : Nat) : Nat → FNode → Bool
  | 0, .leaf _ => true
  | 0, .node _ _ => false
  | _ + 1, .leaf _ => false
  | d + 1, .node _ cs => cs.length == w && fullL w d cs
def fullL (w : Nat) : Nat → List (FNode × Nat) → Bool
  | _, [] => true
  | d, c :: r => full w d c.1 && fullL w d r
end

mutual
/-- left-filled `w`-ary tree of height `d`: all leaves at depth `d`, 1..w children per internal node,
every child but the last one is complete -/
def bshape (w : Nat) : Nat → FNode → Bool
  | 0, .leaf _ => true
  | 0, .node _ _ => false
  | _ + 1, .leaf _ => false
  | d + 1, .node _ cs => cs.length ≤ w && bshapeL w d cs
def bshapeL (w : Nat) : Nat → List (FNode × Nat) → Bool
  | _, [] => false
  | d, [c] => bshape w d c.1
  | d, c :: c' :: r => full w d c.1 && bshapeL w d (c' :: r)
end

mutual
/-- all leaves at depth exactly `d` -/
def leavesAt : Nat → FNode → Bool
  | 0, .leaf _ => true
  | 0, .node _ _ => false
  | _ + 1, .leaf _ => false
  | d + 1, .node _ cs => leavesAtL d cs
def leavesAtL : Nat → List (FNode × Nat) → Bool
  | _, [] => true
  | d, c :: r => leavesAt d c.1 && leavesAtL d r
end

mutual
/-- every internal node has at most `w` children -/
def maxWidth (w : Nat) : FNode → Bool
  | .leaf _ => true
  | .node _ cs => cs.length ≤ w && maxWidthL w cs
def maxWidthL (w : Nat) : List (FNode × Nat) → Bool
  | [] => true
  | c :: r => maxWidth w c.1 && maxWidthL w r
end

mutual
/-- verifyTDagRec(n, depth, {Direct = w, LayerRepeat = 4}) without the codec / prefix checks:
depth 0 ⇒ no links; otherwise a branch node whose child `i < w` verifies at depth 0 and whose child
`i ≥ w` verifies at `rdepth = (i - w) / 4 + 1`, with `rdepth < depth` required when `depth > 0`.
`tshapeL strict`: with `strict = false` the check of the direct blocks (`i < w`) is skipped — the relaxed
form is what a balanced root that later grows through trickle.Append satisfies (used by C10 only);
`tshape` itself is always the strict predicate. -/
def tshape (w : Nat) : Int → FNode → Bool
  | depth, .leaf _ => depth == 0
  | depth, .node _ cs => depth != 0 && tshapeL true w depth 0 cs
def tshapeL (strict : Bool) (w : Nat) : Int → Nat → List (FNode × Nat) → Bool
  | _, _, [] => true
  | depth, i, c :: r =>
    (if i < w then (!strict || tshape w 0 c.1)
     else
      let rdepth : Int := ((i - w) / depthRepeat + 1 : Nat)
      !(rdepth ≥ depth && depth > 0) && tshape w rdepth c.1)
    && tshapeL strict w depth (i + 1) r
end

end C07
