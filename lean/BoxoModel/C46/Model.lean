import BoxoModel.Gen.C46
/-!
C46 — peering: executable event model of `PeeringService` / `peerHandler` (peering/peering.go),
as repaired by the two `fix:` commits on branch verif/peer (see docs/notes/C46.md):
  * `startIfDisconnected` does not arm a timer once the handler's context is cancelled;
  * `reconnect` ends with ONE critical section that either clears the timer (connected), re-arms it
    (not connected — whatever `host.Connect` returned) or leaves it alone (timer already nil).

Granularity = the critical sections and blocking points of the Go code:
  service operations (`AddPeer`, `Start`, the notifee callbacks) are atomic (they hold `ps.mu` and do not
  block); `RemovePeer` and `Stop` are split at `handler.stop()`'s two steps (`cancel()`, then lock+clear timer)
  and hold the service lock in between (`busy`); every goroutine the code spawns is a counter of pending
  goroutines per handler (`pendStart`, `pendStop`: `go handler.startIfDisconnected()/stopIfConnected()`;
  `rA`: `reconnect` started by the timer, before it calls `host.Connect`; `rB`: inside `host.Connect`), each
  of their critical sections (they hold `ph.mu` throughout) is one event. The environment (connectedness,
  delivery of notifications, results and timing of dials, timer expiry, the random draws of `nextBackoff`)
  is unconstrained: every one of its moves is an event. `nextBackoff` is the regenerated `Gen.C46.nextBackoff`.

Ghost fields (not in the Go structs): `inMap`, `cleared`, `armedWith`, `pendDisc`, `dials`, `everStarted`.
Core-only: also imported by the line-protocol driver.
-/
namespace C46
open Gen.C46

inductive Timer where
  | none   -- ph.reconnectTimer == nil
  | armed  -- non-nil and will fire
  | idle   -- non-nil, fired (its function was started) and not re-armed
  deriving DecidableEq, Repr

inductive SvcState where
  | init | running | stopped
  deriving DecidableEq, Repr

/-- who holds `ps.mu` across a blocking point -/
inductive Busy where
  | idle
  | removing (j : Nat)            -- RemovePeer: after handler.cancel(), before the timer is cleared
  | stopping (cur : Option Nat)   -- Stop: in the loop; `some j` = handler j cancelled, timer not yet cleared
  deriving DecidableEq, Repr

def Busy.isStopping : Busy → Bool
  | .stopping _ => true
  | _ => false

def initialDelay : BitVec 64 := 5000000000#64
def maxBackoff : BitVec 64 := 600000000000#64

structure HSt where
  peer : Nat
  inMap : Bool := true          -- ghost: still in ps.peers
  cancelled : Bool := false     -- ph.ctx cancelled
  cleared : Bool := false       -- ghost: handler.stop() has finished
  timer : Timer := .none
  delay : BitVec 64 := initialDelay   -- ph.nextDelay
  armedWith : BitVec 64 := 0#64       -- ghost: duration given to AfterFunc / Reset when last armed
  pendStart : Nat := 0
  pendStop : Nat := 0
  rA : Nat := 0
  rB : Nat := 0

structure St where
  n : Nat := 0                       -- handlers ever created: ids 0..n-1
  hs : Nat → HSt := fun _ => { peer := 0 }
  peers : Nat → Option Nat := fun _ => none   -- ps.peers
  state : SvcState := .init
  everStarted : Bool := false        -- the notifee has been registered at some point
  busy : Busy := .idle
  conn : Nat → Bool := fun _ => false    -- host.Network().Connectedness(p) == Connected
  pendDisc : Nat → Nat := fun _ => 0     -- ghost: Disconnected notifications the network still owes us
  dials : List (Nat × Bool) := []        -- ghost log of host.Connect calls: (handler, ctx already cancelled)

def upd {α : Type} (f : Nat → α) (i : Nat) (v : α) : Nat → α := fun j => if j = i then v else f j

inductive Ev where
  | add (p : Nat)
  | removeBegin (p : Nat)
  | removeEnd
  | start
  | stopBegin
  | stopCancel (j : Nat)
  | stopClear
  | stopEnd
  | setConn (p : Nat) (b : Bool)
  | notify (p : Nat) (connected : Bool)
  | runStart (j : Nat) (r0 r1 : BitVec 64)
  | runStop (j : Nat)
  | fire (j : Nat)
  | dial (j : Nat)
  | dialEnd (j : Nat) (r0 r1 : BitVec 64)

/-- the contract of `rand.Int64N(n)`: result in `[0, n)` (the bounds are the regenerated arguments) -/
def drawsOk (d r0 r1 : BitVec 64) : Bool :=
  decide (0 ≤ r0.toInt) && decide (r0.toInt < (nextBackoff_bound0 d).toInt) &&
  decide (0 ≤ r1.toInt) && decide (r1.toInt < (nextBackoff_bound1 d).toInt)

/-- `ph.reconnectTimer = time.AfterFunc(ph.nextBackoff(), …)` / `ph.reconnectTimer.Reset(ph.nextBackoff())` -/
def HSt.arm (h : HSt) (r0 r1 : BitVec 64) : HSt :=
  { h with timer := .armed, delay := nextBackoff h.delay r0 r1, armedWith := nextBackoff h.delay r0 r1 }

/-- body of `startIfDisconnected` (under ph.mu) -/
def HSt.runStart (h : HSt) (conn : Bool) (r0 r1 : BitVec 64) : HSt :=
  let h := { h with pendStart := h.pendStart - 1 }
  if !h.cancelled && h.timer == .none && !conn then h.arm r0 r1 else h

/-- body of `stopIfConnected` (under ph.mu) -/
def HSt.stopIfConnected (h : HSt) (conn : Bool) : HSt :=
  if h.timer != .none && conn then { h with timer := .none, delay := initialDelay } else h

/-- final critical section of `reconnect` -/
def HSt.dialEnd (h : HSt) (conn : Bool) (r0 r1 : BitVec 64) : HSt :=
  let h := { h with rB := h.rB - 1 }
  if h.timer == .none then h
  else if conn then { h with timer := .none, delay := initialDelay }
  else h.arm r0 r1

/-- every handler in the map has been cancelled (the `for` loop of Stop is finished) -/
def allCancelled (s : St) : Bool := (List.range s.n).all fun j => !(s.hs j).inMap || (s.hs j).cancelled

def step (s : St) : Ev → Option St
  | .add p =>
    if s.busy ≠ .idle then none else
    match s.peers p with
    | some _ => some s     -- existing handler: only setAddrs
    | none =>
      let stopped := s.state == .stopped
      let h : HSt := { peer := p, cancelled := stopped, cleared := stopped,
                       pendStart := if s.state == .running then 1 else 0 }
      some { s with n := s.n + 1, hs := upd s.hs s.n h, peers := upd s.peers p (some s.n) }
  | .removeBegin p =>
    if s.busy ≠ .idle then none else
    match s.peers p with
    | none => some s
    | some j => some { s with hs := upd s.hs j { s.hs j with cancelled := true }, busy := .removing j }
  | .removeEnd =>
    match s.busy with
    | .removing j =>
      some { s with hs := upd s.hs j { s.hs j with timer := .none, cleared := true, inMap := false },
                    peers := upd s.peers (s.hs j).peer none, busy := .idle }
    | _ => none
  | .start =>
    if s.busy ≠ .idle then none else
    match s.state with
    | .init =>
      some { s with state := .running, everStarted := true,
                    hs := fun j => if j < s.n ∧ (s.hs j).inMap then { s.hs j with pendStart := (s.hs j).pendStart + 1 } else s.hs j }
    | _ => some s
  | .stopBegin =>
    if s.busy ≠ .idle then none else
    match s.state with
    | .stopped => some s
    | _ => some { s with busy := .stopping none, pendDisc := fun _ => 0 }
  | .stopCancel j =>
    if s.busy = .stopping none ∧ j < s.n ∧ (s.hs j).inMap ∧ ¬ (s.hs j).cancelled then
      some { s with hs := upd s.hs j { s.hs j with cancelled := true }, busy := .stopping (some j) }
    else none
  | .stopClear =>
    match s.busy with
    | .stopping (some j) =>
      some { s with hs := upd s.hs j { s.hs j with timer := .none, cleared := true }, busy := .stopping none }
    | _ => none
  | .stopEnd =>
    if s.busy = .stopping none ∧ allCancelled s then some { s with state := .stopped, busy := .idle } else none
  | .setConn p b =>
    let owed := s.conn p && !b && s.state == .running && !s.busy.isStopping
    some { s with conn := upd s.conn p b,
                  pendDisc := if owed then upd s.pendDisc p (s.pendDisc p + 1) else s.pendDisc }
  | .notify p connected =>
    if s.busy ≠ .idle ∨ ¬ s.everStarted then none else
    if connected then
      match s.peers p with
      | some j => some { s with hs := upd s.hs j { s.hs j with pendStop := (s.hs j).pendStop + 1 } }
      | none => some s
    else
      let s := { s with pendDisc := upd s.pendDisc p (s.pendDisc p - 1) }
      match s.peers p with
      | some j => some { s with hs := upd s.hs j { s.hs j with pendStart := (s.hs j).pendStart + 1 } }
      | none => some s
  | .runStart j r0 r1 =>
    if j < s.n ∧ 0 < (s.hs j).pendStart ∧ drawsOk (s.hs j).delay r0 r1 then
      some { s with hs := upd s.hs j ((s.hs j).runStart (s.conn (s.hs j).peer) r0 r1) }
    else none
  | .runStop j =>
    if j < s.n ∧ 0 < (s.hs j).pendStop then
      some { s with hs := upd s.hs j ({ s.hs j with pendStop := (s.hs j).pendStop - 1 }.stopIfConnected (s.conn (s.hs j).peer)) }
    else none
  | .fire j =>
    if j < s.n ∧ (s.hs j).timer = .armed then
      some { s with hs := upd s.hs j { s.hs j with timer := .idle, rA := (s.hs j).rA + 1 } }
    else none
  | .dial j =>
    if j < s.n ∧ 0 < (s.hs j).rA then
      some { s with hs := upd s.hs j { s.hs j with rA := (s.hs j).rA - 1, rB := (s.hs j).rB + 1 },
                    dials := (j, (s.hs j).cancelled) :: s.dials }
    else none
  | .dialEnd j r0 r1 =>
    if j < s.n ∧ 0 < (s.hs j).rB ∧ drawsOk (s.hs j).delay r0 r1 then
      some { s with hs := upd s.hs j ((s.hs j).dialEnd (s.conn (s.hs j).peer) r0 r1) }
    else none

/-- run a list of events; `none` as soon as one is not enabled -/
def run (s : St) : List Ev → Option St
  | [] => some s
  | e :: es => match step s e with
    | some s' => run s' es
    | none => none

inductive Reach : St → Prop where
  | init : Reach {}
  | step {s s' : St} (e : Ev) : Reach s → step s e = some s' → Reach s'

end C46
