import BoxoModel.C46.Model
/-!
C46 — helper lemmas: the inductive invariant `Inv` of the event model (one preservation lemma per event),
the second invariant `Inv2` (a handler in the map is live unless the service is stopping/stopped/removing it),
the integer meaning of the regenerated `nextBackoff`, and the one-step lemma of quiescence `stopped_step`.
Property theorems are in `BoxoModel/Props/C46.lean`.
-/
namespace C46
open Gen.C46

@[simp] theorem upd_same {α : Type} (f : Nat → α) (i : Nat) (v : α) : upd f i v i = v := by simp [upd]
theorem upd_ne {α : Type} (f : Nat → α) {i k : Nat} (v : α) (h : k ≠ i) : upd f i v k = f k := by simp [upd, h]

def delayOk (h : HSt) : Prop :=
  5000000000 ≤ h.delay.toInt ∧ h.delay.toInt ≤ 600000000000 ∧
  (h.timer = .armed → 5000000000 ≤ h.armedWith.toInt ∧ h.armedWith.toInt ≤ 600000000000)

structure Inv (s : St) : Prop where
  m1 : ∀ p j, s.peers p = some j → j < s.n ∧ (s.hs j).peer = p ∧ (s.hs j).inMap = true
  m2 : ∀ j, j < s.n → (s.hs j).inMap = true → s.peers (s.hs j).peer = some j
  live : ∀ j, j < s.n → (s.hs j).cancelled = false → (s.hs j).inMap = true
  b1 : ∀ j, s.busy = .removing j → j < s.n ∧ (s.hs j).cancelled = true ∧ (s.hs j).inMap = true
  b2 : ∀ j, s.busy = .stopping (some j) → j < s.n ∧ (s.hs j).cancelled = true ∧ (s.hs j).inMap = true
  c1 : ∀ j, j < s.n → (s.hs j).cancelled = true →
        (s.hs j).cleared = true ∨ s.busy = .removing j ∨ s.busy = .stopping (some j)
  i1 : ∀ j, j < s.n → (s.hs j).timer = .idle → 0 < (s.hs j).rA + (s.hs j).rB
  q : ∀ j, j < s.n → (s.hs j).cancelled = true → (s.hs j).cleared = true → (s.hs j).timer = .none
  s1 : s.state = .stopped → ∀ j, j < s.n → (s.hs j).cancelled = true ∧ (s.hs j).cleared = true
  g2 : s.state = .running → s.busy.isStopping = false → ∀ j, j < s.n → (s.hs j).cancelled = false →
        s.conn (s.hs j).peer = false → (s.hs j).timer = .none →
        0 < (s.hs j).pendStart ∨ 0 < s.pendDisc (s.hs j).peer
  d : ∀ j, j < s.n → delayOk (s.hs j)
  cc : ∀ j, j < s.n → (s.hs j).cleared = true → (s.hs j).cancelled = true

theorem inv_init : Inv {} := by
  constructor <;> simp

/-- events that change one handler without touching its identity / stop status -/
theorem inv_local {s : St} (hI : Inv s) (j : Nat) (hj : j < s.n) (h' : HSt) (dl : List (Nat × Bool))
    (hp : h'.peer = (s.hs j).peer) (hm : h'.inMap = (s.hs j).inMap)
    (hc : h'.cancelled = (s.hs j).cancelled) (hcl : h'.cleared = (s.hs j).cleared)
    (hi1 : h'.timer = .idle → 0 < h'.rA + h'.rB)
    (hq : (s.hs j).cancelled = true → (s.hs j).cleared = true → h'.timer = .none)
    (hg : s.state = .running → s.busy.isStopping = false → (s.hs j).cancelled = false →
          s.conn (s.hs j).peer = false → h'.timer = .none →
          0 < h'.pendStart ∨ 0 < s.pendDisc (s.hs j).peer)
    (hd : delayOk h') :
    Inv { s with hs := upd s.hs j h', dials := dl } := by
  constructor
  · intro p k hk
    have := hI.m1 p k hk
    by_cases hkj : k = j
    · subst hkj; simp_all
    · simp_all [upd_ne]
  · intro k hk hin
    by_cases hkj : k = j
    · subst hkj; simp_all; exact hI.m2 k hk (by simp_all)
    · simp_all [upd_ne]; exact hI.m2 k hk hin
  · intro k hk hcc
    by_cases hkj : k = j
    · subst hkj; simp_all; exact hI.live k hk (by simp_all)
    · simp_all [upd_ne]; exact hI.live k hk hcc
  · intro k hb
    have := hI.b1 k hb
    by_cases hkj : k = j
    · subst hkj; simp_all
    · simp_all [upd_ne]
  · intro k hb
    have := hI.b2 k hb
    by_cases hkj : k = j
    · subst hkj; simp_all
    · simp_all [upd_ne]
  · intro k hk hcc
    by_cases hkj : k = j
    · subst hkj; simp_all; exact hI.c1 k hk (by simp_all)
    · simp_all [upd_ne]; exact hI.c1 k hk hcc
  · intro k hk ht
    by_cases hkj : k = j
    · subst hkj; simp_all
    · simp_all [upd_ne]; exact hI.i1 k hk ht
  · intro k hk h1 h2
    by_cases hkj : k = j
    · subst hkj; simp_all
    · simp_all [upd_ne]; exact hI.q k hk h1 h2
  · intro hs k hk
    have := hI.s1 hs k hk
    by_cases hkj : k = j
    · subst hkj; simp_all
    · simp_all [upd_ne]
  · intro hr hb k hk hcc hcn ht
    by_cases hkj : k = j
    · subst hkj; simp_all
    · simp_all [upd_ne]; exact hI.g2 hr hb k hk hcc hcn ht
  · intro k hk
    by_cases hkj : k = j
    · subst hkj; simp_all
    · simp_all [upd_ne]; exact hI.d k hk
  · intro k hk hcl'
    by_cases hkj : k = j
    · subst hkj; simp_all; exact hI.cc k hk (by simp_all)
    · simp_all [upd_ne]; exact hI.cc k hk hcl'

/-! ### backoff arithmetic (about the regenerated `Gen.C46.nextBackoff`) -/

theorem toInt_add_small (a b : BitVec 64) (h1 : -4000000000000000000 ≤ a.toInt) (h2 : a.toInt ≤ 4000000000000000000)
    (h3 : -4000000000000000000 ≤ b.toInt) (h4 : b.toInt ≤ 4000000000000000000) :
    (a + b).toInt = a.toInt + b.toInt := by
  rw [BitVec.toInt_add, Int.bmod_def]
  split <;> omega

theorem toInt_sub_small (a b : BitVec 64) (h1 : -4000000000000000000 ≤ a.toInt) (h2 : a.toInt ≤ 4000000000000000000)
    (h3 : -4000000000000000000 ≤ b.toInt) (h4 : b.toInt ≤ 4000000000000000000) :
    (a - b).toInt = a.toInt - b.toInt := by
  rw [BitVec.toInt_sub, Int.bmod_def]
  split <;> omega

/-- the integer meaning of `nextBackoff` -/
def backoffSpec (d r0 r1 : Int) : Int :=
  let g := if d < 600000000000 then d + (d / 2 + r0) else d
  if 600000000000 < g then 600000000000 - r1 else g

theorem bound0_eq (d : BitVec 64) : nextBackoff_bound0 d = d := rfl
theorem bound1_eq (d : BitVec 64) : (nextBackoff_bound1 d).toInt = 60000000000 := by
  unfold nextBackoff_bound1; decide

/-- On every input the Go code can present (current delay in (0, 2^61], draws within their `Int64N`
bounds) the 64-bit function computes `backoffSpec` without overflow. -/
theorem nextBackoff_spec (d r0 r1 : BitVec 64)
    (hd1 : 0 < d.toInt) (hd2 : d.toInt ≤ 2000000000000000000)
    (h0 : 0 ≤ r0.toInt) (h0' : r0.toInt < d.toInt)
    (h1 : 0 ≤ r1.toInt) (h1' : r1.toInt < 60000000000) :
    (nextBackoff d r0 r1).toInt = backoffSpec d.toInt r0.toInt r1.toInt := by
  have e1 : (600000000000#64).toInt = 600000000000 := by decide
  have e2 : (2#64).toInt = 2 := by decide
  have hs : (BitVec.sdiv d 2#64).toInt = d.toInt / 2 := by
    rw [BitVec.toInt_sdiv_of_ne_or_ne]
    · rw [e2, Int.tdiv_eq_ediv_of_nonneg (by omega)]
    · right; decide
  have ha1 : (BitVec.sdiv d 2#64 + r0).toInt = d.toInt / 2 + r0.toInt := by
    rw [toInt_add_small] <;> omega
  have ha2 : (d + (BitVec.sdiv d 2#64 + r0)).toInt = d.toInt + (d.toInt / 2 + r0.toInt) := by
    rw [toInt_add_small, ha1] <;> omega
  have ha3 : (600000000000#64 - r1).toInt = 600000000000 - r1.toInt := by
    rw [toInt_sub_small, e1] <;> omega
  unfold nextBackoff backoffSpec
  simp only [BitVec.slt, e1, ha2]
  split <;> split <;> simp_all <;> omega

theorem drawsOk_iff (d r0 r1 : BitVec 64) : drawsOk d r0 r1 = true ↔
    0 ≤ r0.toInt ∧ r0.toInt < d.toInt ∧ 0 ≤ r1.toInt ∧ r1.toInt < 60000000000 := by
  unfold drawsOk
  rw [bound0_eq, bound1_eq]
  simp only [Bool.and_eq_true, decide_eq_true_eq, and_assoc]

theorem delayOk_arm {h : HSt} {r0 r1 : BitVec 64} (hd : delayOk h) (hr : drawsOk h.delay r0 r1 = true) :
    delayOk (h.arm r0 r1) := by
  obtain ⟨d1, d2, _⟩ := hd
  obtain ⟨a, b, c, e⟩ := (drawsOk_iff _ _ _).1 hr
  have := nextBackoff_spec h.delay r0 r1 (by omega) (by omega) a b c e
  simp only [delayOk, HSt.arm, this, backoffSpec]
  refine ⟨?_, ?_, fun _ => ⟨?_, ?_⟩⟩ <;> (split <;> split <;> omega)

theorem delayOk_initial : (5000000000 : Int) ≤ initialDelay.toInt ∧ initialDelay.toInt ≤ 600000000000 := by
  decide

/-! ### handler-local events -/

theorem inv_fire {s s' : St} {j : Nat} (hI : Inv s) (h : step s (.fire j) = some s') : Inv s' := by
  simp only [step] at h
  split at h
  · rename_i hc
    simp at h; subst h
    have hd := hI.d j hc.1
    have hq := hI.q j hc.1
    apply inv_local hI j hc.1 <;> simp_all [delayOk]
    omega
  · simp at h

theorem inv_dial {s s' : St} {j : Nat} (hI : Inv s) (h : step s (.dial j) = some s') : Inv s' := by
  simp only [step] at h
  split at h
  · rename_i hc
    simp at h; subst h
    have hd := hI.d j hc.1
    have hq := hI.q j hc.1
    have hi := hI.i1 j hc.1
    have hg := hI.g2
    apply inv_local hI j hc.1 <;> simp_all [delayOk]
    omega
  · simp at h

theorem inv_runStart {s s' : St} {j : Nat} {r0 r1 : BitVec 64} (hI : Inv s)
    (h : step s (.runStart j r0 r1) = some s') : Inv s' := by
  simp only [step] at h
  split at h
  · rename_i hc
    simp at h; subst h
    obtain ⟨hj, hp, hdr⟩ := hc
    have hd := hI.d j hj
    have hq := hI.q j hj
    have hi := hI.i1 j hj
    have hg := hI.g2
    have harm := delayOk_arm (h := { s.hs j with pendStart := (s.hs j).pendStart - 1 }) (r0 := r0) (r1 := r1)
      (by simpa [delayOk] using hd) (by simpa using hdr)
    apply inv_local hI j hj
    all_goals simp only [HSt.runStart]
    all_goals split
    all_goals simp_all [HSt.arm, delayOk]
    grind
  · simp at h

theorem inv_runStop {s s' : St} {j : Nat} (hI : Inv s) (h : step s (.runStop j) = some s') : Inv s' := by
  simp only [step] at h
  split at h
  · rename_i hc
    simp at h; subst h
    obtain ⟨hj, hp⟩ := hc
    have hd := hI.d j hj
    have hq := hI.q j hj
    have hi := hI.i1 j hj
    have hg := hI.g2
    have h0 := delayOk_initial
    apply inv_local hI j hj
    all_goals simp only [HSt.stopIfConnected]
    all_goals split
    all_goals simp_all [delayOk]
    all_goals grind
  · simp at h

theorem inv_dialEnd {s s' : St} {j : Nat} {r0 r1 : BitVec 64} (hI : Inv s)
    (h : step s (.dialEnd j r0 r1) = some s') : Inv s' := by
  simp only [step] at h
  split at h
  · rename_i hc
    simp at h; subst h
    obtain ⟨hj, hp, hdr⟩ := hc
    have hd := hI.d j hj
    have hq := hI.q j hj
    have hi := hI.i1 j hj
    have hg := hI.g2
    have h0 := delayOk_initial
    have harm := delayOk_arm (h := { s.hs j with rB := (s.hs j).rB - 1 }) (r0 := r0) (r1 := r1)
      (by simpa [delayOk] using hd) (by simpa using hdr)
    apply inv_local hI j hj
    all_goals simp only [HSt.dialEnd]
    all_goals split
    all_goals try split
    all_goals simp_all [HSt.arm, delayOk]
    all_goals grind
  · simp at h

/-! ### environment and service events -/

theorem inv_setConn {s s' : St} {p : Nat} {b : Bool} (hI : Inv s) (h : step s (.setConn p b) = some s') : Inv s' := by
  simp only [step] at h
  simp at h; subst h
  constructor
  · exact hI.m1
  · exact hI.m2
  · exact hI.live
  · exact hI.b1
  · exact hI.b2
  · exact hI.c1
  · exact hI.i1
  · exact hI.q
  · exact hI.s1
  · intro hr hb k hk hcc hcn ht
    have := hI.g2 hr hb k hk hcc
    simp only [upd] at hcn ⊢
    simp_all
    grind [upd]
  · exact hI.d
  · exact hI.cc

theorem inv_notify {s s' : St} {p : Nat} {b : Bool} (hI : Inv s) (h : step s (.notify p b) = some s') : Inv s' := by
  simp only [step] at h
  split at h
  · simp at h
  rename_i hen
  have hidle : s.busy = .idle := by
    cases hb : s.busy <;> simp_all
  split at h
  · -- Connected notification
    split at h
    · rename_i j hj
      simp at h; subst h
      obtain ⟨hjn, hjp, hjm⟩ := hI.m1 p j hj
      have hd := hI.d j hjn
      have hq := hI.q j hjn
      have hi := hI.i1 j hjn
      have hg := hI.g2
      have := inv_local hI j hjn { s.hs j with pendStop := (s.hs j).pendStop + 1 } s.dials rfl rfl rfl rfl
        (by simpa using hi) (by simpa using hq) (by intro a b c d e; exact hg a b j hjn c d (by simpa using e))
        (by simpa [delayOk] using hd)
      simpa using this
    · simp at h; subst h; exact hI
  · -- Disconnected notification
    split at h
    · rename_i j hj
      simp at h; subst h
      obtain ⟨hjn, hjp, hjm⟩ := hI.m1 p j hj
      constructor
      · intro q k hk
        have := hI.m1 q k hk
        by_cases hkj : k = j
        · subst hkj; simp_all
        · simp_all [upd_ne]
      · intro k hk hin
        by_cases hkj : k = j
        · subst hkj; simp_all
        · simp_all [upd_ne]; exact hI.m2 k hk hin
      · intro k hk hcc
        by_cases hkj : k = j
        · subst hkj; simp_all
        · simp_all [upd_ne]; exact hI.live k hk hcc
      · intro k hb; simp_all
      · intro k hb; simp_all
      · intro k hk hcc
        by_cases hkj : k = j
        · subst hkj; have := hI.c1 k hk; simp_all
        · have := hI.c1 k hk; simp_all [upd_ne]
      · intro k hk ht
        by_cases hkj : k = j
        · subst hkj; have := hI.i1 k hk; simp_all
        · have := hI.i1 k hk; simp_all [upd_ne]
      · intro k hk h1 h2
        by_cases hkj : k = j
        · subst hkj; have := hI.q k hk; simp_all
        · have := hI.q k hk; simp_all [upd_ne]
      · intro hs k hk
        have := hI.s1 hs k hk
        by_cases hkj : k = j
        · subst hkj; simp_all
        · simp_all [upd_ne]
      · intro hr hb k hk hcc hcn ht
        by_cases hkj : k = j
        · subst hkj; simp_all
        · have hg := hI.g2 hr hb k hk
          have hm2 := hI.m2 k hk
          have hlv := hI.live k hk
          simp_all [upd_ne]
          have hne : (s.hs k).peer ≠ p := by
            intro he; rw [he] at hm2; simp_all
          simp [upd, hne]
          exact hg
      · intro k hk
        have := hI.d k hk
        by_cases hkj : k = j
        · subst hkj; simp_all [delayOk]
        · simp_all [upd_ne]
      · intro k hk hcl
        have := hI.cc k hk
        by_cases hkj : k = j
        · subst hkj; simp_all
        · simp_all [upd_ne]
    · rename_i hnone
      simp at h; subst h
      constructor
      · exact hI.m1
      · exact hI.m2
      · exact hI.live
      · exact hI.b1
      · exact hI.b2
      · exact hI.c1
      · exact hI.i1
      · exact hI.q
      · exact hI.s1
      · intro hr hb k hk hcc hcn ht
        have hg := hI.g2 hr hb k hk hcc hcn ht
        have hm2 := hI.m2 k hk (hI.live k hk hcc)
        have hne : (s.hs k).peer ≠ p := by
          intro he; rw [he] at hm2; simp_all
        simp [upd, hne]
        exact hg
      · exact hI.d
      · exact hI.cc

theorem inv_add {s s' : St} {p : Nat} (hI : Inv s) (h : step s (.add p) = some s') : Inv s' := by
  simp only [step] at h
  split at h
  · simp at h
  rename_i hidle
  simp at hidle
  split at h
  · simp at h; subst h; exact hI
  rename_i hnone
  simp at h; subst h
  have h0 := delayOk_initial
  constructor
  · intro q k hk
    simp only [upd] at hk ⊢
    split at hk
    · simp at hk; subst hk; simp_all
    · have := hI.m1 q k hk
      have hne : k ≠ s.n := by omega
      simp [hne]; exact ⟨by omega, this.2⟩
  · intro k hk hin
    simp only [upd] at hin ⊢
    by_cases hkn : k = s.n
    · simp [hkn]
    · have hk' : k < s.n := by simp at hk; omega
      simp [hkn] at hin ⊢
      have := hI.m2 k hk' hin
      split
      · rename_i he; rw [he] at this; simp_all
      · exact this
  · intro k hk hcc
    simp only [upd] at hcc ⊢
    by_cases hkn : k = s.n
    · simp [hkn]
    · have hk' : k < s.n := by simp at hk; omega
      simp [hkn] at hcc ⊢
      exact hI.live k hk' hcc
  · intro k hb; simp_all
  · intro k hb; simp_all
  · intro k hk hcc
    simp only [upd] at hcc ⊢
    by_cases hkn : k = s.n
    · simp [hkn] at hcc ⊢; simp_all
    · have hk' : k < s.n := by simp at hk; omega
      simp [hkn] at hcc ⊢
      exact hI.c1 k hk' hcc
  · intro k hk ht
    simp only [upd] at ht ⊢
    by_cases hkn : k = s.n
    · simp [hkn] at ht
    · have hk' : k < s.n := by simp at hk; omega
      simp [hkn] at ht ⊢
      exact hI.i1 k hk' ht
  · intro k hk h1 h2
    simp only [upd] at h1 h2 ⊢
    by_cases hkn : k = s.n
    · simp [hkn]
    · have hk' : k < s.n := by simp at hk; omega
      simp [hkn] at h1 h2 ⊢
      exact hI.q k hk' h1 h2
  · intro hs k hk
    simp only [upd]
    by_cases hkn : k = s.n
    · simp at hs; simp [hkn, hs]
    · have hk' : k < s.n := by simp at hk; omega
      simp [hkn]
      exact hI.s1 hs k hk'
  · intro hr hb k hk hcc hcn ht
    simp only [upd] at hcc hcn ht ⊢
    by_cases hkn : k = s.n
    · simp at hr; simp [hkn, hr]
    · have hk' : k < s.n := by simp at hk; omega
      simp [hkn] at hcc hcn ht ⊢
      exact hI.g2 hr hb k hk' hcc hcn ht
  · intro k hk
    simp only [upd]
    by_cases hkn : k = s.n
    · simp [hkn, delayOk]; exact h0
    · have hk' : k < s.n := by simp at hk; omega
      simp [hkn]
      exact hI.d k hk'
  · intro k hk hcl
    simp only [upd] at hcl ⊢
    by_cases hkn : k = s.n
    · simp [hkn] at hcl ⊢; exact hcl
    · have hk' : k < s.n := by simp at hk; omega
      simp [hkn] at hcl ⊢
      exact hI.cc k hk' hcl

theorem inv_removeBegin {s s' : St} {p : Nat} (hI : Inv s) (h : step s (.removeBegin p) = some s') : Inv s' := by
  simp only [step] at h
  split at h
  · simp at h
  rename_i hidle
  simp at hidle
  split at h
  · simp at h; subst h; exact hI
  rename_i j hj
  simp at h; subst h
  obtain ⟨hjn, hjp, hjm⟩ := hI.m1 p j hj
  constructor
  · intro q k hk
    have := hI.m1 q k hk
    by_cases hkj : k = j
    · subst hkj; simp_all
    · simp_all [upd_ne]
  · intro k hk hin
    by_cases hkj : k = j
    · subst hkj; simp_all
    · simp_all [upd_ne]; exact hI.m2 k hk hin
  · intro k hk hcc
    by_cases hkj : k = j
    · subst hkj; simp_all
    · simp_all [upd_ne]; exact hI.live k hk hcc
  · intro k hb
    simp at hb; subst hb; simp_all
  · intro k hb; simp at hb
  · intro k hk hcc
    by_cases hkj : k = j
    · subst hkj; simp
    · have := hI.c1 k hk; simp_all [upd_ne]
  · intro k hk ht
    by_cases hkj : k = j
    · subst hkj; have := hI.i1 k hk; simp_all
    · have := hI.i1 k hk; simp_all [upd_ne]
  · intro k hk h1 h2
    by_cases hkj : k = j
    · subst hkj
      have h3 := hI.q k hk
      have h4 := hI.cc k hk
      simp_all
    · have := hI.q k hk; simp_all [upd_ne]
  · intro hs k hk
    have := hI.s1 hs k hk
    by_cases hkj : k = j
    · subst hkj; simp_all
    · simp_all [upd_ne]
  · intro hr hb k hk hcc hcn ht
    by_cases hkj : k = j
    · subst hkj; simp_all
    · have := hI.g2 hr (by simp_all [Busy.isStopping]) k hk; simp_all [upd_ne]
  · intro k hk
    have := hI.d k hk
    by_cases hkj : k = j
    · subst hkj; simp_all [delayOk]
    · simp_all [upd_ne]
  · intro k hk hcl
    have := hI.cc k hk
    by_cases hkj : k = j
    · subst hkj; simp_all
    · simp_all [upd_ne]

theorem inv_removeEnd {s s' : St} (hI : Inv s) (h : step s .removeEnd = some s') : Inv s' := by
  simp only [step] at h
  split at h
  · rename_i j hb
    simp at h; subst h
    obtain ⟨hjn, hjc, hjm⟩ := hI.b1 j hb
    constructor
    · intro q k hk
      simp only [upd] at hk
      split at hk
      · simp at hk
      · have := hI.m1 q k hk
        by_cases hkj : k = j
        · subst hkj; simp_all
        · simp_all [upd_ne]
    · intro k hk hin
      by_cases hkj : k = j
      · subst hkj; simp_all
      · simp_all [upd_ne]
        have := hI.m2 k hk hin
        have h2 := hI.m2 j hjn hjm
        simp only [upd]
        split
        · rename_i he; rw [he] at this; simp_all
        · exact this
    · intro k hk hcc
      by_cases hkj : k = j
      · subst hkj; simp_all
      · simp_all [upd_ne]; exact hI.live k hk hcc
    · intro k hb'; simp at hb'
    · intro k hb'; simp at hb'
    · intro k hk hcc
      by_cases hkj : k = j
      · subst hkj; simp
      · have := hI.c1 k hk; simp_all [upd_ne]
        rcases this with h | h
        · exact h
        · exact absurd h.symm hkj
    · intro k hk ht
      by_cases hkj : k = j
      · subst hkj; simp_all
      · have := hI.i1 k hk; simp_all [upd_ne]
    · intro k hk h1 h2
      by_cases hkj : k = j
      · subst hkj; simp_all
      · have := hI.q k hk; simp_all [upd_ne]
    · intro hs k hk
      have := hI.s1 hs k hk
      by_cases hkj : k = j
      · subst hkj; simp_all
      · simp_all [upd_ne]
    · intro hr hb' k hk hcc hcn ht
      by_cases hkj : k = j
      · subst hkj; simp_all
      · have := hI.g2 hr (by simp_all [Busy.isStopping]) k hk; simp_all [upd_ne]
    · intro k hk
      have := hI.d k hk
      by_cases hkj : k = j
      · subst hkj; simp_all [delayOk]
      · simp_all [upd_ne]
    · intro k hk hcl
      have := hI.cc k hk
      by_cases hkj : k = j
      · subst hkj; simp_all
      · simp_all [upd_ne]
  all_goals simp at h

theorem inv_start {s s' : St} (hI : Inv s) (h : step s .start = some s') : Inv s' := by
  simp only [step] at h
  split at h
  · simp at h
  rename_i hidle
  simp at hidle
  split at h
  · rename_i hst
    simp at h; subst h
    constructor
    · intro q k hk
      have := hI.m1 q k hk
      simp only []
      split <;> simp_all
    · intro k hk hin
      have := hI.m2 k hk
      simp only [] at hin ⊢
      split at hin <;> simp_all
    · intro k hk hcc
      have := hI.live k hk
      simp only [] at hcc ⊢
      split at hcc <;> simp_all
    · intro k hb; simp_all
    · intro k hb; simp_all
    · intro k hk hcc
      have := hI.c1 k hk
      simp only [] at hcc ⊢
      split at hcc <;> simp_all
    · intro k hk ht
      have := hI.i1 k hk
      simp only [] at ht ⊢
      split at ht <;> simp_all
    · intro k hk h1 h2
      have := hI.q k hk
      simp only [] at h1 h2 ⊢
      split at h1 <;> simp_all
    · intro hs; simp at hs
    · intro hr hb k hk hcc hcn ht
      have := hI.live k hk
      simp only [] at hcc hcn ht ⊢
      split at hcc <;> simp_all
    · intro k hk
      have := hI.d k hk
      simp only []
      split <;> simp_all [delayOk]
    · intro k hk hcl
      have := hI.cc k hk
      simp only [] at hcl ⊢
      split at hcl <;> simp_all
  all_goals (simp at h; subst h; exact hI)

theorem inv_stopBegin {s s' : St} (hI : Inv s) (h : step s .stopBegin = some s') : Inv s' := by
  simp only [step] at h
  split at h
  · simp at h
  rename_i hidle
  simp at hidle
  split at h
  · simp at h; subst h; exact hI
  · simp at h; subst h
    constructor
    · exact hI.m1
    · exact hI.m2
    · exact hI.live
    · intro k hb; simp at hb
    · intro k hb; simp at hb
    · intro k hk hcc
      have := hI.c1 k hk hcc
      simp_all
    · exact hI.i1
    · exact hI.q
    · exact hI.s1
    · intro hr hb; simp [Busy.isStopping] at hb
    · exact hI.d
    · exact hI.cc

theorem inv_stopCancel {s s' : St} {j : Nat} (hI : Inv s) (h : step s (.stopCancel j) = some s') : Inv s' := by
  simp only [step] at h
  split at h
  · rename_i hc
    obtain ⟨hb, hjn, hjm, hjc⟩ := hc
    simp at h; subst h
    constructor
    · intro q k hk
      have := hI.m1 q k hk
      by_cases hkj : k = j
      · subst hkj; simp_all
      · simp_all [upd_ne]
    · intro k hk hin
      by_cases hkj : k = j
      · subst hkj; simp_all; exact hI.m2 k hk hjm
      · simp_all [upd_ne]; exact hI.m2 k hk hin
    · intro k hk hcc
      by_cases hkj : k = j
      · subst hkj; simp_all
      · simp_all [upd_ne]; exact hI.live k hk hcc
    · intro k hb'; simp at hb'
    · intro k hb'
      simp at hb'; subst hb'; simp_all
    · intro k hk hcc
      by_cases hkj : k = j
      · subst hkj; simp
      · have := hI.c1 k hk; simp_all [upd_ne]
    · intro k hk ht
      by_cases hkj : k = j
      · subst hkj; have := hI.i1 k hk; simp_all
      · have := hI.i1 k hk; simp_all [upd_ne]
    · intro k hk h1 h2
      by_cases hkj : k = j
      · subst hkj
        have h4 := hI.cc k hk
        simp_all
      · have := hI.q k hk; simp_all [upd_ne]
    · intro hs k hk
      have := hI.s1 hs k hk
      by_cases hkj : k = j
      · subst hkj; simp_all
      · simp_all [upd_ne]
    · intro hr hb'; simp [Busy.isStopping] at hb'
    · intro k hk
      have := hI.d k hk
      by_cases hkj : k = j
      · subst hkj; simp_all [delayOk]
      · simp_all [upd_ne]
    · intro k hk hcl
      have := hI.cc k hk
      by_cases hkj : k = j
      · subst hkj; simp_all
      · simp_all [upd_ne]
  · simp at h

theorem inv_stopClear {s s' : St} (hI : Inv s) (h : step s .stopClear = some s') : Inv s' := by
  simp only [step] at h
  split at h
  · rename_i j hb
    simp at h; subst h
    obtain ⟨hjn, hjc, hjm⟩ := hI.b2 j hb
    constructor
    · intro q k hk
      have := hI.m1 q k hk
      by_cases hkj : k = j
      · subst hkj; simp_all
      · simp_all [upd_ne]
    · intro k hk hin
      by_cases hkj : k = j
      · subst hkj; simp_all; exact hI.m2 k hk hjm
      · simp_all [upd_ne]; exact hI.m2 k hk hin
    · intro k hk hcc
      by_cases hkj : k = j
      · subst hkj; simp_all
      · simp_all [upd_ne]; exact hI.live k hk hcc
    · intro k hb'; simp at hb'
    · intro k hb'; simp at hb'
    · intro k hk hcc
      by_cases hkj : k = j
      · subst hkj; simp
      · have := hI.c1 k hk; simp_all [upd_ne]
        rcases this with h | h
        · exact h
        · exact absurd h.symm hkj
    · intro k hk ht
      by_cases hkj : k = j
      · subst hkj; simp_all
      · have := hI.i1 k hk; simp_all [upd_ne]
    · intro k hk h1 h2
      by_cases hkj : k = j
      · subst hkj; simp_all
      · have := hI.q k hk; simp_all [upd_ne]
    · intro hs k hk
      have := hI.s1 hs k hk
      by_cases hkj : k = j
      · subst hkj; simp_all
      · simp_all [upd_ne]
    · intro hr hb'; simp [Busy.isStopping] at hb'
    · intro k hk
      have := hI.d k hk
      by_cases hkj : k = j
      · subst hkj; simp_all [delayOk]
      · simp_all [upd_ne]
    · intro k hk hcl
      have := hI.cc k hk
      by_cases hkj : k = j
      · subst hkj; simp_all
      · simp_all [upd_ne]
  all_goals simp at h

theorem allCancelled_spec {s : St} (h : allCancelled s = true) (j : Nat) (hj : j < s.n) :
    (s.hs j).inMap = true → (s.hs j).cancelled = true := by
  simp only [allCancelled, List.all_eq_true, List.mem_range] at h
  have := h j hj
  intro hm
  simp_all

theorem inv_stopEnd {s s' : St} (hI : Inv s) (h : step s .stopEnd = some s') : Inv s' := by
  simp only [step] at h
  split at h
  · rename_i hc
    obtain ⟨hb, hall⟩ := hc
    simp at h; subst h
    constructor
    · exact hI.m1
    · exact hI.m2
    · exact hI.live
    · intro k hb'; simp at hb'
    · intro k hb'; simp at hb'
    · intro k hk hcc
      have := hI.c1 k hk hcc
      simp_all
    · exact hI.i1
    · exact hI.q
    · intro _ k hk
      have hcanc : (s.hs k).cancelled = true := by
        cases hc : (s.hs k).cancelled
        · exact absurd (allCancelled_spec hall k hk (hI.live k hk hc)) (by simp [hc])
        · rfl
      have := hI.c1 k hk hcanc
      simp_all
    · intro hr; simp at hr
    · exact hI.d
    · exact hI.cc
  · simp at h

theorem inv_step {s s' : St} (e : Ev) (hI : Inv s) (h : step s e = some s') : Inv s' := by
  cases e with
  | add p => exact inv_add hI h
  | removeBegin p => exact inv_removeBegin hI h
  | removeEnd => exact inv_removeEnd hI h
  | start => exact inv_start hI h
  | stopBegin => exact inv_stopBegin hI h
  | stopCancel j => exact inv_stopCancel hI h
  | stopClear => exact inv_stopClear hI h
  | stopEnd => exact inv_stopEnd hI h
  | setConn p b => exact inv_setConn hI h
  | notify p b => exact inv_notify hI h
  | runStart j r0 r1 => exact inv_runStart hI h
  | runStop j => exact inv_runStop hI h
  | fire j => exact inv_fire hI h
  | dial j => exact inv_dial hI h
  | dialEnd j r0 r1 => exact inv_dialEnd hI h

theorem inv_reach {s : St} (h : Reach s) : Inv s := by
  induction h with
  | init => exact inv_init
  | step e _ hs ih => exact inv_step e ih hs

/-! ### second invariant -/
@[simp] theorem runStart_keeps (h : HSt) (c : Bool) (r0 r1 : BitVec 64) :
    (h.runStart c r0 r1).peer = h.peer ∧ (h.runStart c r0 r1).inMap = h.inMap ∧
    (h.runStart c r0 r1).cancelled = h.cancelled ∧ (h.runStart c r0 r1).cleared = h.cleared := by
  simp only [HSt.runStart, HSt.arm]; split <;> simp
@[simp] theorem stopIfConnected_keeps (h : HSt) (c : Bool) :
    (h.stopIfConnected c).peer = h.peer ∧ (h.stopIfConnected c).inMap = h.inMap ∧
    (h.stopIfConnected c).cancelled = h.cancelled ∧ (h.stopIfConnected c).cleared = h.cleared := by
  simp only [HSt.stopIfConnected]; split <;> simp
@[simp] theorem dialEnd_keeps (h : HSt) (c : Bool) (r0 r1 : BitVec 64) :
    (h.dialEnd c r0 r1).peer = h.peer ∧ (h.dialEnd c r0 r1).inMap = h.inMap ∧
    (h.dialEnd c r0 r1).cancelled = h.cancelled ∧ (h.dialEnd c r0 r1).cleared = h.cleared := by
  simp only [HSt.dialEnd, HSt.arm]; split <;> (try split) <;> simp

def Inv2 (s : St) : Prop := ∀ j, j < s.n → (s.hs j).inMap = true → (s.hs j).cancelled = true →
   s.state = .stopped ∨ s.busy = .removing j ∨ s.busy.isStopping = true

theorem inv2_step {s s' : St} (e : Ev) (h2 : Inv2 s) (h : step s e = some s') : Inv2 s' := by
  cases e <;> simp only [step] at h
  all_goals (repeat' split at h)
  all_goals (first | (simp at h; done) | skip)
  all_goals (try (simp at h; subst h))
  all_goals intro k hk hm hc
  all_goals (try simp only [upd] at hm hc hk ⊢)
  all_goals (have := h2 k)
  all_goals (try split at hm)
  all_goals (try simp_all [Busy.isStopping])
  all_goals (first | done | omega | grind)

/-! ### quiescence, one step -/
def dialCount (j : Nat) (l : List (Nat × Bool)) : Nat := l.countP (fun d => d.1 == j)
def liveDialCount (j : Nat) (l : List (Nat × Bool)) : Nat := l.countP (fun d => d.1 == j && !d.2)

/-- handler j has been stopped for good: `handler.stop()` finished (context cancelled, timer cleared) -/
def Stopped (s : St) (j : Nat) : Prop :=
  j < s.n ∧ (s.hs j).cancelled = true ∧ (s.hs j).cleared = true ∧ (s.hs j).timer = .none

theorem stopped_step {s s' : St} {j : Nat} (e : Ev) (hs : Stopped s j) (h : step s e = some s') :
    Stopped s' j ∧ dialCount j s'.dials + (s'.hs j).rA = dialCount j s.dials + (s.hs j).rA ∧
    (s'.hs j).rA ≤ (s.hs j).rA ∧ liveDialCount j s'.dials = liveDialCount j s.dials := by
  obtain ⟨h1, h2, h3, h4⟩ := hs
  cases e <;> simp only [step] at h
  all_goals (repeat' split at h)
  all_goals (first | (simp at h; done) | skip)
  all_goals (try (simp at h; subst h))
  all_goals simp only [Stopped, dialCount, liveDialCount]
  all_goals (try (refine ⟨⟨by first | omega | assumption, ?_, ?_, ?_⟩, ?_, ?_, ?_⟩))
  all_goals (try simp only [upd])
  all_goals (try split)
  all_goals (try simp_all [HSt.runStart, HSt.stopIfConnected, HSt.dialEnd, List.countP_cons])
  all_goals (first | done | omega | (intro hx; subst hx; simp_all))

theorem inv2_reach {s : St} (h : Reach s) : Inv2 s := by
  induction h with
  | init => intro j hj; simp at hj
  | step e _ hs ih => exact inv2_step e ih hs

theorem reach_run {s s' : St} (evs : List Ev) (h : Reach s) (hr : run s evs = some s') : Reach s' := by
  induction evs generalizing s with
  | nil => simp [run] at hr; subst hr; exact h
  | cons e es ih =>
    simp only [run] at hr
    split at hr
    · rename_i s1 h1; exact ih (Reach.step e h h1) hr
    · simp at hr

/-! ### progress (liveness under fair scheduling) -/

theorem running_everStarted {s : St} (h : Reach s) : s.state = .running → s.everStarted = true := by
  induction h with
  | init => intro h; simp at h
  | step e _ hs ih =>
    cases e <;> simp only [step] at hs
    all_goals (repeat' split at hs)
    all_goals (first | (simp at hs; done) | skip)
    all_goals (try (simp at hs; subst hs))
    all_goals (first | exact ih | (intro hh; simp_all) | skip)

theorem drawsOk_zero {h : HSt} (hd : delayOk h) : drawsOk h.delay 0#64 0#64 = true := by
  rw [drawsOk_iff]
  obtain ⟨a, _, _⟩ := hd
  refine ⟨by decide, ?_, by decide, by decide⟩
  show (0#64).toInt < h.delay.toInt
  have : (0#64).toInt = 0 := by decide
  omega

/-- events of handler `j` (peer `p`) that are not service calls and do not change connectedness -/
def Internal (j p : Nat) : Ev → Bool
  | .notify q false => q == p
  | .runStart k _ _ => k == j
  | .fire k => k == j
  | .dial k => k == j
  | .dialEnd k _ _ => k == j
  | _ => false

theorem progress_dial {s : St} {j : Nat} (hj : j < s.n) (hr : 0 < (s.hs j).rA) (hc : (s.hs j).cancelled = false) :
    ∃ s', run s [.dial j] = some s' ∧ s'.dials = (j, false) :: s.dials := by
  simp [run, step, hj, hr, hc]

theorem progress_armed {s : St} {j : Nat} (hj : j < s.n) (ht : (s.hs j).timer = .armed) (hc : (s.hs j).cancelled = false) :
    ∃ s', run s [.fire j, .dial j] = some s' ∧ s'.dials = (j, false) :: s.dials := by
  simp [run, step, hj, ht, upd, hc]

theorem c46_progress_aux {s : St} (h : Reach s) (hrun : s.state = .running) (hidle : s.busy = .idle)
    (j : Nat) (hj : j < s.n) (hlive : (s.hs j).cancelled = false) (hdisc : s.conn (s.hs j).peer = false) :
    ∃ evs s', evs.length ≤ 4 ∧ (∀ e ∈ evs, Internal j (s.hs j).peer e = true) ∧ run s evs = some s' ∧
      s'.dials = (j, false) :: s.dials := by
  have hI := inv_reach h
  have hd := hI.d j hj
  have hdr := drawsOk_zero hd
  by_cases hrA : 0 < (s.hs j).rA
  · obtain ⟨s', a, b⟩ := progress_dial hj hrA hlive
    exact ⟨[.dial j], s', by simp, by simp [Internal], a, b⟩
  cases ht : (s.hs j).timer with
  | armed =>
    obtain ⟨s', a, b⟩ := progress_armed hj ht hlive
    exact ⟨[.fire j, .dial j], s', by simp, by simp [Internal], a, b⟩
  | idle =>
    have hrB : 0 < (s.hs j).rB := by have := hI.i1 j hj ht; omega
    have : ∃ s', run s [.dialEnd j 0#64 0#64, .fire j, .dial j] = some s' ∧ s'.dials = (j, false) :: s.dials := by
      simp [run, step, hj, hrB, hdr, upd, HSt.dialEnd, HSt.arm, ht, hdisc, hlive]
    obtain ⟨s', a, b⟩ := this
    exact ⟨_, s', by simp, by simp [Internal], a, b⟩
  | none =>
    have hg := hI.g2 hrun (by simp [hidle, Busy.isStopping]) j hj hlive hdisc ht
    by_cases hps : 0 < (s.hs j).pendStart
    · have : ∃ s', run s [.runStart j 0#64 0#64, .fire j, .dial j] = some s' ∧ s'.dials = (j, false) :: s.dials := by
        simp [run, step, hj, hps, hdr, upd, HSt.runStart, HSt.arm, ht, hdisc, hlive]
      obtain ⟨s', a, b⟩ := this
      exact ⟨_, s', by simp, by simp [Internal], a, b⟩
    · have hpd : 0 < s.pendDisc (s.hs j).peer := by
        rcases hg with h | h
        · exact absurd h hps
        · exact h
      have hm2 := hI.m2 j hj (hI.live j hj hlive)
      have hes := running_everStarted h hrun
      have : ∃ s', run s [.notify (s.hs j).peer false, .runStart j 0#64 0#64, .fire j, .dial j] = some s' ∧
          s'.dials = (j, false) :: s.dials := by
        simp [run, step, hidle, hes, hm2, hj, hdr, upd, HSt.runStart, HSt.arm, ht, hdisc, hlive]
      obtain ⟨s', a, b⟩ := this
      exact ⟨_, s', by simp, by simp [Internal], a, b⟩

end C46
