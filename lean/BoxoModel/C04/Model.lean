/-
C04 / C05 — verifcid validator and the block service: executable model.

Transcribed by hand from
  /repo/verifcid/cid.go        ValidateCid
  /repo/verifcid/allowlist.go  defaultAllowlist, allowlist (with / without override)
  /repo/blockservice/blockservice.go  AddBlock, AddBlocks, getBlock, getBlocks, DeleteBlock
  /repo/blockstore/blockstore.go      Get / Put / PutMany / Has / DeleteBlock of the default blockstore
                                      (keyed by multihash, Put never overwrites, PutMany batches)
The block service model follows the code AFTER the `fix:` commit of branch verif/bsvc
(getBlock rejects an exchange block whose CID differs from the requested one; getBlocks drops exchange
blocks whose CID was not requested).  `fixed := false` gives the code as it was before the fixes; it is
used only by the `_counterexample` theorems.

A CID is opaque to the model except for the three things the code looks at: the multihash function code,
the declared digest length (`Prefix().MhType`, `Prefix().MhLength`) and its identity.  The blockstore key
is the multihash (code, len, dig); `codec` distinguishes CIDs that share a multihash.
The exchange is an adversarial parameter: its answers are arguments of the functions.
Core-only (no Mathlib): imported by the line-protocol drivers of C04 and C05.
-/
namespace C04

/-! ## verifcid -/

/-- `defaultAllowlist.IsAllowed`: the `switch` over 15 codes, then the two blake2 ranges. -/
def defaultIsAllowed (code : Nat) : Bool :=
  match code with
  | 0x12 | 0x13      -- SHA2_256, SHA2_512
  | 0x19             -- SHAKE_256
  | 0x56             -- DBL_SHA2_256
  | 0x1e             -- BLAKE3
  | 0x00             -- IDENTITY
  | 0x17 | 0x16 | 0x15 | 0x14   -- SHA3_224, SHA3_256, SHA3_384, SHA3_512
  | 0x1a | 0x1b | 0x1c | 0x1d   -- KECCAK_224 .. KECCAK_512
  | 0x11 => true     -- SHA1
  | _ =>
    if code ≥ 0xb201 + 19 ∧ code ≤ 0xb240 then true      -- BLAKE2B_MIN+19 .. BLAKE2B_MAX
    else if code ≥ 0xb241 + 19 ∧ code ≤ 0xb260 then true -- BLAKE2S_MIN+19 .. BLAKE2S_MAX
    else false

/-- `defaultAllowlist.MinDigestSize` -/
def defaultMin (code : Nat) : Nat :=
  match code with
  | 0x00 => 0
  | _ => 20

/-- `defaultAllowlist.MaxDigestSize` -/
def defaultMax (code : Nat) : Nat :=
  match code with
  | 0x00 => 128
  | _ => 128

/-- The allowlists constructible from package verifcid: `DefaultAllowlist`, `NewAllowlist(set)`
(= `NewOverridingAllowlist(nil, set)`), `NewOverridingAllowlist(ov, set)`.  `set` is the Go map as an
association list with distinct keys. -/
inductive Allowlist where
  | dflt
  | plain (set : List (Nat × Bool))
  | over (ov : Allowlist) (set : List (Nat × Bool))

namespace Allowlist
def isAllowed : Allowlist → Nat → Bool
  | .dflt, c => defaultIsAllowed c
  | .plain set, c =>
    match set.lookup c with
    | some good => good
    | none => false
  | .over ov set, c =>
    match set.lookup c with
    | some good => good
    | none => ov.isAllowed c

def minDigest : Allowlist → Nat → Nat
  | .dflt, c => defaultMin c
  | .plain _, c => defaultMin c
  | .over ov _, c => ov.minDigest c

def maxDigest : Allowlist → Nat → Nat
  | .dflt, c => defaultMax c
  | .plain _, c => defaultMax c
  | .over ov _, c => ov.maxDigest c
end Allowlist

inductive VErr where
  | ok | insecure | small | large
  deriving DecidableEq, Repr

/-- `ValidateCid` on `Prefix().MhType = code`, `Prefix().MhLength = len`. -/
def validate (al : Allowlist) (code len : Nat) : VErr :=
  if !al.isAllowed code then .insecure
  else
    let minSize := al.minDigest code
    let maxSize := al.maxDigest code
    if len < minSize then .small
    else if len > maxSize then .large
    else .ok

/-! ## CIDs, blocks, blockstore -/

structure Cid where
  codec : Nat
  code : Nat
  len : Nat
  dig : Nat
  deriving DecidableEq, Repr

abbrev Key := Nat × Nat × Nat
def Cid.mh (c : Cid) : Key := (c.code, c.len, c.dig)

abbrev Data := Nat
abbrev Blk := Cid × Data

def valid (al : Allowlist) (c : Cid) : Bool := validate al c.code c.len == .ok

/-- blockstore content: multihash ↦ bytes -/
abbrev Store := List (Key × Data)

namespace Store
def get (s : Store) (k : Key) : Option Data := s.lookup k
def has (s : Store) (k : Key) : Bool := (s.lookup k).isSome
/-- overwrite or append (datastore.Put) -/
def set (s : Store) (k : Key) (d : Data) : Store :=
  if s.has k then s.map (fun e => if e.1 == k then (k, d) else e) else s ++ [(k, d)]
/-- `blockstore.Put`: "Has is cheaper than Put": an existing entry is never overwritten. -/
def put (s : Store) (k : Key) (d : Data) : Store := if s.has k then s else s ++ [(k, d)]
/-- `blockstore.PutMany`: one block = `Put`; otherwise a datastore batch: existence is tested against
the store as it was before the batch, and the batch itself is last-write-wins per key. -/
def putMany (s : Store) (bs : List Blk) : Store :=
  match bs with
  | [b] => s.put b.1.mh b.2
  | _ => bs.foldl (fun acc b => if s.has b.1.mh then acc else acc.set b.1.mh b.2) s
def del (s : Store) (k : Key) : Store := s.filter (fun e => e.1 != k)
end Store

/-! ## block service -/

structure Cfg where
  al : Allowlist
  checkFirst : Bool := true
  /-- `exchange != nil` -/
  hasEx : Bool := true
  /-- `true`: with the fix of branch verif/bsvc (the code the theorems are about) -/
  fixed : Bool := true

/-- Calls that cross the boundary of the block service, in program order. -/
inductive Ev where
  | put (b : Blk)               -- blockstore.Put(b) / one element of blockstore.PutMany (the write succeeded)
  | putFail (b : Blk)           -- the same call, but the blockstore returned an error (nothing was written)
  | reqOne (c : Cid)            -- fetcher.GetBlock(c)
  | reqMany (cs : List Cid)     -- fetcher.GetBlocks(cs)
  | notify (bs : List Blk)      -- exchange.NotifyNewBlocks(bs...)
  | emit (b : Blk)              -- block handed to the caller (return value / channel send)
  deriving DecidableEq, Repr

inductive Res where
  | ok
  | blk (b : Blk)
  | verr (e : VErr)
  | notfound
  | exch          -- error returned by the exchange
  | notifyErr     -- error returned by NotifyNewBlocks
  | mismatch      -- (fixed code) the exchange answered with a different CID
  | storeErr      -- error returned by blockstore.Put / PutMany
  | readErr       -- error (other than not-found) returned by blockstore.Get
  deriving DecidableEq, Repr

/-! The blockstore may FAIL a write: `pf : Option Nat` is the number of write calls (Put / PutMany) of
this API call that succeed before one returns an error (`none` = no failure). Every function below stops at
the first failed write, so one number describes every failure pattern visible within one call. -/

/-- AddBlock. `NotifyNewBlocks` errors are logged and ignored. -/
def addBlock (cfg : Cfg) (st : Store) (o : Blk) (pf : Option Nat := none) : Store × Res × List Ev :=
  match validate cfg.al o.1.code o.1.len with
  | .ok =>
    if cfg.checkFirst && st.has o.1.mh then (st, .ok, [])
    else if pf == some 0 then (st, .storeErr, [.putFail o])
    else
      (st.put o.1.mh o.2, .ok, [.put o] ++ (if cfg.hasEx then [.notify [o]] else []))
  | e => (st, .verr e, [])

/-- first validation error of the `for _, b := range bs` loop of AddBlocks -/
def firstErr (al : Allowlist) : List Blk → Option VErr
  | [] => none
  | b :: r =>
    match validate al b.1.code b.1.len with
    | .ok => firstErr al r
    | e => some e

def addBlocks (cfg : Cfg) (st : Store) (bs : List Blk) (pf : Option Nat := none) : Store × Res × List Ev :=
  match firstErr cfg.al bs with
  | some e => (st, .verr e, [])
  | none =>
    let toput := if cfg.checkFirst then bs.filter (fun b => !st.has b.1.mh) else bs
    if toput.isEmpty then (st, .ok, [])
    else if pf == some 0 then (st, .storeErr, toput.map .putFail)
    else
      (st.putMany toput, .ok, toput.map .put ++ (if cfg.hasEx then [.notify toput] else []))

/-- getBlock. `ans`: what `fetch.GetBlock` returns (`none` = error); `nOk`: whether NotifyNewBlocks succeeds. -/
def getBlock (cfg : Cfg) (st : Store) (c : Cid) (ans : Option Blk) (nOk : Bool) (pf : Option Nat := none)
    (rdOk : Bool := true) : Store × Res × List Ev :=
  match validate cfg.al c.code c.len with
  | .ok =>
    if !rdOk then (st, .readErr, []) else   -- blockstore.Get failed with an error that is not "not found": returned
    match st.get c.mh with
    | some d => (st, .blk (c, d), [.emit (c, d)])
    | none =>
      if !cfg.hasEx then (st, .notfound, [])
      else
        match ans with
        | none => (st, .exch, [.reqOne c])
        | some blk =>
          if cfg.fixed && blk.1 != c then (st, .mismatch, [.reqOne c])
          else if pf == some 0 then (st, .storeErr, [.reqOne c, .putFail blk])   -- `return nil, err`: nothing handed out
          else
            let st' := st.put blk.1.mh blk.2
            if nOk then (st', .blk blk, [.reqOne c, .put blk, .notify [blk], .emit blk])
            else (st', .notifyErr, [.reqOne c, .put blk, .notify [blk]])
  | e => (st, .verr e, [])

/-- The first loop of getBlocks: `for lastAllValidIndex, c = range ks { if invalid { break } }`.
`i` is the index of the head of the list, `last` the value the loop variable holds so far. -/
def rangeLoop (al : Allowlist) : Nat → Nat → List Cid → Nat
  | _, last, [] => last
  | i, _, c :: r => if !valid al c then i else rangeLoop al (i + 1) i r

/-- the key filtering of getBlocks (both phases) -/
def filterKeys (al : Allowlist) (ks : List Cid) : List Cid :=
  let lastAllValidIndex := rangeLoop al 0 0 ks
  if lastAllValidIndex != ks.length then
    ks.take lastAllValidIndex ++ (ks.drop lastAllValidIndex).filter (valid al)
  else ks

/-- the local lookup loop: hits are emitted in order, everything else is a miss -/
def splitLocal (st : Store) : List Cid → List Blk × List Cid
  | [] => ([], [])
  | c :: r =>
    let (hs, ms) := splitLocal st r
    match st.get c.mh with
    | some d => ((c, d) :: hs, ms)
    | none => (hs, c :: ms)

/-- the local lookup loop when blockstore.Get may FAIL: `rd i` = the i-th Get call of this getBlocks call
succeeds. ANY error of Get makes the key a miss (`if err != nil { misses = append(misses, c) }`), so a stored
block whose read failed is requested from the exchange. -/
def splitLocalR (st : Store) (rd : Nat → Bool) : Nat → List Cid → List Blk × List Cid
  | _, [] => ([], [])
  | i, c :: r =>
    let (hs, ms) := splitLocalR st rd (i + 1) r
    if !rd i then (hs, c :: ms)
    else
      match st.get c.mh with
      | some d => ((c, d) :: hs, ms)
      | none => (hs, c :: ms)

/-- the receive loop of getBlocks over the blocks the exchange channel yields.
`nf`: number of NotifyNewBlocks calls that succeed before one fails (`none` = all succeed); `pf`: the same for
blockstore.Put. -/
def fetchLoop (fixed : Bool) (misses : List Cid) : Store → Option Nat → Option Nat → List Blk → Store × List Ev
  | st, _, _, [] => (st, [])
  | st, nf, pf, b :: r =>
    if fixed && !misses.contains b.1 then fetchLoop fixed misses st nf pf r   -- dropped
    else
      match pf with
      | some 0 => (st, [.putFail b])     -- "could not write blocks from the network to the blockstore": return
      | _ =>
        let st' := st.put b.1.mh b.2
        match nf with
        | some 0 => (st', [.put b, .notify [b]])
        | _ =>
          let (st'', evs) := fetchLoop fixed misses st' (nf.map (· - 1)) (pf.map (· - 1)) r
          (st'', [.put b, .notify [b], .emit b] ++ evs)

/-- getBlocks. `ans`: what `fetch.GetBlocks` returns: `none` = error, `some bs` = the blocks sent on the
channel before it is closed. -/
def getBlocks (cfg : Cfg) (st : Store) (ks : List Cid) (ans : Option (List Blk)) (nf : Option Nat)
    (pf : Option Nat := none) (rd : Nat → Bool := fun _ => true) : Store × List Ev :=
  let ks := filterKeys cfg.al ks
  let (hits, misses) := splitLocalR st rd 0 ks
  let evs := hits.map .emit
  if misses.isEmpty || !cfg.hasEx then (st, evs)
  else
    match ans with
    | none => (st, evs ++ [.reqMany misses])
    | some bs =>
      let (st', evs') := fetchLoop cfg.fixed misses st nf pf bs
      (st', evs ++ [.reqMany misses] ++ evs')

def deleteBlock (st : Store) (c : Cid) : Store := st.del c.mh

/-- blocks handed to the caller -/
def emitted : List Ev → List Blk
  | [] => []
  | .emit b :: r => b :: emitted r
  | _ :: r => emitted r

/-- store after the writes of a trace (the writes seen at the blockstore boundary) -/
def replay (st : Store) : List Ev → Store
  | [] => st
  | .put b :: r => replay (st.put b.1.mh b.2) r
  | _ :: r => replay st r

end C04

namespace C04

/-! ## request sequences -/

/-- One call of the block service API together with the (adversarially chosen) behaviour of the
exchange and of the blockstore (write failures) during that call. -/
inductive Op where
  | add (b : Blk) (pf : Option Nat)
  | addMany (bs : List Blk) (pf : Option Nat)
  | get (c : Cid) (ans : Option Blk) (nOk : Bool) (pf : Option Nat) (rdOk : Bool)
  | getMany (ks : List Cid) (ans : Option (List Blk)) (nf : Option Nat) (pf : Option Nat) (rd : Nat → Bool)
  | del (c : Cid)

def stepOp (cfg : Cfg) (st : Store) : Op → Store × List Ev
  | .add b pf => let r := addBlock cfg st b pf; (r.1, r.2.2)
  | .addMany bs pf => let r := addBlocks cfg st bs pf; (r.1, r.2.2)
  | .get c ans nOk pf rdOk => let r := getBlock cfg st c ans nOk pf rdOk; (r.1, r.2.2)
  | .getMany ks ans nf pf rd => getBlocks cfg st ks ans nf pf rd
  | .del c => (deleteBlock st c, [])

/-- a whole history: final store and the concatenated trace -/
def run (cfg : Cfg) : Store → List Op → Store × List Ev
  | st, [] => (st, [])
  | st, op :: r =>
    let s1 := stepOp cfg st op
    let s2 := run cfg s1.1 r
    (s2.1, s1.2 ++ s2.2)

/-- every CID carried by an event passes the validator -/
def evOk (al : Allowlist) : Ev → Bool
  | .put b => valid al b.1
  | .putFail b => valid al b.1
  | .reqOne c => valid al c
  | .reqMany cs => cs.all (valid al)
  | .notify bs => bs.all (fun b => valid al b.1)
  | .emit b => valid al b.1

/-- every key of the store is the multihash of CIDs the validator accepts -/
def storeOk (al : Allowlist) (st : Store) : Prop :=
  ∀ e ∈ st, validate al e.1.1 e.1.2.1 = .ok

end C04
