import BoxoModel.C04.Model
import BoxoModel.C05.Model
/-! Line protocol of the C04 / C05 drivers (see /verif/harness/bsx/bsx.go for the op language). Core-only. -/
namespace C04.Proto
open C04

def parseCid (t : String) : Option Cid :=
  match (t.splitOn ".").map String.toNat? with
  | [some a, some b, some c, some d] => some ⟨a, b, c, d⟩
  | _ => none

def parseBlk (t : String) : Option Blk :=
  match t.splitOn "=" with
  | [c, d] => do
    let c ← parseCid c
    let d ← d.toNat?
    pure (c, d)
  | _ => none

def parseSet (t : String) : Option (List (Nat × Bool)) :=
  if t == "-" then some []
  else (t.splitOn ",").mapM fun kv =>
    match kv.splitOn "=" with
    | [k, v] => do
      let k ← k.toNat?
      pure (k, v == "1")
    | _ => none

def parseAl : Nat → List String → Option (Allowlist × List String)
  | 0, _ => none
  | _ + 1, "dflt" :: r => some (.dflt, r)
  | _ + 1, "plain" :: s :: r => do
    let s ← parseSet s
    pure (.plain s, r)
  | fuel + 1, "over" :: s :: r => do
    let s ← parseSet s
    let (ov, r') ← parseAl fuel r
    pure (.over ov s, r')
  | _, _ => none

def showCid (c : Cid) : String := s!"{c.codec}.{c.code}.{c.len}.{c.dig}"
def showBlk (b : Blk) : String := s!"{showCid b.1}={b.2}"
def showBlks (bs : List Blk) : String := ",".intercalate (bs.map showBlk)

def showVErr : VErr → String
  | .ok => "ok" | .insecure => "insecure" | .small => "small" | .large => "large"

def showRes : Res → String
  | .ok => "ok"
  | .blk _ => "blk"
  | .verr e => showVErr e
  | .notfound => "notfound"
  | .exch => "exch"
  | .notifyErr => "notify"
  | .mismatch => "other"
  | .storeErr => "storeerr"
  | .readErr => "readerr"

/-- events other than `emit`; `ses`: requests go through a session fetcher -/
def showEvs (ses : Bool) (evs : List Ev) : String :=
  let tag := if ses then "s" else ""
  " ".intercalate (evs.filterMap fun
    | .put b => some s!"put:{showBlk b}"
    | .putFail b => some s!"putx:{showBlk b}"
    | .reqOne c => some s!"{tag}req:{showCid c}"
    | .reqMany cs => some s!"{tag}reqm:{",".intercalate (cs.map showCid)}"
    | .notify bs => some s!"ntf:{showBlks bs}"
    | .emit _ => none)

def line (res : String) (ses : Bool) (evs : List Ev) : String :=
  s!"{res} emits=[{showBlks (emitted evs)}] evs=[{showEvs ses evs}]"

structure St where
  cfg : Cfg := { al := .dflt }
  sesEx : Bool := false
  live : Bool := false
  store : Store := []
  /-- scripted blockstore write failure: (write calls that still succeed, sticky) -/
  pfail : Option (Nat × Bool) := none
  /-- scripted blockstore read (Get) failure: (Get calls that still succeed, sticky) -/
  rfail : Option (Nat × Bool) := none
  /-- persistent Session objects / contexts with an embedded session, by name -/
  sessions : List (String × C05.Ses) := []
  /-- blockstore of the SECOND block service "B" of the case (same configuration, own store and exchange; the
  failure scripts apply to the first one only) -/
  storeB : Store := []

/-- `pf` argument of the next API call -/
def St.pf (s : St) : Option Nat := s.pfail.map (·.1)

/-- account for the `calls` blockstore write calls (Put / PutMany) an API call made -/
def St.after (s : St) (calls : Nat) : St :=
  match s.pfail with
  | none => s
  | some (k, sticky) =>
    if calls > k then { s with pfail := if sticky then some (0, true) else none }
    else { s with pfail := some (k - calls, sticky) }

/-- does the i-th Get call of the next API call succeed? -/
def St.rd (s : St) (i : Nat) : Bool :=
  match s.rfail with
  | none => true
  | some (k, sticky) => if sticky then i < k else i != k

/-- account for the `calls` Get calls an API call made -/
def St.afterReads (s : St) (calls : Nat) : St :=
  match s.rfail with
  | none => s
  | some (k, sticky) =>
    if calls > k then { s with rfail := if sticky then some (0, true) else none }
    else { s with rfail := some (k - calls, sticky) }

/-- session object of a mode token: `d` none; `s` / `c` a fresh one; `S<k>` / `C<k>` a persistent one -/
def St.sesOf (s : St) (mode : String) : Option C05.Ses :=
  if mode == "d" then none
  else if mode == "s" || mode == "c" then some {}
  else some ((s.sessions.lookup mode).getD {})

def St.setSes (s : St) (mode : String) (x : C05.Ses) : St :=
  if mode == "d" || mode == "s" || mode == "c" then s
  else { s with sessions := (mode, x) :: s.sessions.filter (·.1 != mode) }

/-- number of write CALLS behind the put events of a trace (`many`: one PutMany call for all of them) -/
def writeCalls (many : Bool) (evs : List Ev) : Nat :=
  let n := (evs.filter fun | .put _ => true | .putFail _ => true | _ => false).length
  if many then min n 1 else n

def vrow (al : Allowlist) (code : Nat) : String :=
  String.ofList ((List.range 257).map fun len =>
    match validate al code len with
    | .ok => 'o' | .insecure => 'i' | .small => 's' | .large => 'l')

/-- mode of a call on the second block service: a context that carries a session embedded for the FIRST service
(`B:C<k>`) means nothing to it (the context key is the BlockService value): a plain direct call; `B:X<k>` = a
context in which a session for B was embedded on top of that -/
def bMode (m : String) : String :=
  if m == "B:d" || m.startsWith "B:C" then "d" else "BX" ++ (m.drop 3).toString

/-- rewrite an op on service B into the same op on a state whose store is B's -/
def toB (ts : List String) : Option (List String) :=
  match ts with
  | "badd" :: r => some ("add" :: r)
  | ["bpeek", c] => some ["peek", c]
  | "get" :: m :: r => if m.startsWith "B:" then some ("get" :: bMode m :: r) else none
  | "getmany" :: m :: r => if m.startsWith "B:" then some ("getmany" :: bMode m :: r) else none
  | _ => none

def stepA (fixed : Bool) (s : St) (ln : String) : St × String :=
  let ts := (ln.trimAscii.toString.splitOn " ").filter (· ≠ "")
  let ses (mode : String) : Bool := s.sesEx && mode != "d"
  match ts with
  | ["case", n] => ({}, s!"case {n}")
  | ["end"] => ({}, "end")
  | "cfg" :: cf :: ex :: al =>
    match parseAl (al.length + 1) al with
    | some (al, _) =>
      ({ cfg := { al := al, checkFirst := cf == "1", hasEx := ex != "0", fixed := fixed }, sesEx := ex == "2",
         live := true, store := [] }, "ok")
    | none => (s, "bad-op")
  | ["putfail", "-"] => if s.live then ({ s with pfail := none }, "ok") else (s, "bad-op")
  | ["putfail", k, sticky] =>
    match k.toNat?, s.live with
    | some k, true => ({ s with pfail := some (k, sticky == "1") }, "ok")
    | _, _ => (s, "bad-op")
  | ["getfail", "-"] => if s.live then ({ s with rfail := none }, "ok") else (s, "bad-op")
  | ["getfail", k, sticky] =>
    match k.toNat?, s.live with
    | some k, true => ({ s with rfail := some (k, sticky == "1") }, "ok")
    | _, _ => (s, "bad-op")
  | ["vrow", code] =>
    match code.toNat? with
    | some code => (s, vrow s.cfg.al code)
    | none => (s, "bad-op")
  | _ =>
  if !s.live then (s, "bad-op") else
  match ts with
  | ["add", b] =>
    match parseBlk b with
    | some b =>
      let (st, r, evs) := addBlock s.cfg s.store b s.pf
      ({ s with store := st }.after (writeCalls false evs), line (showRes r) false evs)
    | none => (s, "bad-op")
  | "addmany" :: bs =>
    match bs.mapM parseBlk with
    | some bs =>
      let (st, r, evs) := addBlocks s.cfg s.store bs s.pf
      ({ s with store := st }.after (writeCalls true evs), line (showRes r) false evs)
    | none => (s, "bad-op")
  | ["get", mode, c, ans, nOk] =>
    match parseCid c, (if ans == "err" then some none else (parseBlk ans).map some) with
    | some c, some ans =>
      let rdOk := s.rd 0
      let reads := if valid s.cfg.al c then 1 else 0
      match s.sesOf mode with
      | none =>
        let (st, r, evs) := getBlock s.cfg s.store c ans (nOk != "0") s.pf rdOk
        ((({ s with store := st }.after (writeCalls false evs)).afterReads reads), line (showRes r) false evs ++ " ns=0")
      | some se =>
        let (se', ns, st, r, evs) := C05.sesGetBlock s.cfg s.sesEx se s.store c ans (nOk != "0") s.pf rdOk
        (((({ s with store := st }.after (writeCalls false evs)).afterReads reads).setSes mode se'),
          line (showRes r) se'.isSes evs ++ (if ns then " ns=1" else " ns=0"))
    | _, _ => (s, "bad-op")
  | "getmany" :: mode :: nf :: rest =>
    let ks := rest.takeWhile (· ≠ "|")
    let ans := (rest.dropWhile (· ≠ "|")).drop 1
    let nf := if nf == "-" then some none else nf.toNat?.map some
    let ans := if ans == ["err"] then some none else (ans.mapM parseBlk).map some
    match ks.mapM parseCid, ans, nf with
    | some ks, some ans, some nf =>
      let reads := (filterKeys s.cfg.al ks).length
      match s.sesOf mode with
      | none =>
        let (st, evs) := getBlocks s.cfg s.store ks ans nf s.pf s.rd
        ((({ s with store := st }.after (writeCalls false evs)).afterReads reads), line "done" false evs ++ " ns=0")
      | some se =>
        let (se', ns, st, evs) := C05.sesGetBlocks s.cfg s.sesEx se s.store ks ans nf s.pf s.rd
        (((({ s with store := st }.after (writeCalls false evs)).afterReads reads).setSes mode se'),
          line "done" se'.isSes evs ++ (if ns then " ns=1" else " ns=0"))
    | _, _, _ => (s, "bad-op")
  | "cancelget" :: _ => (s, "cancelled")   -- context cancelled mid-call: outcome not diffed (monitors only); last op of a case
  | ["del", c] =>
    match parseCid c with
    | some c => ({ s with store := deleteBlock s.store c }, line "ok" false [])
    | none => (s, "bad-op")
  | ["peek", c] =>
    match parseCid c with
    | some c =>
      (s, match s.store.get c.mh with
          | some d => toString d
          | none => "none")
    | none => (s, "bad-op")
  | _ => (s, "bad-op")

/-- one op line; ops on the second block service run the same model on B's store (no failure scripts) -/
def step (fixed : Bool) (s : St) (ln : String) : St × String :=
  let ts := (ln.trimAscii.toString.splitOn " ").filter (· ≠ "")
  match toB ts with
  | none => stepA fixed s ln
  | some ts' =>
    if !s.live then (s, "bad-op") else
    let sB : St := { s with store := s.storeB, pfail := none, rfail := none }
    let (sB', out) := stepA fixed sB (" ".intercalate ts')
    ({ sB' with store := s.store, storeB := sB'.store, pfail := s.pfail, rfail := s.rfail }, out)

partial def loop (fixed : Bool) (h : IO.FS.Stream) (out : IO.FS.Stream) (s : St) : IO Unit := do
  let ln ← h.getLine
  if ln.isEmpty then return ()
  let (s', o) := step fixed s ln
  out.putStrLn o
  loop fixed h out s'

end C04.Proto
