import BoxoModel.C04.Model
import BoxoModel.Gen.C04
/-! Helper lemmas for C04 / C05 (validator, regenerated definitions, store, key filtering, traces). Core-only. -/
namespace C04

theorem bv_beq_lit (n k : Nat) (hn : n < 2 ^ 64) (hk : k < 2 ^ 64) :
    (BitVec.ofNat 64 n == BitVec.ofNat 64 k) = decide (n = k) := by
  rw [Bool.eq_iff_iff]
  simp only [beq_iff_eq, decide_eq_true_eq]
  constructor
  · intro h
    have := congrArg BitVec.toNat h
    simp only [BitVec.toNat_ofNat] at this
    omega
  · intro h; rw [h]

theorem defaultIsAllowed_eq (n : Nat) : defaultIsAllowed n =
    (decide (n = 18) || decide (n = 19) || decide (n = 25) || decide (n = 86) || decide (n = 30) || decide (n = 0) ||
     decide (n = 23) || decide (n = 22) || decide (n = 21) || decide (n = 20) || decide (n = 26) || decide (n = 27) ||
     decide (n = 28) || decide (n = 29) || decide (n = 17) ||
     (decide (45588 ≤ n) && decide (n ≤ 45632)) || (decide (45652 ≤ n) && decide (n ≤ 45664))) := by
  unfold defaultIsAllowed
  split <;> simp_all

theorem validate_ok_iff (al : Allowlist) (code len : Nat) :
    validate al code len = .ok ↔
      (al.isAllowed code = true ∧ al.minDigest code ≤ len ∧ len ≤ al.maxDigest code) := by
  unfold validate
  cases h : al.isAllowed code <;> simp
  by_cases h1 : len < al.minDigest code
  · simp [h1]; try omega
  · by_cases h2 : len > al.maxDigest code
    · simp [h1, h2]; try omega
    · simp [h1, h2]; try omega

theorem valid_iff (al : Allowlist) (c : Cid) : valid al c = true ↔ validate al c.code c.len = .ok := by
  simp [valid]

theorem gen_isAllowed (code : BitVec 64) : Gen.C04.isAllowed code = defaultIsAllowed code.toNat := by
  have hlt := code.isLt
  generalize hn : code.toNat = n at hlt
  have hc : code = BitVec.ofNat 64 n := by rw [← hn]; simp
  subst hc
  rw [defaultIsAllowed_eq]
  unfold Gen.C04.isAllowed
  simp (disch := omega) only [BitVec.ule, hn, bv_beq_lit, BitVec.toNat_ofNat]
  clear hn
  simp [Bool.or_assoc]

theorem gen_minDigest (code : BitVec 64) : (Gen.C04.minDigestSize code).toNat = defaultMin code.toNat := by
  have hlt := code.isLt
  generalize hn : code.toNat = n at hlt
  have hc : code = BitVec.ofNat 64 n := by rw [← hn]; simp
  subst hc
  unfold Gen.C04.minDigestSize defaultMin
  simp (disch := omega) only [bv_beq_lit]
  split <;> simp_all

theorem gen_maxDigest (code : BitVec 64) : (Gen.C04.maxDigestSize code).toNat = defaultMax code.toNat := by
  unfold Gen.C04.maxDigestSize defaultMax
  split <;> split <;> simp

/-! ### store -/

theorem storeOk_put {al : Allowlist} {st : Store} {k : Key} {d : Data}
    (h : storeOk al st) (hk : validate al k.1 k.2.1 = .ok) : storeOk al (st.put k d) := by
  unfold Store.put
  split
  · exact h
  · intro e he
    simp at he
    rcases he with he | he
    · exact h e he
    · subst he; exact hk

theorem storeOk_set {al : Allowlist} {st : Store} {k : Key} {d : Data}
    (h : storeOk al st) (hk : validate al k.1 k.2.1 = .ok) : storeOk al (st.set k d) := by
  unfold Store.set
  split
  · intro e he
    rw [List.mem_map] at he
    obtain ⟨x, hx, rfl⟩ := he
    split
    · exact hk
    · exact h _ hx
  · intro e he
    simp at he
    rcases he with he | he
    · exact h e he
    · subst he; exact hk

theorem storeOk_putMany {al : Allowlist} {st : Store} {bs : List Blk}
    (h : storeOk al st) (hb : ∀ b ∈ bs, valid al b.1 = true) : storeOk al (st.putMany bs) := by
  have key : ∀ (bs : List Blk) (acc : Store), storeOk al acc → (∀ b ∈ bs, valid al b.1 = true) →
      storeOk al (bs.foldl (fun acc b => if st.has b.1.mh then acc else acc.set b.1.mh b.2) acc) := by
    intro bs
    induction bs with
    | nil => intro acc ha _; exact ha
    | cons b r ih =>
      intro acc ha hb
      simp only [List.foldl_cons]
      apply ih
      · split
        · exact ha
        · exact storeOk_set ha ((valid_iff al b.1).1 (hb b (by simp)))
      · intro b' hb'; exact hb b' (by simp [hb'])
  unfold Store.putMany
  split
  · exact storeOk_put h ((valid_iff al _).1 (hb _ (by simp)))
  · exact key bs st h hb

theorem storeOk_del {al : Allowlist} {st : Store} {k : Key} (h : storeOk al st) : storeOk al (st.del k) := by
  intro e he
  simp [Store.del] at he
  exact h e he.1

/-! ### key filtering of getBlocks -/

theorem rangeLoop_spec (al : Allowlist) : ∀ (ks pre : List Cid) (last : Nat),
    (∀ c ∈ pre, valid al c = true) → last ≤ pre.length →
    (pre ++ ks).take (rangeLoop al pre.length last ks) ++
      ((pre ++ ks).drop (rangeLoop al pre.length last ks)).filter (valid al) = (pre ++ ks).filter (valid al) := by
  intro ks
  induction ks with
  | nil =>
    intro pre last hp _
    have h1 : (pre.drop last).filter (valid al) = pre.drop last :=
      List.filter_eq_self.2 (fun c hc => hp c (List.mem_of_mem_drop hc))
    have h2 : pre.filter (valid al) = pre := List.filter_eq_self.2 hp
    simp [rangeLoop, h1, h2]
  | cons c r ih =>
    intro pre last hp hl
    have h2 : pre.filter (valid al) = pre := List.filter_eq_self.2 hp
    by_cases hv : valid al c = true
    · have := ih (pre ++ [c]) pre.length (by
        intro x hx; simp at hx; rcases hx with hx | hx
        · exact hp x hx
        · subst hx; exact hv) (by simp)
      simp only [List.length_append, List.length_cons, List.length_nil, List.append_assoc,
        List.cons_append, List.nil_append] at this
      simpa [rangeLoop, hv] using this
    · simp [rangeLoop, hv, h2]

theorem filterKeys_eq (al : Allowlist) (ks : List Cid) : filterKeys al ks = ks.filter (valid al) := by
  have h := rangeLoop_spec al ks [] 0 (by simp) (by simp)
  simp only [List.nil_append, List.length_nil] at h
  unfold filterKeys
  by_cases hl : rangeLoop al 0 0 ks = ks.length
  · rw [hl] at h
    simp [hl] at h ⊢
    exact h
  · simp [hl, h]

theorem mem_filterKeys {al : Allowlist} {ks : List Cid} {c : Cid} (h : c ∈ filterKeys al ks) :
    c ∈ ks ∧ valid al c = true := by
  rw [filterKeys_eq] at h
  simpa using h

theorem mem_splitLocal_hits {st : Store} : ∀ {ks : List Cid} {b : Blk},
    b ∈ (splitLocal st ks).1 → b.1 ∈ ks ∧ st.get b.1.mh = some b.2 := by
  intro ks
  induction ks with
  | nil => intro b h; simp [splitLocal] at h
  | cons c r ih =>
    intro b h
    unfold splitLocal at h
    cases hg : st.get c.mh with
    | none =>
      simp [hg] at h
      have := ih h
      exact ⟨by simp [this.1], this.2⟩
    | some d =>
      simp [hg] at h
      rcases h with h | h
      · subst h; exact ⟨by simp, hg⟩
      · have := ih h
        exact ⟨by simp [this.1], this.2⟩

theorem mem_splitLocal_misses {st : Store} : ∀ {ks : List Cid} {c : Cid},
    c ∈ (splitLocal st ks).2 → c ∈ ks ∧ st.get c.mh = none := by
  intro ks
  induction ks with
  | nil => intro b h; simp [splitLocal] at h
  | cons c r ih =>
    intro b h
    unfold splitLocal at h
    cases hg : st.get c.mh with
    | none =>
      simp [hg] at h
      rcases h with h | h
      · subst h; exact ⟨by simp, hg⟩
      · have := ih h
        exact ⟨by simp [this.1], this.2⟩
    | some d =>
      simp [hg] at h
      have := ih h
      exact ⟨by simp [this.1], this.2⟩

theorem mem_splitLocalR_hits {st : Store} {rd : Nat → Bool} : ∀ {ks : List Cid} {i : Nat} {b : Blk},
    b ∈ (splitLocalR st rd i ks).1 → b.1 ∈ ks ∧ st.get b.1.mh = some b.2 := by
  intro ks
  induction ks with
  | nil => intro i b h; simp [splitLocalR] at h
  | cons c r ih =>
    intro i b h
    unfold splitLocalR at h
    by_cases hr : rd i = true
    · cases hg : st.get c.mh with
      | none =>
        simp [hr, hg] at h
        have := ih h
        exact ⟨by simp [this.1], this.2⟩
      | some d =>
        simp [hr, hg] at h
        rcases h with h | h
        · subst h; exact ⟨by simp, hg⟩
        · have := ih h
          exact ⟨by simp [this.1], this.2⟩
    · simp [hr] at h
      have := ih h
      exact ⟨by simp [this.1], this.2⟩

theorem mem_splitLocalR_misses {st : Store} {rd : Nat → Bool} : ∀ {ks : List Cid} {i : Nat} {c : Cid},
    c ∈ (splitLocalR st rd i ks).2 → c ∈ ks ∧ ((∀ j, rd j = true) → st.get c.mh = none) := by
  intro ks
  induction ks with
  | nil => intro i b h; simp [splitLocalR] at h
  | cons c r ih =>
    intro i b h
    unfold splitLocalR at h
    by_cases hr : rd i = true
    · cases hg : st.get c.mh with
      | none =>
        simp [hr, hg] at h
        rcases h with h | h
        · subst h; exact ⟨by simp, fun _ => hg⟩
        · have := ih h
          exact ⟨by simp [this.1], this.2⟩
      | some d =>
        simp [hr, hg] at h
        have := ih h
        exact ⟨by simp [this.1], this.2⟩
    · simp [hr] at h
      rcases h with h | h
      · subst h; exact ⟨by simp, fun hall => absurd (hall i) hr⟩
      · have := ih h
        exact ⟨by simp [this.1], this.2⟩

/-! ### nothing the validator rejects crosses the boundary of the block service -/

theorem firstErr_none {al : Allowlist} : ∀ {bs : List Blk}, firstErr al bs = none → ∀ b ∈ bs, valid al b.1 = true := by
  intro bs
  induction bs with
  | nil => intro _ b hb; simp at hb
  | cons x r ih =>
    intro h b hb
    unfold firstErr at h
    cases hv : validate al x.1.code x.1.len <;> simp [hv] at h
    simp at hb
    rcases hb with hb | hb
    · subst hb; simp [valid, hv]
    · exact ih h b hb

theorem addBlock_ok_none (cfg : Cfg) (st : Store) (o : Blk) :
    (∀ ev ∈ (addBlock cfg st o).2.2, evOk cfg.al ev = true) ∧
    (storeOk cfg.al st → storeOk cfg.al (addBlock cfg st o).1) := by
  unfold addBlock
  cases hv : validate cfg.al o.1.code o.1.len <;> simp
  have hvo : valid cfg.al o.1 = true := by simp [valid, hv]
  split
  · simp
  · constructor
    · intro ev hev
      simp at hev
      rcases hev with hev | hev
      · subst hev; simpa [evOk] using hvo
      · obtain ⟨_, rfl⟩ := hev
        simpa [evOk] using hvo
    · intro hs; exact storeOk_put hs hv

theorem addBlocks_aux (cfg : Cfg) (st : Store) (toput : List Blk) (htp : ∀ b ∈ toput, valid cfg.al b.1 = true) :
    let r : Store × Res × List Ev := if toput.isEmpty then (st, .ok, [])
      else (st.putMany toput, .ok, toput.map .put ++ (if cfg.hasEx then [.notify toput] else []))
    (∀ ev ∈ r.2.2, evOk cfg.al ev = true) ∧ (storeOk cfg.al st → storeOk cfg.al r.1) := by
  intro r
  by_cases he : toput.isEmpty = true
  · simp [r, he]
  · simp only [r, he, Bool.false_eq_true, if_false]
    constructor
    · intro ev hev
      simp only [List.mem_append, List.mem_map] at hev
      rcases hev with ⟨b, hb, rfl⟩ | hev
      · simpa [evOk] using htp b hb
      · split at hev
        · simp at hev; subst hev
          simp only [evOk, List.all_eq_true]
          exact htp
        · simp at hev
    · intro hs; exact storeOk_putMany hs htp

theorem addBlocks_ok_none (cfg : Cfg) (st : Store) (bs : List Blk) :
    (∀ ev ∈ (addBlocks cfg st bs).2.2, evOk cfg.al ev = true) ∧
    (storeOk cfg.al st → storeOk cfg.al (addBlocks cfg st bs).1) := by
  unfold addBlocks
  cases hf : firstErr cfg.al bs with
  | some e => simp
  | none =>
    have hall := firstErr_none hf
    by_cases hcf : cfg.checkFirst = true
    · simp only [hcf, if_true]
      exact addBlocks_aux cfg st _ (fun b hb => hall b (List.mem_filter.1 hb).1)
    · simp only [hcf, Bool.false_eq_true, if_false]
      exact addBlocks_aux cfg st _ hall

theorem getBlock_ok_none (cfg : Cfg) (hfix : cfg.fixed = true) (st : Store) (c : Cid) (ans : Option Blk) (nOk : Bool) :
    (∀ ev ∈ (getBlock cfg st c ans nOk).2.2, evOk cfg.al ev = true) ∧
    (storeOk cfg.al st → storeOk cfg.al (getBlock cfg st c ans nOk).1) := by
  unfold getBlock
  cases hv : validate cfg.al c.code c.len <;> simp
  have hvc : valid cfg.al c = true := by simp [valid, hv]
  cases hg : st.get c.mh with
  | some d => simp [evOk, hvc]
  | none =>
    simp only []
    split
    · simp
    · cases ans with
      | none => simp [evOk, hvc]
      | some blk =>
        simp only [hfix]
        by_cases hne : blk.1 = c
        · subst hne
          cases nOk <;> simp [evOk, hvc]
          all_goals exact fun hs => storeOk_put hs hv
        · simp [hne, evOk, hvc]

/-! write failures: only "does the next write fail" matters for the single-write functions -/

theorem pf_ne {pf : Option Nat} (h : pf ≠ some 0) : (pf == some 0) = false := by
  cases pf with
  | none => rfl
  | some k => cases k with
    | zero => exact absurd rfl h
    | succ k => rfl

theorem addBlock_pf (cfg : Cfg) (st : Store) (o : Blk) {pf : Option Nat} (h : pf ≠ some 0) :
    addBlock cfg st o pf = addBlock cfg st o none := by
  simp [addBlock, pf_ne h]

theorem addBlocks_pf (cfg : Cfg) (st : Store) (bs : List Blk) {pf : Option Nat} (h : pf ≠ some 0) :
    addBlocks cfg st bs pf = addBlocks cfg st bs none := by
  simp [addBlocks, pf_ne h]

theorem getBlock_pf (cfg : Cfg) (st : Store) (c : Cid) (ans : Option Blk) (nOk : Bool) {pf : Option Nat}
    (h : pf ≠ some 0) : getBlock cfg st c ans nOk pf = getBlock cfg st c ans nOk none := by
  simp [getBlock, pf_ne h]

/-- a failed read ends GetBlock at once: error, no request, no write, nothing handed out -/
theorem getBlock_rd_false (cfg : Cfg) (st : Store) (c : Cid) (ans : Option Blk) (nOk : Bool) (pf : Option Nat) :
    (getBlock cfg st c ans nOk pf false).1 = st ∧ (getBlock cfg st c ans nOk pf false).2.2 = [] ∧
    ∀ b, (getBlock cfg st c ans nOk pf false).2.1 ≠ .blk b := by
  unfold getBlock
  cases hv : validate cfg.al c.code c.len <;> simp

theorem addBlock_ok (cfg : Cfg) (st : Store) (o : Blk) (pf : Option Nat) :
    (∀ ev ∈ (addBlock cfg st o pf).2.2, evOk cfg.al ev = true) ∧
    (storeOk cfg.al st → storeOk cfg.al (addBlock cfg st o pf).1) := by
  by_cases h : pf = some 0
  · subst h
    unfold addBlock
    cases hv : validate cfg.al o.1.code o.1.len <;> simp
    split
    · simp
    · simp [evOk, valid, hv]
  · rw [addBlock_pf cfg st o h]; exact addBlock_ok_none cfg st o

theorem addBlocks_auxF (cfg : Cfg) (st : Store) (toput : List Blk) (htp : ∀ b ∈ toput, valid cfg.al b.1 = true) :
    let r : Store × Res × List Ev := if toput.isEmpty then (st, .ok, []) else (st, .storeErr, toput.map .putFail)
    (∀ ev ∈ r.2.2, evOk cfg.al ev = true) ∧ (storeOk cfg.al st → storeOk cfg.al r.1) := by
  intro r
  by_cases he : toput.isEmpty = true
  · simp [r, he]
  · simp only [r, he, Bool.false_eq_true, if_false]
    refine ⟨?_, id⟩
    intro ev hev
    obtain ⟨b, hb, rfl⟩ := List.mem_map.1 hev
    simpa [evOk] using htp b hb

theorem addBlocks_ok (cfg : Cfg) (st : Store) (bs : List Blk) (pf : Option Nat) :
    (∀ ev ∈ (addBlocks cfg st bs pf).2.2, evOk cfg.al ev = true) ∧
    (storeOk cfg.al st → storeOk cfg.al (addBlocks cfg st bs pf).1) := by
  by_cases h : pf = some 0
  · subst h
    unfold addBlocks
    cases hf : firstErr cfg.al bs with
    | some e => simp
    | none =>
      have hall := firstErr_none hf
      by_cases hcf : cfg.checkFirst = true
      · simp only [hcf, if_true, beq_self_eq_true]
        exact addBlocks_auxF cfg st _ (fun b hb => hall b (List.mem_filter.1 hb).1)
      · simp only [hcf, Bool.false_eq_true, if_false, beq_self_eq_true, if_true]
        exact addBlocks_auxF cfg st _ hall
  · rw [addBlocks_pf cfg st bs h]; exact addBlocks_ok_none cfg st bs

theorem getBlock_ok (cfg : Cfg) (hfix : cfg.fixed = true) (st : Store) (c : Cid) (ans : Option Blk) (nOk : Bool)
    (pf : Option Nat) (rdOk : Bool) :
    (∀ ev ∈ (getBlock cfg st c ans nOk pf rdOk).2.2, evOk cfg.al ev = true) ∧
    (storeOk cfg.al st → storeOk cfg.al (getBlock cfg st c ans nOk pf rdOk).1) := by
  cases rdOk with
  | false =>
    have := getBlock_rd_false cfg st c ans nOk pf
    rw [this.1, this.2.1]; simp
  | true =>
  by_cases h : pf = some 0
  · subst h
    unfold getBlock
    cases hv : validate cfg.al c.code c.len <;> simp
    have hvc : valid cfg.al c = true := by simp [valid, hv]
    cases hg : st.get c.mh with
    | some d => simp [evOk, hvc]
    | none =>
      simp only []
      split
      · simp
      · cases ans with
        | none => simp [evOk, hvc]
        | some blk =>
          simp only [hfix]
          by_cases hne : blk.1 = c
          · subst hne; simp [evOk, hvc]
          · simp [hne, evOk, hvc]
  · rw [getBlock_pf cfg st c ans nOk h]; exact getBlock_ok_none cfg hfix st c ans nOk

theorem fetchLoop_ok (al : Allowlist) (misses : List Cid) (hm : ∀ c ∈ misses, valid al c = true) :
    ∀ (bs : List Blk) (st : Store) (nf pf : Option Nat),
      (∀ ev ∈ (fetchLoop true misses st nf pf bs).2, evOk al ev = true) ∧
      (storeOk al st → storeOk al (fetchLoop true misses st nf pf bs).1) := by
  intro bs
  induction bs with
  | nil => intro st nf pf; simp [fetchLoop]
  | cons b r ih =>
    intro st nf pf
    unfold fetchLoop
    by_cases hc : misses.contains b.1 = true
    · have hvb : valid al b.1 = true := hm _ (by simpa using hc)
      simp only [hc, Bool.not_true, Bool.and_false, Bool.false_eq_true, if_false]
      have hput : storeOk al st → storeOk al (st.put b.1.mh b.2) := fun hs => storeOk_put hs ((valid_iff al b.1).1 hvb)
      split
      · simp [evOk, hvb]
      · split
        · simp [evOk, hvb]; exact hput
        · have := ih (st.put b.1.mh b.2) (nf.map (· - 1)) (pf.map (· - 1))
          constructor
          · intro ev hev
            simp at hev
            rcases hev with hev | hev | hev | hev
            · subst hev; simpa [evOk] using hvb
            · subst hev; simpa [evOk] using hvb
            · subst hev; simpa [evOk] using hvb
            · exact this.1 ev hev
          · intro hs; exact this.2 (hput hs)
    · simp only [hc, Bool.not_false, Bool.and_true, if_true]
      exact ih st nf pf

theorem getBlocks_ok (cfg : Cfg) (hfix : cfg.fixed = true) (st : Store) (ks : List Cid) (ans : Option (List Blk))
    (nf pf : Option Nat) (rd : Nat → Bool) :
    (∀ ev ∈ (getBlocks cfg st ks ans nf pf rd).2, evOk cfg.al ev = true) ∧
    (storeOk cfg.al st → storeOk cfg.al (getBlocks cfg st ks ans nf pf rd).1) := by
  unfold getBlocks
  have hh : ∀ b ∈ (splitLocalR st rd 0 (filterKeys cfg.al ks)).1, valid cfg.al b.1 = true :=
    fun b hb => (mem_filterKeys (mem_splitLocalR_hits hb).1).2
  have hm : ∀ c ∈ (splitLocalR st rd 0 (filterKeys cfg.al ks)).2, valid cfg.al c = true :=
    fun c hc => (mem_filterKeys (mem_splitLocalR_misses hc).1).2
  have hemit : ∀ ev ∈ (splitLocalR st rd 0 (filterKeys cfg.al ks)).1.map Ev.emit, evOk cfg.al ev = true := by
    intro ev hev
    obtain ⟨b, hb, rfl⟩ := List.mem_map.1 hev
    simpa [evOk] using hh b hb
  have hreq : evOk cfg.al (.reqMany (splitLocalR st rd 0 (filterKeys cfg.al ks)).2) = true := by
    simp only [evOk, List.all_eq_true]; exact hm
  simp only []
  split
  · exact ⟨hemit, id⟩
  · cases ans with
    | none =>
      refine ⟨?_, id⟩
      intro ev hev
      simp only [List.mem_append, List.mem_singleton] at hev
      rcases hev with hev | hev
      · exact hemit ev hev
      · subst hev; exact hreq
    | some bs =>
      have := fetchLoop_ok cfg.al _ hm bs st nf pf
      rw [hfix]
      refine ⟨?_, this.2⟩
      intro ev hev
      simp only [List.mem_append, List.mem_singleton] at hev
      rcases hev with (hev | hev) | hev
      · exact hemit ev hev
      · subst hev; exact hreq
      · exact this.1 ev hev

theorem stepOp_ok (cfg : Cfg) (hfix : cfg.fixed = true) (st : Store) (op : Op) :
    (∀ ev ∈ (stepOp cfg st op).2, evOk cfg.al ev = true) ∧
    (storeOk cfg.al st → storeOk cfg.al (stepOp cfg st op).1) := by
  cases op with
  | add b pf => exact addBlock_ok cfg st b pf
  | addMany bs pf => exact addBlocks_ok cfg st bs pf
  | get c ans nOk pf rdOk => exact getBlock_ok cfg hfix st c ans nOk pf rdOk
  | getMany ks ans nf pf rd => exact getBlocks_ok cfg hfix st ks ans nf pf rd
  | del c => exact ⟨by simp [stepOp], fun hs => storeOk_del hs⟩

theorem run_ok (cfg : Cfg) (hfix : cfg.fixed = true) : ∀ (ops : List Op) (st : Store),
    (∀ ev ∈ (run cfg st ops).2, evOk cfg.al ev = true) ∧
    (storeOk cfg.al st → storeOk cfg.al (run cfg st ops).1) := by
  intro ops
  induction ops with
  | nil => intro st; simp [run]
  | cons op r ih =>
    intro st
    have h1 := stepOp_ok cfg hfix st op
    have h2 := ih (stepOp cfg st op).1
    simp only [run]
    constructor
    · intro ev hev
      rcases List.mem_append.1 hev with hev | hev
      · exact h1.1 ev hev
      · exact h2.1 ev hev
    · intro hs; exact h2.2 (h1.2 hs)

end C04
