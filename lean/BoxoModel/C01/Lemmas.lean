import BoxoModel.C01.Spec
/-! C01 helper lemmas: key encoding facts, and the per-operation simulation lemmas between the
datastore-level model (`Model.lean`) and the abstract map (`Spec.lean`). -/
namespace C01
open BaseN

/-! ### keys -/

theorem blocksSlash_eq : blocksSlash = ['/', 'b', 'l', 'o', 'c', 'k', 's', '/'] := by decide
theorem blocksPrefix_eq : blocksPrefix = ['/', 'b', 'l', 'o', 'c', 'k', 's'] := by decide

theorem dsKey_not_below_blocks (mh : Bytes) : blocksSlash.isPrefixOf (dsKey mh) = false := by
  rw [blocksSlash_eq, dsKey]
  cases h : encode b32 mh with
  | nil => simp [List.isPrefixOf]
  | cons c e =>
    have hm : c ∈ b32.alphabet := encode_mem_alphabet b32 b32_wf mh c (by simp [h])
    have hc : c ≠ 'b' := by
      intro hc; subst hc; revert hm; decide
    have : ('b' == c) = false := by simp [Ne.symm hc]
    simp [List.isPrefixOf, this]

theorem dsKey_eq_root (mh : Bytes) : dsKey mh = ['/'] ↔ mh = [] := by
  constructor
  · intro h
    by_cases hm : mh = []
    · exact hm
    · have := encode_ne_nil b32 b32_wf mh hm
      simp [dsKey] at h; exact absurd h this
  · intro h; subst h; rfl

theorem dsKey_injective (a b : Bytes) (h : dsKey a = dsKey b) : a = b := by
  simp only [dsKey, List.cons.injEq, true_and] at h
  exact encode_injective b32 b32_wf a b h

/-- closed form of the raw datastore key of a multihash -/
theorem rk_eq (cfg : Cfg) (mh : Bytes) :
    rk cfg mh = if cfg.noPrefix then dsKey mh
      else if mh = [] then blocksPrefix else blocksPrefix ++ dsKey mh := by
  unfold rk rawKey
  by_cases hn : cfg.noPrefix = true
  · simp [hn]
  · simp only [hn, dsKey_not_below_blocks, dsKey_eq_root]
    simp

theorem rk_injective (cfg : Cfg) (a b : Bytes) (h : rk cfg a = rk cfg b) : a = b := by
  rw [rk_eq, rk_eq] at h
  by_cases hn : cfg.noPrefix = true
  · simp only [hn, if_true] at h; exact dsKey_injective a b h
  · simp only [hn] at h
    by_cases ha : a = [] <;> by_cases hb : b = []
    · rw [ha, hb]
    · simp only [ha, hb, if_true, if_false] at h
      have := congrArg List.length h
      simp [dsKey] at this
    · simp only [ha, hb, if_true, if_false] at h
      have := congrArg List.length h
      simp [dsKey] at this
    · simp only [ha, hb, if_false] at h
      exact dsKey_injective a b (List.append_cancel_left h)

/-- on encoder output go-base32's lenient decoder is the bit-level decoder: no newline characters to
strip, and the encoded length is never 3 or 6 modulo 8 -/
theorem decodeGo32_encode (mh : Bytes) : decodeGo32 (encode b32 mh) = some mh := by
  have hd := decode_encode b32 b32_wf mh
  have hl := b32_length mh
  have hf : (encode b32 mh).filter (fun c => c ≠ '\r' ∧ c ≠ '\n') = encode b32 mh := by
    rw [List.filter_eq_self]
    intro c hc
    have hm : c ∈ b32.alphabet := encode_mem_alphabet b32 b32_wf mh c hc
    have : ∀ c ∈ b32.alphabet, decide (c ≠ '\r' ∧ c ≠ '\n') = true := by decide
    exact this c hm
  unfold decodeGo32
  simp only [hf]
  cases hm : mapOpt b32.decDigit (encode b32 mh) with
  | none => simp [decode, hm] at hd
  | some ds =>
    have h3 : ¬ ((encode b32 mh).length % 8 = 3 ∨ (encode b32 mh).length % 8 = 6) := by
      rw [hl]; omega
    simp only [h3, if_false]
    exact hd

theorem binaryFromDsKey_dsKey (mh : Bytes) : binaryFromDsKey (dsKey mh) = some mh := by
  simp [binaryFromDsKey, dsKey, decodeGo32_encode]

/-! ### abstraction of single datastore updates -/

theorem abs_insert (cfg : Cfg) (s : Store) (mh d : Bytes) :
    abs cfg (AMap.insert s (rk cfg mh) d) = (abs cfg s).set mh (some d) := by
  funext x
  simp only [abs, M.set, AMap.find_insert]
  by_cases h : x = mh
  · subst h; simp
  · have : rk cfg mh ≠ rk cfg x := fun e => h (rk_injective cfg _ _ e).symm
    simp [h, this]

theorem abs_erase (cfg : Cfg) (s : Store) (mh : Bytes) :
    abs cfg (AMap.erase s (rk cfg mh)) = (abs cfg s).set mh none := by
  funext x
  simp only [abs, M.set, AMap.find_erase]
  by_cases h : x = mh
  · subst h; simp
  · have : rk cfg mh ≠ rk cfg x := fun e => h (rk_injective cfg _ _ e).symm
    simp [h, this]

theorem set_same (m : M) (mh d : Bytes) (h : m mh = some d) : m.set mh (some d) = m := by
  funext x
  simp only [M.set]
  by_cases hx : x = mh
  · subst hx; simp [h]
  · simp [hx]

theorem consistent_set (f : Bytes → Bytes) (m : M) (mh d : Bytes) (hm : Consistent f m) (hd : d = f mh) :
    Consistent f (m.set mh (some d)) := by
  intro x d' h
  simp only [M.set] at h
  by_cases hx : x = mh
  · subst hx; simp at h; rw [← h]; exact hd
  · simp [hx] at h; exact hm x d' h

theorem consistent_unset (f : Bytes → Bytes) (m : M) (mh : Bytes) (hm : Consistent f m) :
    Consistent f (m.set mh none) := by
  intro x d' h
  simp only [M.set] at h
  by_cases hx : x = mh
  · subst hx; simp at h
  · simp [hx] at h; exact hm x d' h

/-! ### KeysWF -/

theorem keysWF_nil (cfg : Cfg) : KeysWF cfg [] := by intro k hk; simp [AMap.keys] at hk

theorem keysWF_insert (cfg : Cfg) (s : Store) (mh d : Bytes) (h : KeysWF cfg s) :
    KeysWF cfg (AMap.insert s (rk cfg mh) d) := by
  intro k hk
  rcases (AMap.mem_keys_insert s _ k d).mp hk with e | hk
  · exact ⟨mh, e⟩
  · exact h k hk

theorem keysWF_erase (cfg : Cfg) (s : Store) (k0 : Key) (h : KeysWF cfg s) :
    KeysWF cfg (AMap.erase s k0) := by
  intro k hk
  exact h k ((AMap.mem_keys_erase s k0 k).mp hk).2

/-! ### Put -/

/-- the hypothesis under which "last stored wins" holds for a put of `b` -/
def PutOk (cfg : Cfg) (f : Bytes → Bytes) (m : M) (b : Blk) : Prop :=
  cfg.writeThrough = true ∨ (Consistent f m ∧ b.data = f b.cid.mh)

theorem abs_bsPut (cfg : Cfg) (f : Bytes → Bytes) (s : Store) (b : Blk)
    (h : PutOk cfg f (abs cfg s) b) :
    abs cfg (bsPut cfg s b) = (abs cfg s).set b.cid.mh (some b.data) := by
  unfold bsPut
  by_cases hw : cfg.writeThrough = true
  · simp [hw, abs_insert]
  · rcases h with h | ⟨hc, hb⟩
    · exact absurd h hw
    · cases hf : AMap.find s (rk cfg b.cid.mh) with
      | none => simp [hf, abs_insert]
      | some d =>
        have hd : d = f b.cid.mh := hc b.cid.mh d hf
        simp only [hw, hf, Option.isSome_some, Bool.not_false, Bool.and_self, if_true]
        rw [hb, ← hd]
        exact (set_same _ _ _ hf).symm

theorem keysWF_bsPut (cfg : Cfg) (s : Store) (b : Blk) (h : KeysWF cfg s) : KeysWF cfg (bsPut cfg s b) := by
  unfold bsPut
  dsimp only
  split
  · exact h
  · exact keysWF_insert cfg s _ _ h

/-! ### PutMany: batch + commit -/

/-- what the datastore will hold after committing `batch` on top of `s` -/
def overlay (cfg : Cfg) (s batch : Store) : M := fun x =>
  match AMap.find batch (rk cfg x) with
  | some d => some d
  | none => AMap.find s (rk cfg x)

theorem find_commit (s batch : Store) (k : Key) :
    AMap.find (commit s batch) k =
      match AMap.find batch k with
      | some d => some d
      | none => AMap.find s k := by
  induction batch with
  | nil => simp [commit]
  | cons p r ih =>
    obtain ⟨k', v⟩ := p
    simp only [commit, AMap.find_insert, AMap.find_cons]
    by_cases h : k' = k
    · simp [h]
    · simp [h, ih]

theorem abs_commit (cfg : Cfg) (s batch : Store) : abs cfg (commit s batch) = overlay cfg s batch := by
  funext x; simp [abs, overlay, find_commit]

theorem overlay_nil (cfg : Cfg) (s : Store) : overlay cfg s [] = abs cfg s := by
  funext x; simp [overlay, abs]

theorem overlay_insert (cfg : Cfg) (s batch : Store) (mh d : Bytes) :
    overlay cfg s (AMap.insert batch (rk cfg mh) d) = (overlay cfg s batch).set mh (some d) := by
  funext x
  simp only [overlay, M.set, AMap.find_insert]
  by_cases h : x = mh
  · subst h; simp
  · have : rk cfg mh ≠ rk cfg x := fun e => h (rk_injective cfg _ _ e).symm
    simp [h, this]

/-- base-store put on the abstract map -/
def basePut (m : M) (b : Blk) : M := m.set b.cid.mh (some b.data)

theorem overlay_fillBatch (cfg : Cfg) (f : Bytes → Bytes) (s : Store) (bs : List Blk) (batch : Store)
    (h : cfg.writeThrough = true ∨
      (Consistent f (overlay cfg s batch) ∧ Consistent f (abs cfg s) ∧ ∀ b ∈ bs, b.data = f b.cid.mh)) :
    overlay cfg s (fillBatch cfg s bs batch) = bs.foldl basePut (overlay cfg s batch) := by
  induction bs generalizing batch with
  | nil => rfl
  | cons b bs ih =>
    simp only [fillBatch, List.foldl_cons]
    by_cases hw : cfg.writeThrough = true
    · simp only [hw, Bool.not_true, Bool.false_and]
      rw [if_neg (by simp), ih _ (Or.inl hw), overlay_insert]; rfl
    · rcases h with h | ⟨hco, hcs, hb⟩
      · exact absurd h hw
      · have hbd : b.data = f b.cid.mh := hb b (by simp)
        have hrest : ∀ b' ∈ bs, b'.data = f b'.cid.mh := fun b' hb' => hb b' (by simp [hb'])
        cases hf : AMap.find s (rk cfg b.cid.mh) with
        | none =>
          simp only [Option.isSome_none, Bool.and_false]
          rw [if_neg (by simp)]
          have hco' : Consistent f (overlay cfg s (AMap.insert batch (rk cfg b.cid.mh) b.data)) := by
            rw [overlay_insert]; exact consistent_set f _ _ _ hco hbd
          rw [ih _ (Or.inr ⟨hco', hcs, hrest⟩), overlay_insert]; rfl
        | some d =>
          have hw' : cfg.writeThrough = false := by cases h' : cfg.writeThrough <;> simp_all
          simp only [hw', Option.isSome_some, Bool.not_false, Bool.and_self, if_true]
          rw [ih _ (Or.inr ⟨hco, hcs, hrest⟩)]
          -- the skipped block is already what the overlay holds
          have hov : ∃ d', overlay cfg s batch b.cid.mh = some d' := by
            simp only [overlay, hf]
            cases AMap.find batch (rk cfg b.cid.mh) with
            | none => exact ⟨d, rfl⟩
            | some d' => exact ⟨d', rfl⟩
          obtain ⟨d', hd'⟩ := hov
          have : d' = b.data := by rw [hbd]; exact hco _ _ hd'
          subst this
          simp only [basePut]
          rw [set_same _ _ _ hd']

theorem keysWF_fillBatch (cfg : Cfg) (s : Store) (bs : List Blk) (batch : Store) (h : KeysWF cfg batch) :
    KeysWF cfg (fillBatch cfg s bs batch) := by
  induction bs generalizing batch with
  | nil => exact h
  | cons b bs ih =>
    simp only [fillBatch]
    split
    · exact ih batch h
    · exact ih _ (keysWF_insert cfg batch _ _ h)

theorem keysWF_commit (cfg : Cfg) (s batch : Store) (hs : KeysWF cfg s) (hb : KeysWF cfg batch) :
    KeysWF cfg (commit s batch) := by
  induction batch with
  | nil => exact hs
  | cons p r ih =>
    obtain ⟨k, v⟩ := p
    have hk : ∃ mh, k = rk cfg mh := hb k (by simp [AMap.keys])
    obtain ⟨mh, rfl⟩ := hk
    simp only [commit]
    apply keysWF_insert
    apply ih
    intro k' hk'
    exact hb k' (by simp only [AMap.keys, List.map_cons, List.mem_cons] at hk' ⊢; exact Or.inr hk')

theorem abs_bsPutMany (cfg : Cfg) (f : Bytes → Bytes) (s : Store) (bs : List Blk)
    (h : cfg.writeThrough = true ∨ (Consistent f (abs cfg s) ∧ ∀ b ∈ bs, b.data = f b.cid.mh)) :
    abs cfg (bsPutMany cfg s bs) = bs.foldl basePut (abs cfg s) := by
  have gen : abs cfg (commit s (fillBatch cfg s bs [])) = bs.foldl basePut (abs cfg s) := by
    rw [abs_commit, overlay_fillBatch cfg f s bs [] ?_, overlay_nil]
    rcases h with h | ⟨hc, hb⟩
    · exact Or.inl h
    · exact Or.inr ⟨by rw [overlay_nil]; exact hc, hc, hb⟩
  unfold bsPutMany
  split
  · rename_i b
    rw [abs_bsPut cfg f s b]
    · rfl
    · rcases h with h | ⟨hc, hb⟩
      · exact Or.inl h
      · exact Or.inr ⟨hc, hb b (by simp)⟩
  · exact gen

theorem keysWF_bsPutMany (cfg : Cfg) (s : Store) (bs : List Blk) (h : KeysWF cfg s) :
    KeysWF cfg (bsPutMany cfg s bs) := by
  unfold bsPutMany
  split
  · exact keysWF_bsPut cfg s _ h
  · exact keysWF_commit cfg s _ h (keysWF_fillBatch cfg s bs [] (keysWF_nil cfg))

theorem consistent_foldl_basePut (f : Bytes → Bytes) (bs : List Blk) (m : M) (hm : Consistent f m)
    (hb : ∀ b ∈ bs, b.data = f b.cid.mh) : Consistent f (bs.foldl basePut m) := by
  induction bs generalizing m with
  | nil => exact hm
  | cons b bs ih =>
    simp only [List.foldl_cons]
    exact ih _ (consistent_set f m _ _ hm (hb b (by simp))) (fun b' hb' => hb b' (by simp [hb']))

/-! ### AllKeysChan -/

theorem mem_bsAllKeys (cfg : Cfg) (s : Store) (hk : KeysWF cfg s) (mh : Bytes) :
    mh ∈ bsAllKeys cfg s ↔ ((abs cfg s mh).isSome = true ∧ (cfg.noPrefix = true ∨ mh ≠ [])) := by
  simp only [bsAllKeys, List.mem_filterMap, abs, ← AMap.mem_keys_iff]
  by_cases hn : cfg.noPrefix = true
  · simp only [queryKeys, hn, if_true, true_or, and_true]
    constructor
    · rintro ⟨k, hk1, hk2⟩
      obtain ⟨mh', rfl⟩ := hk k hk1
      have e : rk cfg mh' = dsKey mh' := by rw [rk_eq]; simp [hn]
      rw [e, binaryFromDsKey_dsKey] at hk2
      cases hk2; exact hk1
    · intro h
      refine ⟨rk cfg mh, h, ?_⟩
      have e : rk cfg mh = dsKey mh := by rw [rk_eq]; simp [hn]
      rw [e, binaryFromDsKey_dsKey]
  · have hn' : cfg.noPrefix = false := by cases h' : cfg.noPrefix <;> simp_all
    simp only [queryKeys, hn', Bool.false_eq_true, if_false, false_or, List.mem_map, List.mem_filter]
    constructor
    · rintro ⟨k, ⟨k0, ⟨hk1, hk2⟩, rfl⟩, hk3⟩
      obtain ⟨mh', rfl⟩ := hk k0 hk1
      have e := rk_eq cfg mh'
      simp only [hn', Bool.false_eq_true, if_false] at e
      by_cases hm : mh' = []
      · simp only [hm, if_true] at e
        rw [hm, e] at hk2
        exact absurd hk2 (by decide)
      · simp only [hm, if_false] at e
        rw [e, List.drop_left, binaryFromDsKey_dsKey] at hk3
        cases hk3
        exact ⟨hk1, hm⟩
    · rintro ⟨h1, hm⟩
      have e := rk_eq cfg mh
      simp only [hn', Bool.false_eq_true, if_false, hm] at e
      refine ⟨dsKey mh, ⟨rk cfg mh, ⟨h1, ?_⟩, ?_⟩, binaryFromDsKey_dsKey mh⟩
      · rw [e, blocksSlash_eq, blocksPrefix_eq, dsKey]; simp [List.isPrefixOf]
      · rw [e, List.drop_left]

/-! ### one step of the composed store simulates one step of the abstract map -/

/-- per-operation hypothesis: WriteThrough, or the map is `f`-consistent and every block of the
operation that reaches the base store is honest -/
def StepOk (cfg : Cfg) (f : Bytes → Bytes) (m : M) (op : Op) : Prop :=
  cfg.writeThrough = true ∨
    (Consistent f m ∧ ∀ b ∈ op.blks, isId cfg b.cid = none → b.data = f b.cid.mh)

theorem foldl_specPut_noId (cfg : Cfg) (h : cfg.idWrap = false) (bs : List Blk) (m : M) :
    bs.foldl (specPut cfg) m = bs.foldl basePut m := by
  induction bs generalizing m with
  | nil => rfl
  | cons b bs ih => simp only [List.foldl_cons, ih]; simp [specPut, isId, h, basePut]

theorem foldl_specPut_id (cfg : Cfg) (h : cfg.idWrap = true) (bs : List Blk) (m : M) :
    bs.foldl (specPut cfg) m = (bs.filter fun b => (extractContents b.cid).isNone).foldl basePut m := by
  induction bs generalizing m with
  | nil => rfl
  | cons b bs ih =>
    simp only [List.foldl_cons, List.filter_cons, ih]
    cases he : extractContents b.cid with
    | none => simp [specPut, isId, h, he, basePut]
    | some d => simp [specPut, isId, h, he]

theorem consistent_specNext (cfg : Cfg) (f : Bytes → Bytes) (m : M) (op : Op) (hm : Consistent f m)
    (hb : ∀ b ∈ op.blks, isId cfg b.cid = none → b.data = f b.cid.mh) :
    Consistent f (specNext cfg m op) := by
  have hput : ∀ (m : M) (b : Blk), Consistent f m → (isId cfg b.cid = none → b.data = f b.cid.mh) →
      Consistent f (specPut cfg m b) := by
    intro m b hm hb
    unfold specPut
    cases hi : isId cfg b.cid with
    | none => exact consistent_set f m _ _ hm (hb hi)
    | some d => exact hm
  cases op with
  | put b => exact hput m b hm (hb b (by simp [Op.blks]))
  | putMany bs =>
    simp only [specNext]
    simp only [Op.blks] at hb
    induction bs generalizing m with
    | nil => exact hm
    | cons b bs ih =>
      simp only [List.foldl_cons]
      exact ih _ (hput m b hm (hb b (by simp))) (fun b' hb' => hb b' (by simp [hb']))
  | delete c =>
    simp only [specNext]
    cases isId cfg c with
    | none => exact consistent_unset f m _ hm
    | some d => exact hm
  | get c => exact hm
  | has c => exact hm
  | getSize c => exact hm
  | view c => exact hm
  | allKeys => exact hm

theorem bsGet_eq (cfg : Cfg) (s : Store) (c : Cid) (h : isId cfg c = none) :
    bsGet cfg s c = specGet cfg (abs cfg s) c := by
  simp only [bsGet, specGet, h, abs]; rfl

theorem step_sim (cfg : Cfg) (f : Bytes → Bytes) (s : Store) (op : Op) (hk : KeysWF cfg s)
    (h : StepOk cfg f (abs cfg s) op) :
    OutOk cfg (abs cfg s) op (step cfg s op).2 ∧
      abs cfg (step cfg s op).1 = specNext cfg (abs cfg s) op ∧ KeysWF cfg (step cfg s op).1 := by
  have hall : OutOk cfg (abs cfg s) .allKeys (.keys (bsAllKeys cfg s)) :=
    ⟨_, rfl, mem_bsAllKeys cfg s hk⟩
  cases hi : cfg.idWrap with
  | false =>
    have hid : ∀ c, isId cfg c = none := fun c => by simp [isId, hi]
    simp only [step, hi, Bool.false_eq_true, if_false]
    cases op with
    | put b =>
      refine ⟨rfl, ?_, keysWF_bsPut cfg s b hk⟩
      simp only [bsStep, specNext, specPut, hid]
      apply abs_bsPut cfg f
      rcases h with h | ⟨hc, hb⟩
      · exact Or.inl h
      · exact Or.inr ⟨hc, hb b (by simp [Op.blks]) (hid _)⟩
    | putMany bs =>
      refine ⟨rfl, ?_, keysWF_bsPutMany cfg s bs hk⟩
      simp only [bsStep, specNext, foldl_specPut_noId cfg hi]
      apply abs_bsPutMany cfg f
      rcases h with h | ⟨hc, hb⟩
      · exact Or.inl h
      · exact Or.inr ⟨hc, fun b hb' => hb b (by simpa [Op.blks] using hb') (hid _)⟩
    | delete c =>
      refine ⟨rfl, ?_, keysWF_erase cfg s _ hk⟩
      simp only [bsStep, bsDelete, specNext, hid, abs_erase]
    | get c => exact ⟨by simp [OutOk, bsStep, specOut, bsGet_eq cfg s c (hid c)], rfl, hk⟩
    | has c => exact ⟨by simp [OutOk, bsStep, specOut, hid, bsHas, abs], rfl, hk⟩
    | getSize c =>
      refine ⟨?_, rfl, hk⟩
      simp only [OutOk, bsStep, specOut, hid, bsGetSize, abs]; rfl
    | view c => exact ⟨by simp [OutOk, bsStep, specOut, hi], rfl, hk⟩
    | allKeys => exact ⟨hall, rfl, hk⟩
  | true =>
    have hid : ∀ c, isId cfg c = extractContents c := fun c => by simp [isId, hi]
    simp only [step, hi, if_true]
    cases op with
    | put b =>
      simp only [idStep, OutOk, specOut, specNext, specPut, hid]
      cases he : extractContents b.cid with
      | some d => exact ⟨rfl, rfl, hk⟩
      | none =>
        refine ⟨rfl, ?_, keysWF_bsPut cfg s b hk⟩
        apply abs_bsPut cfg f
        rcases h with h | ⟨hc, hb⟩
        · exact Or.inl h
        · exact Or.inr ⟨hc, hb b (by simp [Op.blks]) (by rw [hid, he])⟩
    | putMany bs =>
      refine ⟨rfl, ?_, keysWF_bsPutMany cfg s _ hk⟩
      simp only [idStep, specNext, foldl_specPut_id cfg hi]
      apply abs_bsPutMany cfg f
      rcases h with h | ⟨hc, hb⟩
      · exact Or.inl h
      · refine Or.inr ⟨hc, fun b hb' => ?_⟩
        simp only [List.mem_filter, Option.isNone_iff_eq_none] at hb'
        exact hb b (by simpa [Op.blks] using hb'.1) (by rw [hid, hb'.2])
    | delete c =>
      simp only [idStep, OutOk, specOut, specNext, hid]
      cases he : extractContents c with
      | some d => exact ⟨rfl, rfl, hk⟩
      | none => exact ⟨rfl, by simp only [bsDelete, abs_erase], keysWF_erase cfg s _ hk⟩
    | get c =>
      refine ⟨?_, rfl, hk⟩
      simp only [idStep, OutOk, specOut, idGet, specGet, hid]
      cases he : extractContents c with
      | some d => rfl
      | none => simp only [bsGet, abs]; rfl
    | has c =>
      simp only [idStep, OutOk, specOut, hid]
      cases he : extractContents c with
      | some d => exact ⟨rfl, rfl, hk⟩
      | none => exact ⟨by simp [bsHas, abs], rfl, hk⟩
    | getSize c =>
      simp only [idStep, OutOk, specOut, hid]
      cases he : extractContents c with
      | some d => exact ⟨rfl, rfl, hk⟩
      | none => exact ⟨by simp only [bsGetSize, abs]; rfl, rfl, hk⟩
    | view c =>
      refine ⟨?_, rfl, hk⟩
      simp only [idStep, OutOk, specOut, idGet, specGet, hid, hi, if_true]
      cases he : extractContents c with
      | some d => rfl
      | none => simp only [bsGet, abs]; rfl
    | allKeys => exact ⟨hall, rfl, hk⟩

/-! ### whole runs -/

theorem run_sim (cfg : Cfg) (f : Bytes → Bytes) (s : Store) (ops : List Op) (hk : KeysWF cfg s)
    (h : cfg.writeThrough = true ∨ (Consistent f (abs cfg s) ∧ OpsHonest cfg f ops)) :
    Refines cfg (abs cfg s) ops (run cfg s ops).2 ∧
      abs cfg (run cfg s ops).1 = specRun cfg (abs cfg s) ops ∧ KeysWF cfg (run cfg s ops).1 := by
  induction ops generalizing s with
  | nil => exact ⟨trivial, rfl, hk⟩
  | cons op ops ih =>
    have hstep : StepOk cfg f (abs cfg s) op := by
      rcases h with h | ⟨hc, hb⟩
      · exact Or.inl h
      · exact Or.inr ⟨hc, hb op (by simp)⟩
    obtain ⟨h1, h2, h3⟩ := step_sim cfg f s op hk hstep
    have h' : cfg.writeThrough = true ∨
        (Consistent f (abs cfg (step cfg s op).1) ∧ OpsHonest cfg f ops) := by
      rcases h with h | ⟨hc, hb⟩
      · exact Or.inl h
      · refine Or.inr ⟨?_, fun op' hop' => hb op' (by simp [hop'])⟩
        rw [h2]
        exact consistent_specNext cfg f _ op hc (hb op (by simp))
    obtain ⟨i1, i2, i3⟩ := ih (step cfg s op).1 h3 h'
    simp only [run, Refines, specRun, List.foldl_cons]
    rw [h2] at i1 i2
    exact ⟨⟨h1, i1⟩, i2, i3⟩

/-! ### which keys an operation can add -/

theorem extractContents_congr (c1 c2 : Cid) (h : c1.mh = c2.mh) : extractContents c1 = extractContents c2 := by
  simp [extractContents, h]

theorem keys_bsPut (cfg : Cfg) (s : Store) (b : Blk) :
    ∀ k ∈ AMap.keys (bsPut cfg s b), k ∈ AMap.keys s ∨ k = rk cfg b.cid.mh := by
  intro k hk
  unfold bsPut at hk
  dsimp only at hk
  split at hk
  · exact Or.inl hk
  · rcases (AMap.mem_keys_insert _ _ _ _).mp hk with e | hk
    · exact Or.inr e
    · exact Or.inl hk

theorem keys_fillBatch (cfg : Cfg) (s : Store) (bs : List Blk) (batch : Store) :
    ∀ k ∈ AMap.keys (fillBatch cfg s bs batch), k ∈ AMap.keys batch ∨ ∃ b ∈ bs, k = rk cfg b.cid.mh := by
  induction bs generalizing batch with
  | nil => intro k hk; exact Or.inl hk
  | cons b bs ih =>
    intro k hk
    simp only [fillBatch] at hk
    split at hk
    · rcases ih batch k hk with h | ⟨b', hb', e⟩
      · exact Or.inl h
      · exact Or.inr ⟨b', by simp [hb'], e⟩
    · rcases ih _ k hk with h | ⟨b', hb', e⟩
      · rcases (AMap.mem_keys_insert _ _ _ _).mp h with e | h
        · exact Or.inr ⟨b, by simp, e⟩
        · exact Or.inl h
      · exact Or.inr ⟨b', by simp [hb'], e⟩

theorem keys_commit (s batch : Store) :
    ∀ k ∈ AMap.keys (commit s batch), k ∈ AMap.keys s ∨ k ∈ AMap.keys batch := by
  induction batch with
  | nil => intro k hk; exact Or.inl hk
  | cons p r ih =>
    obtain ⟨k', v⟩ := p
    intro k hk
    simp only [commit] at hk
    rcases (AMap.mem_keys_insert _ _ _ _).mp hk with e | hk
    · exact Or.inr (by simp [AMap.keys, e])
    · rcases ih k hk with h | h
      · exact Or.inl h
      · exact Or.inr (by simp only [AMap.keys, List.map_cons, List.mem_cons] at h ⊢; exact Or.inr h)

theorem keys_bsPutMany (cfg : Cfg) (s : Store) (bs : List Blk) :
    ∀ k ∈ AMap.keys (bsPutMany cfg s bs), k ∈ AMap.keys s ∨ ∃ b ∈ bs, k = rk cfg b.cid.mh := by
  intro k hk
  unfold bsPutMany at hk
  split at hk
  · rename_i b
    rcases keys_bsPut cfg s b k hk with h | e
    · exact Or.inl h
    · exact Or.inr ⟨b, by simp, e⟩
  · rcases keys_commit s _ k hk with h | h
    · exact Or.inl h
    · rcases keys_fillBatch cfg s bs [] k h with h | h
      · simp [AMap.keys] at h
      · exact Or.inr h

/-- a key present after a step was present before, or is the key of a block of the operation that
the identity layer let through -/
theorem keys_step (cfg : Cfg) (s : Store) (op : Op) :
    ∀ k ∈ AMap.keys (step cfg s op).1,
      k ∈ AMap.keys s ∨ ∃ b ∈ op.blks, isId cfg b.cid = none ∧ k = rk cfg b.cid.mh := by
  intro k hk
  cases hi : cfg.idWrap with
  | false =>
    have hid : ∀ c, isId cfg c = none := fun c => by simp [isId, hi]
    simp only [step, hi, Bool.false_eq_true, if_false] at hk
    cases op with
    | put b =>
      rcases keys_bsPut cfg s b k hk with h | e
      · exact Or.inl h
      · exact Or.inr ⟨b, by simp [Op.blks], hid _, e⟩
    | putMany bs =>
      rcases keys_bsPutMany cfg s bs k hk with h | ⟨b, hb, e⟩
      · exact Or.inl h
      · exact Or.inr ⟨b, by simpa [Op.blks] using hb, hid _, e⟩
    | delete c => exact Or.inl ((AMap.mem_keys_erase _ _ _).mp hk).2
    | get c => exact Or.inl hk
    | has c => exact Or.inl hk
    | getSize c => exact Or.inl hk
    | view c => exact Or.inl hk
    | allKeys => exact Or.inl hk
  | true =>
    have hid : ∀ c, isId cfg c = extractContents c := fun c => by simp [isId, hi]
    simp only [step, hi, if_true] at hk
    cases op with
    | put b =>
      simp only [idStep] at hk
      cases he : extractContents b.cid with
      | some d => rw [he] at hk; exact Or.inl hk
      | none =>
        rw [he] at hk
        rcases keys_bsPut cfg s b k hk with h | e
        · exact Or.inl h
        · exact Or.inr ⟨b, by simp [Op.blks], by rw [hid, he], e⟩
    | putMany bs =>
      simp only [idStep] at hk
      rcases keys_bsPutMany cfg s _ k hk with h | ⟨b, hb, e⟩
      · exact Or.inl h
      · simp only [List.mem_filter, Option.isNone_iff_eq_none] at hb
        exact Or.inr ⟨b, by simpa [Op.blks] using hb.1, by rw [hid, hb.2], e⟩
    | delete c =>
      simp only [idStep] at hk
      cases he : extractContents c with
      | some d => rw [he] at hk; exact Or.inl hk
      | none => rw [he] at hk; exact Or.inl ((AMap.mem_keys_erase _ _ _).mp hk).2
    | get c => exact Or.inl hk
    | has c =>
      simp only [idStep] at hk
      cases he : extractContents c <;> rw [he] at hk <;> exact Or.inl hk
    | getSize c =>
      simp only [idStep] at hk
      cases he : extractContents c <;> rw [he] at hk <;> exact Or.inl hk
    | view c => exact Or.inl hk
    | allKeys => exact Or.inl hk

theorem keysWF_step (cfg : Cfg) (s : Store) (op : Op) (hk : KeysWF cfg s) : KeysWF cfg (step cfg s op).1 := by
  intro k h
  rcases keys_step cfg s op k h with h | ⟨b, _, _, e⟩
  · exact hk k h
  · exact ⟨_, e⟩

theorem keysWF_run (cfg : Cfg) (s : Store) (ops : List Op) (hk : KeysWF cfg s) : KeysWF cfg (run cfg s ops).1 := by
  induction ops generalizing s with
  | nil => exact hk
  | cons op ops ih => simp only [run]; exact ih _ (keysWF_step cfg s op hk)

/-- with the identity layer, no run ever stores a key of an identity multihash -/
theorem no_identity_key_run (cfg : Cfg) (hi : cfg.idWrap = true) (s : Store) (ops : List Op) (c : Cid)
    (d : Bytes) (hc : extractContents c = some d) (hs : rk cfg c.mh ∉ AMap.keys s) :
    rk cfg c.mh ∉ AMap.keys (run cfg s ops).1 := by
  induction ops generalizing s with
  | nil => exact hs
  | cons op ops ih =>
    simp only [run]
    apply ih
    intro hk
    rcases keys_step cfg s op _ hk with h | ⟨b, _, hb, e⟩
    · exact hs h
    · have hm := rk_injective cfg _ _ e
      have := extractContents_congr c b.cid hm
      rw [hc] at this
      simp [isId, hi, ← this] at hb

/-! ### the Provider option -/

/-- every multihash announced by an operation is the multihash of one of its blocks that the identity
layer let through -/
theorem provided_sound (cfg : Cfg) (s : Store) (op : Op) :
    ∀ call ∈ provided cfg s op, ∀ mh ∈ call, ∃ b ∈ op.blks, isId cfg b.cid = none ∧ mh = b.cid.mh := by
  intro call hc mh hm
  unfold provided at hc
  cases hp : cfg.provider with
  | false => simp [hp] at hc
  | true =>
    simp only [hp, Bool.not_true, Bool.false_eq_true, if_false] at hc
    have hput : ∀ b : Blk, call ∈ bsProvidedPut cfg s b → mh = b.cid.mh := by
      intro b hb
      unfold bsProvidedPut at hb
      split at hb
      · simp at hb
      · simp at hb; subst hb; simpa using hm
    cases op with
    | put b =>
      simp only at hc
      cases hi : cfg.idWrap with
      | false =>
        simp only [hi, Bool.false_and, Bool.false_eq_true, if_false] at hc
        exact ⟨b, by simp [Op.blks], by simp [isId, hi], hput b hc⟩
      | true =>
        cases he : extractContents b.cid with
        | some d => simp [hi, he] at hc
        | none =>
          simp only [hi, he, Option.isSome_none, Bool.and_false, Bool.false_eq_true, if_false] at hc
          exact ⟨b, by simp [Op.blks], by simp [isId, hi, he], hput b hc⟩
    | putMany bs =>
      simp only at hc
      have key : ∀ bs' : List Blk, call ∈ bsProvidedPutMany cfg s bs' → ∃ b ∈ bs', mh = b.cid.mh := by
        intro bs' h
        unfold bsProvidedPutMany at h
        split at h
        · rename_i b; exact ⟨b, by simp, hput b h⟩
        · simp at h; subst h
          obtain ⟨b, hb, e⟩ := List.mem_map.mp hm
          exact ⟨b, hb, e.symm⟩
      cases hi : cfg.idWrap with
      | false =>
        simp only [hi, Bool.false_eq_true, if_false] at hc
        obtain ⟨b, hb, e⟩ := key bs hc
        exact ⟨b, by simpa [Op.blks] using hb, by simp [isId, hi], e⟩
      | true =>
        simp only [hi, if_true] at hc
        obtain ⟨b, hb, e⟩ := key _ hc
        simp only [List.mem_filter, Option.isNone_iff_eq_none] at hb
        exact ⟨b, by simpa [Op.blks] using hb.1, by simp [isId, hi, hb.2], e⟩
    | delete c => simp at hc
    | get c => simp at hc
    | has c => simp at hc
    | getSize c => simp at hc
    | view c => simp at hc
    | allKeys => simp at hc

end C01
