import BoxoModel.Lib.BaseN
import BoxoModel.Lib.AMap
/-
C01 — blockstore/blockstore.go + blockstore/idstore.go + datastore/dshelp/key.go: executable model.

State = contents of the backing `ds.Batching` datastore (a go-datastore `MapDatastore` in the tie):
raw datastore key (characters) ↦ value bytes.  Every blockstore operation is transcribed branch for
branch:
  * `dshelp.MultihashToDsKey mh = "/" ++ base32-nopad(mh)`                        → `dsKey`
  * `namespace.Wrap(d, "/blocks")` unless `NoPrefix` (keytransform.PrefixTransform: keys that already
    are below "/blocks/" are left alone, "/" becomes "/blocks")                     → `rawKey`
  * `Get`: undefined CID ⇒ not found, before any datastore access
  * `Put`: `!writeThrough` ⇒ `Has` first, skip the write when present
  * `PutMany`: one block ⇒ `Put`; otherwise a batch (same skip rule, checked against the datastore,
    not against the batch), then `Commit`
  * `AllKeysChan`: key-only query (with the namespace: prefix filter "/blocks/" + strip), keys that
    do not base32-decode are skipped, result CIDv1-raw (only the multihash is observable)
  * idstore: `extractContents` (identity multihash) short-circuits every operation *before* the
    inner call; `View` falls back to `Get` because `*blockstore` is not a `Viewer`.
A CID is `(defined, version, codec, multihash bytes)`; no operation looks at version or codec.
Core-only.
-/
namespace C01
open BaseN

abbrev Key := List Char
abbrev Store := AMap.Map Key Bytes

structure Cfg where
  writeThrough : Bool
  noPrefix : Bool
  idWrap : Bool
  /-- the `Provider(p)` option is set -/
  provider : Bool := false
deriving Repr, DecidableEq

structure Cid where
  defined : Bool
  ver : Nat
  codec : Nat
  mh : Bytes
deriving Repr, DecidableEq

structure Blk where
  cid : Cid
  data : Bytes
deriving Repr, DecidableEq

inductive Op where
  | put (b : Blk)
  | putMany (bs : List Blk)
  | delete (c : Cid)
  | get (c : Cid)
  | has (c : Cid)
  | getSize (c : Cid)
  | view (c : Cid)
  | allKeys
deriving Repr

inductive Out where
  | ok
  | data (d : Bytes)
  | notfound
  | bool (b : Bool)
  | size (n : Nat)
  | keys (l : List Bytes)
  | noview
deriving Repr, DecidableEq

/-! ### keys -/

/-- `dshelp.MultihashToDsKey` -/
def dsKey (mh : Bytes) : Key := '/' :: encode b32 mh

/-- `base32.RawStdEncoding.DecodeString` of multiformats/go-base32 on ARBITRARY input (foreign keys in
the datastore): '\r' and '\n' are stripped first; both letter cases are accepted; any other character
outside the alphabet is an error; a trailing group of 3 or 6 characters yields no bytes at all (the
`switch dlen` has no case for them), other left-over bits are ignored. -/
def decodeGo32 (s : Key) : Option Bytes :=
  let t := s.filter fun c => c ≠ '\r' ∧ c ≠ '\n'
  let j := t.length % 8
  match mapOpt b32.decDigit t with
  | none => none
  | some _ => if j = 3 ∨ j = 6 then decode b32 (t.take (t.length - j)) else decode b32 t

/-- `dshelp.BinaryFromDsKey`: `base32.RawStdEncoding.DecodeString(k.String()[1:])` -/
def binaryFromDsKey (k : Key) : Option Bytes := decodeGo32 (k.drop 1)

def blocksPrefix : Key := "/blocks".toList
def blocksSlash : Key := "/blocks/".toList

/-- `PrefixTransform{"/blocks"}.ConvertKey` (identity when `NoPrefix`) -/
def rawKey (cfg : Cfg) (k : Key) : Key :=
  if cfg.noPrefix then k
  else if blocksSlash.isPrefixOf k then k        -- Prefix.IsAncestorOf(k)
  else if k = ['/'] then blocksPrefix            -- Key.Child with k2 == "/"
  else blocksPrefix ++ k

def rk (cfg : Cfg) (mh : Bytes) : Key := rawKey cfg (dsKey mh)

/-- keys a `Query{KeysOnly}` through the wrapper returns, already inverted (`InvertKey`) -/
def queryKeys (cfg : Cfg) (s : Store) : List Key :=
  if cfg.noPrefix then AMap.keys s
  else ((AMap.keys s).filter fun k => blocksSlash.isPrefixOf k).map fun k => k.drop blocksPrefix.length

/-! ### multihash parsing (go-varint `FromUvarint`, go-multihash `Decode`) -/

def uvarintGo : Nat → Nat → Bytes → Option (Nat × Bytes)
  | _, _, [] => none                                            -- ErrUnderflow
  | i, x, b :: rest =>
    if (i == 8 && b ≥ 0x80) || i ≥ 9 then none                   -- ErrOverflow
    else if b < 0x80 then
      if b == 0 && i > 0 then none                              -- ErrNotMinimal
      else some (x + b.toNat * 2 ^ (7 * i), rest)
    else uvarintGo (i + 1) (x + (b.toNat % 128) * 2 ^ (7 * i)) rest

def uvarint (bs : Bytes) : Option (Nat × Bytes) := uvarintGo 0 0 bs

/-- `mh.Decode`: (code, digest) -/
def mhDecode (mh : Bytes) : Option (Nat × Bytes) :=
  if mh.length < 2 then none
  else match uvarint mh with
    | none => none
    | some (code, r1) =>
      match uvarint r1 with
      | none => none
      | some (len, r2) =>
        if len > 2147483647 then none
        else if len > r2.length then none
        else if mh.length ≠ (mh.length - r2.length) + len then none   -- ErrInconsistentLen
        else some (code, r2.take len)

/-- idstore `extractContents`.  The `k.Prefix().MhType != IDENTITY` pre-check reads the same first
varint as `mh.Decode(k.Hash())` (for a CIDv0 it says sha2-256 and the multihash starts 0x12), so the
result is decided by `mh.Decode` alone. -/
def extractContents (c : Cid) : Option Bytes :=
  match mhDecode c.mh with
  | some (0, digest) => some digest
  | _ => none

/-! ### blockstore.go -/

def bsGet (cfg : Cfg) (s : Store) (c : Cid) : Out :=
  if !c.defined then .notfound
  else match AMap.find s (rk cfg c.mh) with
    | none => .notfound
    | some d => .data d

def bsPut (cfg : Cfg) (s : Store) (b : Blk) : Store :=
  let k := rk cfg b.cid.mh
  if !cfg.writeThrough && (AMap.find s k).isSome then s
  else AMap.insert s k b.data

/-- the loop of `PutMany` filling the batch (`ds.BasicBatch`: a map, later `Put`s of a key replace
earlier ones); the existence check looks at the datastore, not at the batch -/
def fillBatch (cfg : Cfg) (s : Store) : List Blk → Store → Store
  | [], batch => batch
  | b :: bs, batch =>
    let k := rk cfg b.cid.mh
    if !cfg.writeThrough && (AMap.find s k).isSome then fillBatch cfg s bs batch
    else fillBatch cfg s bs (AMap.insert batch k b.data)

/-- `Commit`: applies every batched put (Go iterates its map in random order; the batch has one
entry per key, so every order gives the same datastore contents) -/
def commit (s : Store) : Store → Store
  | [] => s
  | (k, v) :: r => AMap.insert (commit s r) k v

def bsPutMany (cfg : Cfg) (s : Store) (bs : List Blk) : Store :=
  match bs with
  | [b] => bsPut cfg s b
  | _ => commit s (fillBatch cfg s bs [])

def bsHas (cfg : Cfg) (s : Store) (c : Cid) : Bool := (AMap.find s (rk cfg c.mh)).isSome

def bsGetSize (cfg : Cfg) (s : Store) (c : Cid) : Out :=
  match AMap.find s (rk cfg c.mh) with
  | none => .notfound
  | some d => .size d.length

def bsDelete (cfg : Cfg) (s : Store) (c : Cid) : Store := AMap.erase s (rk cfg c.mh)

def bsAllKeys (cfg : Cfg) (s : Store) : List Bytes :=
  (queryKeys cfg s).filterMap binaryFromDsKey

def bsStep (cfg : Cfg) (s : Store) : Op → Store × Out
  | .put b => (bsPut cfg s b, .ok)
  | .putMany bs => (bsPutMany cfg s bs, .ok)
  | .delete c => (bsDelete cfg s c, .ok)
  | .get c => (s, bsGet cfg s c)
  | .has c => (s, .bool (bsHas cfg s c))
  | .getSize c => (s, bsGetSize cfg s c)
  | .view _ => (s, .noview)              -- `*blockstore` does not implement `Viewer`
  | .allKeys => (s, .keys (bsAllKeys cfg s))

/-! ### idstore.go -/

def idGet (cfg : Cfg) (s : Store) (c : Cid) : Out :=
  match extractContents c with
  | some d => .data d
  | none => bsGet cfg s c

def idStep (cfg : Cfg) (s : Store) : Op → Store × Out
  | .put b =>
    match extractContents b.cid with
    | some _ => (s, .ok)
    | none => (bsPut cfg s b, .ok)
  | .putMany bs =>
    (bsPutMany cfg s (bs.filter fun b => (extractContents b.cid).isNone), .ok)
  | .delete c =>
    match extractContents c with
    | some _ => (s, .ok)
    | none => (bsDelete cfg s c, .ok)
  | .get c => (s, idGet cfg s c)
  | .has c =>
    match extractContents c with
    | some _ => (s, .bool true)
    | none => (s, .bool (bsHas cfg s c))
  | .getSize c =>
    match extractContents c with
    | some d => (s, .size d.length)
    | none => (s, bsGetSize cfg s c)
  | .view c => (s, idGet cfg s c)        -- viewer == nil: View = Get + callback
  | .allKeys => (s, .keys (bsAllKeys cfg s))

/-! ### the Provider option (`StartProviding(false, hashes...)` calls made by one operation) -/

/-- `Put`: one call with the block's multihash, only when the datastore write happened -/
def bsProvidedPut (cfg : Cfg) (s : Store) (b : Blk) : List (List Bytes) :=
  if !cfg.writeThrough && (AMap.find s (rk cfg b.cid.mh)).isSome then [] else [[b.cid.mh]]

/-- `PutMany`: the one-block fast path is `Put`; the batch path makes ONE call with the multihashes
of ALL blocks passed in — also of those whose write was skipped, and also when there are none -/
def bsProvidedPutMany (cfg : Cfg) (s : Store) (bs : List Blk) : List (List Bytes) :=
  match bs with
  | [b] => bsProvidedPut cfg s b
  | _ => [bs.map (·.cid.mh)]

/-- calls received by the provider during `op` in state `s` (the identity layer filters first) -/
def provided (cfg : Cfg) (s : Store) (op : Op) : List (List Bytes) :=
  if !cfg.provider then []
  else match op with
    | .put b =>
      if cfg.idWrap && (extractContents b.cid).isSome then [] else bsProvidedPut cfg s b
    | .putMany bs =>
      bsProvidedPutMany cfg s (if cfg.idWrap then bs.filter fun b => (extractContents b.cid).isNone else bs)
    | _ => []

/-- `AllKeysChanWithErr` whose consumer stops (context cancelled) after the producer delivered `j`
keys: the keys delivered, and whether the error function reports an error (it does exactly when the
enumeration was cut short; `j ≥` number of keys = ran to completion) -/
def bsAllKeysCut (cfg : Cfg) (s : Store) (j : Nat) : List Bytes × Bool :=
  ((bsAllKeys cfg s).take j, decide (j < (bsAllKeys cfg s).length))

def step (cfg : Cfg) (s : Store) (op : Op) : Store × Out :=
  if cfg.idWrap then idStep cfg s op else bsStep cfg s op

def run (cfg : Cfg) (s : Store) : List Op → Store × List Out
  | [] => (s, [])
  | op :: ops =>
    let r := step cfg s op
    let r' := run cfg r.1 ops
    (r'.1, r.2 :: r'.2)

end C01
