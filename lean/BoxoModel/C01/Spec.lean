import BoxoModel.C01.Model
/-
C01 — the abstract specification the blockstore model is compared with: a map from multihash bytes
to block bytes (`M`), "last stored wins", plus the identity layer when `idWrap`.
-/
namespace C01
open BaseN

/-- the abstract block map -/
abbrev M := Bytes → Option Bytes

def M.set (m : M) (mh : Bytes) (v : Option Bytes) : M := fun x => if x = mh then v else m x

/-- abstraction function: what the datastore holds under the key of a multihash -/
def abs (cfg : Cfg) (s : Store) : M := fun mh => AMap.find s (rk cfg mh)

/-- the inlined bytes of a CID that the identity layer answers itself (none without `idWrap`) -/
def isId (cfg : Cfg) (c : Cid) : Option Bytes := if cfg.idWrap then extractContents c else none

def specPut (cfg : Cfg) (m : M) (b : Blk) : M :=
  match isId cfg b.cid with
  | some _ => m                                   -- never written
  | none => m.set b.cid.mh (some b.data)          -- last stored wins

def specNext (cfg : Cfg) (m : M) : Op → M
  | .put b => specPut cfg m b
  | .putMany bs => bs.foldl (specPut cfg) m
  | .delete c =>
    match isId cfg c with
    | some _ => m
    | none => m.set c.mh none
  | _ => m

def specRun (cfg : Cfg) (m : M) (ops : List Op) : M := ops.foldl (specNext cfg) m

def specGet (cfg : Cfg) (m : M) (c : Cid) : Out :=
  match isId cfg c with
  | some d => .data d                              -- always present, inlined bytes
  | none =>
    if !c.defined then .notfound                   -- the undefined CID is never found by Get
    else match m c.mh with
      | none => .notfound
      | some d => .data d

/-- expected output of every operation except `allKeys` (which returns a set, see `OutOk`) -/
def specOut (cfg : Cfg) (m : M) : Op → Out
  | .put _ => .ok
  | .putMany _ => .ok
  | .delete _ => .ok
  | .get c => specGet cfg m c
  | .has c =>
    match isId cfg c with
    | some _ => .bool true
    | none => .bool (m c.mh).isSome
  | .getSize c =>
    match isId cfg c with
    | some d => .size d.length
    | none =>
      match m c.mh with
      | none => .notfound
      | some d => .size d.length
  | .view c => if cfg.idWrap then specGet cfg m c else .noview
  | .allKeys => .keys []

/-- the key set `AllKeysChan` must deliver: the multihashes present in the map.  (The empty
multihash — the key of the undefined CID — is stored as the namespace root "/blocks" and is not
enumerated through the namespace wrapper; this is stated, not hidden.) -/
def OutOk (cfg : Cfg) (m : M) (op : Op) (out : Out) : Prop :=
  match op with
  | .allKeys => ∃ l, out = .keys l ∧ ∀ mh, mh ∈ l ↔ ((m mh).isSome = true ∧ (cfg.noPrefix = true ∨ mh ≠ []))
  | op => out = specOut cfg m op

/-- a trace of outputs is what the abstract map prescribes, operation by operation -/
def Refines (cfg : Cfg) : M → List Op → List Out → Prop
  | _, [], [] => True
  | m, op :: ops, o :: os => OutOk cfg m op o ∧ Refines cfg (specNext cfg m op) ops os
  | _, _, _ => False

/-- every datastore key is the key of some multihash (true of the empty store, preserved by every
operation; the blockstore owns its datastore / namespace) -/
def KeysWF (cfg : Cfg) (s : Store) : Prop := ∀ k ∈ AMap.keys s, ∃ mh, k = rk cfg mh

/-- the blocks put by an operation -/
def Op.blks : Op → List Blk
  | .put b => [b]
  | .putMany bs => bs
  | _ => []

/-- "functional pool": the bytes of every block that reaches the base store are determined by its
multihash (`f`), as they are for honest, content-addressed blocks -/
def OpsHonest (cfg : Cfg) (f : Bytes → Bytes) (ops : List Op) : Prop :=
  ∀ op ∈ ops, ∀ b ∈ op.blks, isId cfg b.cid = none → b.data = f b.cid.mh

def Consistent (f : Bytes → Bytes) (m : M) : Prop := ∀ mh d, m mh = some d → d = f mh

end C01
