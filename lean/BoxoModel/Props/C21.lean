import BoxoModel.C21.Lemmas6
/-!
# C21 — MFS republisher publishes the latest root and never regresses

Property theorems only (helper lemmas: `BoxoModel/C21/Lemmas*.lean`).  All statements are about every
state reachable in the event model of `mfs/repub.go` (`BoxoModel/C21/Model.lean`, code after the `fix:`
commit): any number of concurrent `Update`, `WaitPub`, `Close` calls, every interleaving of their
channel operations with the run loop's, every pattern of timer firings, publish failures, abandoned
(timed-out) waits and cancellation.  `stamp` = the order in which values entered the update channel.
-/
namespace C21

/-- the combined inductive invariant -/
structure AllInv (s : St) : Prop where
  sc : SInv s
  wt : WInv s
  up : UInv s

theorem AllInv.reachable {last : Option Nat} {st : St} (h : Steps.Reach step (init last) st) : AllInv st :=
  Steps.invariant_of_init_step AllInv
    (fun _ hi => by rw [hi]; exact ⟨SInv.init last, WInv.init last, UInv.init last⟩)
    (fun _ _ _ hI hs => ⟨hI.sc.step hs, WInv.step hI.sc hI.wt hs, hI.up.step hs⟩) h

/-- **Never regresses**: the values handed to the publish function (successful or failed attempts) have
non-decreasing stamps — no value older than one already published is ever published. -/
theorem c21_monotone {last : Option Nat} {s : St} (h : Steps.Reach step (init last) s) :
    s.log.Pairwise (fun a b => a.1.stamp ≤ b.1.stamp) :=
  (AllInv.reachable h).sc.core.sorted

/-- Stamps mean what "older" should mean: if `Update a` returned before `Update b` was called and both
values entered the channel, `a`'s stamp is smaller. -/
theorem c21_stamps_real_time {last : Option Nat} {s : St} (h : Steps.Reach step (init last) s)
    (a b : Nat) (ua ub : Upd) (ha : s.upds[a]? = some ua) (hb : s.upds[b]? = some ub)
    (d : Nat) (hd : ua.doneT = some d) (hlt : d < ub.startT) (x y : Nat) (hx : ua.sent = some x) (hy : ub.sent = some y) :
    x < y := by
  have hU := (AllInv.reachable h).up
  have h1 := hU.order a b ua ub ha hb d hd hlt x hx
  have h2 := ((hU.each b ub hb).sent y hy).1
  omega

/-- The slot always holds the newest value: sequential-update corollary. -/
theorem c21_slot_is_newest {last : Option Nat} {s : St} (h : Steps.Reach step (init last) s) (v : Val)
    (hv : s.slot = some v) : v.stamp = s.clock :=
  (AllInv.reachable h).sc.core.slotClock v hv

/-- A value equal to the last published one is never published again. -/
theorem c21_no_duplicate_publish {last : Option Nat} {s : St} (h : Steps.Reach step (init last) s) (v : Val)
    (hv : s.toPub = some v) : s.lastCid ≠ some v.cid :=
  (AllInv.reachable h).sc.core.dup v hv

/-- **No lost wake-up**: while a value is pending and the loop is idle, a timer is armed — so (timers
being fair) it will be handed to the publish function; after a failure the `longer` timer retries. -/
theorem c21_no_lost_wakeup {last : Option Nat} {s : St} (h : Steps.Reach step (init last) s)
    (hs : s.stopped = false) (hi : s.inPub = false) (hp : s.toPub ≠ none) : s.quick = true ∨ s.longer = true :=
  (AllInv.reachable h).sc.loop.wake hs hi hp

/-- **Waiters are not stranded** (this is the clause the `fix:` commit repairs): whenever the loop has
stopped reading waiters, a publish is running or a value is pending with the retry timer armed — so
reading resumes; it is never off with nothing left to publish. -/
theorem c21_waiters_not_stranded {last : Option Nat} {s : St} (h : Steps.Reach step (init last) s)
    (hs : s.stopped = false) (hi : s.imm = false) : s.inPub = true ∨ (s.toPub ≠ none ∧ s.longer = true) :=
  (AllInv.reachable h).sc.loop.strand hs hi

/-- A waiter the loop accepted is the one it will notify (never overwritten / forgotten). -/
theorem c21_waiter_not_orphaned {last : Option Nat} {s : St} (h : Steps.Reach step (init last) s)
    (j : Nat) (w : Wait) (hw : s.waits[j]? = some w) (hp : w.pc = .waiting) : s.waiter = some j :=
  ((AllInv.reachable h).wt.waits j w hw).orphan hp

/-- **WaitPub** (`_partial`: with the explicit guard the real code needs).  When the loop has released a
waiter, every value that entered the channel before the loop accepted it — in particular everything
handed over by `Update` calls that returned before `WaitPub` was called (`callClock ≤ acc`) — has been
published, or superseded by a published later value (`≤ pubStamp`), or superseded by a value equal to
the published one (`≤ skipStamp`); except values that an `Update` running concurrently had taken out of
the channel and not yet replaced when the waiter was accepted (`≤ inflight`). -/
theorem c21_waitpub_partial {last : Option Nat} {s : St} (h : Steps.Reach step (init last) s)
    (j : Nat) (w : Wait) (hw : s.waits[j]? = some w) (hp : w.pc = .released) :
    w.callClock ≤ w.acc ∧ ∀ x, x ≤ w.acc → x ≤ s.pubStamp ∨ x ≤ s.skipStamp ∨ x ≤ w.inflight :=
  ⟨((AllInv.reachable h).wt.waits j w hw).callAcc (Or.inr hp), ((AllInv.reachable h).wt.waits j w hw).released hp⟩

/-- … full strength when no `Update` was between its two halves at that moment. -/
theorem c21_waitpub {last : Option Nat} {s : St} (h : Steps.Reach step (init last) s)
    (j : Nat) (w : Wait) (hw : s.waits[j]? = some w) (hp : w.pc = .released) (hq : w.inflight = 0)
    (x : Nat) (hx : x ≤ w.callClock) (hx0 : 0 < x) : x ≤ s.pubStamp ∨ x ≤ s.skipStamp := by
  obtain ⟨h1, h2⟩ := c21_waitpub_partial h j w hw hp
  rcases h2 x (Nat.le_trans hx h1) with h3 | h3 | h3
  · exact Or.inl h3
  · exact Or.inr h3
  · omega

/-- No value is ever lost: with an empty channel every value handed over so far is published,
superseded, pending in `toPublish`, or held by an `Update` between its two halves. -/
theorem c21_no_value_lost {last : Option Nat} {s : St} (h : Steps.Reach step (init last) s)
    (hs : s.slot = none) (x : Nat) (hx : x ≤ s.clock) : cov3 s x ∨ x ≤ maxDrained s.upds :=
  (AllInv.reachable h).wt.loss hs x hx

/-- **Close flushes**: `Close` returns only after the loop has stopped, and it cancels the loop only
after its own `WaitPub` was released (so `c21_waitpub_partial` applies to it) or timed out. -/
theorem c21_close_flushes {last : Option Nat} {s : St} (h : Steps.Reach step (init last) s)
    (j : Nat) (w : Wait) (hw : s.waits[j]? = some w) (hr : w.returned = true) :
    s.stopped = true ∧ (w.pc = .released ∨ w.pc = .abandoned) := by
  have hW := (AllInv.reachable h).wt.waits j w hw
  exact ⟨(hW.ret hr).1, (hW.canc (hW.ret hr).2).1⟩

/-- **Progress (the loop is never wedged)**: from every reachable state in which the loop has not been
stopped, at most four events of the run loop itself — return of the publish function with success,
receive from the update channel, a timer (one is armed whenever a value is pending: `c21_no_lost_wakeup`),
return of the publish function — lead to a state where the channel is empty, nothing is pending and
every value handed over so far is published, or superseded by a published / already-published value,
or still held by an `Update` between its two halves.  Together with fairness of the timers and a publish
function that eventually succeeds this is "eventually publishes the most recent value", with the
bound k = 4 loop events (2 when the channel is empty and no publish is running). -/
theorem c21_progress {last : Option Nat} {s : St} (h : Steps.Reach step (init last) s) (hst : s.stopped = false) :
    ∃ evs s', evs.length ≤ 4 ∧ (∀ e ∈ evs, isLoopEv e = true) ∧ Steps.run step s evs = some s' ∧
      s'.slot = none ∧ s'.toPub = none ∧ s'.inPub = false ∧
      ∀ x, x ≤ s'.clock → x ≤ s'.pubStamp ∨ x ≤ s'.skipStamp ∨ x ≤ maxDrained s'.upds := by
  obtain ⟨evs, s', h1, h2, h3, h4⟩ := prog_quiet (AllInv.reachable h).sc hst
  refine ⟨evs, s', h1, h2, h3, h4.1, h4.2.1, h4.2.2.1, ?_⟩
  intro x hx
  have hr : Steps.Reach step (init last) s' := Steps.reach_of_run evs h h3
  rcases (AllInv.reachable hr).wt.loss h4.1 x hx with hc | hc
  · rcases hc with h5 | h5 | ⟨v, hv, _⟩
    · exact Or.inl h5
    · exact Or.inr (Or.inl h5)
    · rw [h4.2.1] at hv; cases hv
  · exact Or.inr (Or.inr hc)

/-! ### the guard of `c21_waitpub_partial` is necessary (known finding)

`Update(1)` returns; `Update(2)` drains the channel and is parked between its two halves; `WaitPub` is
accepted, finds nothing to publish and is released: value 1 (stamp 2) was handed over before the
call, is not published and not superseded by anything published. -/

def waitpubSchedule : List Ev :=
  [ .update 0, .updStep 0, .recvUpdate, .timerQuick,        -- value 0 is being published (publish function running)
    .update 1, .updStep 1,                                  -- Update(1) returned: stamp 2 sits in the channel
    .update 2, .updStep 2,                                  -- Update(2) drained it …
    .pubDone true,
    .waitPub, .recvWaiter 0 ]                               -- … and WaitPub returns although stamp 2 was never published

theorem c21_waitpub_counterexample :
    (Steps.run step ({} : St) waitpubSchedule).map
        (fun s => (s.waits.map (fun w => (w.pc, w.callClock, w.inflight)), s.pubStamp, s.skipStamp,
          s.upds.map (fun u => (u.pc, u.sent)))) =
      some ([(.released, 2, 2)], 1, 0, [(.done, some 1), (.done, some 2), (.drained ⟨2, 1⟩, none)]) := by
  rfl

/-! ### non-vacuity -/

/-- a run with a failed publish, a retry, an update equal to the last published value, a served waiter and Close -/
def demo : List Ev :=
  [ .update 5, .updStep 0, .recvUpdate, .waitPub, .timerQuick, .pubDone false, .update 6, .updStep 1, .recvUpdate,
    .timerLonger, .pubDone true, .recvWaiter 0, .update 6, .updStep 2, .recvUpdate, .closeCall, .recvWaiter 1,
    .closeCancel 1, .ctxDone, .closeRet 1 ]

example : (Steps.run step ({ lastCid := some 4 } : St) demo).map
      (fun s => (s.log.map (fun e => (e.1.stamp, e.1.cid, e.2)), s.pubStamp, s.skipStamp, s.stopped,
        s.waits.map (fun w => (w.pc, w.returned)))) =
    some ([(1, 5, false), (2, 6, true)], 2, 3, true, [(.released, false), (.released, true)]) := by rfl

end C21
