import BoxoModel.C09.Lemmas
/-!
C09 — the UnixFS file reader behaves as a seekable byte reader.

Model: `BoxoModel/C09/Model.lean` (`dagReader` over go-ipld-format's `Walker`, transcribed; the DAG is a
`FileTree.FNode`).  Spec: `Spec` = (content, pos) with `Read`/`Seek`/`WriteTo` of an in-memory byte reader.
All theorems quantify over every well-sized tree (any shape, any fan-out, empty leaves, link-less internal
nodes) and every finite sequence of operations with arbitrary operands.
-/
namespace C09
open FileTree

/-- Refinement: on every well-sized tree, every sequence of `read k` (= Read / CtxReadFull with a k-byte buffer),
`seek off whence` (any `whence`, valid or not, any offset) and `writeTo` returns, call by call, what the
byte-slice reader over `content root` returns — bytes, counts, returned offsets and error class; the only latitude is
the one `io.Reader` gives: a zero-length read may answer nil or EOF, EOF only at or past the end (`agrees`). -/
theorem c09_refines (root : FNode) (hws : wellSized root = true) (ops : List Op) :
    Spec.runAgrees ⟨content root, 0⟩ ops ((newReader root).run ops) :=
  run_agrees root ops (newReader root) 0 (fun _ _ _ => hws) (inv_new root) rfl

/-- … and literally the same outputs when no read has an empty buffer. -/
theorem c09_refines_eq (root : FNode) (hws : wellSized root = true) (ops : List Op)
    (hz : ∀ op ∈ ops, op.isZeroRead = false) :
    (newReader root).run ops = Spec.run ⟨content root, 0⟩ ops :=
  runAgrees_eq ops _ _ hz (c09_refines root hws ops)

/-- Sequential access needs no size information at all: on ANY tree (wrong block sizes, legacy internal nodes whose
recorded file size also counts inline Data that the reader skips, …) every sequence of reads and WriteTo — under any
fetch failures — delivers `content root` like the byte-slice reader. Only `Seek`/`Size` depend on `wellSized`. -/
theorem c09_sequential_any_tree (root : FNode) (fails : List Bool) (ops : List Op)
    (hns : ∀ op ∈ ops, op.isSeek = false) :
    Spec.runAgreesF ⟨content root, 0⟩ ops ((newReaderF root fails).run ops) :=
  run_agreesF root ops (newReaderF root fails) 0 (fun op ho hs => by rw [hns op ho] at hs; cases hs)
    (by simp [Inv, newReaderF, framesOk, remDown])

/-- `Size()` is the length of the content. -/
theorem c09_size (root : FNode) (hws : wellSized root = true) : (newReader root).size = (content root).length := by
  simp [newReader, size_eq_of_wellSized root hws]

/-- The walks never run out of fuel and the abstraction invariant holds in every reachable state, whatever fetches
fail: after any operation the bytes still to be delivered (`cur` followed by what the walker has not visited) are
exactly `content.drop pos` for the position the (possibly faulty) outcome defines. -/
theorem c09_invariant (root : FNode) (hws : wellSized root = true) (r : Reader) (pos : Nat) (h : Inv root r pos)
    (op : Op) :
    Inv root (r.step op).1 (Spec.step ⟨content root, pos⟩ op).1.pos ∨
    ∃ s', faulty op ⟨content root, pos⟩ (r.step op).2 s' ∧ Inv root (r.step op).1 s'.pos := by
  rcases (step_okF root r pos h op (fun _ => hws)).1 with ⟨_, hi⟩ | ⟨s', hf, _, hi⟩
  · exact Or.inl hi
  · exact Or.inr ⟨s', hf, hi⟩

/-- Fault tolerance (fetch errors, cancelled contexts: ANY pattern of failing `FetchChild` calls, given by the oracle
`fails`): every call either answers like the byte-slice reader, or reports an error with a `faulty` outcome — a
read/WriteTo delivered a correct (possibly shorter) prefix and the position advanced by exactly that much; a failed
seek left the reader at the start of the file (this is the `fix:` commit: before it the walker stayed where the
search had stopped while the offset said 0) — and the run continues consistently from there. -/
theorem c09_refines_faulty (root : FNode) (hws : wellSized root = true) (fails : List Bool) (ops : List Op) :
    Spec.runAgreesF ⟨content root, 0⟩ ops ((newReaderF root fails).run ops) :=
  run_agreesF root ops (newReaderF root fails) 0 (fun _ _ _ => hws) (by simp [Inv, newReaderF, framesOk, remDown])

/-- `wellSized` is necessary: with one wrong recorded block size a seek lands on the wrong byte
(this is why C07/C08/C10 prove `wellSized` of everything they build). -/
theorem c09_seek_needs_sizes :
    ∃ (root : FNode) (ops : List Op), wellSized root = false ∧ (∀ op ∈ ops, op.isZeroRead = false) ∧
      (newReader root).run ops ≠ Spec.run ⟨content root, 0⟩ ops :=
  ⟨.node 2 [(.leaf [1, 2], 0), (.leaf [3, 4], 2)], [.seek 1 0, .read 3], by decide, by decide, by decide⟩

/-! ### non-vacuity -/

example : wellSized exTree = true := by decide
example : content exTree = [1, 2, 3, 4, 5, 6, 7] := by decide
/-- int64 overflow: from MaxInt64, `Seek(1, SeekCurrent)` wraps to a negative target and is rejected, exactly as
a byte-slice reader computing in int64 -/
example : (newReader exTree).run [.seek 9223372036854775807 0, .seek 1 1, .read 1, .seek 9223372036854775807 2] =
    [⟨[], 9223372036854775807, .nil⟩, ⟨[], 9223372036854775807, .err⟩, ⟨[], 0, .eof⟩, ⟨[], 9223372036854775807, .err⟩] := by
  decide
example : (newReader exTree).run [.read 2, .read 0, .seek (-3) 2, .read 2, .seek 1 1, .writeTo, .read 1, .seek 9 0,
      .read 1, .seek (-1) 0, .seek 0 5, .seek (-2) 1, .read 9] =
    [⟨[1, 2], 2, .nil⟩, ⟨[], 0, .nil⟩, ⟨[], 4, .nil⟩, ⟨[5, 6], 2, .nil⟩, ⟨[], 7, .nil⟩, ⟨[], 0, .nil⟩,
     ⟨[], 0, .eof⟩, ⟨[], 9, .nil⟩, ⟨[], 0, .eof⟩, ⟨[], 9, .err⟩, ⟨[], 0, .err⟩, ⟨[], 7, .nil⟩, ⟨[], 0, .eof⟩] := by
  decide
/-- the 4th fetch fails: the read returns the 2 bytes it has with an error, the next read resumes at byte 2;
then the 9th fetch fails inside a seek: error, and the reader is back at offset 0 -/
example : (newReaderF exTree [false, false, false, true, false, false, false, false, true]).run
      [.read 5, .read 2, .seek 5 0, .read 2] =
    [⟨[1, 2], 2, .err⟩, ⟨[3, 4], 2, .nil⟩, ⟨[], 0, .err⟩, ⟨[1, 2], 2, .nil⟩] := by decide

end C09
