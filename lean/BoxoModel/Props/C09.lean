import BoxoModel.C09.Lemmas
/-!
C09 — the UnixFS file reader behaves as a seekable byte reader.

Model: `BoxoModel/C09/Model.lean` (`dagReader` over go-ipld-format's `Walker`, transcribed; the DAG is a
`FileTree.FNode`).  Spec: `Spec` = (content, pos) with `Read`/`Seek`/`WriteTo` of an in-memory byte reader.
All theorems quantify over every well-sized tree (any shape, any fan-out, empty leaves, link-less internal
nodes) and every finite sequence of operations with arbitrary operands.
-/
namespace C09
open FileTree

/-- Refinement: on every well-sized tree, every sequence of `read k` (= Read / CtxReadFull with a k-byte buffer),
`seek off whence` (any `whence`, valid or not, any offset) and `writeTo` returns, call by call, what the
byte-slice reader over `content root` returns — bytes, counts, returned offsets and error class; the only latitude is
the one `io.Reader` gives: a zero-length read may answer nil or EOF, EOF only at or past the end (`agrees`). -/
theorem c09_refines (root : FNode) (hws : wellSized root = true) (ops : List Op) :
    Spec.runAgrees ⟨content root, 0⟩ ops ((newReader root).run ops) :=
  run_agrees root hws ops (newReader root) 0 (inv_new root)

/-- … and literally the same outputs when no read has an empty buffer. -/
theorem c09_refines_eq (root : FNode) (hws : wellSized root = true) (ops : List Op)
    (hz : ∀ op ∈ ops, op.isZeroRead = false) :
    (newReader root).run ops = Spec.run ⟨content root, 0⟩ ops :=
  runAgrees_eq ops _ _ hz (c09_refines root hws ops)

/-- `Size()` is the length of the content. -/
theorem c09_size (root : FNode) (hws : wellSized root = true) : (newReader root).size = (content root).length := by
  simp [newReader, size_eq_of_wellSized root hws]

/-- The walks never run out of fuel and the abstraction invariant holds in every reachable state: after any
operation sequence the bytes still to be delivered (`cur` followed by what the walker has not visited) are exactly
`content.drop offset`. -/
theorem c09_invariant (root : FNode) (hws : wellSized root = true) (r : Reader) (pos : Nat) (h : Inv root r pos)
    (op : Op) : Inv root (r.step op).1 (Spec.step ⟨content root, pos⟩ op).1.pos :=
  (step_ok root hws r pos h op).2.1

/-- `wellSized` is necessary: with one wrong recorded block size a seek lands on the wrong byte
(this is why C07/C08/C10 prove `wellSized` of everything they build). -/
theorem c09_seek_needs_sizes :
    ∃ (root : FNode) (ops : List Op), wellSized root = false ∧ (∀ op ∈ ops, op.isZeroRead = false) ∧
      (newReader root).run ops ≠ Spec.run ⟨content root, 0⟩ ops :=
  ⟨.node 2 [(.leaf [1, 2], 0), (.leaf [3, 4], 2)], [.seek 1 0, .read 3], by decide, by decide, by decide⟩

/-! ### non-vacuity -/

example : wellSized exTree = true := by decide
example : content exTree = [1, 2, 3, 4, 5, 6, 7] := by decide
example : (newReader exTree).run [.read 2, .read 0, .seek (-3) 2, .read 2, .seek 1 1, .writeTo, .read 1, .seek 9 0,
      .read 1, .seek (-1) 0, .seek 0 5, .seek (-2) 1, .read 9] =
    [⟨[1, 2], 2, .nil⟩, ⟨[], 0, .nil⟩, ⟨[], 4, .nil⟩, ⟨[5, 6], 2, .nil⟩, ⟨[], 7, .nil⟩, ⟨[], 0, .nil⟩,
     ⟨[], 0, .eof⟩, ⟨[], 9, .nil⟩, ⟨[], 0, .eof⟩, ⟨[], 9, .err⟩, ⟨[], 0, .err⟩, ⟨[], 7, .nil⟩, ⟨[], 0, .eof⟩] := by
  decide

end C09
