import BoxoModel.C34.Round
import BoxoModel.C34.Wire
/-!
# C34 — Bitswap messages round-trip and decoded blocks are self-certifying

Property theorems only (helpers in `BoxoModel/C34/{Lemmas,Round}.lean`).  Everything go-cid /
go-multihash compute is the arbitrary parameter `H : Hash` (see the model file): the theorems hold for
every hash function, every CID syntax and every prefix encoding.
-/
namespace C34
open Varint Proto

/-- the three Go maps have one value per key, and a CID is not both a block and a presence
(`AddBlock` deletes the presence, `AddBlockPresence` is ignored when the block is there) -/
def Msg.WF (m : Msg) : Prop :=
  (m.wl.map (·.cid)).Nodup ∧ (m.blocks.map (·.1)).Nodup ∧ (m.pres.map (·.1)).Nodup ∧
  ∀ x ∈ m.pres, m.getBlock x.1 = none

/-- the CIDs of the entries and presences are real CIDs (defined, `cid.Cast` reads their bytes back) -/
def Msg.Sendable (H : Hash) (m : Msg) : Prop :=
  (∀ e ∈ m.wl, e.cid.length ≠ 0 ∧ H.cast e.cid = true) ∧ (∀ x ∈ m.pres, x.1.length ≠ 0 ∧ H.cast x.1 = true)

/-- every block's CID is the one its prefix and data hash to -/
def Msg.Honest (H : Hash) (m : Msg) : Prop := ∀ x ∈ m.blocks, H.sum (H.prefixOf x.1) x.2 = some x.1

/-- **v1 round trip**: parsing `ToProtoV1 m` gives back the same wantlist entries (CID, priority, type,
cancel, send-dont-have), blocks, block presences, full flag and pending-bytes value. -/
theorem c34_v1_roundtrip (H : Hash) (m : Msg) (hw : m.WF) (hs : m.Sendable H) (hh : m.Honest H) :
    ∃ m', fromProto H (toProtoV1 H m) = some m' ∧ m'.full = m.full ∧ m'.pending = m.pending ∧
      ∀ c, m'.getEntry c = m.getEntry c ∧ m'.getBlock c = m.getBlock c ∧ m'.getPres c = m.getPres c := by
  obtain ⟨w1, w2, w3, w4⟩ := hw
  -- wantlist
  have hn1 : ((m.wl.map Entry.toPB).map (·.block)).Nodup := by
    rw [List.map_map]; exact w1
  obtain ⟨m1, e1, g1⟩ := fromEntries_fresh H (m.wl.map Entry.toPB) hn1
    (by intro e he; obtain ⟨x, hx, rfl⟩ := List.mem_map.mp he; exact hs.1 x hx)
    { full := m.full } (by intro e _; rfl)
  obtain ⟨b1, p1, f1, d1⟩ := fromEntries_other e1
  -- payload
  obtain ⟨m2, e2, wl2, f2, d2, g2, np2⟩ := fromPayload_fresh H m.blocks w2 hh m1
  -- presences
  have hb3 : ∀ x ∈ m.pres, m2.getBlock x.1 = none := by
    intro x hx
    rw [g2]
    have := w4 x hx
    unfold Msg.getBlock at this
    cases hfind : m.blocks.find? (fun y => y.1 == x.1) with
    | some y => simp [hfind] at this
    | none => simp only; unfold Msg.getBlock; rw [b1]; rfl
  obtain ⟨m3, e3, wl3, bl3, f3, d3, g3⟩ := fromPresences_fresh H m.pres w3 hs.2 m2 hb3
  refine ⟨{ m3 with pending := m.pending }, ?_, ?_, rfl, ?_⟩
  · simp only [fromProto, toProtoV1, e1, fromV0Blocks, e2, e3]
  · simp only [f3, f2, f1]
  · intro c
    refine ⟨?_, ?_, ?_⟩
    · show m3.getEntry c = m.getEntry c
      unfold Msg.getEntry
      rw [wl3, wl2]
      have := g1 c
      unfold Msg.getEntry at this
      rw [this, List.find?_map]
      simp only [Function.comp_def, Entry.toPB]
      cases m.wl.find? (fun x => x.cid == c) with
      | none => rfl
      | some e => cases e; rfl
    · show m3.getBlock c = m.getBlock c
      unfold Msg.getBlock
      rw [bl3]
      have := g2 c
      unfold Msg.getBlock at this
      rw [this]
      cases m.blocks.find? (fun x => x.1 == c) with
      | some x => rfl
      | none => simp only; rw [b1]; rfl
    · show m3.getPres c = m.getPres c
      rw [g3 c]
      unfold Msg.getPres
      cases m.pres.find? (fun x => x.1 == c) with
      | some x => rfl
      | none =>
        simp only [Option.map_none]
        have := np2 c (by unfold Msg.getPres; rw [p1]; rfl)
        unfold Msg.getPres at this
        exact this

/-- **v0 round trip** (bitswap 1.0.0 format): parsing `ToProtoV0 m` gives back the same wantlist
entries and full flag, and exactly the block byte strings of `m` (under CIDv0; presences and pending
bytes are not part of that format).  Needs the CIDv0 hash to be collision-free on the message's blocks. -/
theorem c34_v0_roundtrip (H : Hash) (m : Msg) (hw : m.WF) (hs : ∀ e ∈ m.wl, e.cid.length ≠ 0 ∧ H.cast e.cid = true)
    (hinj : ∀ x ∈ m.blocks, ∀ y ∈ m.blocks, H.sumV0 x.2 = H.sumV0 y.2 → x.2 = y.2) :
    ∃ m', fromProto H (toProtoV0 m) = some m' ∧ m'.full = m.full ∧ (∀ c, m'.getEntry c = m.getEntry c) ∧
      ∀ d, (∃ c, (c, d) ∈ m'.blocks) ↔ (∃ c, (c, d) ∈ m.blocks) := by
  obtain ⟨w1, _, _, _⟩ := hw
  have hn1 : ((m.wl.map Entry.toPB).map (·.block)).Nodup := by
    rw [List.map_map]; exact w1
  obtain ⟨m1, e1, g1⟩ := fromEntries_fresh H (m.wl.map Entry.toPB) hn1
    (by intro e he; obtain ⟨x, hx, rfl⟩ := List.mem_map.mp he; exact hs x hx)
    { full := m.full } (by intro e _; rfl)
  obtain ⟨b1, p1, f1, d1⟩ := fromEntries_other e1
  obtain ⟨v1, v2, v3⟩ := fromV0Blocks_spec H (fun d => ∃ c, (c, d) ∈ m.blocks)
    (by rintro a b ⟨ca, ha⟩ ⟨cb, hb⟩ hab; exact hinj _ ha _ hb hab)
    (m.blocks.map (·.2)) (by intro d hd; obtain ⟨x, hx, rfl⟩ := List.mem_map.mp hd; exact ⟨x.1, hx⟩)
    m1 (by intro x hx; rw [b1] at hx; cases hx)
  refine ⟨{ fromV0Blocks H (m.blocks.map (·.2)) m1 with pending := 0 }, ?_, ?_, ?_, ?_⟩
  · simp only [fromProto, toProtoV0, e1, fromPayload, fromPresences]
  · simp only [v2, f1]
  · intro c
    show (fromV0Blocks H (m.blocks.map (·.2)) m1).getEntry c = m.getEntry c
    unfold Msg.getEntry
    rw [v1]
    have := g1 c
    unfold Msg.getEntry at this
    rw [this, List.find?_map]
    simp only [Function.comp_def, Entry.toPB]
    cases m.wl.find? (fun x => x.cid == c) with
    | none => rfl
    | some e => cases e; rfl
  · intro d
    constructor
    · rintro ⟨c, hc⟩
      obtain ⟨_, h2⟩ := (v3 (c, d)).mp hc
      rcases h2 with h2 | h2
      · obtain ⟨x, hx, hxd⟩ := List.mem_map.mp h2
        simp only at hxd
        exact ⟨x.1, by rw [← hxd]; exact hx⟩
      · rw [b1] at h2; cases h2
    · rintro ⟨c, hc⟩
      refine ⟨H.sumV0 d, (v3 (H.sumV0 d, d)).mpr ⟨rfl, .inl ?_⟩⟩
      exact List.mem_map.mpr ⟨(c, d), hc, rfl⟩

/-- **The API keeps the maps well-formed**, so `Msg.WF` holds for every message built with
New / AddEntry / Cancel / Remove / AddBlock / AddBlockPresence / Reset. -/
theorem c34_api_wf (m : Msg) (hw : m.WF) (c d : Bytes) (prio t : Int) (cn sdh : Bool) :
    (Msg.reset cn).WF ∧ (m.addEntry c prio cn t sdh).WF ∧ (m.remove c).WF ∧ (m.addBlock c d).WF ∧
    (m.addPresence c t).WF := by
  obtain ⟨w1, w2, w3, w4⟩ := hw
  have nd : ∀ {α : Type} (key : α → Bytes) (l : List α) (a : α), (l.map key).Nodup → key a = c →
      (((a :: l.filter (fun x => key x != c))).map key).Nodup := by
    intro α key l a hl ha
    simp only [List.map_cons, List.nodup_cons]
    refine ⟨?_, List.Nodup.sublist (List.Sublist.map _ List.filter_sublist) hl⟩
    intro hm
    obtain ⟨x, hx, hxk⟩ := List.mem_map.mp hm
    have := (List.mem_filter.mp hx).2
    rw [hxk, ha] at this
    simp at this
  refine ⟨?_, ?_, ?_, ?_, ?_⟩
  · simp [Msg.reset, Msg.WF]
  · refine ⟨?_, by rw [(Msg.addEntry_blocks ..).1]; exact w2, by rw [(Msg.addEntry_blocks ..).2.1]; exact w3, ?_⟩
    · unfold Msg.addEntry
      cases hg : m.getEntry c with
      | none => exact nd (fun (x : Entry) => x.cid) m.wl _ w1 rfl
      | some e =>
        have hc : e.cid = c := by
          have := List.find?_some hg
          simpa using this
        exact nd (fun (x : Entry) => x.cid) m.wl _ w1 (by simp [Msg.mergeEntry, hc])
    · intro x hx
      rw [(Msg.addEntry_blocks ..).2.1] at hx
      unfold Msg.getBlock
      rw [(Msg.addEntry_blocks ..).1]
      exact w4 x hx
  · exact ⟨List.Nodup.sublist (List.Sublist.map _ List.filter_sublist) w1, w2, w3, w4⟩
  · refine ⟨w1, nd (fun (x : Bytes × Bytes) => x.1) m.blocks (c, d) w2 rfl,
      List.Nodup.sublist (List.Sublist.map _ List.filter_sublist) w3, ?_⟩
    intro x hx
    have hx' := List.mem_filter.mp hx
    have hne : x.1 ≠ c := by simpa using hx'.2
    rw [Msg.getBlock_addBlock]
    simp only [hne, ↓reduceIte]
    exact w4 x hx'.1
  · unfold Msg.addPresence
    cases hg : m.getBlock c with
    | some _ => exact ⟨w1, w2, w3, w4⟩
    | none =>
      refine ⟨w1, w2, nd (fun (x : Bytes × Int) => x.1) m.pres (c, t) w3 rfl, ?_⟩
      intro x hx
      show m.getBlock x.1 = none
      rcases List.mem_cons.mp hx with rfl | hx
      · exact hg
      · exact w4 x (List.mem_filter.mp hx).1

/-- **Self-certifying**: for ANY pb.Message (hence any wire bytes protobuf-go can parse), every block of
the parsed message carries a CID computed from its own data — from its prefix (`payload`) or as the
CIDv0 of the data (`blocks`). A parsed block can never claim a CID its bytes do not hash to. -/
theorem c34_self_certifying (H : Hash) (p : PMsg) (m : Msg) (h : fromProto H p = some m) :
    ∀ x ∈ m.blocks, (∃ pfx, H.sum pfx x.2 = some x.1) ∨ x.1 = H.sumV0 x.2 := by
  unfold fromProto at h
  simp only at h
  split at h
  · cases h
  · rename_i m1 h1
    split at h
    · cases h
    · rename_i m2 h2
      split at h
      · cases h
      · rename_i m3 h3
        simp only [Option.some.injEq] at h
        subst h
        obtain ⟨b1, _, _, _⟩ := fromEntries_other h1
        have c1 : Cert H m1 := by intro x hx; rw [b1] at hx; cases hx
        have c2 : Cert H m2 := cert_fromPayload _ (cert_fromV0Blocks _ c1) h2
        obtain ⟨b3, _, _, _⟩ := fromPresences_other h3
        intro x hx
        exact c2 x (by rw [← b3]; exact hx)

/-- the v1 payload blocks after a round trip are the recomputed ones even for dishonest messages:
whatever CID a block claimed, the parsed block has the CID its prefix and data hash to -/
theorem c34_v1_blocks_recomputed (H : Hash) (m m' : Msg) (h : fromProto H (toProtoV1 H m) = some m') :
    ∀ x ∈ m'.blocks, ∃ pfx, H.sum pfx x.2 = some x.1 := by
  intro x hx
  -- no bitswap-1.0 blocks in a v1 message: every certificate is a prefix hash
  unfold fromProto toProtoV1 at h
  simp only [fromV0Blocks] at h
  split at h
  · cases h
  · rename_i m1 h1
    split at h
    · cases h
    · rename_i m2 h2
      split at h
      · cases h
      · rename_i m3 h3
        simp only [Option.some.injEq] at h
        subst h
        obtain ⟨b1, _, _, _⟩ := fromEntries_other h1
        obtain ⟨b3, _, _, _⟩ := fromPresences_other h3
        have key : ∀ (bs : List PBlock) (a b : Msg), (∀ y ∈ a.blocks, ∃ pfx, H.sum pfx y.2 = some y.1) →
            fromPayload H bs a = some b → ∀ y ∈ b.blocks, ∃ pfx, H.sum pfx y.2 = some y.1 := by
          intro bs
          induction bs with
          | nil => intro a b ha hf; simp [fromPayload] at hf; subst hf; exact ha
          | cons q r ih =>
            intro a b ha hf
            unfold fromPayload at hf
            split at hf
            · cases hf
            · rename_i c hs
              refine ih _ _ ?_ hf
              intro y hy
              rcases Msg.mem_blocks_addBlock hy with rfl | ⟨hy, _⟩
              · exact ⟨q.pfx, hs⟩
              · exact ha y hy
        exact key _ m1 m2 (by intro y hy; rw [b1] at hy; cases hy) h2 x (by rw [← b3]; exact hx)

/-- **Malformed input is rejected as a whole** (no partial message): a wantlist entry or a block
presence whose CID is missing or undecodable, or a payload block whose prefix cannot be hashed,
makes `newMessageFromProto` fail. -/
theorem c34_reject_entry (H : Hash) (p : PMsg) (es : List PEntry) (f : Bool) (hp : p.wantlist = some (es, f))
    (e : PEntry) (he : e ∈ es) (hbad : e.block.length = 0 ∨ H.cast e.block = false) : fromProto H p = none := by
  have key : ∀ (es : List PEntry) (m : Msg), e ∈ es → fromEntries H es m = none := by
    intro es
    induction es with
    | nil => intro m h; cases h
    | cons x r ih =>
      intro m h
      unfold fromEntries
      by_cases h1 : x.block.length = 0
      · simp [h1]
      · by_cases h2 : H.cast x.block = false
        · simp [h1, h2]
        · simp only [h1, ↓reduceIte, h2]
          rcases List.mem_cons.mp h with rfl | h
          · rcases hbad with hb | hb
            · exact absurd hb h1
            · exact absurd hb h2
          · exact ih _ h
  unfold fromProto
  simp only [hp, key es _ he]

theorem c34_reject_payload (H : Hash) (p : PMsg) (b : PBlock) (hb : b ∈ p.payload)
    (hbad : H.sum b.pfx b.data = none) : fromProto H p = none := by
  have key : ∀ (bs : List PBlock) (m : Msg), b ∈ bs → fromPayload H bs m = none := by
    intro bs
    induction bs with
    | nil => intro m h; cases h
    | cons x r ih =>
      intro m h
      unfold fromPayload
      rcases List.mem_cons.mp h with rfl | h
      · simp [hbad]
      · split
        · rfl
        · exact ih _ h
  unfold fromProto
  simp only
  split
  · rfl
  · simp only [key p.payload _ hb]

theorem c34_reject_presence (H : Hash) (p : PMsg) (x : PPres) (hx : x ∈ p.presences)
    (hbad : x.cid.length = 0 ∨ H.cast x.cid = false) : fromProto H p = none := by
  have key : ∀ (ps : List PPres) (m : Msg), x ∈ ps → fromPresences H ps m = none := by
    intro ps
    induction ps with
    | nil => intro m h; cases h
    | cons y r ih =>
      intro m h
      unfold fromPresences
      by_cases h1 : y.cid.length = 0
      · simp [h1]
      · by_cases h2 : H.cast y.cid = false
        · simp [h1, h2]
        · simp only [h1, ↓reduceIte, h2]
          rcases List.mem_cons.mp h with rfl | h
          · rcases hbad with hb | hb
            · exact absurd hb h1
            · exact absurd hb h2
          · exact ih _ h
  unfold fromProto
  simp only
  split
  · rfl
  · split
    · rfl
    · simp only [key p.presences _ hx]

/-- **Wire round trip**: the proto3 bytes written for a pb.Message (field-number order, zero values
omitted, int32 as sign-extended varint, embedded messages length-delimited) are read back as the same
pb.Message by the field-loop decoder — for every message with int32 priorities / types / pending bytes
and a total size below 2^64 bytes. -/
theorem c34_wire (p : PMsg) (hok : p.ok) (hlen : (encodePMsg p).length < 2 ^ 64) :
    decodePMsg (encodePMsg p) = some p := decodePMsg_encodePMsg p hok hlen

/-- wire round trip composed with the v1 round trip: bytes of `ToProtoV1 m` parse back to `m` -/
theorem c34_v1_wire_roundtrip (H : Hash) (m : Msg) (hw : m.WF) (hs : m.Sendable H) (hh : m.Honest H)
    (hok : (toProtoV1 H m).ok) (hlen : (encodePMsg (toProtoV1 H m)).length < 2 ^ 64) :
    ∃ m', (decodePMsg (encodePMsg (toProtoV1 H m))).bind (fromProto H) = some m' ∧ m'.full = m.full ∧
      m'.pending = m.pending ∧
      ∀ c, m'.getEntry c = m.getEntry c ∧ m'.getBlock c = m.getBlock c ∧ m'.getPres c = m.getPres c := by
  rw [c34_wire _ hok hlen]
  exact c34_v1_roundtrip H m hw hs hh

/-- **proto.Unmarshal ∘ proto.Marshal = id** for the general reader (`unmarshalPMsg`: arbitrary bytes,
unknown fields and groups skipped, wrong wire types treated as unknown, truncation / stray end-group /
reserved wire types / field number 0 or > 2^29-1 rejected). -/
theorem c34_unmarshal_marshal (p : PMsg) (hok : p.ok) (hlen : (encodePMsg p).length < 2 ^ 64) :
    unmarshalPMsg (encodePMsg p) = some p := unmarshalPMsg_encodePMsg p hok hlen

/-- **Self-certifying, at the level of wire bytes**: whatever bytes arrive (mutated, truncated, with
unknown fields …), if `FromNet`'s pipeline (Unmarshal, then newMessageFromProto) accepts them, every
block of the result carries a CID computed from its own data. -/
theorem c34_self_certifying_wire (H : Hash) (b : Bytes) (m : Msg) (h : fromWire H b = some m) :
    ∀ x ∈ m.blocks, (∃ pfx, H.sum pfx x.2 = some x.1) ∨ x.1 = H.sumV0 x.2 := by
  unfold fromWire at h
  cases hp : unmarshalPMsg b with
  | none => simp [hp] at h
  | some p => rw [hp] at h; exact c34_self_certifying H p m h

/-- **Malformed wire bytes are rejected as a whole**: bytes protobuf cannot parse, or bytes whose parse
contains a wantlist entry / block presence with a missing or undecodable CID or a payload block whose
prefix cannot be hashed, yield no message at all. -/
theorem c34_reject_wire (H : Hash) (b : Bytes) :
    (unmarshalPMsg b = none → fromWire H b = none) ∧
    (∀ p, unmarshalPMsg b = some p →
      ((∃ es f e, p.wantlist = some (es, f) ∧ e ∈ es ∧ (e.block.length = 0 ∨ H.cast e.block = false)) ∨
       (∃ x ∈ p.presences, x.cid.length = 0 ∨ H.cast x.cid = false) ∨
       (∃ x ∈ p.payload, H.sum x.pfx x.data = none)) → fromWire H b = none) := by
  refine ⟨fun h => by simp [fromWire, h], ?_⟩
  intro p hp hbad
  simp only [fromWire, hp, Option.bind_some]
  rcases hbad with ⟨es, f, e, hw, he, hb⟩ | ⟨x, hx, hb⟩ | ⟨x, hx, hb⟩
  · exact c34_reject_entry H p es f hw e he hb
  · exact c34_reject_presence H p x hx hb
  · exact c34_reject_payload H p x hx hb

/-- bytes of `ToProtoV1 m` go through the whole receive pipeline and come back as `m` -/
theorem c34_v1_fromWire_roundtrip (H : Hash) (m : Msg) (hw : m.WF) (hs : m.Sendable H) (hh : m.Honest H)
    (hok : (toProtoV1 H m).ok) (hlen : (encodePMsg (toProtoV1 H m)).length < 2 ^ 64) :
    ∃ m', fromWire H (encodePMsg (toProtoV1 H m)) = some m' ∧ m'.full = m.full ∧ m'.pending = m.pending ∧
      ∀ c, m'.getEntry c = m.getEntry c ∧ m'.getBlock c = m.getBlock c ∧ m'.getPres c = m.getPres c := by
  unfold fromWire
  rw [c34_unmarshal_marshal _ hok hlen]
  exact c34_v1_roundtrip H m hw hs hh

/-- examples of rejected wire bytes: truncated length, stray end-group, reserved wire type, field number 0 -/
example : unmarshalPMsg [0x12, 0x05, 0x01] = none := by decide
example : unmarshalPMsg [0x0c] = none := by decide
example : unmarshalPMsg [0x0e, 0x00] = none := by decide
example : unmarshalPMsg [0x00, 0x00] = none := by decide
/-- … and of tolerated ones: an unknown field, a group, a known field with the wrong wire type -/
example : unmarshalPMsg [0x30, 0x07, 0x28, 0x09] = some { pendingBytes := 9 } := by decide
example : unmarshalPMsg [0x33, 0x08, 0x01, 0x34, 0x2d, 1, 2, 3, 4] = some {} := by decide

/-- **addEntry merge laws**: cancel and send-dont-have are sticky, the strongest want type wins
(Block = 0 over Have = 1), the priority only follows a want of the same type, other CIDs are untouched. -/
theorem c34_merge (m : Msg) (c : Bytes) (prio : Int) (cn : Bool) (ty : Int) (sdh : Bool) :
    (∀ c', c' ≠ c → (m.addEntry c prio cn ty sdh).getEntry c' = m.getEntry c') ∧
    (m.getEntry c = none → (m.addEntry c prio cn ty sdh).getEntry c = some ⟨c, prio, ty, cn, sdh⟩) ∧
    (∀ e, m.getEntry c = some e → ∃ e', (m.addEntry c prio cn ty sdh).getEntry c = some e' ∧
      e'.cancel = (e.cancel || cn) ∧ e'.sdh = (e.sdh || sdh) ∧
      e'.ty = (if ty = 0 ∧ e.ty = 1 then 0 else e.ty) ∧
      e'.prio = (if e.ty = ty then prio else e.prio)) := by
  refine ⟨?_, ?_, ?_⟩
  · intro c' hc; rw [Msg.getEntry_addEntry]; simp [hc]
  · intro h; rw [Msg.getEntry_addEntry]; simp [h]
  · intro e h
    rw [Msg.getEntry_addEntry]
    simp only [↓reduceIte, h, Msg.mergeEntry]
    refine ⟨_, rfl, rfl, rfl, ?_, rfl⟩
    by_cases hh : ty = 0 ∧ e.ty = 1 <;> simp [hh]

/-- adding the same entry twice changes nothing but (in the Have→Block upgrade case) the priority -/
theorem c34_addEntry_idem (m : Msg) (c : Bytes) (prio : Int) (cn : Bool) (ty : Int) (sdh : Bool) :
    ∃ e1 e2, (m.addEntry c prio cn ty sdh).getEntry c = some e1 ∧
      ((m.addEntry c prio cn ty sdh).addEntry c prio cn ty sdh).getEntry c = some e2 ∧
      e2.ty = e1.ty ∧ e2.cancel = e1.cancel ∧ e2.sdh = e1.sdh ∧ e2.cid = e1.cid := by
  have h1 := Msg.getEntry_addEntry m c prio cn ty sdh c
  have h2 := Msg.getEntry_addEntry (m.addEntry c prio cn ty sdh) c prio cn ty sdh c
  simp only [↓reduceIte] at h1 h2
  rw [h1] at h2
  refine ⟨_, _, h1, h2, ?_⟩
  cases m.getEntry c with
  | none => simp [Msg.mergeEntry]
  | some e =>
    simp only [Msg.mergeEntry]
    by_cases h3 : ty = 0 ∧ e.ty = 1
    · obtain ⟨h3a, h3b⟩ := h3
      subst h3a
      simp [h3b, Bool.or_assoc]
    · simp [h3, Bool.or_assoc]

/-! ### Non-vacuity -/

/-- a toy hash: the CID of (prefix, data) is prefix ++ data; everything non-empty is a CID -/
def toyH : Hash :=
  { cast := fun b => !b.isEmpty, prefixOf := fun c => c.take 1, sum := fun p d => some (p ++ d), sumV0 := fun d => 0 :: d }

def toyMsg : Msg :=
  ((((({} : Msg).addEntry [7, 1] 5 false 1 true).addEntry [7, 1] 9 false 0 false).cancel [8]).addBlock [3, 4] [4]).addPresence [9] 1

instance (m : Msg) : Decidable m.WF := by unfold Msg.WF; infer_instance
instance (H : Hash) (m : Msg) : Decidable (m.Sendable H) := by unfold Msg.Sendable; infer_instance
instance (H : Hash) (m : Msg) : Decidable (m.Honest H) := by unfold Msg.Honest; infer_instance

example : toyMsg.WF ∧ toyMsg.Sendable toyH ∧ toyMsg.Honest toyH := by decide
example : (fromProto toyH (toProtoV1 toyH toyMsg)).map (·.wl) =
    some [⟨[7, 1], 5, 0, false, true⟩, ⟨[8], 0, 0, true, false⟩] := by decide
example : (fromProto toyH (toProtoV1 toyH toyMsg)).map (·.blocks) = some [([3, 4], [4])] := by decide
example : (fromProto toyH (toProtoV1 toyH toyMsg)).map (·.pres) = some [([9], 1)] := by decide
/-- an entry with an empty CID makes the parse fail -/
example : fromProto toyH (toProtoV1 toyH (({} : Msg).addEntry [] 1 false 0 false)) = none := by
  exact c34_reject_entry toyH _ _ _ rfl ⟨[], 1, false, 0, false⟩ (by simp [Msg.addEntry, Msg.getEntry, Entry.toPB]) (.inl rfl)
/-- a dishonest block is decoded under the CID its data hashes to -/
example : (fromProto toyH (toProtoV1 toyH (({} : Msg).addBlock [3, 9] [4]))).map (·.blocks) = some [([3, 4], [4])] := by
  decide

end C34
