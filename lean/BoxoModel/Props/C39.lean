import BoxoModel.C39.RoundTrip
import BoxoModel.C39.MimeLemmas
/-!
# C39 — Multipart file serialization round-trips

Property theorems only (helpers: `BoxoModel/C39/{Lemmas,Walk,RoundTrip}.lean`).
The statements quantify over every tree (`Kids`: any depth, any number of entries, duplicate names
allowed) whose entry names are ordinary path elements made of bytes (`NamesOK`: non-empty, not `.`,
not `..`, no `/` — the writer joins names with `path.Join`, so other names cannot survive, see
`c39_guard_necessary`), with arbitrary file contents and link targets, and every `AbsPath()` byte string of a file (it is part of the tree and round-trips in both modes), and — in form mode — every mode
below 2^32 and every time that is unset or a non-zero instant with int64 seconds (`MetaOK`).
`parse true` is the reader with the `fix:` commit, `parse false` the reader before it.
-/
namespace C39
open PathClean

/-- **Form mode round trip.** Serializing a tree and parsing it back yields the same tree: same names,
types, contents, link targets, modes and modification times; an unset mode (0) or time (`none`) stays unset. -/
theorem c39_roundtrip_form (ks : Kids) (hn : NamesOK ks) (hm : MetaOK ks) :
    parse true (serialize true ks) = ks := by
  unfold parse serialize
  have hf : needKids ks ≤ fuelFor (serKids true [[]] ks) := by
    have := needKids_le true [[]] ks
    unfold fuelFor; omega
  have := walk_serKids_form ks [] [] [] _ (by simp) (Or.inl rfl) hn hm hf trivial
  simp only [List.append_nil] at this
  have hd : dp [] = ['/'] := rfl
  rw [hd] at this
  rw [this]

/-- **Mixed mode round trip** (either reader): names, types, contents and link targets come back;
modes and times are not transported. -/
theorem c39_roundtrip_mixed (fixed : Bool) (ks : Kids) (hn : NamesOK ks) :
    parse fixed (serialize false ks) = stripKids ks := by
  unfold parse serialize
  have hf : needKids ks ≤ fuelFor (serKids false [[]] ks) := by
    have := needKids_le false [[]] ks
    unfold fuelFor; omega
  have := walk_serKids_mixed fixed ks [] [] [] _ (by simp) (Or.inl rfl) hn hf trivial
  simp only [List.append_nil] at this
  have hd : dp [] = ['/'] := rfl
  rw [hd] at this
  rw [this]

/-- `url.QueryUnescape` inverts `url.QueryEscape` on every byte string (used for the file names). -/
theorem c39_escape_roundtrip (s : Str) (hs : IsBytes s) : unescape (escape s) = some s :=
  unescape_escape s hs

/-- The header parameters written for a mode and a time are read back as that mode and time
(fixed reader); in particular no parameters at all (`mode = 0`, no time) read back as unset. -/
theorem c39_meta_roundtrip (mode : Nat) (mt : Option (Int × Nat)) (hv : ValidMeta mode mt)
    (stack : List Str) (name : Str) (ct : CType) (body abspath : Str) :
    fileInfo true (mkPart true stack name mode mt ct body abspath) = some ⟨mode, mt⟩ :=
  fileInfo_written mode mt hv stack name ct body abspath

/-- The `AbsPath()` of a file travels in the `abspath-encoded` header and is read back unchanged (both modes). -/
theorem c39_abspath_roundtrip (form : Bool) (stack : List Str) (name : Str) (mode : Nat) (mt : Option (Int × Nat))
    (body abspath : Str) (ha : IsBytes abspath) :
    absPathOf (mkPart form stack name mode mt .file body abspath) = abspath :=
  absPathOf_mkPart form stack name mode mt .file body abspath ha

/-- `mtime-nsecs` is read with the error of `strconv.ParseInt` ignored: where the parse succeeds the value
is the number, and an out-of-range value is clamped to the int64 bounds (then normalised by `time.Unix`). -/
theorem c39_nsecs_value :
    (∀ s i, parseDec64 s = some i → parseDecVal s = i) ∧
    parseDecVal "9223372036854775808".toList = 9223372036854775807 ∧
    parseDecVal "-9223372036854775809".toList = -9223372036854775808 ∧
    parseDecVal "abc".toList = 0 :=
  ⟨fun _ _ h => parseDecVal_of_parse h, by decide, by decide, by decide⟩

/-- **The textual header layer.** The `Content-Disposition` value the writer prints for a part
(`form-data; name="file[?…]"; filename="<escaped name>"`, or `attachment; filename="…"` in mixed mode) is read
back by the modelled fragment of `mime.ParseMediaType` as exactly the disposition kind, form name and escaped
file name the `Part` abstraction carries — for every stack, entry name, mode and time. -/
theorem c39_header_roundtrip (form : Bool) (stack : List Str) (name : Str) (mode : Nat) (mt : Option (Int × Nat))
    (ct : CType) (body abspath : Str) :
    let p := mkPart form stack name mode mt ct body abspath
    partFieldsOf (dispositionHeader form mode mt p.filename) = some (p.form, p.formName, p.filename) := by
  simp only [mkPart]
  exact partFieldsOf_written form mode mt _ (qsafe_formNameOf mode mt) (qsafe_escape _)

/-- The reader before the `fix:` commit: a file with a mode and no modification time comes back with
the Unix epoch as its time, and so does every symbolic link without a time. -/
theorem c39_unfixed_counterexample :
    parse false (serialize true (.cons "a".toList (.file ⟨420, none⟩ [] "x".toList) .nil))
      = .cons "a".toList (.file ⟨420, some (0, 0)⟩ [] "x".toList) .nil ∧
    parse false (serialize true (.cons "l".toList (.link none "t".toList) .nil))
      = .cons "l".toList (.link (some (0, 0)) "t".toList) .nil := by
  constructor <;> rfl

/-- The guard on names is necessary: the writer joins entry names with `path.Join`, so an entry called
`a/b` comes back as a directory `a` containing `b`, and an entry called `..` climbs out of its directory. -/
theorem c39_guard_necessary :
    parse true (serialize true (.cons "a/b".toList (.file ⟨0, none⟩ [] "x".toList) .nil))
      = .cons "a".toList (.dir ⟨0, none⟩ (.cons "b".toList (.file ⟨0, none⟩ [] "x".toList) .nil)) .nil ∧
    parse true (serialize true
        (.cons "d".toList (.dir ⟨0, none⟩ (.cons "..".toList (.file ⟨0, none⟩ [] "x".toList) .nil)) .nil))
      = .cons "d".toList (.dir ⟨0, none⟩ .nil) (.cons [] (.file ⟨0, none⟩ [] "x".toList) .nil) := by
  constructor <;> rfl

/-! Non-vacuity: a tree with every kind of entry, nested directories, names with reserved characters,
set and unset modes and times satisfies the hypotheses. -/
def sample : Kids :=
  .cons "a b%+;=\"".toList (.file ⟨420, some (1700000000, 5)⟩ "/abs/a b%".toList "hello".toList)
  (.cons "d".toList (.dir ⟨2147484141, none⟩
      (.cons "l".toList (.link (some (-5, 0)) "../t".toList)
      (.cons "e".toList (.dir ⟨0, some (0, 0)⟩ .nil) .nil)))
  (.cons "z".toList (.file ⟨0, none⟩ [] []) .nil))

example : NamesOK sample := by
  simp only [sample, NamesOK, NamesOKNode, NameOK, IsBytes]
  decide
example : MetaOK sample := by
  simp only [sample, MetaOK, MetaOKNode, ValidMeta, symlinkMode, zeroSecs]
  decide
end C39
