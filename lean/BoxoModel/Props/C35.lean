import BoxoModel.C35.Mark
import BoxoModel.C35.Types
import BoxoModel.C35.Loop
import BoxoModel.C35.Cache
/-!
# C35 — Bitswap per-peer want-list converges to the client's current wants

Property theorems only (the inductive invariant and its preservation by every step are in
`BoxoModel/C35/{Lemmas,Inv,Mark}.lean`).

`Reach cfg s` ranges over every interleaving of the producer calls (AddWants, AddBroadcastWantHaves,
AddCancels, handleResponse — each with arbitrary CID lists) with the sender's lock-delimited steps
(refresh, snapshot, fill, mark, deliver), for every configuration `cfg` (message size limit, HAVE
support, CID sizes), every rebroadcast threshold, every order of the cancel snapshot and every number
`k` of items that fit into a message (`Ev.fill k`; the Go loop's value is one of them).
`s.peerWL` is the replay of the delivered messages onto an empty `wantlist.Wantlist`;
`effPeer s` additionally applies the message that has been handed to the network but not yet delivered.
-/
namespace C35

/-- the client currently wants `c` from this peer (in a form the peer can serve) -/
def wantedFrom (cfg : Cfg) (s : St) (c : Nat) : Prop :=
  if cfg.supportsHave = true then s.pw c ≠ none ∨ s.bw c = true
  else s.pw c = some .block ∨ s.bw c = true

/-- the client wants `c` in some form (want-block, want-have or broadcast want-have) -/
def wantedAny (s : St) (c : Nat) : Prop := s.pw c ≠ none ∨ s.bw c = true

/-- **The peer's want-list is tracked by the queue's bookkeeping, in every reachable state**:
whatever the peer holds (counting the message in flight) is recorded as sent or has a cancel queued;
whatever is recorded as sent is at the peer or still pending; a recorded CID has no queued cancel. -/
theorem c35_peer_tracks {cfg : Cfg} {s : St} (h : Reach cfg s) (c : Nat) :
    ((effPeer s).has c = true → sentHas s.q c = true ∨ c ∈ s.q.cancels) ∧
    (sentHas s.q c = true →
      (effPeer s).has c = true ∨ s.q.peer.pending.has c = true ∨ s.q.bcst.pending.has c = true) ∧
    (sentHas s.q c = true → c ∉ s.q.cancels) := by
  obtain ⟨hi, _⟩ := reach_inv h
  refine ⟨hi.j2 c, fun hs => ?_, hi.j1 c⟩
  rcases hi.j3 c hs with h3 | h3 | h3
  · exact .inl h3
  · exact .inr (.inl (WL.blk_has h3))
  · exact .inr (.inr h3)

/-- **Idle exactness**: once the queue is idle (no extraction in progress, nothing pending, no cancel
queued) the peer's replayed want-list contains exactly the CIDs the client currently wants from it. -/
theorem c35_idle_exact {cfg : Cfg} {s : St} (h : Reach cfg s) (hq : s.quiet) (c : Nat) :
    s.peerWL.has c = true ↔ wantedFrom cfg s c := by
  obtain ⟨hi, hg⟩ := reach_inv h
  obtain ⟨q1, q2, q3, q4⟩ := hq
  have heff : effPeer s = s.peerWL := by
    unfold effPeer; cases hp : s.ph <;> simp_all [isIdle]
  have j2 := hi.j2 c; have j3 := hi.j3 c
  rw [heff] at j2 j3
  rw [q2, q3] at j3
  simp only [q4, List.not_mem_nil, or_false, WL.blk_nil, WL.has_nil, Bool.false_eq_true, sentHas,
    Bool.or_eq_true] at j2 j3
  have g4 := hg.g4; have g5 := hg.g5 c; have g6 := hg.g6 c
  rw [q2] at g4 g5; rw [q3] at g6
  simp only [WL.has_nil, WL.blk_nil, Bool.false_eq_true, false_or] at g4 g5 g6
  unfold wantedFrom
  constructor
  · intro hc
    by_cases hh : cfg.supportsHave = true
    · simp only [hh, ↓reduceIte]
      rcases j2 hc with h2 | h2
      · exact .inl (hg.g1 c (.inr h2))
      · exact .inr (hg.g2 c (.inr h2))
    · simp only [hh, ↓reduceIte]
      rcases j2 hc with h2 | h2
      · left
        apply hg.g3 c; right
        obtain ⟨e, he⟩ := WL.has_iff.mp h2
        exact blk_iff.mpr ⟨e, he, hi.j6 (by simpa using hh) c e he⟩
      · exact .inr (hg.g2 c (.inr h2))
  · intro hw
    by_cases hh : cfg.supportsHave = true
    · simp only [hh, ↓reduceIte] at hw
      rcases hw with hw | hw
      · exact j3 (.inl (g4 hh c hw))
      · exact j3 (.inr (g6 hw))
    · simp only [hh, ↓reduceIte] at hw
      rcases hw with hw | hw
      · exact j3 (.inl (WL.blk_has (g5 hw)))
      · exact j3 (.inr (g6 hw))

/-- **No zombie**: in an idle state a CID the client does not want (in particular: a cancelled one)
is not active at the peer. -/
theorem c35_no_zombie {cfg : Cfg} {s : St} (h : Reach cfg s) (hq : s.quiet) (c : Nat)
    (hc : ¬ wantedAny s c) : s.peerWL.has c = false := by
  cases hp : s.peerWL.has c with
  | false => rfl
  | true =>
    exfalso
    have := (c35_idle_exact h hq c).mp hp
    unfold wantedFrom at this
    unfold wantedAny at hc
    split at this
    · exact hc this
    · rcases this with h1 | h1
      · exact hc (.inl (by rw [h1]; simp))
      · exact hc (.inr h1)

/-- **A cancel is never lost** (all states, not only idle ones): if the peer holds — or is about to
receive — a want for a CID the client no longer wants, the cancel for it is queued. -/
theorem c35_cancel_queued {cfg : Cfg} {s : St} (h : Reach cfg s) (c : Nat)
    (hp : (effPeer s).has c = true) (hc : ¬ wantedAny s c) : c ∈ s.q.cancels := by
  obtain ⟨hi, hg⟩ := reach_inv h
  rcases hi.j2 c hp with h2 | h2
  · exfalso
    unfold wantedAny at hc
    simp only [sentHas, Bool.or_eq_true] at h2
    rcases h2 with h2 | h2
    · exact hc (.inl (hg.g1 c (.inr h2)))
    · exact hc (.inr (hg.g2 c (.inr h2)))
  · exact h2

/-- **No starvation** (all states): a CID the client wants from this peer is always in a pending or a
sent list — it is never dropped from the queue's bookkeeping. -/
theorem c35_no_starvation {cfg : Cfg} {s : St} (h : Reach cfg s) (c : Nat) (hw : wantedFrom cfg s c) :
    (s.q.peer.pending.has c = true ∨ s.q.bcst.pending.has c = true) ∨ sentHas s.q c = true := by
  obtain ⟨_, hg⟩ := reach_inv h
  unfold wantedFrom at hw
  simp only [sentHas, Bool.or_eq_true]
  by_cases hh : cfg.supportsHave = true
  · simp only [hh, ↓reduceIte] at hw
    rcases hw with hw | hw
    · rcases hg.g4 hh c hw with h4 | h4
      · exact .inl (.inl h4)
      · exact .inr (.inl h4)
    · rcases hg.g6 c hw with h6 | h6
      · exact .inl (.inr h6)
      · exact .inr (.inr h6)
  · simp only [hh, ↓reduceIte] at hw
    rcases hw with hw | hw
    · rcases hg.g5 c hw with h5 | h5
      · exact .inl (.inl (WL.blk_has h5))
      · exact .inr (.inl (WL.blk_has h5))
    · rcases hg.g6 c hw with h6 | h6
      · exact .inl (.inr h6)
      · exact .inr (.inr h6)

/-- … and what is recorded as sent but not yet at the peer is still pending, so it will be sent:
a wanted CID is at the peer, about to be delivered, or pending. -/
theorem c35_wanted_progress {cfg : Cfg} {s : St} (h : Reach cfg s) (c : Nat) (hw : wantedFrom cfg s c) :
    (effPeer s).has c = true ∨ s.q.peer.pending.has c = true ∨ s.q.bcst.pending.has c = true := by
  rcases c35_no_starvation h c hw with (h1 | h1) | h1
  · exact .inr (.inl h1)
  · exact .inr (.inr h1)
  · exact (c35_peer_tracks h c).2.1 h1

/-- **Strongest requested type** (receiver = `wantlist.Wantlist`, whose `Add` never downgrades): in an
idle state a CID the client wants as want-block is a want-block at the peer; without HAVE support so is
every broadcast want.  (The peer's type is never weaker than requested. It can be stronger: want-block,
send, cancel, want-have overrides the queued cancel and the peer keeps the want-block.) -/
theorem c35_idle_type {cfg : Cfg} {s : St} (h : Reach cfg s) (hq : s.quiet) (c : Nat) :
    (s.pw c = some .block → s.peerWL.blk c = true) ∧
    (cfg.supportsHave = false → s.bw c = true → s.peerWL.blk c = true) := by
  obtain ⟨_, hg⟩ := reach_inv h
  have ht := reach_tinv h
  obtain ⟨q1, q2, q3, q4⟩ := hq
  have heff : effPeer s = s.peerWL := by
    unfold effPeer; cases hp : s.ph <;> simp_all [isIdle]
  have t1 := ht.t1 c; have t2 := ht.t2
  have g5 := hg.g5 c; have g6 := hg.g6 c
  rw [heff] at t1 t2
  rw [q2] at t1 t2 g5
  rw [q3] at t2 g6
  simp only [WL.blk_nil, WL.has_nil, Bool.false_eq_true, false_or, or_false] at t1 t2 g5 g6
  exact ⟨fun hw => t1 (g5 hw), fun hh hw => by simpa using t2 hh c (g6 hw)⟩

/-- … and in every state: a want-block recorded as sent is a want-block at the peer (counting the
message in flight) or a want-block for it is still pending. -/
theorem c35_type_tracks {cfg : Cfg} {s : St} (h : Reach cfg s) (c : Nat) (hc : s.q.peer.sent.blk c = true) :
    (effPeer s).blk c = true ∨ s.q.peer.pending.blk c = true :=
  (reach_tinv h).t1 c hc

/-- **No lost wake-up** (the run loop, `runQueue`): whenever the sender is back in the loop's `select`
and work is queued (pending wants or cancels, i.e. `HasMessage()`), a work signal is waiting in
`outgoingWork`, and the loop listens for it or the debounce timer that makes it listen again is armed.
So `Ev.wake` is enabled at once or right after `Ev.timer`: the real loop does reach the idle states the
other theorems speak about — it cannot go to sleep on queued work. -/
theorem c35_no_lost_wakeup {cfg : Cfg} {s : St} (h : Reach cfg s) (hi : isIdle s.ph = true)
    (hw : workCount s.q > 0) :
    enabled cfg s .wake ∨ (enabled cfg s .timer ∧ enabled cfg (step cfg s .timer) .wake) := by
  have hl := reach_linv h
  have hs := hl.l1 hi hw
  rcases hl.l2 with h2 | h2
  · exact .inl ⟨hi, h2, hs⟩
  · exact .inr ⟨h2, hi, rfl, hs⟩

/-- the idle states are exactly: sender in the loop's select and no work queued -/
theorem c35_quiet_iff (s : St) : s.quiet ↔ (isIdle s.ph = true ∧ workCount s.q = 0) := by
  unfold St.quiet workCount
  constructor
  · rintro ⟨h1, h2, h3, h4⟩; simp [h1, h2, h3, h4]
  · rintro ⟨h1, h2⟩
    refine ⟨h1, ?_, ?_, ?_⟩ <;> apply List.eq_nil_of_length_eq_zero <;> omega

/-- wantlist operations as a small language, to state the cache theorem over every history -/
inductive WLOp where
  | add (c : Nat) (p : Int) (t : WT)
  | remove (c : Nat)
  | removeType (c : Nat) (t : WT)
  | entries

def WLOp.run (w : CWL) : WLOp → CWL
  | .add c p t => w.add c p t
  | .remove c => w.remove c
  | .removeType c t => w.removeType c t
  | .entries => (w.entries).1

/-- **The memoized `Entries()` slice of `wantlist.Wantlist` is transparent**: after any history of
Add / Remove / RemoveType / Entries calls, `Entries()` returns the sorted content of the current set
(every mutation goes through `put` / `delete`, which drop the cache). The message-queue model can
therefore represent a want-list by its set alone. -/
theorem c35_entries_cache_coherent (ops : List WLOp) :
    ((ops.foldl WLOp.run {}).entries).2 = (ops.foldl WLOp.run {}).set.entries := by
  have key : ∀ (ops : List WLOp) (w : CWL), w.Coherent → (ops.foldl WLOp.run w).Coherent := by
    intro ops
    induction ops with
    | nil => intro w h; exact h
    | cons o r ih =>
      intro w h
      apply ih
      cases o with
      | add c p t => exact CWL.coherent_add h c p t
      | remove c => exact CWL.coherent_remove w c
      | removeType c t => exact CWL.coherent_removeType h c t
      | entries => exact (CWL.coherent_entries h).1
  exact (CWL.coherent_entries (key ops {} CWL.coherent_init)).2.1

/-! ### Non-vacuity: concrete interleavings (decided by evaluation of the model) -/

def run (cfg : Cfg) (evs : List Ev) (s : St) : St := evs.foldl (step cfg) s

def cfgHave : Cfg := { maxSize := 2097152, supportsHave := true, cidLen := fun _ => 36 }
def cfgTiny : Cfg := { maxSize := 1, supportsHave := false, cidLen := fun _ => 36 }

instance (s : St) : Decidable s.quiet := by unfold St.quiet; infer_instance

instance (cfg : Cfg) (s : St) (e : Ev) : Decidable (enabled cfg s e) := by
  cases e <;> unfold enabled <;> infer_instance

/-- every event of the list is enabled when it is taken -/
def allEnabled (cfg : Cfg) : List Ev → St → Prop
  | [], _ => True
  | e :: r, s => enabled cfg s e ∧ allEnabled cfg r (step cfg s e)

instance (cfg : Cfg) : (evs : List Ev) → (s : St) → Decidable (allEnabled cfg evs s)
  | [], _ => isTrue trivial
  | e :: r, s =>
    have := instDecidableAllEnabled cfg r (step cfg s e)
    by unfold allEnabled; infer_instance

theorem reach_run (cfg : Cfg) (evs : List Ev) (s : St) (hs : Reach cfg s) (hen : allEnabled cfg evs s) :
    Reach cfg (run cfg evs s) := by
  induction evs generalizing s with
  | nil => exact hs
  | cons e r ih => exact ih _ (Reach.step e hs hen.1) hen.2

/-- the defect witness of DESIGN §6 (want, send, cancel, want, cancel) on the repaired queue … -/
def evsW1 : List Ev := [.want [0] [], .snap [], .fill 1, .mark, .deliver, .cancel [0], .want [0] [],
  .cancel [0], .snap [0], .fill 1, .mark, .deliver]
/-- … the same with the second want/cancel placed inside the unlocked fill phase … -/
def evsW2 : List Ev := [.want [0] [], .snap [], .fill 1, .mark, .deliver, .cancel [0], .snap [0],
  .want [0] [], .cancel [0], .fill 1, .mark, .deliver]
/-- … and three wants under a one-entry size limit without HAVE support -/
def evsW3 : List Ev := [.want [1] [2], .bcast [3], .snap [], .fill 1, .mark, .deliver,
  .snap [], .fill 1, .mark, .deliver]

example : Reach cfgHave (run cfgHave evsW1 {}) := reach_run _ _ _ .init (by decide)
example : Reach cfgHave (run cfgHave evsW2 {}) := reach_run _ _ _ .init (by decide)
example : Reach cfgTiny (run cfgTiny evsW3 {}) := reach_run _ _ _ .init (by decide)

/-- the cancel is sent: the idle peer list is empty after two messages -/
example : (run cfgHave evsW1 {}).quiet ∧ (run cfgHave evsW1 {}).peerWL = [] ∧ (run cfgHave evsW1 {}).clock = 2 := by
  decide
example : (run cfgHave evsW2 {}).quiet ∧ (run cfgHave evsW2 {}).peerWL = [] := by decide
/-- a non-trivial idle state (the want-have for 2 is dropped for a peer without HAVE support) -/
example : (run cfgTiny evsW3 {}).quiet ∧ (run cfgTiny evsW3 {}).peerWL.has 1 = true ∧
    (run cfgTiny evsW3 {}).peerWL.has 2 = false ∧ (run cfgTiny evsW3 {}).peerWL.has 3 = true := by decide

/-- types: without HAVE support the broadcast want 3 is a want-block at the peer -/
example : (run cfgTiny evsW3 {}).peerWL.blk 1 = true ∧ (run cfgTiny evsW3 {}).peerWL.blk 3 = true := by decide

/-- the lost wake-up witness (size limit of one entry, the entry that fits is cancelled during the fill
phase): the repaired queue signals the want that is left, the loop wakes and sends it -/
def evsW4 : List Ev := [.want [0, 1] [], .wake, .snap [], .fill 1, .cancel [0], .mark, .timer, .wake,
  .snap [], .fill 1, .mark, .deliver]
example : Reach cfgTiny (run cfgTiny evsW4 {}) := reach_run _ _ _ .init (by decide)
example : (run cfgTiny evsW4 {}).quiet ∧ (run cfgTiny evsW4 {}).peerWL.has 1 = true := by decide

end C35
