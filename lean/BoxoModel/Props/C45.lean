import BoxoModel.C45.Lemmas
/-!
# C45 — the autoconf cache survives interrupted writes

Property theorems only (helpers: `BoxoModel/C45/Lemmas.lean`, `Lib/FSLemmas.lean`).  They are about the
model of the REPAIRED code (`fix:` commit in autoconf: temp file + rename, and fall back to older cache
files), i.e. `P.atomic = true`, `P.fallbackOlder = true`, for an arbitrary `parse` function, an arbitrary
initial cache directory (any files, valid or garbage, left by any number of earlier updates or crashes —
`Inv` only asks that the cache directory is a real directory holding regular files), every document,
every metadata value, every cache size ≥ 1, and EVERY world the update passes through (one world per
file-system step, one step per byte written).
-/
namespace C45
open FS

/-- the hypotheses on one update, collected: repaired code, a cache directory in order, the four temp
names `os.CreateTemp` returns (unused, not cache-file names), the document parses, and the clock did not
go backwards (the new file name is the greatest cache-file name, compared as strings like the Go code does) -/
structure UpdateOK (P : Params) (w : World) (dir : Path) (T : Tmps) (cacheSize now : Nat) (data : Bytes) (v : Nat) : Prop where
  atomic : P.atomic = true
  fallbackOlder : P.fallbackOlder = true
  inv : Inv w dir
  tmp1 : TmpOK w dir T.cfg
  tmp2 : TmpOK w dir T.etag
  tmp3 : TmpOK w dir T.lm
  tmp4 : TmpOK w dir T.refresh
  size : 1 ≤ cacheSize
  parses : P.parse data = some v
  clock : ∀ nm, isCacheName nm = true → (find w (dir ++ [nm])).isSome = true → nm ≤ cfgName now

/-- **Crash safety.** In every world an update passes through — i.e. whatever byte the process stops at —
`GetCached` returns the new configuration or exactly what it returned before the update. -/
theorem c45_crash_safe (P : Params) (w : World) (dir : Path) (T : Tmps) (cacheSize now : Nat)
    (data etag lm refresh : Bytes) (v : Nat) (h : UpdateOK P w dir T cacheSize now data v) :
    ∀ w' ∈ (update P w dir T cacheSize now data etag lm refresh).visited,
      getCachedConfig P w' dir = some v ∨ getCachedConfig P w' dir = getCachedConfig P w dir := by
  intro w' hw'
  have := (update_spec P h.atomic h.fallbackOlder h.inv T h.tmp1 h.tmp2 h.tmp3 h.tmp4 cacheSize h.size now
    data etag lm refresh v h.parses h.clock).1 w' hw'
  exact this.2.symm

/-- **Never the fallback while a valid cached version exists**: if `GetCached` found a configuration
before the update, it finds one at every crash point. -/
theorem c45_never_fallback (P : Params) (w : World) (dir : Path) (T : Tmps) (cacheSize now : Nat)
    (data etag lm refresh : Bytes) (v : Nat) (h : UpdateOK P w dir T cacheSize now data v)
    (hbefore : getCachedConfig P w dir ≠ none) :
    ∀ w' ∈ (update P w dir T cacheSize now data etag lm refresh).visited, getCachedConfig P w' dir ≠ none := by
  intro w' hw'
  rcases c45_crash_safe P w dir T cacheSize now data etag lm refresh v h w' hw' with e | e
  · rw [e]; simp
  · rw [e]; exact hbefore

/-- **Never corrupt**: whatever `GetCached` returns at a crash point is the parse of a complete file that
was the result before, or the new document — in particular it is never the parse of a partial file. -/
theorem c45_never_corrupt (P : Params) (w : World) (dir : Path) (T : Tmps) (cacheSize now : Nat)
    (data etag lm refresh : Bytes) (v : Nat) (h : UpdateOK P w dir T cacheSize now data v) (x : Nat) :
    ∀ w' ∈ (update P w dir T cacheSize now data etag lm refresh).visited,
      getCachedConfig P w' dir = some x → x = v ∨ getCachedConfig P w dir = some x := by
  intro w' hw' hx
  rcases c45_crash_safe P w dir T cacheSize now data etag lm refresh v h w' hw' with e | e
  · left; rw [e] at hx; exact (Option.some.inj hx).symm
  · right; rw [← e]; exact hx

/-- a completed update is visible: `GetCached` returns the new configuration -/
theorem c45_complete (P : Params) (w : World) (dir : Path) (T : Tmps) (cacheSize now : Nat)
    (data etag lm refresh : Bytes) (v : Nat) (h : UpdateOK P w dir T cacheSize now data v) :
    getCachedConfig P (update P w dir T cacheSize now data etag lm refresh).last dir = some v :=
  (update_spec P h.atomic h.fallbackOlder h.inv T h.tmp1 h.tmp2 h.tmp3 h.tmp4 cacheSize h.size now
    data etag lm refresh v h.parses h.clock).2.2

/-- Worlds reachable from `w0` by any number of updates, each either completed or interrupted at an
arbitrary point; the index lists the versions fetched so far. -/
inductive Reach (P : Params) (dir : Path) (w0 : World) : List Nat → World → Prop where
  | start : Reach P dir w0 [] w0
  | complete {vs w} (T : Tmps) (cacheSize now : Nat) (data etag lm refresh : Bytes) (v : Nat) :
      Reach P dir w0 vs w → UpdateOK P w dir T cacheSize now data v →
      Reach P dir w0 (v :: vs) (update P w dir T cacheSize now data etag lm refresh).last
  | crash {vs w} (T : Tmps) (cacheSize now : Nat) (data etag lm refresh : Bytes) (v : Nat) (w' : World) :
      Reach P dir w0 vs w → UpdateOK P w dir T cacheSize now data v →
      w' ∈ (update P w dir T cacheSize now data etag lm refresh).visited →
      Reach P dir w0 (v :: vs) w'

/-- **Any number of earlier updates and crashes**: every reachable cache directory is again in order (so
`c45_crash_safe` applies to the next update), and `GetCached` returns what it returned at the start or a
version that was fetched (and parsed) since — never anything else, and never the fallback if it was not
the fallback at the start. -/
theorem c45_history (P : Params) (dir : Path) (w0 : World) (h0 : Inv w0 dir) (vs : List Nat) (w : World)
    (h : Reach P dir w0 vs w) :
    Inv w dir ∧ (getCachedConfig P w dir = getCachedConfig P w0 dir ∨ ∃ v ∈ vs, getCachedConfig P w dir = some v) := by
  induction h with
  | start => exact ⟨h0, Or.inl rfl⟩
  | complete T cacheSize now data etag lm refresh v _ hu _ =>
    have := update_spec P hu.atomic hu.fallbackOlder hu.inv T hu.tmp1 hu.tmp2 hu.tmp3 hu.tmp4 cacheSize hu.size now
      data etag lm refresh v hu.parses hu.clock
    exact ⟨this.2.1, Or.inr ⟨v, by simp, this.2.2⟩⟩
  | crash T cacheSize now data etag lm refresh v w' _ hu hw' ih =>
    have := (update_spec P hu.atomic hu.fallbackOlder hu.inv T hu.tmp1 hu.tmp2 hu.tmp3 hu.tmp4 cacheSize hu.size now
      data etag lm refresh v hu.parses hu.clock).1 w' hw'
    refine ⟨this.1, ?_⟩
    rcases this.2 with e | e
    · rcases ih.2 with e2 | ⟨x, hx, e2⟩
      · exact Or.inl (e.trans e2)
      · exact Or.inr ⟨x, by simp [hx], e.trans e2⟩
    · exact Or.inr ⟨v, by simp, e⟩

/-! ### non-vacuity -/

/-- an empty cache directory `/cache` -/
def w0 : World := AMap.insert FS.empty ["cache"] (dirNode 0o755)

example : Inv w0 ["cache"] := by
  refine ⟨⟨by decide, fun pre hp => ?_⟩, fun nm n hf => ?_⟩
  · rcases List.prefix_cons_iff.mp hp with e | ⟨t, e, ht⟩
    · subst e; decide
    · subst e; simp at ht; subst ht; decide
  · simp [w0, FS.empty, find, AMap.insert, AMap.erase, AMap.find_cons] at hf

def P0 : Params := { parse := fun b => if b = [1] then some 7 else none }
def T0 : Tmps := { cfg := ".tmp-1", etag := ".tmp-2", lm := ".tmp-3", refresh := ".tmp-4" }

theorem tmpOK0 (tmp : String) (h1 : simple tmp = true) (h2 : isCacheName tmp = false) (h3 : tmp ≠ etagFile)
    (h4 : tmp ≠ lastModifiedFile) (h5 : tmp ≠ lastRefreshFile) : TmpOK w0 ["cache"] tmp :=
  ⟨h1, h2, h3, h4, h5, by simp [w0, FS.empty, find, AMap.insert, AMap.erase, AMap.find_cons]⟩

/-- the hypotheses of the theorems are satisfiable (first update into an empty cache directory) -/
example : UpdateOK P0 w0 ["cache"] T0 3 1700000000 [1] 7 where
  atomic := rfl
  fallbackOlder := rfl
  inv := by
    refine ⟨⟨by decide, fun pre hp => ?_⟩, fun nm n hf => ?_⟩
    · rcases List.prefix_cons_iff.mp hp with e | ⟨t, e, ht⟩
      · subst e; decide
      · subst e; simp at ht; subst ht; decide
    · simp [w0, FS.empty, find, AMap.insert, AMap.erase, AMap.find_cons] at hf
  tmp1 := tmpOK0 _ (by decide) (by decide) (by decide) (by decide) (by decide)
  tmp2 := tmpOK0 _ (by decide) (by decide) (by decide) (by decide) (by decide)
  tmp3 := tmpOK0 _ (by decide) (by decide) (by decide) (by decide) (by decide)
  tmp4 := tmpOK0 _ (by decide) (by decide) (by decide) (by decide) (by decide)
  size := by decide
  parses := by decide
  clock := fun nm _ hp => by simp [w0, FS.empty, find, AMap.insert, AMap.erase, AMap.find_cons] at hp

example : isCacheName "autoconf-1700000000.json" = true := by decide
example : isCacheName ".tmp-123456" = false ∧ isCacheName etagFile = false ∧ isCacheName lastRefreshFile = false := by decide

/-- **No assumption on the clock** (second `fix:`: the cleanup keeps the newest `cacheSize` USABLE files):
whatever names the existing cache files carry — junk with a future time stamp, a clock that stepped back —
at every crash point `GetCached` either returns exactly what it returned before the update or SOME cached
configuration; and after the completed update it returns some cached configuration.  So a successful
fetch can never lead to the built-in fallback, and a usable cache is never lost. -/
theorem c45_never_fallback_any_clock (P : Params) (w : World) (dir : Path) (T : Tmps) (cacheSize now : Nat)
    (data etag lm refresh : Bytes) (v : Nat)
    (hA : P.atomic = true) (hB : P.fallbackOlder = true) (hC : P.validCleanup = true) (inv : Inv w dir)
    (t1 : TmpOK w dir T.cfg) (t2 : TmpOK w dir T.etag) (t3 : TmpOK w dir T.lm) (t4 : TmpOK w dir T.refresh)
    (size : 1 ≤ cacheSize) (parses : P.parse data = some v) :
    (∀ w' ∈ (update P w dir T cacheSize now data etag lm refresh).visited,
      getCachedConfig P w' dir = getCachedConfig P w dir ∨ getCachedConfig P w' dir ≠ none) ∧
    getCachedConfig P (update P w dir T cacheSize now data etag lm refresh).last dir ≠ none := by
  obtain ⟨h1, h2⟩ := update_valid P hA hB hC inv T t1 t2 t3 t4 cacheSize size now data etag lm refresh v parses
  refine ⟨fun w' hw' => ?_, ?_⟩
  · rcases (h1 w' hw').2 with e | e
    · exact Or.inl e
    · right; intro hn; rw [hn] at e; simp at e
  · have := h2.isSome hB
    intro hn; rw [hn] at this; simp at this

/-- **The refreshing read with the network down** (third `fix:`: a missing `.last-refresh` means "stale",
not "unusable"): `GetCachedOrRefresh` whose fetch fails returns exactly what `GetCached` returns, in every
world — so all theorems above hold for it as well, at every crash point. -/
theorem c45_refresh_offline (P : Params) (hR : P.tolerantRefresh = true) (w : World) (dir : Path) :
    getCachedOrRefreshOffline P w dir = getCachedConfig P w dir := by
  unfold getCachedOrRefreshOffline
  cases getCachedConfig P w dir <;> simp [hR]

/-- **Power loss after the rename** (file data not durable: no `fsync` before the rename).  If, after a
power failure, the new cache file — under a name that did not exist before — holds anything that does not
parse (by the stated law of `parse`: an empty file or any proper prefix of the document), while the other
cache files are as before the update, `GetCached` returns exactly what it returned before the update.
(A rename that was lost altogether is a pre-rename world, covered by `c45_crash_safe`.)  Not covered:
a same-named older file replaced by the non-durable one, and file systems that reorder more than that. -/
theorem c45_power_loss (P : Params) (hB : P.fallbackOlder = true) (w w' : World) (dir : Path) (now : Nat)
    (I : Inv w dir) (I' : Inv w' dir) (hfresh : find w (dir ++ [cfgName now]) = none)
    (n : Node) (hn : find w' (dir ++ [cfgName now]) = some n) (hbad : P.parse n.data = none)
    (hsame : ∀ x, isCacheName x = true → x ≠ cfgName now → find w' (dir ++ [x]) = find w (dir ++ [x])) :
    getCachedConfig P w' dir = getCachedConfig P w dir :=
  getCached_extra_unusable P hB I I' (cfgName now) (isCacheName_cfgName now) hfresh n hn hbad hsame

/-! ### the code before the fix violates the property (concrete witnesses, evaluated by the kernel) -/

/-- the unrepaired code: `os.WriteFile` on the final name, only the newest file is tried -/
def Pold : Params :=
  { parse := fun b => if b = [1] then some 1 else if b = [2, 2] then some 2 else none,
    atomic := false, fallbackOlder := false }

/-- a cache directory holding one valid cached version, written at second 1000000001 -/
def wOld : World :=
  AMap.insert (AMap.insert FS.empty ["cache"] (dirNode 0o755))
    ["cache", "autoconf-1000000001.json"] (fileNode 0o600 [1])

/-- **Counterexample (unrepaired code).** A valid cached version exists (`GetCached` = version 1); an update
one second later that stops right after `os.WriteFile` has created the new file leaves a world in which
`GetCached` falls back — `c45_never_fallback` fails for `atomic = false`, `fallbackOlder = false`. -/
theorem c45_unfixed_counterexample :
    getCachedConfig Pold wOld ["cache"] = some 1 ∧
    ∃ w' ∈ (update Pold wOld ["cache"] T0 3 1000000002 [2, 2] [] [] [48]).visited,
      getCachedConfig Pold w' ["cache"] = none := by
  refine ⟨by decide, (update Pold wOld ["cache"] T0 3 1000000002 [2, 2] [] [] [48]).visited.head!, ?_, ?_⟩ <;> decide

/-- **Counterexample (atomic write alone reverted).** Even with the fall-back to older files, the non-atomic
write loses the cache when two updates fall into the same second: the only valid copy is truncated. -/
theorem c45_nonatomic_same_second_counterexample :
    ∃ w' ∈ (update { Pold with fallbackOlder := true } wOld ["cache"] T0 3 1000000001 [2, 2] [] [] [48]).visited,
      getCachedConfig { Pold with fallbackOlder := true } w' ["cache"] = none := by
  refine ⟨(update { Pold with fallbackOlder := true } wOld ["cache"] T0 3 1000000001 [2, 2] [] [] [48]).visited.head!, ?_, ?_⟩ <;> decide

/-- the repaired code on the same two witnesses: no visited world falls back (instances of
`c45_never_fallback`, re-checked here by evaluation) -/
example : ((update { Pold with atomic := true, fallbackOlder := true } wOld ["cache"] T0 3 1000000002 [2, 2] [] [] [48]).visited.all
    fun w' => (getCachedConfig { Pold with atomic := true, fallbackOlder := true } w' ["cache"]).isSome) = true := by decide
example : ((update { Pold with atomic := true, fallbackOlder := true } wOld ["cache"] T0 3 1000000001 [2, 2] [] [] [48]).visited.all
    fun w' => (getCachedConfig { Pold with atomic := true, fallbackOlder := true } w' ["cache"]).isSome) = true := by decide

/-- `listCacheFiles` compares decimal timestamps as strings: across a change of the digit count the order
is wrong (999999999 s = 2001-09-09, next change in 2286) — the reason for the `clock` hypothesis being
stated on names. -/
example : cfgName 1000000000 ≤ cfgName 999999999 := by decide

/-- **Counterexample (cleanup by name only, `validCleanup = false`).** Cache size 1, a junk file named one
second in the future, a valid version from two seconds ago: the update writes the new valid file, and the
cleanup then keeps the junk (newest name) and removes both valid versions — the COMPLETED update ends
with `GetCached` = fallback. -/
theorem c45_cleanup_counterexample :
    let P : Params := { Pold with atomic := true, fallbackOlder := true, validCleanup := false }
    let w : World := AMap.insert wOld ["cache", "autoconf-1000000004.json"] (fileNode 0o600 [7, 7])
    getCachedConfig P w ["cache"] = some 1 ∧
    getCachedConfig P (update P w ["cache"] T0 1 1000000003 [2, 2] [] [] [48]).last ["cache"] = none := by
  decide

/-- the repaired cleanup on the same witness keeps the new version -/
example :
    let P : Params := { Pold with atomic := true, fallbackOlder := true, validCleanup := true }
    let w : World := AMap.insert wOld ["cache", "autoconf-1000000004.json"] (fileNode 0o600 [7, 7])
    getCachedConfig P (update P w ["cache"] T0 1 1000000003 [2, 2] [] [] [48]).last ["cache"] = some 2 := by
  decide

/-- **Counterexample (`.last-refresh` required, `tolerantRefresh = false`).** First update into an empty
cache directory, stopped after the config file was renamed into place and before `.last-refresh` exists:
`GetCached` returns the new version, `GetCachedOrRefresh` with a failing fetch returns the fallback. -/
theorem c45_refresh_counterexample :
    let P : Params := { Pold with atomic := true, fallbackOlder := true, tolerantRefresh := false }
    ∃ w' ∈ (update P w0 ["cache"] T0 3 1000000003 [2, 2] [] [] [48]).visited,
      getCachedConfig P w' ["cache"] = some 2 ∧ getCachedOrRefreshOffline P w' ["cache"] = none := by
  refine ⟨(update { Pold with atomic := true, fallbackOlder := true, tolerantRefresh := false } w0 ["cache"] T0 3
    1000000003 [2, 2] [] [] [48]).visited.getD 3 w0, ?_, ?_⟩ <;> decide

end C45
