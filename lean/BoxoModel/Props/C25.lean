import BoxoModel.C25.Lemmas
/-!
# C25 — IPNS validation is unforgeable and self-consistent

Property theorems only. Every theorem holds for an ARBITRARY signature scheme / key codec / peer-ID
derivation `C : Crypto`, CBOR decoder `decode`, time parser `parseTime`, path parser `parsePath` and
clock value `now`; the only law used is stated as a hypothesis where needed
(`InlineLaw`: the key inlined in a peer ID hashes to that peer ID).  That a party without the private
key cannot make `C.verify` true for new data is the EUF-CMA property of the scheme: assumed, not proved.
-/
namespace C25

/-- the public key extracted from an identity-multihash peer ID is the key that peer ID names -/
def InlineLaw (C : Crypto) : Prop := ∀ n pk, C.inlineKey n = some pk → C.nameOf pk = n

/-- A record passes validation for a name ONLY IF: a key whose peer ID is that name (embedded in the
record or inlined in the name) verifies the V2 signature over "ipns-signature:" ++ data, the record is
within the size limit, data and signature are non-empty, and the EOL read from the signed data has not
passed. -/
theorem c25_valid_implies (C : Crypto) (hl : InlineLaw C) (decode : Bytes → Option Node)
    (parseTime : Bytes → Option Int) (now : Int) (r : Record) (name : Nat)
    (h : validateWithName C decode parseTime now r name = .ok ()) :
    ∃ pk, extractKey C r name = .ok pk ∧ C.nameOf pk = name ∧
      C.verify pk (sigPrefix ++ r.pb.data) r.pb.sigV2 = true ∧
      r.pb.size ≤ maxRecordSize ∧ r.pb.sigV2 ≠ [] ∧ r.pb.data ≠ [] ∧
      ∃ eol, validity parseTime r = .ok eol ∧ now ≤ eol := by
  unfold validateWithName at h
  cases hk : extractKey C r name with
  | error e => simp [hk] at h
  | ok pk =>
    simp only [hk] at h
    have hv := validate_ok C decode parseTime now r pk h
    refine ⟨pk, rfl, ?_, hv.2.2.2.1, hv.1, hv.2.1, hv.2.2.1, hv.2.2.2.2.2.1⟩
    unfold extractKey at hk
    split at hk
    · split at hk
      · simp at hk
      · rename_i pk' _
        split at hk
        · simp at hk
        · rename_i hne
          simp only [Except.ok.injEq] at hk
          subst hk
          simpa using hne
    · split at hk
      · simp at hk
      · rename_i pk' hi
        simp only [Except.ok.injEq] at hk
        subst hk
        exact hl name pk' hi

/-- The same through `Validator.Validate` on bytes: additionally the value unmarshalled within the
size limit and the record's node is the decoding of its `data` field. -/
theorem c25_validator_implies (C : Crypto) (hl : InlineLaw C) (decode : Bytes → Option Node)
    (parseTime : Bytes → Option Int) (now : Int) (name : Option Nat) (rawLen : Nat) (pb : Option Pb)
    (h : validatorValidate C decode parseTime now name rawLen pb = .ok ()) :
    ∃ n p r, name = some n ∧ pb = some p ∧ unmarshal decode rawLen pb = .ok r ∧ r.pb = p ∧
      decode p.data = some r.node ∧ rawLen ≤ maxRecordSize ∧
      validateWithName C decode parseTime now r n = .ok () := by
  unfold validatorValidate at h
  cases name with
  | none => simp at h
  | some n =>
    simp only at h
    cases hu : unmarshal decode rawLen pb with
    | error e => simp [hu] at h
    | ok r =>
      simp only [hu] at h
      unfold unmarshal at hu
      split at hu
      · simp at hu
      · rename_i hlen
        cases pb with
        | none => simp at hu
        | some p =>
          simp only at hu
          split at hu
          · simp at hu
          · cases hd : decode p.data with
            | none => simp [hd] at hu
            | some nd =>
              simp only [hd, Except.ok.injEq] at hu
              subst hu
              exact ⟨n, p, _, rfl, rfl, by simp [unmarshal, hlen, hd, *], rfl, hd, by omega, h⟩

/-- Every accessor of an unmarshalled record is a function of the signed `data` bytes alone: two
records with the same `data` report the same Sequence, TTL, ValidityType, Validity and Value, whatever
their legacy protobuf fields, signatures or embedded keys are. -/
theorem c25_accessors_signed (decode : Bytes → Option Node) (parseTime : Bytes → Option Int)
    (parsePath : Bytes → Option String) (l1 l2 : Nat) (pb1 pb2 : Pb) (r1 r2 : Record)
    (h1 : unmarshal decode l1 (some pb1) = .ok r1) (h2 : unmarshal decode l2 (some pb2) = .ok r2)
    (hd : pb1.data = pb2.data) :
    sequence r1 = sequence r2 ∧ ttl r1 = ttl r2 ∧ validityType r1 = validityType r2 ∧
    validity parseTime r1 = validity parseTime r2 ∧ value parsePath r1 = value parsePath r2 := by
  have node_of : ∀ l pb r, unmarshal decode l (some pb) = .ok r → decode pb.data = some r.node := by
    intro l pb r h
    unfold unmarshal at h
    split at h
    · simp at h
    · simp only at h
      split at h
      · simp at h
      · cases hdd : decode pb.data with
        | none => simp [hdd] at h
        | some nd => simp only [hdd, Except.ok.injEq] at h; subst h; rfl
  have e1 := node_of _ _ _ h1
  have e2 := node_of _ _ _ h2
  rw [hd, e2] at e1
  have hn : r2.node = r1.node := by simpa using e1
  simp [sequence, ttl, validityType, validity, value, getInt, getBytes, hn]

/-- When the legacy check runs (SignatureV1 or Value present), a record that passes validation has
all five legacy fields equal to what the signed data says (sequence / TTL as uint64). -/
theorem c25_legacy_agree_partial (C : Crypto) (decode : Bytes → Option Node) (parseTime : Bytes → Option Int)
    (now : Int) (r : Record) (pk : Nat) (hg : legacyGuard r.pb)
    (h : validate C decode parseTime now r pk = .ok ()) :
    ∃ nd, decode r.pb.data = some nd ∧ LegacyAgree r.pb nd :=
  cborMatchesPb_ok decode r.pb ((validate_ok C decode parseTime now r pk h).2.2.2.2.1 hg)

/-- Contrapositive, the form of the property text: under the guard, a legacy field that disagrees with
the signed data makes validation fail. NOT true without the guard: `c25_legacy_unchecked_counterexample`. -/
theorem c25_legacy_mismatch_partial (C : Crypto) (decode : Bytes → Option Node) (parseTime : Bytes → Option Int)
    (now : Int) (r : Record) (pk : Nat) (nd : Node) (hg : legacyGuard r.pb) (hd : decode r.pb.data = some nd)
    (hdis : ¬ LegacyAgree r.pb nd) : validate C decode parseTime now r pk ≠ .ok () := by
  intro h
  obtain ⟨nd', h1, h2⟩ := c25_legacy_agree_partial C decode parseTime now r pk hg h
  rw [hd] at h1
  simp only [Option.some.injEq] at h1
  subst h1
  exact hdis h2

/-- Deleting the legacy `sequence` (or `ttl`) protobuf field of a V1+V2 record: a legacy reader takes
the absent proto3-optional field as 0 (`GetSequence()`/`GetTtl()`), so validation must — and does —
fail whenever the signed Sequence (TTL) is not 0. -/
theorem c25_deleted_legacy_field (C : Crypto) (decode : Bytes → Option Node) (parseTime : Bytes → Option Int)
    (now : Int) (r : Record) (pk : Nat) (nd : Node) (i : Int) (hg : legacyGuard r.pb)
    (hd : decode r.pb.data = some nd) :
    (lookup nd "Sequence" = some (.int i) → r.pb.sequence = 0 → toU64 i ≠ 0 →
      validate C decode parseTime now r pk ≠ .ok ()) ∧
    (lookup nd "TTL" = some (.int i) → r.pb.ttl = 0 → toU64 i ≠ 0 →
      validate C decode parseTime now r pk ≠ .ok ()) := by
  constructor
  · intro hl h0 hne
    apply c25_legacy_mismatch_partial C decode parseTime now r pk nd hg hd
    intro ha
    obtain ⟨j, hj, hs⟩ := ha.2.2.2.1
    rw [hl] at hj
    simp only [Option.some.injEq, CVal.int.injEq] at hj
    subst hj
    rw [h0] at hs
    exact hne hs.symm
  · intro hl h0 hne
    apply c25_legacy_mismatch_partial C decode parseTime now r pk nd hg hd
    intro ha
    obtain ⟨j, hj, hs⟩ := ha.2.2.2.2
    rw [hl] at hj
    simp only [Option.some.injEq, CVal.int.injEq] at hj
    subst hj
    rw [h0] at hs
    exact hne hs.symm

/-- Known finding (spec-tolerated): a V2-only record (no Value, no SignatureV1) whose legacy Sequence
field was forged to disagree with the signed data still passes validation. -/
theorem c25_legacy_unchecked_counterexample :
    ∃ (C : Crypto) (decode : Bytes → Option Node) (parseTime : Bytes → Option Int) (r : Record) (nd : Node),
      InlineLaw C ∧ decode r.pb.data = some nd ∧ r.node = nd ∧ ¬ LegacyAgree r.pb nd ∧
      validateWithName C decode parseTime 0 r 7 = .ok () := by
  let nd : Node := [("Sequence", .int 1), ("TTL", .int 0), ("Validity", .bytes [1]), ("ValidityType", .int 0),
    ("Value", .bytes [2])]
  refine ⟨⟨fun _ _ _ => true, fun _ => none, fun _ => 7, fun n => if n = 7 then some 3 else none⟩,
    fun _ => some nd, fun _ => some 5,
    ⟨{ sequence := 99, sigV2 := [1], data := [1], size := 10 }, nd⟩, nd, ?_, rfl, rfl, ?_, by decide⟩
  · intro n pk h
    simp only at h
    split at h
    · rename_i hn; exact hn.symm
    · simp at h
  · intro h
    obtain ⟨i, hi, hs⟩ := h.2.2.2.1
    have : i = 1 := by
      have : lookup nd "Sequence" = some (.int 1) := by decide
      rw [this] at hi
      simpa using hi.symm
    subst this
    exact absurd hs (by decide)

/-- Changing the signed data, the V2 signature or the key so that the scheme rejects the triple makes
validation fail: validation never succeeds without `verify` accepting exactly
(key, "ipns-signature:" ++ data, signatureV2). -/
theorem c25_data_tamper (C : Crypto) (decode : Bytes → Option Node) (parseTime : Bytes → Option Int)
    (now : Int) (r : Record) (pk : Nat) (hv : C.verify pk (sigPrefix ++ r.pb.data) r.pb.sigV2 = false) :
    validate C decode parseTime now r pk ≠ .ok () := by
  intro h
  have := (validate_ok C decode parseTime now r pk h).2.2.2.1
  rw [hv] at this
  simp at this

/-- An embedded public key that does not hash to the name (or does not parse) is rejected before any
signature is looked at; a record without an embedded key is checked with the key inlined in the name. -/
theorem c25_key_tamper (C : Crypto) (decode : Bytes → Option Node) (parseTime : Bytes → Option Int)
    (now : Int) (r : Record) (name : Nat) (hk : r.pb.pubKey ≠ []) :
    (C.parseKey r.pb.pubKey = none → validateWithName C decode parseTime now r name = .error .invalidKey) ∧
    (∀ pk, C.parseKey r.pb.pubKey = some pk → C.nameOf pk ≠ name →
      validateWithName C decode parseTime now r name = .error .keyMismatch) := by
  have hlen : (r.pb.pubKey.length != 0) = true := by
    have : r.pb.pubKey.length ≠ 0 := fun e => hk (List.eq_nil_of_length_eq_zero e)
    simp [this]
  constructor
  · intro hp; simp [validateWithName, extractKey, hlen, hp]
  · intro pk hp hn
    have : (C.nameOf pk != name) = true := by simp [hn]
    simp [validateWithName, extractKey, hlen, hp, this]

/-- With a nil key book `Validator.Validate` is `ValidateWithName` after unmarshalling. -/
theorem c25_validator_nil_book (C : Crypto) (decode : Bytes → Option Node) (parseTime : Bytes → Option Int)
    (now : Int) (name : Option Nat) (rawLen : Nat) (pb : Option Pb) :
    validatorValidateKB C decode parseTime now none name rawLen pb =
      validatorValidate C decode parseTime now name rawLen pb := by
  unfold validatorValidateKB validatorValidate
  cases name with
  | none => rfl
  | some n =>
    simp only
    cases unmarshal decode rawLen pb with
    | error e => rfl
    | ok r =>
      simp only [getPublicKey, validateWithName]
      cases hk : extractKey C r n with
      | ok pk => rfl
      | error e => cases e <;> rfl

/-- Self-consistency of the embedded key, for EVERY key book (nil, empty, or already holding the
name's key): a record whose embedded public key does not parse is rejected with ErrInvalidPublicKey,
and one whose embedded key hashes to another name with ErrPublicKeyMismatch — the key book is only
consulted when record and name carry no key at all. (A validated record's `PubKey()` never fails.) -/
theorem c25_bad_embedded_key_any_book (C : Crypto) (decode : Bytes → Option Node) (parseTime : Bytes → Option Int)
    (now : Int) (book : Option (Nat → Option Nat)) (name rawLen : Nat) (pb : Pb) (r : Record)
    (hu : unmarshal decode rawLen (some pb) = .ok r) (hk : r.pb.pubKey ≠ []) :
    (C.parseKey r.pb.pubKey = none →
      validatorValidateKB C decode parseTime now book (some name) rawLen (some pb) = .error .invalidKey) ∧
    (∀ pk, C.parseKey r.pb.pubKey = some pk → C.nameOf pk ≠ name →
      validatorValidateKB C decode parseTime now book (some name) rawLen (some pb) = .error .keyMismatch) := by
  have hlen : (r.pb.pubKey.length != 0) = true := by
    have : r.pb.pubKey.length ≠ 0 := fun e => hk (List.eq_nil_of_length_eq_zero e)
    simp [this]
  constructor
  · intro hp
    simp [validatorValidateKB, hu, getPublicKey, extractKey, hlen, hp]
  · intro pk hp hn
    have : (C.nameOf pk != name) = true := by simp [hn]
    simp [validatorValidateKB, hu, getPublicKey, extractKey, hlen, hp, this]

/-- With a key book, a record that validates was verified either with the key it embeds / its name
inlines, or — only when there is no such key — with the book's key for that name. -/
theorem c25_validator_book_implies (C : Crypto) (decode : Bytes → Option Node) (parseTime : Bytes → Option Int)
    (now : Int) (book : Option (Nat → Option Nat)) (name rawLen : Nat) (pb : Option Pb)
    (h : validatorValidateKB C decode parseTime now book (some name) rawLen pb = .ok ()) :
    ∃ r pk, unmarshal decode rawLen pb = .ok r ∧
      (extractKey C r name = .ok pk ∨
        (extractKey C r name = .error .keyNotFound ∧ ∃ kb, book = some kb ∧ kb name = some pk)) ∧
      C.verify pk (sigPrefix ++ r.pb.data) r.pb.sigV2 = true := by
  unfold validatorValidateKB at h
  simp only at h
  cases hu : unmarshal decode rawLen pb with
  | error e => simp [hu] at h
  | ok r =>
    simp only [hu] at h
    cases hg : getPublicKey C book r name with
    | error e => simp [hg] at h
    | ok pk =>
      simp only [hg] at h
      refine ⟨r, pk, rfl, ?_, (validate_ok C decode parseTime now r pk h).2.2.2.1⟩
      unfold getPublicKey at hg
      cases he : extractKey C r name with
      | ok pk' => simp only [he, Except.ok.injEq] at hg; subst hg; exact .inl rfl
      | error e =>
        rw [he] at hg
        cases e <;> simp only at hg <;> try (simp at hg)
        cases book with
        | none => simp at hg
        | some kb =>
          simp only at hg
          cases hkb : kb name with
          | none => simp [hkb] at hg
          | some pk' =>
            simp only [hkb, Except.ok.injEq] at hg
            subst hg
            exact .inr ⟨rfl, kb, rfl, hkb⟩

/-- Expired records and negative TTLs are rejected. -/
theorem c25_expired_or_negative_ttl (C : Crypto) (decode : Bytes → Option Node) (parseTime : Bytes → Option Int)
    (now : Int) (r : Record) (pk : Nat) (h : validate C decode parseTime now r pk = .ok ()) :
    (∀ eol, validity parseTime r = .ok eol → now ≤ eol) ∧ (∀ t, ttl r = .ok t → 0 ≤ t) := by
  have hv := validate_ok C decode parseTime now r pk h
  obtain ⟨eol, he, hle⟩ := hv.2.2.2.2.2.1
  refine ⟨?_, hv.2.2.2.2.2.2⟩
  intro eol' he'
  rw [he] at he'
  simp only [Except.ok.injEq] at he'
  omega

/-! Non-vacuity: a V1-compatible record that validates, and the same record with a forged legacy
sequence that does not. -/
def exNode : Node := [("TTL", .int 60), ("Value", .bytes [47, 105]), ("Sequence", .int (-1)),
  ("Validity", .bytes [50]), ("ValidityType", .int 0)]
def exC : Crypto := ⟨fun pk d s => pk == 3 && s == [9] && d == sigPrefix ++ [1, 2], fun _ => some 3, fun _ => 7, fun _ => none⟩
def exPb : Pb where
  value := [47, 105]
  sigV1 := [8]
  validity := [50]
  sequence := 18446744073709551615
  ttl := 60
  pubKey := [5]
  sigV2 := [9]
  data := [1, 2]
  size := 100

example : validateWithName exC (fun _ => some exNode) (fun _ => some 1000) 999 ⟨exPb, exNode⟩ 7 = .ok () := by decide
example : validateWithName exC (fun _ => some exNode) (fun _ => some 1000) 999
    ⟨{ exPb with sequence := 5 }, exNode⟩ 7 = .error .mismatch := by decide
example : validateWithName exC (fun _ => some exNode) (fun _ => some 1000) 1001 ⟨exPb, exNode⟩ 7 = .error .expired := by
  decide
example : validateWithName exC (fun _ => some exNode) (fun _ => some 1000) 999
    ⟨{ exPb with data := [1, 3] }, exNode⟩ 7 = .error .signature := by decide
example : legacyGuard exPb := by decide

end C25
