import BoxoModel.C41.Lemmas
/-!
# C41 — Filestore references stay inside the filestore root

Property theorems only (helpers: `BoxoModel/C41/Lemmas.lean`, `BoxoModel/Lib/PathCleanLemmas.lean`).
All statements quantify over every root string and every referenced path string (arbitrary bytes,
relative or absolute, any `.`/`..`/`//`/trailing slash) and every `AllowFiles`/`AllowUrls` setting.
"Inside" is lexical, element by element (`PathClean.inside`): same rootedness, the elements of the
cleaned root are a prefix of the elements of the cleaned path and every further element is an ordinary
name (not `..`).  Symbolic links are outside a lexical statement: a component below the root that is a
symlink is followed by the operating system when the file is opened.
-/
namespace C41
open PathClean

/-- **Containment of what is accepted.** With the component check in place, a file reference is
accepted only when the referenced path is lexically inside the root, and the path `Get` will open
(`filepath.Join(root, stored)`) is exactly the cleaned referenced path. -/
theorem c41_contained (cfg : Cfg) (hfix : cfg.fixed = true) (root full r : Str)
    (h : put cfg root full = .file r) :
    inside (cleanCP root) (cleanCP full) ∧ join2 root r = clean full := by
  unfold put at h
  split at h
  · split at h <;> simp at h
  · split at h
    · simp at h
    · split at h
      · simp at h
      · split at h
        · simp at h
        · rename_i p hrel
          split at h
          · simp at h
          · rename_i hl
            simp at h; subst h
            have he : relEscapes p = false := by
              simp [hfix, leavesRoot] at hl; exact hl
            exact ⟨(rel_inside hrel he).1, (rel_inside hrel he).2.1⟩

/-- The stored reference is `.` or a `/`-joined non-empty list of ordinary names: relative, clean,
free of `..`, `.`, empty elements. -/
theorem c41_stored_form (cfg : Cfg) (hfix : cfg.fixed = true) (root full r : Str)
    (h : put cfg root full = .file r) :
    r = dot ∨ ∃ names, names ≠ [] ∧ (∀ c ∈ names, Normal c = true) ∧ r = joinSlash names := by
  unfold put at h
  split at h
  · split at h <;> simp at h
  · split at h
    · simp at h
    · split at h
      · simp at h
      · split at h
        · simp at h
        · rename_i p hrel
          split at h
          · simp at h
          · rename_i hl
            simp at h; subst h
            have he : relEscapes p = false := by
              simp [hfix, leavesRoot] at hl; exact hl
            exact (rel_inside hrel he).2.2

/-- A stored file reference is never mistaken for a URL when it is read back. -/
theorem c41_stored_not_url (cfg : Cfg) (hfix : cfg.fixed = true) (root full r : Str)
    (h : put cfg root full = .file r) : isURL r = false := by
  rcases c41_stored_form cfg hfix root full r h with e | ⟨names, _, hn, e⟩
  · subst e; decide
  · subst e
    cases hu : isURL (joinSlash names) with
    | false => rfl
    | true =>
      have := isURL_doubleSlash hu
      rw [noDoubleSlash_joinSlash hn] at this
      exact absurd this (by simp)

/-- **Every stored reference resolves inside the root.** Whatever was accepted by `Put`, the path that
`Get` opens is lexically inside the root (and is the cleaned path that was referenced). -/
theorem c41_get_inside (cfg : Cfg) (hfix : cfg.fixed = true) (root full r : Str)
    (h : put cfg root full = .file r) :
    get cfg root r = .openFile (clean full) ∧ inside (cleanCP root) (cleanCP (clean full)) := by
  have hc := c41_contained cfg hfix root full r h
  have hu := c41_stored_not_url cfg hfix root full r h
  have haf : cfg.allowFiles = true := by
    unfold put at h
    split at h
    · split at h <;> simp at h
    · split at h
      · simp at h
      · rename_i haf; simpa using haf
  refine ⟨?_, ?_⟩
  · simp [get, hu, haf, hc.2]
  · rw [cleanCP_clean]; exact hc.1

/-- The code before the `fix:` commit (string prefix test only) accepts a sibling directory that
shares the root's name as a prefix, and a path that climbs out with `..`; both are stored as
`../…` references and resolve outside the root. -/
theorem c41_unfixed_counterexample :
    let old : Cfg := { allowFiles := true, allowUrls := false, fixed := false }
    put old "/a/root".toList "/a/root-sibling/f".toList = .file "../root-sibling/f".toList ∧
    get old "/a/root".toList "../root-sibling/f".toList = .openFile "/a/root-sibling/f".toList ∧
    insideB (cleanCP "/a/root".toList) (cleanCP "/a/root-sibling/f".toList) = false ∧
    put old "/a/root".toList "/a/root/../x".toList = .file "../x".toList ∧
    get old "/a/root".toList "../x".toList = .openFile "/a/x".toList := by
  decide

/-- **A URL reference is never opened as a file**, whatever the flags are when it is read back (they may have
been changed since the reference was stored): `Get` either goes to HTTP or reports the urlstore as disabled. -/
theorem c41_url_never_file (cfg : Cfg) (root stored : Str) (h : isURL stored = true) :
    get cfg root stored = .http ∨ get cfg root stored = .urlDisabled := by
  unfold get
  simp only [h, if_true]
  cases cfg.allowUrls <;> simp

/-- and a file reference accepted under one setting of the flags still resolves inside the root (or is refused)
under any later setting -/
theorem c41_get_inside_any_flags (cfg cfg2 : Cfg) (hfix : cfg.fixed = true) (root full r : Str)
    (h : put cfg root full = .file r) :
    get cfg2 root r = .openFile (clean full) ∨ get cfg2 root r = .disabled := by
  have hu := c41_stored_not_url cfg hfix root full r h
  have hc := c41_contained cfg hfix root full r h
  unfold get
  simp only [hu]
  cases cfg2.allowFiles <;> simp [hc.2]

/-- **PutMany** is all-or-nothing and every reference it stores went through the same check: each stored
entry is a URL stored verbatim or a file reference lexically inside the root that resolves to the cleaned
referenced path. -/
theorem c41_putMany_contained (cfg : Cfg) (hfix : cfg.fixed = true) (root : Str) (fulls rs : List Str)
    (h : putMany cfg root fulls = .ok rs) :
    rs.length = fulls.length ∧ ∀ fr ∈ fulls.zip rs, put cfg root fr.1 = .url fr.2 ∨
      (put cfg root fr.1 = .file fr.2 ∧ inside (cleanCP root) (cleanCP fr.1) ∧ join2 root fr.2 = clean fr.1) := by
  induction fulls generalizing rs with
  | nil => simp [putMany] at h; subst h; simp
  | cons full rest ih =>
    unfold putMany at h
    split at h
    · rename_i s hp
      split at h
      · rename_i ss hrest
        simp at h; subst h
        have := ih ss hrest
        refine ⟨by simp [this.1], ?_⟩
        intro fr hfr
        simp only [List.zip_cons_cons, List.mem_cons] at hfr
        rcases hfr with e | e
        · subst e; exact Or.inr ⟨hp, c41_contained cfg hfix root full s hp⟩
        · exact this.2 fr e
      · simp at h
    · rename_i s hp
      split at h
      · rename_i ss hrest
        simp at h; subst h
        have := ih ss hrest
        refine ⟨by simp [this.1], ?_⟩
        intro fr hfr
        simp only [List.zip_cons_cons, List.mem_cons] at hfr
        rcases hfr with e | e
        · subst e; exact Or.inl hp
        · exact this.2 fr e
      · simp at h
    · simp at h

/-- **Symbolic links, positive part.** `os.Open` resolves the opened path element by element
(`physical`, for any table of symbolic links).  If no element strictly below the root on the way to the
referenced file is a symbolic link, the file that is physically opened lies below the physical location
of the root, by ordinary names only. -/
theorem c41_get_physically_inside (cfg : Cfg) (hfix : cfg.fixed = true) (root full r : Str)
    (links : List (List Str × List Str)) (h : put cfg root full = .file r) :
    ∃ rest, (cleanCP (clean full)).comps = (cleanCP root).comps ++ rest ∧ (∀ c ∈ rest, Normal c = true) ∧
      ((∀ k, 0 < k → k ≤ rest.length →
          lookupLink links (physical links (cleanCP root).comps ++ rest.take k) = none) →
        physical links (cleanCP (clean full)).comps = physical links (cleanCP root).comps ++ rest) := by
  obtain ⟨_, rest, hrest, hn⟩ := (c41_get_inside cfg hfix root full r h).2
  refine ⟨rest, hrest, hn, ?_⟩
  intro hno
  rw [hrest, physical_append, foldl_physStep_nolink links rest _ hno]

/-- **Symbolic links, negative part (what the code does).** The check is lexical: with
`/a/root/link → /a/outside`, the reference `/a/root/link/secret` is accepted (it is lexically inside),
stored as `link/secret`, `Get` opens `/a/root/link/secret`, and the operating system reads
`/a/outside/secret`, which is not below the root. -/
theorem c41_symlink_escape :
    let cfg : Cfg := { allowFiles := true, allowUrls := false }
    let links : List (List Str × List Str) :=
      [(["a".toList, "root".toList, "link".toList], ["a".toList, "outside".toList])]
    put cfg "/a/root".toList "/a/root/link/secret".toList = .file "link/secret".toList ∧
    get cfg "/a/root".toList "link/secret".toList = .openFile "/a/root/link/secret".toList ∧
    physical links (cleanCP "/a/root/link/secret".toList).comps = ["a".toList, "outside".toList, "secret".toList] ∧
    physical links (cleanCP "/a/root".toList).comps = ["a".toList, "root".toList] := by
  decide

/-! Non-vacuity: the fixed check accepts ordinary and unclean-but-inside references and rejects the
two escaping shapes. -/
example : put { allowFiles := true, allowUrls := false } "/a/root".toList "/a/root/x/../d/f".toList
    = .file "d/f".toList := by decide
example : put { allowFiles := true, allowUrls := false } "/a/root".toList "/a/root".toList
    = .file ".".toList := by decide
example : put { allowFiles := true, allowUrls := false } "/a/root".toList "/a/root-sibling/f".toList
    = .reject := by decide
example : put { allowFiles := true, allowUrls := false } "/a/root".toList "/a/root/../x".toList
    = .reject := by decide
example : put { allowFiles := true, allowUrls := false } "rel/root".toList "rel/root/..a/f".toList
    = .file "..a/f".toList := by decide
example : inside (cleanCP "/a/root".toList) (cleanCP "/a/root/d/f".toList) :=
  ⟨rfl, ["d".toList, "f".toList], by decide, by decide⟩

end C41
