import BoxoModel.C46.Lemmas
/-!
# C46 — Peering keeps reconnecting only while it should

Property theorems only (helper lemmas: `BoxoModel/C46/Lemmas.lean`). The model (`BoxoModel/C46/Model.lean`)
is the event system of peering/peering.go as repaired by the two `fix:` commits of branch verif/peer;
`nextBackoff` is the definition regenerated from the Go source on every run (`BoxoModel/Gen/C46.lean`).
`Reach s` = `s` is reachable from the initial state by ANY sequence of enabled events: service calls,
notifications, connectedness changes, timer expiries, goroutine steps and dial returns in every order,
with every value of the random draws that `rand.Int64N` may return.
-/
namespace C46
open Gen.C46

/-! ## backoff arithmetic -/

/-- The regenerated 64-bit `nextBackoff` computes, without overflow, "grow by 1.5× plus the first draw;
if that exceeds 10 min, 10 min minus the second draw" whenever the draws respect `rand.Int64N`'s contract. -/
theorem c46_backoff_spec (d r0 r1 : BitVec 64) (hd1 : 0 < d.toInt) (hd2 : d.toInt ≤ 600000000000)
    (hr : drawsOk d r0 r1 = true) :
    (nextBackoff d r0 r1).toInt = backoffSpec d.toInt r0.toInt r1.toInt := by
  obtain ⟨a, b, c, e⟩ := (drawsOk_iff _ _ _).1 hr
  exact nextBackoff_spec d r0 r1 hd1 (by omega) a b c e

/-- One step: from any delay in (0, 10 min], every possible pair of draws gives a delay in (0, 10 min];
below the cap it is at least 1.5× the previous one, and a capped delay is above 90 % of the maximum. -/
theorem c46_backoff_range (d r0 r1 : BitVec 64) (hd1 : 0 < d.toInt) (hd2 : d.toInt ≤ 600000000000)
    (hr : drawsOk d r0 r1 = true) :
    0 < (nextBackoff d r0 r1).toInt ∧ (nextBackoff d r0 r1).toInt ≤ 600000000000 ∧
    (d.toInt + d.toInt / 2 ≤ (nextBackoff d r0 r1).toInt ∨ 540000000000 < (nextBackoff d r0 r1).toInt) := by
  obtain ⟨a, b, c, e⟩ := (drawsOk_iff _ _ _).1 hr
  rw [c46_backoff_spec d r0 r1 hd1 hd2 hr]
  simp only [backoffSpec]
  refine ⟨?_, ?_, ?_⟩ <;> (split <;> split <;> omega)

/-- `rand.Int64N` is never called with a non-positive bound (it would panic). -/
theorem c46_backoff_no_panic (d : BitVec 64) (hd1 : 0 < d.toInt) :
    0 < (nextBackoff_bound0 d).toInt ∧ 0 < (nextBackoff_bound1 d).toInt := by
  rw [bound0_eq, bound1_eq]; omega

/-- the successive delays produced from `d` by a sequence of draws -/
def delays : BitVec 64 → List (BitVec 64 × BitVec 64) → List (BitVec 64)
  | _, [] => []
  | d, (r0, r1) :: rs => nextBackoff d r0 r1 :: delays (nextBackoff d r0 r1) rs

/-- every draw of the sequence is within the bound the Go code passes at that point -/
def DrawsOkSeq : BitVec 64 → List (BitVec 64 × BitVec 64) → Prop
  | _, [] => True
  | d, (r0, r1) :: rs => drawsOk d r0 r1 = true ∧ DrawsOkSeq (nextBackoff d r0 r1) rs

/-- Any number of consecutive failures, any draws: every delay is in [5 s, 10 min]. -/
theorem c46_backoff_seq (rs : List (BitVec 64 × BitVec 64)) :
    ∀ d : BitVec 64, 5000000000 ≤ d.toInt → d.toInt ≤ 600000000000 → DrawsOkSeq d rs →
    ∀ x ∈ delays d rs, 5000000000 ≤ x.toInt ∧ x.toInt ≤ 600000000000 := by
  induction rs with
  | nil => intro d _ _ _ x hx; simp [delays] at hx
  | cons r rs ih =>
    obtain ⟨r0, r1⟩ := r
    intro d h1 h2 hok x hx
    obtain ⟨hr, hrest⟩ := hok
    have hb := c46_backoff_range d r0 r1 (by omega) h2 hr
    have hlo : 5000000000 ≤ (nextBackoff d r0 r1).toInt := by omega
    simp only [delays, List.mem_cons] at hx
    rcases hx with rfl | hx
    · exact ⟨hlo, hb.2.1⟩
    · exact ih _ hlo hb.2.1 hrest x hx

theorem c46_backoff_seq_initial (rs : List (BitVec 64 × BitVec 64)) (h : DrawsOkSeq initialDelay rs) :
    ∀ x ∈ delays initialDelay rs, 5000000000 ≤ x.toInt ∧ x.toInt ≤ 600000000000 :=
  c46_backoff_seq rs initialDelay delayOk_initial.1 delayOk_initial.2 h

/-- In every reachable state every handler's `nextDelay` is in [5 s, 10 min], and an armed timer was armed
with a duration in [5 s, 10 min]. -/
theorem c46_delay_range {s : St} (h : Reach s) (j : Nat) (hj : j < s.n) :
    5000000000 ≤ (s.hs j).delay.toInt ∧ (s.hs j).delay.toInt ≤ 600000000000 ∧
    ((s.hs j).timer = .armed → 0 < (s.hs j).armedWith.toInt ∧ (s.hs j).armedWith.toInt ≤ 600000000000) := by
  obtain ⟨a, b, c⟩ := (inv_reach h).d j hj
  exact ⟨a, b, fun ht => ⟨by have := (c ht).1; omega, (c ht).2⟩⟩

/-! ## a disconnected peering peer always has a reconnect attempt scheduled -/

/-- While the service runs (started, `Stop` not yet called), every handler that has not been stopped and whose
peer is not connected has its timer armed, or a reconnect goroutine in flight (it will re-arm the timer in
its final critical section), or a `startIfDisconnected` goroutine pending (it will arm the timer), or the
network still owes the Disconnected notification (which spawns one). -/
theorem c46_scheduled {s : St} (h : Reach s) (hrun : s.state = .running) (hns : s.busy.isStopping = false)
    (j : Nat) (hj : j < s.n) (hlive : (s.hs j).cancelled = false) (hdisc : s.conn (s.hs j).peer = false) :
    (s.hs j).timer = .armed ∨ 0 < (s.hs j).rA + (s.hs j).rB ∨ 0 < (s.hs j).pendStart ∨
      0 < s.pendDisc (s.hs j).peer := by
  have hI := inv_reach h
  cases ht : (s.hs j).timer with
  | armed => exact Or.inl rfl
  | idle => exact Or.inr (Or.inl (hI.i1 j hj ht))
  | none => exact Or.inr (Or.inr (hI.g2 hrun hns j hj hlive hdisc ht))

/-- The same for "peer present": while the service runs and no service call is in progress, the handler
registered for a peer is live, so a disconnected registered peer has a reconnect attempt scheduled. -/
theorem c46_scheduled_present {s : St} (h : Reach s) (hrun : s.state = .running) (hidle : s.busy = .idle)
    (p j : Nat) (hp : s.peers p = some j) (hdisc : s.conn p = false) :
    (s.hs j).timer = .armed ∨ 0 < (s.hs j).rA + (s.hs j).rB ∨ 0 < (s.hs j).pendStart ∨ 0 < s.pendDisc p := by
  have hI := inv_reach h
  obtain ⟨hj, hpeer, hin⟩ := hI.m1 p j hp
  have hlive : (s.hs j).cancelled = false := by
    cases hc : (s.hs j).cancelled with
    | false => rfl
    | true =>
      have := inv2_reach h j hj hin hc
      simp [hrun, hidle, Busy.isStopping] at this
  have := c46_scheduled h hrun (by simp [hidle, Busy.isStopping]) j hj hlive (by rw [hpeer]; exact hdisc)
  rw [hpeer] at this
  exact this

/-- A timer that has fired is never forgotten: it is non-nil and un-armed only while a reconnect goroutine
is in flight (this is the clause the unrepaired code violates, replay corpus/C46/stuck-after-dial-ok.ops). -/
theorem c46_no_dead_timer {s : St} (h : Reach s) (j : Nat) (hj : j < s.n) (ht : (s.hs j).timer = .idle) :
    0 < (s.hs j).rA + (s.hs j).rB :=
  (inv_reach h).i1 j hj ht

/-! ## progress: a reconnect attempt is never more than four enabled steps away -/

/-- Liveness under fair scheduling, as a bounded-distance statement. While the service runs and no service call is
in progress, for every live handler whose peer is disconnected there is a schedule of AT MOST FOUR events, all of
them internal to that handler (delivery of the owed Disconnected notification, its pending `startIfDisconnected`
goroutine, expiry of its timer, its reconnect goroutine calling / returning from `host.Connect` — no service call,
no change of connectedness, nothing of another handler), each enabled when its turn comes, that ends with
`host.Connect` being called for the peer with a live context. So a scheduler that eventually runs enabled
goroutines / fires armed timers / delivers owed notifications makes a reconnect attempt happen; combined with
`c46_scheduled` (the distance is always defined) and `c46_delay_range` (the timer in that schedule was armed with
a delay in (0, 10 min]). -/
theorem c46_progress {s : St} (h : Reach s) (hrun : s.state = .running) (hidle : s.busy = .idle)
    (j : Nat) (hj : j < s.n) (hlive : (s.hs j).cancelled = false) (hdisc : s.conn (s.hs j).peer = false) :
    ∃ evs s', evs.length ≤ 4 ∧ (∀ e ∈ evs, Internal j (s.hs j).peer e = true) ∧ run s evs = some s' ∧
      s'.dials = (j, false) :: s.dials :=
  c46_progress_aux h hrun hidle j hj hlive hdisc

/-! ## after stop / remove: quiescence -/

/-- After `Stop` has returned, every handler (present or removed earlier) is stopped for good. -/
theorem c46_stop_stops_all {s : St} (h : Reach s) (hst : s.state = .stopped) (j : Nat) (hj : j < s.n) :
    Stopped s j := by
  have hI := inv_reach h
  obtain ⟨a, b⟩ := hI.s1 hst j hj
  exact ⟨hj, a, b, hI.q j hj a b⟩

/-- After `RemovePeer` has returned, the removed handler is stopped for good. -/
theorem c46_remove_stops {s : St} (h : Reach s) (j : Nat) (hj : j < s.n) (hrm : (s.hs j).inMap = false) :
    Stopped s j := by
  have hI := inv_reach h
  have hc : (s.hs j).cancelled = true := by
    cases hc : (s.hs j).cancelled with
    | true => rfl
    | false => have := hI.live j hj hc; simp [hrm] at this
  have hcl : (s.hs j).cleared = true := by
    rcases hI.c1 j hj hc with h1 | h1 | h1
    · exact h1
    · have := (hI.b1 j h1).2.2; simp [hrm] at this
    · have := (hI.b2 j h1).2.2; simp [hrm] at this
  exact ⟨hj, hc, hcl, hI.q j hj hc hcl⟩

/-- Quiescence. Once a handler is stopped (by `Stop` or `RemovePeer`), in EVERY continuation — late
`startIfDisconnected` / `stopIfConnected` goroutines, notifications racing with the stop, re-adding the peer,
dial returns, anything — it stays stopped, its timer is never armed again, `host.Connect` is never called for
it with a live context, and the only `host.Connect` calls at all are those of reconnect goroutines whose timer
had fired before the stop (`rA`), each at most once and with the cancelled context. -/
theorem c46_quiescent {s s' : St} {j : Nat} (evs : List Ev) (hs : Stopped s j) (hr : run s evs = some s') :
    Stopped s' j ∧ dialCount j s'.dials + (s'.hs j).rA = dialCount j s.dials + (s.hs j).rA ∧
    (s'.hs j).rA ≤ (s.hs j).rA ∧ liveDialCount j s'.dials = liveDialCount j s.dials := by
  induction evs generalizing s with
  | nil => simp [run] at hr; subst hr; exact ⟨hs, rfl, Nat.le_refl _, rfl⟩
  | cons e es ih =>
    simp only [run] at hr
    split at hr
    · rename_i s1 h1
      obtain ⟨a, b, c, d⟩ := stopped_step e hs h1
      obtain ⟨a', b', c', d'⟩ := ih a hr
      exact ⟨a', by omega, by omega, by omega⟩
    · simp at hr

/-- Corollary: if no reconnect goroutine was in flight when the handler was stopped, `host.Connect` is never
called for it again. -/
theorem c46_no_dial_after_stop {s s' : St} {j : Nat} (evs : List Ev) (hs : Stopped s j)
    (h0 : (s.hs j).rA = 0) (hr : run s evs = some s') : dialCount j s'.dials = dialCount j s.dials := by
  have := (c46_quiescent evs hs hr).2
  omega

/-! ## non-vacuity -/

/-- add p0, start, late goroutine arms the timer, it fires, the dial is made and fails while the peer is
disconnected: the timer is re-armed with a grown delay; the state satisfies the hypotheses of `c46_scheduled`. -/
def demo : List Ev := [.add 0, .start, .runStart 0 0#64 0#64, .fire 0, .dial 0, .dialEnd 0 3#64 5#64]

example : ((run {} demo).map fun s => ((s.hs 0).timer, (s.hs 0).delay, s.state, (s.hs 0).cancelled, s.conn 0, s.dials)) =
    some (.armed, 11250000003#64, .running, false, false, [(0, false)]) := by rfl

/-- the witness of the first repaired defect: a `startIfDisconnected` goroutine scheduled after Stop is harmless,
and the handler satisfies `Stopped` -/
example : ((run {} [.add 0, .start, .stopBegin, .stopCancel 0, .stopClear, .stopEnd, .runStart 0 0#64 0#64]).map
    fun s => ((s.hs 0).timer, (s.hs 0).cancelled, (s.hs 0).cleared, s.state)) = some (.none, true, true, .stopped) := by decide

/-- the witness of the second repaired defect: connection made and lost while `host.Connect` is still returning -/
example : ((run {} [.add 0, .start, .runStart 0 0#64 0#64, .fire 0, .dial 0, .setConn 0 true, .setConn 0 false,
    .notify 0 false, .runStart 0 0#64 0#64, .dialEnd 0 0#64 0#64]).map fun s => (s.hs 0).timer) = some .armed := by decide

example : DrawsOkSeq initialDelay [(0#64, 0#64), (7499999999#64, 0#64)] := ⟨by decide, by decide, trivial⟩

end C46
