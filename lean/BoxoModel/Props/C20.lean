import BoxoModel.C20.Lemmas
/-!
# C20 — MFS is deadlock-free and loses no acknowledged write under concurrency

Property theorems only. Three parts:
1. `LockOrder` (proved once, any number of threads / locks / programs): ranked, non-re-entrant acquisition
   of Go RWMutex/Mutex locks never deadlocks — re-exported here as `c20_ranked_no_deadlock`.
2. The lock facts of package mfs, REGENERATED from the Go source on every run (`BoxoModel/Gen/C20.lean`,
   T-gen `locks`), satisfy the discipline: `c20_discipline*`, closed by kernel evaluation of the checker.
3. The step model of Write → Flush/Close → flushUp → updateChildEntry (`BoxoModel/C20/Model.lean`).
-/
namespace C20
open LockFacts

/-! ## 1. ranked acquisition cannot deadlock -/

/-- Any number of goroutines, any programs over any locks with Go's writer-preferring `sync.RWMutex`
semantics: if every goroutine acquires only locks ranked strictly above everything it holds (so never a lock it
already holds, in any mode), then in every state reachable by every interleaving, some unfinished goroutine can step. -/
theorem c20_ranked_no_deadlock (rank : Nat → Nat) (s0 s : LockOrder.Sys)
    (h0 : LockOrder.Ranked rank s0) (hr : LockOrder.Reach s0 s) : ¬ LockOrder.Deadlocked s :=
  LockOrder.ranked_reach_no_deadlock h0 hr

/-- The hypothesis is not vacuous, and it is needed: the acquisition pattern of the unrepaired `File.Mode`
(RLock, then RLock again through GetNode) against one writer (`setNodeData`) reaches a deadlock. Thread 0 =
Mode, thread 1 = SetMode, lock 7 = that file's nodeLock. -/
theorem c20_reentrant_rlock_deadlocks :
    ∃ s, LockOrder.Reach
        [⟨[], [.acq 7 .R, .acq 7 .R, .rel 7, .rel 7]⟩, ⟨[], [.acq 7 .W, .rel 7]⟩] s ∧ LockOrder.Deadlocked s := by
  refine ⟨[⟨[(7, .R)], [.acq 7 .R, .rel 7, .rel 7]⟩, ⟨[], [.pendW 7, .rel 7]⟩], ?_, ?_⟩
  · exact .step 1 (.step 0 .refl (by rfl)) (by rfl)
  · constructor
    · rfl
    · intro t ht
      simp only [List.mem_cons, List.mem_nil_iff, or_false] at ht
      rcases ht with rfl | rfl <;> rfl

/-- the repaired pattern (one RLock) is ranked, e.g. with rank = identity -/
example : LockOrder.Ranked id [⟨[], [.acq 7 .R, .rel 7]⟩, ⟨[], [.acq 7 .W, .rel 7]⟩, ⟨[], [.acq 3 .W, .acq 7 .R, .rel 7, .rel 3]⟩] := by
  intro t ht
  simp only [List.mem_cons, List.mem_nil_iff, or_false] at ht
  rcases ht with rfl | rfl | rfl <;> simp [LockOrder.RankedFrom]

/-! ## 2. the regenerated lock facts of mfs satisfy the discipline -/

/-- The extractor resolved every call and every lock owner (an unresolved one would be an `unknown` event,
which the checker rejects; this states it separately so that the report names them). -/
theorem c20_extractor_resolved_everything : Gen.C20.unresolved = [] := by decide

/-- The numeric tables the checker runs on are the compilation of the readable rank assignment `C20.cfg`:
File.desclock < fileDescriptor.mu < Directory.lock (by tree depth, parents first) < File.nodeLock. -/
theorem c20_tables_agree :
    let t := compile cfg Gen.C20.mfsLockFacts Gen.C20.funcRecv Gen.C20.funcNames Gen.C20.lockClasses
    t.kinds = Gen.C20.funcKinds ∧ t.ranks = Gen.C20.classRanks ∧ t.keeps = Gen.C20.keeps ∧ t.gives = Gen.C20.gives ∧
    t.mustGive = Gen.C20.mustGive := tables_agree

/-- **Discipline.** Every function and method of package mfs (all 100-odd of them, callees inlined through the
table, every path, loops and recursion by relative depth), entered holding what its callers hold by contract
(nothing; the File's descriptor lock for descriptor methods), acquires locks in strictly increasing rank, never
re-acquires a held lock, releases only held locks, and returns holding what it held on entry (File.Open keeps
the descriptor lock, fileDescriptor.Close gives it back). -/
theorem c20_discipline :
    (List.range nFuncs).all (fun i => checkFrom Gen.C20.table fuel (entryOf i) i) = true := discipline_all

/-- The same while the calling goroutine holds an open descriptor (on any file), except for the four functions
that take a descriptor lock themselves (opening / flushing a file while holding a descriptor is the one
pattern the package forbids: `File.Flush`/`Sync` on a file one has open blocks by design). -/
theorem c20_discipline_holding_descriptor :
    (List.range nFuncs).all (fun i =>
      opensDescriptor.contains (Gen.C20.funcNames.getD i "") || checkFrom Gen.C20.table fuel ((0, 0) :: entryOf i) i) = true :=
  discipline_holding_descriptor

/-- **Guarded fields.** Starting from every exported function or method of mfs, every read or write of
`Directory.entriesCache`, `Directory.unixfsDir`, `File.node`, `fileDescriptor.state`, `fileDescriptor.mod` (facts
regenerated from the source) happens while the lock that guards that field of that same object is held — in write
mode for a store — except the ten existing unguarded reads enumerated in `Gen.C20.allowUnguarded`. A function that
drops its lock (or a new access outside it) makes this fail. -/
theorem c20_guarded_access :
    Gen.C20.exportedFuncs.all (fun i => checkFrom Gen.C20.tableAcc fuel (entryOf i) i) = true := guarded_access

/-- the rule is not vacuous: an access without the lock is rejected, with it accepted -/
example : checkFrom ⟨[[.access 0 (some []) false]], [.file], [some (3, .file)], [], [], [], true, []⟩ fuel [] 0 = false := by decide +kernel
example : checkFrom ⟨[[.acq 0 (some []) false, .access 0 (some []) true, .rel 0 (some []) false]], [.file], [some (3, .file)], [], [], [], true, []⟩ fuel [] 0 = false := by decide +kernel
example : checkFrom ⟨[[.acq 0 (some []) true, .access 0 (some []) true, .rel 0 (some []) true]], [.file], [some (3, .file)], [], [], [], true, []⟩ fuel [] 0 = true := by decide +kernel

/-- The checker is not vacuous: it rejects the facts of the unrepaired `File.Mode` … -/
theorem c20_checker_rejects_reentrant_rlock : checkFrom buggyTable fuel [] 0 = false := by decide +kernel
/-- … accepts its callee alone, and rejects an inverted order (node lock, then a directory lock). -/
example : checkFrom buggyTable fuel [] 1 = true := by decide +kernel
example : checkFrom ⟨[[.acq 0 (some []) true, .acq 1 (some [.up]) true, .rel 1 (some [.up]) true, .rel 0 (some []) true]],
    [.file], [some (3, .file), some (2, .dir)], [], [], [], false, []⟩ fuel [] 0 = false := by decide +kernel
example : checkFrom ⟨[[.acq 1 (some [.up]) true, .acq 0 (some []) true, .rel 0 (some []) true, .rel 1 (some [.up]) true]],
    [.file], [some (3, .file), some (2, .dir)], [], [], [], false, []⟩ fuel [] 0 = true := by decide +kernel

/-! ## 3. acknowledged writes: step model of flushUp / updateChildEntry -/

/-- At most one write descriptor per file, and never together with a read descriptor (File.desclock), in every
reachable state of every interleaving. -/
theorem c20_single_writer {sub : Nat → Bool} {s : St} (h : Reach sub s) (w1 w2 : Nat) (a b : Fd) (hne : w1 ≠ w2)
    (ha : (s.ws w1).fd = some a) (hb : (s.ws w2).fd = some b) (hf : a.file = b.file) :
    a.write = false ∧ b.write = false :=
  (vinv_reach h).x w1 w2 a b hne ha hb hf

/-- When the last stage of a flushUp acknowledges (Flush/Close is about to return), the File's node holds exactly
what the descriptor wrote, whatever other goroutines did meanwhile. -/
theorem c20_flush_acks_written {sub : Nat → Bool} {s s' : St} (h : Reach sub s) (w : Nat) (closing : Bool) (fd : Fd)
    (hst : (s.ws w).stage = some (.finish closing)) (hfd : (s.ws w).fd = some fd) (hm : micro s w = some s') :
    s'.acked fd.file = fd.buf ∧ s'.fnode fd.file = fd.buf := by
  have hb : fd.buf = s.fnode fd.file := by
    rcases (vinv_reach h).b w fd hfd with ⟨_, hp⟩ | hb
    · simp [hst, postNodeSet] at hp
    · exact hb
  simp only [micro, hst, hfd] at hm
  split at hm <;> (simp at hm; subst hm)
  · split <;> simp [setWorker, upd, hb]
  · simp [setWorker, upd, hb]

/-- **Acknowledged writes are visible to later reads.** In every reachable state, for a file with no flushUp
between "node set" and "acknowledged", the File's node — what `Open` + read returns and what the flushed root
shows (`c20_flushed_root_shows_file_nodes`) — is the content of the last acknowledged flush. -/
theorem c20_ack_visible {sub : Nat → Bool} {s : St} (h : Reach sub s) (f : Nat)
    (hq : ∀ w fd, (s.ws w).fd = some fd → fd.file = f → postNodeSet (s.ws w).stage = false) :
    s.fnode f = s.acked f := by
  rcases (vinv_reach h).a f with h | ⟨w, fd, a, b, c⟩
  · exact h
  · rw [hq w fd a b] at c; simp at c

/-- `Root.GetDirectory().GetNode()` (what FlushPath / Root.Flush read) shows, for every file, the node its
File object currently points at: the cache synchronisation re-adds every cached child. -/
theorem c20_flushed_root_shows_file_nodes (s : St) (f : Nat) :
    (rootGetNode s).linkRoot f = s.fnode f ∧ (rootGetNode s).fnode f = s.fnode f := ⟨rfl, rfl⟩

/-- Every publish step carries the flushed content of its own file, whatever else is going on. -/
theorem c20_publish_carries_own_write (s s' : St) (w : Nat) (snap : View) (closing : Bool) (fd : Fd)
    (hst : (s.ws w).stage = some (.rootDone snap closing)) (hfd : (s.ws w).fd = some fd)
    (h : micro s w = some s') : s'.pub = some snap := by
  simp [micro, hst, hfd] at h
  subst h
  simp [setWorker]

/-- **Finding (replayed on the real code, corpus/C20/published-root-regress.ops).** Two descriptors on two files
of the same directory flush concurrently; both `Flush()` calls return; nothing is in flight any more; yet the
node last handed to `Root.updateChildEntry` — the republisher's input — does not contain the second file's
acknowledged write: the first flush took its snapshot of the directory before the second one and delivered it
to the root after it. (The flushed root, `c20_flushed_root_shows_file_nodes`, does show it.) -/
def regress : St :=
  let s0 : St := { sub := fun f => f < 2 }
  let s1 := writeFd (openFd s0 0 0 true true) 0 1          -- worker 0: /d/a := 1
  let s2 := writeFd (openFd s1 1 1 true true) 1 2          -- worker 1: /d/b := 2
  let s3 := runUntil "l" 12 (beginFlush s2 0 false) 0      -- worker 0: Flush, parked after /d's localUpdate
  let s4 := runUntil "-" 12 (beginFlush s3 1 false) 1      -- worker 1: Flush, complete
  runUntil "-" 12 s4 0                                     -- worker 0: continues to the root

theorem c20_published_root_can_miss_ack :
    (regress.ws 0).stage.isNone ∧ (regress.ws 1).stage.isNone ∧          -- nothing in flight
    regress.acked 1 = 2 ∧ regress.lastFull 1 = 2 ∧                       -- Flush of /d/b := 2 was acknowledged
    regress.pub.map (· 1) = some 0 ∧                                     -- the published root still shows the old content
    regress.fnode 1 = 2 := by decide

/-- non-vacuity of the reachability hypotheses: the regress scenario is a `Reach`able state -/
example : Reach (fun f => f < 2) (writeFd (openFd { sub := fun f => f < 2 } 0 0 true true) 0 1) :=
  .step (.step .init (.openFd _ 0 0 true true rfl rfl rfl)) (.write _ 0 1 _ rfl rfl rfl)

end C20
