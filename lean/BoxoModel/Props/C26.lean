import BoxoModel.C26.Lemmas
import BoxoModel.C26.TimeLemmas
/-!
# C26 — IPNS records round-trip through creation, encoding and validation

Property theorems only. The codecs and the signature scheme are parameters; what the theorems need
from them is collected in `Laws` and is a HYPOTHESIS (never an axiom): the CBOR codec round-trips, a
signature made with a private key verifies under its public key, the key codec round-trips, a key
that need not be embedded is inlined in its name, RFC3339 parse∘format is the identity on the EOL.
The protobuf codec enters as: "the bytes unmarshal to the same field values" (`unmarshal … (some rec.pb)`)
with a total length within the limit.
-/
namespace C26
open C25

structure Laws (K : Keys) (C : Crypto) (encode : Node → Bytes) (decode : Bytes → Option Node)
    (formatTime : Int → Bytes) (parseTime : Bytes → Option Int) : Prop where
  cbor : ∀ nd, decode (encode nd) = some nd
  encNonEmpty : ∀ nd, encode nd ≠ []
  sig : ∀ sk msg, C.verify (K.pubOf sk) msg (K.sign sk msg) = true
  sigNonEmpty : ∀ sk msg, K.sign sk msg ≠ []
  keyCodec : ∀ pk, C.parseKey (K.marshalKey pk) = some pk
  keyNonEmpty : ∀ pk, K.marshalKey pk ≠ []
  inline : ∀ pk, K.needEmbed pk = false → C.inlineKey (C.nameOf pk) = some pk

/-- an entry NewRecord must reject -/
def BadEntry (e : String × MVal) : Prop :=
  e.1 = "" ∨ e.1 ∈ reservedKeys ∨ e.2 = .nil ∨ e.2 = .unsupported

/-- Creation fails exactly when the metadata contains an empty key, a reserved key, a nil value or a
value of an unsupported type — in whatever order the Go map is iterated. -/
theorem c26_metadata_reject (m : List (String × MVal)) :
    (∃ err, checkAll m = .error err) ↔ ∃ e ∈ m, BadEntry e := by
  induction m with
  | nil => simp [checkAll]
  | cons e rest ih =>
    have he : (∃ err, checkEntry e = .error err) ↔ BadEntry e := by
      unfold checkEntry BadEntry
      obtain ⟨k, v⟩ := e
      by_cases h1 : k = ""
      · simp [h1]
      · by_cases h2 : k ∈ reservedKeys
        · simp [h1, h2]
        · cases v <;> simp [h1, h2, anyToNode]
    constructor
    · rintro ⟨err, h⟩
      simp only [checkAll] at h
      cases hc : checkEntry e with
      | error err' => exact ⟨e, by simp, he.mp ⟨err', hc⟩⟩
      | ok x =>
        simp only [hc] at h
        cases hr : checkAll rest with
        | error err' =>
          obtain ⟨e', h1, h2⟩ := ih.mp ⟨err', hr⟩
          exact ⟨e', by simp [h1], h2⟩
        | ok xs => simp [hr] at h
    · rintro ⟨e', hm, hb⟩
      simp only [List.mem_cons] at hm
      simp only [checkAll]
      cases hc : checkEntry e with
      | error err' => exact ⟨err', rfl⟩
      | ok x =>
        simp only
        rcases hm with rfl | hm
        · obtain ⟨err, h⟩ := he.mpr hb
          rw [hc] at h; simp at h
        · obtain ⟨err, h⟩ := ih.mpr ⟨e', hm, hb⟩
          exact ⟨err, by simp [h]⟩

/-- `NewRecord` propagates exactly the `createNode` verdict (signing and marshalling cannot fail in
the model): it fails iff the metadata is invalid. -/
theorem c26_new_fails_iff (K : Keys) (encode : Node → Bytes) (sk : Nat) (value : Bytes) (seq : Nat)
    (validity : Bytes) (ttl : Int) (o : Opts) (sizeOf : Pb → Nat) :
    (∃ err, newRecord K encode sk value seq validity ttl o sizeOf = .error err) ↔ ∃ e ∈ o.metadata, BadEntry e := by
  rw [← c26_metadata_reject]
  unfold newRecord createNode
  cases checkAll o.metadata with
  | error e => simp
  | ok ms => simp

/-- Round trip. For every key, value bytes, sequence number below 2^64, EOL not before `now`, TTL in
the int64 range (negative ones are floored to 0), valid metadata with distinct keys and every option
set (V1 compatibility on/off, public key embedded / suppressed when the name inlines it / default):
the created record, once marshalled and unmarshalled within the size limit, is the same record,
validates against the name of its key, and its accessors return the inputs — the EOL exactly (to the
nanosecond, given the time law), the sequence over the whole uint64 range, every metadata entry. -/
theorem c26_roundtrip (K : Keys) (C : Crypto) (encode : Node → Bytes) (decode : Bytes → Option Node)
    (formatTime : Int → Bytes) (parseTime : Bytes → Option Int)
    (L : Laws K C encode decode formatTime parseTime)
    (sk : Nat) (value : Bytes) (seq : Nat) (eol : Int) (ttl : Int) (o : Opts) (sizeOf : Pb → Nat)
    (now : Int) (rawLen : Nat) (rec : Record)
    (hseq : seq < 2 ^ 64) (httl : ttl < 2 ^ 63) (hnow : now ≤ eol)
    (htime : parseTime (formatTime eol) = some eol)
    (hkeys : (o.metadata.map (·.1)).Nodup)
    (hembed : o.embed = some false → K.needEmbed (K.pubOf sk) = false)
    (hnew : newRecord K encode sk value seq (formatTime eol) ttl o sizeOf = .ok rec)
    (hsize : rec.pb.size ≤ maxRecordSize) (hraw : rawLen ≤ maxRecordSize) :
    unmarshal decode rawLen (some rec.pb) = .ok rec ∧
    validateWithName C decode parseTime now rec (C.nameOf (K.pubOf sk)) = .ok () ∧
    sequence rec = .ok seq ∧ C25.ttl rec = .ok (max 0 ttl) ∧ validityType rec = .ok 0 ∧
    validity parseTime rec = .ok eol ∧ getBytes rec "Value" = .ok value ∧
    (∀ e ∈ o.metadata, ∃ v, anyToNode e.2 = .ok v ∧ metadata rec e.1 = some v) := by
  obtain ⟨ms, hc, hnode, hdata, hsig2, hv1t, hv1f, hemt, hemf⟩ :=
    newRecord_shape K encode sk value seq (formatTime eol) ttl o sizeOf rec hnew
  obtain ⟨hk1, hk2, hk3⟩ := checkAll_keys o.metadata ms hc
  have hnd : ((rawNode ms value seq (formatTime eol) ttl).map (·.1)).Nodup := by
    simp only [rawNode, List.map_append, List.map_cons, List.map_nil]
    rw [List.nodup_append]
    refine ⟨by rw [hk1]; exact hkeys, by decide, ?_⟩
    intro a ha b hb
    have := (hk2 a ha).2
    intro e; subst e
    simp only [List.mem_cons, List.mem_nil_iff, or_false] at hb
    rcases hb with rfl | rfl | rfl | rfl | rfl <;> simp [reservedKeys] at this
  have look : ∀ k v, (k, v) ∈ rawNode ms value seq (formatTime eol) ttl → lookup rec.node k = some v := by
    intro k v h; rw [hnode]; exact lookup_sortNode _ k v hnd h
  have lV := look "Value" (.bytes value) (by simp [rawNode])
  have lVy := look "Validity" (.bytes (formatTime eol)) (by simp [rawNode])
  have lVt := look "ValidityType" (.int 0) (by simp [rawNode])
  have lS := look "Sequence" (.int (toI64 seq)) (by simp [rawNode])
  have lT := look "TTL" (.int (max 0 ttl)) (by simp [rawNode])
  have hdec : decode rec.pb.data = some rec.node := by rw [hdata]; exact L.cbor _
  have hdlen : (rec.pb.data.length == 0) = false := by
    rw [hdata]
    cases he : encode rec.node with
    | nil => exact absurd he (L.encNonEmpty _)
    | cons _ _ => simp
  -- accessors
  have aS : sequence rec = .ok seq := by
    simp [sequence, getInt, lS, Except.map, toU64_toI64 seq hseq]
  have aT : C25.ttl rec = .ok (max 0 ttl) := by simp [C25.ttl, getInt, lT]
  have aVt : validityType rec = .ok 0 := by simp [validityType, getInt, lVt]
  have aVy : validity parseTime rec = .ok eol := by
    simp [validity, aVt, getBytes, lVy, htime]
  have aV : getBytes rec "Value" = .ok value := by simp [getBytes, lV]
  have hun : unmarshal decode rawLen (some rec.pb) = .ok rec := by
    have h0 : ¬ rawLen > maxRecordSize := by omega
    simp [unmarshal, h0, hdlen, hdec]
  -- the legacy fields, when present, agree
  have hleg : legacyGuard rec.pb → cborMatchesPb decode rec.pb = .ok () := by
    intro hg
    have hv1 : o.v1 = true := by
      cases hv : o.v1 with
      | true => rfl
      | false =>
        exfalso
        obtain ⟨f1, f2⟩ := hv1f hv
        rcases hg with hg | hg
        · exact hg f2
        · exact hg f1
    obtain ⟨f1, f2, f3, f4, f5⟩ := hv1t hv1
    have e4 : rec.pb.sequence = toU64 (toI64 seq) := by rw [f4, toU64_toI64 seq hseq]
    have e5 : rec.pb.ttl = toU64 (max 0 ttl) := by
      rw [f5, toU64_nonneg (max 0 ttl) (by omega) (by omega)]
    simp [cborMatchesPb, hdlen, hdec, lV, lVy, lVt, lS, lT, f1, f2, f3, e4, e5]
  -- key extraction
  have hkey : extractKey C rec (C.nameOf (K.pubOf sk)) = .ok (K.pubOf sk) := by
    cases hem : embedOf K o sk with
    | true =>
      have hp := hemt hem
      have hl : (rec.pb.pubKey.length != 0) = true := by
        rw [hp]
        cases hm : K.marshalKey (K.pubOf sk) with
        | nil => exact absurd hm (L.keyNonEmpty _)
        | cons _ _ => simp
      simp [extractKey, hp, L.keyCodec, L.keyNonEmpty]
    | false =>
      have hp := hemf hem
      have hne : K.needEmbed (K.pubOf sk) = false := by
        unfold embedOf at hem
        cases he : o.embed with
        | none => simpa [he] using hem
        | some b =>
          cases b with
          | true => simp [he] at hem
          | false => exact hembed he
      simp [extractKey, hp, L.inline _ hne]
  refine ⟨hun, ?_, aS, aT, aVt, aVy, aV, ?_⟩
  · simp only [validateWithName, hkey]
    apply validate_intro C decode parseTime now rec (K.pubOf sk) eol hsize
    · rw [hsig2]; exact L.sigNonEmpty _ _
    · rw [hdata]; exact L.encNonEmpty _
    · rw [hsig2, hdata]; exact L.sig _ _
    · exact hleg
    · exact aVy
    · exact hnow
    · intro t ht; rw [aT] at ht; simp only [Except.ok.injEq] at ht; omega
  · intro e he
    obtain ⟨v, h1, h2⟩ := hk3 e he
    refine ⟨v, h1, ?_⟩
    have hres : reservedKeys.contains e.1 = false := (hk2 e.1 (List.mem_map_of_mem (f := (·.1)) h2)).2
    have hres' : ¬ e.1 ∈ reservedKeys := by simpa using hres
    have := look e.1 v (by simp [rawNode, h2])
    simp [metadata, hres', this]

/-- `MetadataEntries` of a created record yields exactly the (converted) metadata entries that were
given — no reserved field, nothing else — and `MetadataExists` agrees with it. -/
theorem c26_metadata_entries (K : Keys) (encode : Node → Bytes) (sk : Nat) (value : Bytes) (seq : Nat)
    (validity : Bytes) (ttl : Int) (o : Opts) (sizeOf : Pb → Nat) (rec : Record)
    (hkeys : (o.metadata.map (·.1)).Nodup)
    (hnew : newRecord K encode sk value seq validity ttl o sizeOf = .ok rec) :
    ∃ ms, checkAll o.metadata = .ok ms ∧ (∀ e, e ∈ metadataEntries rec ↔ e ∈ ms) ∧
      (∀ k, metadataExists rec k = true ↔ k ∈ ms.map (·.1)) := by
  obtain ⟨ms, hc, hnode, _⟩ := newRecord_shape K encode sk value seq validity ttl o sizeOf rec hnew
  obtain ⟨hk1, hk2, _⟩ := checkAll_keys o.metadata ms hc
  have hperm := sortNode_perm (rawNode ms value seq validity ttl)
  have hmem : ∀ e, e ∈ metadataEntries rec ↔ e ∈ ms := by
    intro e
    simp only [metadataEntries, hnode, List.mem_filter]
    rw [hperm.mem_iff]
    simp only [rawNode, List.mem_append, List.mem_cons, List.mem_nil_iff, or_false]
    constructor
    · rintro ⟨h | h | h | h | h | h, hr⟩
      · exact h
      all_goals (subst h; simp [reservedKeys] at hr)
    · intro h
      refine ⟨.inl h, ?_⟩
      have := (hk2 e.1 (List.mem_map_of_mem (f := (·.1)) h)).2
      have h' : ¬ e.1 ∈ reservedKeys := by simpa using this
      simp [h']
  refine ⟨ms, hc, hmem, ?_⟩
  intro k
  have hnd : ((rawNode ms value seq validity ttl).map (·.1)).Nodup := by
    simp only [rawNode, List.map_append, List.map_cons, List.map_nil]
    rw [List.nodup_append]
    refine ⟨by rw [hk1]; exact hkeys, by decide, ?_⟩
    intro a ha b hb
    have := (hk2 a ha).2
    intro e; subst e
    simp only [List.mem_cons, List.mem_nil_iff, or_false] at hb
    rcases hb with rfl | rfl | rfl | rfl | rfl <;> simp [reservedKeys] at this
  unfold metadataExists
  by_cases hr : reservedKeys.contains k = true
  · simp only [hr, if_true, Bool.false_eq_true, false_iff]
    intro hm
    have := (hk2 k hm).2
    rw [hr] at this; simp at this
  · have hr' : reservedKeys.contains k = false := by simpa using hr
    simp only [hr', Bool.false_eq_true, if_false]
    constructor
    · intro hs
      obtain ⟨v, hv⟩ := Option.isSome_iff_exists.mp hs
      -- a successful lookup returns an entry of the node
      have hin : (k, v) ∈ rec.node := by
        unfold lookup at hv
        cases hf : rec.node.find? (·.1 == k) with
        | none => simp [hf] at hv
        | some e =>
          simp only [hf, Option.map_some, Option.some.injEq] at hv
          have h1 := List.mem_of_find?_eq_some hf
          have h2 := List.find?_some hf
          simp only [beq_iff_eq] at h2
          rw [← hv, ← h2]; exact h1
      have : (k, v) ∈ metadataEntries rec := by
        simp only [metadataEntries, List.mem_filter]
        have hr'' : ¬ k ∈ reservedKeys := by simpa using hr'
        exact ⟨hin, by simp [hr'']⟩
      exact List.mem_map_of_mem (f := (·.1)) ((hmem (k, v)).mp this)
    · intro hm
      obtain ⟨e, he, hek⟩ := List.mem_map.mp hm
      have : lookup rec.node k = some e.2 := by
        rw [hnode]
        apply lookup_sortNode _ k e.2 hnd
        simp only [rawNode, List.mem_append]
        left; rw [← hek]; exact he
      simp [this]

/-- RFC3339Nano: `time.Parse(RFC3339Nano, t.UTC().Format(RFC3339Nano)) = t` for every instant of the
years 0001–9999, to the nanosecond — for the MODEL of format/parse in `BoxoModel/C26/Time.lean`
(civil date from the day number, zero-padded fields, fraction with trailing zeros dropped; parser with
Go's range checks), which the correspondence run compares byte for byte with Go's. -/
theorem c26_time_law (t : Int) (h : C26.Time.InRange t) :
    C26.Time.parseTime (C26.Time.formatTime t) = some t :=
  C26.Time.parse_format t h

/-- The round trip with the RFC3339 law DISCHARGED: formatting and parsing are the model's functions,
the expiry is any instant from `now` to 9999-12-31T23:59:59.999999999Z. -/
theorem c26_roundtrip_rfc3339 (K : Keys) (C : Crypto) (encode : Node → Bytes) (decode : Bytes → Option Node)
    (L : Laws K C encode decode C26.Time.formatTime C26.Time.parseTime)
    (sk : Nat) (value : Bytes) (seq : Nat) (eol : Int) (ttl : Int) (o : Opts) (sizeOf : Pb → Nat)
    (now : Int) (rawLen : Nat) (rec : Record)
    (hseq : seq < 2 ^ 64) (httl : ttl < 2 ^ 63) (hnow : now ≤ eol) (hrange : C26.Time.InRange eol)
    (hkeys : (o.metadata.map (·.1)).Nodup)
    (hembed : o.embed = some false → K.needEmbed (K.pubOf sk) = false)
    (hnew : newRecord K encode sk value seq (C26.Time.formatTime eol) ttl o sizeOf = .ok rec)
    (hsize : rec.pb.size ≤ maxRecordSize) (hraw : rawLen ≤ maxRecordSize) :
    unmarshal decode rawLen (some rec.pb) = .ok rec ∧
    validateWithName C decode C26.Time.parseTime now rec (C.nameOf (K.pubOf sk)) = .ok () ∧
    sequence rec = .ok seq ∧ C25.ttl rec = .ok (max 0 ttl) ∧ validityType rec = .ok 0 ∧
    validity C26.Time.parseTime rec = .ok eol ∧ getBytes rec "Value" = .ok value ∧
    (∀ e ∈ o.metadata, ∃ v, anyToNode e.2 = .ok v ∧ metadata rec e.1 = some v) :=
  c26_roundtrip K C encode decode C26.Time.formatTime C26.Time.parseTime L sk value seq eol ttl o sizeOf now rawLen rec
    hseq httl hnow (c26_time_law eol hrange) hkeys hembed hnew hsize hraw

/-- The CBOR map keys are emitted in DAG-CBOR order (by byte length, then bytewise), whatever the
iteration order of the metadata map: the node is a permutation of the entries that is sorted. -/
theorem c26_node_sorted (l : List (String × CVal)) :
    (sortNode l).Perm l ∧ (sortNode l).Pairwise (fun a b => keyLe a.1 b.1 = true) := by
  refine ⟨sortNode_perm l, ?_⟩
  have total : ∀ a b : String, keyLe a b = false → keyLe b a = true := by
    intro a b h
    unfold keyLe at h ⊢
    by_cases hs : a.utf8ByteSize = b.utf8ByteSize
    · simp only [hs, beq_self_eq_true, if_true, decide_eq_false_iff_not] at h ⊢
      simp only [decide_eq_true_eq]
      exact (String.le_total a b).resolve_left h
    · have hs' : ¬ b.utf8ByteSize = a.utf8ByteSize := fun e => hs e.symm
      simp only [beq_iff_eq, hs, hs', if_false, decide_eq_false_iff_not, decide_eq_true_eq] at h ⊢
      omega
  have trans : ∀ a b c : String, keyLe a b = true → keyLe b c = true → keyLe a c = true := by
    intro a b c h1 h2
    unfold keyLe at *
    by_cases e1 : a.utf8ByteSize = b.utf8ByteSize <;> by_cases e2 : b.utf8ByteSize = c.utf8ByteSize
    · have e3 : a.utf8ByteSize = c.utf8ByteSize := e1.trans e2
      simp only [e1, e2, e3, beq_self_eq_true, if_true, decide_eq_true_eq] at *
      exact String.le_trans h1 h2
    · have e3 : ¬ a.utf8ByteSize = c.utf8ByteSize := by omega
      simp only [beq_iff_eq, e1, e2, e3, if_true, if_false, decide_eq_true_eq] at *
      omega
    · have e3 : ¬ a.utf8ByteSize = c.utf8ByteSize := by omega
      simp only [beq_iff_eq, e1, e2, e3, if_true, if_false, decide_eq_true_eq] at *
      omega
    · by_cases e3 : a.utf8ByteSize = c.utf8ByteSize
      · simp only [beq_iff_eq, e1, e2, if_false, decide_eq_true_eq] at h1 h2
        omega
      · simp only [beq_iff_eq, e1, e2, e3, if_false, decide_eq_true_eq] at *
        omega
  have ins : ∀ (x : String × CVal) (l : List (String × CVal)),
      l.Pairwise (fun a b => keyLe a.1 b.1 = true) → (insertKey x l).Pairwise (fun a b => keyLe a.1 b.1 = true) := by
    intro x l
    induction l with
    | nil => intro _; simp [insertKey]
    | cons y ys ih =>
      intro hp
      rw [List.pairwise_cons] at hp
      simp only [insertKey]
      by_cases hxy : keyLe x.1 y.1 = true
      · simp only [hxy, if_true]
        refine List.pairwise_cons.mpr ⟨?_, List.pairwise_cons.mpr hp⟩
        intro z hz
        simp only [List.mem_cons] at hz
        rcases hz with rfl | hz
        · exact hxy
        · exact trans _ _ _ hxy (hp.1 z hz)
      · simp only [hxy]
        refine List.pairwise_cons.mpr ⟨?_, ih hp.2⟩
        intro z hz
        have := (insertKey_perm x ys).mem_iff.mp hz
        simp only [List.mem_cons] at this
        rcases this with rfl | hz'
        · exact total _ _ (by simpa using hxy)
        · exact hp.1 z hz'
  induction l with
  | nil => simp [sortNode]
  | cons x xs ih => exact ins x _ ih

/-! Non-vacuity: a concrete creation with metadata, sequence 2^64−1 and a negative TTL. -/
def exK : Keys := ⟨fun sk m => sk :: m, fun sk => sk + 100, fun pk => [pk], fun pk => pk % 2 == 0⟩
def exOpts : Opts := { v1 := true, metadata := [("_bb", .bytes [1]), ("_a", .str "x"), ("_ccccccccccccc", .int 5)] }

example : (newRecord exK (fun _ => [1]) 3 [47] (2 ^ 64 - 1) [50] (-5) exOpts (fun _ => 10)).map (·.node.map (·.1)) =
    .ok ["_a", "TTL", "_bb", "Value", "Sequence", "Validity", "ValidityType", "_ccccccccccccc"] := by rfl
example : (newRecord exK (fun _ => [1]) 3 [47] (2 ^ 64 - 1) [50] (-5) exOpts (fun _ => 10)).map
    (fun r => (lookup r.node "Sequence", lookup r.node "TTL", r.pb.sequence, r.pb.pubKey)) =
    .ok (some (.int (-1)), some (.int 0), 2 ^ 64 - 1, []) := by rfl
example : ∃ e, newRecord exK (fun _ => [1]) 3 [47] 0 [50] 0 { metadata := [("_a", .str "x"), ("TTL", .int 1)] } (fun _ => 10)
    = .error e := ⟨.conflict, by rfl⟩

end C26
