import BoxoModel.C15.DirLemmas
import BoxoModel.C15.BitsLemmas
import BoxoModel.C15.ConvLemmas
import BoxoModel.C15.DynLemmas
import BoxoModel.C16.Lemmas
/-!
# C15 — UnixFS directories behave as name-to-entry maps

Property theorems only (lemmas: BoxoModel/C15/{Lemmas,DirLemmas,BitsLemmas}.lean, BoxoModel/C16/Lemmas.lean).
The model (BoxoModel/C15/Model.lean) transcribes `hamt.Shard` (swapValue / getValue / walkTrie / Node),
`BasicDirectory`, `HAMTDirectory` and `DynamicDirectory`; `dstep` / `drun` run exactly the functions the
line-protocol driver runs.  murmur3 is a parameter `h : Name → List Byte`; shard width `w` is arbitrary.
`DigitsOK U` is the only assumption on the hash: equally long digit strings, and no two names OF THE
UNIVERSE `U` (any set containing the names the directory holds and the operations mention — finite in
every run, so the assumption is satisfiable for a 64-bit hash) with the same digits.
-/
namespace C15
open Trie

/-- **HAMT directory refines the map** — for every operation sequence (add-or-replace, remove, find,
the enumeration APIs), every shard width and every hash function without full collisions, starting
from any well-formed canonical HAMT directory (in particular the empty one): every answer is the
map's answer (`remove` of a missing name = notfound, never an error for an existing one), every
listing is duplicate-free and has exactly the map's entries, and the state keeps denoting the map. -/
theorem c15_hamt_refines (h : Name → List Byte) (g : Globals) (U : Name → Prop) (w : Nat)
    (ok : DigitsOK U (fun n => hashDigits (h n) (lg2 w))) (st : State) (hi : IsHamt h U w st) (ops : List DOp)
    (hops : ∀ op ∈ ops, OpIn U op) :
    IsHamt h U w (drun h g st ops).1 ∧
      SpecRun false (absState h st) ops (drun h g st ops).2 (absState h (drun h g st ops).1) :=
  run_refines h g U (IsHamt h U w) (absState h) false (fun st op hi hop => hamt_step h g U w ok st op hi hop) ops st hi hops

/-- a freshly made HAMT directory is a valid start state denoting the empty map -/
theorem c15_hamt_fresh (h : Name → List Byte) (g : Globals) (U : Name → Prop) (s : Settings) (hd : Hamt) (hn : Hamt.new g s = some hd) :
    IsHamt h U hd.width { dyn := false, dir := .hamt hd } ∧ absState h { dyn := false, dir := .hamt hd } = fun _ => none := by
  have hs : hd.shard = Trie.nil := by
    simp only [Hamt.new] at hn
    split at hn
    · simp at hn
    · split at hn <;> simp at hn <;> (rw [← hn.2])
  refine ⟨⟨rfl, _, rfl, rfl, ⟨by rw [hs]; trivial, by rw [hs]; trivial⟩, by rw [hs]; trivial⟩, ?_⟩
  funext k
  simp only [absState, Hamt.abs, Trie.get, hs]
  split <;> rfl

/-- **Basic directory refines the (bounded) map** — as above for `BasicDirectory` with link limit `ml`
(`ml ≤ 0`: unbounded, `add` never fails; `ml > 0`: a NEW name may be refused with `maxlinks`, leaving
the directory unchanged; replacing an existing name is never refused). -/
theorem c15_basic_refines (h : Name → List Byte) (g : Globals) (ml : Int) (st : State) (hi : IsBasic ml st)
    (ops : List DOp) :
    IsBasic ml (drun h g st ops).1 ∧
      SpecRun (decide (ml > 0)) (absState h st) ops (drun h g st ops).2 (absState h (drun h g st ops).1) :=
  run_refines h g (fun _ => True) (IsBasic ml) (absState h) _ (fun st op hi _ => basic_step h g ml st op hi) ops st hi
    (fun op _ => by cases op <;> trivial)

/-- **The only failure of the trie is the depth error, and it needs a full collision**: when `swapValue`
answers "sharded directory too deep" on a well-formed canonical trie (hashes of equal length), some
stored name different from the key has exactly the key's digits (at 64 bits: a murmur3 collision). -/
theorem c15_hamt_depth_error (key : Name) (v : Option Lnk) (dgl : Name → List Nat) (t : Trie) (i : Nat) (r : List Nat)
    (hwf : WF dgl t) (hc : Canon t) (hk : dgl key = i :: r) (hlen : ∀ a b, (dgl a).length = (dgl b).length)
    (htd : (swap dgl key v t i r).2 = .toodeep) :
    ¬ AllKeys (fun k => k ≠ key → dgl k ≠ dgl key) t :=
  fun hinj => swap_not_toodeep key v dgl t i r hwf hc hk hlen hinj htd

/-- a failed operation (missing name, depth error) leaves the serialised trie untouched -/
theorem c15_hamt_error_unchanged (key : Name) (v : Option Lnk) (dgl : Name → List Nat) (t : Trie) (i : Nat) (r : List Nat)
    (herr : ∀ old, (swap dgl key v t i r).2 ≠ .ok old) : toDag (swap dgl key v t i r).1 = toDag t :=
  toDag_swap_err key v dgl t i r herr

/-- **The enumeration APIs agree**: `ForEachLink` delivers what `Links()` / `EnumLinksAsync` deliver, and
although it rewrites the HAMT in place (loads every shard, strips the stored link names) the entries,
the denoted map and the serialised DAG stay the same. -/
theorem c15_enum_agree (h : Name → List Byte) (g : Globals) (st : State) :
    (dstep h g st .each).2 = (dstep h g st .list).2 ∧
    dirEntries (dstep h g st .each).1 = dirEntries st ∧
    absState h (dstep h g st .each).1 = absState h st := by
  refine ⟨rfl, ?_, ?_⟩
  · cases st with
    | mk dyn dir =>
      cases dir with
      | basic b => rfl
      | hamt hd => simp only [dstep, eachChild, dirEntries]; exact ents_congr (toDag_stripAll _)
  · cases st with
    | mk dyn dir =>
      cases dir with
      | basic b => rfl
      | hamt hd => simp only [dstep, eachChild, absState, Hamt.abs, Hamt.dg]; exact get_congr (toDag_stripAll _) _

/-- **Reload**: `NewHamtFromDag (Node ())` (`ofDag ∘ toDag`: nothing loaded, stored names as serialised)
serialises to the same DAG, lists the same entries, answers every lookup alike, and is again
well-formed and canonical. -/
theorem c15_reload (dgl : Name → List Nat) (t : Trie) :
    toDag (ofDag (toDag t)) = toDag t ∧ ents (ofDag (toDag t)) = ents t ∧
    (∀ k i r, lookup k (ofDag (toDag t)) i r = lookup k t i r) ∧
    (WF dgl (ofDag (toDag t)) ↔ WF dgl t) ∧ (Canon (ofDag (toDag t)) ↔ Canon t) :=
  ⟨toDag_ofDag _, ents_norm t, fun k i r => lookup_norm k t i r, wf_norm dgl t, canon_norm t⟩

/-- **Operations on a reloaded (lazily loaded) trie behave as on the original**: same answer kind and
the same serialised result, for insert / replace / remove alike. -/
theorem c15_reload_ops (key : Name) (v : Option Lnk) (dgl : Name → List Nat) (t : Trie) (i : Nat) (r : List Nat)
    (hwf : WF dgl t) (hc : Canon t) (hk : dgl key = i :: r) (hlen : ∀ a b, (dgl a).length = (dgl b).length)
    (hinj : ∀ a b, dgl a = dgl b → a = b) :
    toDag (swap dgl key v (ofDag (toDag t)) i r).1 = toDag (swap dgl key v t i r).1 := by
  have hwf' : WF dgl (norm t) := (wf_norm dgl t).2 hwf
  have hc' : Canon (norm t) := (canon_norm t).2 hc
  have ak : ∀ t' : Trie, AllKeys (fun k => k ≠ key → dgl k ≠ dgl key) t' :=
    fun t' => AllKeys.of_forall (fun k hne he => hne (hinj _ _ he)) t'
  have n1 := swap_not_toodeep key v dgl (norm t) i r hwf' hc' hk hlen (ak _)
  have n2 := swap_not_toodeep key v dgl t i r hwf hc hk hlen (ak _)
  have r1 := swap_res key v dgl (norm t) i r hwf' hk
  have r2 := swap_res key v dgl t i r hwf hk
  apply canon_unique _ _ dgl (swap_wf key v dgl _ i r hwf' hk) (swap_wf key v dgl _ i r hwf hk)
    (swap_canon key v dgl _ i r hc') (swap_canon key v dgl _ i r hc)
  intro k i2 r2 e
  by_cases hkk : k = key
  · subst hkk
    rw [hk] at e; cases e
    have key_eq : ∀ (t0 t' : Trie) (res : Res), ResSpec k v t0 t' i r res → res ≠ .toodeep → lookup k t' i r = v := by
      intro t0 t' res hs hn
      cases res with
      | ok old => exact hs.1
      | notfound => rw [hs.2.2, hs.1]
      | toodeep => exact absurd rfl hn
    rw [key_eq _ _ _ r1 n1, key_eq _ _ _ r2 n2]
  · rw [swap_lookup_ne key v dgl _ i r hwf' hk k hkk i2 r2 e, swap_lookup_ne key v dgl _ i r hwf hk k hkk i2 r2 e,
      lookup_norm]

/-- **The conversions of the auto-switching directory preserve the entries.**  basic → HAMT
(`switchToSharding`): the resulting HAMT directory is well-formed, canonical and denotes exactly the map of
the basic directory's links.  HAMT → basic (`switchToBasic`): the resulting basic directory holds exactly
the trie's entries, duplicate-free, and answers every lookup as the trie did. -/
theorem c15_conversions_preserve_entries (h : Name → List Byte) (g : Globals) (U : Name → Prop) :
    (∀ (b : Basic) (hd : Hamt), (b.links.map (·.1)).Nodup → (∀ e ∈ b.links, U e.1) → switchToSharding h g b = some hd →
      DigitsOK U (hd.dg h) → hd.Inv h ∧ (∀ k, hd.abs h k = b.getLink k)) ∧
    (∀ (hd : Hamt) (ml : Int) (b : Basic), hd.Inv h → (switchToBasic g hd ml).2 = some (.inl b) →
      b.links = hd.shard.ents ∧ (b.links.map (·.1)).Nodup ∧ ∀ k, b.getLink k = hd.abs h k) :=
  ⟨fun b hd hn hu hs ok => ⟨(switchToSharding_entries h g U b hd hn hu hs ok).1, (switchToSharding_entries h g U b hd hn hu hs ok).2.2⟩,
   fun hd ml b hi hs => switchToBasic_entries g (hd.dg h) hd ml b hi.1 hs⟩

/-- **The auto-switching DynamicDirectory refines the (bounded) map** — for EVERY history of edits,
look-ups and listings interleaved with reloads from the root node (`NewDirectoryFromNode(GetNode())`) and
the setters MFS re-applies (`SetMaxLinks`, `SetHAMTShardingSize`, `SetSizeEstimationMode`), whatever the
thresholds, modes and link limits make the directory do (stay, basic → HAMT, HAMT → basic): every answer
and listing is the map's; in particular no conversion ever aborts, `RemoveChild` of an existing name
never fails, and `AddChild` is refused only for a NEW name by a basic directory at its link limit while
switching is disabled.  Guards: a usable default width (`GOK`), a usable fanout setting (`DynInv`/`SetOK`),
and the hash assumption `DigitsOK` over the universe of names for every usable shard width.
(Holds for the repaired code: lazy entry count of a loaded HAMT, fix 12efed3.) -/
theorem c15_dyn_refines (h : Name → List Byte) (g : Globals) (U : Name → Prop)
    (hg : GOK g) (hok : ∀ w, WidthOK w → DigitsOK U (fun n => hashDigits (h n) (lg2 w)))
    (ops : List XOp) (st : State) (hi : DynInv h U st) (hops : ∀ x ∈ ops, XOpIn U x) :
    DynInv h U (xrun h g st ops).1 ∧
      XSpecRun (absState h st) ops (xrun h g st ops).2 (absState h (xrun h g st ops).1) :=
  dyn_run h g U hg hok ops st hi hops

/-- `NewDirectory(opts…)` with a usable fanout option is a valid start state denoting the empty map -/
theorem c15_dyn_fresh (h : Name → List Byte) (g : Globals) (U : Name → Prop) (hg : GOK g) (s : Settings) (hs : SetOK s)
    (b : Basic) (hn : Basic.new g s = some b) :
    DynInv h U { dyn := true, dir := .basic b } ∧ absState h { dyn := true, dir := .basic b } = fun _ => none := by
  obtain ⟨b0, hb0, hl, ht, _⟩ := basic_new_ok g s hs
  rw [hn] at hb0
  simp only [Option.some.injEq] at hb0
  subst hb0
  refine ⟨⟨rfl, setok_basic_new g s b hg hs hn, by simp [hl], by simp [hl], by simp [hl, ht]⟩, ?_⟩
  funext k
  simp [absState, Basic.getLink, hl]

/-- **Bit extraction** (`hashBits.Next`, byte-level code with the regenerated `mkmask`): reading `i` bits
at offset `consumed` fails exactly when fewer than `i` bits are left, and otherwise returns the
big-endian value of the window `[consumed, consumed+i)` of the hash's bit string. -/
theorem c15_bits (b : List Byte) (consumed i : Nat) :
    next b consumed i =
      if consumed + i ≤ b.length * 8 then some (ofBits (((bitsBE b).drop consumed).take i)) else none := by
  unfold next
  by_cases h : consumed + i ≤ b.length * 8
  · have : ¬ consumed + i > b.length * 8 := by omega
    simp only [this, if_false, h, if_true]
    rw [nextBits_eq_window b consumed i h]
  · have : consumed + i > b.length * 8 := by omega
    simp [this, h]

/-- the digit sequence a name follows down the trie = its hash split into `lg2`-bit groups
(big-endian, as many as fit: 21 for width 8, 8 for width 256, 6 for width 1024), each `< 2^lg2` -/
theorem c15_digits (b : List Byte) (lg2 : Nat) (hl : 0 < lg2) :
    hashDigits b lg2 = (List.range (b.length * 8 / lg2)).map (fun g => ofBits (((bitsBE b).drop (g * lg2)).take lg2)) ∧
    (∀ d ∈ hashDigits b lg2, d < 2 ^ lg2) :=
  ⟨hashDigits_eq_groups b lg2 hl, hashDigits_lt b lg2 hl⟩

/-- `DigitsOK` from what is assumed of the hash function: equally long hashes with room for one
digit, and no two names with the same digit sequence -/
theorem c15_digitsOK (h : Name → List Byte) (U : Name → Prop) (w : Nat) (hl : 0 < lg2 w)
    (hlen : ∀ a b, (h a).length = (h b).length) (hbig : ∀ a, lg2 w ≤ (h a).length * 8)
    (hinj : ∀ a b, U a → U b → hashDigits (h a) (lg2 w) = hashDigits (h b) (lg2 w) → a = b) :
    DigitsOK U (fun n => hashDigits (h n) (lg2 w)) where
  len := fun a b => by simp only [hashDigits_length _ _ hl, hlen a b]
  ne := fun a hn => by
    have := hashDigits_length (h a) (lg2 w) hl
    rw [hn] at this
    simp only [List.length_nil] at this
    have := Nat.div_pos (hbig a) hl
    omega
  inj := hinj

/-- T-gen link: on the widths a shard can have (2^3 … 2^10) the regenerated `Logtwo` returns the
`lg2` the model uses, and `validShardWidth` (used as regenerated) accepts exactly such widths below 2^11 -/
theorem c15_logtwo_gen : ∀ k : Fin 11, 3 ≤ k.val →
    Gen.C15.logtwo (BitVec.ofNat 64 (2 ^ k.val)) = some (BitVec.ofNat 64 k.val) ∧ lg2 (2 ^ k.val) = k.val ∧
    validShardWidth (2 ^ k.val : Nat) = true := by decide

/-! Non-vacuity: a width-8 directory (3-bit digits) with two names sharing the first two digits. -/
section examples
def exDg : Name → List Nat := fun n => if n = "61" then [1, 2, 3] else if n = "62" then [1, 2, 5] else [4, 4, 4]
def exL (c : String) : Lnk := { cid := c, clen := 34, size := 1 }
def exT : Trie := ((Trie.nil.swap exDg "61" (some (exL "A")) 1 [2, 3]).1.swap exDg "62" (some (exL "B")) 1 [2, 5]).1

/-- `DigitsOK` is satisfiable (three equally long digit strings, distinct on the universe {"61","62"}) -/
example : DigitsOK (fun n => n = "61" ∨ n = "62") exDg where
  len := fun a b => by simp only [exDg]; split <;> split <;> (try split) <;> (try split) <;> rfl
  ne := fun a => by simp only [exDg]; split <;> (try split) <;> simp
  inj := fun a b ha hb hab => by
    rcases ha with rfl | rfl <;> rcases hb with rfl | rfl <;> first | rfl | (exfalso; revert hab; decide)

example : toDag exT = .sub 1 (.sub 2 (.val 3 "61" (exL "A") (.val 5 "62" (exL "B") .nil)) .nil) .nil := by decide
example : lookup "62" exT 1 [2, 5] = some (exL "B") := by decide
example : toDag (exT.swap exDg "62" none 1 [2, 5]).1 = .val 1 "61" (exL "A") .nil := by decide
example : ((Trie.nil.swap (fun _ => [1, 2]) "61" (some (exL "A")) 1 [2]).1.swap (fun _ => [1, 2]) "62" (some (exL "B")) 1 [2]).2
    = .toodeep := by decide
end examples

end C15
