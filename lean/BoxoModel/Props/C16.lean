import BoxoModel.C16.Lemmas
import BoxoModel.C16.DirLemmas
import BoxoModel.C16.RuleLemmas
import BoxoModel.C16.GateLemmas
/-!
# C16 — Directory root CID depends only on final entries and configuration

Property theorems only (lemmas: BoxoModel/C15/Lemmas.lean, BoxoModel/C16/{Lemmas,DirLemmas}.lean).
The model is the one of C15 (BoxoModel/C15/Model.lean).  What `Shard.Node()` serialises is `toDag`
(slots in index order, link name = index prefix + key, sub-shards recursively) together with the
shard width and the stat of the root; the CID is an arbitrary function `H` of that.

Status of the clauses (see docs/notes/C16.md and known_findings.jsonl):
* pure HAMT: full (`c16_hamt_canonical`, `c16_canonical_unique`, `c16_hamt_history_independent`);
* settings across conversions: full for the repaired code (`c16_settings_preserved`, fix a7f55dc);
* "sharded exactly when the rule says so" for the auto-switching directory: a theorem only for the
  basic → HAMT direction (`c16_rule_partial`: a basic directory with exact bookkeeping — in particular
  every history of AddChild calls from a fresh directory until it is first sharded — is converted
  exactly when the rule holds for the new entry set).  The HAMT → basic direction is NOT a theorem of
  the current code (known findings rule-hamt-below, rule-basic-above-by-prefix, hamt-switch-maxlinks);
  the model reproduces the code's behaviour and the divergence is exhibited by the harness replays.
-/
namespace C16
open C15 C15.Trie

/-- **Canonical form is an invariant**: from any well-formed canonical HAMT directory (in particular
the empty one, `c15_hamt_fresh`) every sequence of insertions, replacements, removals (with shard
collapse), lookups and listings leaves the trie well-formed and canonical — no empty sub-shard, no
sub-shard holding a single value, every key on the path of its digits, slots in bitfield order. -/
theorem c16_hamt_canonical (h : Name → List Byte) (g : Globals) (U : Name → Prop) (w : Nat)
    (ok : DigitsOK U (fun n => hashDigits (h n) (lg2 w))) (st : State) (hi : IsHamt h U w st) (ops : List DOp)
    (hops : ∀ op ∈ ops, OpIn U op) :
    ∃ hd, (drun h g st ops).1.dir = .hamt hd ∧ hd.width = w ∧ WF (hd.dg h) hd.shard ∧ Canon hd.shard := by
  obtain ⟨_, hd, hdir, hw, hinv, _⟩ :=
    (run_refines h g U (IsHamt h U w) (absState h) false (fun st op hi hop => hamt_step h g U w ok st op hi hop) ops st hi hops).1
  exact ⟨hd, hdir, hw, hinv.1, hinv.2⟩

/-- **Canonical tries are determined by their entries**: two well-formed canonical tries denoting the
same map serialise identically — hence (for ANY hash `H` of the serialisation) the same CID. -/
theorem c16_canonical_unique {α : Type} (H : Dag → α) (dgl : Name → List Nat) (t1 t2 : Trie)
    (w1 : WF dgl t1) (w2 : WF dgl t2) (c1 : Canon t1) (c2 : Canon t2) (hsame : Trie.get dgl t1 = Trie.get dgl t2) :
    toDag t1 = toDag t2 ∧ H (toDag t1) = H (toDag t2) := by
  have : toDag t1 = toDag t2 := by
    apply canon_unique t1 t2 dgl w1 w2 c1 c2
    intro k i r e
    have := congrFun hsame k
    simpa [Trie.get, e] using this
  exact ⟨this, by rw [this]⟩

/-- **History independence of the pure HAMT directory**: two arbitrary edit histories (from any two
well-formed canonical directories of the same width, e.g. both empty) that end in the same entry
map end in the same serialised trie, for every shard width and every hash without full collisions. -/
theorem c16_hamt_history_independent (h : Name → List Byte) (g : Globals) (U : Name → Prop) (w : Nat)
    (ok : DigitsOK U (fun n => hashDigits (h n) (lg2 w))) (st1 st2 : State) (h1 : IsHamt h U w st1) (h2 : IsHamt h U w st2)
    (ops1 ops2 : List DOp) (hops1 : ∀ op ∈ ops1, OpIn U op) (hops2 : ∀ op ∈ ops2, OpIn U op)
    (hsame : absState h (drun h g st1 ops1).1 = absState h (drun h g st2 ops2).1) :
    ∃ hd1 hd2, (drun h g st1 ops1).1.dir = .hamt hd1 ∧ (drun h g st2 ops2).1.dir = .hamt hd2 ∧
      hd1.width = hd2.width ∧ toDag hd1.shard = toDag hd2.shard := by
  obtain ⟨hd1, e1, hw1, wf1, cn1⟩ := c16_hamt_canonical h g U w ok st1 h1 ops1 hops1
  obtain ⟨hd2, e2, hw2, wf2, cn2⟩ := c16_hamt_canonical h g U w ok st2 h2 ops2 hops2
  refine ⟨hd1, hd2, e1, e2, by rw [hw1, hw2], ?_⟩
  have hdg : hd1.dg h = hd2.dg h := by unfold Hamt.dg; rw [hw1, hw2]
  simp only [absState, e1, e2, Hamt.abs] at hsame
  rw [← hdg] at wf2 hsame
  exact (c16_canonical_unique id (hd1.dg h) hd1.shard hd2.shard wf1 wf2 cn1 cn2 hsame).1

/-- **Settings survive every conversion** (repaired code): whatever `AddChild` / `RemoveChild` of the
auto-switching directory do — stay, basic→HAMT, HAMT→basic, or fail — the configuration (link limit,
per-directory threshold, effective estimation mode, CID builder, effective shard width, stat) of the
resulting directory is the one it had. -/
theorem c16_settings_preserved (h : Name → List Byte) (g : Globals) (st : State) (n : Name) (l : Lnk) :
    (addChild h g st n l).1.dir.settings.cfg g = st.dir.settings.cfg g ∧
    (removeChild h g st n).1.dir.settings.cfg g = st.dir.settings.cfg g :=
  ⟨addChild_cfg h g st n l, removeChild_cfg h g st n⟩

/-- … hence along every operation sequence -/
theorem c16_settings_preserved_run (h : Name → List Byte) (g : Globals) (ops : List DOp) (st : State) :
    (drun h g st ops).1.dir.settings.cfg g = st.dir.settings.cfg g := by
  induction ops generalizing st with
  | nil => rfl
  | cons op ops ih =>
    simp only [drun]
    rw [ih]
    cases op with
    | add n l => exact addChild_cfg h g st n l
    | rm n => exact removeChild_cfg h g st n
    | find n =>
      simp only [dstep, findChild]
      cases st with
      | mk dyn dir =>
        cases dir with
        | basic b => rfl
        | hamt hd => simp only; split <;> rfl
    | list => rfl
    | each =>
      simp only [dstep, eachChild]
      cases st with
      | mk dyn dir => cases dir <;> rfl

/-- **The rule, basic → HAMT direction** (guard: the directory is currently basic and its bookkeeping
`estimatedSize` / `totalLinks` is exact, `BasicExact`; estimation mode one of the three defined).
`Rule` = switching enabled ∧ (size estimate of the NEW entry list above the threshold, in links or
block mode) ∨ (more entries than the link limit).  AddChild then (1) shards the directory iff the
rule holds for the entry list it produces (or fails without changing anything), and (2) otherwise
performs the edit on the basic directory, keeps every setting and re-establishes `BasicExact` — so
the statement extends by induction to every AddChild history that has not yet been sharded. -/
theorem c16_rule_partial (h : Name → List Byte) (g : Globals) (b : Basic) (n : Name) (l : Lnk)
    (hx : BasicExact g b) (hm : b.s.effMode g ≤ 2) :
    (Rule g b.s b.nodeStat (b.links.filter (·.1 ≠ n) ++ [(n, l)]) →
      (∃ hd, (addChild h g { dyn := true, dir := .basic b } n l).1.dir = .hamt hd) ∨
      ((addChild h g { dyn := true, dir := .basic b } n l).1 = { dyn := true, dir := .basic b } ∧
        (addChild h g { dyn := true, dir := .basic b } n l).2 ≠ .ok)) ∧
    (¬ Rule g b.s b.nodeStat (b.links.filter (·.1 ≠ n) ++ [(n, l)]) →
      (∃ b', (addChild h g { dyn := true, dir := .basic b } n l).1.dir = .basic b' ∧
        (addChild h g { dyn := true, dir := .basic b } n l).2 = .ok ∧
        b'.links = b.links.filter (·.1 ≠ n) ++ [(n, l)] ∧ b'.s = b.s ∧ b'.nodeStat = b.nodeStat ∧ BasicExact g b') ∨
      (b.s.effThr g = 0 ∧ (addChild h g { dyn := true, dir := .basic b } n l).2 = .maxlinks ∧
        (addChild h g { dyn := true, dir := .basic b } n l).1 = { dyn := true, dir := .basic b })) :=
  rule_step h g b n l hx hm

/-- a freshly created directory satisfies the guard of `c16_rule_partial` -/
theorem c16_fresh_exact (g : Globals) (s : Settings) (b : Basic) (hn : Basic.new g s = some b) : BasicExact g b := by
  have hcomp : ∀ b0 : Basic, b0.links = [] →
      b0.compute g = ((if b0.s.effMode g = 1 then ((dataFieldSize b0.nodeStat : Nat) : Int) else 0), 0) := by
    intro b0 h0
    simp only [Basic.compute, h0, List.map_nil, List.sum_nil, List.length_nil]
    by_cases h1 : b0.s.effMode g = 1
    · simp [h1]
    · by_cases h00 : b0.s.effMode g = 0 <;> simp [h1, h00]
  simp only [Basic.new] at hn
  split at hn
  · cases hn
  · simp only [Option.some.injEq] at hn
    generalize hb0 : ({ links := [], nodeStat := s.stat, s := { s with fanout := (if s.fanout = 0 then g.defWidth else s.fanout), builder := (if s.builder = "nil" then "v0" else s.builder) } } : Basic) = b0 at hn
    have hl0 : b0.links = [] := by rw [← hb0]
    rw [hcomp b0 hl0] at hn
    have hl : b.links = [] := by rw [← hn]
    have hs : b.s = b0.s := by rw [← hn, ← hb0]
    have he : b.est = (if b0.s.effMode g = 1 then ((dataFieldSize b0.nodeStat : Nat) : Int) else 0) := by rw [← hn]
    have ht : b.total = 0 := by rw [← hn]
    have hns : b.nodeStat = b0.nodeStat := by rw [← hn, ← hb0]
    refine ⟨by simp [hl], by simp [hl, ht], ?_, by intro hp; rw [ht]; omega⟩
    rw [he, hs, hns]
    simp only [C15.sizeOf, hl, List.map_nil, List.sum_nil]
    by_cases h2 : b0.s.effMode g = 2
    · have : ¬ b0.s.effMode g = 1 := by rw [h2]; decide
      simp [h2, this]
    · simp [h2]

/-- **`sizeBelowThreshold` does not depend on the enumeration order**: its loop over `EnumLinksAsync` (parallel
walk, delivery order not determined) with the early exit `partialSize + sizeChange > threshold` answers,
for EVERY delivery order (any permutation of the entries), what the model's order-free `Hamt.sizeBelow`
states: no link at all, or total size + delta within the threshold. -/
theorem c16_size_below_order_independent (g : Globals) (hd : Hamt) (op : Int) (order : List (Name × Lnk))
    (hp : order.Perm hd.shard.ents) :
    sizeBelowLoop (hd.s.effThr g) op
        (if hd.s.effMode g = 1 then ((dataFieldSize hd.s.stat : Nat) : Int) else 0)
        (order.map fun e => hd.linkSizeFor g (nameLen e.1) e.2) = hd.sizeBelow g op :=
  sizeBelow_order_independent g hd op order hp

/-! Non-vacuity: the collapse on removal makes "insert a, b, c; remove c" equal to "insert b, a". -/
section examples
def exDg : Name → List Nat := fun n => if n = "61" then [1, 2, 3] else if n = "62" then [1, 2, 5] else [1, 4, 4]
def exL (c : String) : Lnk := { cid := c, clen := 34, size := 1 }
def ins (t : Trie) (k : Name) (c : String) : Trie :=
  match exDg k with
  | i :: r => (t.swap exDg k (some (exL c)) i r).1
  | [] => t
def del (t : Trie) (k : Name) : Trie :=
  match exDg k with
  | i :: r => (t.swap exDg k none i r).1
  | [] => t

example : toDag (del (ins (ins (ins .nil "61" "A") "62" "B") "63" "C") "63") = toDag (ins (ins .nil "62" "B") "61" "A") := by decide
example : toDag (del (ins (ins (ins .nil "61" "A") "62" "B") "63" "C") "62") =
    .sub 1 (.val 2 "61" (exL "A") (.val 4 "63" (exL "C") .nil)) .nil := by decide
end examples

end C16
