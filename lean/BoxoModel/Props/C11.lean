import BoxoModel.C11.Lemmas
/-!
# C11 — dag-pb nodes encode canonically and never expose a stale CID

Property theorems only (helper lemmas are in `BoxoModel/C11/Lemmas.lean`, the model in
`BoxoModel/C11/Model.lean`). Everything is stated for arbitrary builder / CID types and an arbitrary
hash side `P : Params B C` (`P.sum b bytes` = `builder.Sum(bytes)`): nothing is assumed about hashing.

The "current abstract node" of a `Node` is its non-cache part: `links` (in the order they are held),
`data`, and the builder in force `eff P n`; its "current encoding" is `encodePB n.links n.data`
(the codec sorts, so in-place sorting by a read does not change it: `c11_reads_keep_node`).
The mutators change these three fields exactly as the Go methods do (see the model); the theorems say
that whatever the history, the cached values that the reads return agree with them.
-/
namespace C11
open Varint Proto

variable {B C : Type}

/-- side conditions of an operation:
* `reload` / `reloadBlock` (decode the node's own block) are only claimed for blocks shorter than 2^64
  bytes (protobuf lengths are 64-bit);
* a link handed to the node carries a Go `cid.Cid`: when defined it is a well-formed CID (`cidWf`).
All other operations are unconditional. -/
def opOk (n : Node B C) : Op B → Prop
  | .reload => (encodePB n.links n.data).length < 2 ^ 64
  | .reloadBlock => (encodePB n.links n.data).length < 2 ^ 64
  | .addLink l => checkLink l = true → cidWf l.cid
  | .updateNodeLink l => checkLink l = true → cidWf l.cid
  | .setLinks ls => ∀ l ∈ ls, cidWf l.cid
  | .unmarshalJSON _ ls => ∀ l ∈ ls, cidWf l.cid
  | _ => True

/-- nodes reachable from `NodeWithData(d)` by any sequence of the modelled operations:
AddRawLink/AddNodeLink, RemoveNodeLink, SetLinks, SetData, SetCidBuilder (nil included), Copy,
UpdateNodeLink, UnmarshalJSON, DecodeProtobuf(RawData()), DecodeProtobufBlock(own block) and the reads
Links, Tree, MarshalJSON, GetPBNode, GetNodeLink, Data, Marshal, RawData, Size, Stat, Cid, in any order -/
inductive Reachable (P : Params B C) : Node B C → Prop
  | fresh (d : Option Bytes) : Reachable P (fresh d)
  | step {n : Node B C} (op : Op B) : Reachable P n → opOk n op → Reachable P (step P n op).1

/-- every operation preserves the cache-coherence invariant -/
theorem c11_inv_step (P : Params B C) (n : Node B C) (op : Op B) (h : Inv P n) (hok : opOk n op) :
    Inv P (step P n op).1 := by
  cases op with
  | addLink l => exact inv_addLink P n l h hok
  | removeLink nm => exact inv_removeLink P n nm h
  | setLinks ls => exact inv_setLinks P n ls h hok
  | setData d => exact inv_setData P n d h
  | setBuilder b => exact inv_setBuilder P n b h
  | copy => exact inv_copy P n h
  | reload =>
    obtain ⟨m, hm, hi, _⟩ := reload_spec P n h hok
    simp only [step, hm]; exact hi
  | links => exact inv_cleanLinks P n h
  | getLink nm => exact h
  | data => exact h
  | marshal => exact (marshal_spec P n h).2
  | rawData => exact (encodeProtobuf_spec P n false h).2.2.2.2.2.2.2
  | size => exact (encodeProtobuf_spec P n false h).2.2.2.2.2.2.2
  | cid => exact (encodeProtobuf_spec P n false h).2.2.2.2.2.2.2
  | tree => exact inv_cleanLinks P n h
  | marshalJSON => exact inv_cleanLinks P n h
  | unmarshalJSON d ls => exact inv_unmarshalJSON P n d ls h hok
  | getPBNode => exact h
  | stat => exact (stat_spec P n h).1
  | updateNodeLink l => exact inv_updateNodeLink P n l h hok
  | reloadBlock => exact (reloadBlock_spec P n h hok).1

theorem c11_reachable_inv (P : Params B C) (n : Node B C) (h : Reachable P n) : Inv P n := by
  induction h with
  | fresh d => exact inv_fresh P d
  | step op _ hok ih => exact c11_inv_step P _ op ih hok

/-- **No stale CID.** After any history, `Cid()` is the hash — under the builder now in force — of the
encoding of the node's current links and data. -/
theorem c11_cid_fresh (P : Params B C) (n : Node B C) (h : Reachable P n) :
    (cid P n).2 = some (P.sum (eff P n) (encodePB n.links n.data)) :=
  (encodeProtobuf_spec P n false (c11_reachable_inv P n h)).2.1

/-- After any history, `RawData()` is the encoding of the node's current links and data
(never a stale cached encoding). -/
theorem c11_rawdata_fresh (P : Params B C) (n : Node B C) (h : Reachable P n) :
    (rawData P n).2 = encodePB n.links n.data :=
  (encodeProtobuf_spec P n false (c11_reachable_inv P n h)).1

/-- `Marshal()` agrees with `RawData()` -/
theorem c11_marshal_fresh (P : Params B C) (n : Node B C) (h : Reachable P n) :
    (marshal n).2 = encodePB n.links n.data :=
  (marshal_spec P n (c11_reachable_inv P n h)).1

/-- the CID returned is the hash of the bytes returned: `Cid() = builder.Sum(RawData())` -/
theorem c11_cid_is_hash_of_rawdata (P : Params B C) (n : Node B C) (h : Reachable P n) :
    (cid P n).2 = some (P.sum (eff P n) (rawData P n).2) := by
  rw [c11_cid_fresh P n h, c11_rawdata_fresh P n h]

/-- The reads (`Links`, `Tree`, `MarshalJSON`, `GetPBNode`, `Stat`, `Marshal`, `RawData`, `Size`, `Cid`,
`GetNodeLink`, `Data`) do not change the
abstract node: same data, same builder in force, same links up to the in-place stable sort, hence the
same encoding. -/
theorem c11_reads_keep_node (P : Params B C) (n : Node B C) (h : Reachable P n) (op : Op B)
    (hr : match op with
      | .links | .getLink _ | .data | .marshal | .rawData | .size | .cid | .tree | .marshalJSON | .getPBNode
      | .stat => True
      | _ => False) :
    (step P n op).1.data = n.data ∧ eff P (step P n op).1 = eff P n ∧
    sortLinks (step P n op).1.links = sortLinks n.links ∧
    encodePB (step P n op).1.links (step P n op).1.data = encodePB n.links n.data := by
  have hi := c11_reachable_inv P n h
  have key : ∀ m : Node B C, m.data = n.data → eff P m = eff P n → m.links = linksAfterRead n →
      m.data = n.data ∧ eff P m = eff P n ∧ sortLinks m.links = sortLinks n.links ∧
      encodePB m.links m.data = encodePB n.links n.data := by
    intro m h1 h2 h3
    refine ⟨h1, h2, ?_, ?_⟩
    · rw [h3, sortLinks_linksAfterRead]
    · rw [h3, h1, encodePB_linksAfterRead P n hi]
  have hes := encodeProtobuf_spec P n false hi
  cases op with
  | links =>
    exact key _ (cleanLinks_data n) (by simp [step, getLinks, eff, cleanLinks_builder]) (cleanLinks_links n)
  | marshal =>
    exact key _ (cleanLinks_data n) (by simp [step, marshal, getLinks, eff, cleanLinks_builder])
      (cleanLinks_links n)
  | getLink nm => exact ⟨rfl, rfl, rfl, rfl⟩
  | data => exact ⟨rfl, rfl, rfl, rfl⟩
  | rawData => exact key _ hes.2.2.2.1 hes.2.2.2.2.1 hes.2.2.1
  | size => exact key _ hes.2.2.2.1 hes.2.2.2.2.1 hes.2.2.1
  | cid => exact key _ hes.2.2.2.1 hes.2.2.2.2.1 hes.2.2.1
  | tree =>
    exact key _ (cleanLinks_data n) (by simp [step, tree, eff, cleanLinks_builder]) (cleanLinks_links n)
  | marshalJSON =>
    exact key _ (cleanLinks_data n) (by simp [step, marshalJSON, eff, cleanLinks_builder]) (cleanLinks_links n)
  | getPBNode => exact ⟨rfl, rfl, rfl, rfl⟩
  | stat =>
    obtain ⟨_, _, _, s4, s5, s6, s7⟩ := stat_spec P n hi
    exact ⟨s4, s5, s6, s7⟩
  | unmarshalJSON _ _ => exact absurd hr id
  | updateNodeLink _ => exact absurd hr id
  | reloadBlock => exact absurd hr id
  | addLink _ => exact absurd hr id
  | removeLink _ => exact absurd hr id
  | setLinks _ => exact absurd hr id
  | setData _ => exact absurd hr id
  | setBuilder _ => exact absurd hr id
  | copy => exact absurd hr id
  | reload => exact absurd hr id

/-- trace form: run any operation list from a fresh node, then ask for the CID -/
theorem c11_cid_fresh_trace (P : Params B C) (d : Option Bytes) (ops : List (Op B))
    (hok : ∀ (pre : List (Op B)) (op : Op B) (post : List (Op B)), ops = pre ++ op :: post →
      opOk (run P (fresh d) pre) op) :
    (cid P (run P (fresh d) ops)).2 =
      some (P.sum (eff P (run P (fresh d) ops))
        (encodePB (run P (fresh d) ops).links (run P (fresh d) ops).data)) := by
  apply c11_cid_fresh
  have gen : ∀ (ops : List (Op B)) (n : Node B C), Reachable P n →
      (∀ pre op post, ops = pre ++ op :: post → opOk (run P n pre) op) → Reachable P (run P n ops) := by
    intro ops
    induction ops with
    | nil => intro n hn _; exact hn
    | cons op ops ih =>
      intro n hn hk
      apply ih (step P n op).1 (Reachable.step op hn (hk [] op ops rfl))
      intro pre op' post he
      exact hk (op :: pre) op' post (by simp [he])
  exact gen ops _ (Reachable.fresh d) hok

/-- **Round trip.** Decoding the encoding of links that passed `checkLink` (defined CID, Tsize < 2^63)
and a well-formed CID (`cidWf`: what the decoder's go-cid syntax check accepts, modelled by `parseCid`),
and any data (nil, empty or not), returns the same data and the same links, in encoded order. -/
theorem c11_roundtrip (ls : List Link) (d : Option Bytes) (hc : ∀ l ∈ ls, checkLink l = true)
    (hcid : ∀ l ∈ ls, cidWf l.cid) (hlen : (encodePB ls d).length < 2 ^ 64) :
    decodePB (encodePB ls d) = some (sortLinks ls, d) :=
  decodePB_encodePB_checked ls d hc hcid hlen

/-- … in particular for the bytes any reachable node returns -/
theorem c11_roundtrip_node (P : Params B C) (n : Node B C) (h : Reachable P n)
    (hlen : (encodePB n.links n.data).length < 2 ^ 64) :
    decodePB (rawData P n).2 = some (sortLinks n.links, n.data) := by
  rw [c11_rawdata_fresh P n h]
  exact c11_roundtrip _ _ (c11_reachable_inv P n h).chk (c11_reachable_inv P n h).cids hlen

/-- without the `checkLink` hypothesis: undefined-CID links are dropped and Tsize ≥ 2^63 is written as 0 -/
theorem c11_roundtrip_any (ls : List Link) (d : Option Bytes) (hlen : (encodePB ls d).length < 2 ^ 64)
    (hcid : ∀ l ∈ ls, cidWf l.cid) :
    decodePB (encodePB ls d) = some ((sortLinks (ls.filter fun l => cidDefined l.cid)).map normLink, d) :=
  decodePB_encodePB ls d hlen hcid

/-- **Sorted, stable.** The encoded link order (`sortLinks`, what the decoder returns by
`c11_roundtrip`) is a permutation of the links, sorted by name (byte-wise), and links with equal names
keep their insertion order. -/
theorem c11_sorted_stable (ls : List Link) :
    (sortLinks ls).Perm ls ∧
    (sortLinks ls).Pairwise (fun a b => bytesLe a.name b.name = true) ∧
    ∀ x : Bytes, (sortLinks ls).filter (fun l => l.name == x) = ls.filter (fun l => l.name == x) :=
  ⟨sortLinks_perm ls, sortLinks_sorted ls, sortLinks_stable ls⟩

/-- `bytesLe` really is the lexicographic order: total, transitive, antisymmetric -/
theorem c11_name_order :
    (∀ a b : Bytes, bytesLe a b = true ∨ bytesLe b a = true) ∧
    (∀ a b c : Bytes, bytesLe a b = true → bytesLe b c = true → bytesLe a c = true) ∧
    (∀ a b : Bytes, bytesLe a b = true → bytesLe b a = true → a = b) := by
  refine ⟨?_, bytesLe_trans, bytesLe_antisymm⟩
  intro a b
  have := bytesLe_total a b
  simpa [Bool.or_eq_true] using this

/-- **Order independence.** Nodes with the same data and the same links, all names distinct, encode to
the same bytes whatever the order in which the links were added. -/
theorem c11_order_independent (a b : List Link) (d : Option Bytes) (hp : a.Perm b)
    (hn : (a.map (·.name)).Nodup) : encodePB a d = encodePB b d := by
  unfold encodePB nodeFields
  have hp' := hp.filter (fun l => cidDefined l.cid)
  have hn' : ((a.filter fun l => cidDefined l.cid).map (·.name)).Nodup :=
    hn.sublist (List.filter_sublist.map _)
  rw [sortLinks_perm_eq hp' hn']

/-- … hence the same CID under the same builder -/
theorem c11_order_independent_cid (P : Params B C) (n m : Node B C) (hn : Reachable P n)
    (hm : Reachable P m) (hp : n.links.Perm m.links) (hd : n.data = m.data)
    (hb : eff P n = eff P m) (hnd : (n.links.map (·.name)).Nodup) :
    (cid P n).2 = (cid P m).2 := by
  rw [c11_cid_fresh P n hn, c11_cid_fresh P m hm, hb, hd, c11_order_independent _ _ _ hp hnd]


/-- **Stat()** reports the CID and block size of the current encoding -/
theorem c11_stat_fresh (P : Params B C) (n : Node B C) (h : Reachable P n) :
    (stat P n).2.2 = some (P.sum (eff P n) (encodePB n.links n.data)) ∧
    (stat P n).2.1.2.1 = (encodePB n.links n.data).length :=
  ⟨(stat_spec P n (c11_reachable_inv P n h)).2.1, (stat_spec P n (c11_reachable_inv P n h)).2.2.1⟩

/-- **GetPBNode()** (legacy pb form): the stably sorted links — the same list the codec serializes —
and the data when non-empty; the node itself is not modified -/
theorem c11_getPBNode (n : Node B C) :
    (getPBNode n).1 = sortLinks n.links ∧ (getPBNode n).1.Pairwise (fun a b => bytesLe a.name b.name = true) :=
  ⟨rfl, sortLinks_sorted _⟩

/-- nodes reachable WITHOUT `UnmarshalJSON` (which installs the list "as serialized" without flagging it) -/
inductive ReachableM (P : Params B C) : Node B C → Prop
  | fresh (d : Option Bytes) : ReachableM P (fresh d)
  | step {n : Node B C} (op : Op B) : ReachableM P n → opOk n op →
      (∀ d ls, op ≠ .unmarshalJSON d ls) → ReachableM P (step P n op).1

theorem c11_srt_step (P : Params B C) (n : Node B C) (op : Op B) (hi : Inv P n) (h : Srt n) (hok : opOk n op)
    (hne : ∀ d ls, op ≠ .unmarshalJSON d ls) : Srt (step P n op).1 := by
  have hes := encodeProtobuf_spec P n false hi
  cases op with
  | addLink l => exact srt_addLink n l h
  | removeLink nm => exact srt_removeLink n nm h
  | setLinks ls => exact srt_setLinks n ls h
  | setData d => exact h
  | setBuilder b => exact srt_setBuilder P n b h
  | copy => exact srt_copy n
  | reload =>
    obtain ⟨m, hm, _, hl, _⟩ := reload_spec P n hi hok
    simp only [step, hm]
    intro _; rw [hl]; exact sortLinks_sorted _
  | links => exact srt_cleanLinks n h
  | getLink nm => exact h
  | data => exact h
  | marshal => exact srt_cleanLinks n h
  | rawData => exact srt_of_links n _ h hes.2.2.1
  | size => exact srt_of_links n _ h hes.2.2.1
  | cid => exact srt_of_links n _ h hes.2.2.1
  | tree => exact srt_cleanLinks n h
  | marshalJSON => exact srt_cleanLinks n h
  | unmarshalJSON d ls => exact absurd rfl (hne d ls)
  | getPBNode => exact h
  | stat =>
    have a := encodeProtobuf_spec P n false hi
    have b := encodeProtobuf_spec P _ false a.2.2.2.2.2.2.2
    have c := encodeProtobuf_spec P _ false b.2.2.2.2.2.2.2
    exact srt_of_links _ _ (srt_of_links _ _ (srt_of_links n _ h a.2.2.1) b.2.2.1) c.2.2.1
  | updateNodeLink l => exact srt_addLink _ l (srt_removeLink _ l.name (srt_copy n))
  | reloadBlock =>
    obtain ⟨_, _, hl, _⟩ := reloadBlock_spec P n hi hok
    intro _; rw [hl]; exact sortLinks_sorted _

theorem reachableM_reachable (P : Params B C) (n : Node B C) (h : ReachableM P n) : Reachable P n := by
  induction h with
  | fresh d => exact .fresh d
  | step op _ hok _ ih => exact .step op ih hok

/-- **Links() / Tree() are sorted**: for every node built without UnmarshalJSON, `Links()` returns the
links stably sorted by name and `Tree("")` their names in that order -/
theorem c11_links_sorted (P : Params B C) (n : Node B C) (h : ReachableM P n) :
    (getLinks n).2 = sortLinks n.links ∧ (tree n).2 = (sortLinks n.links).map (·.name) := by
  have hs : Srt n := by
    induction h with
    | fresh d => exact srt_fresh d
    | step op hr hok hne ih => exact c11_srt_step P _ op (c11_reachable_inv P _ (reachableM_reachable P _ hr)) ih hok hne
  have : (cleanLinks n).links = sortLinks n.links := by
    rw [cleanLinks_links]
    split
    · rfl
    · next hd => exact (sortLinks_of_sorted (hs (by simpa using hd))).symm
  exact ⟨this, by simp [tree, this]⟩

/-- `parseCid` returns a prefix of its input: the decoder ignores bytes after the CID inside a Hash field
(go-cid `CidFromBytes` behaviour, visible in the decoder tie) -/
theorem c11_parseCid_prefix (b c : Bytes) (h : parseCid b = some c) : ∃ n, c = b.take n := by
  unfold parseCid at h
  cases hl : cidLen b with
  | none => simp [hl] at h
  | some k => simp [hl] at h; exact ⟨k, h.symm⟩

/-! ### the second defect that was fixed (`fix: merkledag: UnmarshalJSON validates the links before
replacing data and links`)

With the code as it was (`unmarshalJSONUnfixed`), a JSON document with a link whose Tsize exceeds
MaxInt64 returns an error after data and links were replaced while the cached encoding stays: the bytes
`RawData()` returns are no longer the encoding of the node's data and links. -/
theorem c11_unfixed_json_counterexample :
    let P : Params Nat (Nat × Bytes) := { v0 := 0, usable := fun _ => true, sum := fun k e => (k, e) }
    let n1 := (rawData P (fresh (some [1]))).1
    let n2 := (unmarshalJSONUnfixed n1 (some [2]) [⟨[], [1, 85, 0, 1, 7], 2 ^ 63⟩]).1
    (rawData P n2).2 ≠ encodePB n2.links n2.data := by
  decide +kernel

/-! ### the defect that was fixed (`fix: merkledag: SetCidBuilder(nil) must drop the cached CID`)

With the code as it was (`setBuilderNilUnfixed`), `SetCidBuilder(v1); Cid(); SetCidBuilder(nil); Cid()`
returns the CID computed under v1 although the builder in force is v0: for an injective hash side the
second CID is not the hash under the builder in force. -/
theorem c11_unfixed_counterexample :
    let P : Params Nat (Nat × Bytes) := { v0 := 0, usable := fun _ => true, sum := fun k e => (k, e) }
    let n1 := (cid P (setBuilder P (fresh none) (some 1)).1).1
    let n2 := setBuilderNilUnfixed P n1
    (cid P n2).2 ≠ some (P.sum (eff P n2) (encodePB n2.links n2.data)) := by
  simp [cid, encodeProtobuf, reencode, fillCached, cidBuilder, setBuilder, setBuilderNilUnfixed, fresh,
    marshal, getLinks, cleanLinks, eff]

/-! ### non-vacuity -/

section Examples
def exP : Params Nat (Nat × Bytes) := { v0 := 0, usable := fun k => k < 7, sum := fun k e => (k, e) }
def exL1 : Link := ⟨[98], [1, 85, 0, 1, 7], 300⟩
def exL2 : Link := ⟨[97], [1, 85, 0, 1, 9], 5⟩

/-- a reachable node with two links added out of order, a non-default builder, reads in between -/
example : Reachable exP (run exP (fresh (some [1, 2]))
    [.addLink exL1, .cid, .setBuilder (some 1), .addLink exL2, .rawData, .setBuilder none]) := by
  simp only [run]
  repeat (first | exact Reachable.fresh _ | refine Reachable.step _ ?_ (by first | trivial | (intro _; decide)))

theorem exSorted : sortLinks [exL1, exL2] = [exL2, exL1] := by
  simp [sortLinks, List.mergeSort, exL1, exL2, nameLe, bytesLe, List.MergeSort.Internal.splitInTwo]

theorem exEnc : encodePB [exL1, exL2] (some [1, 2]) =
    encodeMsg ([exL2, exL1].map linkMsg ++ dataFields (some [1, 2])) := by
  have : [exL1, exL2].filter (fun l => cidDefined l.cid) = [exL1, exL2] := by decide
  rw [encodePB, nodeFields_eq, this, exSorted]

/-- the hypotheses of `c11_roundtrip` hold for a two-link node whose links were added out of order, and
the encoding puts "a" before "b" although "b" was added first -/
example : decodePB (encodePB [exL1, exL2] (some [1, 2])) = some ([exL2, exL1], some [1, 2]) := by
  rw [c11_roundtrip _ _ (by decide) (by decide) (by rw [exEnc]; decide +kernel), exSorted]

/-- the concrete bytes: Links "a" then "b" (Hash, Name, Tsize each), then Data -/
example : encodePB [exL1, exL2] (some [1, 2]) =
    [0x12, 0x0c, 0x0a, 5, 1, 85, 0, 1, 9, 0x12, 1, 97, 0x18, 5,
     0x12, 0x0d, 0x0a, 5, 1, 85, 0, 1, 7, 0x12, 1, 98, 0x18, 0xAC, 0x02,
     0x0a, 2, 1, 2] := by
  rw [exEnc]; decide +kernel

/-- `reload` is permitted (`opOk`) on that node -/
example : opOk (B := Nat) (C := Nat × Bytes) { links := [exL1, exL2], data := some [1, 2] } .reload := by
  show (encodePB [exL1, exL2] (some [1, 2])).length < 2 ^ 64
  rw [exEnc]; decide +kernel
end Examples

end C11
