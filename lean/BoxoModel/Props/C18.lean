import BoxoModel.C18.Node
/-!
# C18 — UnixFS metadata round-trips

Property theorems only (helpers: `BoxoModel/C18/{Lemmas,Codec,Node}.lean`; model: `BoxoModel/C18/Model.lean`).
The permission conversions are the regenerated `Gen.C18.modePermsToUnixPerms` /
`Gen.C18.unixPermsToModePerms` (T-gen from files/util.go): a semantic change of the Go functions changes
these definitions and breaks `c18_perm_rt` or the theorems built on it.

`permMask` = os.ModePerm | ModeSetuid | ModeSetgid | ModeSticky (as os.FileMode bits);
"serialization" = `decode ∘ encode` = `FSNodeFromBytes(GetBytes())`.
-/
namespace C18
open Varint Proto Gen.C18

/-- **Permission bits.** Every 12-bit unix permission value survives unix → FileMode → unix, and every
FileMode (all 2^32 values) survives FileMode → unix → FileMode on exactly the permission bits. -/
theorem c18_perm_rt :
    (∀ p : BitVec 32, p &&& 0xFFF#32 = p → modePermsToUnixPerms (unixPermsToModePerms p) = p) ∧
    (∀ m : BitVec 32, unixPermsToModePerms (modePermsToUnixPerms m) = m &&& permMask) ∧
    (∀ m : BitVec 32, modePermsToUnixPerms m &&& 0xFFF#32 = modePermsToUnixPerms m) :=
  ⟨toUnix_toMode, toMode_toUnix, toUnix_low12⟩

/-- **Serialization.** `FSNodeFromBytes(GetBytes())` returns the same message, for every node whose
scalars are in the range of their Go types and whose encoding is shorter than 2^64 bytes. -/
theorem c18_codec_rt (n : FSNode) (hw : Wf n) (hlen : (encode n).length < 2 ^ 64) :
    decode (encode n) = some n :=
  decode_encode n hw hlen

/-- **Mode.** After `SetMode(m)` (any of the 2^32 FileMode values, on any node) and serialization,
`Mode()` returns exactly the permission bits of `m` — plus the type bit of the node type when they are
non-zero, nothing when they are zero — and the extended bits are untouched. -/
theorem c18_mode_rt (n : FSNode) (m : BitVec 32) (hw : Wf n)
    (hlen : (encode (setMode n m)).length < 2 ^ 64) :
    ∃ r, decode (encode (setMode n m)) = some r ∧
      modeOf r &&& permMask = m &&& permMask ∧
      modeOf r = (if m &&& permMask = 0#32 then 0#32 else (m &&& permMask) ||| typeBits n.type) ∧
      extendedMode r = extendedMode n :=
  ⟨setMode n m, decode_encode _ (wf_setModeFromUnix n _ hw) hlen, modeOf_setMode_perm n m,
    modeOf_setMode n m, ext_setModeFromUnix n _⟩

/-- **Mtime.** After `SetModTime(t)` and serialization `ModTime()` returns the same instant for every
non-zero time (negative seconds, any nanosecond in [0, 10^9)), and the zero time for the zero time. -/
theorem c18_mtime_rt (n : FSNode) (t : Time) (hw : Wf n) (hv : t.valid)
    (hlen : (encode (setModTime n t)).length < 2 ^ 64) :
    ∃ r, decode (encode (setModTime n t)) = some r ∧
      modTime r = if t.isZero then Time.zero else t :=
  ⟨setModTime n t, decode_encode _ (wf_setModTime n t hv hw) hlen, modTime_setModTime n t hv⟩

/-- mode and mtime do not disturb each other, nor the type / data / sizes -/
theorem c18_setters_independent (n : FSNode) (m : BitVec 32) (t : Time) :
    modTime (setMode n m) = modTime n ∧ modeOf (setModTime n t) = modeOf n ∧
    fileSize (setMode n m) = fileSize n ∧ fileSize (setModTime n t) = fileSize n := by
  have a1 : (setMode n m).mtime = n.mtime := by simp only [setMode, setModeFromUnix]; split <;> rfl
  have a2 : (setMode n m).type = n.type := by simp only [setMode, setModeFromUnix]; split <;> rfl
  have a3 : (setMode n m).filesize = n.filesize := by simp only [setMode, setModeFromUnix]; split <;> rfl
  have a4 : (setMode n m).data = n.data := by simp only [setMode, setModeFromUnix]; split <;> rfl
  have b1 : (setModTime n t).mode = n.mode := by simp only [setModTime]; split <;> rfl
  have b2 : (setModTime n t).type = n.type := by simp only [setModTime]; split <;> rfl
  have b3 : (setModTime n t).filesize = n.filesize := by simp only [setModTime]; split <;> rfl
  have b4 : (setModTime n t).data = n.data := by simp only [setModTime]; split <;> rfl
  refine ⟨?_, ?_, ?_, ?_⟩
  · unfold modTime; rw [a1]
  · unfold modeOf; rw [b1, b2]
  · unfold fileSize dataLen; rw [a2, a3, a4]
  · unfold fileSize dataLen; rw [b2, b3, b4]

/-- **The `…PBDataWithStat` constructors** (`pbDataAddStat` on a message without mode / mtime):
decoding what they produce gives the permission bits and the instant that were passed. Instances:
`filePBDataWithStat`, `folderPBDataWithStat`, `hamtShardDataWithStat` (by `rfl` below). -/
theorem c18_addStat_rt (base : FSNode) (mode : BitVec 32) (t : Time) (hw : Wf base)
    (hm : base.mode = none) (hmt : base.mtime = none) (hv : t.valid)
    (hlen : (encode (addStat base mode t)).length < 2 ^ 64) :
    ∃ r, decode (encode (addStat base mode t)) = some r ∧
      modeOf r &&& permMask = mode &&& permMask ∧
      modTime r = if t.isZero then Time.zero else t := by
  refine ⟨addStat base mode t, decode_encode _ (wf_addStat base mode t hv hw) hlen, ?_,
    modTime_addStat base mode t hv hmt⟩
  rw [modeOf_addStat base mode t hm]
  split
  · next h => rw [h]; decide
  · rw [and_or_distrib_right, typeBits_and_permMask, and_self_mask]; simp

theorem c18_ctor_is_addStat (d : Option Bytes) (total fanout hashType : Nat) (mode : BitVec 32) (t : Time) :
    filePBDataWithStat d total mode t = encode (addStat { type := 2, data := d, filesize := some total } mode t) ∧
    folderPBDataWithStat mode t = encode (addStat { type := 1 } mode t) ∧
    hamtShardDataWithStat d fanout hashType mode t =
      encode (addStat { type := 5, data := d, hashType := some hashType, fanout := some fanout } mode t) :=
  ⟨rfl, rfl, rfl⟩

/-- nodes built by `NewFSNode` and edited through the FSNode API (UpdateFilesize excluded: it exists to
set the size by hand), serialized and reloaded any number of times -/
inductive Tracked : FSNode → Prop
  | new (t : Nat) : t < 2 ^ 32 → Tracked (newFSNode t)
  | setData {n} (d : Option Bytes) : Tracked n → Tracked (setData n d)
  | addBlockSize {n} (s : Nat) : s < 2 ^ 64 → Tracked n → Tracked (addBlockSize n s)
  | removeBlockSize {n} (i : Nat) : i < n.blocksizes.length → Tracked n → Tracked (removeBlockSize n i)
  | removeAll {n} : dataLen n < 2 ^ 64 → Tracked n → Tracked (removeAllBlockSizes n)
  | setMode {n} (m : BitVec 32) : Tracked n → Tracked (setMode n m)
  | setModeFromUnix {n} (u : BitVec 32) : Tracked n → Tracked (setModeFromUnix n u)
  | setExtendedMode {n} (x : BitVec 32) : Tracked n → Tracked (setExtendedMode n x)
  | setModTime {n} (t : Time) : t.valid → Tracked n → Tracked (setModTime n t)
  | reload {n r} : (encode n).length < 2 ^ 64 → decode (encode n) = some r → Tracked n → Tracked r

theorem c18_tracked_inv (n : FSNode) (h : Tracked n) : SizeOk n ∧ Wf n := by
  induction h with
  | new t ht => exact ⟨sizeOk_new t, wf_new t ht⟩
  | setData d _ ih => exact ⟨sizeOk_setData _ d ih.1, wf_setData _ d ih.2⟩
  | addBlockSize s hs _ ih => exact ⟨sizeOk_addBlockSize _ s hs ih.1, wf_addBlockSize _ s hs ih.2⟩
  | removeBlockSize i hi _ ih => exact ⟨sizeOk_removeBlockSize _ i hi ih.2.blocks ih.1, wf_removeBlockSize _ i ih.2⟩
  | removeAll hd _ ih => exact ⟨sizeOk_removeAll _ hd, wf_removeAll _ hd ih.2⟩
  | setMode m _ ih => exact ⟨sizeOk_setModeFromUnix _ _ ih.1, wf_setModeFromUnix _ _ ih.2⟩
  | setModeFromUnix u _ ih => exact ⟨sizeOk_setModeFromUnix _ u ih.1, wf_setModeFromUnix _ u ih.2⟩
  | setExtendedMode x _ ih => exact ⟨sizeOk_setExtendedMode _ x ih.1, wf_setExtendedMode _ x ih.2⟩
  | setModTime t hv _ ih => exact ⟨sizeOk_setModTime _ t ih.1, wf_setModTime _ t hv ih.2⟩
  | reload hlen hd _ ih =>
    rw [decode_encode _ ih.2 hlen] at hd
    cases hd
    exact ih

/-- **File size.** For File and Raw nodes `FileSize()` is the content length — inline data plus the
child block sizes, in uint64 arithmetic — through every edit history and across serialization; for a
Symlink it is the length of the target, whatever the node's history. -/
theorem c18_size (n : FSNode) :
    (Tracked n → (n.type = 2 ∨ n.type = 0) → fileSize n = (dataLen n + n.blocksizes.sum) % 2 ^ 64) ∧
    (n.type = 4 → fileSize n = dataLen n) :=
  ⟨fun h ht => fileSize_of_sizeOk n (c18_tracked_inv n h).1 ht, fileSize_symlink n⟩

/-- `WrapData` (Raw) and `SymlinkData`: the size accessor reports the length of the wrapped bytes -/
theorem c18_size_ctors (d : Option Bytes) (path : Bytes) (hd : (d.getD []).length < 2 ^ 64)
    (h1 : (wrapData d).length < 2 ^ 64) (h2 : (symlinkData path).length < 2 ^ 64) :
    (∃ r, decode (wrapData d) = some r ∧ fileSize r = (d.getD []).length) ∧
    (∃ r, decode (symlinkData path) = some r ∧ fileSize r = path.length) := by
  constructor
  · refine ⟨_, decode_encode _ ⟨by simp, ?_, by simp, by simp, by simp, by simp, by simp, unk_nil⟩ h1, ?_⟩
    · intro v hv; simp at hv; omega
    · simp [fileSize]
  · refine ⟨_, decode_encode _ ⟨by simp, by simp, by simp, by simp, by simp, by simp, by simp, unk_nil⟩ h2, ?_⟩
    simp [fileSize, dataLen]


/-- **Unknown fields are retained.** Fields pb.Data does not recognise (other numbers, or a known number
with another wire type) survive `FSNodeFromBytes`, every setter, and `GetBytes` byte for byte (this is part
of `c18_codec_rt` through `Wf.unk`); the setters never touch them. -/
theorem c18_unknown_kept (n : FSNode) (m u x : BitVec 32) (t : Time) (d : Option Bytes) (s : Nat) :
    (setMode n m).unknown = n.unknown ∧ (setModeFromUnix n u).unknown = n.unknown ∧
    (setExtendedMode n x).unknown = n.unknown ∧ (setModTime n t).unknown = n.unknown ∧
    (setData n d).unknown = n.unknown ∧ (addBlockSize n s).unknown = n.unknown := by
  refine ⟨?_, ?_, ?_, ?_, rfl, rfl⟩
  · simp only [setMode, setModeFromUnix]; split <;> rfl
  · simp only [setModeFromUnix]; split <;> rfl
  · simp only [setExtendedMode]; split <;> rfl
  · simp only [setModTime]; split <;> rfl

/-- **Metadata message.** `MetadataFromBytes(BytesForMetadata(&Metadata{MimeType, Size}))` returns the
MimeType (any byte string; the Go code does not restore `Size`). -/
theorem c18_metadata_rt (mime : Bytes) (size : Nat) (hs : size < 2 ^ 64)
    (hlen : (bytesForMetadata mime size).length < 2 ^ 64) :
    metadataFromBytes (bytesForMetadata mime size) = some mime := by
  have hm : mime.length < 2 ^ 64 := by
    have h1 : (bytesForMetadata mime size).length =
        (encodeMsg (toFields { type := 3, data := some (encodeMsg [Field.byts 1 mime]), filesize := some size })).length := by
      simp [bytesForMetadata, encode]
    have h2 := Field.encode_length_le_of_mem (f := Field.byts 2 (encodeMsg [Field.byts 1 mime]))
      (fs := toFields { type := 3, data := some (encodeMsg [Field.byts 1 mime]), filesize := some size })
      (by simp [toFields, optField])
    have h3 := Field.bytes_length_le 2 (encodeMsg [Field.byts 1 mime])
    have h4 := Field.bytes_length_le 1 mime
    have h5 : (encodeMsg [Field.byts 1 mime]).length = (Field.mk 1 (.bytes mime)).encode.length := by
      simp [encodeMsg, Field.byts]
    have h6 : (Field.byts 2 (encodeMsg [Field.byts 1 mime])).encode.length =
        (Field.mk 2 (.bytes (encodeMsg [Field.byts 1 mime]))).encode.length := rfl
    omega
  have hw : Wf { type := 3, data := some (encodeMsg [Field.byts 1 mime]), filesize := some size } :=
    ⟨by simp, by intro v hv; simp at hv; omega, by simp, by simp, by simp, by simp, by simp, unk_nil⟩
  unfold metadataFromBytes
  rw [show bytesForMetadata mime size = encode _ from rfl, decode_encode _ hw hlen]
  have hi : decodeMsg (encodeMsg [Field.byts 1 mime]) = some [Field.byts 1 mime] :=
    decodeMsg_encodeMsg _ (by
      intro f hf
      simp at hf; subst hf
      exact ⟨by simp [Field.byts], by simp [Field.byts], hm⟩)
  simp only [Field.byts] at hi
  simp [Field.byts, hi, lastBytes?]

/-! ### non-vacuity: concrete instances -/

section Examples
/-- rwxr-xr-x + setuid on a directory, mtime 1.5 s before the epoch, encoded then decoded -/
def exNode : FSNode := setModTime (setMode (newFSNode 1) 0x808001ED#32) ⟨-2, 500000000⟩

example : exNode.mode = some 0x9ED#32 ∧ exNode.mtime = some ⟨-2, some 500000000⟩ := by decide
example : encode exNode =
    [0x08, 1, 0x18, 0, 0x38, 0xED, 0x13,
     0x42, 16, 0x08, 0xFE, 0xFF, 0xFF, 0xFF, 0xFF, 0xFF, 0xFF, 0xFF, 0xFF, 0x01, 0x15, 0x00, 0x65, 0xCD, 0x1D] := by
  decide +kernel
example : decode (encode exNode) = some exNode := by decide +kernel
example : modeOf exNode = 0x808001ED#32 ∧ modTime exNode = ⟨-2, 500000000⟩ := by decide
example : Tracked (addBlockSize (setData (newFSNode 2) (some [1, 2, 3])) 262144) :=
  .addBlockSize _ (by decide) (.setData _ (.new 2 (by decide)))
example : fileSize (addBlockSize (setData (newFSNode 2) (some [1, 2, 3])) 262144) = 262147 := by decide
/-- a node carrying a field pb.Data does not know (number 9, varint 1): `Wf.unk` holds for it, the field
comes back from a reload and stays at the end of the encoding after SetMode -/
example : ∃ prs, decodeMsgRaw ([0x48, 0x01] : Bytes) = some prs ∧ ∀ p ∈ prs, isKnown p.1 = false :=
  ⟨[(⟨9, .varint 1⟩, [0x48, 0x01])], by decide, by decide⟩
example : (decode [0x08, 2, 0x48, 0x01, 0x18, 0]).map (·.unknown) = some [0x48, 0x01] := by decide +kernel
example : (decode [0x08, 2, 0x48, 0x01, 0x18, 0]).map (fun n => encode (setMode n 0x1A4#32)) =
    some [0x08, 2, 0x18, 0, 0x38, 0xA4, 0x03, 0x48, 0x01] := by decide +kernel
example : metadataFromBytes (bytesForMetadata [116, 101, 120, 116] 7) = some [116, 101, 120, 116] := by
  decide +kernel
end Examples

end C18
