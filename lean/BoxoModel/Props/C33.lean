import BoxoModel.C33.Lemmas
import BoxoModel.C33.BitsLemmas
import BoxoModel.C33.NonLinkLemmas
/-!
C33 — path resolution follows UnixFS names, including sharded directories.

Scope (see docs/notes/C33.md): the theorems are about the executable model in `BoxoModel/C33/Model.lean`:
the index arithmetic of `ResolveToLastNode` / `ResolvePath` (boxo), the node sequence the two path
selectors make go-ipld-prime report, and the HAMT read path (hash digits → bitfield → popcount slot →
value match / child shard) over the shard tree that boxo's `hamt.Shard.Node()` wrote.  `H` (murmur3 of the
name) is an arbitrary function with fixed output length; CIDs are opaque.  The selector engine and
go-unixfsnode's codecs are NOT verified here: the model of what they return is validated by the
correspondence run only.
-/
namespace C33

/-- ResolveToLastNode (load of the root, selector walk over all but the last segment, node count
comparison, final `LookupBySegment`) computes exactly the segment-by-segment recursion `resolveSpec`,
for every hash function, every tree (well-formed or not, with or without unreadable blocks) and every
path. -/
theorem c33_rtl_eq_spec (H : Bytes → Bytes) (root : Node) (segs : List Bytes) :
    resolveToLastNode H root segs =
      if segs.isEmpty then .ok root.cid []
      else if !root.loadable then .err .load
      else resolveSpec H root segs :=
  resolveToLastNode_eq_spec H root segs

/-- `hashBits.Next(i)` (boxo `ipld/unixfs/hamt/util.go`, verbatim copy in go-unixfsnode): it fails exactly
when fewer than `i` bits are left; otherwise it consumes `i` bits and returns the window `[c, c+i)` of the
hash read as ONE big-endian bit string — so successive digits of a key are consecutive, disjoint bit
groups — and the digit is below `2^i`. For every hash, offset and width (no bound on `i`). -/
theorem c33_hashbits_window (h : Bytes) (c i : Nat) :
    (HashBits.mk h c).next i
      = (if c + i ≤ 8 * h.length then
          some (C15.ofBits (((hashBitsBE h).drop c).take i), HashBits.mk h (c + i))
        else none)
    ∧ (c + i ≤ 8 * h.length → C15.ofBits (((hashBitsBE h).drop c).take i) < 2 ^ i) :=
  ⟨next_eq_window h c i, window_lt h c i⟩

/-- Tie to the regenerated definition: the hand transcription of `hashBits.next` used by this model
computes the same digits as `C15.nextBits`, which is built on `Gen.C15.mkmask` (T-gen from
ipld/unixfs/hamt/util.go): a semantic change of `mkmask` in the Go source breaks this theorem. -/
theorem c33_hashbits_regenerated (h : Bytes) (c i : Nat) (hle : c + i ≤ h.length * 8) :
    (nextAux (i + 1) h c i).1 = C15.nextBits (h.map (·.toBitVec)) (i + 1) c i :=
  nextAux_eq_c15 h c i hle

/-- HAMT read path, soundness (no hypothesis on the shard tree): a successful lookup returns a stored
entry carrying exactly that key. -/
theorem c33_hamt_sound {α : Type} (H : Bytes → Bytes) (k : Bytes) (c fanout bf : Nat) (s : Slots α) (v : α)
    (h : lookupShard H k c fanout bf s = .found v) : (k, v) ∈ entries (padLen fanout) s :=
  lookupShard_found_mem H k c fanout bf s v h

/-- HAMT read path, exactness: on a well-formed shard tree (every value in the slot named by its own
hash digits; `wfShard` is evaluated by the driver on every shard tree boxo produced) lookup finds
exactly the stored names: `found v` iff `(k, v)` is stored, `noSuchField` iff `k` is not stored; no
other outcome. -/
theorem c33_hamt_exact {α : Type} (H : Bytes → Bytes) (L : Nat) (hL : ∀ k, (H k).length = L)
    (c fanout bf : Nat) (s : Slots α) (hwf : wfShard H L c fanout bf s = true) (k : Bytes) :
    (∀ v, lookupShard H k c fanout bf s = .found v ↔ (k, v) ∈ entries (padLen fanout) s)
    ∧ (lookupShard H k c fanout bf s = .noSuchField ↔ k ∉ (entries (padLen fanout) s).map (·.1))
    ∧ (∀ e, lookupShard H k c fanout bf s ≠ .err e) := by
  have heq := lookupShard_eq_findRes H L hL k c fanout bf s hwf
  have hnd : ((entries (padLen fanout) s).map (·.1)).Nodup := by
    simp only [wfShard, Bool.and_eq_true] at hwf
    exact wfSlots_keys_nodup H L s c _ _ _ hwf.2 (positions_nodup fanout bf)
  refine ⟨?_, ?_, ?_⟩
  · intro v
    constructor
    · intro h; exact lookupShard_found_mem H k c fanout bf s v h
    · intro h; rw [heq]; exact findRes_of_mem_nodup _ hnd h
  · rw [heq]
    unfold findRes
    cases hf : (entries (padLen fanout) s).find? (fun e => e.1 == k) with
    | none =>
      simp only [true_iff]
      rw [List.find?_eq_none] at hf
      intro hm
      obtain ⟨e, he, hek⟩ := List.mem_map.mp hm
      exact hf e he (by simp [hek])
    | some e =>
      have hm := List.mem_of_find?_eq_some hf
      have hk := List.find?_some hf
      simp only [reduceCtorEq, false_iff, Classical.not_not]
      exact List.mem_map.mpr ⟨e, hm, by simpa using hk⟩
  · intro e; rw [heq]; unfold findRes; split <;> simp

/-- The property, found clause (partial: guard `loadableTree`, i.e. no EMPTY HAMT directory in the
tree — see `c33_empty_hamt_counterexample`): on a tree all of whose HAMT directories are well-formed,
a path whose every segment names an entry of the directory it is looked up in (basic or sharded, at
any depth) resolves to the CID of the named entry with an empty remainder. -/
theorem c33_resolve_found_partial (H : Bytes → Bytes) (L : Nat) (hL : ∀ k, (H k).length = L)
    (root t : Node) (segs : List Bytes) (hwf : wfTree H L root = true) (hld : loadableTree root = true)
    (hf : follow root segs = some t) :
    resolveToLastNode H root segs = .ok t.cid [] := by
  rw [resolveToLastNode_eq_spec' H root segs (loadableTree_loadable root hld),
    resolveSpec_eq_names H L hL segs root hwf hld]
  exact resolveNames_found segs root t hf

/-- The property, missing clause (same guard): if the prefix `pre` names a directory-like node `d`
(basic directory, HAMT directory, symlink/metadata node) and `s` is not a name in `d`, resolution of
`pre ++ s :: post` fails with `ErrNoLink{Name: s}` — the first missing segment — whatever follows. -/
theorem c33_resolve_missing_partial (H : Bytes → Bytes) (L : Nat) (hL : ∀ k, (H k).length = L)
    (root d : Node) (pre post : List Bytes) (s : Bytes) (hwf : wfTree H L root = true)
    (hld : loadableTree root = true)
    (hf : follow root pre = some d) (hm : d.isMap = true)
    (hn : (children d).find? (fun e => e.1 == s) = none) :
    resolveToLastNode H root (pre ++ s :: post) = .noLink s := by
  rw [resolveToLastNode_eq_spec' H root _ (loadableTree_loadable root hld),
    resolveSpec_eq_names H L hL _ root hwf hld]
  exact resolveNames_missing pre root d s post hf hm hn

/-- Total characterisation (same guard): ResolveToLastNode equals resolution by names
(`resolveNames`: defined without hashes, tries or block layout). Its only other outcome is the
lookup error when the LAST segment is looked up in a file; a path that continues below a file reports
`ErrNoLink` naming the segment after the file. -/
theorem c33_resolve_names_partial (H : Bytes → Bytes) (L : Nat) (hL : ∀ k, (H k).length = L)
    (root : Node) (segs : List Bytes) (hwf : wfTree H L root = true) (hld : loadableTree root = true) :
    resolveToLastNode H root segs = resolveNames root segs := by
  rw [resolveToLastNode_eq_spec' H root segs (loadableTree_loadable root hld),
    resolveSpec_eq_names H L hL segs root hwf hld]

/-- ResolvePath (same guard) returns the link of the named entry iff the path exists, and the
generic "did not resolve" error (not ErrNoLink) otherwise. -/
theorem c33_resolve_path_partial (H : Bytes → Bytes) (L : Nat) (hL : ∀ k, (H k).length = L)
    (root : Node) (segs : List Bytes) (hwf : wfTree H L root = true) (hld : loadableTree root = true) :
    resolvePath H root segs = (follow root segs).map Node.cid := by
  unfold resolvePath
  rw [walkLeaf_eq H L hL segs root hwf hld]
  simp only [loadableTree_loadable root hld, Bool.not_true, Bool.false_eq_true, if_false]
  cases follow root segs <;> simp

/-- Why the guard: an empty HAMT directory as boxo writes it (no bit set → no bitfield field) cannot
be loaded by the resolver. With `e` naming such a directory in a basic root, `/e/x` fails with a load
error instead of `ErrNoLink{x}`, and ResolvePath of the existing path `/e` fails. (Replayed on the real
code: known finding `empty-hamt-unreadable`.) -/
theorem c33_empty_hamt_counterexample :
    let root : Node := .dir "R" [([101], .hdir "E" 256 0 .nil)]
    let H : Bytes → Bytes := fun _ => [0, 0, 0, 0, 0, 0, 0, 0]
    wfTree H 8 root = true
    ∧ follow root [[101]] = some (.hdir "E" 256 0 .nil)
    ∧ resolveToLastNode H root [[101], [120]] = .err .load
    ∧ resolvePath H root [[101]] = none := by
  refine ⟨by decide, by simp [follow, children], by decide, by decide⟩

/-- The NON-LINK terminal branch (plain IPLD trees, e.g. dag-cbor: values nested inside blocks):
ResolveToLastNode — selector walk reporting (node, block link) pairs, the `depth` counter of
`resolveNodes` (reset when the block link changes), the count test, the final lookup and
`remainder[len(remainder)-depth-1:]` — returns the CID of the LAST BLOCK entered together with exactly
the segments walked inside that block (empty when the path ends on a link), `ErrNoLink` naming the first
segment that cannot be followed when more segments follow, and the generic error when the last segment
is missing. Hypothesis: no link targets the block it sits in (`V.acyclic`; hash links cannot). -/
theorem c33_nonlink_remainder (v : V) (c : Cid) (segs : List Bytes) (hac : V.acyclic v c = true) :
    rtlV v c segs = specV v c [] segs :=
  rtlV_eq_spec v c segs hac

private def exV : V :=
  .map [([97], .map [([98], .scalar), ([99], .link "B2" (.map [([100], .map [([101], .scalar)])]))])]

example : V.acyclic exV "B1" = true := by decide
example : rtlV exV "B1" [[97], [98]] = .ok "B1" [[97], [98]] := by decide
example : rtlV exV "B1" [[97], [99]] = .ok "B2" [] := by decide
example : rtlV exV "B1" [[97], [99], [100], [101]] = .ok "B2" [[100], [101]] := by decide
example : rtlV exV "B1" [[97], [120], [100]] = .noLink [120] := by decide
example : rtlV exV "B1" [[97], [120]] = .err := by decide

/-! ### non-vacuity: a two-level HAMT (fanout 8) under a basic directory, with a concrete hash table -/

private def exH : Bytes → Bytes
  | [97] => [0x20, 0, 0, 0, 0, 0, 0, 0]   -- "a": digits 1,0,…
  | [98] => [0xA8, 0, 0, 0, 0, 0, 0, 0]   -- "b": digits 5,2,…
  | [99] => [0xB8, 0, 0, 0, 0, 0, 0, 0]   -- "c": digits 5,6,…
  | _ => [0, 0, 0, 0, 0, 0, 0, 0]

private def exHamt : Node :=
  .hdir "H" 8 0x22
    (.val [49, 97] (.file "A")
      (.sub [53] 8 0x44 (.val [50, 98] (.file "B") (.val [54, 99] (.dir "C" [([120], .sym "X")]) .nil)) .nil))

private def exRoot : Node := .dir "R" [([100], exHamt), ([102], .file "F")]

example : ∀ k, (exH k).length = 8 := by
  intro k; unfold exH; split <;> rfl

example : wfTree exH 8 exRoot = true := by decide
example : loadableTree exRoot = true := by decide
example : resolveToLastNode exH exRoot [[100], [99], [120]] = .ok "X" [] := by decide
example : resolveToLastNode exH exRoot [[100], [98]] = .ok "B" [] := by decide
example : resolveToLastNode exH exRoot [[100], [122], [120]] = .noLink [122] := by decide
example : resolveToLastNode exH exRoot [[100], [99], [121]] = .noLink [121] := by decide
example : resolveToLastNode exH exRoot [[102], [121], [120]] = .noLink [121] := by decide
example : resolveToLastNode exH exRoot [[102], [121]] = .err .lookup := by decide
example : (follow exRoot [[100], [99], [120]]).map Node.cid = some "X" := by decide
/-- the hypothesis of `c33_hamt_exact` is not vacuous, and a misplaced value is rejected by `wfShard` -/
example : wfShard exH 8 0 8 0x22
    (.val [49, 97] "A" (.sub [53] 8 0x44 (.val [50, 98] "B" (.val [54, 99] "C" .nil)) .nil)) = true := by decide
example : wfShard exH 8 0 8 0x22
    (.val [49, 98] "B" (.sub [53] 8 0x44 (.val [50, 97] "A" (.val [54, 99] "C" .nil)) .nil)) = false := by decide

end C33
