import BoxoModel.C27.Lemmas
/-!
# C27 — IPNS record selection is order-independent and picks the best record

Property theorems only (helper lemmas and the order `rle`/`kcmp` are in `BoxoModel/C27/Lemmas.lean`).
All statements quantify over every list of records of any length (no bound), any sequence numbers
(ℕ, so the whole uint64 range), any expiry instants (ℤ nanoseconds) and any byte strings.
`Readable r` = `Sequence()` and `Validity()` succeed on `r`. A record that passes `ipns.Validate` has
`hasV2 = true` (a non-empty SignatureV2 is non-nil) and a readable EOL; its CBOR may still lack
`Sequence` (V2-only records are not checked for it), which is why `c27_perm_valid` is stated with an
optional sequence number.
-/
namespace C27

/-- The comparison the loop uses (`compare`, then `bytes.Compare` on a tie) is, on readable records,
the lexicographic comparison `kcmp` on (hasV2, sequence, EOL, bytes); `rle a b := kcmp a b ≤ 0` is a
total preorder whose symmetric part is equality of the whole key — in particular of the bytes. -/
theorem c27_total_preorder :
    (∀ a b, Readable a → Readable b → eff a b = some (kcmp a b)) ∧
    (∀ a, rle a a) ∧ (∀ a b c, rle a b → rle b c → rle a c) ∧ (∀ a b, rle a b ∨ rle b a) ∧
    (∀ a b, rle a b → rle b a → a.hasV2 = b.hasV2 ∧ a.seq.getD 0 = b.seq.getD 0 ∧
      a.eol.getD 0 = b.eol.getD 0 ∧ a.bytes = b.bytes) :=
  ⟨eff_readable, rle_refl, rle_trans, rle_total, rle_antisymm⟩

/-- Selection over readable records never fails on a non-empty list and returns the index of a
record that is maximal for (hasV2, sequence, EOL, bytes). -/
theorem c27_max (rs : List Rec) (hne : rs ≠ []) (hr : ∀ r ∈ rs, Readable r) :
    ∃ i r, selectRecord rs = some i ∧ rs[i]? = some r ∧ ∀ x ∈ rs, rle x r := by
  match rs, hne with
  | [r0], _ => exact ⟨0, r0, rfl, rfl, by simp [rle_refl]⟩
  | r0 :: r1 :: rest, _ =>
    obtain ⟨k, rk, h1, h2, h3, h4⟩ := selLoop_spec (r1 :: rest) 0 r0 1 (hr r0 (by simp))
      (fun r h => hr r (by simp at h ⊢; exact .inr h))
    refine ⟨k, rk, h1, ?_, ?_⟩
    · rcases h2 with ⟨hk, hrk⟩ | ⟨m, hm, hk⟩
      · simp [hk, hrk]
      · rw [hk, Nat.add_comm]; simpa using hm
    · intro x hx
      simp only [List.mem_cons] at hx
      rcases hx with rfl | hx
      · exact h3
      · exact h4 x (by simpa using hx)

/-- Exactness of the returned INDEX (which the tie only observes): it is the first position holding
a maximal record — every earlier record is strictly worse than the selected one. Together with
`c27_max` this determines `selectRecord` on readable input completely. -/
theorem c27_first_max (rs : List Rec) (hr : ∀ r ∈ rs, Readable r) (i : Nat) (ri : Rec)
    (hs : selectRecord rs = some i) (hi : rs[i]? = some ri) :
    ∀ j rj, j < i → rs[j]? = some rj → kcmp rj ri < 0 := by
  match rs, hs with
  | [r0], hs =>
    simp only [selectRecord, Option.some.injEq] at hs
    intro j rj hj; omega
  | r0 :: r1 :: rest, hs =>
    obtain ⟨rk, h1, h2, h3⟩ := selLoop_first (r1 :: rest) 0 r0 1 (by omega) (hr r0 (by simp))
      (fun r h => hr r (by simp at h ⊢; exact .inr h)) i hs
    have hrk : rk = ri := by
      rcases h1 with ⟨hk, hrk⟩ | ⟨m, hm, hk⟩
      · subst hk; simp at hi; rw [hrk]; exact hi
      · subst hk
        rw [Nat.add_comm] at hi
        simp only [List.getElem?_cons_succ] at hi
        rw [hm] at hi; simpa using hi
    subst hrk
    intro j rj hj hjr
    cases j with
    | zero =>
      simp only [List.getElem?_cons_zero, Option.some.injEq] at hjr
      subst hjr
      exact h2 (by omega)
    | succ j =>
      simp only [List.getElem?_cons_succ] at hjr
      exact h3 j rj hjr (by omega)

/-- The bytes of the selected record do not depend on the order of the input (any length). -/
theorem c27_perm (rs rs' : List Rec) (hp : rs.Perm rs') (hr : ∀ r ∈ rs, Readable r) :
    selectBytes rs = selectBytes rs' := by
  cases hrs : rs with
  | nil => subst hrs; simp [List.nil_perm.mp hp]
  | cons a t =>
    have hne : rs ≠ [] := by simp [hrs]
    have hne' : rs' ≠ [] := by intro h; subst h; exact hne (List.perm_nil.mp hp)
    have hr' : ∀ r ∈ rs', Readable r := fun r h => hr r (hp.mem_iff.mpr h)
    obtain ⟨i, r, h1, h2, h3⟩ := c27_max rs hne hr
    obtain ⟨i', r', h1', h2', h3'⟩ := c27_max rs' hne' hr'
    have hm : r ∈ rs := List.mem_of_getElem? h2
    have hm' : r' ∈ rs' := List.mem_of_getElem? h2'
    have hb := (rle_antisymm r r' (h3' r (hp.mem_iff.mp hm)) (h3 r' (hp.mem_iff.mpr hm'))).2.2.2
    rw [← hrs]
    simp [selectBytes, h1, h2, h1', h2', hb]

/-- Failure is order-independent for records that passed validation: with equal signature version
and readable EOLs, selection fails exactly when there are ≥ 2 records and one lacks a readable
sequence number, wherever it stands. -/
theorem c27_error_iff (v : Bool) (rs : List Rec) (hlen : rs.length ≥ 2)
    (hv : ∀ r ∈ rs, r.hasV2 = v ∧ r.eol.isSome = true) :
    selectRecord rs = none ↔ ∃ r ∈ rs, r.seq = none := by
  match rs, hlen with
  | r0 :: r1 :: rest, _ =>
    have := selLoop_fail_iff v (r1 :: rest) 0 r0 1 (by simp) (hv r0 (by simp)).1 (hv r0 (by simp)).2
      (fun r h => hv r (by simp at h ⊢; exact .inr h))
    simp only [selectRecord, this]
    simp

/-- Order-independence of the whole outcome (error or selected bytes) for every multiset of records
that passed validation (hasV2, readable EOL; the sequence may be unreadable). -/
theorem c27_perm_valid (rs rs' : List Rec) (hp : rs.Perm rs')
    (hv : ∀ r ∈ rs, r.hasV2 = true ∧ r.eol.isSome = true) :
    selectBytes rs = selectBytes rs' := by
  have hv' : ∀ r ∈ rs', r.hasV2 = true ∧ r.eol.isSome = true := fun r h => hv r (hp.mem_iff.mpr h)
  by_cases hs : ∃ r ∈ rs, r.seq = none
  · have hs' : ∃ r ∈ rs', r.seq = none := by
      obtain ⟨r, h1, h2⟩ := hs; exact ⟨r, hp.mem_iff.mp h1, h2⟩
    by_cases hlen : rs.length ≥ 2
    · have hlen' : rs'.length ≥ 2 := by rw [← hp.length_eq]; exact hlen
      simp [selectBytes, (c27_error_iff true rs hlen hv).mpr hs, (c27_error_iff true rs' hlen' hv').mpr hs']
    · cases rs with
      | nil => simp [List.nil_perm.mp hp]
      | cons a t =>
        cases t with
        | nil => simp [List.singleton_perm.mp hp]
        | cons b t => simp at hlen
  · have hr : ∀ r ∈ rs, Readable r := by
      intro r h
      refine ⟨?_, (hv r h).2⟩
      cases hq : r.seq with
      | none => exact absurd ⟨r, h, hq⟩ hs
      | some _ => rfl
    exact c27_perm rs rs' hp hr

/-- `Validator.Select`: an element that does not unmarshal makes it fail wherever it stands. -/
theorem c27_select_unparsable (vals : List (Option Rec)) (h : none ∈ vals) : select vals = none := by
  have : vals.mapM id = none := by
    induction vals with
    | nil => simp at h
    | cons a t ih =>
      cases a with
      | none => simp [List.mapM_cons]
      | some r =>
        have := ih (by simpa using h)
        simp [List.mapM_cons, this]
  simp [select, this]

/-- `Validator.Select` on values that all unmarshal is `selectRecord` on the parsed records. -/
theorem c27_select_parsed (rs : List Rec) : select (rs.map some) = selectRecord rs := by
  have : (rs.map some).mapM id = some rs := by
    induction rs with
    | nil => rfl
    | cons a t ih => simp [List.mapM_cons, ih]
  simp [select, this]

/-- What the restriction to validated records buys: for records that would NOT pass validation
(mixed signature versions with an unreadable sequence number) the error outcome does depend on the
order, because `compare` returns before reading the sequence when the versions differ. -/
theorem c27_unvalidated_order_dependent :
    ∃ rs rs' : List Rec, rs.Perm rs' ∧ selectBytes rs ≠ none ∧ selectBytes rs' = none := by
  refine ⟨[⟨true, some 1, some 5, [1]⟩, ⟨false, none, some 5, [2]⟩, ⟨false, some 0, some 5, [3]⟩],
          [⟨false, none, some 5, [2]⟩, ⟨false, some 0, some 5, [3]⟩, ⟨true, some 1, some 5, [1]⟩], ?_, ?_, ?_⟩
  · exact List.perm_append_comm (l₁ := [_]) (l₂ := [_, _])
  · decide
  · decide

/-! Non-vacuity -/
example : selectBytes [⟨true, some 3, some 10, [1, 2]⟩, ⟨true, some 3, some 10, [1, 3]⟩,
    ⟨true, some 2, some 99, [9]⟩, ⟨false, some 7, some 99, [9, 9]⟩] = some [1, 3] := by decide
example : selectRecord [⟨true, some 3, some 10, [1, 2]⟩, ⟨true, some 3, some 10, [1, 2]⟩] = some 0 := by decide
example : Readable ⟨true, some 3, some 10, [1, 2]⟩ := by decide
example : selectRecord [⟨true, some 3, some 10, [1]⟩, ⟨true, some 4, some 10, [2]⟩, ⟨true, none, some 1, [3]⟩] = none := by
  decide

end C27
