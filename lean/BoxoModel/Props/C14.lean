import BoxoModel.C14.Lemmas
/-!
# C14 — DAG diff applied to the source reproduces the target

Property theorems only (vocabulary — `T.WF`, `Sub`, `SubK`, `Good` — and helpers: `BoxoModel/C14/Lemmas.lean`).
The model mirrors `dagutils.Diff` / `ApplyChange` as they are.  The full property ("for any two trees,
apply (diff a b) = b") is FALSE for this code; it holds exactly on the class `Good` (`c14_apply_diff_iff`), and
each excluded shape is a recorded known finding with a concrete counterexample proved below.
All statements quantify over all trees (any depth, any fan-out, any data values).
-/
namespace C14

/-- `Diff(a, a)` is empty -/
theorem c14_self (a : T) : diff a a = [] := by
  cases a with
  | n d k => simp [diff]

/-- ApplyChange(a, Diff(a, b)) = b for every pair of well-formed trees in the class `Good`:
equal trees, or — the roots not both link-less — equal `data` at the roots and, recursively for every pair of
children matched by name: equal, or reported as one Mod (either is a raw / non-ProtoNode node, or both are
link-less), or equal `data` and the same condition below. -/
theorem c14_apply_diff_partial (a b : T) (ha : a.WF) (hb : b.WF) (hg : Good a b) :
    applyAll a (diff a b) = some b := by
  rcases hg with rfl | ⟨hnl, hd, hs⟩
  · rw [c14_self]; rfl
  · by_cases hab : a = b
    · subst hab; rw [c14_self]; rfl
    · exact apply_diff_node a b ha hb hab hnl hd hs

/-- The class is exact: for well-formed trees, ApplyChange(a, Diff(a, b)) = b **iff** `Good a b`.
So the three known-finding shapes (a data difference at a matched node with links; a root pair reported as
one Mod) are precisely the pairs for which the property fails. -/
theorem c14_apply_diff_iff (a b : T) (ha : a.WF) (hb : b.WF) : applyAll a (diff a b) = some b ↔ Good a b := by
  refine ⟨fun h => ?_, c14_apply_diff_partial a b ha hb⟩
  by_cases hab : a = b
  · exact Or.inl hab
  · cases hmp : modPair a b with
    | false =>
      obtain ⟨h1, h2⟩ := conv_node a b ha hb hab hmp h
      exact Or.inr ⟨hmp, h1, h2⟩
    | true =>
      cases a with
      | n da ka =>
        have hd : diff (.n da ka) b = [.mod [] (.n da ka) b] := by
          simp only [diff, hab, if_false, hmp, if_true]
        rw [hd] at h
        simp [applyAll, apply1, rmAt] at h

/-- the class is decidable: `goodB` (printed by the driver for every pair) decides it -/
theorem c14_goodB_iff (a b : T) : goodB a b = true ↔ Good a b := goodB_iff a b

/-- No change list whatsoever can alter the `data` of the root: Add/Remove/Mod only edit links.
Hence whenever the roots carry different data, `ApplyChange(a, cs) ≠ b` for every `cs` — the defect is in
the output format of Diff, not in a particular change list. -/
theorem c14_root_data_invariant (a : T) (cs : List Ch) (t : T) (h : applyAll a cs = some t) : t.data = a.data := by
  have ins := insertAt_data
  have rm := rmAt_data
  induction cs generalizing a with
  | nil => simp only [applyAll, Option.some.injEq] at h; subst h; rfl
  | cons c cs ih =>
    simp only [applyAll] at h
    cases h1 : apply1 a c with
    | none => simp [h1] at h
    | some a1 =>
      simp only [h1] at h
      have e1 : a1.data = a.data := by
        cases c with
        | add p x => exact ins p a x a1 h1
        | rm p x => exact rm p a a1 h1
        | mod p x y =>
          simp only [apply1] at h1
          cases hr : rmAt a p with
          | none => simp [hr] at h1
          | some a0 =>
            simp only [hr] at h1
            rw [ins p a0 y a1 h1, rm p a a0 hr]
      rw [ih a1 h, e1]

/-- (ii) at the root: different root data ⇒ the result can never be `b` -/
theorem c14_data_change_lost (a b : T) (hd : a.data ≠ b.data) : applyAll a (diff a b) ≠ some b := by
  intro h
  exact hd (c14_root_data_invariant a _ b h).symm

/-! ## counterexamples to the unrestricted property (the known findings) -/

/-- (i) a leaf replaced by a non-empty directory: the entry keeps the old data -/
theorem c14_apply_diff_counterexample_leaf_dir :
    let a := T.n 1 (.cons 1 (.n 5 .nil) .nil)
    let b := T.n 1 (.cons 1 (.n 1 (.cons 3 (.n 7 .nil) .nil)) .nil)
    a.WF ∧ b.WF ∧ applyAll a (diff a b) = some (T.n 1 (.cons 1 (.n 5 (.cons 3 (.n 7 .nil) .nil)) .nil)) ∧
      applyAll a (diff a b) ≠ some b := by
  refine ⟨by simp [T.WF, F.WF, F.lb], by simp [T.WF, F.WF, F.lb], by decide, by decide⟩

/-- (ii) matched directories that differ in data (below the root) -/
theorem c14_apply_diff_counterexample_dir_dir :
    let a := T.n 1 (.cons 2 (.n 1 (.cons 1 (.n 5 .nil) .nil)) .nil)
    let b := T.n 1 (.cons 2 (.n 9 (.cons 1 (.n 5 .nil) (.cons 3 (.n 6 .nil) .nil))) .nil)
    applyAll a (diff a b) ≠ some b := by decide

/-- (iii) two different link-less roots: the single `Mod ""` cannot be applied -/
theorem c14_apply_diff_counterexample_root_leaves :
    diff (T.n 5 .nil) (T.n 6 .nil) = [.mod [] (.n 5 .nil) (.n 6 .nil)] ∧
    applyAll (T.n 5 .nil) (diff (T.n 5 .nil) (T.n 6 .nil)) = none := by decide

/-! ## non-vacuity: a `Good` pair with nested add / remove / replace / leaf→empty-dir changes -/

def exA : T := .n 1 (.cons 1 (.n 5 .nil) (.cons 2 (.n 1 (.cons 3 (.n 7 .nil) (.cons 4 (.n 2 .nil) .nil))) (.cons 6 (.n 3 .nil) .nil)))
def exB : T := .n 1 (.cons 1 (.n 6 .nil) (.cons 2 (.n 1 (.cons 3 (.n 7 .nil) (.cons 5 (.n 8 .nil) .nil))) (.cons 9 (.n 1 (.cons 1 (.n 4 .nil) .nil)) .nil)))

example : diff exA exB = [.mod [1] (.n 5 .nil) (.n 6 .nil), .rm [2, 4] (.n 2 .nil), .add [2, 5] (.n 8 .nil),
    .rm [6] (.n 3 .nil), .add [9] (.n 1 (.cons 1 (.n 4 .nil) .nil))] := by decide
example : applyAll exA (diff exA exB) = some exB := by decide
example : Good exA exB := by
  rw [← goodB_iff]; decide

/-- raw leaves: a raw file replaced by another raw file, by a dag-pb file and by a directory are all in the class -/
example : Good (.n 1 (.cons 1 (.n 1005 .nil) (.cons 2 (.n 1006 .nil) (.cons 3 (.n 1007 .nil) .nil))))
    (.n 1 (.cons 1 (.n 1009 .nil) (.cons 2 (.n 4 .nil) (.cons 3 (.n 1 (.cons 1 (.n 1005 .nil) .nil)) .nil)))) := by
  rw [← goodB_iff]; decide

end C14
