import BoxoModel.C14.Lemmas
/-!
# C14 — DAG diff applied to the source reproduces the target

Property theorems only (vocabulary — `T.WF`, `Sub`, `SubK`, `Good` — and helpers: `BoxoModel/C14/Lemmas.lean`).
The model mirrors `dagutils.Diff` / `ApplyChange` as they are.  The full property ("for any two trees,
apply (diff a b) = b") is FALSE for this code; the proof attempt forces the hypothesis `Good a b`, and each
excluded shape is a recorded known finding with a concrete counterexample proved below.
All statements quantify over all trees (any depth, any fan-out, any data values).
-/
namespace C14

/-- `Diff(a, a)` is empty -/
theorem c14_self (a : T) : diff a a = [] := by
  cases a with
  | n d k => simp [diff]

/-- ApplyChange(a, Diff(a, b)) = b for every pair of well-formed trees in the class `Good`:
equal trees, or — the roots not both link-less — equal `data` at the roots and, recursively for every pair of
children matched by name: equal, or both link-less, or equal `data` and the same condition below. -/
theorem c14_apply_diff_partial (a b : T) (ha : a.WF) (hb : b.WF) (hg : Good a b) :
    applyAll a (diff a b) = some b := by
  rcases hg with rfl | ⟨hnl, hd, hs⟩
  · rw [c14_self]; rfl
  · by_cases hab : a = b
    · subst hab; rw [c14_self]; rfl
    · exact apply_diff_node a b ha hb hab hnl hd hs

/-- the class is decidable: `goodB` (printed by the driver for every pair) decides it -/
theorem c14_goodB_iff (a b : T) : goodB a b = true ↔ Good a b := goodB_iff a b

/-- No change list whatsoever can alter the `data` of the root: Add/Remove/Mod only edit links.
Hence whenever the roots carry different data, `ApplyChange(a, cs) ≠ b` for every `cs` — the defect is in
the output format of Diff, not in a particular change list. -/
theorem c14_root_data_invariant (a : T) (cs : List Ch) (t : T) (h : applyAll a cs = some t) : t.data = a.data := by
  have ins : ∀ (p : List Nat) (u c u' : T), insertAt u p c = some u' → u'.data = u.data := by
    intro p u c u' h
    cases u with
    | n d k =>
      match p, h with
      | [], h => simp [insertAt] at h
      | [name], h => simp only [insertAt, Option.some.injEq] at h; subst h; rfl
      | name :: q :: qs, h =>
        simp only [insertAt] at h
        cases hf : k.find name with
        | none => simp [hf] at h
        | some sub =>
          simp only [hf] at h
          cases hi : insertAt sub (q :: qs) c with
          | none => simp [hi] at h
          | some s' => simp only [hi, Option.some.injEq] at h; subst h; rfl
  have rm : ∀ (p : List Nat) (u u' : T), rmAt u p = some u' → u'.data = u.data := by
    intro p u u' h
    cases u with
    | n d k =>
      match p, h with
      | [], h => simp [rmAt] at h
      | [name], h =>
        simp only [rmAt] at h
        split at h
        · simp only [Option.some.injEq] at h; subst h; rfl
        · cases h
      | name :: q :: qs, h =>
        simp only [rmAt] at h
        cases hf : k.find name with
        | none => simp [hf] at h
        | some sub =>
          simp only [hf] at h
          cases hi : rmAt sub (q :: qs) with
          | none => simp [hi] at h
          | some s' => simp only [hi, Option.some.injEq] at h; subst h; rfl
  induction cs generalizing a with
  | nil => simp only [applyAll, Option.some.injEq] at h; subst h; rfl
  | cons c cs ih =>
    simp only [applyAll] at h
    cases h1 : apply1 a c with
    | none => simp [h1] at h
    | some a1 =>
      simp only [h1] at h
      have e1 : a1.data = a.data := by
        cases c with
        | add p x => exact ins p a x a1 h1
        | rm p x => exact rm p a a1 h1
        | mod p x y =>
          simp only [apply1] at h1
          cases hr : rmAt a p with
          | none => simp [hr] at h1
          | some a0 =>
            simp only [hr] at h1
            rw [ins p a0 y a1 h1, rm p a a0 hr]
      rw [ih a1 h, e1]

/-- (ii) at the root: different root data ⇒ the result can never be `b` -/
theorem c14_data_change_lost (a b : T) (hd : a.data ≠ b.data) : applyAll a (diff a b) ≠ some b := by
  intro h
  exact hd (c14_root_data_invariant a _ b h).symm

/-! ## counterexamples to the unrestricted property (the known findings) -/

/-- (i) a leaf replaced by a non-empty directory: the entry keeps the old data -/
theorem c14_apply_diff_counterexample_leaf_dir :
    let a := T.n 1 (.cons 1 (.n 5 .nil) .nil)
    let b := T.n 1 (.cons 1 (.n 1 (.cons 3 (.n 7 .nil) .nil)) .nil)
    a.WF ∧ b.WF ∧ applyAll a (diff a b) = some (T.n 1 (.cons 1 (.n 5 (.cons 3 (.n 7 .nil) .nil)) .nil)) ∧
      applyAll a (diff a b) ≠ some b := by
  refine ⟨by simp [T.WF, F.WF, F.lb], by simp [T.WF, F.WF, F.lb], by decide, by decide⟩

/-- (ii) matched directories that differ in data (below the root) -/
theorem c14_apply_diff_counterexample_dir_dir :
    let a := T.n 1 (.cons 2 (.n 1 (.cons 1 (.n 5 .nil) .nil)) .nil)
    let b := T.n 1 (.cons 2 (.n 9 (.cons 1 (.n 5 .nil) (.cons 3 (.n 6 .nil) .nil))) .nil)
    applyAll a (diff a b) ≠ some b := by decide

/-- (iii) two different link-less roots: the single `Mod ""` cannot be applied -/
theorem c14_apply_diff_counterexample_root_leaves :
    diff (T.n 5 .nil) (T.n 6 .nil) = [.mod [] (.n 5 .nil) (.n 6 .nil)] ∧
    applyAll (T.n 5 .nil) (diff (T.n 5 .nil) (T.n 6 .nil)) = none := by decide

/-! ## non-vacuity: a `Good` pair with nested add / remove / replace / leaf→empty-dir changes -/

def exA : T := .n 1 (.cons 1 (.n 5 .nil) (.cons 2 (.n 1 (.cons 3 (.n 7 .nil) (.cons 4 (.n 2 .nil) .nil))) (.cons 6 (.n 3 .nil) .nil)))
def exB : T := .n 1 (.cons 1 (.n 6 .nil) (.cons 2 (.n 1 (.cons 3 (.n 7 .nil) (.cons 5 (.n 8 .nil) .nil))) (.cons 9 (.n 1 (.cons 1 (.n 4 .nil) .nil)) .nil)))

example : diff exA exB = [.mod [1] (.n 5 .nil) (.n 6 .nil), .rm [2, 4] (.n 2 .nil), .add [2, 5] (.n 8 .nil),
    .rm [6] (.n 3 .nil), .add [9] (.n 1 (.cons 1 (.n 4 .nil) .nil))] := by decide
example : applyAll exA (diff exA exB) = some exB := by decide
example : Good exA exB := by
  right
  refine ⟨by decide, rfl, ?_⟩
  simp only [exA, exB, T.kids, SubK, F.find]
  refine ⟨?_, ?_, ?_, trivial⟩
  · intro tb h; simp at h; subst h; simp [Sub, F.isNil, T.kids]
  · intro tb h; simp at h; subst h
    simp only [Sub, T.kids, T.data, SubK, F.find, F.isNil]
    right; right
    refine ⟨by simp, by simp, ?_, ?_, trivial⟩
    · intro tb h; simp at h; subst h; simp
    · intro tb h; simp at h
  · intro tb h; simp at h

end C14
