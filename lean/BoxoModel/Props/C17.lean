import BoxoModel.C17.Track
/-!
# C17 — Block-size estimation equals the exact serialized directory size

Property theorems only (helpers: `BoxoModel/C17/{Sizes,Lemmas,Track}.lean`; model `BoxoModel/C17/Model.lean`,
which composes the C11 dag-pb encoder and the C18 UnixFS `Data` encoder).  `varintLen`,
`ModePermsToUnixPerms`, `linkSerializedSize` and `dataFieldSerializedSize` are the regenerated `Gen.C17`
definitions (64-bit arithmetic; `link_bridge` / `data_bridge` show that it does not overflow).

The model follows the tree WITH the fix "unixfs/io: take the Data field size of the block-size estimate
from the node's Data"; the two defects of the unfixed code are recorded at the end.
-/
namespace C17
open Varint Proto

/-- **varintLen.** Go's `(9*bits.Len64(v)+64)/64` is the LEB128 length of every 64-bit value. -/
theorem c17_varint (v : Nat) (h : v < 2 ^ 64) : varintLen v = (Varint.encode v).length :=
  varintLen_eq v h

/-- **linkSerializedSize** is the number of bytes the link occupies in the encoded PBNode, for every
name, CID, and Tsize < 2^63 (link message shorter than 2^61 bytes: the Go code computes in 64-bit `int`). -/
theorem c17_link (name cid : Bytes) (tsize : Nat) (hs : tsize < 2 ^ 63)
    (hlen : (encodeMsg (C11.linkFields ⟨name, cid, tsize⟩)).length < 2 ^ 61) :
    linkSerializedSize name cid tsize = (Field.msg 2 (C11.linkFields ⟨name, cid, tsize⟩)).encode.length :=
  linkSerializedSize_eq ⟨name, cid, tsize⟩ hs hlen

/-- **dataFieldSerializedSize** is the size of the Data field of a directory created with that mode and
mtime — every FileMode, every valid time (negative seconds: 10-byte varint; nanoseconds: fixed32 iff > 0;
zero time: no mtime). -/
theorem c17_data (mode : BitVec 32) (t : C18.Time) (hv : t.valid) :
    dataFieldSerializedSize mode t =
      (Field.byts 1 (C18.folderPBDataWithStat mode t)).encode.length := by
  rw [dataFieldSerializedSize_eq mode t hv]
  simp [C11.dataFields, encodeMsg]

/-- **Exactness of a computed estimate**: for ANY set of links that passed `checkLink` and ANY Data,
what `computeEstimatedSizeAndTotalLinks` computes in block mode is the length of the serialized block. -/
theorem c17_exact (ls : List C11.Link) (data : Option Bytes) (hc : ∀ l ∈ ls, C11.checkLink l = true)
    (hlen : (C11.encodePB ls data).length < 2 ^ 61) :
    blockEst ls data = (C11.encodePB ls data).length :=
  blockEst_eq_rawLen ls data hc hlen

/-- directories reachable from `NewBasicDirectory(WithSizeEstimationMode(m), WithStat(mode, mtime))` by
AddChild (new names and replacements, including the rejected Tsize > MaxInt64 and maxLinks-reached paths),
RemoveChild, SetMaxLinks,
reload from the node (`NewBasicDirectoryFromNode(node.Copy())`, global mode `g`), SetStat and
SetSizeEstimationMode, in any order -/
inductive Reachable (g : EstMode) : Dir → Prop
  | newDir (m : EstMode) (mode : BitVec 32) (t : C18.Time) : Reachable g (newDir m mode t)
  | add {d} (name cid : Bytes) (tsize : Nat) : Reachable g d → Reachable g (addChild d name cid tsize).1
  | remove {d} (name : Bytes) : Reachable g d → Reachable g (removeChild d name).1
  | reload {d} : Reachable g d → Reachable g (reload g d)
  | setStat {d} (mode : BitVec 32) (t : C18.Time) : Reachable g d → Reachable g (setStat d mode t)
  | setEstMode {d} (m : EstMode) : Reachable g d → Reachable g (setEstMode d m)
  | setMaxLinks {d} (n : Int) : Reachable g d → Reachable g (setMaxLinks d n)

theorem c17_reachable_inv (g : EstMode) (d : Dir) (h : Reachable g d) : Inv d := by
  induction h with
  | newDir m mode t => exact newDir_inv m mode t
  | add name cid tsize _ ih => exact addChild_inv _ name cid tsize ih
  | remove name _ ih => exact removeChild_inv _ name ih
  | reload _ ih => exact reload_inv g _ ih
  | setStat mode t _ ih => exact setStat_inv _ mode t ih
  | setEstMode m _ ih => exact setEstMode_inv _ m ih
  | setMaxLinks n _ ih => exact setMaxLinks_inv _ n ih

/-- **Incremental exactness.** Through every such history, whenever the directory is in block mode the
tracked `estimatedSize` equals the byte length of the block that would be serialized (block shorter than
2^61 bytes), and `totalLinks` equals the number of links. -/
theorem c17_incremental (g : EstMode) (d : Dir) (h : Reachable g d) (hb : d.estMode = .block)
    (hlen : rawLen d < 2 ^ 61) :
    d.est = (rawLen d : Nat) ∧ d.total = d.links.length := by
  have hi := c17_reachable_inv g d h
  exact ⟨by rw [hi.est hb, c17_exact d.links d.data hi.chk hlen]; rfl, hi.total⟩

/-- **The negative-estimate recovery path is dead code** in every mode: the value `updateEstimatedSize`
is about to store is never negative, for a removal … -/
theorem c17_no_recompute_remove (g : EstMode) (d : Dir) (h : Reachable g d) (l : C11.Link)
    (hf : d.links.find? (fun x => x.name == l.name) = some l) :
    0 ≤ d.est - linkCost d.estMode l.name l ∨ d.estMode ≠ .block := by
  have hi := c17_reachable_inv g d h
  by_cases hb : d.estMode = .block
  · left
    have hl : l ∈ d.links := List.mem_of_find?_eq_some hf
    have hsum := sum_filter_remove lss d.links l hi.nodup hl
    have hcost : linkCost d.estMode l.name l = (lss l : Nat) := by rw [hb]; rfl
    rw [hcost, hi.est hb, blockEst_eq]
    omega
  · right; exact hb

/-- … and for an addition (any mode) -/
theorem c17_no_recompute_add (g : EstMode) (d : Dir) (h : Reachable g d) (name : Bytes) (l : C11.Link) :
    0 ≤ d.est + linkCost d.estMode name l := by
  have := (c17_reachable_inv g d h).nonneg
  have := linkCost_nonneg d.estMode name l
  omega

/-- a reload does not change the block (same links up to order, same non-empty Data) … -/
theorem c17_reload_same_links (g : EstMode) (d : Dir) : (reload g d).links.Perm d.links :=
  reload_links_perm g d

/-! ### the unfixed code (`d.estimatedSize = dataFieldSerializedSize(d.mode, d.mtime)`)

Witnesses replayed on the unchanged tree through the harness (see docs/notes/C17.md):
`newdir 2147483648 zero -; reload` gives est = 4, block = 6 bytes (a stored `mode` field without
permission bits reads back as mode 0), and `newdir 493 zero -; setstat 0 1700000000 0; remode` gives
est = 15, block = 7 bytes. The first one, in the model's terms: -/
theorem c17_unfixed_counterexample :
    let data := C18.folderPBDataWithStat C18.modeDir C18.Time.zero
    (C18.decode data).map C18.modeOf = some 0#32 ∧
    dataFieldSerializedSize 0#32 C18.Time.zero = 4 ∧
    (C11.encodePB [] (some data)).length = 6 := by
  decide +kernel

/-! ### non-vacuity -/

section Examples
def exCid : Bytes := [1, 85, 18, 4, 1, 2, 3, 4]

example : Reachable .block (addChild (removeChild (addChild (newDir .block 0x800001ED#32 ⟨-5, 7⟩)
    [97] exCid 300).1 [98]).1 [97] exCid (2 ^ 63 - 1)).1 :=
  .add _ _ _ (.remove _ (.add _ _ _ (.newDir _ _ _)))

def exDir : Dir :=
  (addChild (addChild (newDir .block 0x800001ED#32 ⟨-5, 7⟩) [97] exCid 300).1 [97] exCid (2 ^ 63 - 1)).1

/-- a directory with mode 0755|ModeDir, negative sub-second mtime, one replaced entry -/
example : exDir.est = 50 ∧ exDir.total = 1 ∧ exDir.links = [⟨[97], exCid, 2 ^ 63 - 1⟩] := by decide +kernel

/-- … whose serialized block is 50 bytes long too (so the hypotheses of `c17_incremental` are satisfiable) -/
example : rawLen exDir = 50 := by
  have hl : exDir.links = [⟨[97], exCid, 2 ^ 63 - 1⟩] := by decide +kernel
  have hd : exDir.data = some (C18.folderPBDataWithStat 0x800001ED#32 ⟨-5, 7⟩) := by decide +kernel
  have hs : C11.sortLinks [(⟨[97], exCid, 2 ^ 63 - 1⟩ : C11.Link)] = [⟨[97], exCid, 2 ^ 63 - 1⟩] := by
    simp [C11.sortLinks]
  have hf : ([(⟨[97], exCid, 2 ^ 63 - 1⟩ : C11.Link)].filter fun l => C11.cidDefined l.cid) =
      [⟨[97], exCid, 2 ^ 63 - 1⟩] := by decide
  rw [rawLen, hl, hd, C11.encodePB, C11.nodeFields_eq, hf, hs]
  decide +kernel

example : varintLen (2 ^ 63) = 10 ∧ varintLen 127 = 1 ∧ varintLen 128 = 2 ∧ varintLen 0 = 1 := by decide
end Examples

end C17
