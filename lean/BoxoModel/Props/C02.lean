import BoxoModel.C02.LemmasTwoQ
import BoxoModel.C02.LemmasBloom
import BoxoModel.C02.LemmasConc3
import BoxoModel.C02.LemmasTQC3
import BoxoModel.Gen.C02
/-!
# C02 — Caching blockstore layers are observationally transparent

Property theorems only (helper lemmas: `BoxoModel/C02/Lemmas*.lean`).

Sequential part (`Model.lean`): `TQ.step` (tqcache) and `Bloom.step` (bloomcache) over any wrapped
store.  `mask ops outs` blanks the answers of calls for which the harness injected a store failure
and of the Bloom-only maintenance calls (`build`, `rebuild`), which the uncached store does not have;
every other answer must be *equal* to the uncached store's.  All statements quantify over every op
list, every block-size table `sz`, every multihash order `rank`, every lawful cache `P` (= every
eviction policy and cache size), every hash family `hash` (= every filter geometry), every
enumeration cut position / error flag, and every initial cache / filter content satisfying the
invariant (in particular the empty ones).

Concurrent part (`Conc.lean`): the small-step model of the Bloom cache (code after the `fix:` commit
of `hasCached`), every interleaving of any number of threads.
-/
namespace C02

/-! ## sequential refinement -/

/-- 2Q layer: every history, every lawful cache, any initial cache content that agrees with the store. -/
theorem c02_tq_seq {C : Type} (sz rank : Nat → Nat) (P : CacheOps C) (L : Lawful P) (viewer : Bool)
    (c0 : C) (b0 : Base) (hw : L.wf c0) (hinv : TQInv sz L c0 b0) (ops : List Op) :
    mask ops (runOuts (TQ.step sz rank P (Base.step sz) viewer) (c0, b0) ops) =
      mask ops (runOuts (Base.step sz) b0 ops) :=
  ((TQ.refines (rank := rank) L (Base.refines sz) viewer).run ops (c0, b0) b0
    ⟨hw, Base.Equiv.refl b0, hinv⟩).1

/-- … in particular golang-lru's 2Q as transcribed (the cache the driver runs), any size, from empty. -/
theorem c02_tq_seq_2q (sz rank : Nat → Nat) (viewer : Bool) (size : Nat) (b0 : Base) (ops : List Op) :
    mask ops (runOuts (TQ.step sz rank TwoQ.ops (Base.step sz) viewer) (TwoQ.new size, b0) ops) =
      mask ops (runOuts (Base.step sz) b0 ops) :=
  c02_tq_seq sz rank TwoQ.ops TwoQ.lawful viewer (TwoQ.new size) b0 (TwoQ.wf_new size)
    (fun k e h => by simp [TwoQ.lawful, TwoQ.ents_new] at h) ops

/-- Bloom layer: every history, every hash family, every enumeration fault, any filter state that
satisfies `BloomInv` (e.g. the fresh inactive filter). -/
theorem c02_bloom_seq (sz : Nat → Nat) (hash : Nat → List Nat) (viewer : Bool) (st0 : BloomSt) (b0 : Base)
    (hinv : BloomInv hash st0 b0) (ops : List Op) :
    mask ops (runOuts (Bloom.step hash (Base.step sz) viewer) (st0, b0) ops) =
      mask ops (runOuts (Base.step sz) b0 ops) :=
  ((Bloom.refines (hash := hash) (Base.refines sz) viewer).run ops (st0, b0) b0
    ⟨Base.Equiv.refl b0, hinv⟩).1

/-- The stack `CachedBlockstore` builds: Bloom over 2Q over the store. -/
theorem c02_stack_seq {C : Type} (sz rank : Nat → Nat) (hash : Nat → List Nat) (P : CacheOps C) (L : Lawful P)
    (viewer : Bool) (st0 : BloomSt) (c0 : C) (b0 : Base) (hw : L.wf c0) (hq : TQInv sz L c0 b0)
    (hb : BloomInv hash st0 b0) (ops : List Op) :
    mask ops (runOuts (Bloom.step hash (TQ.step sz rank P (Base.step sz) viewer) true) (st0, (c0, b0)) ops) =
      mask ops (runOuts (Base.step sz) b0 ops) :=
  ((Bloom.refines (hash := hash) (TQ.refines (rank := rank) L (Base.refines sz) viewer) true).run ops
    (st0, (c0, b0)) b0 ⟨⟨hw, Base.Equiv.refl b0, hq⟩, hb⟩).1

/-- The invariants the harness checks on the real state hold after every history:
every 2Q entry agrees with the store, and an active filter contains every stored key. -/
theorem c02_stack_invariants {C : Type} (sz rank : Nat → Nat) (hash : Nat → List Nat) (P : CacheOps C)
    (L : Lawful P) (viewer : Bool) (st0 : BloomSt) (c0 : C) (b0 : Base) (hw : L.wf c0)
    (hq : TQInv sz L c0 b0) (hb : BloomInv hash st0 b0) (ops : List Op) :
    let s := runState (Bloom.step hash (TQ.step sz rank P (Base.step sz) viewer) true) (st0, (c0, b0)) ops
    let b := runState (Base.step sz) b0 ops
    TQInv sz L s.2.1 b ∧ BloomInv hash s.1 b ∧ Base.Equiv s.2.2 b := by
  have := ((Bloom.refines (hash := hash) (TQ.refines (rank := rank) L (Base.refines sz) viewer) true).run ops
    (st0, (c0, b0)) b0 ⟨⟨hw, Base.Equiv.refl b0, hq⟩, hb⟩).2
  exact ⟨this.1.2.2, this.2, this.1.2.1⟩

/-- A `Rebuild` whose enumeration reported an error (or was cut short) leaves the filter inactive,
whatever the wrapped store does. -/
theorem c02_bloom_failed_build_inactive {σ : Type} (hash : Nat → List Nat) (inner : StepFn σ) (viewer : Bool)
    (st : BloomSt) (s : σ) (cut : Nat) (err : Bool)
    (h : (Bloom.step hash inner viewer (st, s) (.rebuild cut err)).2 = .err) :
    (Bloom.step hash inner viewer (st, s) (.rebuild cut err)).1.1.active = false := by
  simp only [Bloom.step, Bloom.populate] at h ⊢
  split <;> rename_i hq <;> simp only [hq] at h ⊢
  · split <;> rename_i he <;> simp only [he] at h ⊢
    · trivial

/-- … and the initial build activates the filter only when the enumeration was complete. -/
theorem c02_bloom_failed_initial_build {σ : Type} (hash : Nat → List Nat) (inner : StepFn σ) (viewer : Bool)
    (s : σ) (cut : Nat) (err : Bool)
    (h : (Bloom.step hash inner viewer ({}, s) (.build cut err)).2 = .err) :
    (Bloom.step hash inner viewer ({}, s) (.build cut err)).1.1.active = false := by
  simp only [Bloom.step, Bloom.populate] at h ⊢
  split <;> rename_i hq <;> simp only [hq] at h ⊢
  · split <;> rename_i he <;> simp only [he] at h ⊢
    · trivial

/-! ## every interleaving of the Bloom cache (small-step model) -/

namespace Conc

/-- **Justified "absent"** (`c02_bloom_linearizable`, with the guard the real code needs).
In every reachable state of the small-step system — any number of concurrent Has/Get/GetSize/View/
DeleteBlock/Put/PutMany/Rebuild calls and the initial build, any interleaving of their atomic
steps, any enumeration outcome — a call that answered "absent" from the filter (or from the store)
did so justified by a state inside its own execution interval: at one of its own atomic steps
either the key was not in the store, or the Put that made it present had not yet returned (it had
written the store but not yet added the key to the live filter).  (`okAbs` is the ghost bit that
`observe` sets exactly then.)  A skipped `DeleteBlock` counts as an "absent" answer. -/
theorem c02_bloom_linearizable_partial (hash : Nat → List Nat) {s : St}
    (hr : Steps.Reach (Conc.step hash) Conc.init s) (t : Nat) (th : Thread)
    (ht : s.threads[t]? = some th) (hd : th.pc = .done .absent) : th.okAbs = true := by
  have := ((Inv.reachable hr).thr t th ht).pc
  simpa [pcInv, hd] using this

/-- **No false negative**: if at every atomic step of a read the key was in the store and the Put
that stored it had returned (`stable`), the read does not answer "absent" — also across any number
of `Rebuild`s, during the initial build, and after failed enumerations. -/
theorem c02_no_false_negative (hash : Nat → List Nat) {s : St}
    (hr : Steps.Reach (Conc.step hash) Conc.init s) (t : Nat) (th : Thread)
    (ht : s.threads[t]? = some th) (hs : th.stable = true) : th.pc ≠ .done .absent := by
  intro hd
  have hT := (Inv.reachable hr).thr t th ht
  have := hT.ghost (c02_bloom_linearizable_partial hash hr t th ht hd)
  rw [hs] at this; cases this

/-- `BloomInv` in every reachable state: while the filter is active, every stored key is in the
live filter, except keys whose Put is between its store write and its filter add. -/
theorem c02_bloom_inv_conc (hash : Nat → List Nat) {s : St}
    (hr : Steps.Reach (Conc.step hash) Conc.init s) (ha : s.active = true) (k : Nat) (hk : k ∈ s.store) :
    hasF hash s s.cur k = true ∨ pendW s k = true :=
  (Inv.reachable hr).act ha k hk

/-- A `Rebuild` that is returning an error has left the filter inactive (nobody else can have
activated it: the build lock is still held). -/
theorem c02_bloom_failed_rebuild_inactive_conc (hash : Nat → List Nat) {s : St}
    (hr : Steps.Reach (Conc.step hash) Conc.init s) (t : Nat) (th : Thread)
    (ht : s.threads[t]? = some th) (hp : th.prog = .rebuild) (hpc : th.pc = .bUnlock .err) :
    s.active = false := by
  have := ((Inv.reachable hr).thr t th ht).pc
  simp only [pcInv, hpc] at this
  exact this.2 trivial hp

/-- `buildMu`: at most one thread is between Lock and Unlock. -/
theorem c02_build_mutex (hash : Nat → List Nat) {s : St}
    (hr : Steps.Reach (Conc.step hash) Conc.init s) (t u : Nat) (th thu : Thread)
    (ht : s.threads[t]? = some th) (hu : s.threads[u]? = some thu)
    (hl : th.pc.locked = true) (hl' : thu.pc.locked = true) : t = u := by
  have h1 := ((Inv.reachable hr).thr t th ht).lock.1 hl
  have h2 := ((Inv.reachable hr).thr u thu hu).lock.1 hl'
  rw [h1] at h2; exact Option.some.inj h2

/-! ### the guard is necessary: the activation window (known finding)

The real code is *not* linearizable: a Put that writes the store after a (re)build took its
snapshot and adds its key to the filter only after the build activated the filter makes the key
visible (while inactive), then invisible, then visible again.  The schedule below reaches a state
where reader 3 has answered "present", reader 4 — spawned after reader 3 returned — has answered
"absent", the only Put (thread 2) has not returned, and nothing was deleted. -/

def windowSchedule : List Ev :=
  [ .spawn .build, .step 0, .step 0, .snap 0 [] false, .step 0, .step 0, .step 0,      -- initial build, done
    .spawn .rebuild, .step 1, .step 1, .step 1, .snap 1 [] false, .step 1,             -- parked before active.Store(true)
    .spawn (.put [0]), .step 2,                                                        -- store written, filter add pending
    .spawn (.read .has (some 0)), .step 3, .step 3, .step 3,                           -- inactive → store → present
    .step 1, .step 1,                                                                  -- activate, unlock
    .spawn (.read .has (some 0)), .step 4, .step 4, .step 4, .step 4 ]                 -- active, empty filter → absent

theorem c02_bloom_activation_window_counterexample :
    (Steps.run (Conc.step (fun k => [k])) {} windowSchedule).map
        (fun s => (s.threads.map (·.pc), s.store, s.active)) =
      some ([.done .ok, .done .ok, .wAdd [0], .done .present, .done .absent], [0], true) := by
  decide

end Conc

/-! ## every interleaving of the 2Q cache layer (small-step model `ConcTQ.lean`) -/

namespace TQC

/-- **TQInv under concurrency**: in every reachable state (any number of concurrent Has/Get/GetSize/
Put/DeleteBlock/PutMany calls, any interleaving, arbitrary eviction) every cached entry agrees with
the store, except for keys that are *dirty*: a writer holding the key's lock has written the store
and not yet updated the cache (it has not returned). -/
theorem c02_tq_conc_inv (sz : Nat → Nat) {s : St} (hr : Steps.Reach (TQC.step sz) TQC.init s)
    (k : Nat) (e : Entry) (hk : s.cache k = some e) : agr (present s k) e ∨ dirty s k = true :=
  (Inv.reachable hr).ci k e hk

/-- **Justified answers**: every completed Has/Get/GetSize answered, at one of its own steps, what the
store held at that moment — or the key was dirty then (its writer had not returned).  Cache hits
taken *before* the per-key lock are included: that is the mechanism the property names. -/
theorem c02_tq_justified (sz : Nat → Nat) {s : St} (hr : Steps.Reach (TQC.step sz) TQC.init s)
    (t : Nat) (th : Thread) (ht : s.threads[t]? = some th) (kind : RKind) (k : Nat) (hp : th.prog = .read kind k)
    (a : Bool) (hd : th.pc = .done a) : th.just = true :=
  ((Inv.reachable hr).thr t th ht).js a hd (by rw [hp]; simp [readKey])

/-- The per-key RW lock: a key held by a writer has no readers, the writer is unique (it is a
function of the key), and whoever is in a reader / writer section holds the lock. -/
theorem c02_tq_lock_exclusion (sz : Nat → Nat) {s : St} (hr : Steps.Reach (TQC.step sz) TQC.init s)
    (k w : Nat) (hw : s.writer k = some w) :
    s.rholders k = [] ∧ ∃ th, s.threads[w]? = some th ∧ holdsW th.prog th.pc k = true :=
  ⟨(Inv.reachable hr).ex k w hw, (Inv.reachable hr).wv k w hw⟩

/-- PutMany holds the write lock of every key of its batch from before the store write until after
the cache update of that key, and the batch it locks is duplicate-free (so it never blocks on itself). -/
theorem c02_tq_putmany_locks (sz : Nat → Nat) {s : St} (hr : Steps.Reach (TQC.step sz) TQC.init s)
    (t : Nat) (th : Thread) (ht : s.threads[t]? = some th) (todo held : List Nat) (hp : th.pc = .mCache todo held) :
    held.Nodup ∧ (∀ k, k ∈ held → s.writer k = some t ∧ present s k = true) := by
  have hT := (Inv.reachable hr).thr t th ht
  refine ⟨hT.mh todo held hp, fun k hk => ⟨hT.wl k ?_, (hT.mc todo held hp).1 k hk⟩⟩
  have hpk := hT.pk
  rw [hp] at hpk ⊢
  cases hpg : th.prog <;> simp [hpg, progOK] at hpk
  simpa [holdsW] using hk

end TQC

/-! ## T-gen-4: the order of shared-memory accesses in the Go source

`BoxoModel/Gen/C02.lean` is regenerated on every run by `extract steps` (go/ast) from
`blockstore/bloom_cache.go` and `twoqueue_cache.go`: per function the ordered list of accesses to
the atomics, the build mutex, the filter, the 2Q cache, the per-key lock and the wrapped store.
The small-step models declare which access each program counter stands for; these theorems compare
the two.  Re-ordering, dropping or adding an access in the Go source (e.g. reading `active` before
loading the filter pointer, or updating the cache before the store) makes them fail. -/

theorem c02_steps_bloom :
    Gen.C02.bloomcache_hasCached = Conc.accesses false (.read .has none) Conc.pcsHasCached ∧
    Gen.C02.bloomcache_Put = Conc.accesses false (.put []) Conc.pcsPut ∧
    Gen.C02.bloomcache_PutMany = Conc.accesses true (.put []) Conc.pcsPut ∧
    Gen.C02.bloomcache_Rebuild = Conc.accesses false .rebuild Conc.pcsRebuildHead ++ ["call populate"] ++
      Conc.accesses false .rebuild [.bActivate] ∧
    Gen.C02.bloomcache_build = Conc.accesses false .build Conc.pcsBuildHead ++ ["call populate"] ++
      Conc.accesses false .build [.bActivate] ∧
    Gen.C02.bloomcache_populate = Conc.accesses false .rebuild Conc.pcsPopulate ∧
    Gen.C02.bloomcache_Has = "call hasCached" :: Conc.accesses false (.read .has none) [.rPass] ∧
    Gen.C02.bloomcache_Get = "call hasCached" :: Conc.accesses false (.read .get none) [.rPass] ∧
    Gen.C02.bloomcache_GetSize = "call hasCached" :: Conc.accesses false (.read .size none) [.rPass] ∧
    Gen.C02.bloomcache_DeleteBlock = "call hasCached" :: Conc.accesses false (.del none) [.rPass] := by
  decide

/-- the error paths (`cacheInvalidate` after a failed store call) are not in the concurrent model -/
theorem c02_steps_tq :
    Gen.C02.tqcache_Has = TQC.accesses (.read .has 0) TQC.pcsRead ∧
    Gen.C02.tqcache_Get = TQC.accesses (.read .get 0) TQC.pcsRead ∧
    Gen.C02.tqcache_GetSize = TQC.accesses (.read .size 0) TQC.pcsRead ∧
    Gen.C02.tqcache_Put.filter (· != "cache.Remove") = TQC.accesses (.put 0) TQC.pcsWrite ∧
    Gen.C02.tqcache_DeleteBlock.filter (· != "cache.Remove") = TQC.accesses (.del 0) TQC.pcsWrite ∧
    Gen.C02.tqcache_PutMany = TQC.accesses (.putMany []) TQC.pcsPutMany := by
  decide

/-! ## non-vacuity -/

/-- a history on the full stack (2Q of size 2, a one-bit-per-key hash with collisions, a failed and a
successful rebuild) in which cached answers, evictions and a conclusive filter answer all occur -/
def demoOps : List Op :=
  [.build 0 true, .put 1 false, .has (some 1) false, .has (some 2) false, .rebuild 10 false, .has (some 2) false,
   .del (some 1) false, .get (some 1) false, .putMany [3, 1, 3] false, .size (some 3) false, .has (some 5) false,
   .del (some 0) true, .view none false, .enum 1 false]

example : runOuts (Bloom.step (fun k => [k % 4]) (TQ.step (fun k => k + 10) id TwoQ.ops (Base.step (fun k => k + 10)) false) true)
      ({}, (TwoQ.new 2, ⟨[0]⟩)) demoOps =
    [.err, .ok, .bool true, .bool false, .ok, .bool false, .ok, .notfound, .ok, .size 13, .bool false, .err, .notfound,
     .keys [0] true] := by decide

example : runOuts (Base.step (fun k => k + 10)) ⟨[0]⟩ demoOps =
    [.ok, .ok, .bool true, .bool false, .ok, .bool false, .ok, .notfound, .ok, .size 13, .bool false, .err, .notfound,
     .keys [0] true] := by decide

end C02
