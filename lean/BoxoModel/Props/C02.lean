import BoxoModel.C02.LemmasTwoQ
import BoxoModel.C02.LemmasBloom
import BoxoModel.C02.LemmasConc3
/-!
# C02 — Caching blockstore layers are observationally transparent

Property theorems only (helper lemmas: `BoxoModel/C02/Lemmas*.lean`).

Sequential part (`Model.lean`): `TQ.step` (tqcache) and `Bloom.step` (bloomcache) over any wrapped
store.  `mask ops outs` blanks the answers of calls for which the harness injected a store failure
and of the Bloom-only maintenance calls (`build`, `rebuild`), which the uncached store does not have;
every other answer must be *equal* to the uncached store's.  All statements quantify over every op
list, every block-size table `sz`, every multihash order `rank`, every lawful cache `P` (= every
eviction policy and cache size), every hash family `hash` (= every filter geometry), every
enumeration cut position / error flag, and every initial cache / filter content satisfying the
invariant (in particular the empty ones).

Concurrent part (`Conc.lean`): the small-step model of the Bloom cache (code after the `fix:` commit
of `hasCached`), every interleaving of any number of threads.
-/
namespace C02

/-! ## sequential refinement -/

/-- 2Q layer: every history, every lawful cache, any initial cache content that agrees with the store. -/
theorem c02_tq_seq {C : Type} (sz rank : Nat → Nat) (P : CacheOps C) (L : Lawful P) (viewer : Bool)
    (c0 : C) (b0 : Base) (hw : L.wf c0) (hinv : TQInv sz L c0 b0) (ops : List Op) :
    mask ops (runOuts (TQ.step sz rank P (Base.step sz) viewer) (c0, b0) ops) =
      mask ops (runOuts (Base.step sz) b0 ops) :=
  ((TQ.refines (rank := rank) L (Base.refines sz) viewer).run ops (c0, b0) b0
    ⟨hw, Base.Equiv.refl b0, hinv⟩).1

/-- … in particular golang-lru's 2Q as transcribed (the cache the driver runs), any size, from empty. -/
theorem c02_tq_seq_2q (sz rank : Nat → Nat) (viewer : Bool) (size : Nat) (b0 : Base) (ops : List Op) :
    mask ops (runOuts (TQ.step sz rank TwoQ.ops (Base.step sz) viewer) (TwoQ.new size, b0) ops) =
      mask ops (runOuts (Base.step sz) b0 ops) :=
  c02_tq_seq sz rank TwoQ.ops TwoQ.lawful viewer (TwoQ.new size) b0 (TwoQ.wf_new size)
    (fun k e h => by simp [TwoQ.lawful, TwoQ.ents_new] at h) ops

/-- Bloom layer: every history, every hash family, every enumeration fault, any filter state that
satisfies `BloomInv` (e.g. the fresh inactive filter). -/
theorem c02_bloom_seq (sz : Nat → Nat) (hash : Nat → List Nat) (viewer : Bool) (st0 : BloomSt) (b0 : Base)
    (hinv : BloomInv hash st0 b0) (ops : List Op) :
    mask ops (runOuts (Bloom.step hash (Base.step sz) viewer) (st0, b0) ops) =
      mask ops (runOuts (Base.step sz) b0 ops) :=
  ((Bloom.refines (hash := hash) (Base.refines sz) viewer).run ops (st0, b0) b0
    ⟨Base.Equiv.refl b0, hinv⟩).1

/-- The stack `CachedBlockstore` builds: Bloom over 2Q over the store. -/
theorem c02_stack_seq {C : Type} (sz rank : Nat → Nat) (hash : Nat → List Nat) (P : CacheOps C) (L : Lawful P)
    (viewer : Bool) (st0 : BloomSt) (c0 : C) (b0 : Base) (hw : L.wf c0) (hq : TQInv sz L c0 b0)
    (hb : BloomInv hash st0 b0) (ops : List Op) :
    mask ops (runOuts (Bloom.step hash (TQ.step sz rank P (Base.step sz) viewer) true) (st0, (c0, b0)) ops) =
      mask ops (runOuts (Base.step sz) b0 ops) :=
  ((Bloom.refines (hash := hash) (TQ.refines (rank := rank) L (Base.refines sz) viewer) true).run ops
    (st0, (c0, b0)) b0 ⟨⟨hw, Base.Equiv.refl b0, hq⟩, hb⟩).1

/-- The invariants the harness checks on the real state hold after every history:
every 2Q entry agrees with the store, and an active filter contains every stored key. -/
theorem c02_stack_invariants {C : Type} (sz rank : Nat → Nat) (hash : Nat → List Nat) (P : CacheOps C)
    (L : Lawful P) (viewer : Bool) (st0 : BloomSt) (c0 : C) (b0 : Base) (hw : L.wf c0)
    (hq : TQInv sz L c0 b0) (hb : BloomInv hash st0 b0) (ops : List Op) :
    let s := runState (Bloom.step hash (TQ.step sz rank P (Base.step sz) viewer) true) (st0, (c0, b0)) ops
    let b := runState (Base.step sz) b0 ops
    TQInv sz L s.2.1 b ∧ BloomInv hash s.1 b ∧ Base.Equiv s.2.2 b := by
  have := ((Bloom.refines (hash := hash) (TQ.refines (rank := rank) L (Base.refines sz) viewer) true).run ops
    (st0, (c0, b0)) b0 ⟨⟨hw, Base.Equiv.refl b0, hq⟩, hb⟩).2
  exact ⟨this.1.2.2, this.2, this.1.2.1⟩

/-- A `Rebuild` whose enumeration reported an error (or was cut short) leaves the filter inactive,
whatever the wrapped store does. -/
theorem c02_bloom_failed_build_inactive {σ : Type} (hash : Nat → List Nat) (inner : StepFn σ) (viewer : Bool)
    (st : BloomSt) (s : σ) (cut : Nat) (err : Bool)
    (h : (Bloom.step hash inner viewer (st, s) (.rebuild cut err)).2 = .err) :
    (Bloom.step hash inner viewer (st, s) (.rebuild cut err)).1.1.active = false := by
  simp only [Bloom.step, Bloom.populate] at h ⊢
  split <;> rename_i hq <;> simp only [hq] at h ⊢
  · split <;> rename_i he <;> simp only [he] at h ⊢
    · trivial

/-- … and the initial build activates the filter only when the enumeration was complete. -/
theorem c02_bloom_failed_initial_build {σ : Type} (hash : Nat → List Nat) (inner : StepFn σ) (viewer : Bool)
    (s : σ) (cut : Nat) (err : Bool)
    (h : (Bloom.step hash inner viewer ({}, s) (.build cut err)).2 = .err) :
    (Bloom.step hash inner viewer ({}, s) (.build cut err)).1.1.active = false := by
  simp only [Bloom.step, Bloom.populate] at h ⊢
  split <;> rename_i hq <;> simp only [hq] at h ⊢
  · split <;> rename_i he <;> simp only [he] at h ⊢
    · trivial

/-! ## every interleaving of the Bloom cache (small-step model) -/

namespace Conc

/-- **Justified "absent"** (`c02_bloom_linearizable`, with the guard the real code needs).
In every reachable state of the small-step system — any number of concurrent Has/Get/GetSize/View/
DeleteBlock/Put/PutMany/Rebuild calls and the initial build, any interleaving of their atomic
steps, any enumeration outcome — a call that answered "absent" from the filter (or from the store)
did so justified by a state inside its own execution interval: at one of its own atomic steps
either the key was not in the store, or the Put that made it present had not yet returned (it had
written the store but not yet added the key to the live filter).  (`okAbs` is the ghost bit that
`observe` sets exactly then.)  A skipped `DeleteBlock` counts as an "absent" answer. -/
theorem c02_bloom_linearizable_partial (hash : Nat → List Nat) {s : St}
    (hr : Steps.Reach (Conc.step hash) Conc.init s) (t : Nat) (th : Thread)
    (ht : s.threads[t]? = some th) (hd : th.pc = .done .absent) : th.okAbs = true := by
  have := ((Inv.reachable hr).thr t th ht).pc
  simpa [pcInv, hd] using this

/-- **No false negative**: if at every atomic step of a read the key was in the store and the Put
that stored it had returned (`stable`), the read does not answer "absent" — also across any number
of `Rebuild`s, during the initial build, and after failed enumerations. -/
theorem c02_no_false_negative (hash : Nat → List Nat) {s : St}
    (hr : Steps.Reach (Conc.step hash) Conc.init s) (t : Nat) (th : Thread)
    (ht : s.threads[t]? = some th) (hs : th.stable = true) : th.pc ≠ .done .absent := by
  intro hd
  have hT := (Inv.reachable hr).thr t th ht
  have := hT.ghost (c02_bloom_linearizable_partial hash hr t th ht hd)
  rw [hs] at this; cases this

/-- `BloomInv` in every reachable state: while the filter is active, every stored key is in the
live filter, except keys whose Put is between its store write and its filter add. -/
theorem c02_bloom_inv_conc (hash : Nat → List Nat) {s : St}
    (hr : Steps.Reach (Conc.step hash) Conc.init s) (ha : s.active = true) (k : Nat) (hk : k ∈ s.store) :
    hasF hash s s.cur k = true ∨ pendW s k = true :=
  (Inv.reachable hr).act ha k hk

/-- A `Rebuild` that is returning an error has left the filter inactive (nobody else can have
activated it: the build lock is still held). -/
theorem c02_bloom_failed_rebuild_inactive_conc (hash : Nat → List Nat) {s : St}
    (hr : Steps.Reach (Conc.step hash) Conc.init s) (t : Nat) (th : Thread)
    (ht : s.threads[t]? = some th) (hp : th.prog = .rebuild) (hpc : th.pc = .bUnlock .err) :
    s.active = false := by
  have := ((Inv.reachable hr).thr t th ht).pc
  simp only [pcInv, hpc] at this
  exact this.2 trivial hp

/-- `buildMu`: at most one thread is between Lock and Unlock. -/
theorem c02_build_mutex (hash : Nat → List Nat) {s : St}
    (hr : Steps.Reach (Conc.step hash) Conc.init s) (t u : Nat) (th thu : Thread)
    (ht : s.threads[t]? = some th) (hu : s.threads[u]? = some thu)
    (hl : th.pc.locked = true) (hl' : thu.pc.locked = true) : t = u := by
  have h1 := ((Inv.reachable hr).thr t th ht).lock.1 hl
  have h2 := ((Inv.reachable hr).thr u thu hu).lock.1 hl'
  rw [h1] at h2; exact Option.some.inj h2

/-! ### the guard is necessary: the activation window (known finding)

The real code is *not* linearizable: a Put that writes the store after a (re)build took its
snapshot and adds its key to the filter only after the build activated the filter makes the key
visible (while inactive), then invisible, then visible again.  The schedule below reaches a state
where reader 3 has answered "present", reader 4 — spawned after reader 3 returned — has answered
"absent", the only Put (thread 2) has not returned, and nothing was deleted. -/

def windowSchedule : List Ev :=
  [ .spawn .build, .step 0, .step 0, .snap 0 [] false, .step 0, .step 0, .step 0,      -- initial build, done
    .spawn .rebuild, .step 1, .step 1, .step 1, .snap 1 [] false, .step 1,             -- parked before active.Store(true)
    .spawn (.put [0]), .step 2,                                                        -- store written, filter add pending
    .spawn (.read .has (some 0)), .step 3, .step 3, .step 3,                           -- inactive → store → present
    .step 1, .step 1,                                                                  -- activate, unlock
    .spawn (.read .has (some 0)), .step 4, .step 4, .step 4, .step 4 ]                 -- active, empty filter → absent

theorem c02_bloom_activation_window_counterexample :
    (Steps.run (Conc.step (fun k => [k])) {} windowSchedule).map
        (fun s => (s.threads.map (·.pc), s.store, s.active)) =
      some ([.done .ok, .done .ok, .wAdd [0], .done .present, .done .absent], [0], true) := by
  decide

end Conc

/-! ## non-vacuity -/

/-- a history on the full stack (2Q of size 2, a one-bit-per-key hash with collisions, a failed and a
successful rebuild) in which cached answers, evictions and a conclusive filter answer all occur -/
def demoOps : List Op :=
  [.build 0 true, .put 1 false, .has (some 1) false, .has (some 2) false, .rebuild 10 false, .has (some 2) false,
   .del (some 1) false, .get (some 1) false, .putMany [3, 1, 3] false, .size (some 3) false, .has (some 5) false,
   .del (some 0) true, .view none false, .enum 1 false]

example : runOuts (Bloom.step (fun k => [k % 4]) (TQ.step (fun k => k + 10) id TwoQ.ops (Base.step (fun k => k + 10)) false) true)
      ({}, (TwoQ.new 2, ⟨[0]⟩)) demoOps =
    [.err, .ok, .bool true, .bool false, .ok, .bool false, .ok, .notfound, .ok, .size 13, .bool false, .err, .notfound,
     .keys [0] true] := by decide

example : runOuts (Base.step (fun k => k + 10)) ⟨[0]⟩ demoOps =
    [.ok, .ok, .bool true, .bool false, .ok, .bool false, .ok, .notfound, .ok, .size 13, .bool false, .err, .notfound,
     .keys [0] true] := by decide

end C02
