import BoxoModel.C28.Lemmas
import BoxoModel.C28.CodecLemmas
/-!
# C28 — Names and content paths parse and print canonically

Property theorems only (helpers: `BoxoModel/C28/Lemmas.lean`, `BoxoModel/Lib/PathCleanLemmas.lean`).
Path theorems quantify over every input byte string and every CID decoder `dec` (any function; the
root CID of a parsed path is `dec` applied to the second segment).  Name theorems quantify over every
codec triple satisfying the three stated laws (the laws are checked against go-libp2p / go-cid on every
run by the harness monitor).
-/
namespace C28
open PathClean

/-- **Parsing is idempotent**: re-parsing the printed form of an accepted path gives the same path —
same printed form, namespace and root CID (the whole `Path` value). -/
theorem c28_idempotent {Cid : Type} (dec : Str → Option Cid) (s : Str) (p : Path Cid)
    (h : newPath dec s = .ok p) : newPath dec p.str = .ok p := by
  obtain ⟨_, s0, s1, rest, _, hn, hstr, hns, hroot⟩ := newPath_ok h
  have hr' : isRooted p.str = true := by rw [hstr]; rfl
  have hseg' : (cleanCP p.str).comps = s0 :: s1 :: rest := by
    rw [hstr, cleanCP_printed (by simp) hn]
  have hsuf : hasSuffixSlash p.str = hasSuffixSlash s := by
    rw [hstr, hasSuffixSlash_printed (by simp) hn]
  rw [newPath_rooted dec hr' hseg', hsuf, ← hstr]
  cases p with
  | mk str ns root =>
    simp only at hstr hns hroot
    rcases hroot with ⟨h0, c, hc, hroot⟩ | ⟨h0, hroot⟩
    · simp [h0, hc, hns, hroot]
    · subst hns; subst h0; subst hroot
      have hne : ¬ (nsIpns = nsIpfs ∨ nsIpns = nsIpld) := by decide
      simp only [hne, if_false, if_true]

/-- The segments of an accepted path are the cleaned elements of the input: at least two, all ordinary
names (non-empty, not `.`, not `..`, no `/`), the first one being the namespace; and they are the
segments of the re-parsed printed form as well. -/
theorem c28_segments {Cid : Type} (dec : Str → Option Cid) (s : Str) (p : Path Cid)
    (h : newPath dec s = .ok p) :
    p.segments = stringToSegments s ∧ (∀ c ∈ p.segments, Normal c = true) ∧
      2 ≤ p.segments.length ∧ p.segments.head? = some p.ns := by
  obtain ⟨hr, s0, s1, rest, hseg, hn, hstr, hns, _⟩ := newPath_ok h
  have hr' : isRooted p.str = true := by rw [hstr]; rfl
  have hseg' : (cleanCP p.str).comps = s0 :: s1 :: rest := by
    rw [hstr, cleanCP_printed (by simp) hn]
  have : p.segments = s0 :: s1 :: rest := by
    unfold Path.segments; rw [stringToSegments_rooted hr', hseg']
  rw [this, stringToSegments_rooted hr, hseg]
  exact ⟨rfl, hn, by simp, by simp [hns]⟩

/-- **No dot segments in the printed form**: splitting the printed form at `/` never yields `.` or `..`. -/
theorem c28_no_dots {Cid : Type} (dec : Str → Option Cid) (s : Str) (p : Path Cid)
    (h : newPath dec s = .ok p) : ∀ c ∈ splitSlash p.str, c ≠ dot ∧ c ≠ dotdot := by
  obtain ⟨_, s0, s1, rest, _, hn, hstr, _, _⟩ := newPath_ok h
  have hns : ∀ c ∈ s0 :: s1 :: rest, '/' ∉ c := fun c hc => normal_noslash (hn c hc)
  have key : ∀ c ∈ splitSlash p.str, c = [] ∨ c ∈ s0 :: s1 :: rest := by
    intro c hc
    rw [hstr] at hc
    by_cases ht : hasSuffixSlash s = true
    · have e : ('/' :: joinSlash (s0 :: s1 :: rest)) ++ (if hasSuffixSlash s = true then ['/'] else [])
          = [] ++ '/' :: (joinSlash (s0 :: s1 :: rest) ++ '/' :: []) := by simp [ht]
      rw [e, splitSlash_append, splitSlash_append, splitSlash_joinSlash _ (by simp) hns] at hc
      simp [splitSlash] at hc
      rcases hc with hc | hc | hc | hc | hc
      · exact Or.inl hc
      · exact Or.inr (by simp [hc])
      · exact Or.inr (by simp [hc])
      · exact Or.inr (by simp [hc])
      · exact Or.inl hc
    · have e : ('/' :: joinSlash (s0 :: s1 :: rest)) ++ (if hasSuffixSlash s = true then ['/'] else [])
          = [] ++ '/' :: joinSlash (s0 :: s1 :: rest) := by simp [ht]
      rw [e, splitSlash_append, splitSlash_joinSlash _ (by simp) hns] at hc
      simp [splitSlash] at hc
      rcases hc with hc | hc | hc | hc
      · exact Or.inl hc
      · exact Or.inr (by simp [hc])
      · exact Or.inr (by simp [hc])
      · exact Or.inr (by simp [hc])
  intro c hc
  rcases key c hc with e | e
  · subst e; exact ⟨by decide, by decide⟩
  · exact ⟨normal_ne_dot (hn c e), normal_ne_dotdot (hn c e)⟩

/-- For an immutable path the root CID is the decoding of the second segment, before and after
re-parsing. -/
theorem c28_root_cid {Cid : Type} (dec : Str → Option Cid) (s : Str) (p : Path Cid)
    (h : newPath dec s = .ok p) (hm : p.mutable = false) :
    ∃ s1, p.segments[1]? = some s1 ∧ p.root = dec s1 ∧ p.root ≠ none := by
  obtain ⟨_, s0, s1, rest, _, hn, hstr, hns, hroot⟩ := newPath_ok h
  have hr' : isRooted p.str = true := by rw [hstr]; rfl
  have hseg' : (cleanCP p.str).comps = s0 :: s1 :: rest := by
    rw [hstr, cleanCP_printed (by simp) hn]
  have : p.segments = s0 :: s1 :: rest := by
    unfold Path.segments; rw [stringToSegments_rooted hr', hseg']
  refine ⟨s1, by simp [this], ?_⟩
  rcases hroot with ⟨_, c, hc, hroot⟩ | ⟨h0, _⟩
  · simp [hroot, hc]
  · exfalso
    rw [Path.mutable, hns, h0] at hm
    exact absurd hm (by decide)

/-! ### URI forms -/

/-- **The URI form maps to the same path as the canonical form**: for a scheme that is `ipfs`, `ipns`
or `ipld` in any ASCII case, `scheme://rest` parses exactly as `/scheme-in-lower-case/rest`. -/
theorem c28_uri {Cid : Type} (dec : Str → Option Cid) (scheme rest ns : Str)
    (hns : ns = nsIpfs ∨ ns = nsIpns ∨ ns = nsIpld) (hs : scheme.map toLowerASCII = ns) :
    newPathFromURI dec (scheme ++ ':' :: '/' :: '/' :: rest) = newPath dec ('/' :: ns ++ '/' :: rest) := by
  unfold newPathFromURI
  rw [normalize_scheme hns hs]
  rfl

/-- the schemeless-authority form `scheme:rest` (no `//` after the colon) parses as `/scheme/rest` too -/
theorem c28_uri_schemeless {Cid : Type} (dec : Str → Option Cid) (scheme rest ns : Str)
    (hns : ns = nsIpfs ∨ ns = nsIpns ∨ ns = nsIpld) (hs : scheme.map toLowerASCII = ns)
    (hr : trimPrefix2Slash rest = rest) :
    newPathFromURI dec (scheme ++ ':' :: rest) = newPath dec ('/' :: ns ++ '/' :: rest) := by
  unfold newPathFromURI
  rw [normalize_scheme hns hs, hr]

/-- a string without one of the three schemes is handed to `NewPath` unchanged -/
theorem c28_uri_passthrough {Cid : Type} (dec : Str → Option Cid) (s : Str)
    (h : ∀ ns ∈ [nsIpfs, nsIpns, nsIpld], hasURIScheme s ns = false) :
    newPathFromURI dec s = newPath dec s := by
  unfold newPathFromURI normalizeURIScheme
  have h1 := h nsIpfs (by simp)
  have h2 := h nsIpns (by simp)
  have h3 := h nsIpld (by simp)
  simp [List.find?, h1, h2, h3]

/-- in particular an accepted canonical path is not rewritten (it starts with `/`) -/
theorem c28_uri_canonical {Cid : Type} (dec : Str → Option Cid) (s : Str) (h : isRooted s = true) :
    newPathFromURI dec s = newPath dec s := by
  apply c28_uri_passthrough
  intro ns hns
  cases s with
  | nil => simp [isRooted] at h
  | cons x xs =>
    have hx : x = '/' := by simpa [isRooted] using h
    subst hx
    simp at hns
    rcases hns with e | e | e <;> subst e <;> simp [hasURIScheme, nsIpfs, nsIpns, nsIpld, toLowerASCII]

/-! ### Join -/

/-- Joining ordinary names onto a path appends them to its segments. -/
theorem c28_join_segments {Cid : Type} (dec : Str → Option Cid) (s : Str) (p q : Path Cid)
    (extra : List Str) (h : newPath dec s = .ok p) (he : ∀ c ∈ extra, Normal c = true)
    (hj : join dec p extra = .ok q) : q.segments = p.segments ++ extra ∧ q.ns = p.ns ∧ q.root = p.root := by
  obtain ⟨_, s0, s1, rest, _, hn, hstr, hns, hroot⟩ := newPath_ok h
  have hr' : isRooted p.str = true := by rw [hstr]; rfl
  have hseg' : (cleanCP p.str).comps = s0 :: s1 :: rest := by
    rw [hstr, cleanCP_printed (by simp) hn]
  have hps : p.segments = s0 :: s1 :: rest := by
    unfold Path.segments; rw [stringToSegments_rooted hr', hseg']
  have hall : ∀ c ∈ s0 :: s1 :: (rest ++ extra), Normal c = true := by
    intro c hc
    simp at hc
    rcases hc with e | e | e | e
    · exact hn c (by simp [e])
    · exact hn c (by simp [e])
    · exact hn c (by simp [e])
    · exact he c e
  unfold join newPathFromSegments at hj
  rw [hps] at hj
  have hs2s : segmentsToString (s0 :: s1 :: rest ++ extra) = '/' :: joinSlash (s0 :: s1 :: (rest ++ extra)) := by
    have := segmentsToString_normal (cs := s0 :: s1 :: (rest ++ extra)) (by simp) hall
    simpa using this
  rw [hs2s] at hj
  have hcp := cleanCP_printed (cs := s0 :: s1 :: (rest ++ extra)) (by simp) hall false
  simp only [Bool.false_eq_true, if_false, List.append_nil] at hcp
  have hrq : isRooted ('/' :: joinSlash (s0 :: s1 :: (rest ++ extra))) = true := rfl
  have hcomps : (cleanCP ('/' :: joinSlash (s0 :: s1 :: (rest ++ extra)))).comps = s0 :: s1 :: (rest ++ extra) := by
    rw [hcp]
  obtain ⟨_, t0, t1, trest, hseg2, hn2, hstr2, hns2, hroot2⟩ := newPath_ok hj
  rw [hcomps] at hseg2
  simp at hseg2
  obtain ⟨e0, e1, e2⟩ := hseg2
  subst e0; subst e1; subst e2
  have hrq' : isRooted q.str = true := by rw [hstr2]; rfl
  have hsegq : (cleanCP q.str).comps = s0 :: s1 :: (rest ++ extra) := by
    rw [hstr2, cleanCP_printed (by simp) hn2]
  refine ⟨?_, by rw [hns2, hns], ?_⟩
  · unfold Path.segments
    rw [stringToSegments_rooted hrq', hsegq]
    have : stringToSegments p.str = s0 :: s1 :: rest := hps
    rw [this]; simp
  · rcases hroot with ⟨h0, c, hc, hr1⟩ | ⟨h0, hr1⟩ <;> rcases hroot2 with ⟨g0, c', hc', hr2⟩ | ⟨g0, hr2⟩
    · rw [hr1, hr2, ← hc, ← hc']
    · exfalso; rcases h0 with e | e <;> rw [e] at g0 <;> exact absurd g0 (by decide)
    · exfalso; rcases g0 with e | e <;> rw [e] at h0 <;> exact absurd h0 (by decide)
    · rw [hr1, hr2]

/-! ### IPNS names -/

/-- **Names round-trip through every form.** For a name obtained from any string, printing it and
parsing it again (with or without the `/ipns/` prefix), or going through its CID, its routing key or
its peer ID, gives the same name. -/
theorem c28_name_laws (k : NameCodec) (hk : k.Lawful) (s : Str) (n : Name)
    (h : nameFromString k s = some n) :
    (∃ str, n.toStr k = some str ∧ nameFromString k str = some n ∧
        nameFromString k (nsPrefix ++ str) = some n) ∧
    (∃ c, n.cid k = some c ∧ nameFromCid c = some n) ∧
    nameFromRoutingKey k n.routingKey = some n ∧
    nameFromPeer n.peer = n := by
  have hv : k.validMh n = true := hk.decode_valid _ _ h
  have hnp : nsPrefix = ['/', 'i', 'p', 'n', 's', '/'] := by decide
  refine ⟨⟨k.cidB36 n, by simp [Name.toStr, hv], ?_, ?_⟩, ⟨_, by simp [Name.cid, hv]; rfl, by simp [nameFromCid]⟩, ?_, rfl⟩
  · simp [nameFromString, trimNsPrefix, hk.encode_no_ns n, hk.decode_encode n hv]
  · have : trimNsPrefix (nsPrefix ++ k.cidB36 n) = k.cidB36 n := by
      simp [trimNsPrefix, hnp]
    simp [nameFromString, this, hk.decode_encode n hv]
  · simp [nameFromRoutingKey, Name.routingKey, hv, hnp]

/-- names from a routing key round-trip through the routing key -/
theorem c28_name_routing_key (k : NameCodec) (d : Str) (n : Name) (h : nameFromRoutingKey k d = some n) :
    n.routingKey = d ∧ nameFromRoutingKey k n.routingKey = some n := by
  unfold nameFromRoutingKey at h
  split at h
  · simp at h
  · rename_i hp
    split at h
    · rename_i hv
      simp at h; subst h
      have hp' : nsPrefix.isPrefixOf d = true := by simpa using hp
      have hd : nsPrefix ++ d.drop nsPrefix.length = d := by
        have := List.isPrefixOf_iff_prefix.1 hp'
        obtain ⟨t, ht⟩ := this
        rw [← ht]; simp
      refine ⟨hd, ?_⟩
      unfold nameFromRoutingKey Name.routingKey
      rw [hd]
      simp [hp', hv]
    · simp at h

/-! ### the concrete codecs (no law is assumed any more)

`concreteCodec extra` is built from byte-level models of go-varint, go-multihash `Cast`, go-cid `Cast` +
`peer.FromCid`, base36 and base58btc (big-number codecs of `Lib.BaseX`) and `peer.Decode`; `extra` stands for
all the multibases that are not modelled (any function). -/

/-- The three codec laws hold for the concrete codecs, whatever the unmodelled multibases do. -/
theorem c28_codec_lawful (extra : Str → Option Bytes) : (concreteCodec extra).Lawful :=
  concreteCodec_lawful extra

/-- **Names round-trip through every form — unconditionally** for the concrete codecs: a name parsed from
any string (base58 multihash, or libp2p-key CID in base36 / base58btc / any other multibase) prints as
`k…` base36, and parsing that string (with or without `/ipns/`), its CID, its routing key or its peer ID
gives the same name. -/
theorem c28_name_roundtrip_concrete (extra : Str → Option Bytes) (s : Str) (n : Name)
    (h : nameFromString (concreteCodec extra) s = some n) :
    (∃ str, n.toStr (concreteCodec extra) = some str ∧ nameFromString (concreteCodec extra) str = some n ∧
        nameFromString (concreteCodec extra) (nsPrefix ++ str) = some n) ∧
    (∃ c, n.cid (concreteCodec extra) = some c ∧ nameFromCid c = some n) ∧
    nameFromRoutingKey (concreteCodec extra) n.routingKey = some n ∧
    nameFromPeer n.peer = n :=
  c28_name_laws _ (concreteCodec_lawful extra) s n h

/-- base36 and base58btc: decoding inverts encoding on every non-empty byte string (leading zero bytes included) -/
theorem c28_basex_roundtrip (bs : Bytes) (hne : bs ≠ []) :
    BaseX.decode BaseX.b36 (BaseX.encode BaseX.b36 bs) = some bs ∧
    BaseX.decode BaseX.b58 (BaseX.encode BaseX.b58 bs) = some bs :=
  ⟨BaseX.decode_encode _ BaseX.b36_wf bs hne, BaseX.decode_encode _ BaseX.b58_wf bs hne⟩

/-- the libp2p-key CID framing: `peer.Decode` of the base36 CID string of a well-formed multihash is that
multihash, and everything `peer.Decode` returns is a well-formed multihash -/
theorem c28_peer_decode (extra : Str → Option Bytes) :
    (∀ m, validMhB m = true → peerDecodeB extra (cidB36B m) = some m) ∧
    (∀ s m, peerDecodeB extra s = some m → validMhB m = true) :=
  ⟨peerDecodeB_cidB36 extra, fun _ _ h => peerDecodeB_valid extra h⟩

/-- identity (Ed25519 / secp256k1 keys: code 0x00, digest = the ≤ 42-byte serialized key) and sha2-256
(RSA keys: code 0x12, 32-byte digest) peer IDs are well-formed multihashes, so the round trips apply to them -/
theorem c28_peer_id_shapes (digest : Bytes) :
    (digest.length < 128 → validMhB (0x00 :: digest.length.toUInt8 :: digest) = true) ∧
    (digest.length = 32 → validMhB (0x12 :: 0x20 :: digest) = true) := by
  constructor
  · intro h; exact validMhB_small 0 digest.length (by decide) h digest rfl
  · intro h; exact validMhB_small 0x12 32 (by decide) (by decide) digest h

/-! ### Non-vacuity -/

def decAll : Str → Option Str := fun s => some s
deriving instance DecidableEq for Except

example : newPath decAll "/ipfs/Qm/a/../b//c/./".toList
    = .ok { str := "/ipfs/Qm/b/c/".toList, ns := "ipfs".toList, root := some "Qm".toList } := by decide
example : newPath decAll "/ipns/example.com".toList
    = .ok { str := "/ipns/example.com".toList, ns := "ipns".toList, root := none } := by decide
example : newPath decAll "/ipfs/Qm/..".toList = .error .insufficient := by decide
example : newPath decAll "ipfs/Qm".toList = .error .insufficient := by decide
example : newPath decAll "/http/Qm".toList = .error .unknownNs := by decide
example : newPath (fun _ => (none : Option Str)) "/ipld/x".toList = .error .badCid := by decide
example : newPathFromURI decAll "IpFs://Qm/a".toList = newPath decAll "/ipfs/Qm/a".toList := by decide
example : newPathFromURI decAll "ipns:example.com/x".toList
    = .ok { str := "/ipns/example.com/x".toList, ns := "ipns".toList, root := none } := by decide

end C28
