import BoxoModel.C08.Lemmas
import BoxoModel.C07.GenBridge
import BoxoModel.Gen.C08
/-!
# C08 — Appending to a trickle DAG preserves content and trickle layout

Property theorems only (helper lemmas: `BoxoModel/C08/Lemmas.lean`, `BoxoModel/C07/Lemmas.lean`).
`append w t cs` is the model of `trickle.Append` (after the fix "trickle.Append skipped a depth level …")
run with `Maxlinks = w` on the file tree `t` with a splitter that returns the chunks `cs`.
All statements hold for EVERY well-sized tree `t` that passes `VerifyTrickleDagStructure` for width `w`
(`tshape w (-1) t`) — every `trickle.Layout` output (C07) and, by `c08_closed`, every result of any number
of further appends — every chunk list (any number, any sizes) and every width `w ≥ 1`.
-/
namespace C08
open FileTree C07

/-- Append returns no error and every loop terminates (the model's fuel is never exhausted) -/
theorem c08_total (w : Nat) (hw : 1 ≤ w) (t : FNode) (cs : List Chunk) (hws : wellSized t = true)
    (hs : tshape w (-1) t = true) : ∃ o, append w t cs = some o :=
  append_total true w hw t cs hws (by rw [rootShape_true]; exact hs)

/-- the new file reads as the old content followed by the appended bytes -/
theorem c08_content (w : Nat) (t : FNode) (cs : List Chunk) (o : AppendOut) (hws : wellSized t = true)
    (h : append w t cs = some o) : content o.root = content t ++ cs.flatten := by
  cases t with
  | leaf d => simp [append, getChild] at h
  | node fs links =>
    simp only [wellSized_node, Bool.and_eq_true, beq_iff_eq] at hws
    simp only [append, getChild] at h
    have := (appendB_spec w _ { links := links, filesize := fs } { spl := cs } o ⟨hws.1, hws.2⟩ h).2
    simpa [DB.flat, DB.pending] using this

/-- recorded sizes stay consistent at every level -/
theorem c08_wellSized (w : Nat) (t : FNode) (cs : List Chunk) (o : AppendOut) (hws : wellSized t = true)
    (h : append w t cs = some o) : wellSized o.root = true := by
  cases t with
  | leaf d => simp [append, getChild] at h
  | node fs links =>
    simp only [wellSized_node, Bool.and_eq_true, beq_iff_eq] at hws
    simp only [append, getChild] at h
    exact (appendB_spec w _ { links := links, filesize := fs } { spl := cs } o ⟨hws.1, hws.2⟩ h).1

/-- the root reports old size + appended length -/
theorem c08_size (w : Nat) (t : FNode) (cs : List Chunk) (o : AppendOut) (hws : wellSized t = true)
    (h : append w t cs = some o) : size o.root = size t + cs.flatten.length := by
  rw [size_eq_of_wellSized _ (c08_wellSized w t cs o hws h), c08_content w t cs o hws h,
    size_eq_of_wellSized _ hws, List.length_append]

/-- the result still passes `VerifyTrickleDagStructure` for the same width -/
theorem c08_shape (w : Nat) (hw : 1 ≤ w) (t : FNode) (cs : List Chunk) (o : AppendOut)
    (hs : tshape w (-1) t = true) (h : append w t cs = some o) : tshape w (-1) o.root = true := by
  cases t with
  | leaf d => simp [append, getChild] at h
  | node fs links =>
    simp only [tshape_node, Bool.and_eq_true] at hs
    simp only [append, getChild] at h
    rw [← rootShape_true]
    exact appendB_shape true w hw _ { links := links, filesize := fs } { spl := cs } o hs.2 h

/-- the hypotheses are re-established: the theorems above apply to every iterated append -/
theorem c08_closed (w : Nat) (hw : 1 ≤ w) (t : FNode) (cs : List Chunk) (o : AppendOut)
    (hws : wellSized t = true) (hs : tshape w (-1) t = true) (h : append w t cs = some o) :
    wellSized o.root = true ∧ tshape w (-1) o.root = true :=
  ⟨c08_wellSized w t cs o hws h, c08_shape w hw t cs o hs h⟩

/-- import with trickle.Layout, then append: the file is the concatenation of both inputs, well-sized, trickle-shaped -/
theorem c08_layout_then_append (c : Cfg) (hw : 1 ≤ c.w) (cs₁ cs₂ : List Chunk) :
    ∃ o₁ o₂, trickleLayout c cs₁ = some o₁ ∧ append c.w o₁.root cs₂ = some o₂ ∧
      content o₂.root = cs₁.flatten ++ cs₂.flatten ∧ wellSized o₂.root = true ∧
      tshape c.w (-1) o₂.root = true := by
  obtain ⟨o₁, h₁⟩ := trickleLayout_total c cs₁ hw
  obtain ⟨ws, ct, _⟩ := trickleLayout_spec c cs₁ o₁ h₁
  have sh := trickleLayout_shape c cs₁ o₁ h₁ hw
  obtain ⟨o₂, h₂⟩ := append_total true c.w hw o₁.root cs₂ ws (by rw [rootShape_true]; exact sh)
  exact ⟨o₁, o₂, h₁, h₂, by rw [c08_content c.w _ cs₂ o₂ ws h₂, ct], c08_wellSized c.w _ cs₂ o₂ ws h₂,
    c08_shape c.w hw _ cs₂ o₂ sh h₂⟩

/-- mtime rule: `fsn.SetModTime(time.Now())` runs (and only if the old root had an mtime) exactly on the path
that adds no sub-graph: the root had fewer than `w` children, FillNodeLayer consumed everything, and the
result's children are the old ones followed by leaves. -/
theorem c08_mtime_rule (w : Nat) (fs : Nat) (links : List (FNode × Nat)) (cs : List Chunk) (o : AppendOut)
    (h : append w (.node fs links) cs = some o) (ht : o.mtimeTouched = true) :
    links.length < w ∧ ∃ fs' new, o.root = .node fs' (links ++ new) ∧ fullL w 0 new = true := by
  simp only [append, getChild] at h
  obtain ⟨h0, hr⟩ := appendB_touched w _ _ _ o h ht
  obtain ⟨hlt, new, e1, e2⟩ := enterLayer_was0 w _ _ h0
  exact ⟨hlt, (enterLayer w { links := links, filesize := fs } { spl := cs }).fsn.filesize, new,
    by rw [hr]; simp only [Builder.commit, e1], e2⟩

/-! ## T-gen: `trickleDepthInfo` and the conditions of Append / appendFillLastChild / appendRec, regenerated from
the Go source on every run (`extract intsq` → `BoxoModel/Gen/C08.lean`), agree with the model's definitions for
all child counts / widths / depths below 2^63. -/

/-- trickleDepthInfo: both results -/
theorem c08_gen_trickleDepthInfo (n w : Nat) (hn : n < 2 ^ 63) (hw : w < 2 ^ 63) :
    (Gen.C08.trickleDepthInfo_depth (BitVec.ofNat 64 n) (BitVec.ofNat 64 w)).toNat = (trickleDepthInfo n w).1 ∧
    (Gen.C08.trickleDepthInfo_repeatNumber (BitVec.ofNat 64 n) (BitVec.ofNat 64 w)).toNat = (trickleDepthInfo n w).2 := by
  unfold Gen.C08.trickleDepthInfo_depth Gen.C08.trickleDepthInfo_repeatNumber trickleDepthInfo depthRepeat
  simp only [GoSmall.slt n w hn hw]
  by_cases h : n < w
  · simp [h]
  · simp only [h, decide_false, Bool.false_eq_true, if_false]
    rw [GoSmall.sub n w hn (by omega), GoSmall.sdiv4 _ (by omega), GoSmall.srem4 _ (by omega)]
    constructor
    · rw [show (1#64) = BitVec.ofNat 64 1 from rfl, ← BitVec.ofNat_add, GoSmall.toNat_ofNat _ (by omega)]
    · rw [GoSmall.toNat_ofNat _ (by omega)]

/-- appendFillLastChild returns at once iff `NumChildren() <= Maxlinks()` -/
theorem c08_gen_appendFillLastChild_skip (n w : Nat) (hn : n < 2 ^ 63) (hw : w < 2 ^ 63) :
    Gen.C08.appendFillLastChildSkip (BitVec.ofNat 64 w) (BitVec.ofNat 64 n) = decide (n ≤ w) := by
  simp [Gen.C08.appendFillLastChildSkip, GoSmall.sle n w hn hw]

/-- the group-completion loop of appendFillLastChild runs while `repeatNumber < depthRepeat && !db.Done()` -/
theorem c08_gen_group_loop (r : Nat) (done : Bool) (hr : r < 2 ^ 63) :
    Gen.C08.appendFillGroupLoopCond done (BitVec.ofNat 64 r) = (decide (r < depthRepeat) && !done) := by
  simp only [Gen.C08.appendFillGroupLoopCond, depthRepeat]
  rw [show (4#64) = BitVec.ofNat 64 4 from rfl, GoSmall.slt r 4 hr (by omega)]; rfl

/-- the depth bump after appendFillLastChild (the line the fix changed): `repeatNumber != 0 && !db.Done()` is
`bumpDepth`'s test -/
theorem c08_gen_depth_bump (rep depth : Nat) (db : DB) (hr : rep < 2 ^ 63) :
    (bumpDepth rep depth db).2 =
      if Gen.C08.appendDepthBump db.done.2 (BitVec.ofNat 64 rep) then depth + 1 else depth := by
  have e : (BitVec.ofNat 64 rep != 0#64) = decide (rep ≠ 0) := by
    by_cases h : rep = 0
    · subst h; simp
    · simp only [ne_eq, h, not_false_eq_true, decide_true, bne_iff_ne]
      intro e
      have := congrArg BitVec.toNat e
      rw [GoSmall.toNat_ofNat _ hr] at this
      simp at this; exact h this
  unfold bumpDepth Gen.C08.appendDepthBump
  rw [e]
  by_cases h : rep = 0
  · simp [h]
  · cases hd : db.done.2 <;> simp [h, hd]

/-- appendRec: stops at once iff `maxDepth == 0 || db.Done()`; its depth loop runs while `i < maxDepth && !db.Done()` -/
theorem c08_gen_appendRec_conds (i : Nat) (m : Int) (done : Bool) (hi : i < 2 ^ 63)
    (hm : -(2 ^ 63 : Int) ≤ m) (hm' : m < 2 ^ 63) :
    Gen.C08.appendRecStop done (BitVec.ofInt 64 m) = (decide (m = 0) || done) ∧
    Gen.C08.appendRecDepthLoopCond done (BitVec.ofNat 64 i) (BitVec.ofInt 64 m) = (decide ((i : Int) < m) && !done) := by
  constructor
  · have e : (BitVec.ofInt 64 m == 0#64) = decide (m = 0) := by
      by_cases h : m = 0
      · subst h; simp
      · simp only [h, decide_false, beq_eq_false_iff_ne, ne_eq]
        intro e
        have := congrArg BitVec.toInt e
        simp only [BitVec.toInt_ofInt] at this
        have h1 : m.bmod (2 ^ 64) = m := by apply Int.bmod_eq_of_le <;> omega
        rw [h1] at this
        simp at this; exact h this
    simp only [Gen.C08.appendRecStop, e]
  · simp only [Gen.C08.appendRecDepthLoopCond, GoSmall.slt_int i m hi hm hm']

/-! ## Non-vacuity -/

private def b (n : Nat) : Chunk := [UInt8.ofNat n]

/-- width 2, base of 11 chunks (root: 2 leaves, 4 sub-graphs of depth 1, one of depth 2): the hypotheses hold -/
example : (trickleLayout { w := 2 } ((List.range 11).map b)).map (fun o₁ =>
    (wellSized o₁.root, tshape 2 (-1) o₁.root, height o₁.root)) = some (true, true, 2) := by decide +kernel
/-- … append 9 more chunks: content, sizes and shape as claimed, the tree is 3 levels deep -/
example : ((trickleLayout { w := 2 } ((List.range 11).map b)).bind fun o₁ =>
    (append 2 o₁.root ((List.range 9).map fun i => b (100 + i))).map fun o₂ =>
      (size o₂.root, wellSized o₂.root && tshape 2 (-1) o₂.root, height o₂.root, (content o₂.root).take 12))
    = some (20, true, 3, [0, 1, 2, 3, 4, 5, 6, 7, 8, 9, 10, 100]) := by
  decide +kernel

/-- the witness of the defect that was fixed: width 2, 2 chunks, append 3 — now equal to a fresh layout of 5 -/
example : ((trickleLayout { w := 2 } [b 1, b 2]).bind fun o₁ => (append 2 o₁.root [b 3, b 4, b 5]).map
    fun o₂ => (tshape 2 (-1) o₂.root, content o₂.root)) = some (true, [1, 2, 3, 4, 5]) := by decide +kernel

end C08
