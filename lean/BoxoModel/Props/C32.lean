import BoxoModel.C32.Lemmas
import BoxoModel.C32.Base32
/-!
# C32 — subdomain and DNSLink addressing preserve content identity

Property theorems only (helper lemmas are in `BoxoModel/C32/Lemmas.lean`).
The CID / peer-ID codecs (`cid.Decode`, `Cid.StringOfBase`, `peer.Decode`), the DNSLink predicate
(`hasDNSLinkRecord`) and net/url's host check are PARAMETERS (`Env`): every theorem holds for all of
them, with the few facts it needs about them stated as hypotheses on the strings at hand.
`handle true true` / `toSubdomainURL true` is the code after the two `fix:` commits (fragment kept in
redirects; canonical-CID test on the effective host); a `false` argument is the tree before the respective fix.
-/
namespace C32

/-! ## the label codec -/

/-- **Un-inlining inverts inlining** for every name in which no label except possibly the first is
empty or starts with a hyphen (`inlineSafe`: after each `.` comes a byte other than `.` and `-`). -/
theorem c32_inline_rt (s : Bytes) (h : inlineSafe s = true) : uninlineDNSLink (inlineRaw s) = s :=
  uninline_inlineRaw s h

/-- …in particular for every RFC 1035/1123 host name (labels non-empty, not starting with `-`), through
the real entry point `InlineDNSLink` (which may refuse a label longer than 63). -/
theorem c32_inline_rt_rfc (s l : Bytes)
    (hvalid : ∀ lab ∈ splitOn 46 s, lab ≠ [] ∧ lab.head? ≠ some 45)
    (hl : inlineDNSLink s = some l) : uninlineDNSLink l = s := by
  have hs : inlineSafe s = true :=
    inlineSafe_of_tail_labels s (fun lab hlab => hvalid lab (List.mem_of_mem_tail hlab))
  unfold inlineDNSLink at hl
  simp only [] at hl
  split at hl
  · simp at hl
  · simp at hl; subst hl; exact uninline_inlineRaw s hs

/-- The hypothesis is necessary: `a.-b` and `a-.b` inline to the same label `a---b`, which
un-inlines to `a-.b`; likewise `a..b` and `a-b` both give `a--b`. -/
theorem c32_inline_counterexample :
    inlineRaw [97, 46, 45, 98] = inlineRaw [97, 45, 46, 98] ∧
    uninlineDNSLink (inlineRaw [97, 46, 45, 98]) = [97, 45, 46, 98] ∧
    inlineSafe [97, 46, 45, 98] = false ∧
    uninlineDNSLink (inlineRaw [97, 46, 46, 98]) = [97, 45, 98] := by decide

/-- **Inlining inverts un-inlining** on every dot-free label: the host → name direction is injective,
and re-inlining the un-inlined name gives back the label the client used. -/
theorem c32_uninline_rt (l : Bytes) (h : 46 ∉ l) : inlineRaw (uninlineDNSLink l) = l :=
  inlineRaw_uninline l h

/-- **Label length**: a label produced by InlineDNSLink or toDNSLabel has at most 63 bytes
(otherwise an error is returned). -/
theorem c32_label_len (s a b l : Bytes) :
    (inlineDNSLink s = some l → l.length ≤ 63) ∧ (toDNSLabel a b = some l → l.length ≤ 63) := by
  constructor
  · intro h
    unfold inlineDNSLink at h
    simp only [dnsLabelMaxLength] at h
    by_cases hgt : (inlineRaw s).length > 63
    · simp [hgt] at h
    · simp [hgt] at h; subst h; omega
  · intro h
    unfold toDNSLabel at h
    simp only [dnsLabelMaxLength] at h
    by_cases ha : a.length ≤ 63
    · simp [ha] at h; subst h; exact ha
    · by_cases hb : b.length ≤ 63
      · simp [ha, hb] at h; subst h; exact hb
      · simp [ha, hb] at h

/-- **Label characters**: an inlined label has no `.`, and every byte of it is `-` or a byte of the name. -/
theorem c32_inline_chars (s l : Bytes) (h : inlineDNSLink s = some l) :
    46 ∉ l ∧ ∀ x ∈ l, x = 45 ∨ x ∈ s := by
  unfold inlineDNSLink at h
  simp only [] at h
  split at h
  · simp at h
  · simp at h; subst h
    exact ⟨not_dot_mem_inlineRaw s, fun x hx => mem_inlineRaw s hx⟩

/-! ## path → subdomain URL → path -/

/-- `rq` is a request a client (possibly through a reverse proxy that moves the public host into
X-Forwarded-Host) sends when it follows the redirect to `u` -/
def Follows (rq : Req) (u : URL) : Prop := effectiveHost rq = u.host ∧ rq.path = u.path ∧ rq.uri = .absent

/-- the plain case: Host = Location host, no X-Forwarded-Host -/
def follow (u : URL) : Req :=
  { host := u.host, path := u.path, rawQuery := u.rawQuery, fragment := [], https := u.https }

theorem follows_follow (u : URL) : Follows (follow u) u := ⟨rfl, rfl, rfl⟩

/-- the configuration facts the round trip needs: `gwHost` is a known subdomain gateway, no proper
label-suffix of it is a gateway of its own, the subdomain host itself is not configured as a
gateway, and the gateway serves `/ns/<label>` -/
structure Serves (cfg : Config) (gwHost : Bytes) (gw : GW) (ns label : Bytes) : Prop where
  known : isKnownHostname cfg gwHost = some gw
  useSubdomains : gw.useSubdomains = true
  noSuffixGateway : ∀ k, 0 < k → k < (splitOn 46 gwHost).length →
    isKnownHostname cfg (join 46 ((splitOn 46 gwHost).drop k)) = none
  subdomainNotGateway : isKnownHostname cfg (label ++ 46 :: (ns ++ 46 :: gwHost)) = none
  servesPath : hasPathPrefix (47 :: ns ++ 47 :: label) gw.paths = true

/-- **Round trip, CIDs and peer IDs.** A request `/ns/id[/rest]?query#fragment` whose `id` (after the
peer-ID normalisation of /ipns and /p2p) decodes as a CID with multihash `mh` is redirected to
`scheme://L.ns.gwHost/rest?query#fragment` where `L` is the DNS label chosen by toDNSLabel (≤ 63 bytes);
the request a client then sends reaches the next handler with the path `/ns/L/rest` and the same query,
and `L` denotes the same multihash (and the libp2p-key codec in the peer-ID namespaces).
Hypotheses on the parameters: `L` decodes to the CID it was encoded from, has no dot and is not empty;
url.Parse accepts it. -/
theorem c32_roundtrip_cid (env : Env) (cfg : Config) (gwHost ns id : Bytes) (rest : Option Bytes) (r : Req)
    (gw : GW) (c : Cid) (L : Bytes)
    (hns : isSubdomainNamespace ns = true) (h1 : 47 ∉ ns) (h2 : 47 ∉ id) (hdot : 46 ∉ ns)
    (hd : env.codecs.decode (normalizePeerID env ns id) = some c)
    (hL : toDNSLabel
        (env.codecs.enc (isPeerIDNamespace ns) (if isPeerIDNamespace ns then libp2pKey else c.codec) c.mh)
        (env.codecs.enc true (if isPeerIDNamespace ns then libp2pKey else c.codec) c.mh) = some L)
    (hdecL : env.codecs.decode L = some ⟨1, if isPeerIDNamespace ns then libp2pKey else c.codec, c.mh⟩)
    (hne : L ≠ []) (hu : env.urlHostOK L = true)
    (hcfg : Serves cfg gwHost gw ns L) :
    ∃ u, toSubdomainURL true env gwHost (47 :: (ns ++ 47 :: (id ++ tailOf rest))) r gw.inlineDNSLink = .to u ∧
      u.host = L ++ 46 :: (ns ++ 46 :: gwHost) ∧ L.length ≤ 63 ∧
      u.path = locationPath (rest.getD []) ∧ u.rawQuery = r.rawQuery ∧ u.fragment = r.fragment ∧
      u.https = r.https ∧
      (∀ rq, Follows rq u → handle true true env cfg rq = .next ((47 :: ns ++ 47 :: L) ++ u.path) (.subdomain gwHost)) ∧
      (∃ c', env.codecs.decode L = some c' ∧ c'.mh = c.mh ∧
        (isPeerIDNamespace ns = true → c'.codec = libp2pKey)) := by
  have hlen : L.length ≤ 63 := (c32_label_len [] _ _ L).2 hL
  refine ⟨{ https := r.https, host := L ++ 46 :: (ns ++ 46 :: gwHost), path := locationPath (rest.getD []),
            rawQuery := r.rawQuery, fragment := r.fragment }, ?_, rfl, hlen, rfl, rfl, rfl, rfl, ?_, ?_⟩
  · rw [toSubdomainURL_split true env gwHost ns id rest r _ h1 h2]
    rw [subdomainURLOf_cid true env gwHost r _ ns id _ hns c L hd hL hne hu]
    simp
  · have hksd := knownSubdomainDetails_hit cfg L ns gwHost gw hcfg.known hns hdot hcfg.noSuffixGateway
    intro rq hf
    have := handle_subdomain_cid true env cfg gwHost ns L rq gw _ hf.1 hcfg.subdomainNotGateway hksd
      hcfg.useSubdomains hcfg.servesPath hdecL hlen (by intro hp; simp [hp])
    rw [handle_absent _ _ _ _ _ hf.2.2, this, hf.2.1]
  · exact ⟨_, hdecL, rfl, by intro hp; simp [hp]⟩

/-- **Round trip for /ipfs and /ipld with the base32 codec proved, not assumed.** When the gateway's base32
functions are the concrete ones (`enc32` / `decode32`: multibase `b`, RFC 4648 lower-case base32 of
`varint 1 ++ varint codec ++ multihash`, proved inverse of each other with Lib/BaseN + Lib/Varint) on the label at
hand and the label fits in 63 bytes, the conclusion of `c32_roundtrip_cid` holds without any hypothesis on the
codec: the redirect goes to `<base32 CIDv1>.ns.gw` and comes back as `/ns/<base32 CIDv1>/rest` with the same
multihash. (Base36 — /ipns, /p2p and over-long labels — stays a parameter.) -/
theorem c32_roundtrip_cid_base32 (env : Env) (cfg : Config) (gwHost ns id : Bytes) (rest : Option Bytes) (r : Req)
    (gw : GW) (c : Cid)
    (hns : isSubdomainNamespace ns = true) (hnp : isPeerIDNamespace ns = false)
    (h1 : 47 ∉ ns) (h2 : 47 ∉ id) (hdot : 46 ∉ ns)
    (hd : env.codecs.decode id = some c) (hmh : ∀ b ∈ c.mh, b < 256)
    (henc : env.codecs.enc false c.codec c.mh = enc32 c.codec c.mh)
    (hdec : env.codecs.decode (enc32 c.codec c.mh) = decode32 (enc32 c.codec c.mh))
    (hfit : (enc32 c.codec c.mh).length ≤ 63) (hu : env.urlHostOK (enc32 c.codec c.mh) = true)
    (hcfg : Serves cfg gwHost gw ns (enc32 c.codec c.mh)) :
    ∃ u, toSubdomainURL true env gwHost (47 :: (ns ++ 47 :: (id ++ tailOf rest))) r gw.inlineDNSLink = .to u ∧
      u.host = enc32 c.codec c.mh ++ 46 :: (ns ++ 46 :: gwHost) ∧
      u.path = locationPath (rest.getD []) ∧ u.rawQuery = r.rawQuery ∧ u.fragment = r.fragment ∧
      (∀ rq, Follows rq u →
        handle true true env cfg rq = .next ((47 :: ns ++ 47 :: enc32 c.codec c.mh) ++ u.path) (.subdomain gwHost)) ∧
      env.codecs.decode (enc32 c.codec c.mh) = some ⟨1, c.codec, c.mh⟩ := by
  have hdecL : env.codecs.decode (enc32 c.codec c.mh) = some ⟨1, c.codec, c.mh⟩ := by
    rw [hdec]; exact decode32_enc32' c.codec c.mh hmh
  have hnorm : normalizePeerID env ns id = id := by simp [normalizePeerID, hnp]
  have hL : toDNSLabel (env.codecs.enc (isPeerIDNamespace ns) (if isPeerIDNamespace ns then libp2pKey else c.codec) c.mh)
      (env.codecs.enc true (if isPeerIDNamespace ns then libp2pKey else c.codec) c.mh) = some (enc32 c.codec c.mh) := by
    simp [hnp, henc, toDNSLabel, dnsLabelMaxLength, hfit]
  obtain ⟨u, hu1, hu2, _, hu4, hu5, hu6, _, hu8, _⟩ :=
    c32_roundtrip_cid env cfg gwHost ns id rest r gw c (enc32 c.codec c.mh) hns h1 h2 hdot
      (by rw [hnorm]; exact hd) hL (by simpa [hnp] using hdecL) (enc32_no_dot c.codec c.mh).2.2 hu hcfg
  exact ⟨u, hu1, hu2, hu4, hu5, hu6, hu8, hdecL⟩

/-- **Round trip, DNSLink names (inlined).** A request `/ipns/name[/rest]` for a fully qualified name
(contains a dot) with a DNSLink record, on a gateway that inlines (InlineDNSLink or an HTTPS request),
whose labels are RFC-valid (`inlineSafe`) and whose inlined form fits in 63 bytes, is redirected to
`scheme://<inlined>.ipns.gwHost/rest`; the subdomain request reaches the next handler with
`/ipns/name/rest`: the same DNSLink name. (`name` and its inlined form are not CIDs / peer IDs.) -/
theorem c32_roundtrip_dnslink_inlined (env : Env) (cfg : Config) (gwHost name : Bytes) (rest : Option Bytes)
    (r : Req) (gw : GW)
    (h2 : 47 ∉ name) (hfq : 46 ∈ name) (hsafe : inlineSafe name = true)
    (hnp : env.codecs.peerCid name = none) (hnc : env.codecs.decode name = none)
    (hnc' : env.codecs.decode (inlineRaw name) = none)
    (hrec : env.hasDNSLink name = true) (hinl : (gw.inlineDNSLink || r.https) = true)
    (hfit : (inlineRaw name).length ≤ 63) (hu : env.urlHostOK (inlineRaw name) = true)
    (hcfg : Serves cfg gwHost gw IPNS (inlineRaw name)) :
    ∃ u, toSubdomainURL true env gwHost (47 :: (IPNS ++ 47 :: (name ++ tailOf rest))) r gw.inlineDNSLink = .to u ∧
      u.host = inlineRaw name ++ 46 :: (IPNS ++ 46 :: gwHost) ∧
      u.path = locationPath (rest.getD []) ∧ u.rawQuery = r.rawQuery ∧ u.fragment = r.fragment ∧
      (∀ rq, Follows rq u → handle true true env cfg rq = .next (ipnsSlash ++ name ++ u.path) (.subdomain gwHost)) := by
  have hns : isSubdomainNamespace IPNS = true := by decide
  have h1 : 47 ∉ IPNS := by decide
  have hdot : 46 ∉ IPNS := by decide
  have hc46 : contains 46 name = true := contains_iff.mpr hfq
  have hne : inlineRaw name ≠ [] := by
    intro h; rw [inlineRaw_eq_nil] at h; subst h; simp at hfq
  have hurl : toSubdomainURL true env gwHost (47 :: (IPNS ++ 47 :: (name ++ tailOf rest))) r gw.inlineDNSLink =
      .to { https := r.https, host := inlineRaw name ++ 46 :: IPNS ++ 46 :: gwHost,
            path := locationPath (rest.getD []), rawQuery := r.rawQuery, fragment := r.fragment } := by
    rw [toSubdomainURL_split true env gwHost IPNS name rest r _ h1 h2]
    unfold subdomainURLOf normalizePeerID
    have hp : isPeerIDNamespace IPNS = true := by decide
    have hil : inlineDNSLink name = some (inlineRaw name) := by
      simp [inlineDNSLink, dnsLabelMaxLength]; omega
    have hemp : (inlineRaw name).isEmpty = false := by
      cases h : inlineRaw name with
      | nil => exact absurd h hne
      | cons _ _ => rfl
    simp only [hns, hp, hnp, hnc, hc46, hrec, hinl, hil, hemp, hu, Bool.not_true, Bool.false_eq_true,
      ↓reduceIte, Bool.and_false, Bool.false_and, beq_self_eq_true, Bool.and_self, Bool.and_true]
  refine ⟨_, hurl, by simp, rfl, rfl, rfl, ?_⟩
  have hksd := knownSubdomainDetails_hit cfg (inlineRaw name) IPNS gwHost gw hcfg.known hns hdot hcfg.noSuffixGateway
  intro rq hf
  have hh := handle_subdomain_name true true env cfg gwHost (inlineRaw name) rq gw (by rw [hf.1]; simp)
    hcfg.subdomainNotGateway hksd hcfg.useSubdomains hcfg.servesPath hnc'
  have hnd : contains 46 (inlineRaw name) = false := contains_false.mpr (not_dot_mem_inlineRaw name)
  have hda : contains 45 (inlineRaw name) = true := contains_iff.mpr (dash_mem_inlineRaw name hfq)
  rw [uninline_inlineRaw name hsafe] at hh
  simp only [hnd, hda, hrec, Bool.not_false, Bool.and_self, ↓reduceIte] at hh
  rw [handle_absent _ _ _ _ _ hf.2.2, hh, hf.2.1]

/-- **Round trip, DNSLink names (not inlined).** When the name is kept as it is (no inlining on this
gateway and plain HTTP, or no DNSLink record for it) the redirect goes to `name.ipns.gwHost` and the
subdomain request comes back as `/ipns/name/rest`. -/
theorem c32_roundtrip_dnslink_plain (env : Env) (cfg : Config) (gwHost name : Bytes) (rest : Option Bytes)
    (r : Req) (gw : GW)
    (h2 : 47 ∉ name) (hfq : 46 ∈ name)
    (hnp : env.codecs.peerCid name = none) (hnc : env.codecs.decode name = none)
    (hplain : (gw.inlineDNSLink || r.https) = false ∨ env.hasDNSLink name = false)
    (hu : env.urlHostOK name = true)
    (hcfg : Serves cfg gwHost gw IPNS name) :
    ∃ u, toSubdomainURL true env gwHost (47 :: (IPNS ++ 47 :: (name ++ tailOf rest))) r gw.inlineDNSLink = .to u ∧
      u.host = name ++ 46 :: (IPNS ++ 46 :: gwHost) ∧
      u.path = locationPath (rest.getD []) ∧ u.rawQuery = r.rawQuery ∧ u.fragment = r.fragment ∧
      (∀ rq, Follows rq u → handle true true env cfg rq = .next ((47 :: IPNS ++ 47 :: name) ++ u.path) (.subdomain gwHost)) := by
  have hns : isSubdomainNamespace IPNS = true := by decide
  have h1 : 47 ∉ IPNS := by decide
  have hdot : 46 ∉ IPNS := by decide
  have hc46 : contains 46 name = true := contains_iff.mpr hfq
  have hemp : name.isEmpty = false := by cases name <;> simp_all
  have hurl : toSubdomainURL true env gwHost (47 :: (IPNS ++ 47 :: (name ++ tailOf rest))) r gw.inlineDNSLink =
      .to { https := r.https, host := name ++ 46 :: IPNS ++ 46 :: gwHost,
            path := locationPath (rest.getD []), rawQuery := r.rawQuery, fragment := r.fragment } := by
    rw [toSubdomainURL_split true env gwHost IPNS name rest r _ h1 h2]
    unfold subdomainURLOf normalizePeerID
    have hp : isPeerIDNamespace IPNS = true := by decide
    have hni : (IPNS == IPFS) = false := by decide
    rcases hplain with hpl | hpl
    · simp only [hns, hp, hnp, hnc, hc46, hpl, hemp, hu, hni, Bool.not_true, Bool.false_eq_true,
        ↓reduceIte, Bool.and_false, Bool.false_and, beq_self_eq_true, Bool.and_self, Bool.and_true]
    · cases hi : (gw.inlineDNSLink || r.https) <;>
        simp only [hns, hp, hnp, hnc, hc46, hpl, hi, hemp, hu, hni, Bool.not_true, Bool.false_eq_true,
          ↓reduceIte, Bool.and_false, Bool.false_and, beq_self_eq_true, Bool.and_self, Bool.and_true]
  refine ⟨_, hurl, by simp, rfl, rfl, rfl, ?_⟩
  have hksd := knownSubdomainDetails_hit cfg name IPNS gwHost gw hcfg.known hns hdot hcfg.noSuffixGateway
  intro rq hf
  have hh := handle_subdomain_name true true env cfg gwHost name rq gw (by rw [hf.1]; simp)
    hcfg.subdomainNotGateway hksd hcfg.useSubdomains hcfg.servesPath hnc
  simp only [hc46, Bool.not_true, Bool.false_and, Bool.false_eq_true, ↓reduceIte] at hh
  rw [handle_absent _ _ _ _ _ hf.2.2, hh, hf.2.1]

/-- **The remainder.** The path a client sends after the redirect is `/rest`: exactly the tail of the
original path when that tail is `/` or `/rest` with `rest` not starting with a slash (a bare `/ns/id`
gets a trailing slash). -/
theorem c32_remainder (rest : Bytes) (h : rest.head? ≠ some 47) :
    locationPath rest = tailOf (some rest) ∧ locationPath [] = [47] := by
  constructor
  · cases rest with
    | nil => simp [locationPath, tailOf]
    | cons c t =>
      have hc : c ≠ 47 := by intro he; apply h; simp [he]
      simp only [locationPath, tailOf]
      split
      · rename_i heq; simp at heq
      · rename_i heq; simp at heq; exact absurd heq.1 hc
      · rfl
  · rfl

/-- `/ns/id//x` comes back as `/ns/id/x`: one empty path segment right after the id is dropped
(content paths are cleaned by path.NewPath afterwards, so the content is the same). -/
theorem c32_remainder_counterexample : locationPath [47, 120] = [47, 120] ∧ tailOf (some [47, 120]) = [47, 47, 120] := by
  decide

/-- Before the fix the fragment of the request never reached the Location header
(`u.RawFragment` was copied, `u.Fragment` was not, so URL.String dropped it). -/
theorem c32_unfixed_fragment_dropped (env : Env) (gwHost : Bytes) (r : Req) (inl : Bool) (ns id rest : Bytes) (u : URL)
    (h : subdomainURLOf false env gwHost r inl ns id rest = .to u) : u.fragment = [] := by
  unfold subdomainURLOf at h
  simp only [] at h
  repeat' split at h
  all_goals first | (simp at h; done) | (simp_all; done) | (simp at h; subst h; simp)


/-- **A single-label name with its own DNSLink record keeps its name.** On `<label>.ipns.<gw>` where `label` is not a
CID, the content path is `/ipns/<un-inlined label>` when the un-inlined FQDN has a DNSLink record, and
`/ipns/<label>` itself when only the literal label has one (hyphenated single-label names are not renamed). -/
theorem c32_subdomain_label_dnslink_name (env : Env) (cfg : Config) (gwHost label : Bytes) (rq : Req) (gw : GW)
    (heff : effectiveHost rq = label ++ 46 :: (IPNS ++ 46 :: gwHost)) (huri : rq.uri = .absent)
    (hnc : env.codecs.decode label = none) (hcfg : Serves cfg gwHost gw IPNS label) :
    (env.hasDNSLink (uninlineDNSLink label) = true → 46 ∉ label → 45 ∈ label →
      handle true true env cfg rq = .next (ipnsSlash ++ uninlineDNSLink label ++ rq.path) (.subdomain gwHost)) ∧
    (env.hasDNSLink (uninlineDNSLink label) = false → env.hasDNSLink label = true →
      handle true true env cfg rq = .next ((47 :: IPNS ++ 47 :: label) ++ rq.path) (.subdomain gwHost)) := by
  have hns : isSubdomainNamespace IPNS = true := by decide
  have hdot : 46 ∉ IPNS := by decide
  have hksd := knownSubdomainDetails_hit cfg label IPNS gwHost gw hcfg.known hns hdot hcfg.noSuffixGateway
  have hh := handle_subdomain_name true true env cfg gwHost label rq gw heff hcfg.subdomainNotGateway hksd
    hcfg.useSubdomains hcfg.servesPath hnc
  rw [handle_absent _ _ _ _ _ huri, hh]
  constructor
  · intro h1 h2 h3
    simp [contains_false.mpr h2, contains_iff.mpr h3, h1]
  · intro h1 h2
    cases hc : (!contains 46 label && contains 45 label) <;> simp [h1, h2]

/-! ## host → DNSLink content path -/

/-- **A DNSLink host is served under its DNSLink name.** Whenever a request is handed to the next handler as a
DNSLink site (known-gateway branch and unknown-hostname branch alike), the host in the context is the effective
host (Host, or X-Forwarded-Host), a DNSLink record was found for it, and the content path is
`/ipns/<host without its port><request path>`: the name the record was looked up under. -/
theorem c32_dnslink_host_name (kf ch : Bool) (env : Env) (cfg : Config) (r : Req) (p h : Bytes)
    (hn : handle kf ch env cfg r = .next p (.dnslink h)) :
    h = effectiveHost r ∧ env.hasDNSLink h = true ∧ p = ipnsSlash ++ stripPort h ++ r.path := by
  unfold handle at hn
  split at hn
  · cases hn
  · split at hn <;> cases hn
  unfold handleHost at hn
  simp only [] at hn
  repeat' split at hn
  all_goals first
    | (simp at hn; done)
    | (simp only [Out.next.injEq, Ctx.dnslink.injEq] at hn; obtain ⟨rfl, rfl⟩ := hn; simp_all; done)
    | (subst hn; rename_i hq; exact absurd hq (redir_opt_not_next _ _ _ _))
    | (cases hn; simp_all; done)

/-- **A subdomain host is served under the id it carries.** Whenever a request is handed to the next handler in
subdomain mode, the host was `<rootID>.<ns>.<gateway>` for a known gateway, and if `rootID` is a CID (in ANY
spelling: CIDv0 `Qm…`, other bases — there is no canonical redirect when the label already fits in 63 bytes and
the Host header starts with it) the content path is `/ns/rootID/<request path>`: literally the same CID string,
hence the same content. (Origin isolation / case-folding of such hosts by browsers is not part of this property.) -/
theorem c32_subdomain_host_identity (kf ch : Bool) (env : Env) (cfg : Config) (r : Req) (p g : Bytes)
    (hn : handle kf ch env cfg r = .next p (.subdomain g)) :
    ∃ gw ns rootID, knownSubdomainDetails cfg (effectiveHost r) = some (gw, g, ns, rootID) ∧
      (∀ c, env.codecs.decode rootID = some c → p = (47 :: ns ++ 47 :: rootID) ++ r.path) := by
  unfold handle at hn
  split at hn
  · cases hn
  · split at hn <;> cases hn
  unfold handleHost at hn
  simp only [] at hn
  cases hk : isKnownHostname cfg (effectiveHost r) with
  | some gw =>
    simp only [hk] at hn
    repeat' split at hn
    all_goals cases hn
  | none =>
    simp only [hk] at hn
    cases hs : knownSubdomainDetails cfg (effectiveHost r) with
    | none =>
      simp only [hs] at hn
      split at hn <;> cases hn
    | some x =>
      obtain ⟨gw, gwHost, ns, rootID⟩ := x
      simp only [hs] at hn
      split at hn
      · cases hn
      · cases hd : env.codecs.decode rootID with
        | none =>
          simp only [hd] at hn
          simp only [Out.next.injEq, Ctx.subdomain.injEq] at hn
          obtain ⟨_, rfl⟩ := hn
          exact ⟨gw, ns, rootID, rfl, by intro c hc; rw [hd] at hc; cases hc⟩
        | some c =>
          simp only [hd] at hn
          split at hn
          · cases hn
          · rcases opt_out_next_eq hn with h1 | ⟨_, h2⟩
            · exact absurd h1 (redir_opt_not_next _ _ _ _)
            · rcases opt_out_next_eq h2 with h3 | ⟨_, h4⟩
              · exact absurd h3 (redir_opt_not_next _ _ _ _)
              · simp only [Out.next.injEq, Ctx.subdomain.injEq] at h4
                obtain ⟨rfl, rfl⟩ := h4
                exact ⟨gw, ns, rootID, rfl, by intro c' _; rfl⟩

/-- **`?uri=` (registerProtocolHandler) redirect.** A request that carries a `uri` query parameter is answered
before any host logic: 400 when the value does not parse or its scheme is not ipfs / ipns, else 301 to the path
`gopath.Join("/", scheme, host, escaped path[?query])` (a parameter: the harness checks it is
`/<scheme>/<host><path>` for clean inputs). -/
theorem c32_uri_redirect (kf ch : Bool) (env : Env) (cfg : Config) (r : Req) :
    (r.uri = .unparsable → handle kf ch env cfg r = .badRequest) ∧
    (∀ scheme joined, r.uri = .parsed scheme joined →
      handle kf ch env cfg r = if scheme = IPFSscheme ∨ scheme = IPNSscheme then .redirectPath joined else .badRequest) := by
  constructor
  · intro h; unfold handle; rw [h]
  · intro scheme joined h
    unfold handle; rw [h]
    by_cases h1 : scheme = IPFSscheme
    · simp [h1]
    · by_cases h2 : scheme = IPNSscheme
      · simp [h2]
      · simp [h1, h2]

/-! ## non-vacuity: a concrete gateway, a toy codec table, and the two steps evaluated -/

namespace Example

def gw : GW := { paths := [[47, 105, 112, 102, 115], [47, 105, 112, 110, 115]], useSubdomains := true, noDNSLink := false, inlineDNSLink := true }
/-- PublicGateways = {"dweb.link": gw} -/
def cfg : Config := { exact := [([100, 119, 101, 98, 46, 108, 105, 110, 107], gw)], wildcard := [], noDNSLink := false }
def dweb : Bytes := [100, 119, 101, 98, 46, 108, 105, 110, 107]
def bafy : Bytes := [98, 97, 102, 121]
def name : Bytes := [101, 110, 46, 119, 105, 107, 105, 45, 120, 46, 111, 114, 103]
/-- a table in which `Qm` and `bafy` are two spellings of the CID (v1, dag-pb, multihash [1,2]) and
`en.wiki-x.org` has a DNSLink record -/
def env : Env :=
  { codecs :=
      { decode := fun s => if s == bafy then some ⟨1, 0x70, [1, 2]⟩ else if s == [81, 109] then some ⟨0, 0x70, [1, 2]⟩ else none
        enc := fun _ _ _ => bafy
        peerCid := fun _ => none },
    hasDNSLink := fun s => s == name
    urlHostOK := fun _ => true }

def req (path : Bytes) : Req := { host := dweb, path := path, rawQuery := [120, 61, 49], fragment := [102], https := false }

example : Serves cfg dweb gw IPFS bafy :=
  ⟨by decide, by decide, by
    intro k h1 h2
    have : k = 1 := by simp [dweb, splitOn] at h2; omega
    subst this; decide, by decide, by decide⟩

/-- `/ipfs/Qm/a?x=1#f` ⇒ 301 to `http://bafy.ipfs.dweb.link/a?x=1#f` ⇒ next handler sees `/ipfs/bafy/a` -/
example : handle true true env cfg (req [47, 105, 112, 102, 115, 47, 81, 109, 47, 97]) =
    .redirect { https := false, host := [98, 97, 102, 121, 46, 105, 112, 102, 115, 46, 100, 119, 101, 98, 46, 108, 105, 110, 107], path := [47, 97], rawQuery := [120, 61, 49], fragment := [102] } := by
  decide +kernel
example : handle true true env cfg (follow { https := false, host := [98, 97, 102, 121, 46, 105, 112, 102, 115, 46, 100, 119, 101, 98, 46, 108, 105, 110, 107], path := [47, 97], rawQuery := [120, 61, 49], fragment := [102] }) =
    .next [47, 105, 112, 102, 115, 47, 98, 97, 102, 121, 47, 97] (.subdomain dweb) := by
  decide +kernel
/-- `/ipns/en.wiki-x.org/` ⇒ 301 to `en-wiki--x-org.ipns.dweb.link/` ⇒ `/ipns/en.wiki-x.org/` -/
example : handle true true env cfg (req [47, 105, 112, 110, 115, 47, 101, 110, 46, 119, 105, 107, 105, 45, 120, 46, 111, 114, 103, 47]) =
    .redirect { https := false, host := [101, 110, 45, 119, 105, 107, 105, 45, 45, 120, 45, 111, 114, 103, 46, 105, 112, 110, 115, 46, 100, 119, 101, 98, 46, 108, 105, 110, 107], path := [47], rawQuery := [120, 61, 49], fragment := [102] } := by
  decide +kernel
example : handle true true env cfg { host := [101, 110, 45, 119, 105, 107, 105, 45, 45, 120, 45, 111, 114, 103, 46, 105, 112, 110, 115, 46, 100, 119, 101, 98, 46, 108, 105, 110, 107], path := [47], rawQuery := [], fragment := [], https := false } =
    .next [47, 105, 112, 110, 115, 47, 101, 110, 46, 119, 105, 107, 105, 45, 120, 46, 111, 114, 103, 47] (.subdomain dweb) := by
  decide +kernel
/-- the tree before the fix drops the fragment -/
example : handle false true env cfg (req [47, 105, 112, 102, 115, 47, 81, 109, 47, 97]) =
    .redirect { https := false, host := [98, 97, 102, 121, 46, 105, 112, 102, 115, 46, 100, 119, 101, 98, 46, 108, 105, 110, 107], path := [47, 97], rawQuery := [120, 61, 49], fragment := [] } := by
  decide +kernel
/-- a gateway hostname with a DNSLink record, asked with a port (via Host and via X-Forwarded-Host) for a path it
does not handle: served as `/ipns/dweb.link/docs` (port stripped), context host with the port -/
def envGw : Env := { env with hasDNSLink := fun s => s == [100, 119, 101, 98, 46, 108, 105, 110, 107, 58, 56, 48, 56, 48] || s == dweb }
example : handle true true envGw cfg { host := [100, 119, 101, 98, 46, 108, 105, 110, 107, 58, 56, 48, 56, 48], path := [47, 100, 111, 99, 115], rawQuery := [], fragment := [], https := false } =
    .next [47, 105, 112, 110, 115, 47, 100, 119, 101, 98, 46, 108, 105, 110, 107, 47, 100, 111, 99, 115] (.dnslink [100, 119, 101, 98, 46, 108, 105, 110, 107, 58, 56, 48, 56, 48]) := by decide +kernel
example : handle true true envGw cfg { host := [112, 114, 111, 120, 121], xfh := [100, 119, 101, 98, 46, 108, 105, 110, 107, 58, 56, 48, 56, 48], path := [47, 100, 111, 99, 115], rawQuery := [], fragment := [], https := false } =
    .next [47, 105, 112, 110, 115, 47, 100, 119, 101, 98, 46, 108, 105, 110, 107, 47, 100, 111, 99, 115] (.dnslink [100, 119, 101, 98, 46, 108, 105, 110, 107, 58, 56, 48, 56, 48]) := by decide +kernel
/-- Before the fix `self-redirect-x-forwarded-host`: the canonical-CID test looked at the raw Host header, so
behind a proxy that only sets X-Forwarded-Host the canonical subdomain request `bafy.ipfs.dweb.link/a` was
redirected to itself (an endless redirect). -/
theorem c32_unfixed_xfh_self_redirect_counterexample :
    handle true false env cfg { host := [112, 114, 111, 120, 121], xfh := [98, 97, 102, 121, 46, 105, 112, 102, 115, 46, 100, 119, 101, 98, 46, 108, 105, 110, 107], path := [47, 97], rawQuery := [], fragment := [], https := false } =
      .redirect { https := false, host := [98, 97, 102, 121, 46, 105, 112, 102, 115, 46, 100, 119, 101, 98, 46, 108, 105, 110, 107], path := [47, 97], rawQuery := [], fragment := [] } := by
  decide +kernel
/-- the repaired code serves the same request -/
example : handle true true env cfg { host := [112, 114, 111, 120, 121], xfh := [98, 97, 102, 121, 46, 105, 112, 102, 115, 46, 100, 119, 101, 98, 46, 108, 105, 110, 107], path := [47, 97], rawQuery := [], fragment := [], https := false } =
    .next [47, 105, 112, 102, 115, 47, 98, 97, 102, 121, 47, 97] (.subdomain dweb) := by decide +kernel
example : inlineSafe name = true ∧ 46 ∈ name := by decide

end Example

end C32
