import BoxoModel.C42.Lemmas
import BoxoModel.Props.C25
/-!
# C42 — Delegated routing HTTP applies filters and limits exactly

Property theorems only. Model: `BoxoModel/C42/Model.lean` (loops of routing/http/filters transcribed;
pipelines as C43 iterator shapes). Reference semantics (`protoKeep`, `addrKeep`, `specAddrs`, `specApply`,
`specServe`) and helpers: `BoxoModel/C42/Lemmas.lean`.
All statements hold for every record list (any length, error results included), every filter list, every
limit (≤ 0 included), every `E` (the protocol-name table of go-multiaddr) and arbitrary address
protocol codes.
-/
namespace C42

/-- The filter code (two loops of applyAddrFilter, containsAny/containsProtocol, protocolsAllowed,
applyFilters) equals the IPIP-484 reference predicate. -/
theorem c42_filter_spec (E : Env) (r : Rec) (fa fp : List String) :
    applyFilters E r fa fp = specApply E r fa fp := applyFilters_eq E r fa fp

/-- Only the SET of filter terms matters (order and repetition do not): the client may sort them. -/
theorem c42_filter_order (E : Env) (r : Rec) (fa fa' fp fp' : List String)
    (ha : ∀ x, x ∈ fa ↔ x ∈ fa') (hp : ∀ x, x ∈ fp ↔ x ∈ fp') :
    applyFilters E r fa fp = applyFilters E r fa' fp' := by
  rw [applyFilters_eq, applyFilters_eq]; exact specApply_congr E r ha hp

/-- Server output = `take limit (filterMap keep records)`, in order, for the providers and the peers
pipeline (the JSON and the NDJSON handler build the same iterator; they only pass their own limit). -/
theorem c42_pipeline (E : Env) (fa fp : List String) (recs : List (Option Rec)) (lim : Int) :
    serveProviders E fa fp recs lim = specServe E fa fp recs lim ∧
    servePeers E fa fp recs lim = specServe E fa fp recs lim :=
  ⟨serveProviders_eq E fa fp recs lim, servePeers_eq E fa fp recs lim⟩

/-- limit ≤ 0 means unlimited; a positive limit caps the response and is reached whenever enough records are kept -/
theorem c42_limit_zero (E : Env) (fa fp : List String) (recs : List (Option Rec)) (lim : Int) :
    (lim ≤ 0 → serveProviders E fa fp recs lim = recs.filterMap (keepAt E fa fp)) ∧
    (lim > 0 → (serveProviders E fa fp recs lim).length =
      min lim.toNat (recs.filterMap (keepAt E fa fp)).length) := by
  rw [serveProviders_eq]
  unfold specServe
  constructor
  · intro h; have : ¬ lim > 0 := by omega
    simp [this]
  · intro h; simp [h]

/-- A kept record keeps its identity and protocols; its address list is exactly what the address filter keeps
(untouched when there is no address filter, or when it has no address and `unknown` is a term). -/
theorem c42_addrs_filtered (E : Env) (r r' : Rec) (fa fp : List String)
    (h : applyFilters E r fa fp = some r') :
    r'.id = r.id ∧ r'.protocols = r.protocols ∧ r'.schema = r.schema ∧
    r'.addrs = (if fa.isEmpty || (r.addrs.isEmpty && fa.contains "unknown") then r.addrs
                else r.addrs.filter (addrKeep (posCodes E fa) (negCodes E fa))) ∧
    (r.addrs ≠ [] → fa ≠ [] → r'.addrs ≠ []) := by
  have hs := applyFilters_schema E r r' fa fp h
  refine ⟨hs.2.1, hs.2.2, hs.1, ?_⟩
  rw [applyFilters_eq] at h
  unfold specApply at h
  by_cases h0 : (fa.isEmpty && fp.isEmpty) = true
  · simp only [h0, if_true, Option.some.injEq] at h
    subst h
    have : fa.isEmpty = true := by simp at h0; simp [h0.1]
    rw [this]
    exact ⟨by simp, fun hne _ => hne⟩
  · simp only [h0, Bool.false_eq_true, if_false] at h
    by_cases h1 : (!protoKeep E r.protocols fp) = true
    · simp [h1] at h
    · simp only [h1, Bool.false_eq_true, if_false] at h
      by_cases h2 : (fa.isEmpty || (r.addrs.isEmpty && fa.contains "unknown")) = true
      · simp only [h2, if_true, Option.some.injEq] at h
        subst h
        refine ⟨by rw [if_pos h2], fun hne hfa => hne⟩
      · simp only [h2, Bool.false_eq_true, if_false] at h
        by_cases h3 : (specAddrs E r.addrs fa).isEmpty = true
        · simp [h3] at h
        · simp only [h3, Bool.false_eq_true, if_false, Option.some.injEq] at h
          subst h
          have hfa : fa.isEmpty = false := by
            cases hf : fa.isEmpty <;> simp [hf] at h2 ⊢
          refine ⟨?_, fun _ _ => ?_⟩
          · rw [if_neg h2]; simp [specAddrs, hfa]
          · simpa using h3

/-- The client's local filtering (with its lower-cased filter values, i.e. the lists the server parses out of
the URL) leaves a server response unchanged: filtering is idempotent. -/
theorem c42_client_idempotent (E : Env) (fa fp : List String) (recs : List (Option Rec)) (lim : Int) :
    clientFilter E fa fp (serveProviders E fa fp recs lim) = serveProviders E fa fp recs lim ∧
    clientFilter E fa fp (servePeers E fa fp recs lim) = servePeers E fa fp recs lim := by
  rw [serveProviders_eq, servePeers_eq]
  have : clientFilter E fa fp (specServe E fa fp recs lim) = specServe E fa fp recs lim := by
    apply filterMap_fixed
    intro x hx
    obtain ⟨r, _, hr⟩ := mem_specServe E fa fp recs lim x hx
    exact applyRec_idem E fa fp r x hr
  exact ⟨this, this⟩

/-- Before the fix the client filtered locally with its filter values as given: with the address filter
`TCP` the server (which lower-cases) keeps a record with a tcp address and the client then drops it. -/
theorem c42_unfixed_counterexample :
    let codeOf : String → Nat := fun n => if n == "tcp" then 6 else 0
    let r : Rec := { schema := 0, id := 1, addrs := [{ id := 0, protos := [4, 6] }], protocols := [] }
    serveProviders (asciiEnv codeOf) ["TCP".toLower] [] [some r] 0 = [r] ∧
    clientFilter (asciiEnv codeOf) ["TCP"] [] [r] = [] ∧
    clientFilter (asciiEnv codeOf) (normalizeFilter (asciiEnv codeOf) ["TCP"]) [] [r] = [r] := by
  decide +kernel

/-! ## Deepening: content negotiation, per-format limits, the IPNS PUT / GET decisions -/

/-- Content negotiation (`detectResponseType`): no Accept header ⇒ JSON; an unparsable element ⇒ 400; otherwise
NDJSON iff some element is application/x-ndjson and streaming is enabled, else JSON iff some element is
application/json or */*, else 400. -/
theorem c42_detect (dis : Bool) (accepts : List MT) :
    detectResponseType dis accepts =
      if accepts.isEmpty then some .json
      else if accepts.contains .bad then none
      else if accepts.contains .ndjson && !dis then some .ndjson
      else if accepts.contains .json || accepts.contains .wildcard then some .json
      else none := by
  unfold detectResponseType
  by_cases he : accepts.isEmpty = true
  · simp [he]
  · simp only [he, Bool.false_eq_true, if_false]
    have key : ∀ (l : List MT) (nd js : Bool), detectResponseType.go dis nd js l =
        if l.contains .bad then none
        else if (nd || l.contains .ndjson) && !dis then some .ndjson
        else if js || l.contains .json || l.contains .wildcard then some .json
        else none := by
      intro l
      induction l with
      | nil => intro nd js; simp [detectResponseType.go]
      | cons x r ih =>
        intro nd js
        cases x <;> simp [detectResponseType.go, ih] <;> (cases nd <;> cases js <;> cases dis <;> simp)
    rw [key]; simp

/-- Both endpoints, both formats: a 200 response carries exactly `take limit (filterMap keep records)` where the
limit is the one configured for the NEGOTIATED media type (recordsLimit for JSON, streamingRecordsLimit for
NDJSON), the filters being the parsed query parameters; the two formats differ in nothing else. -/
theorem c42_handler (E : Env) (cfg : SrvCfg) (peers : Bool) (accepts : List MT) (fa fp : String)
    (recs : List (Option Rec)) :
    findHandler E cfg peers accepts fa fp recs =
      match detectResponseType cfg.disableNDJSON accepts with
      | none => (400, none)
      | some .ndjson => (200, some (.ndjson, specServe E (parseFilter E fa) (parseFilter E fp) recs cfg.streamingRecordsLimit))
      | some .json => (200, some (.json, specServe E (parseFilter E fa) (parseFilter E fp) recs cfg.recordsLimit)) := by
  unfold findHandler
  cases detectResponseType cfg.disableNDJSON accepts with
  | none => rfl
  | some m => cases m <;> cases peers <;> simp [serveProviders_eq, servePeers_eq]

/-- PUT /routing/v1/ipns: a record reaches the router ONLY IF the content type, the CID, the name, the decoding and
the validation against the name all succeeded; 200 iff additionally the router accepted it. -/
theorem c42_put_ipns (r : PutReq) :
    ((putStatus r).2 = true ↔ (r.ctOk ∧ r.cidOk ∧ r.nameOk ∧ r.unmarshalOk ∧ r.valid)) ∧
    ((putStatus r).1 = 200 ↔ (r.ctOk ∧ r.cidOk ∧ r.nameOk ∧ r.unmarshalOk ∧ r.valid ∧ r.routerOk)) ∧
    (r.valid = false → (putStatus r).2 = false ∧ (putStatus r).1 ≠ 200) := by
  unfold putStatus
  cases r.ctOk <;> cases r.cidOk <;> cases r.nameOk <;> cases r.unmarshalOk <;> cases r.valid <;> cases r.routerOk <;> simp

/-- the facts of a PUT request whose body decodes to the C25 record `r`, validation done by the C25 model -/
def putReqC25 (C : C25.Crypto) (decode : C25.Bytes → Option C25.Node) (parseTime : C25.Bytes → Option Int) (now : Int)
    (ctOk routerOk : Bool) (name : Option Nat) (r : C25.Record) : PutReq where
  ctOk := ctOk
  cidOk := name.isSome
  nameOk := name.isSome
  unmarshalOk := true
  valid := match name with
    | some n => (match C25.validateWithName C decode parseTime now r n with | .ok _ => true | .error _ => false)
    | none => false
  routerOk := routerOk

/-- The same decision with the C25 model of `ipns.ValidateWithName` plugged in: whatever reaches the router
carries a V2 signature that verifies under a key whose peer ID is the name of the URL, is within the size limit
and has not expired (C25's `c25_valid_implies`). -/
theorem c42_put_ipns_validated (C : C25.Crypto) (hl : C25.InlineLaw C) (decode : C25.Bytes → Option C25.Node)
    (parseTime : C25.Bytes → Option Int) (now : Int) (ctOk routerOk : Bool) (name : Option Nat) (r : C25.Record)
    (hput : (putStatus (putReqC25 C decode parseTime now ctOk routerOk name r)).2 = true) :
    ∃ n pk, name = some n ∧ C.nameOf pk = n ∧
      C.verify pk (C25.sigPrefix ++ r.pb.data) r.pb.sigV2 = true ∧ r.pb.size ≤ C25.maxRecordSize ∧
      ∃ eol, C25.validity parseTime r = .ok eol ∧ now ≤ eol := by
  have := (c42_put_ipns _).1.1 hput
  obtain ⟨_, _, _, _, hvalid⟩ := this
  cases name with
  | none => simp [putReqC25] at hvalid
  | some n =>
    simp only [putReqC25] at hvalid
    cases hv : C25.validateWithName C decode parseTime now r n with
    | error e => simp [hv] at hvalid
    | ok u =>
      obtain ⟨pk, _, h1, h2, h3, _, _, eol, h4, h5⟩ := C25.c25_valid_implies C hl decode parseTime now r n hv
      exact ⟨n, pk, rfl, h1, h2, h3, eol, h4, h5⟩

/-- GET /routing/v1/ipns: the record bytes are served only for an acceptable Accept header, a parsable CID that is
a name, and a record the router has; "not found" is a 200 without record (IPIP-513). -/
theorem c42_get_ipns (acceptOk cidOk nameOk : Bool) (l : Lookup) :
    ((getStatus acceptOk cidOk nameOk l).2 = true ↔ (acceptOk ∧ cidOk ∧ nameOk ∧ l = .found)) ∧
    (acceptOk = false → (getStatus acceptOk cidOk nameOk l).1 = 406) := by
  unfold getStatus
  cases acceptOk <;> cases cidOk <;> cases nameOk <;> cases l <;> simp

/-! Non-vacuity -/
example :
    let codeOf : String → Nat := fun n => if n == "tcp" then 6 else if n == "udp" then 273 else if n == "quic-v1" then 461 else 0
    let a0 : Addr := { id := 0, protos := [4, 6] }
    let a1 : Addr := { id := 1, protos := [4, 273, 461] }
    serveProviders (asciiEnv codeOf) ["!quic-v1", "tcp", "unknown"] ["Transport-Bitswap".toLower, "unknown"]
      [some { schema := 0, id := 1, addrs := [a0, a1], protocols := ["transport-bitswap"] },
       none,
       some { schema := 1, id := 2, addrs := [a1], protocols := ["transport-bitswap"] },
       some { schema := 0, id := 3, addrs := [], protocols := [] },
       some { schema := 0, id := 4, addrs := [a0], protocols := ["transport-ipfs-gateway-http"] },
       some { schema := 0, id := 5, addrs := [a0], protocols := ["TRANSPORT-BITSWAP"] }] 2 =
      [{ schema := 0, id := 1, addrs := [a0], protocols := ["transport-bitswap"] },
       { schema := 0, id := 3, addrs := [], protocols := [] }] := by decide +kernel

end C42
