import BoxoModel.C42.Lemmas
/-!
# C42 — Delegated routing HTTP applies filters and limits exactly

Property theorems only. Model: `BoxoModel/C42/Model.lean` (loops of routing/http/filters transcribed;
pipelines as C43 iterator shapes). Reference semantics (`protoKeep`, `addrKeep`, `specAddrs`, `specApply`,
`specServe`) and helpers: `BoxoModel/C42/Lemmas.lean`.
All statements hold for every record list (any length, error results included), every filter list, every
limit (≤ 0 included), every `codeOf` (the protocol-name table of go-multiaddr) and arbitrary address
protocol codes.
-/
namespace C42

/-- The filter code (two loops of applyAddrFilter, containsAny/containsProtocol, protocolsAllowed,
applyFilters) equals the IPIP-484 reference predicate. -/
theorem c42_filter_spec (codeOf : String → Nat) (r : Rec) (fa fp : List String) :
    applyFilters codeOf r fa fp = specApply codeOf r fa fp := applyFilters_eq codeOf r fa fp

/-- Only the SET of filter terms matters (order and repetition do not): the client may sort them. -/
theorem c42_filter_order (codeOf : String → Nat) (r : Rec) (fa fa' fp fp' : List String)
    (ha : ∀ x, x ∈ fa ↔ x ∈ fa') (hp : ∀ x, x ∈ fp ↔ x ∈ fp') :
    applyFilters codeOf r fa fp = applyFilters codeOf r fa' fp' := by
  rw [applyFilters_eq, applyFilters_eq]; exact specApply_congr codeOf r ha hp

/-- Server output = `take limit (filterMap keep records)`, in order, for the providers and the peers
pipeline (the JSON and the NDJSON handler build the same iterator; they only pass their own limit). -/
theorem c42_pipeline (codeOf : String → Nat) (fa fp : List String) (recs : List (Option Rec)) (lim : Int) :
    serveProviders codeOf fa fp recs lim = specServe codeOf fa fp recs lim ∧
    servePeers codeOf fa fp recs lim = specServe codeOf fa fp recs lim :=
  ⟨serveProviders_eq codeOf fa fp recs lim, servePeers_eq codeOf fa fp recs lim⟩

/-- limit ≤ 0 means unlimited; a positive limit caps the response and is reached whenever enough records are kept -/
theorem c42_limit_zero (codeOf : String → Nat) (fa fp : List String) (recs : List (Option Rec)) (lim : Int) :
    (lim ≤ 0 → serveProviders codeOf fa fp recs lim = recs.filterMap (keepAt codeOf fa fp)) ∧
    (lim > 0 → (serveProviders codeOf fa fp recs lim).length =
      min lim.toNat (recs.filterMap (keepAt codeOf fa fp)).length) := by
  rw [serveProviders_eq]
  unfold specServe
  constructor
  · intro h; have : ¬ lim > 0 := by omega
    simp [this]
  · intro h; simp [h]

/-- A kept record keeps its identity and protocols; its address list is exactly what the address filter keeps
(untouched when there is no address filter, or when it has no address and `unknown` is a term). -/
theorem c42_addrs_filtered (codeOf : String → Nat) (r r' : Rec) (fa fp : List String)
    (h : applyFilters codeOf r fa fp = some r') :
    r'.id = r.id ∧ r'.protocols = r.protocols ∧ r'.schema = r.schema ∧
    r'.addrs = (if fa.isEmpty || (r.addrs.isEmpty && fa.contains "unknown") then r.addrs
                else r.addrs.filter (addrKeep (posCodes codeOf fa) (negCodes codeOf fa))) ∧
    (r.addrs ≠ [] → fa ≠ [] → r'.addrs ≠ []) := by
  have hs := applyFilters_schema codeOf r r' fa fp h
  refine ⟨hs.2.1, hs.2.2, hs.1, ?_⟩
  rw [applyFilters_eq] at h
  unfold specApply at h
  by_cases h0 : (fa.isEmpty && fp.isEmpty) = true
  · simp only [h0, if_true, Option.some.injEq] at h
    subst h
    have : fa.isEmpty = true := by simp at h0; simp [h0.1]
    rw [this]
    exact ⟨by simp, fun hne _ => hne⟩
  · simp only [h0, Bool.false_eq_true, if_false] at h
    by_cases h1 : (!protoKeep r.protocols fp) = true
    · simp [h1] at h
    · simp only [h1, Bool.false_eq_true, if_false] at h
      by_cases h2 : (fa.isEmpty || (r.addrs.isEmpty && fa.contains "unknown")) = true
      · simp only [h2, if_true, Option.some.injEq] at h
        subst h
        refine ⟨by rw [if_pos h2], fun hne hfa => hne⟩
      · simp only [h2, Bool.false_eq_true, if_false] at h
        by_cases h3 : (specAddrs codeOf r.addrs fa).isEmpty = true
        · simp [h3] at h
        · simp only [h3, Bool.false_eq_true, if_false, Option.some.injEq] at h
          subst h
          have hfa : fa.isEmpty = false := by
            cases hf : fa.isEmpty <;> simp [hf] at h2 ⊢
          refine ⟨?_, fun _ _ => ?_⟩
          · rw [if_neg h2]; simp [specAddrs, hfa]
          · simpa using h3

/-- The client's local filtering (with its lower-cased filter values, i.e. the lists the server parses out of
the URL) leaves a server response unchanged: filtering is idempotent. -/
theorem c42_client_idempotent (codeOf : String → Nat) (fa fp : List String) (recs : List (Option Rec)) (lim : Int) :
    clientFilter codeOf fa fp (serveProviders codeOf fa fp recs lim) = serveProviders codeOf fa fp recs lim ∧
    clientFilter codeOf fa fp (servePeers codeOf fa fp recs lim) = servePeers codeOf fa fp recs lim := by
  rw [serveProviders_eq, servePeers_eq]
  have : clientFilter codeOf fa fp (specServe codeOf fa fp recs lim) = specServe codeOf fa fp recs lim := by
    apply filterMap_fixed
    intro x hx
    obtain ⟨r, _, hr⟩ := mem_specServe codeOf fa fp recs lim x hx
    exact applyRec_idem codeOf fa fp r x hr
  exact ⟨this, this⟩

/-- Before the fix the client filtered locally with its filter values as given: with the address filter
`TCP` the server (which lower-cases) keeps a record with a tcp address and the client then drops it. -/
theorem c42_unfixed_counterexample :
    let codeOf : String → Nat := fun n => if n == "tcp" then 6 else 0
    let r : Rec := { schema := 0, id := 1, addrs := [{ id := 0, protos := [4, 6] }], protocols := [] }
    serveProviders codeOf ["TCP".toLower] [] [some r] 0 = [r] ∧
    clientFilter codeOf ["TCP"] [] [r] = [] ∧
    clientFilter codeOf (normalizeFilter ["TCP"]) [] [r] = [r] := by
  decide +kernel

/-! Non-vacuity -/
example :
    let codeOf : String → Nat := fun n => if n == "tcp" then 6 else if n == "udp" then 273 else if n == "quic-v1" then 461 else 0
    let a0 : Addr := { id := 0, protos := [4, 6] }
    let a1 : Addr := { id := 1, protos := [4, 273, 461] }
    serveProviders codeOf ["!quic-v1", "tcp", "unknown"] ["Transport-Bitswap".toLower, "unknown"]
      [some { schema := 0, id := 1, addrs := [a0, a1], protocols := ["transport-bitswap"] },
       none,
       some { schema := 1, id := 2, addrs := [a1], protocols := ["transport-bitswap"] },
       some { schema := 0, id := 3, addrs := [], protocols := [] },
       some { schema := 0, id := 4, addrs := [a0], protocols := ["transport-ipfs-gateway-http"] },
       some { schema := 0, id := 5, addrs := [a0], protocols := ["TRANSPORT-BITSWAP"] }] 2 =
      [{ schema := 0, id := 1, addrs := [a0], protocols := ["transport-bitswap"] },
       { schema := 0, id := 3, addrs := [], protocols := [] }] := by decide +kernel

end C42
