import BoxoModel.C05.Lemmas
/-!
# C05 — Block service returns exactly the requested blocks and caches fetched ones

Property theorems only (helpers: `BoxoModel/C05/Lemmas.lean`; the model is the block-service model of
C04, `BoxoModel/C04/Model.lean`, with the exchange as an adversarial parameter: its answer `ans` and the
outcome of NotifyNewBlocks are universally quantified arguments; so is the blockstore's write behaviour: `pf` /
`p1` / `p2 : Option Nat` = number of Put calls of the call that succeed before one FAILS, `none` = no failure).
Every theorem is about ONE call from an ARBITRARY store, so it covers every call of every history.
`cfg.fixed = true` is the code with the commit "fix: blockservice: do not cache or return exchange blocks
that were not requested"; theorems without that hypothesis hold for the code before the fix too.
-/
namespace C05
open C04

/-- A block that is in the local blockstore is never requested from the exchange (single and batched),
for every exchange behaviour: at each request event of the trace, none of the requested CIDs is stored. -/
theorem c05_local_first (cfg : Cfg) (st : Store) (c : Cid) (ks : List Cid) (a1 : Option Blk)
    (a2 : Option (List Blk)) (nOk : Bool) (nf p1 p2 : Option Nat) (rdOk : Bool) (rd : Nat → Bool)
    (hrd : ∀ j, rd j = true) :
    reqOk st (getBlock cfg st c a1 nOk p1 rdOk).2.2 = true ∧ reqOk st (getBlocks cfg st ks a2 nf p2 rd).2 = true :=
  ⟨(getBlock_trace cfg st c a1 nOk p1 rdOk).2, getBlocks_req cfg st ks a2 nf p2 rd hrd⟩

/-- Why the guard `hrd`: getBlocks treats ANY error of blockstore.Get as a miss, so a stored block whose read
failed is requested from the exchange (and, being stored, its fetched copy is not written again). -/
theorem c05_read_error_refetch :
    let a : Cid := ⟨0x55, 0x12, 32, 1⟩
    getBlocks { al := .dflt } [(a.mh, 1)] [a] (some [(a, 1)]) none none (fun _ => false) =
      ([(a.mh, 1)], [.reqMany [a], .put (a, 1), .notify [(a, 1)], .emit (a, 1)]) := by decide

/-- … in particular a GetBlock of a stored CID makes no exchange request and returns the stored bytes. -/
theorem c05_local_hit (cfg : Cfg) (st : Store) (c : Cid) (d : Data) (a : Option Blk) (nOk : Bool) (pf : Option Nat)
    (hv : valid cfg.al c = true) (hd : st.get c.mh = some d) :
    getBlock cfg st c a nOk pf = (st, .blk (c, d), [.emit (c, d)]) := by
  have := (valid_iff cfg.al c).1 hv
  simp [getBlock, this, hd]

/-- Every block handed to the caller is in the blockstore at that moment: in the trace of a call, each
`emit b` is preceded by SUCCESSFUL writes (`Ev.put`; a failed write is `Ev.putFail` and changes nothing) that
leave `b`'s multihash stored — for every exchange behaviour and every pattern of blockstore write failures. -/
theorem c05_cached_before_emit (cfg : Cfg) (st : Store) (c : Cid) (ks : List Cid) (a1 : Option Blk)
    (a2 : Option (List Blk)) (nOk : Bool) (nf p1 p2 : Option Nat) (rdOk : Bool) (rd : Nat → Bool) :
    (∀ pre b post, (getBlock cfg st c a1 nOk p1 rdOk).2.2 = pre ++ .emit b :: post → (replay st pre).has b.1.mh = true) ∧
    (∀ pre b post, (getBlocks cfg st ks a2 nf p2 rd).2 = pre ++ .emit b :: post → (replay st pre).has b.1.mh = true) := by
  constructor
  · intro pre b post h
    exact cachedOk_split pre st b post (h ▸ (getBlock_trace cfg st c a1 nOk p1 rdOk).1)
  · intro pre b post h
    exact cachedOk_split pre st b post (h ▸ getBlocks_cached cfg st ks a2 nf p2 rd)

/-- When the blockstore write of a fetched block fails, GetBlock returns the error and hands out nothing that
was not read from the local store; GetBlocks stops: the block whose write failed, and everything after it, is
not emitted. -/
theorem c05_put_failure_no_emit (cfg : Cfg) (st : Store) (c : Cid) (a1 : Option Blk) (nOk rdOk : Bool)
    (misses : List Cid) (b : Blk) (r : List Blk) (nf : Option Nat) (hb : (cfg.fixed && !misses.contains b.1) = false) :
    (∀ x ∈ emitted (getBlock cfg st c a1 nOk (some 0) rdOk).2.2, st.get x.1.mh = some x.2) ∧
    fetchLoop cfg.fixed misses st nf (some 0) (b :: r) = (st, [.putFail b]) := by
  constructor
  · intro x hx
    cases rdOk with
    | false => rw [(getBlock_rd_false cfg st c a1 nOk (some 0)).2.1] at hx; simp [emitted] at hx
    | true =>
      exact getBlock_fail_local cfg st c a1 nOk x hx
  · unfold fetchLoop
    simp only [hb, Bool.false_eq_true, if_false]

/-- … and the store the call leaves behind is exactly the initial store plus the writes of the trace
(nothing is ever removed by a get), so emitted blocks stay cached. -/
theorem c05_fetched_stay_cached (cfg : Cfg) (st : Store) (ks : List Cid) (bs : List Blk) (nf pf : Option Nat)
    (rd : Nat → Bool) :
    ∀ b ∈ emitted (getBlocks cfg st ks (some bs) nf pf rd).2,
      (getBlocks cfg st ks (some bs) nf pf rd).1.has b.1.mh = true := by
  intro b hb
  have htr := getBlocks_cached cfg st ks (some bs) nf pf rd
  unfold getBlocks at hb htr ⊢
  simp only [] at hb htr ⊢
  split at hb
  · rename_i h
    simp only [h, if_true] at htr ⊢
    rw [emitted_map_emit] at hb
    exact get_some_has (mem_splitLocalR_hits hb).2
  · rename_i h
    simp only [h, Bool.false_eq_true, if_false] at htr ⊢
    have hf := fetchLoop_cached cfg.fixed (splitLocalR st rd 0 (filterKeys cfg.al ks)).2 bs st nf pf
    simp only [emitted_append, emitted_map_emit, emitted, List.append_nil, List.mem_append] at hb
    rw [← hf.2.2]
    rcases hb with hb | hb
    · exact replay_has_mono _ _ _ (get_some_has (mem_splitLocalR_hits hb).2)
    · obtain ⟨pre, post, hsplit⟩ := mem_emitted_split hb
      have := cachedOk_split pre st b post (hsplit ▸ hf.1)
      rw [hsplit, replay_append]
      exact replay_has_mono _ _ _ this

/-- GetBlock returns a block with exactly the requested CID; GetBlocks emits only blocks whose CID was
requested (and passes the allowlist) — for EVERY exchange, however malicious. -/
theorem c05_only_requested (cfg : Cfg) (hfix : cfg.fixed = true) (st : Store) (c : Cid) (ks : List Cid)
    (a1 : Option Blk) (a2 : Option (List Blk)) (nOk : Bool) (nf p1 p2 : Option Nat) (rdOk : Bool) (rd : Nat → Bool) :
    (∀ b, (getBlock cfg st c a1 nOk p1 rdOk).2.1 = .blk b → b.1 = c) ∧
    (∀ b ∈ emitted (getBlock cfg st c a1 nOk p1 rdOk).2.2, b.1 = c) ∧
    (∀ b ∈ emitted (getBlocks cfg st ks a2 nf p2 rd).2, b.1 ∈ ks ∧ valid cfg.al b.1 = true) := by
  refine ⟨?_, fun b hb => (getBlock_requested cfg hfix st c a1 nOk p1 rdOk b hb).1,
    getBlocks_requested cfg hfix st ks a2 nf p2 rd⟩
  intro b hb
  have := getBlock_result_emitted cfg st c a1 nOk p1 rdOk b hb
  exact (getBlock_requested cfg hfix st c a1 nOk p1 rdOk b this).1

/-- The code before the fix returns whatever the exchange answers: request `a`, get `b`. -/
theorem c05_unfixed_counterexample :
    let cfg : Cfg := { al := .dflt, fixed := false }
    let a : Cid := ⟨0x55, 0x12, 32, 1⟩
    let b : Cid := ⟨0x55, 0x12, 32, 2⟩
    (getBlock cfg [] a (some (b, 2)) true).2.1 = .blk (b, 2) ∧
    emitted (getBlocks cfg [] [a] (some [(b, 2)]) none).2 = [(b, 2)] := by
  decide

/-- Bytes hash to the CID — guarded: for an arbitrary hash relation `H`, IF the store is consistent and the
blocks the exchange answers with are well formed (`H`), then every returned block is, and the store stays
consistent. (The block service does not re-hash exchange blocks: see `c05_hash_counterexample`.) -/
theorem c05_hash_ok_partial (H : Key → Data → Prop) (cfg : Cfg) (st : Store) (hs : storeH H st) (c : Cid)
    (ks : List Cid) (a1 : Option Blk) (a2 : Option (List Blk)) (nOk : Bool) (nf p1 p2 : Option Nat)
    (rdOk : Bool) (rd : Nat → Bool)
    (h1 : ∀ b, a1 = some b → H b.1.mh b.2) (h2 : ∀ bs, a2 = some bs → ∀ b ∈ bs, H b.1.mh b.2) :
    ((∀ b ∈ emitted (getBlock cfg st c a1 nOk p1 rdOk).2.2, H b.1.mh b.2) ∧
      storeH H (getBlock cfg st c a1 nOk p1 rdOk).1) ∧
    ((∀ b ∈ emitted (getBlocks cfg st ks a2 nf p2 rd).2, H b.1.mh b.2) ∧
      storeH H (getBlocks cfg st ks a2 nf p2 rd).1) :=
  ⟨getBlock_hash H cfg st c a1 nOk p1 rdOk hs h1, getBlocks_hash H cfg st ks a2 nf p2 rd hs h2⟩

/-- Known finding (also with the fix): an exchange that answers with the requested CID but other bytes gets
them cached and returned. `H k d := k.dig = d` is the harness's "sha2-256 of data-d". -/
theorem c05_hash_counterexample :
    let cfg : Cfg := { al := .dflt }
    let a : Cid := ⟨0x55, 0x12, 32, 1⟩
    let H : Key → Data → Prop := fun k d => k.2.2 = d
    (getBlock cfg [] a (some (a, 2)) true).2.1 = .blk (a, 2) ∧ ¬ H a.mh 2 ∧
    (getBlock cfg [] a (some (a, 2)) true).1.get a.mh = some 2 := by
  decide

/-! ## Whole histories, cancellation, sessions -/

/-- Lifting to histories: along EVERY sequence of AddBlock / AddBlocks / GetBlock / GetBlocks / DeleteBlock
calls from every initial store, with the store threaded from call to call and every exchange / blockstore
behaviour chosen per call: each call's emits are cached when emitted, only requested CIDs are emitted, and a
call whose reads succeed requests nothing that is stored at that moment. -/
theorem c05_history (cfg : Cfg) (hfix : cfg.fixed = true) : ∀ (ops : List Op) (st : Store), histOk cfg st ops := by
  intro ops
  induction ops with
  | nil => intro st; trivial
  | cons op r ih =>
    intro st
    refine ⟨?_, ?_, ?_, ih _⟩
    · cases op with
      | add b pf => exact (writes_ok _ st (addBlock_writes cfg st b pf)).1
      | addMany bs pf => exact (writes_ok _ st (addBlocks_writes cfg st bs pf)).1
      | get c ans nOk pf rdOk => exact (getBlock_trace cfg st c ans nOk pf rdOk).1
      | getMany ks ans nf pf rd => exact getBlocks_cached cfg st ks ans nf pf rd
      | del c => simp [stepOp, cachedOk]
    · intro hr
      cases op with
      | add b pf => exact (writes_ok _ st (addBlock_writes cfg st b pf)).2.1
      | addMany bs pf => exact (writes_ok _ st (addBlocks_writes cfg st bs pf)).2.1
      | get c ans nOk pf rdOk => exact (getBlock_trace cfg st c ans nOk pf rdOk).2
      | getMany ks ans nf pf rd => exact getBlocks_req cfg st ks ans nf pf rd hr
      | del c => simp [stepOp, reqOk]
    · intro b hb
      cases op with
      | add o pf => simp only [stepOp] at hb; rw [(writes_ok _ st (addBlock_writes cfg st o pf)).2.2] at hb; simp at hb
      | addMany bs pf => simp only [stepOp] at hb; rw [(writes_ok _ st (addBlocks_writes cfg st bs pf)).2.2] at hb; simp at hb
      | get c ans nOk pf rdOk => simp [requested, (getBlock_requested cfg hfix st c ans nOk pf rdOk b hb).1]
      | getMany ks ans nf pf rd => exact (getBlocks_requested cfg hfix st ks ans nf pf rd b hb).1
      | del c => simp [stepOp, emitted] at hb

/-- Bytes hash to the CID along whole histories — guarded: if every entry of the initial store is well formed
(`H`) and every block that callers add or the exchange answers with is, then every block ever handed out is, and
every entry of the final store is (arbitrary hash relation `H`, arbitrary failures). -/
theorem c05_hash_history_partial (H : Key → Data → Prop) (cfg : Cfg) : ∀ (ops : List Op) (st : Store),
    allE (fun e => H e.1 e.2) st → (∀ op ∈ ops, faithful H op) →
    (∀ b ∈ emitted (run cfg st ops).2, H b.1.mh b.2) ∧ allE (fun e => H e.1 e.2) (run cfg st ops).1 := by
  intro ops
  induction ops with
  | nil => intro st hs _; simp [run, emitted]; exact hs
  | cons op r ih =>
    intro st hs hf
    have hop := hf op (by simp)
    have hnext := stepOp_allE (fun e => H e.1 e.2) cfg st op hs hop
    have hrec := ih (stepOp cfg st op).1 hnext (fun o ho => hf o (by simp [ho]))
    refine ⟨?_, hrec.2⟩
    intro b hb
    simp only [run, emitted_append, List.mem_append] at hb
    rcases hb with hb | hb
    · have hsH := allE_storeH hs
      cases op with
      | add o pf => simp only [stepOp] at hb; rw [(writes_ok _ st (addBlock_writes cfg st o pf)).2.2] at hb; simp at hb
      | addMany bs pf => simp only [stepOp] at hb; rw [(writes_ok _ st (addBlocks_writes cfg st bs pf)).2.2] at hb; simp at hb
      | get c ans nOk pf rdOk => exact (getBlock_hash H cfg st c ans nOk pf rdOk hsH hop).1 b hb
      | getMany ks ans nf pf rd => exact (getBlocks_hash H cfg st ks ans nf pf rd hsH hop).1 b hb
      | del c => simp [stepOp, emitted] at hb
    · exact hrec.1 b hb

/-- Context cancellation only cuts a call's trace short (every `select` on ctx.Done() returns): the clauses are
prefix-closed, so they hold for whatever was done and handed out before the cancellation took effect. -/
theorem c05_cancel_prefix (st : Store) (pre post : List Ev) :
    (cachedOk st (pre ++ post) = true → cachedOk st pre = true) ∧
    (reqOk st (pre ++ post) = true → reqOk st pre = true) ∧
    (∀ b ∈ emitted pre, b ∈ emitted (pre ++ post)) :=
  ⟨cachedOk_prefix st pre post, reqOk_prefix st pre post, fun b hb => by simp [emitted_append, hb]⟩

/-- Sessions: Session.GetBlock / GetBlocks run the same getBlock / getBlocks (so every theorem above applies to
them verbatim); the session object only decides which fetcher is asked. -/
theorem c05_session_same_blocks (cfg : Cfg) (sesEx : Bool) (s : Ses) (st : Store) (c : Cid) (ks : List Cid)
    (a1 : Option Blk) (a2 : Option (List Blk)) (nOk : Bool) (nf pf : Option Nat) (rdOk : Bool) (rd : Nat → Bool) :
    (sesGetBlock cfg sesEx s st c a1 nOk pf rdOk).2.2 = getBlock cfg st c a1 nOk pf rdOk ∧
    (sesGetBlocks cfg sesEx s st ks a2 nf pf rd).2.2 = getBlocks cfg st ks a2 nf pf rd := ⟨rfl, rfl⟩

/-- … and `exchange.NewSession` is called at most once per Session object, whatever the sequence of calls:
after the first grabSession no later one creates a session, and the choice of fetcher never changes again. -/
theorem c05_session_once (hasEx sesEx : Bool) (s : Ses) (n : Nat) :
    (∀ x ∈ grabs hasEx sesEx (grabSession hasEx sesEx s).1 n, x = false) ∧
    (grabSession hasEx sesEx (grabSession hasEx sesEx s).1).1 = (grabSession hasEx sesEx s).1 := by
  have h := grabSession_once hasEx sesEx s
  refine ⟨grabs_after_once hasEx sesEx n _ h, ?_⟩
  generalize (grabSession hasEx sesEx s).1 = t at h
  simp [grabSession, h]

/-- GetBlock creates the exchange session lazily: never for a rejected CID, a failed read or a local hit. -/
theorem c05_session_lazy (cfg : Cfg) (sesEx : Bool) (s : Ses) (st : Store) (c : Cid) (a : Option Blk) (nOk : Bool)
    (pf : Option Nat) (rdOk : Bool) (h : valid cfg.al c = false ∨ rdOk = false ∨ ∃ d, st.get c.mh = some d) :
    (sesGetBlock cfg sesEx s st c a nOk pf rdOk).1 = s ∧ (sesGetBlock cfg sesEx s st c a nOk pf rdOk).2.1 = false := by
  have : getBlockGrabs cfg st c rdOk = false := by
    unfold getBlockGrabs
    rcases h with h | h | ⟨d, h⟩ <;> simp [h]
  simp [sesGetBlock, this]

/-! Non-vacuity -/
example : (getBlocks { al := .dflt } [((0x12, 32, 0), 0)]
    [⟨1, 0x12, 32, 0⟩, ⟨1, 0x12, 32, 1⟩, ⟨1, 0x12, 32, 2⟩]
    (some [(⟨1, 0x12, 32, 2⟩, 2), (⟨1, 0x12, 32, 9⟩, 9), (⟨1, 0x12, 32, 1⟩, 1)]) none) =
    ([((0x12, 32, 0), 0), ((0x12, 32, 2), 2), ((0x12, 32, 1), 1)],
     [.emit (⟨1, 0x12, 32, 0⟩, 0), .reqMany [⟨1, 0x12, 32, 1⟩, ⟨1, 0x12, 32, 2⟩],
      .put (⟨1, 0x12, 32, 2⟩, 2), .notify [(⟨1, 0x12, 32, 2⟩, 2)], .emit (⟨1, 0x12, 32, 2⟩, 2),
      .put (⟨1, 0x12, 32, 1⟩, 1), .notify [(⟨1, 0x12, 32, 1⟩, 1)], .emit (⟨1, 0x12, 32, 1⟩, 1)]) := by decide
example : (getBlock { al := .dflt } [] ⟨1, 0x12, 32, 1⟩ (some (⟨1, 0x12, 32, 2⟩, 2)) true).2.1 = .mismatch := by decide

end C05
