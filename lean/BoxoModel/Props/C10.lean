import BoxoModel.C10.Lemmas
import BoxoModel.Props.C09
/-!
# C10 — DAG modifier behaves as a mutable file

Property theorems only (helpers: `BoxoModel/C10/Lemmas.lean`; the file model and the op alphabet:
`BoxoModel/C10/Spec.lean`).  The model is the DagModifier AFTER the `fix:` commits of branch verif/import.

Tree layer: for every well-sized tree, `modifyDag` overwrites in place, `dagTruncate` cuts, `appendData`
appends — with their exact effect on the content, the recorded sizes and the trickle shape.
Control layer: `c10_refines` — for EVERY operation sequence (any length, any operands) every result
of the modifier equals the result of the byte-array file model and the DAG handed out by GetNode reads as
the model's bytes.  Hypothesis (`TOK`, part of the invariant `Inv`): the starting file is well-sized and is a
single leaf (raw or dag-pb, empty included) or a node whose children from index `MaxLinks` on are trickle
sub-graphs of the right depth — `c10_guard_layouts`: every `trickle.Layout` and every `balanced.Layout`
output for the same width (any number of chunks), and the class is closed under all operations.
-/
namespace C10
open FileTree C07 C08

/-! ## Tree layer -/

/-- modifyDag on a well-sized tree: the bytes from `off` on are replaced by `buf` as far as the tree reaches
(`ow`), the rest of the buffer (`owRest`) is handed back, sizes and shape are untouched -/
theorem c10_tree_modify (w : Nat) (t : FNode) (hws : wellSized t = true) (off : Nat) (buf : List UInt8) :
    content (modifyDag t off buf).1 = ow (content t) off buf ∧
    (modifyDag t off buf).2 = owRest (content t) off buf ∧
    wellSized (modifyDag t off buf).1 = true ∧ size (modifyDag t off buf).1 = size t ∧
    (∀ D : Int, tshape w D t = true → tshape w D (modifyDag t off buf).1 = true) ∧
    (∀ (st : Bool) (D : Int), rootShape st w D t = true → rootShape st w D (modifyDag t off buf).1 = true) := by
  obtain ⟨h1, h2, h3, h4, h5, _, h7⟩ := modify_ok w t hws off buf
  exact ⟨h1, h2, h3, h4, h5, h7⟩

/-- … and together with the append of the rest this is exactly a positional write (what Sync computes) -/
theorem c10_tree_modify_then_rest (C : List UInt8) (ws : Nat) (buf : List UInt8) :
    ow (zext C ws) ws buf ++ owRest (zext C ws) ws buf = pwrite C ws buf := sync_bytes C ws buf

/-- dagTruncate to a smaller size never fails on a well-sized tree and keeps exactly the first `sz` bytes -/
theorem c10_tree_truncate (w : Nat) (t : FNode) (hws : wellSized t = true) (sz : Nat) (h : sz < size t) :
    ∃ t', dagTruncate t sz = some t' ∧ content t' = (content t).take sz ∧ wellSized t' = true ∧
      size t' = sz ∧ (∀ D : Int, tshape w D t = true → tshape w D t' = true) ∧
      (∀ (st : Bool) (D : Int), rootShape st w D t = true → rootShape st w D t' = true) := by
  obtain ⟨t', h0, h1, h2, h3, h4, _, h6⟩ := truncate_ok w t hws sz h
  exact ⟨t', h0, h1, h2, h3, h4, h6⟩

/-- appendData (trickle.Append; a leaf root is first put under a file node) never fails on the trees of the
guard and appends exactly the chunks -/
theorem c10_tree_append (c : Cfg) (hw : 1 ≤ c.w) (t : FNode) (chunks : List Chunk) (ht : TOK c.w t) :
    ∃ t', appendData c t chunks = some t' ∧ content t' = content t ++ chunks.flatten ∧
      wellSized t' = true ∧ rootShape false c.w (-1) t' = true :=
  appendData_ok c hw t chunks ht

/-! ## Control layer -/

/-- a fresh DagModifier over a tree of the guard satisfies the invariant and denotes (content, position 0) -/
theorem c10_initial (c : Cfg) (hw : 1 ≤ c.w) (hk : 1 ≤ c.k) (t : FNode) (ht : TOK c.w t) :
    Inv c { cur := t } ∧ C10.abs { cur := t } = { bytes := content t, pos := 0, anchor := 0 } :=
  ⟨⟨hw, hk, ht, by intro buf h; simp at h⟩, by simp [C10.abs, DM.bytes, DM.anchor]⟩

/-- the starting files of the hypothesis: every trickle.Layout output and every balanced.Layout output
(any number of chunks) for the width the modifier is configured with -/
theorem c10_guard_layouts (ic : C07.Cfg) (cs : List Chunk) :
    (∀ o, 1 ≤ ic.w → trickleLayout ic cs = some o → TOK ic.w o.root) ∧
    (∀ o, 2 ≤ ic.w → balancedLayout ic cs = some o → TOK ic.w o.root) := by
  refine ⟨fun o hw h => ?_, fun o hw h => ?_⟩
  · exact ⟨(trickleLayout_spec ic cs o h).1, Or.inr (rootShape_relax ic.w _ (trickleLayout_shape ic cs o h hw))⟩
  · refine ⟨(balancedLayout_spec ic cs o h).1, ?_⟩
    obtain ⟨d, hd⟩ := balancedLayout_shape ic cs o h hw
    have hm := maxWidth_of_bshape ic.w d o.root (by omega) hd
    cases hr : o.root with
    | leaf x => left; rfl
    | node fs l =>
      right
      rw [hr] at hm
      simp only [maxWidth_node, Bool.and_eq_true, decide_eq_true_eq] at hm
      simp only [rootShape]
      exact tshapeL_relaxed_short ic.w (-1) l 0 (by omega)

/-- single step: same output, same abstract state, invariant kept -/
theorem c10_refines_step (c : Cfg) (s : DM) (op : Op) (h : Inv c s) :
    Inv c (step c s op).1 ∧ C10.abs (step c s op).1 = (specStep (C10.abs s) op).1 ∧
    (step c s op).2 = (specStep (C10.abs s) op).2 := step_refines c s op h

/-- every operation sequence: the list of results of the modifier equals that of the file model
(Write/WriteAt counts, Seek positions and errors, Read bytes, Size, the bytes GetNode's DAG reads as) -/
theorem c10_refines (c : Cfg) (ops : List Op) : ∀ (s : DM), Inv c s →
    runModel c s ops = runSpec (C10.abs s) ops := by
  induction ops with
  | nil => intro s _; rfl
  | cons op ops ih =>
    intro s h
    obtain ⟨h1, h2, h3⟩ := step_refines c s op h
    simp only [runModel, runSpec, h3, ih _ h1, h2]

/-- … from a starting file of the hypothesis -/
theorem c10_refines_from_file (c : Cfg) (hw : 1 ≤ c.w) (hk : 1 ≤ c.k) (t : FNode) (ht : TOK c.w t)
    (ops : List Op) : runModel c { cur := t } ops = runSpec { bytes := content t, pos := 0, anchor := 0 } ops := by
  obtain ⟨h1, h2⟩ := c10_initial c hw hk t ht
  rw [c10_refines c ops _ h1, h2]

/-- no write is lost, duplicated or misplaced, whatever was buffered or synced in between: after any history,
GetNode's DAG reads back as exactly the bytes of the file model, and it is well-sized -/
theorem c10_no_lost_write (c : Cfg) (s : DM) (h : Inv c s) :
    ∃ t, (getNode c s).2 = some t ∧ content t = (C10.abs s).bytes := by
  obtain ⟨t, g1, g2, _⟩ := getNode_ok c s h
  exact ⟨t, g1, g2⟩

/-- Sync never changes what the file denotes -/
theorem c10_sync_transparent (c : Cfg) (s : DM) (h : Inv c s) :
    ∃ s1, sync c s = some s1 ∧ C10.abs s1 = C10.abs s ∧ s1.wrBuf = none := by
  obtain ⟨s1, y1, _, y3, y4, y5, y6⟩ := sync_ok c s h
  exact ⟨s1, y1, by simp [C10.abs, DM.bytes, DM.anchor, y3, y4, y5, y6], y3⟩

/-! ## The `dm.read` field: composition with the reader model of C09

`DagModifier.Read` is `Sync`, then (if there is no reader) `NewDagReader(curNode)` + `Seek(curWrOff, SeekStart)`,
then `CtxReadFull`.  The C10 model reads `content cur` from `curWrOff` directly; the theorem below shows that this
is exactly what the transcribed DagReader / Walker of C09 delivers on the synced tree, so the abstraction of the
`read` field rests on a theorem (plus the argument, in Model.lean, that after the fixes an existing reader is
always positioned at `curWrOff` over the current node). -/

/-- a fresh C09 reader over the synced DAG, sought to `curWrOff`, then reading `k > 0` bytes, returns the bytes
and the error class (EOF iff short) that the C10 model's `read` reports -/
theorem c10_read_is_dagreader_read (c : Cfg) (s : DM) (k : Nat) (hk : 0 < k) (h : Inv c s) :
    ∃ s1, sync c s = some s1 ∧
      (C09.newReader s1.cur).run [.seek s1.curWrOff 0, .read k] =
        [{ bytes := [], off := s1.curWrOff, err := .nil },
         { bytes := (read c s k).2.1, off := (read c s k).2.1.length,
           err := if (read c s k).2.1.length < k then .eof else .nil }] := by
  obtain ⟨s1, y1, y2, y3, y4, y5, _⟩ := sync_ok c s h
  refine ⟨s1, y1, ?_⟩
  have hws := y2.2.2.1.1
  rw [C09.c09_refines_eq s1.cur hws _ (by
    intro op hop
    simp only [List.mem_cons, List.mem_nil_iff, or_false] at hop
    rcases hop with rfl | rfl
    · rfl
    · cases k with
      | zero => omega
      | succ k => rfl)]
  obtain ⟨_, r2, _⟩ := read_ok c s k h
  have hnn : ¬ ((s.curWrOff : Int) < 0) := by omega
  simp only [C09.Spec.run, C09.Spec.step, C09.Spec.seekTo, y4, y5, hnn, if_false, Int.toNat_natCast, r2]

/-! ## Non-vacuity: a concrete history through buffering, sparse extension, truncation and re-reading -/

private def cfg : Cfg := { w := 2, raw := true, k := 2, wbs := 4 }
private def t0 : Option FNode := (trickleLayout { w := 2, rawLeaves := true } [[1, 2], [3], [4, 5], [6]]).map (·.root)
private def hist : List Op :=
  [.seek (-2) 2, .write [9, 9, 9, 9, 9], .writeAt [7] 12, .seek 0 0, .read 4, .truncate 3, .write [8], .size, .getNode]

example : t0.map (fun t => (wellSized t, tshape 2 (-1) t)) = some (true, true) := by decide +kernel
example : t0.map (fun t => runModel cfg { cur := t } hist) =
    some [.pos 4, .wrote 5, .wrote 1, .pos 0, .data [1, 2, 3, 4], .ok, .wrote 1, .size 4, .content [1, 2, 3, 8]] := by
  decide +kernel
/-- the two truncation rules side by side: an offset reached by reading is taken back to the new end (mfs
TestTruncateAndWrite), an offset left by a write stays beyond it (mod TestDagSync) -/
example : runModel cfg { cur := .node 0 [] }
    [.write [1, 2, 3, 4], .seek 0 0, .read 9, .truncate 0, .write [5, 6], .getNode] =
    [.wrote 4, .pos 0, .data [1, 2, 3, 4], .ok, .wrote 2, .content [5, 6]] := by decide +kernel
example : runModel cfg { cur := .node 0 [] } [.write [1, 2, 3], .sync, .truncate 0, .write [5], .getNode] =
    [.wrote 3, .ok, .ok, .wrote 1, .content [0, 0, 0, 5]] := by decide +kernel

/-- a balanced, two-level starting file (width 2, 4 chunks): in the hypothesis, and a history that grows it -/
private def tb : Option FNode := (balancedLayout { w := 2 } [[1, 2], [3], [4, 5], [6]]).map (·.root)
example : tb.map (fun t => (wellSized t, rootShape false 2 (-1) t, height t)) = some (true, true, 2) := by
  decide +kernel
example : tb.map (fun t => runModel { w := 2, raw := false, k := 2, wbs := 4 } { cur := t }
      [.seek 0 2, .write [7, 7, 7], .writeAt [9] 1, .getNode]) =
    some [.pos 6, .wrote 3, .wrote 1, .content [1, 9, 3, 4, 5, 6, 7, 7, 7]] := by
  decide +kernel

end C10
