import BoxoModel.C43.Lemmas
import BoxoModel.Gen.C43
/-!
# C43 — Routing iterator combinators obey list laws

Property theorems only (helper lemmas are in `BoxoModel/C43/Lemmas.lean`).
All statements quantify over every combinator tree `sh : Shape` (any depth, any functions /
predicates / limits, including limits ≤ 0), every source list, and every reachable or unreachable
mutable state `st : State sh` — there is no freshness or size hypothesis unless stated.
-/
namespace C43

/-- list semantics of a combinator tree over a source list -/
def sem : Shape → List Int → List Int
  | .src, xs => xs
  | .map f s, xs => (sem s xs).map f
  | .filter p s, xs => (sem s xs).filter p
  | .limit lim s, xs => if lim > 0 then (sem s xs).take lim.toNat else sem s xs

/-- a freshly constructed iterator denotes the list operation of its tree -/
theorem c43_fresh_sem (sh : Shape) (xs : List Int) : toList sh (fresh xs sh) = sem sh xs := by
  induction sh with
  | src => rfl
  | map f s ih => simp [toList, fresh, sem, ih]
  | filter p s ih => simp [toList, fresh, sem, ih]
  | limit lim s ih => simp [toList, fresh, sem, ih]

/-- ReadAll returns exactly the abstract list of the iterator, from any state. -/
theorem c43_readAll (sh : Shape) (st : State sh) : (readAll sh st).2 = toList sh st := by
  have h1 := drain_spec sh (remaining sh st + 1) st
  have h2 := drain_done sh (remaining sh st + 1) st (by omega)
  simp [readAll, h1, h2]

/-- Map: `ReadAll(Map(it, f)) = map f (ReadAll(it))` -/
theorem c43_map (f : Int → Int) (s : Shape) (xs : List Int) :
    (readAll (.map f s) (fresh xs _)).2 = ((readAll s (fresh xs s)).2).map f := by
  simp [c43_readAll, c43_fresh_sem, sem]

/-- Filter: `ReadAll(Filter(it, p)) = filter p (ReadAll(it))` -/
theorem c43_filter (p : Int → Bool) (s : Shape) (xs : List Int) :
    (readAll (.filter p s) (fresh xs _)).2 = ((readAll s (fresh xs s)).2).filter p := by
  simp [c43_readAll, c43_fresh_sem, sem]

/-- Limit: take-prefix for a positive limit, identity for limit ≤ 0 -/
theorem c43_limit (lim : Int) (s : Shape) (xs : List Int) :
    (readAll (.limit lim s) (fresh xs _)).2 =
      if lim > 0 then ((readAll s (fresh xs s)).2).take lim.toNat else (readAll s (fresh xs s)).2 := by
  simp [c43_readAll, c43_fresh_sem, sem]

/-- Every composition (any depth) read with ReadAll is the composed list operation. -/
theorem c43_compose (sh : Shape) (xs : List Int) : (readAll sh (fresh xs sh)).2 = sem sh xs := by
  rw [c43_readAll, c43_fresh_sem]

/-- No read-ahead: draining a limited iterator consumes from the inner iterator exactly the
elements it yielded; everything after them is still available from the inner iterator. -/
theorem c43_limit_no_readahead (lim : Int) (s : Shape) (l : LSt) (i : State s) :
    toList s i = (readAll (.limit lim s) (l, i)).2 ++ toList s (readAll (.limit lim s) (l, i)).1.2 ∨
    ¬ lim > 0 := by
  by_cases hl : lim > 0
  · left
    -- invariant of the drain loop on a limit layer
    have key : ∀ (fuel : Nat) (l : LSt) (i : State s),
        toList s i = (drain (.limit lim s) fuel (l, i)).2 ++ toList s (drain (.limit lim s) fuel (l, i)).1.2 := by
      intro fuel
      induction fuel with
      | zero => intro l i; simp [drain]
      | succ fuel ih =>
        intro l i
        by_cases hc : lim > 0 ∧ (l.count : Int) ≥ lim
        · simp [drain, next, hc]
        · have hs := next_spec s i
          cases hb : (next s i).2 with
          | false => simp [drain, next, hc, hb, (hs.2 hb).1, (hs.2 hb).2.1]
          | true =>
            have := ih { l with count := l.count + 1 } (next s i).1
            simp [drain, next, hc, hb, (hs.1 hb).1, val]
            exact this
    have := key (remaining (.limit lim s) (l, i) + 1) l i
    have hc : ∀ x : State (.limit lim s), toList s (close (.limit lim s) x).2 = toList s x.2 := by
      rintro ⟨l', i'⟩; simp [close, toList_close]
    simpa [readAll, hc] using this
  · right; exact hl

/-- Filter reads the source exactly up to the element it yields: after one `Next` that returned
true, the inner iterator still offers everything after the yielded element. -/
theorem c43_filter_reads_to_yield (p : Int → Bool) (s : Shape) (l : LSt) (i : State s)
    (h : (next (.filter p s) (l, i)).2 = true) :
    ∃ skipped, toList s i = skipped ++ val (.filter p s) (next (.filter p s) (l, i)).1 ::
        toList s (next (.filter p s) (l, i)).1.2 ∧ ∀ x ∈ skipped, p x = false := by
  have key : ∀ (fuel : Nat) (i : State s) (v : Int) r,
      filterLoop (next s) (val s) p fuel i false v = some r → r.2.2.2 = true →
      ∃ skipped, toList s i = skipped ++ r.2.2.1 :: toList s r.1 ∧ ∀ x ∈ skipped, p x = false := by
    intro fuel
    induction fuel with
    | zero => intro i v r h; simp [filterLoop] at h
    | succ fuel ih =>
      intro i v r hr hb
      unfold filterLoop at hr
      have hs := next_spec s i
      cases hn : (next s i).2 with
      | false => simp [hn] at hr; subst hr; simp at hb
      | true =>
        by_cases hp : p (val s (next s i).1) = true
        · simp [hn, hp] at hr; subst hr
          exact ⟨[], by simp [(hs.1 hn).1], by simp⟩
        · have hp' : p (val s (next s i).1) = false := by
            cases h' : p (val s (next s i).1) <;> simp_all
          simp [hn, hp'] at hr
          obtain ⟨sk, h1, h2⟩ := ih _ _ _ hr hb
          refine ⟨val s (next s i).1 :: sk, ?_, ?_⟩
          · rw [(hs.1 hn).1, h1]; simp
          · intro x hx
            simp at hx
            rcases hx with rfl | hx
            · exact hp'
            · exact h2 x hx
  have hd : l.done = false := by
    cases hd : l.done with
    | false => rfl
    | true =>
      have : (next (.filter p s) (l, i)).2 = false := by
        simp [next, hd, filterLoop]
      simp [this] at h
  cases he : filterLoop (next s) (val s) p (remaining s i + 1) i l.done l.val with
  | none => simp [next, he] at h
  | some r =>
    obtain ⟨i', d', v', b⟩ := r
    have hb : b = true := by simpa [next, he] using h
    rw [hd] at he
    obtain ⟨sk, h1, h2⟩ := key _ _ _ _ he hb
    exact ⟨sk, by simpa [next, he, hd, val] using h1, h2⟩

/-- Close on any composed iterator reaches the underlying source exactly once per call … -/
theorem c43_close (sh : Shape) (st : State sh) :
    (source sh (close sh st)).closes = (source sh st).closes + 1 := by
  rw [source_close]

/-- … and changes nothing else that is observable (values still to be yielded). -/
theorem c43_close_keeps_values (sh : Shape) (st : State sh) :
    toList sh (close sh st) = toList sh st := toList_close sh st

/-- ReadAll closes the underlying source exactly once. -/
theorem c43_readAll_closes_once (sh : Shape) (st : State sh) :
    (source sh (readAll sh st).1).closes = (source sh st).closes + 1 := by
  simp [readAll, source_close, drain_closes]

/-- After Next has returned false it keeps returning false (for every composed iterator). -/
theorem c43_after_end (sh : Shape) (st : State sh) (h : (next sh st).2 = false) :
    (next sh (next sh st).1).2 = false := by
  have h1 := ((next_spec sh st).2 h).2.1
  cases hb : (next sh (next sh st).1).2 with
  | false => rfl
  | true =>
    have := ((next_spec sh (next sh st).1).1 hb).1
    rw [h1] at this
    simp at this

/-- JSONIter (any element type): reading to the end yields the well-formed prefix — each value exactly
as encoded, independent of the values before it — then (at most) one error result, and nothing after it. -/
def JIt.run {α : Type} : Nat → JIt α → List (Option α)
  | 0, _ => []
  | fuel + 1, j =>
    let r := j.next
    if r.2 then (if r.1.err then none else some r.1.val) :: JIt.run fuel r.1 else []

def jsonSpec {α : Type} : List (Option α) → List (Option α)
  | [] => []
  | some v :: r => some v :: jsonSpec r
  | none :: _ => [none]

theorem c43_json_any {α : Type} (z : α) (toks : List (Option α)) : ∀ (v : α) (e : Bool),
    JIt.run (toks.length + 1) { zero := z, toks := toks, done := false, val := v, err := e } = jsonSpec toks := by
  induction toks with
  | nil => intro v e; simp [JIt.run, JIt.next, jsonSpec]
  | cons t r ih =>
    intro v e
    cases t with
    | none =>
      cases r <;> simp [JIt.run, JIt.next, jsonSpec]
    | some w =>
      have := ih w false
      simp only [List.length_cons, JIt.run, JIt.next, jsonSpec] at this ⊢
      simpa using this

theorem c43_json {α : Type} (z : α) (toks : List (Option α)) :
    JIt.run (toks.length + 1) (JIt.fresh z toks) = jsonSpec toks := c43_json_any z toks z false

theorem c43_json_closed {α : Type} (j : JIt α) : (j.close.next).2 = false := by
  simp [JIt.close, JIt.next]

/-- `ReadAllResults(ToResultIter(it))`: ToResultIter is `Map(it, wrap)` with a wrapper that never sets an
error, so ReadAllResults is the drain loop of ReadAll WITHOUT the deferred Close: it returns exactly the
abstract list and does not touch the underlying source's Close. -/
theorem c43_readAllResults_toResult (sh : Shape) (st : State sh) :
    (drain sh (remaining sh st + 1) st).2 = toList sh st ∧
    (source sh (drain sh (remaining sh st + 1) st).1).closes = (source sh st).closes := by
  refine ⟨?_, drain_closes sh _ st⟩
  have h1 := drain_spec sh (remaining sh st + 1) st
  have h2 := drain_done sh (remaining sh st + 1) st (by omega)
  simp [h1, h2]

def jsonResultsSpec {α : Type} : List (Option α) → Nat → List α → List α ⊕ Nat
  | [], _, acc => .inl acc.reverse
  | some v :: r, i, acc => jsonResultsSpec r (i + 1) (v :: acc)
  | none :: _, i, _ => .inr i

/-- ReadAllResults returns every value when all records are well formed, and otherwise reports the
index of the first malformed record (and nothing after it is consumed). -/
theorem c43_json_readAllResults {α : Type} (z : α) (toks : List (Option α)) :
    ∀ (v : α) (e : Bool) (i : Nat) (acc : List α),
      JIt.readAllResults (toks.length + 1) { zero := z, toks := toks, done := false, val := v, err := e } i acc =
        jsonResultsSpec toks i acc := by
  induction toks with
  | nil => intro v e i acc; simp [JIt.readAllResults, JIt.next, jsonResultsSpec]
  | cons t r ih =>
    intro v e i acc
    cases t with
    | none => simp [JIt.readAllResults, JIt.next, jsonResultsSpec]
    | some w =>
      have := ih w false (i + 1) (w :: acc)
      simp only [List.length_cons, JIt.readAllResults, JIt.next, jsonResultsSpec] at this ⊢
      simpa using this

/-- No read-ahead, counted at the source: draining `Limit(FromSlice(xs), lim)` (lim > 0, any state) makes
at most one `Next` call on the source beyond the values it yields, and exactly as many calls as values
yielded when the limit is what stopped it. -/
theorem c43_limit_src_next_calls (lim : Int) (hl : lim > 0) (fuel : Nat) :
    ∀ (l : LSt) (st : SrcSt),
      let r := drain (.limit lim .src) fuel (l, st)
      SrcSt.nexts r.1.2 ≤ st.nexts + r.2.length + 1 ∧
      (((l.count + r.2.length : Nat) : Int) ≥ lim → SrcSt.nexts r.1.2 = st.nexts + r.2.length) := by
  induction fuel with
  | zero => intro l st; simp [drain]
  | succ fuel ih =>
    intro l st
    by_cases hc : lim > 0 ∧ (l.count : Int) ≥ lim
    · simp [drain, next, hc]
    · have hc' : ¬ (l.count : Int) ≥ lim := fun h => hc ⟨hl, h⟩
      cases hr : SrcSt.rest st with
      | nil =>
        simp [drain, next, hc, hr]
        omega
      | cons x r =>
        have := ih { l with count := l.count + 1 } ({ st with rest := r, val := x, nexts := SrcSt.nexts st + 1 } : SrcSt)
        simp [drain, next, hc, hr] at this ⊢
        omega

theorem c43_limit_src_next_calls_fresh (lim : Int) (hl : lim > 0) (xs : List Int) :
    (source _ (readAll (.limit lim .src) (fresh xs _)).1).nexts ≤ (xs.take lim.toNat).length + 1 ∧
    (lim.toNat ≤ xs.length → (source _ (readAll (.limit lim .src) (fresh xs _)).1).nexts = lim.toNat) := by
  have h := c43_limit_src_next_calls lim hl (remaining (.limit lim .src) (fresh xs _) + 1) {} (fresh xs .src)
  have hv : (readAll (.limit lim .src) (fresh xs _)).2 = xs.take lim.toNat := by
    have := c43_readAll (.limit lim .src) (fresh xs _)
    simpa [toList, fresh, hl] using this
  have hs : (source _ (readAll (.limit lim .src) (fresh xs _)).1).nexts =
      SrcSt.nexts (drain (.limit lim .src) (remaining (.limit lim .src) (fresh xs _) + 1) (fresh xs _)).1.2 := by
    simp only [readAll, source_close]
    rfl
  have hv' : (drain (.limit lim .src) (remaining (.limit lim .src) (fresh xs _) + 1) (fresh xs _)).2 = xs.take lim.toNat := hv
  rw [hs]
  have h1 := h.1
  have h2 := h.2
  simp only [fresh] at h1 h2 hv' ⊢
  rw [hv'] at h1 h2
  simp only [List.length_take] at h1 h2 ⊢
  constructor
  · simpa using h1
  · intro hle
    have h3 := h2 (by simp; omega)
    simp at h3
    omega

/-- Filter over a slice source, counted at the source: a `Next` that yields makes exactly as many
source `Next` calls as elements it consumed (the skipped ones and the yielded one — see
`c43_filter_reads_to_yield`), i.e. none beyond the yielded element; a `Next` that reports the end
makes exactly one call more than the elements it consumed. -/
theorem c43_filter_src_next_calls (p : Int → Bool) (l : LSt) (st : SrcSt) (hd : l.done = false) :
    let r := next (.filter p .src) (l, st)
    SrcSt.nexts r.1.2 + (SrcSt.rest r.1.2).length =
      st.nexts + st.rest.length + (if r.2 then 0 else 1) := by
  have key : ∀ (fuel : Nat) (st : SrcSt) (v : Int) r,
      filterLoop (next .src) (val .src) p fuel st false v = some r →
      SrcSt.nexts r.1 + (SrcSt.rest r.1).length = st.nexts + st.rest.length + (if r.2.2.2 then 0 else 1) := by
    intro fuel
    induction fuel with
    | zero => intro st v r h; simp [filterLoop] at h
    | succ fuel ih =>
      intro st v r hr
      simp only [filterLoop] at hr
      cases hrest : SrcSt.rest st with
      | nil =>
        simp [next, hrest] at hr; subst hr; simp
      | cons x xs =>
        by_cases hp : p x = true
        · simp [next, val, hrest, hp] at hr; subst hr; simp; omega
        · have hp' : p x = false := by cases h' : p x <;> simp_all
          simp [next, val, hrest, hp'] at hr
          have := ih _ _ _ hr
          simp at this ⊢
          omega
  cases he : filterLoop (next .src) (val .src) p (remaining .src st + 1) st l.done l.val with
  | none => exact absurd he (filterLoop_fuel_ok p .src l st)
  | some r =>
    have hn := next_filter_eq p .src l st r he
    rw [hd] at he
    have := key _ _ _ _ he
    rw [hn]
    simpa using this

/-- Any composition, any state: the drain loop of ReadAll makes at most one source `Next` call beyond
the source elements it consumes (the call that finds the end). -/
theorem c43_drain_src_calls (sh : Shape) : ∀ (fuel : Nat) (st : State sh),
    mu sh (drain sh fuel st).1 ≤ mu sh st + 1 := by
  intro fuel
  induction fuel with
  | zero => intro st; simp [drain]
  | succ fuel ih =>
    intro st
    have h := next_mu sh st
    cases hn : (next sh st).2 with
    | false => simpa [drain, hn] using h.2
    | true =>
      have := ih (next sh st).1
      rw [h.1 hn] at this
      simpa [drain, hn] using this

theorem c43_readAll_src_calls (sh : Shape) (st : State sh) :
    (source sh (readAll sh st).1).nexts + (source sh (readAll sh st).1).rest.length ≤
      (source sh st).nexts + (source sh st).rest.length + 1 := by
  have := c43_drain_src_calls sh (remaining sh st + 1) st
  simpa [readAll, source_close, mu] using this

/-- No read-ahead at any depth: draining `Limit(inner, lim)` with `lim > 0` over ANY inner composition,
when the limit is what stops it, makes exactly as many source `Next` calls as source elements consumed
— no call is made to look past the last yielded value. -/
theorem c43_limit_any_src_calls (lim : Int) (hl : lim > 0) (s : Shape) : ∀ (fuel : Nat) (l : LSt) (i : State s),
    ((l.count + (drain (.limit lim s) fuel (l, i)).2.length : Nat) : Int) ≥ lim →
    mu (.limit lim s) (drain (.limit lim s) fuel (l, i)).1 = mu (.limit lim s) (l, i) := by
  intro fuel
  induction fuel with
  | zero => intro l i _; simp [drain]
  | succ fuel ih =>
    intro l i hge
    by_cases hc : lim > 0 ∧ (l.count : Int) ≥ lim
    · simp [drain, next, hc]
    · have hc' : ¬ (l.count : Int) ≥ lim := fun h => hc ⟨hl, h⟩
      cases hn : (next s i).2 with
      | false =>
        simp [drain, next, hc, hn] at hge
        omega
      | true =>
        have hk := (next_mu s i).1 hn
        simp [drain, next, hc, hn] at hge ⊢
        have := ih { l with count := l.count + 1 } (next s i).1 (by simp; omega)
        simp [mu, source] at this hk ⊢
        omega

/-- T-gen tie: the guard of `LimitIter.Next`, REGENERATED from limit.go on every run (`Gen.C43.limitStop`),
is the guard of the model's limit layer … -/
theorem c43_gen_limit_guard (lim : Int) (cnt : Nat) :
    Gen.C43.limitStop lim cnt = decide (lim > 0 ∧ (cnt : Int) ≥ lim) := by
  simp [Gen.C43.limitStop]

/-- … so the model's `Next` on a limit layer returns false without touching the inner iterator exactly
when the regenerated guard holds, and otherwise performs one inner `Next`. -/
theorem c43_gen_limit_next (lim : Int) (s : Shape) (l : LSt) (i : State s) :
    (Gen.C43.limitStop lim l.count = true → next (.limit lim s) (l, i) = ((l, i), false)) ∧
    (Gen.C43.limitStop lim l.count = false →
      (next (.limit lim s) (l, i)).1.2 = (next s i).1 ∧ (next (.limit lim s) (l, i)).2 = (next s i).2) := by
  rw [c43_gen_limit_guard]
  constructor
  · intro h
    have h' : lim > 0 ∧ (l.count : Int) ≥ lim := by simpa using h
    simp [next, h']
    rfl
  · intro h
    have h' : ¬ (lim > 0 ∧ (l.count : Int) ≥ lim) := by simpa using h
    cases hn : (next s i).2 <;> simp [next, h', hn]

/-- T-gen tie: the end test of `SliceIter.Next` (regenerated from slice.go), evaluated at the index `i`
reached after `i` successful reads of `xs`, is the model's "no element left" test on `rest = xs.drop i`. -/
theorem c43_gen_slice_end (xs : List Int) (i : Nat) :
    Gen.C43.sliceEnd i xs.length = (xs.drop i).isEmpty := by
  simp only [Gen.C43.sliceEnd]
  rw [Bool.eq_iff_iff]
  simp [List.isEmpty_iff, List.drop_eq_nil_iff]

/-! Non-vacuity: concrete, non-trivial instances (a depth-3 composition with a positive limit). -/
example : (readAll (.limit 2 (.filter (fun x => x % 2 == 0) (.map (· + 1) .src)))
    (fresh [1, 2, 3, 4, 5, 6] _)).2 = [2, 4] := by decide
example : (source _ (readAll (.limit 2 (.filter (fun x => x % 2 == 0) (.map (· + 1) .src)))
    (fresh [1, 2, 3, 4, 5, 6] _)).1).nexts = 3 := by decide
example : (readAll (.limit 0 (.map (· * 2) .src)) (fresh [1, 2, 3] _)).2 = [2, 4, 6] := by decide

example : JIt.run 4 (JIt.fresh ([] : List Int) [some [1, 2, 3], some [4, 5], some [6]]) =
    [some [1, 2, 3], some [4, 5], some [6]] := by decide

example : (source _ (readAll (.limit 2 .src) (fresh [1, 2, 3, 4, 5] _)).1).nexts = 2 := by decide
example : (source _ (readAll (.limit 7 .src) (fresh [1, 2, 3] _)).1).nexts = 4 := by decide
example : (next (.filter (fun x => x % 2 == 0) .src) (({} : LSt), fresh [1, 3, 4, 5] .src)).1.2.nexts = 3 := by decide
example : let sh := Shape.limit 2 (.filter (fun x => x % 2 == 0) (.map (· + 1) .src))
    let r := drain sh 7 (fresh [1, 2, 3, 4, 5, 6] sh)
    (((0 + r.2.length : Nat) : Int) ≥ 2) ∧ mu sh r.1 = 6 ∧ (source sh r.1).nexts = 3 := by decide
example : Gen.C43.limitStop 2 2 = true ∧ Gen.C43.limitStop 2 1 = false ∧ Gen.C43.limitStop 0 5 = false ∧
    Gen.C43.limitStop (-1) 5 = false := by decide

end C43
