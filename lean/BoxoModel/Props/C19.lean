import BoxoModel.C19.MvProp
/-!
# C19 — MFS behaves as a hierarchical file system and persists what it shows

Property theorems only (helper lemmas: `BoxoModel/C19/{Lemmas,Paths,Refine,MvProp}.lean`).

* the model (`BoxoModel/C19/Model.lean`): the two-level state of every live directory (links of the
  UnixFS directory vs cache of live children), `childUnsync`, `cacheSync`, `localUpdate` /
  `updateChildEntry` up to the root, and the operations of `ops.go` at path level with their error classes;
  `step false` is the repaired code (the two `fix:`es of `Mv`), `step true` has the directory comparison of
  `Mv` as found (names instead of identity);
* the specification (`BoxoModel/C19/Spec.lean`): the same operations on the plain tree `N`, where a failed
  operation has no state to change.

All statements quantify over every state `s : St` (reachable or not: no invariant is needed), every path,
every name (including equal names under different parents) and every operation sequence of any length.
-/
namespace C19

/-- **Refinement.**  For every sequence of operations, started from any MFS state, the repaired model gives
the results of the plain-tree specification started from what that state shows, and afterwards shows the
specification's tree. -/
theorem c19_refines_from (s : St) (ops : List Op) :
    (run false s ops).2 = (srun s.root.view ops).2 ∧
    (run false s ops).1.root.view = (srun s.root.view ops).1 :=
  run_refines ops s

/-- … in particular from the empty root (`NewEmptyRoot`). -/
theorem c19_refines (ops : List Op) :
    (run false St.init ops).2 = (srun (.dir {} .nil) ops).2 ∧
    (run false St.init ops).1.root.view = (srun (.dir {} .nil) ops).1 := by
  have := run_refines ops St.init
  simpa [St.init, L.view, Ents.view] using this

/-- **Failed operations change nothing.**  Whatever an operation that returns an error did to the caches
(children loaded, links synced) or to the tree on its way (`Mv` unlinks an existing destination file before
it adds; `Mkdir` with parents creates directories before it reaches the last component), what the file
system shows afterwards is what it showed before. -/
theorem c19_failed_unchanged (s : St) (op : Op) (e : Err) (h : (step false s op).2 = .error e) :
    (step false s op).1.root.view = s.root.view := by
  have hr : (opR false op s.root).res = .error e := by simpa [step] using h
  simpa [step] using ((opR_sim op).err s.root e hr).2

/-- **Move.**  After a successful `Mv src dst` the node that was at `src` is at the destination
(`mvTarget`: the place named by `dst`, or inside it when a directory is there), and `src` no longer resolves
unless it is the destination itself.  (No side condition: a move of a directory into itself or below
itself is refused by the repaired code, see `c19_mv_into_self_refused`.) -/
theorem c19_mv (s : St) (src dst : Path) (o : Out) (h : (step false s (.mv src dst)).2 = .ok o) :
    ∃ nd, N.get (src.split.1 ++ [src.split.2]) s.root.view = .ok nd ∧
      N.get (mvTarget src dst s.root.view) (step false s (.mv src dst)).1.root.view = .ok nd ∧
      (src.split.1 ++ [src.split.2] ≠ mvTarget src dst s.root.view →
        ∃ e, N.get (src.split.1 ++ [src.split.2]) (step false s (.mv src dst)).1.root.view = .error e) := by
  have h1 := step_refines s (.mv src dst)
  rw [h] at h1
  cases hs : smv src dst s.root.view with
  | error e => simp [sstep, specOp, mapOut, hs] at h1
  | ok r =>
    obtain ⟨u, t'⟩ := r
    have ht' : (step false s (.mv src dst)).1.root.view = t' := by
      simpa [sstep, specOp, mapOut, hs] using h1.2
    rw [ht']
    exact smv_spec hs

/-- a successful move never has its destination strictly inside the source: nothing is lost -/
theorem c19_mv_into_self_refused (s : St) (src dst : Path) (o : Out)
    (h : (step false s (.mv src dst)).2 = .ok o) :
    ¬ ((src.split.1 ++ [src.split.2]) <+: mvTarget src dst s.root.view ∧
      src.split.1 ++ [src.split.2] ≠ mvTarget src dst s.root.view) := by
  obtain ⟨nd, h0, h1, h2⟩ := c19_mv s src dst o h
  rintro ⟨⟨r, hr⟩, hne⟩
  obtain ⟨e, he⟩ := h2 hne
  rw [← hr, N.get_append, he] at h1
  simp at h1

/-- the usual case of `c19_mv`: a plain source path `…/name`; its components are `src.comps` -/
theorem c19_mv_split (src : Path) (h : src.trailing = false) (hne : src.comps ≠ []) :
    src.split.1 ++ [src.split.2] = src.comps := by
  cases hl : src.comps.getLast? with
  | none => simp [List.getLast?_eq_none_iff] at hl; exact absurd hl hne
  | some last =>
    obtain ⟨ys, hys⟩ := List.getLast?_eq_some_iff.mp hl
    simp [Path.split, h, hys]

/-- **Flush persists.**  After a successful `FlushPath p` the node handed to the root's publisher describes,
at and below `p`, exactly what the file system shows there … -/
theorem c19_flush_persists (s : St) (p : List Name) (o : Out) (h : (step false s (.flush p)).2 = .ok o) :
    N.get p (step false s (.flush p)).1.pub = N.get p (step false s (.flush p)).1.root.view := by
  have hr : (atPath p actFlush s.root).res = .ok () := by
    cases hx : (atPath p actFlush s.root).res with
    | ok u => rfl
    | error e => simp [step, opR, R.out, hx, Except.map] at h
  obtain ⟨nd, hup, hget⟩ := flush_up p s.root hr
  simpa [step, opR, R.out, hup] using hget

/-- … and after a flush of the root the published node IS the tree the file system shows (every cached
child synced, at every depth). -/
theorem c19_flush_root (s : St) : (step false s (.flush [])).1.pub = (step false s (.flush [])).1.root.view := by
  have h : (step false s (.flush [])).2 = .ok .unit := by
    simp [step, opR, R.out, atPath]
    cases s.root <;> simp [actFlush, Except.map]
  simpa using c19_flush_persists s [] .unit h

/-- `GetNode()` (what `Mv` moves, what `FlushPath` returns) is the tree the object shows, and asking for it
does not change what is shown. -/
theorem c19_getnode_is_view (l : L) :
    (actGetNode l).res = .ok l.view ∧ (actGetNode l).l.view = l.view := by
  simp [actGetNode, L.node_sync, L.view_sync]

/-! ### a write descriptor kept open across operations (`stepD`, `flushUp`) -/

/-- an operation that is not refused behaves exactly as without a descriptor: all theorems about `step`
(refinement, failed-unchanged, move, flush) apply to it -/
theorem c19_fd_base_is_step (s : StD) (fd : Fd) (op : Op) (hfd : s.fd = some fd) (hb : busyOp fd op = false) :
    (stepD s (.base op)).1.st = (step false s.st op).1 ∧ (stepD s (.base op)).2 = (step false s.st op).2 := by
  simp [stepD, hfd, hb]

/-- a refused operation changes nothing -/
theorem c19_fd_busy_unchanged (s : StD) (fd : Fd) (op : Op) (hfd : s.fd = some fd) (hb : busyOp fd op = true) :
    stepD s (.base op) = (s, .error .busy) := by
  simp [stepD, hfd, hb]

/-- opening a descriptor and writing / truncating through it do not change what the file system shows:
bytes reach the tree only when the descriptor is flushed or closed -/
theorem c19_fd_buffered (s : StD) (op : OpD)
    (h : (∃ p sync, op = .fdopen p sync) ∨ (∃ off b, op = .fdwrite off b) ∨ (∃ n, op = .fdtrunc n)) :
    (stepD s op).1.st.root.view = s.st.root.view := by
  rcases h with ⟨p, sync, rfl⟩ | ⟨off, b, rfl⟩ | ⟨n, rfl⟩
  · cases hfd : s.fd with
    | some fd => simp [stepD, hfd]
    | none =>
      cases hr : (atPath p actOpen s.st.root).res with
      | error e => simpa [stepD, hfd, hr] using ((atPath_sim sim_open p).err _ e hr).2
      | ok r =>
        have h1 := (atPath_sim sim_open p).ok _ r hr
        have : Query (fun t : N => match t with
            | .file d m => (.ok ((d, m), .file d m) : Except Err ((Bytes × Meta) × N))
            | .dir .. => .error .isdir) := by
          intro t a t' ht; cases t <;> simp at ht; exact ht.2.symm
        simpa [stepD, hfd, hr] using query_atPath this p _ _ _ h1
  · cases hfd : s.fd <;> simp [stepD, hfd]
  · cases hfd : s.fd <;> simp [stepD, hfd]

/-- **Flush of a detached descriptor is inert** (repaired code): once the entry of the open file, or an entry
above it, was unlinked or moved away, flushing or closing the descriptor changes neither the tree nor
what is published -- in particular it does not bring the old path back. -/
theorem c19_fd_detached_inert (full : Bool) (s : St) (fd : Fd) (h : fd.att = false) :
    (flushUp full s fd).1 = s := by
  unfold flushUp
  split
  · rfl
  · simp [h]

/-- **Flush of an attached descriptor** puts the descriptor's bytes (and the metadata the file had when the
descriptor was opened) at its path, and nothing else changes. -/
theorem c19_fd_flush_attached (full : Bool) (s : St) (fd : Fd) (hatt : fd.att = true) (hdirty : fd.clean = false) :
    (flushUp full s fd).1.root.view =
      match N.atPath fd.path (sSetFile fd.buf fd.m) s.root.view with
      | .ok r => r.2
      | .error _ => s.root.view := by
  have sim := atPath_sim (sim_setFile full fd.buf fd.m) fd.path
  cases hr : (atPath fd.path (actSetFile full fd.buf fd.m) s.root).res with
  | ok u => simp [flushUp, hatt, hdirty, sim.ok _ u hr]
  | error e => simp [flushUp, hatt, hdirty, (sim.err _ e hr).1, (sim.err _ e hr).2]

/-- … which is a plain write of the bytes when no chmod / touch hit the file since the descriptor was opened
(guard; otherwise the flush puts the old metadata back: known finding `fd-flush-reverts-metadata`). -/
theorem c19_fd_flush_is_write_partial (full : Bool) (s : St) (fd : Fd) (hatt : fd.att = true)
    (hdirty : fd.clean = false) (d0 : Bytes) (hmeta : N.get fd.path s.root.view = .ok (.file d0 fd.m)) :
    N.atPath fd.path (sWrite fun _ => fd.buf) s.root.view = .ok ((), (flushUp full s fd).1.root.view) := by
  have h := c19_fd_flush_attached full s fd hatt hdirty
  rw [setFile_eq_write hmeta] at h
  rw [h, N.atPath_eq, hmeta]
  simp [sWrite]

/-- the metadata is indeed put back (model of the code as it is): chmod between open and close is lost -/
theorem c19_fd_flush_reverts_metadata_counterexample :
    let ops : List OpD := [.base (.put ⟨["f"], false⟩ (.file [] {})), .fdopen ["f"] true, .fdwrite 0 [1],
      .base (.chmod ["f"] 0o600), .fdclose]
    (N.get ["f"] (runD ⟨St.init, none⟩ (ops.take 4)).1.st.root.view) = .ok (.file [] { mode := 0o600 }) ∧
    (N.get ["f"] (runD ⟨St.init, none⟩ ops).1.st.root.view) = .ok (.file [1] {}) := by
  decide

/-- a flush that tells the parent (`Flush`, `Close` of a Sync descriptor) persists: what reaches the
publisher shows the file exactly as the file system does -/
theorem c19_fd_flush_persists (s : St) (fd : Fd) (hatt : fd.att = true) (hdirty : fd.clean = false)
    (hok : (atPath fd.path (actSetFile true fd.buf fd.m) s.root).res = .ok ()) :
    N.get fd.path (flushUp true s fd).1.pub = N.get fd.path (flushUp true s fd).1.root.view := by
  obtain ⟨nd, hup, hget⟩ := atPath_up (act := actSetFile true fd.buf fd.m)
    (fun l a h => by cases l <;> simp [actSetFile] at h ⊢ <;> simp [L.view]) fd.path s.root () hok
  simpa [flushUp, hatt, hdirty, hup] using hget

/-- **An operation landing in the propagation gap** (between a directory's local update and its call to the
parent, schedule point `Directory.updateChildEntry:localDone`, at any depth `k`) gives exactly the results
and the tree of the sequential composition "trigger, then intruder": the flushed content is in what the
intruder moves, and a directory the intruder unlinked or moved away is not written back under its old
name (the `unlinked` check comes after the gap). -/
theorem c19_race_sequential (st : St) (k : Nat) (o intr : Op) :
    (stepRace ⟨st, none⟩ k (.op o) intr).2.1 = (step false st o).2 ∧
    (stepRace ⟨st, none⟩ k (.op o) intr).2.2 = (step false (step false st o).1 intr).2 ∧
    (stepRace ⟨st, none⟩ k (.op o) intr).1.st.root.view =
      (step false (step false st o).1 intr).1.root.view := by
  -- the shape shared by the three operations whose propagation can be cut
  have cut : ∀ (p : List Name) (act : L → R Out) (post : St → St),
      (∀ s', (post s').root.view = s'.root.view) →
      (step false st o).2 = (atPath p act st.root).res →
      (step false st o).1.root.view = (atPath p act st.root).l.view →
      let sr := splitRun k p act st.root
      let r2 := stepD ⟨⟨sr.1.l, sr.1.up.getD st.pub⟩, none⟩ (.base intr)
      sr.1.res = (step false st o).2 ∧ r2.2 = (step false (step false st o).1 intr).2 ∧
      (post (resume r2.1.st sr.2)).root.view = (step false (step false st o).1 intr).1.root.view := by
    intro p act post hpost h1 h2
    have hs := splitRun_view k p act st.root
    have hc := step_view_congr (s1 := ⟨(splitRun k p act st.root).1.l, (splitRun k p act st.root).1.up.getD st.pub⟩)
      (s2 := (step false st o).1) (by simp [hs.2, h2]) intr
    refine ⟨by rw [hs.1, h1], by simpa [stepD] using hc.1, ?_⟩
    rw [hpost, resume_view]
    simpa [stepD] using hc.2
  cases o with
  | write p off b sync =>
    have := cut p (fun l => (actWrite sync (writeAt off b) l).out fun _ => .unit) id (fun _ => rfl)
      (by rw [atPath_out]; simp [step, opR]) (by rw [atPath_out]; simp [step, opR, R.out])
    simpa [stepRace, trigAct] using this
  | trunc p size sync =>
    have := cut p (fun l => (actWrite sync (truncTo size) l).out fun _ => .unit) id (fun _ => rfl)
      (by rw [atPath_out]; simp [step, opR]) (by rw [atPath_out]; simp [step, opR, R.out])
    simpa [stepRace, trigAct] using this
  | flush p =>
    have := cut p (fun l => (actFlush l).out fun _ => .unit)
      (fun s' => if s'.root.cachedAt p then ⟨(atPath p actGetNode s'.root).l, s'.pub⟩ else s')
      (fun s' => by split <;> simp [getNode_view])
      (by rw [atPath_out]; simp [step, opR]) (by rw [atPath_out]; simp [step, opR, R.out])
    simpa [stepRace, trigAct] using this
  | _ => simp [stepRace, trigAct, stepD]

/-- **The code as found violates the move property**: two different directories with the same name.
`Mv /a/x/f /b/x/f` returns success and `/a/x/f` is still there (with the repaired comparison it is gone). -/
def cexOps : List Op :=
  [.mkdir ["a", "x"] true false {}, .mkdir ["b", "x"] true false {},
   .put ⟨["a", "x", "f"], false⟩ (.file [] {}), .mv ⟨["a", "x", "f"], false⟩ ⟨["b", "x", "f"], false⟩]

theorem c19_mv_counterexample_original :
    (run true St.init cexOps).2.getLast? = some (.ok .unit) ∧
    (N.get ["a", "x", "f"] (run true St.init cexOps).1.root.view).toOption.isSome = true ∧
    (N.get ["b", "x", "f"] (run true St.init cexOps).1.root.view).toOption.isSome = true ∧
    (N.get ["a", "x", "f"] (run false St.init cexOps).1.root.view).toOption.isSome = false := by
  decide

/-! ### Non-vacuity -/

/-- a state with unsynced caches at two levels: the root's link for `a` is stale, `a`'s link for `f` is stale -/
def exState : St := (run false St.init
  [.mkdir ["a", "x"] true false { mode := 0o755 }, .mkdir ["b", "x"] true false {},
   .put ⟨["a", "x", "f"], false⟩ (.file [] {}), .write ["a", "x", "f"] 0 [1, 2, 3] false]).1

-- the links of the root know nothing of what happened below (only the caches do) …
example : exState.root.node = .dir {} (.cons "a" (.dir {} .nil) (.cons "b" (.dir {} .nil) .nil)) := by decide
-- … but the file system shows it
example : (N.get ["a", "x", "f"] exState.root.view).toOption.isSome = true := by decide
-- a successful move between equally named directories (hypotheses of `c19_mv` hold: guard, success)
example : (step false exState (.mv ⟨["a", "x", "f"], false⟩ ⟨["b", "x"], false⟩)).2 = .ok .unit := by decide
example : mvTarget ⟨["a", "x", "f"], false⟩ ⟨["b", "x"], false⟩ exState.root.view = ["b", "x", "f"] := by decide
-- a failing operation that did mutate the state underneath: moving onto an existing name inside a directory
example : (step false exState (.mv ⟨["a", "x"], false⟩ ⟨["b"], false⟩)).2 = .error .exists_ := by decide
example : (step false exState (.mv ⟨["a", "x"], false⟩ ⟨["b"], false⟩)).1.root ≠ exState.root := by decide
-- a directory is not moved into itself or below itself (the unrepaired code accepts this and loses the subtree)
example : (step false exState (.mv ⟨["a"], false⟩ ⟨["a", "x"], false⟩)).2 = .error .intoself := by decide
example : (step false exState (.mv ⟨["a"], false⟩ ⟨[], true⟩)).2 = .error .intoself := by decide
-- a descriptor opened on /a/x/f stays attached over unrelated operations and is detached by a move of /a
example : ((runD ⟨exState, none⟩ [.fdopen ["a", "x", "f"] true, .base (.mkdir ["b", "y"] false false {}),
    .fdwrite 3 [9]]).1.fd.map (·.att)) = some true := by decide
example : ((runD ⟨exState, none⟩ [.fdopen ["a", "x", "f"] true, .base (.mv ⟨["a"], false⟩ ⟨["c"], false⟩),
    .fdwrite 3 [9]]).1.fd.map (·.att)) = some false := by decide
-- … and closing it afterwards does not bring /a back
example : (N.get ["a"] (runD ⟨exState, none⟩ [.fdopen ["a", "x", "f"] true,
    .base (.mv ⟨["a"], false⟩ ⟨["c"], false⟩), .fdwrite 3 [9], .fdclose]).1.st.root.view).toOption.isSome = false := by
  decide
-- an attached close writes the bytes
example : N.get ["a", "x", "f"] (runD ⟨exState, none⟩ [.fdopen ["a", "x", "f"] true, .fdwrite 3 [9],
    .fdclose]).1.st.root.view = .ok (.file [1, 2, 3, 9] {}) := by decide
-- flush of a sub-directory publishes a root that is NOT the whole view (the sibling stays stale) …
example : (step false exState (.flush ["b"])).1.pub ≠ (step false exState (.flush ["b"])).1.root.view := by decide
-- … while `c19_flush_persists` holds at the flushed path
example : (step false exState (.flush ["a", "x"])).2 = .ok .unit := by decide

end C19
