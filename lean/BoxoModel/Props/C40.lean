import BoxoModel.C40.Lemmas
/-!
# C40 — Keystore is a confined name-to-key map

Property theorems only.  The model is of the code WITH the fix "keystore: Delete of a missing key
returns ErrNoSuchKey in both implementations"; the in-memory keystore model (`memStep`, an
association map that refuses to overwrite) is the map specification.  Names and keys are arbitrary
byte strings; histories have any length; `cfg.dir` is any directory path and `cfg.limit` any file
name length limit.  `ValidName` = non-empty name whose encoded file name fits the limit (the
property's quantifier).
-/
namespace C40
open BaseN

/-- **Refinement / agreement.** From a keystore directory that holds exactly the files of a map `m`,
every history over valid names gives the same results from the file-system keystore as from the
in-memory keystore (including `ErrKeyExists` on overwrite, `ErrNoSuchKey` on Get/Delete of a missing
key, and the listed names), and the directory again holds exactly the files of the resulting map. -/
theorem c40_refines (cfg : Cfg) (fs : FS) (m : Mem) (ops : List Op) (hs : Sim cfg fs m)
    (hv : ∀ op ∈ ops, ValidOp cfg op) :
    (fsRun cfg fs ops).2 = (memRun m ops).2 ∧ Sim cfg (fsRun cfg fs ops).1 (memRun m ops).1 :=
  run_sim cfg fs m ops hs hv

/-- the same from an empty directory and an empty map — the statement "FSKeystore agrees with
MemKeystore" of the property, with no guard on `Delete` -/
theorem c40_agree_mem (cfg : Cfg) (ops : List Op) (hv : ∀ op ∈ ops, ValidOp cfg op) :
    (fsRun cfg {} ops).2 = (memRun [] ops).2 :=
  (run_sim cfg {} [] ops (sim_empty cfg) hv).1

/-- the in-memory keystore is a map that refuses to overwrite: reading of `memStep` -/
theorem c40_mem_is_map (m : Mem) (n k : Bytes) (hn : n ≠ []) :
    (memStep m (.put n k)).2 = (if (AMap.find m n).isSome then .exists else .ok) ∧
    (∀ x, AMap.find (memStep m (.put n k)).1 x =
      if x = n ∧ (AMap.find m n).isNone then some k else AMap.find m x) ∧
    (memStep m (.get n)).2 = (match AMap.find m n with | some k => .key k | none => .noSuchKey) ∧
    (memStep m (.has n)).2 = .bool (AMap.find m n).isSome ∧
    (∀ x, AMap.find (memStep m (.delete n)).1 x = if x = n then none else AMap.find m x) ∧
    (memStep m .list).2 = .names (AMap.keys m) := by
  refine ⟨?_, ?_, ?_, rfl, ?_, rfl⟩
  · simp only [memStep, hn, if_false]
    cases AMap.find m n <;> rfl
  · intro x
    simp only [memStep, hn, if_false]
    cases hf : AMap.find m n with
    | some k' => simp
    | none =>
      simp only [AMap.find_insert, Option.isNone_none, and_true]
      by_cases hx : x = n
      · simp [hx]
      · have : ¬ n = x := fun e => hx e.symm
        simp [hx, this]
  · simp only [memStep]; cases AMap.find m n <;> rfl
  · intro x
    simp only [memStep]
    cases hf : AMap.find m n with
    | some k' =>
      simp only [AMap.find_erase]
      by_cases hx : x = n
      · simp [hx]
      · have : ¬ n = x := fun e => hx e.symm
        simp [hx, this]
    | none =>
      by_cases hx : x = n
      · simp [hx, hf]
      · simp [hx]

/-- `List` returns the names themselves: decoding an encoded file name gives the name back -/
theorem c40_decode_encode (n : Bytes) : decodeName (encName n) = some n := decodeName_encName n

/-- names that differ (even only in letter case) get different files -/
theorem c40_filename_injective (a b : Bytes) (h : encName a = encName b) : a = b :=
  encName_injective a b h

/-- **Confinement.** For every history over *arbitrary* names (slashes, "..", NUL, any length, empty),
every path handed to a system call is the keystore directory itself or `dir/<component>` where the
component contains no '/', is not empty, "." or ".." … -/
theorem c40_confined (cfg : Cfg) (ops : List Op) :
    ∀ p ∈ (fsRun cfg {} ops).1.touched, Confined cfg p :=
  touched_run cfg {} ops (by intro p hp; simp at hp)

/-- … and, whatever the file system held at the start (foreign symbolic links — dangling or live —
directories, junk files inside or outside the keystore directory), every keystore-written file that
exists afterwards was there before or is such a path; the keystore never creates a foreign object. -/
theorem c40_files_confined (cfg : Cfg) (fs : FS) (ops : List Op) :
    (∀ p ∈ AMap.keys (fsRun cfg fs ops).1.files, p ∈ AMap.keys fs.files ∨ Confined cfg p) ∧
    (∀ p ∈ AMap.keys (fsRun cfg fs ops).1.foreign, p ∈ AMap.keys fs.foreign) :=
  ⟨files_run cfg fs ops, foreign_run cfg fs ops⟩

/-- **Refusing to overwrite, at the directory-entry level.** `Put` of a name whose file name is taken
by ANY entry — key file, foreign file, directory, or a symbolic link even when it dangles (so that
`Has` says false and `Get` says no-such-key) — returns `ErrKeyExists` and changes nothing: the
exclusive create never follows the link out of the directory. -/
theorem c40_put_refuses_entry (cfg : Cfg) (fs : FS) (n key : Bytes) (hn : ValidName cfg n)
    (he : (fs.entry (join cfg.dir (encName n))).isSome = true) :
    (fsStep cfg fs (.put n key)).2 = .exists ∧ (fsStep cfg fs (.put n key)).1.files = fs.files ∧
      (fsStep cfg fs (.put n key)).1.foreign = fs.foreign :=
  put_refuses_entry cfg fs n key hn he

/-- **Two Puts of one name** (the sequential reading of the concurrent case — the exclusive create is
one atomic system call, so two racing Puts behave as one of the two orders): whatever the directory
held, if the first Put succeeds the second is refused with `ErrKeyExists`, changes nothing, and `Get`
returns the first key. -/
theorem c40_second_put_refused (cfg : Cfg) (fs : FS) (n k1 k2 : Bytes) (hn : ValidName cfg n)
    (hok : (fsStep cfg fs (.put n k1)).2 = .ok) :
    (fsStep cfg (fsStep cfg fs (.put n k1)).1 (.put n k2)).2 = .exists ∧
    (fsStep cfg (fsStep cfg fs (.put n k1)).1 (.put n k2)).1.files = (fsStep cfg fs (.put n k1)).1.files ∧
    (fsStep cfg (fsStep cfg fs (.put n k1)).1 (.get n)).2 = .key k1 := by
  have he := entry_after_put cfg fs n k1 hn hok
  obtain ⟨h1, h2, _⟩ := put_refuses_entry cfg (fsStep cfg fs (.put n k1)).1 n k2 hn (by rw [he]; rfl)
  refine ⟨h1, h2, ?_⟩
  simp only [fsStep, encodeName_eq n hn.1, FS.readFile, entry_touch, not_too_long cfg n hn, if_false]
  simp only [fsStep, encodeName_eq n hn.1] at he
  rw [he]

/-- a `Put` that fails because the key cannot be marshalled leaves the file system exactly as it was
(no empty key file that would make `Has` true, `Get` undecodable and a later `Put` impossible) -/
theorem c40_failed_put_changes_nothing (fs : FS) (name : Bytes) :
    (fsPutUnmarshalable fs name).1 = fs ∧ (fsPutUnmarshalable fs name).2 ≠ .ok := by
  unfold fsPutUnmarshalable
  cases encodeName name <;> simp

/-- before the fix the two implementations disagreed on `Delete` of a missing key; the fixed model
returns `noSuchKey` from both (regression anchor for the `fix:` commit) -/
theorem c40_delete_missing_agree (cfg : Cfg) (n : Bytes) (h : ValidName cfg n) :
    (fsStep cfg {} (.delete n)).2 = .noSuchKey ∧ (memStep [] (.delete n)).2 = .noSuchKey := by
  have := (step_sim cfg {} [] (.delete n) (sim_empty cfg) (by intro x hx; cases hx; exact h)).1
  have hm : (memStep [] (.delete n)).2 = .noSuchKey := by simp [memStep, AMap.find]
  exact ⟨this.trans hm, hm⟩

/-! Non-vacuity: names with a slash, "..", and a case pair, under "/repo/keystore" with NAME_MAX 255 -/
section Examples
private def cfg0 : Cfg := { dir := "/ks".toList, limit := 255 }
example : ValidName cfg0 [0x2e, 0x2e] := ⟨by decide, by decide⟩
example : (fsRun cfg0 {} [.put [0x2e, 0x2e] [1], .put [0x61, 0x2f, 0x62] [2], .put [0x61] [3], .put [0x41] [4],
    .put [0x61] [5], .get [0x41], .delete [0x2e, 0x2e], .delete [0x2e, 0x2e], .list]).2
    = [.ok, .ok, .ok, .ok, .exists, .key [4], .ok, .noSuchKey, .names [[0x41], [0x61], [0x61, 0x2f, 0x62]]] := by
  decide
example : String.ofList (encName [0x2e, 0x2e]) = "key_fyxa" := by decide
/-- a dangling symbolic link under the file name of "..": listed, not there for Has/Get, refused by Put -/
example : (fsRun cfg0 { foreign := [("/ks/key_fyxa".toList, .symlink "/outside/stolen".toList)] }
    [.list, .has [0x2e, 0x2e], .get [0x2e, 0x2e], .put [0x2e, 0x2e] [1], .delete [0x2e, 0x2e], .list]).2
    = [.names [[0x2e, 0x2e]], .bool false, .noSuchKey, .exists, .ok, .names []] := by decide
end Examples

end C40
